module verifharness

go 1.23

require (
	github.com/diiyw/nodis v0.0.0
	google.golang.org/protobuf v1.34.2
)

require (
	github.com/DataDog/zstd v1.4.5 // indirect
	github.com/beorn7/perks v1.0.1 // indirect
	github.com/cespare/xxhash/v2 v2.2.0 // indirect
	github.com/cockroachdb/errors v1.11.3 // indirect
	github.com/cockroachdb/fifo v0.0.0-20240606204812-0bbfbd93a7ce // indirect
	github.com/cockroachdb/logtags v0.0.0-20230118201751-21c54148d20b // indirect
	github.com/cockroachdb/pebble v1.1.2 // indirect
	github.com/cockroachdb/redact v1.1.5 // indirect
	github.com/cockroachdb/tokenbucket v0.0.0-20230807174530-cc333fc44b06 // indirect
	github.com/getsentry/sentry-go v0.27.0 // indirect
	github.com/gogo/protobuf v1.3.2 // indirect
	github.com/golang/protobuf v1.5.3 // indirect
	github.com/golang/snappy v0.0.4 // indirect
	github.com/gorilla/websocket v1.5.3 // indirect
	github.com/kr/pretty v0.3.1 // indirect
	github.com/kr/text v0.2.0 // indirect
	github.com/matttproud/golang_protobuf_extensions v1.0.2-0.20181231171920-c182affec369 // indirect
	github.com/pkg/errors v0.9.1 // indirect
	github.com/prometheus/client_golang v1.12.0 // indirect
	github.com/prometheus/client_model v0.2.1-0.20210607210712-147c58e9608a // indirect
	github.com/prometheus/common v0.32.1 // indirect
	github.com/prometheus/procfs v0.7.3 // indirect
	github.com/rogpeppe/go-internal v1.9.0 // indirect
	github.com/tidwall/btree v1.7.0 // indirect
	golang.org/x/exp v0.0.0-20230626212559-97b1e661b5df // indirect
	golang.org/x/sys v0.18.0 // indirect
	golang.org/x/text v0.14.0 // indirect
)

replace github.com/diiyw/nodis => /repo
