package main

import (
	"bufio"
	"flag"
	"fmt"
	"io"
	"os"
	"reflect"
	"strconv"
	"strings"

	"github.com/diiyw/nodis/redis"
)

// chunkReader delivers a byte stream according to a plan of offered sizes (same rule as
// net_read in coq/Model/Reader.v) and records the size of every Read request.
type chunkReader struct {
	data []byte
	cuts []int
	reqs []int
}

func (c *chunkReader) Read(p []byte) (int, error) {
	want := len(p)
	c.reqs = append(c.reqs, want)
	if want == 0 {
		return 0, nil
	}
	if len(c.data) == 0 {
		return 0, io.EOF
	}
	offered := want
	if len(c.cuts) > 0 {
		offered = c.cuts[0]
		c.cuts = c.cuts[1:]
	}
	k := offered
	if want < k {
		k = want
	}
	if len(c.data) < k {
		k = len(c.data)
	}
	if k < 1 {
		k = 1
	}
	copy(p, c.data[:k])
	c.data = c.data[k:]
	return k, nil
}

func optionsTokens(o redis.Options) string {
	v := reflect.ValueOf(o)
	var b strings.Builder
	for i := 0; i < v.NumField(); i++ {
		if i > 0 {
			b.WriteByte(',')
		}
		b.WriteString(strconv.FormatInt(v.Field(i).Int(), 10))
	}
	return b.String()
}

func optionNames() string {
	t := reflect.TypeOf(redis.Options{})
	var n []string
	for i := 0; i < t.NumField(); i++ {
		n = append(n, t.Field(i).Name)
	}
	return strings.Join(n, ",")
}

type rcmd struct {
	name string
	args []string // tokens
}

func intsTok(xs []int) string {
	if len(xs) == 0 {
		return "-"
	}
	s := make([]string, len(xs))
	for i, x := range xs {
		s[i] = strconv.Itoa(x)
	}
	return strings.Join(s, ",")
}

// one case: a pipeline of commands, one stream, one cut plan
func readerCase(w *bufio.Writer, id string, cmds []rcmd, cuts []int, trailing []byte) {
	var stream []byte
	for _, c := range cmds {
		args := make([][]byte, len(c.args))
		for i, a := range c.args {
			args[i] = parseTok(a)
		}
		stream = append(stream, respEncode(string(parseTok(c.name)), args)...)
	}
	stream = append(stream, trailing...)
	fmt.Fprintf(w, "RD %s %d %s %d %s\n", id, len(cmds), intsTok(cuts), len(stream), tokBytes(trailing))
	for _, c := range cmds {
		fmt.Fprintf(w, "G %s %d %s\n", c.name, len(c.args), joinToks(c.args))
	}
	runReader(w, stream, cuts, len(cmds)+1)
}

// readerRaw: an arbitrary (possibly malformed) byte stream
func readerRaw(w *bufio.Writer, id string, stream []byte, cuts []int, maxCmds int) {
	fmt.Fprintf(w, "RW %s %d %s %s\n", id, maxCmds, intsTok(cuts), tokBytes(stream))
	runReader(w, stream, cuts, maxCmds)
}

func runReader(w *bufio.Writer, stream []byte, cuts []int, maxCmds int) {
	cr := &chunkReader{data: append([]byte(nil), stream...), cuts: append([]int(nil), cuts...)}
	rd := redis.NewReader(cr)
	var kept []redis.Command // what a handler may keep (queued closures in MULTI hold the command)
	var keptTok []string
	for i := 0; i < maxCmds; i++ {
		var err error
		p := safe(func() { err = rd.ReadCommand() })
		if p != "" {
			fmt.Fprintf(w, "PANIC %s\n", p)
			break
		}
		if err != nil {
			fmt.Fprintf(w, "ERR %s\n", strings.ReplaceAll(err.Error(), " ", "_"))
			break
		}
		c := rd.VerifCmd()
		toks := make([]string, len(c.Args))
		for j, a := range c.Args {
			toks[j] = tokOut([]byte(a))
		}
		line := fmt.Sprintf("C %s %d %s O %s", tokOut([]byte(c.Name)), len(c.Args), joinToks(toks), optionsTokens(c.Options))
		fmt.Fprintln(w, line)
		kept = append(kept, c)
		keptTok = append(keptTok, line)
	}
	// a command handed to the handler must not change when later commands are parsed
	for i, c := range kept {
		toks := make([]string, len(c.Args))
		for j, a := range c.Args {
			toks[j] = tokOut([]byte(a))
		}
		line := fmt.Sprintf("C %s %d %s O %s", tokOut([]byte(c.Name)), len(c.Args), joinToks(toks), optionsTokens(c.Options))
		if line != keptTok[i] {
			fmt.Fprintf(w, "STALE %d\n", i)
			break
		}
	}
	fmt.Fprintf(w, "RQ %s\n", intsTok(cr.reqs))
	fmt.Fprintf(w, "LEFT %d\n", len(cr.data))
}

func readerMain(args []string) {
	fs := flag.NewFlagSet("reader", flag.ExitOnError)
	seed := fs.Uint64("seed", 1, "")
	tier := fs.String("tier", "quick", "")
	out := fs.String("out", "", "")
	fs.Parse(args)
	w := bufio.NewWriterSize(os.Stdout, 1<<20)
	if *out != "" {
		f, err := os.Create(*out)
		if err != nil {
			panic(err)
		}
		defer f.Close()
		w = bufio.NewWriterSize(f, 1<<20)
	}
	defer w.Flush()
	fmt.Fprintf(w, "OPTNAMES %s\n", optionNames())
	r := newRng(*seed)
	words := []string{"NX", "XX", "LT", "GT", "MATCH", "COUNT", "TYPE", "EX", "EXAT", "PX", "PXAT", "GET", "KEEPTTL", "CH", "INCR",
		"WITHSCORES", "LIMIT", "BYSCORE", "BYLEX", "REV", "WEIGHTS", "AGGREGATE", "BYTE", "BIT", "KM", "M", "FT", "MI", "ASC", "DESC",
		"ANY", "WITHDIST", "WITHCOORD", "WITHHASH", "NUMKEYS"}
	arg := func() string {
		switch r.intn(14) {
		case 0:
			return "-"
		case 1:
			return lit("\r\n")
		case 2:
			return lit("*3\r\n$3\r\nSET\r\n")
		case 3:
			return lit("\x00\"'$*\\")
		case 4:
			return tokPattern(4095+r.intn(3), r.intn(256))
		case 5:
			// a 65-70 KiB bulk costs the byte-level model reader about 0.65 s: one in six at the quick tier, one in three at the thorough tier
			if (*tier == "thorough" && r.intn(3) == 0) || (*tier != "thorough" && r.intn(6) == 0) {
				return tokPattern(65536+r.intn(5000), r.intn(256))
			}
			return tokPattern(300, 1)
		case 6, 7:
			wd := r.pick(words)
			switch r.intn(4) {
			case 0:
				return lit(strings.ToLower(wd))
			case 1:
				return lit(wd + "X") // not a whole-word match
			case 2:
				return lit(" " + wd)
			}
			return lit(wd)
		case 8:
			return tokBytes(r.bytes(1 + r.intn(8)))
		default:
			return lit(r.pick([]string{"k", "v", "10", "key:1", "hello world", "ÿþ"}))
		}
	}
	name := func() string {
		return lit(r.pick([]string{"SET", "set", "GeT", "ECHO", "zadd", "Scan", "x", "", "PING", "UNKNOWNCOMMAND", "get\r\n"}))
	}
	// exhaustive single and double cuts for short streams
	short := []rcmd{{name: lit("seT"), args: []string{lit("k"), lit("a\r\nb"), lit("nx")}}, {name: lit("GET"), args: []string{"-"}}}
	var slen int
	{
		var st []byte
		for _, c := range short {
			a := make([][]byte, len(c.args))
			for i, x := range c.args {
				a[i] = parseTok(x)
			}
			st = append(st, respEncode(string(parseTok(c.name)), a)...)
		}
		slen = len(st)
	}
	n := 0
	for i := 1; i < slen; i++ {
		readerCase(w, fmt.Sprintf("cut1-%d", i), short, []int{i}, nil)
		n++
	}
	step := 1
	if *tier != "thorough" {
		step = 5
	}
	for i := 1; i < slen; i += step {
		for j := 1; i+j < slen; j += step {
			readerCase(w, fmt.Sprintf("cut2-%d-%d", i, j), short, []int{i, j}, nil)
			n++
		}
	}
	// byte-at-a-time
	readerCase(w, "bytewise", short, make1s(slen), []byte("*"))
	// random pipelines with random cuts
	cases := 150
	if *tier == "thorough" {
		cases = 3000
	}
	for c := 0; c < cases; c++ {
		k := 1 + r.intn(5)
		if c%50 == 0 {
			k = 200 + r.intn(800) // deep pipeline
		}
		var cmds []rcmd
		for i := 0; i < k; i++ {
			na := r.intn(6)
			if k > 100 {
				na = r.intn(3)
			}
			var as []string
			for j := 0; j < na; j++ {
				a := arg()
				if k > 100 && strings.HasPrefix(a, "P") {
					a = lit("v")
				}
				as = append(as, a)
			}
			cmds = append(cmds, rcmd{name: name(), args: as})
		}
		var cuts []int
		switch r.intn(4) {
		case 0: // unlimited
		case 1:
			for i := 0; i < 40; i++ {
				cuts = append(cuts, 1+r.intn(7))
			}
		case 2:
			for i := 0; i < 200; i++ {
				cuts = append(cuts, 1+r.intn(5000))
			}
		default:
			for i := 0; i < 100; i++ {
				cuts = append(cuts, 1)
			}
		}
		var trailing []byte
		if r.intn(3) == 0 {
			trailing = []byte("*2\r\n$4\r\nECHO\r\n$1") // a truncated next frame
		}
		readerCase(w, fmt.Sprintf("rnd-%d", c), cmds, cuts, trailing)
	}
	// every hostile length once as a bulk length and once as an array count, whole and cut into single bytes
	for i, l := range hostileLens {
		readerRaw(w, fmt.Sprintf("mal-bulklen-%d", i), []byte("*2\r\n$4\r\nECHO\r\n$"+l+"\r\nabc\r\n*1\r\n$4\r\nPING\r\n"), nil, 3)
		readerRaw(w, fmt.Sprintf("mal-count-%d", i), []byte("*"+l+"\r\n$4\r\nECHO\r\n$3\r\nabc\r\n*1\r\n$4\r\nPING\r\n"), make1s(60), 3)
	}
	// hostile byte streams
	nm := 400
	if *tier == "thorough" {
		nm = 8000
	}
	for c := 0; c < nm; c++ {
		var cuts []int
		if r.intn(2) == 0 {
			for i := 0; i < 30; i++ {
				cuts = append(cuts, 1+r.intn(4))
			}
		}
		readerRaw(w, fmt.Sprintf("mal-%d", c), r.malformed(), cuts, 3)
	}
	// inline (telnet) syntax: outside the model, but nothing a client types may make the reader panic or hang
	for c := 0; c < nm/2; c++ {
		var cuts []int
		if r.intn(2) == 0 {
			for i := 0; i < 30; i++ {
				cuts = append(cuts, 1+r.intn(3))
			}
		}
		readerRaw(w, fmt.Sprintf("inl-%d", c), r.inlineHostile(), cuts, 3)
	}
}

// inlineHostile: lines built from the characters the inline parser treats specially - spaces, quotes, backslashes,
// CR and LF - in every position, including at the very start of the connection's buffer
func (r *rng) inlineHostile() []byte {
	alphabet := []string{"\\", "\"", " ", "a", "set", "k", "'", "\r", "\n", "\r\n", "\t", "\x00", "  ", "\\\\", "\\\"", "\"\""}
	var b []byte
	nl := 1 + r.intn(3)
	for l := 0; l < nl; l++ {
		nt := r.intn(8)
		for i := 0; i < nt; i++ {
			b = append(b, alphabet[r.intn(len(alphabet))]...)
		}
		b = append(b, r.pick([]string{"\r\n", "\n", "", "\r\n\r\n"})...)
	}
	if len(b) == 0 || b[0] == '*' {
		b = append([]byte("\\ "), b...)
	}
	return b
}

// lengths and counts a hostile client may announce: around the limits, around 2^31, 2^32 and 2^63/2^64 (wrap-around of
// narrower integer types: a value whose low 32 bits look harmless), and non-numbers
var hostileLens = []string{"-1", "-5", "0", "5", "3", "1000000", "536870912", "536870913", "9223372036854775807", "9223372036854775808",
	"-9223372036854775808", "x", "", "+3", "03", " 3", "3 ", "1e3",
	"2147483647", "2147483648", "-2147483648", "-2147483649", "4294967295", "4294967296", "4294967299", "4294967301", "-4294967291", "-4294967296",
	"-4294967297", "8589934595", "18446744073709551615", "18446744073709551619", "-18446744073709551613"}

// malformed: grammar-based mutations of a valid frame
func (r *rng) malformed() []byte {
	lens := hostileLens
	term := []string{"\r\n", "\n", "\r", "", "\r\r\n", "\n\n"}
	var b []byte
	switch r.intn(11) {
	case 0: // bad array count
		b = []byte("*" + r.pick(lens) + r.pick(term) + "$3\r\nGET\r\n$1\r\nk\r\n")
	case 1, 2, 3: // bad bulk length
		b = []byte("*2\r\n$3\r\nGET\r\n$" + r.pick(lens) + r.pick(term) + "k" + r.pick(term))
	case 4: // wrong type byte
		b = []byte("*2\r\n" + r.pick([]string{"+", ":", "-", "*", "#", "\x00"}) + "3\r\nGET\r\n$1\r\nk\r\n")
	case 5: // truncated
		full := []byte("*3\r\n$3\r\nSET\r\n$1\r\nk\r\n$5\r\nhello\r\n")
		b = full[:r.intn(len(full))]
	case 6: // garbage after a valid frame
		b = append([]byte("*1\r\n$4\r\nPING\r\n"), r.bytes(1+r.intn(20))...)
		b[len("*1\r\n$4\r\nPING\r\n")] = '*'
	case 7: // data shorter / longer than announced
		b = []byte("*2\r\n$4\r\nECHO\r\n$" + r.pick([]string{"2", "10", "4"}) + "\r\nabcd\r\n*1\r\n$4\r\nPING\r\n")
	case 8: // nested / huge count with little data
		b = []byte("*" + r.pick([]string{"100", "1000000"}) + "\r\n$1\r\na\r\n")
	case 9:
		b = r.inlineHostile()
	default:
		b = append([]byte("*"), r.bytes(r.intn(30))...)
	}
	return b
}

func make1s(n int) []int {
	x := make([]int, n)
	for i := range x {
		x[i] = 1
	}
	return x
}
