package main

import (
	"fmt"
	"io"
	"log"
	"os"
)

func main() {
	if len(os.Args) < 2 {
		fmt.Fprintln(os.Stderr, "usage: vh <mode> ...")
		os.Exit(2)
	}
	log.SetOutput(io.Discard) // nodis logs every recovered panic
	switch os.Args[1] {
	case "codec":
		codecMain(os.Args[2:])
	case "trace":
		traceMain(os.Args[2:])
	case "reader":
		readerMain(os.Args[2:])
	case "serve":
		serveMain(os.Args[2:])
	case "quitprobe":
		quitprobeMain(os.Args[2:])
	case "tcp":
		tcpMain(os.Args[2:])
	case "crash":
		crashMain(os.Args[2:])
	case "conc":
		concMain(os.Args[2:])
	case "block":
		blockMain(os.Args[2:])
	case "blockstress":
		blockstressMain(os.Args[2:])
	case "concstress":
		concstressMain(os.Args[2:])
	case "lockorder":
		lockorderMain(os.Args[2:])
	case "execiso":
		execisoMain(os.Args[2:])
	case "gcstress":
		gcstressMain(os.Args[2:])
	default:
		fmt.Fprintln(os.Stderr, "unknown mode", os.Args[1])
		os.Exit(2)
	}
}
