package main

import (
	"bufio"
	"bytes"
	"flag"
	"fmt"
	"os"
	"runtime"
	"sort"
	"strconv"
	"strings"
	"sync"
	"time"

	"github.com/diiyw/nodis"
	"github.com/diiyw/nodis/ds"
	"github.com/diiyw/nodis/ds/list"
	"github.com/diiyw/nodis/storage"
)

// concMain: force schedules on the implementation through the verifPoint controller.
//   SCN <id> <k=v,...|-> <CMD:k[:k2],...> <t,t,t,...>
// Values are list lengths.  Every thread runs one command in its own goroutine and stops at every
// schedule point (and before its first step); a grant lets it run to its next point.  A thread
// that does not reach a point within the settle time is blocked in a lock.
//   OUT <id> vals=k:v,... replies=t:r,... waiting=t,... notdone=t:point,...
type cthread struct {
	id      int
	cmd     string
	grant   chan struct{}
	mu      sync.Mutex
	state   string // "point:<name>", "running", "done"
	reply   int64
	arrived chan struct{}
}

func goid() int64 {
	var buf [64]byte
	n := runtime.Stack(buf[:], false)
	f := bytes.Fields(buf[:n])
	id, _ := strconv.ParseInt(string(f[1]), 10, 64)
	return id
}

func keyName(k string) string { return "k" + k }

func runScenario(id, valspec, cmdspec, schedspec string, settle time.Duration) string {
	// scenarios whose id starts with "c-" begin with every key evicted to a copying storage (Pebble):
	// the first command on a key reloads the value under the key lock
	// "s-": Pebble, nothing flushed before the threads start (every key is dirty); a SAVE thread runs the flush of the
	// SAVE command; the outcome also reports what storage holds for every key (stored=k:len)
	saveScn := strings.HasPrefix(id, "s-")
	cold := strings.HasPrefix(id, "c-")
	var n *nodis.Nodis
	var peb *storage.Pebble
	if cold || saveScn {
		dir, err := os.MkdirTemp("", "vh-conc-cold-")
		if err != nil {
			panic(err)
		}
		defer os.RemoveAll(dir)
		peb = storage.NewPebble(dir, nil)
		n = nodis.Open(&nodis.Options{Storage: peb})
		defer func() {
			// Close flushes under every key lock: a scenario that ended in a deadlock would hang here
			fin := make(chan struct{})
			go func() { n.Close(); close(fin) }()
			select {
			case <-fin:
			case <-time.After(300 * time.Millisecond):
			}
		}()
	} else {
		n = nodis.Open(&nodis.Options{Storage: storage.NewMemory()})
	}
	keys := map[string]bool{}
	if valspec != "-" {
		for _, kv := range strings.Split(valspec, ",") {
			p := strings.SplitN(kv, "=", 2)
			c, _ := strconv.Atoi(p[1])
			keys[p[0]] = true
			for i := 0; i < c; i++ {
				n.RPush(keyName(p[0]), []byte("x"))
			}
		}
	}
	if cold {
		for pass := 0; pass < 8; pass++ {
			n.VerifGC()
		}
	}
	// scenarios whose id starts with "e-": every key of the keyspace (given with value 0) is a list whose deadline
	// has passed and which has not been collected: to RPUSH and LLEN it is a key that exists and is empty
	if strings.HasPrefix(id, "e-") && valspec != "-" {
		for _, kv := range strings.Split(valspec, ",") {
			p := strings.SplitN(kv, "=", 2)
			n.RPush(keyName(p[0]), []byte("old"))
			n.ExpirePX(keyName(p[0]), 1)
		}
		time.Sleep(4 * time.Millisecond)
	}
	var reg sync.Map // goroutine id -> *cthread
	var threads []*cthread
	for i, c := range strings.Split(cmdspec, ",") {
		threads = append(threads, &cthread{id: i, cmd: c, grant: make(chan struct{}), state: "point:start", arrived: make(chan struct{}, 64)})
		for _, k := range strings.Split(c, ":")[1:] {
			keys[k] = true
		}
	}
	nodis.VerifSetController(func(point string) {
		if strings.HasPrefix(point, "b:") {
			return // the points of the blocking-pop path belong to the block mode
		}
		v, ok := reg.Load(goid())
		if !ok {
			return
		}
		t := v.(*cthread)
		t.mu.Lock()
		t.state = "point:" + point
		t.mu.Unlock()
		t.arrived <- struct{}{}
		<-t.grant
		t.mu.Lock()
		t.state = "running"
		t.mu.Unlock()
	})
	defer nodis.VerifSetController(nil)
	for _, t := range threads {
		t := t
		go func() {
			reg.Store(goid(), t)
			<-t.grant // the start point
			t.mu.Lock()
			t.state = "running"
			t.mu.Unlock()
			var r int64
			func() {
				defer func() {
					if e := recover(); e != nil {
						r = 0
					}
				}()
				p := strings.Split(t.cmd, ":")
				switch p[0] {
				case "PUSH":
					r = n.RPush(keyName(p[1]), []byte("x"))
				case "PUSHX":
					r = n.RPushX(keyName(p[1]), []byte("x"))
				case "POP":
					r = int64(len(n.LPop(keyName(p[1]), 1)))
				case "LEN":
					r = n.LLen(keyName(p[1]))
				case "SAVE":
					n.VerifFlush()
					r = 1
				case "DEL":
					r = n.Del(keyName(p[1]))
				case "MOVE":
					v := n.LPopRPush(keyName(p[1]), keyName(p[2]))
					if v != nil {
						r = 1
					}
				}
			}()
			t.mu.Lock()
			t.state = "done"
			t.reply = r
			t.mu.Unlock()
			t.arrived <- struct{}{}
		}()
	}
	get := func(t *cthread) string {
		t.mu.Lock()
		defer t.mu.Unlock()
		return t.state
	}
	// let everything that can move settle: nobody changes state for a while
	quiesce := func() {
		last := ""
		stable := 0
		for i := 0; i < 4000 && stable < 6; i++ {
			cur := ""
			for _, t := range threads {
				cur += get(t) + ";"
			}
			if cur == last {
				stable++
			} else {
				stable = 0
				last = cur
			}
			time.Sleep(settle / 6)
		}
	}
	// real-time order of the history: the grant at which a thread was first released (its invocation) and the grant after
	// which it was first seen finished (its response)
	firstGrant := make([]int, len(threads))
	doneAt := make([]int, len(threads))
	for i := range firstGrant {
		firstGrant[i], doneAt[i] = -1, -1
	}
	noteDone := func(gi int) {
		for i, t := range threads {
			if doneAt[i] < 0 && get(t) == "done" {
				doneAt[i] = gi
			}
		}
	}
	if schedspec != "-" {
		for gi, ts := range strings.Split(schedspec, ",") {
			ti, _ := strconv.Atoi(ts)
			if ti < 0 || ti >= len(threads) {
				continue
			}
			t := threads[ti]
			st := get(t)
			if !strings.HasPrefix(st, "point:") {
				continue // finished, or inside Lock(): nothing to grant
			}
			for len(t.arrived) > 0 {
				<-t.arrived
			}
			if firstGrant[ti] < 0 {
				firstGrant[ti] = gi
			}
			t.grant <- struct{}{}
			select {
			case <-t.arrived:
			case <-time.After(settle):
			}
			quiesce()
			noteDone(gi)
		}
	}
	quiesce()
	// outcome
	var vals, replies, waiting, notdone []string
	lens := map[string]int64{}
	present := map[string]bool{}
	for _, m := range n.VerifDump() {
		if l, ok := m.Value.(*list.LinkedList); ok {
			lens[m.Name] = l.LLen()
			present[m.Name] = true
		} else if m.Value == nil && cold {
			// still (or again) evicted: ask for the length, unless a blocked thread holds the key
			name := m.Name
			got := make(chan int64, 1)
			go func() { got <- n.LLen(name) }()
			select {
			case v := <-got:
				lens[name] = v
				present[name] = true
			case <-time.After(300 * time.Millisecond):
			}
		}
	}
	var ks []string
	for k := range keys {
		ks = append(ks, k)
	}
	sort.Strings(ks)
	for _, k := range ks {
		if present[keyName(k)] {
			vals = append(vals, fmt.Sprintf("%s:%d", k, lens[keyName(k)]))
		} else {
			vals = append(vals, k+":-")
		}
	}
	for _, t := range threads {
		st := get(t)
		switch {
		case st == "done":
			replies = append(replies, fmt.Sprintf("%d:%d", t.id, t.reply))
		case st == "running":
			waiting = append(waiting, strconv.Itoa(t.id))
		default:
			notdone = append(notdone, fmt.Sprintf("%d:%s", t.id, strings.TrimPrefix(st, "point:")))
		}
	}
	j := func(l []string) string {
		if len(l) == 0 {
			return "-"
		}
		return strings.Join(l, ",")
	}
	stored := ""
	if saveScn && peb != nil {
		var st []string
		got := map[string]int64{}
		for _, e := range peb.VerifEntries() {
			key, err := ds.DecodeKey([]byte(e.EncKey))
			if len(e.Bytes) > 0 && err == nil {
				l := list.NewLinkedList()
				func() {
					defer func() { recover() }()
					l.SetValue(e.Bytes[1:])
					got[key.Name] = l.LLen()
				}()
			}
		}
		for _, k := range ks {
			if v, ok := got[keyName(k)]; ok {
				st = append(st, fmt.Sprintf("%s:%d", k, v))
			} else {
				st = append(st, k+":-")
			}
		}
		stored = " stored=" + j(st)
	}
	var rt []string
	for i := range threads {
		rt = append(rt, fmt.Sprintf("%d:%d:%d", i, firstGrant[i], doneAt[i]))
	}
	return fmt.Sprintf("OUT %s vals=%s replies=%s waiting=%s notdone=%s%s rt=%s", id, j(vals), j(replies), j(waiting), j(notdone), stored, j(rt))
}

func concMain(args []string) {
	fs := flag.NewFlagSet("conc", flag.ExitOnError)
	in := fs.String("in", "", "scenario file")
	out := fs.String("out", "", "")
	settleMs := fs.Int("settle", 12, "milliseconds without progress after which a thread counts as blocked")
	fs.Parse(args)
	f, err := os.Open(*in)
	if err != nil {
		panic(err)
	}
	defer f.Close()
	w := bufio.NewWriter(os.Stdout)
	if *out != "" {
		o, err := os.Create(*out)
		if err != nil {
			panic(err)
		}
		defer o.Close()
		w = bufio.NewWriter(o)
	}
	defer w.Flush()
	sc := bufio.NewScanner(f)
	sc.Buffer(make([]byte, 1<<20), 1<<26)
	for sc.Scan() {
		t := strings.Fields(sc.Text())
		if len(t) < 5 || t[0] != "SCN" {
			continue
		}
		fmt.Fprintln(w, runScenario(t[1], t[2], t[3], t[4], time.Duration(*settleMs)*time.Millisecond))
	}
}
