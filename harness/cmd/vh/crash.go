package main

import (
	"bufio"
	"flag"
	"fmt"
	"net"
	"os"
	"sort"
	"strconv"
	"strings"
	"time"

	"github.com/diiyw/nodis"
	"github.com/diiyw/nodis/storage"
)

// crashMain (C13): a real server on Pebble is driven over TCP with a workload whose effect on
// every key is tracked client-side, SAVE completion points are recorded, and the process is
// killed (SIGKILL) at PRNG-chosen instants: between commands, right after SAVE's reply, in
// the middle of a SAVE, in the middle of a command.  After each kill the directory is opened
// in-process and every key's recovered value must be one the key held at or after the last
// completed SAVE; a key absent at that SAVE and not written since must be absent.
type kval struct {
	typ string // "", str, list, hash, set, zset
	s   string
	l   []string
	h   map[string]string
	z   map[string]string // member -> score text
}

func (v kval) canon() string {
	switch v.typ {
	case "":
		return "absent"
	case "str":
		return "s " + tokBytes([]byte(v.s))
	case "list":
		t := []string{"l"}
		for _, e := range v.l {
			t = append(t, tokBytes([]byte(e)))
		}
		return strings.Join(t, " ")
	case "hash", "set", "zset":
		m := v.h
		if v.typ == "zset" {
			m = v.z
		}
		ks := make([]string, 0, len(m))
		for k := range m {
			ks = append(ks, k)
		}
		sort.Strings(ks)
		t := []string{v.typ[:1]}
		if v.typ == "set" {
			t[0] = "S"
		}
		for _, k := range ks {
			if v.typ == "set" {
				t = append(t, tokBytes([]byte(k)))
			} else {
				t = append(t, tokBytes([]byte(k)), tokBytes([]byte(m[k])))
			}
		}
		return strings.Join(t, " ")
	}
	return "?"
}

func cloneMap(m map[string]string) map[string]string {
	n := map[string]string{}
	for k, v := range m {
		n[k] = v
	}
	return n
}

// recovered state of a directory, canonical per key
func recoverDir(dir string) (map[string]string, string) {
	res := map[string]string{}
	errs := ""
	func() {
		defer func() {
			if r := recover(); r != nil {
				errs = fmt.Sprint(r)
			}
		}()
		n := nodis.Open(&nodis.Options{Storage: storage.NewPebble(dir, nil)})
		for _, m := range n.VerifDump() {
			name := m.Name
			switch n.Type(name) {
			case "string":
				res[name] = "s " + tokBytes(n.Get(name))
			case "list":
				t := []string{"l"}
				for _, e := range n.LRange(name, 0, -1) {
					t = append(t, tokBytes(e))
				}
				res[name] = strings.Join(t, " ")
			case "hash":
				h := n.HGetAll(name)
				ks := make([]string, 0, len(h))
				for k := range h {
					ks = append(ks, k)
				}
				sort.Strings(ks)
				t := []string{"h"}
				for _, k := range ks {
					t = append(t, tokBytes([]byte(k)), tokBytes(h[k]))
				}
				res[name] = strings.Join(t, " ")
			case "set":
				ms := n.SMembers(name)
				sort.Strings(ms)
				t := []string{"S"}
				for _, m := range ms {
					t = append(t, tokBytes([]byte(m)))
				}
				res[name] = strings.Join(t, " ")
			case "zset":
				its := n.ZRangeWithScores(name, 0, -1)
				zm := map[string]string{}
				for _, it := range its {
					zm[it.Member] = fscore(it.Score)
				}
				ks := make([]string, 0, len(zm))
				for k := range zm {
					ks = append(ks, k)
				}
				sort.Strings(ks)
				t := []string{"z"}
				for _, k := range ks {
					t = append(t, tokBytes([]byte(k)), tokBytes([]byte(zm[k])))
				}
				res[name] = strings.Join(t, " ")
			default:
				res[name] = "unreadable"
			}
		}
		n.Close()
	}()
	return res, errs
}

func crashMain(args []string) {
	fs := flag.NewFlagSet("crash", flag.ExitOnError)
	seed := fs.Uint64("seed", 1, "")
	tier := fs.String("tier", "quick", "")
	withDel := fs.Bool("del", false, "include DEL in the workload (known finding: deleted keys reappear)")
	fs.Parse(args)
	r := newRng(*seed)
	dir, err := os.MkdirTemp("", "nodis-verif-crash-")
	if err != nil {
		panic(err)
	}
	defer os.RemoveAll(dir)
	rounds := 6
	if *tier == "thorough" {
		rounds = 60
	}
	keys := []string{"ka", "kb", "kc", "kd", "ke", "kf"}
	typ := map[string]string{"ka": "str", "kb": "str", "kc": "list", "kd": "hash", "ke": "set", "kf": "zset"}
	cur := map[string]kval{}        // current logical value (acknowledged)
	admissible := map[string]map[string]bool{} // values held at or after the last completed SAVE
	for _, k := range keys {
		cur[k] = kval{}
		admissible[k] = map[string]bool{"absent": true}
	}
	everDeleted := map[string]bool{}
	violations, kills, cmds, saves := 0, 0, 0, 0
	kinds := map[string]int{}
	for round := 0; round < rounds && violations < 3; round++ {
		gc := 0
		if round%3 == 2 {
			gc = 30
		}
		srv := startServer(dir, gc)
		c, err := net.Dial("tcp", srv.addr)
		if err != nil {
			fmt.Println("CRASHFAIL cannot connect")
			srv.kill()
			break
		}
		rd := bufio.NewReader(c)
		n := 15 + r.intn(60)
		killMode := r.intn(4) // 0 between commands, 1 right after SAVE reply, 2 during SAVE, 3 during a command
		kinds[[]string{"between", "after-save-reply", "during-save", "during-command"}[killMode]]++
		for i := 0; i < n; i++ {
			k := keys[r.intn(len(keys))]
			v := cur[k]
			nv := v
			var name string
			var a []string
			val := "v" + strconv.Itoa(round) + "_" + strconv.Itoa(i)
			if r.intn(6) == 0 {
				val = string(pattern(300+r.intn(5000), r.intn(200)))
			}
			switch typ[k] {
			case "str":
				if r.intn(3) == 0 && v.typ == "str" {
					name, a = "APPEND", []string{k, "+"}
					nv = kval{typ: "str", s: v.s + "+"}
				} else {
					name, a = "SET", []string{k, val}
					nv = kval{typ: "str", s: val}
				}
			case "list":
				if r.intn(4) == 0 && len(v.l) > 1 {
					name, a = "LPOP", []string{k}
					nv = kval{typ: "list", l: append([]string(nil), v.l[1:]...)}
				} else {
					name, a = "RPUSH", []string{k, val}
					nv = kval{typ: "list", l: append(append([]string(nil), v.l...), val)}
				}
			case "hash":
				f := "f" + strconv.Itoa(r.intn(3))
				name, a = "HSET", []string{k, f, val}
				h := cloneMap(v.h)
				h[f] = val
				nv = kval{typ: "hash", h: h}
			case "set":
				m := "m" + strconv.Itoa(r.intn(6))
				if r.intn(3) == 0 && len(v.h) > 1 && v.h[m] != "" {
					name, a = "SREM", []string{k, m}
					h := cloneMap(v.h)
					delete(h, m)
					nv = kval{typ: "set", h: h}
				} else {
					name, a = "SADD", []string{k, m}
					h := cloneMap(v.h)
					h[m] = "1"
					nv = kval{typ: "set", h: h}
				}
			case "zset":
				m := "z" + strconv.Itoa(r.intn(4))
				sc := strconv.Itoa(r.intn(50))
				name, a = "ZADD", []string{k, sc, m}
				z := cloneMap(v.z)
				z[m] = sc
				nv = kval{typ: "zset", z: z}
			}
			if *withDel && r.intn(12) == 0 {
				name, a = "DEL", []string{k}
				nv = kval{}
				everDeleted[k] = true
			}
			if killMode == 3 && i == n-1 {
				// kill while the command is in flight: the new value may or may not be there (not acknowledged)
				bargs := make([][]byte, len(a))
				for j, x := range a {
					bargs[j] = []byte(x)
				}
				c.Write(respEncode(name, bargs))
				time.Sleep(time.Duration(r.intn(300)) * time.Microsecond)
				admissible[k][nv.canon()] = true
				break
			}
			if _, err := roundTrip(c, rd, name, a...); err != nil {
				fmt.Printf("CRASHFAIL command %s failed: %v\n", name, err)
				violations++
				break
			}
			cmds++
			cur[k] = nv
			admissible[k][nv.canon()] = true
			if r.intn(8) == 0 || (i == n-1 && (killMode == 1 || killMode == 2)) {
				if killMode == 2 && i == n-1 {
					c.Write(respEncode("SAVE", nil))
					time.Sleep(time.Duration(r.intn(2000)) * time.Microsecond)
					break // killed during the SAVE: it does not count as completed
				}
				if _, err := roundTrip(c, rd, "SAVE"); err != nil {
					fmt.Printf("CRASHFAIL SAVE failed: %v\n", err)
					violations++
					break
				}
				saves++
				// from now on only the values held at or after this SAVE are admissible
				for _, kk := range keys {
					admissible[kk] = map[string]bool{cur[kk].canon(): true}
				}
			}
		}
		srv.kill()
		kills++
		c.Close()
		got, oerr := recoverDir(dir)
		if oerr != "" {
			violations++
			fmt.Printf("CRASHVIOL round=%d sig=CRASH/open-failed %s\n", round, oerr)
			break
		}
		for _, k := range keys {
			g, ok := got[k]
			if !ok {
				g = "absent"
			}
			if !admissible[k][g] {
				sig := "CRASH/stale-or-fabricated"
				if everDeleted[k] {
					sig = "CRASH/resurrected-after-del"
				} else if len(admissible[k]) == 1 && admissible[k]["absent"] {
					sig = "CRASH/resurrected"
				} else if g == "absent" {
					sig = "CRASH/lost-after-save"
				}
				violations++
				adm := make([]string, 0)
				for a := range admissible[k] {
					if len(a) > 60 {
						a = a[:60] + ".."
					}
					adm = append(adm, a)
				}
				sort.Strings(adm)
				gs := g
				if len(gs) > 80 {
					gs = gs[:80] + ".."
				}
				fmt.Printf("CRASHVIOL round=%d kill=%d sig=%s key=%s recovered=[%s] admissible=%v\n", round, killMode, sig, k, gs, adm)
			}
		}
		// the next round continues from what was recovered
		for _, k := range keys {
			g, ok := got[k]
			if !ok {
				cur[k] = kval{}
				admissible[k] = map[string]bool{"absent": true}
				continue
			}
			cur[k] = parseCanon(typ[k], g)
			admissible[k] = map[string]bool{cur[k].canon(): true}
		}
		for name := range got {
			if _, ok := typ[name]; !ok {
				violations++
				fmt.Printf("CRASHVIOL round=%d sig=CRASH/fabricated-key key=%s\n", round, tokBytes([]byte(name)))
			}
		}
	}
	fmt.Printf("CRASH rounds=%d kills=%d commands=%d saves=%d violations=%d kinds=%v\n", rounds, kills, cmds, saves, violations, kinds)
}

func parseCanon(typ, g string) kval {
	t := strings.Fields(g)
	un := func(x string) string { return string(parseTok(x)) }
	switch t[0] {
	case "s":
		return kval{typ: "str", s: un(t[1])}
	case "l":
		v := kval{typ: "list"}
		for _, e := range t[1:] {
			v.l = append(v.l, un(e))
		}
		return v
	case "h":
		v := kval{typ: "hash", h: map[string]string{}}
		for i := 1; i+1 < len(t); i += 2 {
			v.h[un(t[i])] = un(t[i+1])
		}
		return v
	case "S":
		v := kval{typ: "set", h: map[string]string{}}
		for _, e := range t[1:] {
			v.h[un(e)] = "1"
		}
		return v
	case "z":
		v := kval{typ: "zset", z: map[string]string{}}
		for i := 1; i+1 < len(t); i += 2 {
			v.z[un(t[i])] = un(t[i+1])
		}
		return v
	}
	return kval{}
}
