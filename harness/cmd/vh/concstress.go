package main

import (
	"flag"
	"fmt"
	"sort"
	"strings"
	"sync"
	"time"

	"github.com/diiyw/nodis"
	"github.com/diiyw/nodis/storage"
)

// concstressMain: an exploration (not a proof) of the windows the schedule points of tx.go cannot separate (the code
// between two points runs in one piece in a forced schedule).  Real goroutines, released together:
//   create  : 8 RPUSH on a key that does not exist; LLEN must be 8 and the replies a permutation of 1..8
//   churn   : 4 producers RPUSH distinct elements while 4 consumers LPOP one at a time (the list is emptied, unlinked and
//             re-created all the time); every element is popped exactly once or is still in the list at the end
//   CSTRESS <ok|fail> rounds=<n> [what=...]
func concstressMain(args []string) {
	fs := flag.NewFlagSet("concstress", flag.ExitOnError)
	rounds := fs.Int("rounds", 3000, "")
	per := fs.Int("per", 4000, "elements per producer in the churn part")
	fs.Parse(args)
	n := nodis.Open(&nodis.Options{Storage: storage.NewMemory()})
	fail := ""
	for r := 0; r < *rounds && fail == ""; r++ {
		key := fmt.Sprintf("c%d", r)
		var wg sync.WaitGroup
		start := make(chan struct{})
		replies := make([]int64, 8)
		for g := 0; g < 8; g++ {
			wg.Add(1)
			go func(g int) {
				defer wg.Done()
				<-start
				replies[g] = n.RPush(key, []byte{byte('a' + g)})
			}(g)
		}
		close(start)
		wg.Wait()
		sort.Slice(replies, func(i, j int) bool { return replies[i] < replies[j] })
		ok := n.LLen(key) == 8
		for i, v := range replies {
			ok = ok && v == int64(i+1)
		}
		if !ok {
			fail = fmt.Sprintf("round %d: 8 concurrent RPUSH on a new key: LLEN %d, replies %v", r, n.LLen(key), replies)
		}
		n.Del(key)
	}
	if fail == "" {
		var wg sync.WaitGroup
		var mu sync.Mutex
		popped := map[string]int{}
		stop := make(chan struct{})
		for c := 0; c < 4; c++ {
			wg.Add(1)
			go func() {
				defer wg.Done()
				for {
					v := n.LPop("churn", 1)
					if len(v) > 0 {
						mu.Lock()
						popped[string(v[0])]++
						mu.Unlock()
						continue
					}
					select {
					case <-stop:
						return
					default:
					}
				}
			}()
		}
		var pw sync.WaitGroup
		for p := 0; p < 4; p++ {
			pw.Add(1)
			go func(p int) {
				defer pw.Done()
				for i := 0; i < *per; i++ {
					n.RPush("churn", []byte(fmt.Sprintf("%d.%d", p, i)))
				}
			}(p)
		}
		done := make(chan struct{})
		go func() { pw.Wait(); close(done) }()
		select {
		case <-done:
		case <-time.After(60 * time.Second):
			fail = "churn: producers did not finish within 60 s"
		}
		time.Sleep(20 * time.Millisecond)
		close(stop)
		wg.Wait()
		if fail == "" {
			rest := n.LRange("churn", 0, int64(4**per))
			for _, v := range rest {
				popped[string(v)]++
			}
			lost, dup := 0, 0
			for p := 0; p < 4; p++ {
				for i := 0; i < *per; i++ {
					switch c := popped[fmt.Sprintf("%d.%d", p, i)]; {
					case c == 0:
						lost++
					case c > 1:
						dup++
					}
				}
			}
			if lost > 0 || dup > 0 {
				fail = fmt.Sprintf("churn: %d of %d acknowledged elements lost, %d handed out twice", lost, 4**per, dup)
			}
		}
	}
	if fail != "" {
		fmt.Printf("CSTRESS fail rounds=%d what=%s\n", *rounds, strings.ReplaceAll(fail, " ", "_"))
		return
	}
	fmt.Printf("CSTRESS ok rounds=%d churn=%d\n", *rounds, 4**per)
}
