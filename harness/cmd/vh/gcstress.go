package main

import (
	"flag"
	"fmt"
	"math/rand"
	"os"
	"runtime/pprof"
	"sync"
	"sync/atomic"
	"time"

	"github.com/diiyw/nodis"
	"github.com/diiyw/nodis/storage"
)

// gcstressMain: single-key commands that create, empty and delete keys, and moves in one direction,
// from several goroutines, while the background gc runs every millisecond and explicit gc / flush
// passes are made.  Every command must complete: the run is given ten seconds for work that takes
// well under one.   GCSTRESS <ok|hang> ops=<n> done=<n> elapsed_ms=<n>
func gcstressMain(args []string) {
	fs := flag.NewFlagSet("gcstress", flag.ExitOnError)
	seed := fs.Int64("seed", 1, "")
	ops := fs.Int("ops", 4000, "commands per goroutine")
	gor := fs.Int("goroutines", 8, "")
	fs.Parse(args)
	n := nodis.Open(&nodis.Options{Storage: storage.NewMemory(), GCDuration: time.Millisecond})
	var done int64
	var wg sync.WaitGroup
	t0 := time.Now()
	for g := 0; g < *gor; g++ {
		wg.Add(1)
		go func(g int) {
			defer wg.Done()
			rnd := rand.New(rand.NewSource(*seed*1000 + int64(g)))
			for i := 0; i < *ops; i++ {
				k := fmt.Sprint("k", rnd.Intn(3))
				func() {
					defer func() { recover() }()
					switch rnd.Intn(10) {
					case 0, 1, 2:
						n.RPush("l"+k, []byte("x"))
					case 3, 4:
						n.LPop("l"+k, 1)
					case 5:
						n.Del("l" + k)
					case 6:
						n.Incr("s" + k)
					case 7:
						n.Del("s" + k)
					case 8:
						n.RPopLPush("lk0", "lk9") // one direction only: opposite moves deadlock (a listed C06 finding)
					case 9:
						switch rnd.Intn(16) {
						case 0:
							n.VerifGC()
						case 1:
							n.VerifFlush()
						case 2:
							n.Keys("*") // walks the index under the index lock
						case 3:
							n.Scan(0, "*", 10, 0)
						case 4:
							n.Keyspace()
						case 5:
							n.RandomKey()
						case 6:
							n.Exists("l"+k, "l"+k) // the same key twice in one command (two different keys in one reader: see vh lockorder)
						case 7:
							n.ExpirePX("s"+k, 1) // the next write re-creates the record in place, gc unlinks it
						default:
							n.LLen("l" + k)
						}
					}
				}()
				atomic.AddInt64(&done, 1)
			}
		}(g)
	}
	fin := make(chan struct{})
	go func() { wg.Wait(); close(fin) }()
	select {
	case <-fin:
		fmt.Printf("GCSTRESS ok ops=%d done=%d elapsed_ms=%d\n", *ops**gor, atomic.LoadInt64(&done), time.Since(t0).Milliseconds())
	case <-time.After(10 * time.Second):
		if os.Getenv("VH_DUMP") != "" {
			pprof.Lookup("goroutine").WriteTo(os.Stderr, 1)
		}
		fmt.Printf("GCSTRESS hang ops=%d done=%d elapsed_ms=%d\n", *ops**gor, atomic.LoadInt64(&done), time.Since(t0).Milliseconds())
	}
}
