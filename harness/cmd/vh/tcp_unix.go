package main

import "syscall"

var syscallZero = syscall.Signal(0)
