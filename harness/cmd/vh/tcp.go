package main

import (
	"bufio"
	"bytes"
	"flag"
	"fmt"
	"net"
	"os"
	"os/exec"
	"strconv"
	"strings"
	"syscall"
	"time"

	"github.com/diiyw/nodis"
	"github.com/diiyw/nodis/storage"
)

// serveMain: a real server process (nodis.Serve) on the given address
func serveMain(args []string) {
	fs := flag.NewFlagSet("serve", flag.ExitOnError)
	addr := fs.String("addr", "127.0.0.1:0", "")
	dir := fs.String("dir", "", "pebble directory (memory backend when empty)")
	gcms := fs.Int("gc", 0, "gc interval in milliseconds (0 = none)")
	fs.Parse(args)
	// an address-space limit for the server under test: a command that makes it allocate without bound kills it
	// (fatal error: out of memory) instead of depending on the machine's overcommit setting
	_ = syscall.Setrlimit(syscall.RLIMIT_AS, &syscall.Rlimit{Cur: 12 << 30, Max: 12 << 30})
	opt := &nodis.Options{GCDuration: time.Duration(*gcms) * time.Millisecond}
	if *dir != "" {
		opt.Storage = storage.NewPebble(*dir, nil)
	}
	n := nodis.Open(opt)
	if err := n.Serve(*addr); err != nil {
		fmt.Fprintln(os.Stderr, "serve:", err)
		os.Exit(3)
	}
}

type server struct {
	cmd  *exec.Cmd
	addr string
}

func freePort() string {
	l, err := net.Listen("tcp", "127.0.0.1:0")
	if err != nil {
		panic(err)
	}
	a := l.Addr().String()
	l.Close()
	return a
}

func startServer(dir string, gcms int) *server {
	addr := freePort()
	args := []string{"serve", "--addr", addr, "--gc", strconv.Itoa(gcms)}
	if dir != "" {
		args = append(args, "--dir", dir)
	}
	c := exec.Command(os.Args[0], args...)
	c.Stdout, c.Stderr = nil, nil
	if err := c.Start(); err != nil {
		panic(err)
	}
	s := &server{cmd: c, addr: addr}
	for i := 0; i < 100; i++ {
		if conn, err := net.DialTimeout("tcp", addr, 200*time.Millisecond); err == nil {
			conn.Close()
			return s
		}
		time.Sleep(50 * time.Millisecond)
	}
	panic("server did not start")
}

func (s *server) alive() bool {
	return s.cmd.ProcessState == nil && s.cmd.Process.Signal(syscallZero) == nil
}

func (s *server) kill() {
	s.cmd.Process.Kill()
	s.cmd.Wait()
}

// roundTrip: send one command, read one complete reply (flat tokens) within the deadline
func roundTrip(c net.Conn, rd *bufio.Reader, name string, args ...string) (string, error) {
	bargs := make([][]byte, len(args))
	for i, a := range args {
		bargs[i] = []byte(a)
	}
	c.SetDeadline(time.Now().Add(3 * time.Second))
	if _, err := c.Write(respEncode(name, bargs)); err != nil {
		return "", err
	}
	return readReply(rd)
}

func readReply(rd *bufio.Reader) (string, error) {
	line, err := rd.ReadString('\n')
	if err != nil {
		return "", err
	}
	line = strings.TrimRight(line, "\r\n")
	if len(line) == 0 {
		return "", fmt.Errorf("empty line")
	}
	switch line[0] {
	case '+', '-', ':':
		return line, nil
	case '$':
		n, err := strconv.Atoi(line[1:])
		if err != nil {
			return "", err
		}
		if n < 0 {
			return "$-1", nil
		}
		buf := make([]byte, n+2)
		if _, err := readFull(rd, buf); err != nil {
			return "", err
		}
		return "$" + string(buf[:n]), nil
	case '*':
		n, err := strconv.Atoi(line[1:])
		if err != nil {
			return "", err
		}
		parts := []string{line}
		for i := 0; i < n; i++ {
			p, err := readReply(rd)
			if err != nil {
				return "", err
			}
			parts = append(parts, p)
		}
		return strings.Join(parts, " "), nil
	}
	return "", fmt.Errorf("bad reply type %q", line[0])
}

func readFull(rd *bufio.Reader, buf []byte) (int, error) {
	n := 0
	for n < len(buf) {
		k, err := rd.Read(buf[n:])
		if err != nil {
			return n, err
		}
		n += k
	}
	return n, nil
}

// tcpDirected: commands whose cost is set by a number the client chooses (offsets, counts, radii)
var tcpDirected = [][]string{
	{"SETRANGE", "big", "70368744177664", "y"}, {"SETBIT", "big", "562949953421311", "1"}, {"SETRANGE", "big", "536870912", "y"},
	{"SETBIT", "big", "4294967296", "1"}, {"GETRANGE", "big", "0", "70368744177664"}, {"GETBIT", "big", "562949953421311"},
	{"LRANGE", "big", "0", "70368744177664"}, {"LTRIM", "big", "0", "70368744177664"}, {"LINDEX", "big", "70368744177664"},
	{"GEORADIUS", "big", "10", "10", "-1", "km"}, {"SCAN", "0", "COUNT", "70368744177664"}, {"EXPIRE", "big", "9223372036854775"},
}

func strs2bytes(a []string) [][]byte {
	out := make([][]byte, len(a))
	for i, x := range a {
		out[i] = []byte(x)
	}
	return out
}

// tcpMain: hostile inputs on one connection, a canary on another; the server process must
// stay alive and keep answering the canary promptly and correctly
func tcpMain(args []string) {
	fs := flag.NewFlagSet("tcp", flag.ExitOnError)
	seed := fs.Uint64("seed", 1, "")
	tier := fs.String("tier", "quick", "")
	fs.Parse(args)
	r := newRng(*seed)
	g := &gen{r: r}
	srv := startServer("", 0)
	defer srv.kill()
	canary, err := net.Dial("tcp", srv.addr)
	if err != nil {
		fmt.Println("TCPFAIL cannot connect canary")
		return
	}
	crd := bufio.NewReader(canary)
	n := 400
	if *tier == "thorough" {
		n = 6000
	}
	var hostile net.Conn
	var hrd *bufio.Reader
	fails := 0
	inputs := 0
	reconnects := 0
	maxLatency := time.Duration(0)
	for i := 0; i < n && fails < 5; i++ {
		if hostile == nil {
			hostile, err = net.Dial("tcp", srv.addr)
			if err != nil {
				fmt.Printf("TCPFAIL cannot connect hostile connection after input %d\n", i)
				fails++
				break
			}
			hrd = bufio.NewReader(hostile)
			reconnects++
		}
		var payload []byte
		kind := r.intn(10)
		if i < len(tcpDirected) {
			kind = -1
			payload = respEncode(tcpDirected[i][0], strs2bytes(tcpDirected[i][1:]))
		}
		switch {
		case kind < 0:
		case kind < 4:
			payload = r.malformed()
		case kind < 9:
			st := g.hostile(1, false)
			s := st[len(st)-1]
			if s.Name == "QUIT" || s.Name == "BLPOP" || s.Name == "BRPOP" {
				s = step{Name: "PING"}
			}
			bargs := make([][]byte, len(s.Args))
			for j, a := range s.Args {
				bargs[j] = parseTok(a)
			}
			payload = respEncode(s.Name, bargs)
		default: // abrupt disconnect mid-frame
			full := []byte("*3\r\n$3\r\nSET\r\n$1\r\nk\r\n$100\r\nabc")
			payload = full[:1+r.intn(len(full)-1)]
			hostile.SetDeadline(time.Now().Add(time.Second))
			hostile.Write(payload)
			hostile.Close()
			hostile = nil
		}
		inputs++
		if hostile != nil {
			hostile.SetDeadline(time.Now().Add(300 * time.Millisecond))
			hostile.Write(payload)
			// drain whatever comes back; a closed or silent connection is acceptable for hostile input
			buf := make([]byte, 65536)
			_, rerr := hrd.Read(buf)
			if rerr != nil {
				hostile.Close()
				hostile = nil
			}
		}
		// canary
		v := strconv.Itoa(i)
		t0 := time.Now()
		r1, e1 := roundTrip(canary, crd, "SET", "canary", v)
		r2, e2 := roundTrip(canary, crd, "GET", "canary")
		lat := time.Since(t0)
		if lat > maxLatency {
			maxLatency = lat
		}
		if e1 != nil || e2 != nil || r1 != "+OK" || r2 != "$"+v {
			fails++
			fmt.Printf("TCPFAIL after input %d (%s): canary SET->%q(%v) GET->%q(%v) server_alive=%v\n", i, tokBytes(payload), r1, e1, r2, e2, srv.alive())
			if !srv.alive() {
				break
			}
			canary.Close()
			canary, err = net.Dial("tcp", srv.addr)
			if err != nil {
				break
			}
			crd = bufio.NewReader(canary)
		}
	}
	_ = bytes.MinRead
	fmt.Printf("TCP inputs=%d canary_failures=%d server_alive=%v reconnects=%d max_canary_latency_ms=%d\n", inputs, fails, srv.alive(), reconnects, maxLatency.Milliseconds())
}
