package main

import (
	"bufio"
	"fmt"
	"reflect"
	"runtime"
	"strings"
	"sync"
	"time"

	"github.com/diiyw/nodis"
	"github.com/diiyw/nodis/patch"
	"github.com/diiyw/nodis/storage"
	"google.golang.org/protobuf/reflect/protoreflect"
)

// feedState: a "*" watcher and a pattern watcher on the primary, and a replica that receives
// every record of the "*" watcher through Encode / DecodeOp / ApplyPatch.
type feedState struct {
	mu       sync.Mutex
	all      []patch.Op
	filtered []patch.Op
	patterns []string
	replica  *nodis.Nodis
	baseline int
}

var opNames = map[uint8]string{
	patch.OpTypeClear: "Clear", patch.OpTypeDel: "Del", patch.OpTypeExpire: "Expire", patch.OpTypeExpireAt: "ExpireAt",
	patch.OpTypeHClear: "HClear", patch.OpTypeHDel: "HDel", patch.OpTypeHIncrBy: "HIncrBy", patch.OpTypeHIncrByFloat: "HIncrByFloat",
	patch.OpTypeHMSet: "HMSet", patch.OpTypeHSet: "HSet", patch.OpTypeLInsert: "LInsert", patch.OpTypeLPop: "LPop",
	patch.OpTypeLPopRPush: "LPopRPush", patch.OpTypeLPush: "LPush", patch.OpTypeLPushX: "LPushX", patch.OpTypeLRem: "LRem",
	patch.OpTypeLSet: "LSet", patch.OpTypeLTrim: "LTrim", patch.OpTypeRPop: "RPop", patch.OpTypeRPopLPush: "RPopLPush",
	patch.OpTypeRPush: "RPush", patch.OpTypeRPushX: "RPushX", patch.OpTypeSAdd: "SAdd", patch.OpTypeSRem: "SRem", patch.OpTypeSet: "Set",
	patch.OpTypeZAdd: "ZAdd", patch.OpTypeZClear: "ZClear", patch.OpTypeZIncrBy: "ZIncrBy", patch.OpTypeZRem: "ZRem",
	patch.OpTypeZRemRangeByRank: "ZRemRangeByRank", patch.OpTypeZRemRangeByScore: "ZRemRangeByScore", patch.OpTypeRename: "Rename",
	patch.OpTypePersist: "Persist", patch.OpTypeZUnionStore: "ZUnionStore", patch.OpTypeZInterStore: "ZInterStore", patch.OpTypeRenameNX: "RenameNX",
}

func opName(t uint8) string {
	if n, ok := opNames[t]; ok {
		return n
	}
	return fmt.Sprintf("Type%d", t)
}

// quiesce: wait until the notification goroutines started by the last command have ended
// (the goroutine count is back at the level measured when the feed was attached)
func (f *feedState) quiesce() bool {
	deadline := time.Now().Add(3 * time.Second)
	stable := 0
	for time.Now().Before(deadline) {
		if runtime.NumGoroutine() <= f.baseline {
			stable++
			if stable >= 3 {
				return true
			}
		} else {
			stable = 0
		}
		runtime.Gosched()
		time.Sleep(50 * time.Microsecond)
	}
	return false
}

func (in *inst) attachFeed(arg string) {
	f := &feedState{}
	for _, p := range strings.Split(arg, ",") {
		if p != "" && p != "-" {
			f.patterns = append(f.patterns, string(parseTok(p)))
		}
	}
	f.replica = nodis.Open(&nodis.Options{Storage: storage.NewMemory()})
	in.n.WatchKey([]string{"*"}, func(op patch.Op) {
		f.mu.Lock()
		f.all = append(f.all, op)
		f.mu.Unlock()
	})
	in.n.WatchKey(f.patterns, func(op patch.Op) {
		f.mu.Lock()
		f.filtered = append(f.filtered, op)
		f.mu.Unlock()
	})
	in.feed = f
}

// fields of a record in declaration order
func opFields(d patch.OpData) string {
	if d == nil || reflect.ValueOf(d).IsNil() {
		return "nil"
	}
	m := d.ProtoReflect()
	fds := m.Descriptor().Fields()
	var b strings.Builder
	one := func(fd protoreflect.FieldDescriptor, v protoreflect.Value) string {
		switch fd.Kind() {
		case protoreflect.StringKind:
			return tokVal([]byte(v.String()))
		case protoreflect.BytesKind:
			return tokVal(v.Bytes())
		case protoreflect.BoolKind:
			if v.Bool() {
				return "1"
			}
			return "0"
		case protoreflect.DoubleKind:
			return fscore(v.Float())
		default:
			return fmt.Sprint(v.Int())
		}
	}
	for i := 0; i < fds.Len(); i++ {
		fd := fds.Get(i)
		if fd.IsList() {
			l := m.Get(fd).List()
			fmt.Fprintf(&b, " %s=[%d", fd.Name(), l.Len())
			for j := 0; j < l.Len(); j++ {
				b.WriteString(" " + one(fd, l.Get(j)))
			}
			b.WriteString("]")
		} else {
			fmt.Fprintf(&b, " %s=%s", fd.Name(), one(fd, m.Get(fd)))
		}
	}
	return strings.TrimSpace(b.String())
}

func safeKey(d patch.OpData) (k string) {
	defer func() {
		if recover() != nil {
			k = ""
		}
	}()
	return d.GetKey()
}

// flush: after a step, print the records the step produced, pass them through the wire encoding
// to the replica and print the replica's keyspace
func (in *inst) feedFlush(w *bufio.Writer) {
	f := in.feed
	if f == nil {
		return
	}
	if f.baseline == 0 {
		// first flush, right after the FEED step: nothing is in flight, this is the level to return to
		for i := 0; i < 20; i++ {
			runtime.Gosched()
			time.Sleep(100 * time.Microsecond)
		}
		f.baseline = runtime.NumGoroutine()
	}
	quiet := f.quiesce()
	f.mu.Lock()
	all, filtered := f.all, f.filtered
	f.all, f.filtered = nil, nil
	f.mu.Unlock()
	q := "quiet"
	if !quiet {
		q = "NOTQUIET"
	}
	fmt.Fprintf(w, "REC %d %d %s\n", len(all), len(filtered), q)
	for _, op := range all {
		fmt.Fprintf(w, "R %s %s %s\n", opName(op.Type), tokBytes([]byte(safeKey(op.Data))), opFields(op.Data))
		msg := func() (msg string) {
			defer func() {
				if r := recover(); r != nil {
					msg = "panic:" + strings.ReplaceAll(fmt.Sprint(r), " ", "_")
				}
			}()
			enc := op.Encode()
			dec, err := patch.DecodeOp(enc)
			if err != nil {
				return "decode:" + strings.ReplaceAll(err.Error(), " ", "_")
			}
			if dec.Type != op.Type || opFields(dec.Data) != opFields(op.Data) {
				return "roundtrip:" + strings.ReplaceAll(opFields(dec.Data), " ", "_")
			}
			if err := f.replica.ApplyPatch(dec); err != nil {
				return "apply:" + strings.ReplaceAll(err.Error(), " ", "_")
			}
			return ""
		}()
		if msg != "" {
			if len(msg) > 160 {
				msg = msg[:160]
			}
			fmt.Fprintf(w, "RERR %s %s\n", opName(op.Type), msg)
		}
	}
	for _, op := range filtered {
		fmt.Fprintf(w, "R2 %s %s\n", opName(op.Type), tokBytes([]byte(safeKey(op.Data))))
	}
	ms := f.replica.VerifDump()
	fmt.Fprintf(w, "RDUMP %d %d\n", len(ms), nowMs()) // the clock after the records were applied
	for _, m := range ms {
		fmt.Fprintf(w, "RK %s %d %d %s\n", tokBytes([]byte(m.Name)), m.Expiration, m.ValueType, valueTokens(m.Value))
	}
}

// burst: n APPENDs to one key without waiting for the notifications in between, then the order
// in which the "*" watcher saw the records for that key
func (in *inst) feedBurst(w *bufio.Writer, keytok string, n int, dump bool) {
	f := in.feed
	if f == nil {
		return
	}
	key := string(parseTok(keytok))
	f.quiesce()
	f.mu.Lock()
	f.all, f.filtered = nil, nil
	f.mu.Unlock()
	t0 := nowMs()
	lens := make([]int64, n)
	for i := 0; i < n; i++ {
		lens[i] = in.n.LPush(key, []byte(fmt.Sprintf("%04d", i)))
	}
	t1 := nowMs()
	f.quiesce()
	for i := 0; i < n; i++ {
		fmt.Fprintf(w, "OP 0 LPUSH 2 %s %s %d %d => I%d\n", keytok, lit(fmt.Sprintf("%04d", i)), t0, t1, lens[i])
		if i == n-1 && dump {
			in.dump(w)
		}
	}
	f.mu.Lock()
	all := f.all
	f.all, f.filtered = nil, nil
	f.mu.Unlock()
	var seq []string
	for _, op := range all {
		if p, ok := op.Data.(*patch.OpLPush); ok && len(p.Values) == 1 {
			seq = append(seq, string(p.Values[0]))
		}
	}
	inorder := len(seq) == n
	for i := 1; i < len(seq); i++ {
		if seq[i-1] >= seq[i] {
			inorder = false
		}
	}
	st := "inorder"
	if !inorder {
		st = "REORDERED"
	}
	first := ""
	for i := 1; i < len(seq); i++ {
		if seq[i-1] >= seq[i] {
			first = fmt.Sprintf("%s-before-%s", seq[i-1], seq[i])
			break
		}
	}
	fmt.Fprintf(w, "BURST %d %d %s %s\n", n, len(seq), st, dash(first))
	// bring the replica along
	for _, op := range all {
		func() {
			defer func() { recover() }()
			if dec, err := patch.DecodeOp(op.Encode()); err == nil {
				f.replica.ApplyPatch(dec)
			}
		}()
	}
}
