package main

import (
	"bufio"
	"fmt"
	"io"
	"net"
	"strings"
	"time"
)

// quitprobeMain (C16): QUIT over a real socket.  The in-process command runner has no socket, so the one command
// whose reply depends on the order of flush and close is probed here: a pipeline PING ; SET k v ; QUIT must be
// answered by three replies, then the server closes the connection.
//
//	QUITPROBE replies=<r1>|<r2>|<r3> closed=<bool>
func quitprobeMain(args []string) {
	srv := startServer("", 0)
	defer srv.kill()
	c, err := net.Dial("tcp", srv.addr)
	if err != nil {
		fmt.Println("QUITPROBE replies=CONNECT-FAILED closed=false")
		return
	}
	defer c.Close()
	rd := bufio.NewReader(c)
	c.SetDeadline(time.Now().Add(3 * time.Second))
	payload := append(respEncode("PING", nil), respEncode("SET", [][]byte{[]byte("k"), []byte("v")})...)
	payload = append(payload, respEncode("QUIT", nil)...)
	c.Write(payload)
	var rs []string
	for i := 0; i < 3; i++ {
		r, err := readReply(rd)
		if err != nil {
			r = "NONE(" + strings.ReplaceAll(err.Error(), " ", "_") + ")"
		}
		rs = append(rs, r)
	}
	_, err = rd.ReadByte()
	fmt.Printf("QUITPROBE replies=%s closed=%v\n", strings.Join(rs, "|"), err == io.EOF)
}
