package main

import (
	"bufio"
	"flag"
	"fmt"
	"os"
	"strings"
)

// traceMain: run scripts (generated or read from a file) against the implementation and
// write the trace: per step the command, the clock bracket, the flat reply tokens and a
// full dump of the index and the storage backend.
func traceMain(args []string) {
	fs := flag.NewFlagSet("trace", flag.ExitOnError)
	seed := fs.Uint64("seed", 1, "")
	profile := fs.String("profile", "str", "")
	cases := fs.Int("cases", 10, "")
	length := fs.Int("len", 30, "")
	backend := fs.String("backend", "mem", "mem | peb | both")
	out := fs.String("out", "", "")
	script := fs.String("script", "", "file with CASE / OP / X lines to run instead of generating")
	nodump := fs.Bool("nodump", false, "")
	feed := fs.String("feed", "", "attach the change feed at the start of every generated case: comma-separated pattern tokens")
	fs.Parse(args)
	w := bufio.NewWriterSize(os.Stdout, 1<<20)
	if *out != "" {
		f, err := os.Create(*out)
		if err != nil {
			panic(err)
		}
		defer f.Close()
		w = bufio.NewWriterSize(f, 1<<20)
	}
	defer w.Flush()

	type cs struct {
		id      string
		backend string
		steps   []step
	}
	var all []cs
	if *script != "" {
		f, err := os.Open(*script)
		if err != nil {
			panic(err)
		}
		sc := bufio.NewScanner(f)
		sc.Buffer(make([]byte, 1<<20), 1<<28)
		var cur *cs
		for sc.Scan() {
			l := strings.TrimSpace(sc.Text())
			if l == "" || strings.HasPrefix(l, "#") {
				continue
			}
			t := strings.Fields(l)
			if t[0] == "CASE" {
				all = append(all, cs{id: t[1], backend: t[2]})
				cur = &all[len(all)-1]
				continue
			}
			if s, ok := parseStepLine(l); ok && cur != nil {
				cur.steps = append(cur.steps, s)
			}
		}
		f.Close()
	} else {
		g := &gen{r: newRng(*seed)}
		for i := 0; i < *cases; i++ {
			be := *backend
			if be == "both" {
				be = []string{"mem", "peb"}[i%2]
			}
			n := 1 + g.r.intn(*length)
			if i%3 == 0 {
				n = *length
			}
			steps := g.script(*profile, n)
			if *feed != "" {
				steps = append([]step{{X: "FEED", Xarg: *feed}}, steps...)
				if i%4 == 0 {
					steps = append(steps, step{X: "BURST", Xarg: lit("burst") + ":25"})
				}
			}
			all = append(all, cs{id: fmt.Sprintf("%s-%d-%d", *profile, *seed, i), backend: be, steps: steps})
		}
	}
	for _, c := range all {
		in := newInst(c.backend)
		fmt.Fprintf(w, "CASE %s %s\n", c.id, c.backend)
		for _, s := range c.steps {
			if s.X == "IT" {
				iterate(w, in, s, !*nodump)
				if in.dead {
					break
				}
				continue
			}
			if s.X == "BURST" {
				// BURST <keytok>:<n>: n LPUSH calls back to back, written as ordinary steps afterwards
				parts := strings.SplitN(s.Xarg, ":", 2)
				n := 20
				if len(parts) == 2 {
					fmt.Sscan(parts[1], &n)
				}
				in.feedBurst(w, parts[0], n, !*nodump)
				continue
			}
			if s.X != "" {
				t0, t1, r := in.xop(s.X, s.Xarg)
				fmt.Fprintf(w, "%s %d %d => %s\n", stepLine(s), t0, t1, r)
			} else {
				bargs := make([][]byte, len(s.Args))
				for i, a := range s.Args {
					bargs[i] = parseTok(a)
				}
				t0, t1, r := in.exec(s.Conn, s.Name, bargs)
				fmt.Fprintf(w, "%s %d %d => %s\n", stepLine(s), t0, t1, r)
			}
			if !*nodump {
				in.dump(w)
			}
			in.feedFlush(w)
			if in.dead {
				break
			}
		}
		fmt.Fprintln(w, "END")
		in.destroy()
	}
}

// iterate: one cursor-following loop.  Every call (and every churn command between two calls)
// is written as an ordinary OP step, bracketed by X ITBEGIN / X ITEND <status>:<calls>.
func iterate(w *bufio.Writer, in *inst, s step, dump bool) {
	mark := func(op, arg string) {
		t := nowMs()
		fmt.Fprintf(w, "X %s %s %d %d => ok\n", op, arg, t, t)
		if dump {
			in.dump(w)
		}
	}
	run := func(name string, toks []string) string {
		bargs := make([][]byte, len(toks))
		for i, a := range toks {
			bargs[i] = parseTok(a)
		}
		t0, t1, r := in.exec(s.Conn, name, bargs)
		fmt.Fprintf(w, "%s %d %d => %s\n", stepLine(step{Conn: s.Conn, Name: name, Args: toks}), t0, t1, r)
		if dump {
			in.dump(w)
		}
		return r
	}
	mark("ITBEGIN", "-")
	cursor := "0"
	calls := 0
	status := "done"
	for {
		toks := make([]string, len(s.Args))
		for i, a := range s.Args {
			if a == "@C" {
				toks[i] = lit(cursor)
			} else {
				toks[i] = a
			}
		}
		r := run(s.Name, toks)
		calls++
		f := strings.Fields(r)
		if in.dead || len(f) < 3 || f[0] != "A2" || !strings.HasPrefix(f[1], "B") || !strings.HasPrefix(f[2], "A") {
			status = "error"
			break
		}
		cursor = string(parseTok(f[1][1:]))
		if cursor == "0" {
			break
		}
		if calls >= s.Max {
			status = "limit"
			break
		}
		if s.Chrn {
			// elements outside the tracked set: added before one call, removed before the next
			key := ""
			if len(s.Args) > 0 && s.Args[0] != "@C" {
				key = s.Args[0]
			}
			el := lit(fmt.Sprintf("churn:%d", (calls-1)/2))
			add := calls%2 == 1
			switch strings.ToUpper(s.Name) {
			case "SCAN":
				if add {
					run("SET", []string{el, lit("x")})
				} else {
					run("DEL", []string{el})
				}
			case "SSCAN":
				if add {
					run("SADD", []string{key, el})
				} else {
					run("SREM", []string{key, el})
				}
			case "HSCAN":
				if add {
					run("HSET", []string{key, el, lit("x")})
				} else {
					run("HDEL", []string{key, el})
				}
			case "ZSCAN":
				if add {
					run("ZADD", []string{key, lit("0"), el})
				} else {
					run("ZREM", []string{key, el})
				}
			}
			if in.dead {
				status = "error"
				break
			}
		}
	}
	mark("ITEND", fmt.Sprintf("%s:%d", status, calls))
}
