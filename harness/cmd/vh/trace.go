package main

import (
	"bufio"
	"flag"
	"fmt"
	"os"
	"strings"
)

// traceMain: run scripts (generated or read from a file) against the implementation and
// write the trace: per step the command, the clock bracket, the flat reply tokens and a
// full dump of the index and the storage backend.
func traceMain(args []string) {
	fs := flag.NewFlagSet("trace", flag.ExitOnError)
	seed := fs.Uint64("seed", 1, "")
	profile := fs.String("profile", "str", "")
	cases := fs.Int("cases", 10, "")
	length := fs.Int("len", 30, "")
	backend := fs.String("backend", "mem", "mem | peb | both")
	out := fs.String("out", "", "")
	script := fs.String("script", "", "file with CASE / OP / X lines to run instead of generating")
	nodump := fs.Bool("nodump", false, "")
	fs.Parse(args)
	w := bufio.NewWriterSize(os.Stdout, 1<<20)
	if *out != "" {
		f, err := os.Create(*out)
		if err != nil {
			panic(err)
		}
		defer f.Close()
		w = bufio.NewWriterSize(f, 1<<20)
	}
	defer w.Flush()

	type cs struct {
		id      string
		backend string
		steps   []step
	}
	var all []cs
	if *script != "" {
		f, err := os.Open(*script)
		if err != nil {
			panic(err)
		}
		sc := bufio.NewScanner(f)
		sc.Buffer(make([]byte, 1<<20), 1<<28)
		var cur *cs
		for sc.Scan() {
			l := strings.TrimSpace(sc.Text())
			if l == "" || strings.HasPrefix(l, "#") {
				continue
			}
			t := strings.Fields(l)
			if t[0] == "CASE" {
				all = append(all, cs{id: t[1], backend: t[2]})
				cur = &all[len(all)-1]
				continue
			}
			if s, ok := parseStepLine(l); ok && cur != nil {
				cur.steps = append(cur.steps, s)
			}
		}
		f.Close()
	} else {
		g := &gen{r: newRng(*seed)}
		for i := 0; i < *cases; i++ {
			be := *backend
			if be == "both" {
				be = []string{"mem", "peb"}[i%2]
			}
			n := 1 + g.r.intn(*length)
			if i%3 == 0 {
				n = *length
			}
			all = append(all, cs{id: fmt.Sprintf("%s-%d-%d", *profile, *seed, i), backend: be, steps: g.script(*profile, n)})
		}
	}
	for _, c := range all {
		in := newInst(c.backend)
		fmt.Fprintf(w, "CASE %s %s\n", c.id, c.backend)
		for _, s := range c.steps {
			if s.X != "" {
				t0, t1, r := in.xop(s.X, s.Xarg)
				fmt.Fprintf(w, "%s %d %d => %s\n", stepLine(s), t0, t1, r)
			} else {
				bargs := make([][]byte, len(s.Args))
				for i, a := range s.Args {
					bargs[i] = parseTok(a)
				}
				t0, t1, r := in.exec(s.Conn, s.Name, bargs)
				fmt.Fprintf(w, "%s %d %d => %s\n", stepLine(s), t0, t1, r)
			}
			if !*nodump {
				in.dump(w)
			}
			if in.dead {
				break
			}
		}
		fmt.Fprintln(w, "END")
		in.destroy()
	}
}
