package main

import (
	"bufio"
	"bytes"
	"flag"
	"fmt"
	"os"
	"sort"
	"strconv"
	"strings"
	"sync"
	"time"

	"github.com/diiyw/nodis"
	"github.com/diiyw/nodis/ds/list"
	"github.com/diiyw/nodis/redis"
	"github.com/diiyw/nodis/storage"
)

// blockMain: schedules of the blocking-pop thread model (coq/Model/Block.v) forced on the implementation.
//   BSCN <id> <k=v.v,..|-> <CMD,...> <op,op,...>       ops: r<t> run thread t to its next point,
//                                                        f<t> fire t's timeout timer and run it, t<d> clock tick (model only)
// Every thread runs one command in its own goroutine and stops before it starts and at every b: point
// of list.go (b:reg, b:try, b:select, b:dereg, b:notify); the points of tx.go are passed through.
//   BOBS <id> sched=<ops as they happened> lists=.. replies=.. reg=.. notdone=.. [STUCK=<i>:<op>] [PANIC=t:msg]
// A fired timer competes with a pending wake-up inside the select; which branch ran is seen at the
// next point (b:try: woken, b:dereg: timed out) and written back into sched (f<t> becomes r<t>).
type bthread struct {
	id      int
	cmd     string
	grant   chan struct{}
	timer   chan time.Time
	mu      sync.Mutex
	state   string // "point:<name>", "running", "done"
	reply   string
	panicv  string
	arrived chan struct{}
}

func bkey(k string) string { return "k" + k }

func (t *bthread) get() string {
	t.mu.Lock()
	defer t.mu.Unlock()
	return t.state
}
func (t *bthread) set(s string) {
	t.mu.Lock()
	t.state = s
	t.mu.Unlock()
}

func runBlockScenario(id, listspec, cmdspec, schedspec string, settle time.Duration) string {
	n := nodis.Open(&nodis.Options{Storage: storage.NewMemory()})
	keys := map[string]bool{}
	if listspec != "-" {
		for _, kv := range strings.Split(listspec, ",") {
			p := strings.SplitN(kv, "=", 2)
			keys[p[0]] = true
			for _, v := range strings.Split(p[1], ".") {
				n.RPush(bkey(p[0]), []byte(v))
			}
		}
	}
	var reg sync.Map
	var threads []*bthread
	for i, c := range strings.Split(cmdspec, ",") {
		threads = append(threads, &bthread{id: i, cmd: c, grant: make(chan struct{}), timer: make(chan time.Time, 1),
			state: "point:start", arrived: make(chan struct{}, 64)})
		p := strings.Split(c, ":")
		switch p[0] {
		case "MOVE":
			keys[p[1]], keys[p[2]] = true, true
		default:
			for _, k := range strings.Split(p[1], ".") {
				keys[k] = true
			}
		}
	}
	nodis.VerifSetController(func(point string) {
		if !strings.HasPrefix(point, "b:") {
			return
		}
		v, ok := reg.Load(goid())
		if !ok {
			return
		}
		t := v.(*bthread)
		t.set("point:" + point[2:])
		t.arrived <- struct{}{}
		<-t.grant
		t.set("running")
	})
	nodis.VerifSetTimer(func(d time.Duration) <-chan time.Time {
		v, ok := reg.Load(goid())
		if !ok {
			return nil
		}
		return v.(*bthread).timer
	})
	defer nodis.VerifSetController(nil)
	defer nodis.VerifSetTimer(nil)
	for _, t := range threads {
		t := t
		go func() {
			reg.Store(goid(), t)
			<-t.grant
			t.set("running")
			r := ""
			func() {
				defer func() {
					if e := recover(); e != nil {
						t.mu.Lock()
						t.panicv = strings.ReplaceAll(fmt.Sprint(e), " ", "_")
						t.mu.Unlock()
						r = "PANIC"
					}
				}()
				p := strings.Split(t.cmd, ":")
				vals := func(s string) [][]byte {
					var out [][]byte
					for _, v := range strings.Split(s, ".") {
						out = append(out, []byte(v))
					}
					return out
				}
				names := func(s string) []string {
					var out []string
					for _, k := range strings.Split(s, ".") {
						out = append(out, bkey(k))
					}
					return out
				}
				elem := func(v [][]byte) string {
					if len(v) == 0 {
						return "Enil"
					}
					return "E" + string(v[0])
				}
				blk := func(k string, v []byte) string {
					if k == "" {
						return "Bnil"
					}
					return "B" + strings.TrimPrefix(k, "k") + "/" + string(v)
				}
				switch p[0] {
				case "LPUSH":
					r = "I" + strconv.FormatInt(n.LPush(bkey(p[1]), vals(p[2])...), 10)
				case "RPUSH":
					r = "I" + strconv.FormatInt(n.RPush(bkey(p[1]), vals(p[2])...), 10)
				case "LPOP":
					r = elem(n.LPop(bkey(p[1]), 1))
				case "RPOP":
					r = elem(n.RPop(bkey(p[1]), 1))
				case "MOVE":
					func() {
						// RPopLPush indexes an empty result when the source has no element (a C02 finding): null
						defer func() {
							if e := recover(); e != nil {
								r = "Enil"
							}
						}()
						v := n.RPopLPush(bkey(p[1]), bkey(p[2]))
						if v == nil {
							r = "Enil"
						} else {
							r = "E" + string(v)
						}
					}()
				case "BLPOP", "BRPOP":
					ms, _ := strconv.Atoi(p[2])
					d := time.Duration(ms) * time.Millisecond
					if p[0] == "BLPOP" {
						r = blk(n.BLPop(d, names(p[1])...))
					} else {
						r = blk(n.BRPop(d, names(p[1])...))
					}
				}
			}()
			t.mu.Lock()
			t.state = "done"
			t.reply = r
			t.mu.Unlock()
			t.arrived <- struct{}{}
		}()
	}
	var observed []string
	stuck := ""
	ops := []string{}
	if schedspec != "-" {
		ops = strings.Split(schedspec, ",")
	}
	for i, op := range ops {
		if op == "" {
			continue
		}
		if op[0] == 't' {
			observed = append(observed, op)
			continue
		}
		ti, _ := strconv.Atoi(op[1:])
		if ti < 0 || ti >= len(threads) {
			continue
		}
		t := threads[ti]
		st := t.get()
		if st == "done" {
			continue // the thread finished earlier than the schedule expected (a select took the other branch)
		}
		if !strings.HasPrefix(st, "point:") {
			stuck = fmt.Sprintf("%d:%s:not-at-a-point(%s)", i, op, st)
			break
		}
		for len(t.arrived) > 0 {
			<-t.arrived
		}
		fired := false
		if op[0] == 'f' {
			if st != "point:select" {
				stuck = fmt.Sprintf("%d:%s:not-in-select(%s)", i, op, st)
				break
			}
			select {
			case t.timer <- time.Now():
			default:
			}
			fired = true
		}
		t.grant <- struct{}{}
		select {
		case <-t.arrived:
		case <-time.After(settle):
			stuck = fmt.Sprintf("%d:%s:no-progress", i, op)
		}
		if stuck != "" {
			break
		}
		if fired {
			if t.get() == "point:try" {
				// the select took the pending wake-up, not the timer
				select {
				case <-t.timer:
				default:
				}
				observed = append(observed, "r"+op[1:])
			} else {
				observed = append(observed, op)
			}
		} else {
			observed = append(observed, op)
		}
	}
	// outcome
	var lists, replies, regs, notdone, panics []string
	present := map[string][]string{}
	for _, m := range n.VerifDump() {
		if l, ok := m.Value.(*list.LinkedList); ok {
			var el []string
			for _, e := range l.VerifElems() {
				el = append(el, string(e))
			}
			present[m.Name] = el
		}
	}
	var ks []string
	for k := range keys {
		ks = append(ks, k)
	}
	sort.Slice(ks, func(i, j int) bool { a, _ := strconv.Atoi(ks[i]); b, _ := strconv.Atoi(ks[j]); return a < b })
	bd := n.VerifBlockDump()
	for _, k := range ks {
		if el := present[bkey(k)]; len(el) > 0 {
			lists = append(lists, k+":"+strings.Join(el, "."))
		}
		if c := bd[bkey(k)]; c > 0 {
			regs = append(regs, fmt.Sprintf("%s:%d", k, c))
		}
	}
	for _, t := range threads {
		st := t.get()
		t.mu.Lock()
		switch {
		case st == "done":
			replies = append(replies, fmt.Sprintf("%d:%s", t.id, t.reply))
			if t.panicv != "" {
				panics = append(panics, fmt.Sprintf("%d:%s", t.id, t.panicv))
			}
		case st == "running":
			notdone = append(notdone, fmt.Sprintf("%d:blocked", t.id))
		default:
			notdone = append(notdone, fmt.Sprintf("%d:%s", t.id, strings.TrimPrefix(st, "point:")))
		}
		t.mu.Unlock()
	}
	j := func(l []string) string {
		if len(l) == 0 {
			return "-"
		}
		return strings.Join(l, ",")
	}
	extra := ""
	if stuck != "" {
		extra += " STUCK=" + stuck
	}
	if len(panics) > 0 {
		extra += " PANIC=" + j(panics)
	}
	return fmt.Sprintf("BOBS %s sched=%s lists=%s replies=%s reg=%s notdone=%s%s", id, j(observed), j(lists), j(replies), j(regs), j(notdone), extra)
}

// real-time behaviour of the timeout (no replaced timer): BTIME <id> <BLPOP|BRPOP|cmd:BLPOP|cmd:BRPOP> <timeout text> <push after ms|->
//   BTOBS <id> reply=<..> elapsed_ms=<n>
func runBlockTiming(id, kind, tmo, pushAfter string) string {
	n := nodis.Open(&nodis.Options{Storage: storage.NewMemory()})
	done := make(chan string, 1)
	t0 := time.Now()
	go func() {
		f, _ := strconv.ParseFloat(tmo, 64)
		d := time.Duration(f * float64(time.Second))
		var k string
		var v []byte
		switch kind {
		case "BLPOP":
			k, v = n.BLPop(d, "tk")
		case "BRPOP":
			k, v = n.BRPop(d, "tk")
		default:
			// through the command handler: the timeout text is parsed by handler.go
			done <- "H" + serveOne(n, strings.TrimPrefix(kind, "cmd:"), "tk", tmo)
			return
		}
		if k == "" {
			done <- "Bnil"
		} else {
			done <- "B" + string(v)
		}
	}()
	if pushAfter != "-" {
		ms, _ := strconv.Atoi(pushAfter)
		time.Sleep(time.Duration(ms) * time.Millisecond)
		n.RPush("tk", []byte("a"), []byte("b"))
	}
	select {
	case r := <-done:
		return fmt.Sprintf("BTOBS %s reply=%s elapsed_ms=%d", id, r, time.Since(t0).Milliseconds())
	case <-time.After(1500 * time.Millisecond):
		return fmt.Sprintf("BTOBS %s reply=WAITING elapsed_ms=%d", id, time.Since(t0).Milliseconds())
	}
}

func blockMain(args []string) {
	fs := flag.NewFlagSet("block", flag.ExitOnError)
	in := fs.String("in", "", "scenario file")
	settleMs := fs.Int("settle", 2500, "milliseconds after which a granted thread that reached no point counts as stuck")
	fs.Parse(args)
	f, err := os.Open(*in)
	if err != nil {
		panic(err)
	}
	defer f.Close()
	w := bufio.NewWriter(os.Stdout)
	defer w.Flush()
	sc := bufio.NewScanner(f)
	sc.Buffer(make([]byte, 1<<20), 1<<26)
	for sc.Scan() {
		t := strings.Fields(sc.Text())
		if len(t) >= 5 && t[0] == "BSCN" {
			fmt.Fprintln(w, runBlockScenario(t[1], t[2], t[3], t[4], time.Duration(*settleMs)*time.Millisecond))
		}
		if len(t) >= 5 && t[0] == "BTIME" {
			fmt.Fprintln(w, runBlockTiming(t[1], t[2], t[3], t[4]))
		}
	}
}

// serveOne: one command through the real reader and handler of a fresh connection; the flat reply tokens
func serveOne(n *nodis.Nodis, name string, args ...string) string {
	f := &feeder{}
	out := &bytes.Buffer{}
	c := redis.VerifNewConn(f, out)
	var ba [][]byte
	for _, a := range args {
		ba = append(ba, []byte(a))
	}
	f.buf.Write(respEncode(name, ba))
	if err := c.Reader.ReadCommand(); err != nil {
		return "READERR"
	}
	n.VerifServe(c, c.Reader.VerifCmd())
	raw := append([]byte(nil), c.Writer.Bytes()...)
	return strings.ReplaceAll(replyTokens(raw), " ", "_")
}
