package main

import (
	"bufio"
	"bytes"
	"crypto/md5"
	"encoding/hex"
	"fmt"
	"os"
	"sort"
	"strconv"
	"strings"
	"time"

	"github.com/diiyw/nodis"
	"github.com/diiyw/nodis/ds"
	"github.com/diiyw/nodis/ds/hash"
	"github.com/diiyw/nodis/ds/list"
	"github.com/diiyw/nodis/ds/set"
	"github.com/diiyw/nodis/ds/str"
	"github.com/diiyw/nodis/ds/zset"
	"github.com/diiyw/nodis/redis"
	"github.com/diiyw/nodis/storage"
)

// ---- fault-injecting storage wrapper (lives here, not in the repository) ----
type faultStore struct {
	storage.Storage
	faults []bool // outcome of the next Set calls: true = rejected
}

func (f *faultStore) Set(key *ds.Key, value ds.Value) error {
	if len(f.faults) > 0 {
		fail := f.faults[0]
		f.faults = f.faults[1:]
		if fail {
			return fmt.Errorf("injected write failure")
		}
	}
	return f.Storage.Set(key, value)
}

type feeder struct{ buf bytes.Buffer }

func (f *feeder) Read(p []byte) (int, error) { return f.buf.Read(p) }

type vconn struct {
	c   *redis.Conn
	in  *feeder
	out *bytes.Buffer
}

// inst: one nodis instance driven in-process through the real reader and handlers
type inst struct {
	n       *nodis.Nodis
	backend string // mem | peb
	dir     string
	mem     *storage.Memory
	peb     *storage.Pebble
	fs      *faultStore
	conns   map[int]*vconn
	dead    bool // a command timed out (deadlock): the instance is unusable
	feed    *feedState
}

func newInst(backend string) *inst {
	in := &inst{backend: backend, conns: map[int]*vconn{}}
	if backend == "peb" {
		d, err := os.MkdirTemp("", "nodis-verif-peb-")
		if err != nil {
			panic(err)
		}
		in.dir = d
	} else {
		in.mem = storage.NewMemory()
	}
	in.open()
	return in
}

func (in *inst) open() {
	var base storage.Storage
	if in.backend == "peb" {
		in.peb = storage.NewPebble(in.dir, nil)
		base = in.peb
	} else {
		base = in.mem
	}
	in.fs = &faultStore{Storage: base}
	in.n = nodis.Open(&nodis.Options{Storage: in.fs})
}

func (in *inst) destroy() {
	if !in.dead {
		func() {
			defer func() { recover() }()
			in.n.Close()
		}()
	}
	if in.dir != "" {
		os.RemoveAll(in.dir)
	}
}

func (in *inst) conn(id int) *vconn {
	if c, ok := in.conns[id]; ok {
		return c
	}
	f := &feeder{}
	out := &bytes.Buffer{}
	c := &vconn{c: redis.VerifNewConn(f, out), in: f, out: out}
	in.conns[id] = c
	return c
}

func respEncode(name string, args [][]byte) []byte {
	var b bytes.Buffer
	fmt.Fprintf(&b, "*%d\r\n$%d\r\n%s\r\n", len(args)+1, len(name), name)
	for _, a := range args {
		fmt.Fprintf(&b, "$%d\r\n", len(a))
		b.Write(a)
		b.WriteString("\r\n")
	}
	return b.Bytes()
}

func nowMs() int64 { return time.Now().UnixMilli() }

// exec: one command through the real reader and handler.  Returns the flat reply tokens.
func (in *inst) exec(id int, name string, args [][]byte) (t0, t1 int64, reply string) {
	if in.dead {
		return nowMs(), nowMs(), "DEAD"
	}
	vc := in.conn(id)
	vc.in.buf.Write(respEncode(name, args))
	if err := vc.c.Reader.ReadCommand(); err != nil {
		return nowMs(), nowMs(), "READERR"
	}
	cmd := vc.c.Reader.VerifCmd()
	done := make(chan string, 1)
	t0 = nowMs()
	go func() {
		defer func() {
			if r := recover(); r != nil {
				done <- "CRASH"
			}
		}()
		in.n.VerifServe(vc.c, cmd)
		done <- ""
	}()
	select {
	case r := <-done:
		t1 = nowMs()
		if r != "" {
			return t0, t1, r
		}
	case <-time.After(5 * time.Second):
		in.dead = true
		return t0, nowMs(), "TIMEOUT"
	}
	raw := append([]byte(nil), vc.c.Writer.Bytes()...)
	vc.c.Flush()
	vc.out.Reset()
	return t0, t1, replyTokens(raw)
}

// replyTokens: strict flat tokenisation of what the handler wrote
func replyTokens(raw []byte) string {
	var toks []string
	i := 0
	line := func() (string, bool) {
		j := bytes.Index(raw[i:], []byte("\r\n"))
		if j < 0 {
			return "", false
		}
		s := string(raw[i : i+j])
		i += j + 2
		return s, true
	}
	for i < len(raw) {
		t := raw[i]
		i++
		l, ok := line()
		if !ok {
			return strings.Join(append(toks, "MALFORMED"), " ")
		}
		switch t {
		case '+':
			if strings.ContainsAny(l, "\r\n") {
				return strings.Join(append(toks, "MALFORMED"), " ")
			}
			toks = append(toks, "S"+tokBytes([]byte(l)))
		case '-':
			if strings.ContainsAny(l, "\r\n") {
				return strings.Join(append(toks, "MALFORMED"), " ")
			}
			toks = append(toks, "E")
		case ':':
			if _, err := strconv.ParseInt(l, 10, 64); err != nil {
				return strings.Join(append(toks, "MALFORMED"), " ")
			}
			toks = append(toks, "I"+l)
		case '$':
			n, err := strconv.Atoi(l)
			if err != nil || n < -1 {
				return strings.Join(append(toks, "MALFORMED"), " ")
			}
			if n == -1 {
				toks = append(toks, "N")
				continue
			}
			if i+n+2 > len(raw) || raw[i+n] != '\r' || raw[i+n+1] != '\n' {
				return strings.Join(append(toks, "MALFORMED"), " ")
			}
			toks = append(toks, "B"+tokOut(raw[i:i+n]))
			i += n + 2
		case '*':
			n, err := strconv.Atoi(l)
			if err != nil || n < -1 {
				return strings.Join(append(toks, "MALFORMED"), " ")
			}
			if n == -1 {
				toks = append(toks, "n")
			} else {
				toks = append(toks, "A"+l)
			}
		default:
			return strings.Join(append(toks, "MALFORMED"), " ")
		}
	}
	if len(toks) == 0 {
		return "NOREPLY"
	}
	return strings.Join(toks, " ")
}

// ---- dumps -------------------------------------------------------------------
func fscore(f float64) string { return strconv.FormatFloat(f, 'f', -1, 64) }

// tokVal: values in dumps are written in full up to 8 KiB so that the judge can rebuild them
func tokVal(b []byte) string {
	if len(b) > 8192 {
		return tokOut(b)
	}
	return tokBytes(b)
}

func valueTokens(v ds.Value) string {
	if v == nil {
		return "cold"
	}
	var b strings.Builder
	switch x := v.(type) {
	case *str.String:
		nilv := 0
		if x.V == nil {
			nilv = 1
		}
		fmt.Fprintf(&b, "s %d %s", nilv, tokVal(x.V))
	case *list.LinkedList:
		el := x.VerifElems()
		chk := "ok"
		if err := x.VerifCheck(); err != nil {
			chk = "BAD:" + strings.ReplaceAll(err.Error(), " ", "_")
		}
		fmt.Fprintf(&b, "l %d %d %s", x.LLen(), len(el), chk)
		for _, e := range el {
			b.WriteString(" " + tokVal(e))
		}
	case *hash.HashMap:
		ks := x.HKeys()
		fmt.Fprintf(&b, "h %d", len(ks))
		for _, k := range ks {
			b.WriteString(" " + tokVal([]byte(k)) + " " + tokVal(x.HGet(k)))
		}
	case *set.Set:
		ms := x.SMembers()
		fmt.Fprintf(&b, "S %d", len(ms))
		for _, m := range ms {
			b.WriteString(" " + tokVal([]byte(m)))
		}
	case *zset.SortedSet:
		d, ix := x.VerifDump()
		chk := "ok"
		if err := x.VerifCheck(); err != nil {
			chk = "BAD:" + strings.ReplaceAll(err.Error(), " ", "_")
		}
		fmt.Fprintf(&b, "z %s %d", chk, len(d))
		for _, it := range d {
			b.WriteString(" " + tokVal([]byte(it.Member)) + " " + fscore(it.Score))
		}
		fmt.Fprintf(&b, " %d", len(ix))
		for _, it := range ix {
			b.WriteString(" " + tokVal([]byte(it.Member)) + " " + fscore(it.Score))
		}
	default:
		b.WriteString("?")
	}
	return b.String()
}

func md5tok(b []byte) string {
	s := md5.Sum(b)
	return hex.EncodeToString(s[:]) + ":" + strconv.Itoa(len(b))
}

func (in *inst) dump(w *bufio.Writer) {
	if in.dead {
		fmt.Fprintln(w, "DUMP dead")
		return
	}
	ms := in.n.VerifDump()
	fmt.Fprintf(w, "DUMP %d\n", len(ms))
	for _, m := range ms {
		hot := 0
		if m.Value != nil {
			hot = 1
		}
		mod := 0
		if m.Modified {
			mod = 1
		}
		fmt.Fprintf(w, "K %s %d %d %d %d %d %s\n", tokBytes([]byte(m.Name)), m.Expiration, hot, mod, m.Count, m.ValueType, valueTokens(m.Value))
	}
	var es []storage.VerifEntry
	if in.backend == "peb" {
		es = in.peb.VerifEntries()
	} else {
		es = in.mem.VerifEntries()
	}
	sort.SliceStable(es, func(i, j int) bool { return es[i].EncKey < es[j].EncKey })
	fmt.Fprintf(w, "ST %d\n", len(es))
	for _, e := range es {
		if in.backend == "peb" {
			ty := -1
			if len(e.Bytes) > 0 {
				ty = int(e.Bytes[0])
			}
			if ty == int(ds.ZSet) {
				// float bit patterns are outside the model: type and length only
				fmt.Fprintf(w, "P %s z:%d %d\n", tokBytes([]byte(e.EncKey)), len(e.Bytes), ty)
			} else {
				fmt.Fprintf(w, "P %s %s %d\n", tokBytes([]byte(e.EncKey)), md5tok(e.Bytes), ty)
			}
		} else {
			fmt.Fprintf(w, "M %s %s %d %s\n", tokBytes([]byte(e.EncKey)), tokBytes([]byte(e.Key.Name)), e.Key.Expiration, valueTokens(e.Value))
		}
	}
}

// ---- storage-level operations between commands -----------------------------------
func (in *inst) xop(op string, arg string) (t0, t1 int64, res string) {
	if in.dead {
		return nowMs(), nowMs(), "DEAD"
	}
	done := make(chan string, 1)
	t0 = nowMs()
	go func() {
		defer func() {
			if r := recover(); r != nil {
				done <- "CRASH:" + strings.ReplaceAll(fmt.Sprint(r), " ", "_")
			}
		}()
		switch op {
		case "GC":
			in.n.VerifGC()
		case "FLUSH":
			in.n.VerifFlush()
		case "REOPEN":
			in.n.Close()
			in.conns = map[int]*vconn{}
			in.open()
		case "FAULTS":
			in.fs.faults = nil
			for _, c := range arg {
				in.fs.faults = append(in.fs.faults, c == '1')
			}
		case "FEED":
			in.attachFeed(arg)
		case "PROBE":
			// force every index entry to be loaded (Type goes through readKey)
			for _, m := range in.n.VerifDump() {
				in.n.Type(m.Name)
			}
		case "SLEEP":
			ms, _ := strconv.Atoi(arg)
			time.Sleep(time.Duration(ms) * time.Millisecond)
		}
		done <- "ok"
	}()
	select {
	case r := <-done:
		return t0, nowMs(), r
	case <-time.After(20 * time.Second):
		in.dead = true
		return t0, nowMs(), "TIMEOUT"
	}
}
