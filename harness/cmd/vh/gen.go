package main

import (
	"encoding/hex"
	"fmt"
	"strconv"
	"strings"
)

// A step of a script: a command on a connection, or a storage-level operation.
type step struct {
	X    string // "" for a command; GC FLUSH REOPEN FAULTS SLEEP otherwise
	Xarg string
	Conn int
	Name string
	Args []string // tokens (hex, "-", or P<len>:<a>); "@C" = the cursor of an iteration step
	Max  int      // X == "IT": most calls of one cursor-following loop
	Chrn bool     // X == "IT": add/remove an untracked element between two calls
}

func lit(s string) string { return tokBytes([]byte(s)) }

// ---- universes ---------------------------------------------------------------------
var keyU = []string{"k1", "k2", "k3", "k4", "a"}
var valU = []string{"", "a", "abc", "10", "-3", "0", "007", "9223372036854775807", "-9223372036854775808", "\r\n\x00\xff", "hello world", "12abc", "3", "2"}
var memU = []string{"", "a", "b", "c", "d", "e", "\x00\r\n", "zz"}
var scoreU = []string{"0", "1", "2", "-1", "5", "10", "3", "inf", "-inf", "+inf", "100", "-7"}
var patU = []string{"*", "k*", "?1", "k?", "a", "*1", "zz*"}

type gen struct {
	r *rng
}

func (g *gen) key() string { return lit(g.r.pick(keyU)) }
func (g *gen) key2(not string) string {
	for {
		k := g.key()
		if k != not {
			return k
		}
	}
}
func (g *gen) val() string {
	switch g.r.intn(12) {
	case 0:
		return tokPattern(64+g.r.intn(3)-1, g.r.intn(200))
	case 1:
		return tokPattern(4097, g.r.intn(200))
	case 2:
		if g.r.intn(4) == 0 {
			return tokPattern(70000, g.r.intn(200))
		}
		return tokPattern(300, 7)
	default:
		return lit(g.r.pick(valU))
	}
}
func (g *gen) mem() string {
	switch g.r.intn(14) {
	case 0:
		return tokPattern(63+g.r.intn(3), g.r.intn(200))
	case 1:
		return tokPattern(200, 3)
	default:
		return lit(g.r.pick(memU))
	}
}
func (g *gen) idx() string {
	switch g.r.intn(10) {
	case 0:
		return lit(g.r.pick([]string{"2147483648", "-2147483649", "4611686018427387904", "-4611686018427387904", "100"}))
	default:
		return lit(strconv.Itoa(g.r.intn(15) - 7))
	}
}
func (g *gen) cnt() string  { return lit(strconv.Itoa(g.r.intn(7) - 1)) }
func (g *gen) num() string {
	return lit(g.r.pick([]string{"1", "-1", "5", "0", "100", "9223372036854775807", "-9223372036854775808", "7", "+3", "x", "1.5", ""}))
}
func (g *gen) score() string { return lit(g.r.pick(scoreU)) }
func (g *gen) bound() string {
	s := g.r.pick(scoreU)
	if g.r.intn(3) == 0 {
		s = "(" + s
	}
	return lit(s)
}
func (g *gen) pat() string    { return lit(g.r.pick(patU)) }
func (g *gen) bitoff() string { return lit(strconv.Itoa(g.r.pick2([]int{0, 1, 7, 8, 9, 15, 16, 63, 100, 1000}))) }
func (r *rng) pick2(xs []int) int { return xs[r.intn(len(xs))] }
func (g *gen) off() string {
	return lit(strconv.Itoa(g.r.pick2([]int{0, 1, 2, 3, 5, 10, 100, -1, 4096})))
}
func (g *gen) dur() string   { return lit(g.r.pick([]string{"1", "2", "100", "0", "-5", "1099511627776", "x", "3"})) }
func (g *gen) durms() string { return lit(g.r.pick([]string{"40", "80", "1500", "100000", "0", "-5", "1"})) }
func (g *gen) absS() string {
	now := nowMs() / 1000
	return lit(g.r.pick([]string{strconv.FormatInt(now+2, 10), strconv.FormatInt(now+100, 10), strconv.FormatInt(now-10, 10), "1", "4102444800"}))
}
func (g *gen) absMs() string {
	now := nowMs()
	return lit(g.r.pick([]string{strconv.FormatInt(now+60, 10), strconv.FormatInt(now+1500, 10), strconv.FormatInt(now+100123, 10), strconv.FormatInt(now-10, 10)}))
}

// expand a template: words starting with $ are drawn from the universes
func (g *gen) expand(t string) (string, []string) {
	ws := strings.Fields(t)
	var k1 string
	out := make([]string, 0, len(ws))
	for i, x := range ws {
		if i == 0 {
			continue
		}
		switch x {
		case "$k":
			k := g.key()
			if k1 == "" {
				k1 = k
			}
			out = append(out, k)
		case "$k2":
			out = append(out, g.key2(k1))
		case "$v":
			out = append(out, g.val())
		case "$m", "$f":
			out = append(out, g.mem())
		case "$i":
			out = append(out, g.idx())
		case "$cnt":
			out = append(out, g.cnt())
		case "$n":
			out = append(out, g.num())
		case "$s":
			out = append(out, g.score())
		case "$b":
			out = append(out, g.bound())
		case "$pat":
			out = append(out, g.pat())
		case "$bitoff":
			out = append(out, g.bitoff())
		case "$bit":
			out = append(out, lit(g.r.pick([]string{"0", "1", "1", "2"})))
		case "$off":
			out = append(out, g.off())
		case "$dur":
			out = append(out, g.dur())
		case "$durms":
			out = append(out, g.durms())
		case "$abs":
			out = append(out, g.absS())
		case "$absms":
			out = append(out, g.absMs())
		case "$cur":
			out = append(out, lit(strconv.Itoa(g.r.pick2([]int{0, 0, 0, 1, 2, 5}))))
		case "$c":
			out = append(out, lit(strconv.Itoa(g.r.pick2([]int{1, 2, 3, 10, 0}))))
		default:
			out = append(out, lit(x))
		}
	}
	return ws[0], out
}

var tplKeys = []string{
	"DEL $k", "DEL $k $k", "UNLINK $k", "EXISTS $k", "EXISTS $k $k $k", "TYPE $k", "RENAME $k $k2", "RENAMENX $k $k2",
	"KEYS *", "KEYS $pat", "DBSIZE", "SCAN 0", "SCAN $cur COUNT $c", "SCAN 0 MATCH $pat", "SCAN 0 TYPE string", "SCAN 0 TYPE list COUNT 100",
	"TTL $k", "PTTL $k", "PERSIST $k",
}
var tplStr = []string{
	"SET $k $v", "SET $k $v", "SET $k $v NX", "SET $k $v XX", "SET $k $v GET", "SET $k $v KEEPTTL", "SET $k $v XX GET",
	"GET $k", "GET $k", "GETSET $k $v", "SETNX $k $v", "MSET $k $v $k $v", "MSET $k $v", "MGET $k $k $k", "APPEND $k $v", "APPEND $k -",
	"STRLEN $k", "GETRANGE $k $i $i", "GETRANGE $k $i $i", "SETRANGE $k $off $v", "INCR $k", "DECR $k", "INCRBY $k $n", "DECRBY $k $n",
	"INCRBYFLOAT $k $n", "SETBIT $k $bitoff $bit", "GETBIT $k $bitoff", "BITCOUNT $k", "BITCOUNT $k $i $i", "BITCOUNT $k $i $i BIT",
	"LPUSH $k $v", "SADD $k $m", "HSET $k $f $v", "ZADD $k $s $m",
}
var tplList = []string{
	"LPUSH $k $v", "RPUSH $k $v", "LPUSH $k $v $v $v", "RPUSH $k $v $v", "LPUSHX $k $v", "RPUSHX $k $v", "LPOP $k", "RPOP $k",
	"LPOP $k $cnt", "RPOP $k $cnt", "LLEN $k", "LINDEX $k $i", "LRANGE $k $i $i", "LRANGE $k $i $i", "LRANGE $k 0 -1", "LINSERT $k BEFORE $v $v",
	"LINSERT $k AFTER $v $v", "LSET $k $i $v", "LREM $k $cnt $v", "LTRIM $k $i $i", "RPOPLPUSH $k $k2", "LPOPRPUSH $k $k2",
	"SET $k $v", "DEL $k", "TYPE $k", "EXISTS $k",
}
var tplHash = []string{
	"HSET $k $f $v", "HSET $k $f $v $f $v", "HSET $k $f $v $f $v $f", "HMSET $k $f $v $f $v", "HSETNX $k $f $v", "HGET $k $f", "HMGET $k $f $f",
	"HGETALL $k", "HKEYS $k", "HVALS $k", "HDEL $k $f", "HDEL $k $f $f", "HLEN $k", "HEXISTS $k $f", "HSTRLEN $k $f", "HINCRBY $k $f $n",
	"HINCRBYFLOAT $k $f $n", "HSCAN $k 0", "HSCAN $k $cur COUNT $c", "HSCAN $k 0 MATCH $pat COUNT 100", "HCLEAR $k", "SET $k $v", "DEL $k", "TYPE $k",
}
var tplSet = []string{
	"SADD $k $m", "SADD $k $m $m $m", "SREM $k $m", "SREM $k $m $m", "SISMEMBER $k $m", "SCARD $k", "SMEMBERS $k", "SMOVE $k $k2 $m",
	"SPOP $k", "SPOP $k $cnt", "SINTER $k $k", "SINTER $k $k $k", "SUNION $k $k", "SUNION $k $k $k", "SDIFF $k $k", "SDIFF $k $k $k",
	"SINTERSTORE $k $k $k", "SUNIONSTORE $k $k $k", "SDIFFSTORE $k $k $k", "SSCAN $k 0", "SSCAN $k $cur COUNT $c", "SSCAN $k 0 MATCH $pat",
	"SET $k $v", "DEL $k", "TYPE $k", "EXISTS $k",
}
var tplZset = []string{
	"ZADD $k $s $m", "ZADD $k $s $m", "ZADD $k $s $m $s $m", "ZADD $k NX $s $m", "ZADD $k XX $s $m", "ZADD $k GT $s $m", "ZADD $k LT $s $m",
	"ZADD $k INCR $s $m", "ZINCRBY $k $s $m", "ZREM $k $m", "ZREM $k $m $m", "ZCARD $k", "ZSCORE $k $m", "ZRANK $k $m", "ZREVRANK $k $m",
	"ZRANGE $k $i $i", "ZRANGE $k $i $i WITHSCORES", "ZRANGE $k $i $i REV", "ZRANGE $k 0 -1 WITHSCORES", "ZREVRANGE $k $i $i", "ZREVRANGE $k $i $i WITHSCORES",
	"ZRANGE $k $b $b BYSCORE", "ZRANGE $k $b $b BYSCORE REV", "ZRANGE $k $b $b BYSCORE LIMIT $cur $c WITHSCORES",
	"ZRANGEBYSCORE $k $b $b", "ZRANGEBYSCORE $k $b $b WITHSCORES", "ZRANGEBYSCORE $k $b $b LIMIT $cur $c", "ZRANGEBYSCORE $k -inf +inf",
	"ZREVRANGEBYSCORE $k $b $b", "ZREVRANGEBYSCORE $k $b $b LIMIT $cur $c", "ZREVRANGEBYSCORE $k +inf -inf WITHSCORES",
	"ZCOUNT $k $b $b", "ZCOUNT $k -inf +inf", "ZREMRANGEBYRANK $k $i $i", "ZREMRANGEBYSCORE $k $b $b",
	"ZUNIONSTORE k4 2 k1 k2", "ZUNIONSTORE k4 2 k1 k2 AGGREGATE MIN", "ZUNIONSTORE k4 3 k1 k2 k3 AGGREGATE MAX", "ZINTERSTORE k4 2 k1 k2", "ZINTERSTORE k4 2 k1 k2 AGGREGATE SUM",
	"ZINTERSTORE k3 2 k1 k3", "ZEXISTS $k $m", "ZSCAN $k 0", "ZSCAN $k $cur COUNT $c", "ZCLEAR $k", "SET $k $v", "DEL $k", "TYPE $k",
}
var tplExpiry = []string{
	"EXPIRE $k $dur", "EXPIRE $k $dur", "EXPIRE $k $dur NX", "EXPIRE $k $dur XX", "EXPIRE $k $dur GT", "EXPIRE $k $dur LT",
	"EXPIREAT $k $abs", "EXPIREAT $k $abs NX", "EXPIREAT $k $abs XX", "EXPIREAT $k $abs GT", "EXPIREAT $k $abs LT",
	"SET $k $v EX $dur", "SET $k $v PX $durms", "SET $k $v PX $durms", "SET $k $v EXAT $abs", "SET $k $v PXAT $absms", "SETEX $k $dur $v",
	"SET $k $v KEEPTTL", "SET $k $v", "GETSET $k $v", "PERSIST $k", "TTL $k", "PTTL $k", "PTTL $k", "GET $k", "EXISTS $k", "TYPE $k", "KEYS *",
	"APPEND $k $v", "INCR $k", "LPUSH $k $v", "RPUSH $k $v", "HSET $k $f $v", "SADD $k $m", "RENAME $k $k2", "DEL $k", "SCAN 0", "DBSIZE", "LRANGE $k 0 -1",
	"SINTER $k $k", "LPOP $k", "STRLEN $k",
}

func (g *gen) fromTemplates(tpls []string, conn int) step {
	name, args := g.expand(g.r.pick(tpls))
	return step{Conn: conn, Name: name, Args: args}
}

// script generators per profile
func (g *gen) script(profile string, n int) (st []step) {
	switch profile {
	case "str":
		for i := 0; i < n; i++ {
			if g.r.intn(5) == 0 {
				st = append(st, g.fromTemplates(tplKeys, 0))
			} else {
				st = append(st, g.fromTemplates(tplStr, 0))
			}
		}
	case "list":
		for i := 0; i < n; i++ {
			st = append(st, g.fromTemplates(tplList, 0))
		}
	case "hash":
		for i := 0; i < n; i++ {
			st = append(st, g.fromTemplates(tplHash, 0))
		}
	case "set":
		for i := 0; i < n; i++ {
			st = append(st, g.fromTemplates(tplSet, 0))
		}
	case "zset":
		for i := 0; i < n; i++ {
			st = append(st, g.fromTemplates(tplZset, 0))
		}
	case "mixed":
		all := [][]string{tplKeys, tplStr, tplList, tplHash, tplSet, tplZset}
		for i := 0; i < n; i++ {
			st = append(st, g.fromTemplates(all[g.r.intn(len(all))], 0))
		}
	case "expiry":
		for i := 0; i < n; i++ {
			if g.r.intn(9) == 0 {
				st = append(st, step{X: "SLEEP", Xarg: g.r.pick([]string{"60", "120", "30"})})
			} else {
				st = append(st, g.fromTemplates(tplExpiry, 0))
			}
		}
	case "reopen":
		// C11: histories of all types with deletes, renames, TTL changes and intermediate SAVE / close-open cycles;
		// every close/open is bracketed by probes that load every key
		all := [][]string{tplKeys, tplStr, tplList, tplHash, tplSet, tplZset, tplExpiry}
		for i := 0; i < n; i++ {
			switch g.r.intn(16) {
			case 0:
				st = append(st, step{X: "PROBE"}, step{X: "REOPEN"}, step{X: "PROBE"})
			case 1:
				st = append(st, step{Conn: 0, Name: "SAVE"})
			case 2:
				st = append(st, step{X: "GC"})
			default:
				st = append(st, g.fromTemplates(all[g.r.intn(len(all))], 0))
			}
		}
		st = append(st, step{X: "PROBE"}, step{X: "REOPEN"}, step{X: "PROBE"}, step{X: "PROBE"}, step{X: "REOPEN"}, step{X: "PROBE"})
	case "evict":
		// C12: no expiry commands (so that the run without passes is comparable), passes at arbitrary points
		all := [][]string{tplKeys, tplStr, tplList, tplHash, tplSet, tplZset}
		for i := 0; i < n; i++ {
			switch g.r.intn(12) {
			case 0, 1, 2:
				k := 1 + g.r.intn(3)
				for j := 0; j < k; j++ {
					st = append(st, step{X: "GC"})
				}
			case 3:
				st = append(st, step{X: "FLUSH"})
			case 4:
				st = append(st, step{Conn: 0, Name: "SCAN", Args: []string{lit("0"), lit("TYPE"), lit(g.r.pick([]string{"string", "list", "hash", "set", "zset"})), lit("COUNT"), lit("100")}})
			default:
				s := g.fromTemplates(all[g.r.intn(len(all))], 0)
				if s.Name == "TTL" || s.Name == "PTTL" || s.Name == "PERSIST" {
					s = step{Conn: 0, Name: "DBSIZE"}
				}
				st = append(st, s)
			}
		}
		st = append(st, step{X: "PROBE"})
	case "persist":
		all := [][]string{tplKeys, tplStr, tplList, tplHash, tplSet, tplZset, tplExpiry}
		for i := 0; i < n; i++ {
			switch g.r.intn(14) {
			case 0, 1:
				st = append(st, step{X: "GC"})
			case 2:
				st = append(st, step{X: "FLUSH"})
			case 3:
				if g.r.intn(2) == 0 {
					st = append(st, step{X: "REOPEN"})
				} else {
					st = append(st, step{Conn: 0, Name: "SAVE"})
				}
			default:
				st = append(st, g.fromTemplates(all[g.r.intn(len(all))], 0))
			}
		}
	case "faults":
		all := [][]string{tplStr, tplList, tplHash, tplSet}
		defer func() { st = append(st, step{X: "FAULTS", Xarg: ""}, step{X: "PROBE"}) }()
		for i := 0; i < n; i++ {
			switch g.r.intn(10) {
			case 0, 1, 2:
				st = append(st, step{X: "GC"})
			case 3:
				bits := ""
				for j := 0; j < 1+g.r.intn(4); j++ {
					bits += strconv.Itoa(g.r.intn(2))
				}
				st = append(st, step{X: "FAULTS", Xarg: bits})
			case 4:
				st = append(st, step{X: "FLUSH"})
			default:
				st = append(st, g.fromTemplates(all[g.r.intn(len(all))], 0))
			}
		}
	case "multi":
		data := [][]string{tplStr, tplList, tplKeys, tplSet}
		for i := 0; i < n; i++ {
			c := g.r.intn(3)
			switch g.r.intn(12) {
			case 0, 1:
				st = append(st, step{Conn: c, Name: "MULTI"})
			case 2, 3:
				st = append(st, step{Conn: c, Name: "EXEC"})
			case 4:
				st = append(st, step{Conn: c, Name: "DISCARD"})
			case 5:
				st = append(st, step{Conn: c, Name: "WATCH", Args: []string{g.key()}})
			case 6:
				if g.r.intn(2) == 0 {
					st = append(st, step{Conn: c, Name: "WATCH", Args: []string{g.key(), g.key()}})
				} else {
					st = append(st, step{Conn: c, Name: "UNWATCH"})
				}
			default:
				s := g.fromTemplates(data[g.r.intn(len(data))], c)
				st = append(st, s)
			}
		}
	case "hostile":
		st = g.hostile(n, false)
	case "hostilem":
		st = g.hostile(n, true)
	default:
		panic("unknown profile " + profile)
	}
	return st
}

func stepLine(s step) string {
	if s.X != "" {
		return fmt.Sprintf("X %s %s", s.X, dash(s.Xarg))
	}
	return fmt.Sprintf("OP %d %s %d %s", s.Conn, nameTok(s.Name), len(s.Args), joinToks(s.Args))
}

// command names are written verbatim when alphanumeric, otherwise as ":" + hex
func nameTok(n string) string {
	ok := n != ""
	for _, c := range []byte(n) {
		if !(c >= 'A' && c <= 'Z' || c >= 'a' && c <= 'z' || c >= '0' && c <= '9') {
			ok = false
		}
	}
	if ok {
		return n
	}
	return ":" + hex.EncodeToString([]byte(n))
}
func nameUntok(t string) string {
	if strings.HasPrefix(t, ":") {
		b, _ := hex.DecodeString(t[1:])
		return string(b)
	}
	return t
}

func parseStepLine(l string) (step, bool) {
	t := strings.Fields(l)
	if len(t) < 2 {
		return step{}, false
	}
	switch t[0] {
	case "IT":
		// IT <conn> <maxcalls> <churn 0|1> <NAME> <nargs> <args with @C>
		if len(t) < 6 {
			return step{}, false
		}
		c, _ := strconv.Atoi(t[1])
		mx, _ := strconv.Atoi(t[2])
		n, _ := strconv.Atoi(t[5])
		var args []string
		if n > 0 {
			args = t[6 : 6+n]
		}
		return step{X: "IT", Conn: c, Max: mx, Chrn: t[3] == "1", Name: nameUntok(t[4]), Args: args}, true
	case "X":
		a := ""
		if len(t) > 2 && t[2] != "-" {
			a = t[2]
		}
		return step{X: t[1], Xarg: a}, true
	case "OP":
		c, _ := strconv.Atoi(t[1])
		n, _ := strconv.Atoi(t[3])
		args := t[4:]
		if n == 0 {
			args = nil
		} else {
			args = args[:n]
		}
		return step{Conn: c, Name: nameUntok(t[2]), Args: args}, true
	}
	return step{}, false
}


// every name GetCommand knows (checked against the source by the translator) plus unknowns
var allCommands = []string{"CLIENT", "CONFIG", "DBSIZE", "PING", "ECHO", "FLUSHDB", "WATCH", "UNWATCH", "MULTI", "DISCARD", "EXEC",
	"FLUSHALL", "SAVE", "INFO", "DEL", "UNLINK", "EXISTS", "EXPIRE", "EXPIREAT", "KEYS", "RANDOMKEY", "TTL", "PTTL", "PERSIST", "RENAME",
	"RENAMENX", "TYPE", "SCAN", "SET", "MSET", "APPEND", "SETEX", "SETNX", "GET", "GETSET", "MGET", "SETRANGE", "GETRANGE", "STRLEN", "INCR",
	"INCRBY", "DECR", "DECRBY", "INCRBYFLOAT", "SETBIT", "GETBIT", "BITCOUNT", "SADD", "SMOVE", "SSCAN", "SCARD", "SPOP", "SDIFF",
	"SDIFFSTORE", "SINTER", "SINTERSTORE", "SUNION", "SUNIONSTORE", "SISMEMBER", "SMEMBERS", "SRANDMEMBER", "SREM", "HSET", "HGET", "HDEL",
	"HLEN", "HKEYS", "HEXISTS", "HGETALL", "HINCRBY", "HINCRBYFLOAT", "HSETNX", "HMGET", "HMSET", "HCLEAR", "HSTRLEN", "HSCAN", "HVALS",
	"LPUSH", "RPUSH", "LPOP", "RPOP", "LLEN", "LINDEX", "LINSERT", "LPUSHX", "RPUSHX", "LREM", "LTRIM", "LSET", "LRANGE", "LPOPRPUSH",
	"RPOPLPUSH", "BLPOP", "BRPOP", "ZADD", "ZCARD", "ZRANK", "ZREVRANK", "ZSCORE", "ZINCRBY", "ZRANGE", "ZREVRANGE", "ZRANGEBYSCORE",
	"ZREVRANGEBYSCORE", "ZREM", "ZCOUNT", "ZREMRANGEBYRANK", "ZREMRANGEBYSCORE", "ZCLEAR", "ZUNIONSTORE", "ZINTERSTORE", "ZEXISTS", "ZSCAN",
	"GEOADD", "GEODIST", "GEOHASH", "GEOPOS", "GEORADIUS", "GEORADIUSBYMEMBER"}

var hostileArgs = []string{"", "0", "1", "-1", "2", "10", "x", "abc", "1.5", "-0", "nan", "inf", "-inf", "(1", "(", "(x", "1e400", "0x10",
	"9223372036854775807", "9223372036854775808", "-9223372036854775808", "-9223372036854775809", "99999999999999999999", " 1", "1 ",
	"NX", "XX", "GT", "LT", "CH", "INCR", "EX", "PX", "EXAT", "PXAT", "GET", "KEEPTTL", "MATCH", "COUNT", "TYPE", "LIMIT", "WITHSCORES",
	"BYSCORE", "REV", "WEIGHTS", "AGGREGATE", "BIT", "BYTE", "BEFORE", "AFTER", "SUM", "MIN", "MAX", "WITHDIST", "WITHCOORD", "WITHHASH", "M", "KM", "ASC", "DESC", "ANY",
	"k1", "k2", "ks", "kl", "kh", "kS", "kz", "*", "?", "[", "\\", "a\r\nb", "LIST", "SETNAME", "GET", "DATABASES", "13.361389", "38.115556", "Palermo"}

// hostile: prior states of every type, then every command with 0..8 hostile arguments
func (g *gen) hostile(n int, modelledOnly bool) []step {
	st := []step{
		{Name: "SET", Args: []string{lit("ks"), lit("10")}},
		{Name: "RPUSH", Args: []string{lit("kl"), lit("a"), lit("b"), lit("c")}},
		{Name: "HSET", Args: []string{lit("kh"), lit("f"), lit("1")}},
		{Name: "SADD", Args: []string{lit("kS"), lit("a"), lit("b")}},
		{Name: "ZADD", Args: []string{lit("kz"), lit("1"), lit("a"), lit("2"), lit("b")}},
	}
	for i := 0; i < n; i++ {
		name := g.r.pick(allCommands)
		if modelledOnly {
			for strings.HasPrefix(name, "GEO") || name == "INFO" || name == "CLIENT" || name == "CONFIG" || name == "RANDOMKEY" ||
				name == "SRANDMEMBER" || name == "BLPOP" || name == "BRPOP" {
				name = g.r.pick(allCommands)
			}
		}
		if name == "BLPOP" || name == "BRPOP" {
			// blocking with a timeout that does not parse as 0 would stall the single-threaded runner:
			// the last argument is a tiny timeout
			k := 1 + g.r.intn(3)
			var as []string
			for j := 0; j < k; j++ {
				as = append(as, lit(g.r.pick([]string{"kl", "k1", "ks", "nolist"})))
			}
			as = append(as, lit(g.r.pick([]string{"0.01", "0.02", "x", "-1"})))
			st = append(st, step{Conn: g.r.intn(2), Name: name, Args: as})
			continue
		}
		if g.r.intn(25) == 0 {
			name = g.r.pick([]string{"NOSUCHCMD", "", "get\r\n", "SET\x00"})
		}
		k := g.r.intn(9)
		var as []string
		for j := 0; j < k; j++ {
			if j == 0 && g.r.intn(2) == 0 {
				as = append(as, lit(g.r.pick([]string{"ks", "kl", "kh", "kS", "kz", "k1"})))
			} else if g.r.intn(40) == 0 {
				as = append(as, tokPattern(5000, 3))
			} else {
				as = append(as, lit(g.r.pick(hostileArgs)))
			}
		}
		st = append(st, step{Conn: g.r.intn(2), Name: name, Args: as})
	}
	return st
}
