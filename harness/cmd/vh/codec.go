package main

import (
	"bufio"
	"bytes"
	"flag"
	"fmt"
	"math"
	"os"
	"sort"
	"strings"
	"time"

	"github.com/diiyw/nodis/ds"
	"github.com/diiyw/nodis/ds/hash"
	"github.com/diiyw/nodis/ds/list"
	"github.com/diiyw/nodis/ds/set"
	"github.com/diiyw/nodis/ds/str"
	"github.com/diiyw/nodis/ds/zset"
	"github.com/diiyw/nodis/storage"
)

// codecMain: run the real encoders/decoders on generated inputs and write one case per
// line: the input (as tokens the model can rebuild), the implementation's encoding, and
// the implementation-vs-specification flags rt (decode(encode v) == v) and ind (decoded
// value unchanged after the source buffer was overwritten).
func codecMain(args []string) {
	fs := flag.NewFlagSet("codec", flag.ExitOnError)
	seed := fs.Uint64("seed", 1, "")
	tier := fs.String("tier", "quick", "")
	out := fs.String("out", "", "")
	fs.Parse(args)
	w := bufio.NewWriterSize(os.Stdout, 1<<20)
	if *out != "" {
		f, err := os.Create(*out)
		if err != nil {
			panic(err)
		}
		defer f.Close()
		w = bufio.NewWriterSize(f, 1<<20)
	}
	defer w.Flush()
	g := &codecGen{w: w, r: newRng(*seed)}
	if rest := fs.Args(); len(rest) > 0 {
		g.one(rest)
		return
	}
	g.run(*tier)
	if hangs >= 3 {
		fmt.Fprintln(w, "ABORT hangs=3")
		w.Flush()
		os.Exit(0)
	}
}

type codecGen struct {
	w *bufio.Writer
	r *rng
}

var hangs int

// safe runs f with a recover and a watchdog: a decoder that loops forever on its own
// encoder's output is reported as HANG (the goroutine is abandoned).
func safe(f func()) (panicked string) {
	done := make(chan string, 1)
	go func() {
		defer func() {
			if r := recover(); r != nil {
				done <- strings.ReplaceAll(fmt.Sprint(r), " ", "_")
				return
			}
			done <- ""
		}()
		f()
	}()
	select {
	case p := <-done:
		return p
	case <-time.After(25 * time.Second): // generous: the machine may be loaded; a real endless loop still ends up here
		hangs++
		return "HANG"
	}
}

func scribble(b []byte) {
	for i := range b {
		b[i] ^= 0xA5
	}
}

func b2i(b bool) int {
	if b {
		return 1
	}
	return 0
}

// ---- key ----
func (g *codecGen) key(nameTok string, exp int64) {
	if hangs >= 3 {
		return
	}
	name := parseTok(nameTok)
	var enc []byte
	var dn string
	var de int64
	decok := false
	p := safe(func() {
		enc = ds.NewKey(string(name), exp).Encode()
		k, err := ds.DecodeKey(append([]byte(nil), enc...))
		if err == nil {
			decok = true
			dn, de = k.Name, k.Expiration
		}
	})
	rt := p == "" && decok && dn == string(name) && de == exp
	fmt.Fprintf(g.w, "KEY %s %d %s rt=%d panic=%s\n", nameTok, exp, tokOut(enc), b2i(rt), dash(p))
}

func dash(s string) string {
	if s == "" {
		return "-"
	}
	return s
}

// ---- str ----
func (g *codecGen) str(vTok string) {
	if hangs >= 3 {
		return
	}
	v := parseTok(vTok)
	var enc []byte
	rt, ind := false, false
	p := safe(func() {
		s := str.NewString()
		s.Set(v)
		enc = append([]byte(nil), s.GetValue()...)
		buf := append([]byte{}, enc...)
		d := str.NewString()
		d.SetValue(buf)
		rt = bytes.Equal(d.Get(), v)
		scribble(buf)
		ind = bytes.Equal(d.Get(), v)
	})
	fmt.Fprintf(g.w, "STR %s %s rt=%d ind=%d panic=%s\n", vTok, tokOut(enc), b2i(rt), b2i(ind), dash(p))
}

func eqList(a, b [][]byte) bool {
	if len(a) != len(b) {
		return false
	}
	for i := range a {
		if !bytes.Equal(a[i], b[i]) {
			return false
		}
	}
	return true
}

// ---- list ----
func (g *codecGen) list(toks []string) {
	if hangs >= 3 {
		return
	}
	vals := make([][]byte, len(toks))
	for i, t := range toks {
		vals[i] = parseTok(t)
	}
	var enc []byte
	rt, ind := false, false
	p := safe(func() {
		l := list.NewLinkedList()
		l.RPush(vals...)
		enc = l.GetValue()
		buf := append([]byte{}, enc...)
		d := list.NewLinkedList()
		d.SetValue(buf)
		rt = eqList(d.LRange(0, -1), vals) && d.LLen() == int64(len(vals))
		scribble(buf)
		ind = eqList(d.LRange(0, -1), vals)
	})
	fmt.Fprintf(g.w, "LIST %d %s %s rt=%d ind=%d panic=%s\n", len(toks), joinToks(toks), tokOut(enc), b2i(rt), b2i(ind), dash(p))
}

func joinToks(t []string) string {
	if len(t) == 0 {
		return "."
	}
	return strings.Join(t, " ")
}

func uniqSorted(vals [][]byte) []string {
	m := map[string]bool{}
	for _, v := range vals {
		m[string(v)] = true
	}
	out := make([]string, 0, len(m))
	for k := range m {
		out = append(out, k)
	}
	sort.Strings(out)
	return out
}

func eqStrs(a, b []string) bool {
	if len(a) != len(b) {
		return false
	}
	for i := range a {
		if a[i] != b[i] {
			return false
		}
	}
	return true
}

// ---- set ----
func (g *codecGen) set(toks []string) {
	if hangs >= 3 {
		return
	}
	vals := make([][]byte, len(toks))
	for i, t := range toks {
		vals[i] = parseTok(t)
	}
	want := uniqSorted(vals)
	var enc []byte
	rt, ind := false, false
	p := safe(func() {
		s := set.NewSet()
		for _, v := range vals {
			s.SAdd(string(v))
		}
		enc = s.GetValue()
		buf := append([]byte{}, enc...)
		d := set.NewSet()
		d.SetValue(buf)
		rt = eqStrs(d.SMembers(), want) && d.SCard() == int64(len(want))
		scribble(buf)
		ind = eqStrs(d.SMembers(), want)
	})
	fmt.Fprintf(g.w, "SET %d %s %s rt=%d ind=%d panic=%s\n", len(toks), joinToks(toks), tokOut(enc), b2i(rt), b2i(ind), dash(p))
}

// ---- hash ----  toks = k1 v1 k2 v2 ...
func (g *codecGen) hash(toks []string) {
	if hangs >= 3 {
		return
	}
	n := len(toks) / 2
	want := map[string][]byte{}
	var enc []byte
	rt, ind := false, false
	p := safe(func() {
		h := hash.NewHashMap()
		for i := 0; i < n; i++ {
			k, v := parseTok(toks[2*i]), parseTok(toks[2*i+1])
			h.HSet(string(k), v)
			want[string(k)] = v
		}
		enc = h.GetValue()
		buf := append([]byte{}, enc...)
		d := hash.NewHashMap()
		d.SetValue(buf)
		chk := func() bool {
			if d.HLen() != int64(len(want)) {
				return false
			}
			for k, v := range want {
				if !d.HExists(k) || !bytes.Equal(d.HGet(k), v) {
					return false
				}
			}
			return true
		}
		rt = chk()
		scribble(buf)
		ind = chk()
	})
	fmt.Fprintf(g.w, "HASH %d %s %s rt=%d ind=%d panic=%s\n", n, joinToks(toks), tokOut(enc), b2i(rt), b2i(ind), dash(p))
}

// ---- zset ----  toks = bits1 m1 bits2 m2 ...   (bits: 16 hex digits, big-endian notation)
func (g *codecGen) zset(toks []string) {
	if hangs >= 3 {
		return
	}
	n := len(toks) / 2
	want := map[string]uint64{}
	var enc []byte
	rt, ind := false, false
	p := safe(func() {
		z := zset.NewSortedSet()
		for i := 0; i < n; i++ {
			var bits uint64
			fmt.Sscanf(toks[2*i], "%x", &bits)
			m := parseTok(toks[2*i+1])
			z.ZAdd(string(m), math.Float64frombits(bits))
			want[string(m)] = bits
		}
		enc = z.GetValue()
		buf := append([]byte{}, enc...)
		d := zset.NewSortedSet()
		d.SetValue(buf)
		chk := func() bool {
			if d.ZCard() != int64(len(want)) {
				return false
			}
			for m, bits := range want {
				s, err := d.ZScore(m)
				if err != nil || math.Float64bits(s) != bits {
					return false
				}
			}
			// the ordered index must hold the same members
			seen := 0
			for _, it := range d.ZRange(0, -1) {
				if b, ok := want[it.Member]; !ok || b != math.Float64bits(it.Score) {
					return false
				}
				seen++
			}
			return seen == len(want) && bytes.Equal(d.GetValue(), enc)
		}
		rt = chk()
		scribble(buf)
		ind = chk()
	})
	fmt.Fprintf(g.w, "ZSET %d %s %s rt=%d ind=%d panic=%s\n", n, joinToks(toks), tokOut(enc), b2i(rt), b2i(ind), dash(p))
}

// ---- envelope ---- (through the verif hook in package storage)
func (g *codecGen) entry(typ int, vTok string) {
	if hangs >= 3 {
		return
	}
	v := parseTok(vTok)
	var enc []byte
	rt := false
	p := safe(func() {
		enc = storage.VerifEncodeEntry(uint8(typ), v)
		t, pl, err := storage.VerifDecodeEntry(append([]byte{}, enc...))
		rt = err == nil && int(t) == typ && bytes.Equal(pl, v)
	})
	fmt.Fprintf(g.w, "ENT %d %s %s rt=%d panic=%s\n", typ, vTok, tokOut(enc), b2i(rt), dash(p))
}

// one: replay a single case given as the tokens of its trace line (inputs only)
func (g *codecGen) one(t []string) {
	switch t[0] {
	case "KEY":
		var e int64
		fmt.Sscanf(t[2], "%d", &e)
		g.key(t[1], e)
	case "STR":
		g.str(t[1])
	case "ENT":
		var ty int
		fmt.Sscanf(t[1], "%d", &ty)
		g.entry(ty, t[2])
	default:
		var n int
		fmt.Sscanf(t[1], "%d", &n)
		toks := t[2:]
		if n == 0 {
			toks = nil
		}
		switch t[0] {
		case "LIST":
			g.list(toks[:n])
		case "SET":
			g.set(toks[:n])
		case "HASH":
			g.hash(toks[:2*n])
		case "ZSET":
			g.zset(toks[:2*n])
		}
	}
}

var specialFloats = []uint64{
	0x0000000000000000, 0x8000000000000000, // +0 -0
	0x7ff0000000000000, 0xfff0000000000000, // +inf -inf
	0x0000000000000001, 0x800fffffffffffff, // subnormals
	0x7fefffffffffffff, 0xffefffffffffffff, // +-max
	0x3ff0000000000000, 0xbff8000000000000, 0x4059000000000000,
	0x0010000000000000, 0x3cb0000000000000,
}

func (g *codecGen) run(tier string) {
	r := g.r
	// lengths swept with the fixed fill pattern
	var lens []int
	if tier == "thorough" {
		for n := 0; n <= 16600; n++ {
			lens = append(lens, n)
		}
	} else {
		for n := 0; n <= 200; n++ {
			lens = append(lens, n)
		}
		for _, c := range []int{255, 256, 257, 4095, 4096, 4097, 8191, 8192, 8193, 16383, 16384, 16385, 16600} {
			lens = append(lens, c-1+0, c)
		}
	}
	// keys: all name lengths 0..64 x deadlines
	exps := []int64{0, 1, 63, 64, -1, 1727800000000, 1 << 55, 1<<56 - 1, 1 << 56, 1 << 62, math.MaxInt64, math.MinInt64}
	for n := 0; n <= 64; n++ {
		for _, e := range exps {
			g.key(tokPattern(n, n), e)
		}
	}
	for i := 0; i < 200; i++ {
		g.key(tokBytes(r.bytes(r.intn(12))), int64(r.next()))
	}
	for _, n := range lens {
		a := n % 251
		g.str(tokPattern(n, a))
		g.list([]string{tokPattern(n, a)})
		g.list([]string{"-", tokPattern(n, a), tokPattern(1, 0)})
		g.set([]string{tokPattern(n, a)})
		g.set([]string{tokPattern(n, a), "-", tokPattern(n+1, a)})
		g.hash([]string{tokPattern(n, a), tokPattern(3, 1)})
		g.hash([]string{tokPattern(2, 9), tokPattern(n, a)})
		g.hash([]string{tokPattern(n, a), "-", "-", tokPattern(n, a+1)})
		g.zset([]string{"3ff0000000000000", tokPattern(n, a)})
		g.entry(1+n%5, tokPattern(n, a))
	}
	// cross product of field-name and value lengths around prefix boundaries
	bl := []int{0, 1, 62, 63, 64, 65, 8190, 8191, 8192, 8193}
	for _, kl := range bl {
		for _, vl := range bl {
			g.hash([]string{tokPattern(kl, 3), tokPattern(vl, 5)})
		}
	}
	// special floats
	var zt []string
	for i, b := range specialFloats {
		zt = append(zt, fmt.Sprintf("%016x", b), tokBytes([]byte{byte('a' + i)}))
	}
	g.zset(zt)
	g.zset([]string{"7ff8000000000001", "6e", "0000000000000000", "-"}) // NaN payload, empty member
	// random structured values
	nr := 300
	if tier == "thorough" {
		nr = 5000
	}
	rb := func() string {
		switch r.intn(6) {
		case 0:
			return "-"
		case 1:
			return tokBytes(r.bytes(1 + r.intn(4)))
		case 2:
			return tokBytes([]byte{'\r', '\n', 0, byte(r.next())})
		case 3:
			return tokPattern(60+r.intn(10), r.intn(256))
		case 4:
			return tokPattern(r.intn(300), r.intn(256))
		default:
			return tokBytes(r.bytes(r.intn(20)))
		}
	}
	for i := 0; i < nr; i++ {
		k := r.intn(8)
		var lt, st, ht, zt []string
		for j := 0; j < k; j++ {
			lt = append(lt, rb())
			st = append(st, rb())
			ht = append(ht, rb(), rb())
			var bits uint64
			if r.intn(3) == 0 {
				bits = specialFloats[r.intn(len(specialFloats))]
			} else {
				bits = r.next()
			}
			zt = append(zt, fmt.Sprintf("%016x", bits), rb())
		}
		g.list(lt)
		g.set(st)
		g.hash(ht)
		g.zset(zt)
		g.str(rb())
	}
}
