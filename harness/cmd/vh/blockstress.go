package main

import (
	"flag"
	"fmt"
	"math/rand"
	"sort"
	"strings"
	"sync"
	"time"

	"github.com/diiyw/nodis"
	"github.com/diiyw/nodis/storage"
)

// blockstressMain: an exploration (not a proof) of what the schedule points cannot separate: real goroutines,
// real timers.  Each round has its own key pair: consumers with 1-4 ms timeouts (some listing both keys, some
// with timeout 0 that are released by a final push), producers that push around the moment the timeouts fire,
// plain pops.  Judged per round: no command panics, every command returns, pushed = popped + remaining as
// multisets, a null reply never comes before its timeout.
//   BSTRESS <ok|fail> rounds=<n> delivered=<n> nulls=<n> [what=...]
func blockstressMain(args []string) {
	fs := flag.NewFlagSet("blockstress", flag.ExitOnError)
	seed := fs.Int64("seed", 1, "")
	rounds := fs.Int("rounds", 300, "")
	par := fs.Int("par", 16, "rounds in flight")
	fs.Parse(args)
	n := nodis.Open(&nodis.Options{Storage: storage.NewMemory()})
	var mu sync.Mutex
	fail := ""
	delivered, nulls := 0, 0
	report := func(s string) {
		mu.Lock()
		if fail == "" {
			fail = s
		}
		mu.Unlock()
	}
	sem := make(chan struct{}, *par)
	var all sync.WaitGroup
	for r := 0; r < *rounds; r++ {
		sem <- struct{}{}
		all.Add(1)
		go func(r int) {
			defer all.Done()
			defer func() { <-sem }()
			rnd := rand.New(rand.NewSource(*seed*100000 + int64(r)))
			ka, kb := fmt.Sprintf("a%d", r), fmt.Sprintf("b%d", r)
			var wg sync.WaitGroup
			var lmu sync.Mutex
			var pushed, popped []string
			tmo := time.Duration(1+rnd.Intn(4)) * time.Millisecond
			nw, np := 1+rnd.Intn(3), 1+rnd.Intn(3)
			guard := func(what string, f func()) {
				wg.Add(1)
				go func() {
					defer wg.Done()
					defer func() {
						if e := recover(); e != nil {
							report(fmt.Sprintf("round %d: %s panicked: %v", r, what, e))
						}
					}()
					f()
				}()
			}
			for w := 0; w < nw; w++ {
				keys := []string{ka}
				if rnd.Intn(3) == 0 {
					keys = []string{kb, ka}
				}
				right := rnd.Intn(2) == 0
				d := tmo + time.Duration(rnd.Intn(2))*time.Millisecond
				guard("blocking pop", func() {
					t0 := time.Now()
					var k string
					var v []byte
					if right {
						k, v = n.BRPop(d, keys...)
					} else {
						k, v = n.BLPop(d, keys...)
					}
					el := time.Since(t0)
					lmu.Lock()
					if k == "" {
						nulls++
						if el < d {
							report(fmt.Sprintf("round %d: null after %v, timeout %v", r, el, d))
						}
					} else {
						popped = append(popped, string(v))
					}
					lmu.Unlock()
				})
			}
			for p := 0; p < np; p++ {
				p := p
				delay := tmo + time.Duration(rnd.Intn(3)-1)*time.Millisecond
				cnt := 1 + rnd.Intn(2)
				key := ka
				if rnd.Intn(4) == 0 {
					key = kb
				}
				guard("push", func() {
					time.Sleep(delay)
					var vals [][]byte
					for i := 0; i < cnt; i++ {
						vals = append(vals, []byte(fmt.Sprintf("%d.%d.%d", r, p, i)))
					}
					if got := n.RPush(key, vals...); got <= 0 {
						report(fmt.Sprintf("round %d: RPUSH replied %d", r, got))
					}
					lmu.Lock()
					for _, v := range vals {
						pushed = append(pushed, string(v))
					}
					lmu.Unlock()
				})
			}
			if rnd.Intn(2) == 0 {
				guard("plain pop", func() {
					time.Sleep(tmo)
					if v := n.LPop(ka, 1); len(v) > 0 {
						lmu.Lock()
						popped = append(popped, string(v[0]))
						lmu.Unlock()
					}
				})
			}
			fin := make(chan struct{})
			go func() { wg.Wait(); close(fin) }()
			select {
			case <-fin:
			case <-time.After(5 * time.Second):
				report(fmt.Sprintf("round %d: a command never returned (timeout %v, %d consumers, %d producers)", r, tmo, nw, np))
				return
			}
			rest := []string{}
			for _, k := range []string{ka, kb} {
				for _, v := range n.LRange(k, 0, 1000) {
					rest = append(rest, string(v))
				}
			}
			got := append(append([]string{}, popped...), rest...)
			sort.Strings(got)
			sort.Strings(pushed)
			if strings.Join(got, ",") != strings.Join(pushed, ",") {
				report(fmt.Sprintf("round %d: pushed [%s], popped+remaining [%s]", r, strings.Join(pushed, ","), strings.Join(got, ",")))
			}
			mu.Lock()
			delivered += len(popped)
			mu.Unlock()
			n.Del(ka, kb)
		}(r)
	}
	all.Wait()
	if fail != "" {
		fmt.Printf("BSTRESS fail rounds=%d delivered=%d nulls=%d what=%s\n", *rounds, delivered, nulls, strings.ReplaceAll(fail, " ", "_"))
		return
	}
	fmt.Printf("BSTRESS ok rounds=%d delivered=%d nulls=%d\n", *rounds, delivered, nulls)
}
