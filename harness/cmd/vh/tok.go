package main

import (
	"crypto/md5"
	"encoding/hex"
	"fmt"
	"strconv"
	"strings"
)

// Token encodings shared with the OCaml driver:
//   -            empty byte string
//   <hex>        bytes
//   P<len>:<a>   pattern bytes: b[i] = (a + 31*i + 7*(i/256)) mod 256   (inputs only)
//   #<md5>:<len> digest of a long byte string                           (outputs only)

func pattern(n, a int) []byte {
	b := make([]byte, n)
	for i := range b {
		b[i] = byte(a + 31*i + 7*(i/256))
	}
	return b
}

func tokBytes(b []byte) string {
	if len(b) == 0 {
		return "-"
	}
	return hex.EncodeToString(b)
}

func tokPattern(n, a int) string { return fmt.Sprintf("P%d:%d", n, a) }

// tokOut: long outputs are sent as digests
func tokOut(b []byte) string {
	if len(b) > 256 {
		s := md5.Sum(b)
		return "#" + hex.EncodeToString(s[:]) + ":" + strconv.Itoa(len(b))
	}
	return tokBytes(b)
}

func parseTok(t string) []byte {
	if t == "-" {
		return []byte{}
	}
	if strings.HasPrefix(t, "P") {
		var n, a int
		fmt.Sscanf(t, "P%d:%d", &n, &a)
		return pattern(n, a)
	}
	b, err := hex.DecodeString(t)
	if err != nil {
		panic("bad token " + t)
	}
	return b
}

// splitmix64: every random choice of the harness derives from one seed
type rng struct{ s uint64 }

func newRng(seed uint64) *rng { return &rng{s: seed*0x9E3779B97F4A7C15 + 0x1234567} }
func (r *rng) next() uint64 {
	r.s += 0x9E3779B97F4A7C15
	z := r.s
	z = (z ^ (z >> 30)) * 0xBF58476D1CE4E5B9
	z = (z ^ (z >> 27)) * 0x94D049BB133111EB
	return z ^ (z >> 31)
}
func (r *rng) intn(n int) int {
	if n <= 0 {
		return 0
	}
	return int(r.next() % uint64(n))
}
func (r *rng) pick(xs []string) string { return xs[r.intn(len(xs))] }
func (r *rng) bytes(n int) []byte {
	b := make([]byte, n)
	for i := range b {
		b[i] = byte(r.next())
	}
	return b
}
