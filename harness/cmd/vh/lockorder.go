package main

import (
	"fmt"
	"sync"
	"time"

	"github.com/diiyw/nodis"
	"github.com/diiyw/nodis/storage"
)

// lockorderMain (C06): the reader form of the lock-order deadlock.  Key locks are taken in argument order and a
// sync.RWMutex with a waiting writer admits no new reader, so two read-only commands that meet the same two keys
// in opposite orders, each followed by a writer on the key it holds, wait for each other for ever.
//
//	b exists, a does not.
//	T1 = EXISTS a b a : a is missing (no lock), read-locks b, stopped at the schedule point "locked"
//	main: RPUSH a x    (a now exists)
//	T2 = EXISTS a b   : read-locks a, stopped at "locked"
//	W1 = RPUSH b y    : waits in Lock(b) for T1          W2 = RPUSH a z : waits in Lock(a) for T2
//	T1 and T2 released: T1 wants RLock(a) behind W2, T2 wants RLock(b) behind W1.
//	LOCKORDER done=<commands that returned>/4
func lockorderMain(args []string) {
	n := nodis.Open(&nodis.Options{Storage: storage.NewMemory()})
	n.RPush("b", []byte("x"))
	var mu sync.Mutex
	ids := map[int64]bool{} // goroutines to stop at their first "locked"
	stoppedOnce := map[int64]bool{}
	stopped := make(chan struct{}, 2)
	release := make(chan struct{})
	nodis.VerifSetController(func(point string) {
		if point != "locked" {
			return
		}
		g := goid()
		mu.Lock()
		stop := ids[g] && !stoppedOnce[g]
		if stop {
			stoppedOnce[g] = true
		}
		mu.Unlock()
		if stop {
			stopped <- struct{}{}
			<-release
		}
	})
	defer nodis.VerifSetController(nil)
	var done sync.WaitGroup
	var cnt int64
	var cmu sync.Mutex
	start := func(stop bool, f func()) {
		done.Add(1)
		ready := make(chan struct{})
		go func() {
			if stop {
				mu.Lock()
				ids[goid()] = true
				mu.Unlock()
			}
			close(ready)
			f()
			cmu.Lock()
			cnt++
			cmu.Unlock()
			done.Done()
		}()
		<-ready
	}
	wait := func() bool {
		select {
		case <-stopped:
			return true
		case <-time.After(3 * time.Second):
			return false
		}
	}
	if len(args) > 0 && args[0] == "pref" {
		// the writer preference itself: a reader holds b (stopped at "locked"), a writer is inside Lock(b): a second reader
		// must wait (LOCKORDER ... r2_blocked=true); when the first reader is released all three commands return
		start(true, func() { n.Exists("b") })
		ok := wait()
		start(false, func() { n.RPush("b", []byte("y")) })
		time.Sleep(150 * time.Millisecond)
		r2 := make(chan struct{})
		start(false, func() { n.Exists("b"); close(r2) })
		blocked := false
		select {
		case <-r2:
		case <-time.After(400 * time.Millisecond):
			blocked = true
		}
		close(release)
		fin := make(chan struct{})
		go func() { done.Wait(); close(fin) }()
		select {
		case <-fin:
		case <-time.After(2 * time.Second):
		}
		cmu.Lock()
		c := cnt
		cmu.Unlock()
		fmt.Printf("LOCKORDER done=%d/3 staged=%v r2_blocked=%v\n", c, ok, blocked)
		return
	}
	start(true, func() { n.Exists("a", "b", "a") })
	ok := wait()
	n.RPush("a", []byte("x"))
	start(true, func() { n.Exists("a", "b") })
	ok = wait() && ok
	total := 4
	if len(args) > 0 && args[0] == "readers" {
		// the lock model says: without the queued writers the two readers share both locks and finish
		total = 2
	} else {
		start(false, func() { n.RPush("b", []byte("y")) })
		time.Sleep(150 * time.Millisecond)
		start(false, func() { n.RPush("a", []byte("z")) })
		time.Sleep(150 * time.Millisecond)
	}
	close(release)
	fin := make(chan struct{})
	go func() { done.Wait(); close(fin) }()
	select {
	case <-fin:
	case <-time.After(2 * time.Second):
	}
	cmu.Lock()
	c := cnt
	cmu.Unlock()
	fmt.Printf("LOCKORDER done=%d/%d staged=%v\n", c, total, ok)
}
