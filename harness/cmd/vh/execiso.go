package main

import (
	"bytes"
	"fmt"
	"strings"
	"sync"
	"time"

	"github.com/diiyw/nodis"
	"github.com/diiyw/nodis/redis"
	"github.com/diiyw/nodis/storage"
)

// execisoMain (C08): is EXEC isolated from other clients?  Connection A queues INCR x ; INCR x and runs EXEC in its own
// goroutine; the controller stops it at the key lookup of the SECOND queued command (schedule point "hit" of tx.go, second
// arrival), then connection B runs SET x 100 to completion, then A continues.
//   EXECISO a=<EXEC reply tokens> b=<SET reply> final=<GET x>
// Isolated: a = A2 I1 I2 (B before or after the whole transaction).  Not isolated: a = A2 I1 I101.
func execisoMain(args []string) {
	n := nodis.Open(&nodis.Options{Storage: storage.NewMemory()})
	mk := func() (*redis.Conn, *feeder, *bytes.Buffer) {
		f := &feeder{}
		out := &bytes.Buffer{}
		return redis.VerifNewConn(f, out), f, out
	}
	serve := func(c *redis.Conn, f *feeder, name string, a ...string) string {
		var ba [][]byte
		for _, x := range a {
			ba = append(ba, []byte(x))
		}
		f.buf.Write(respEncode(name, ba))
		if err := c.Reader.ReadCommand(); err != nil {
			return "READERR"
		}
		n.VerifServe(c, c.Reader.VerifCmd())
		raw := append([]byte(nil), c.Writer.Bytes()...)
		c.Flush()
		return strings.ReplaceAll(replyTokens(raw), " ", "_")
	}
	ca, fa, oa := mk()
	cb, fb, _ := mk()
	_ = oa
	watchMode := len(args) > 0 && args[0] == "watch"
	stopAt := 2
	if watchMode {
		// C09: A reads x, WATCHes it and queues SET x <read+1>; B's SET x 5 lands after EXEC has examined the watch flags and
		// before the queued SET runs (stop at the FIRST lookup inside EXEC).  EXECISO a=<EXEC reply> b=.. final=<GET x>:
		// sound optimistic locking gives a=n (aborted, x = 5) or runs EXEC wholly before B (x = 5); x = 2 is a lost update
		serve(cb, fb, "SET", "x", "1")
		serve(ca, fa, "WATCH", "x")
		serve(ca, fa, "GET", "x")
		serve(ca, fa, "MULTI")
		serve(ca, fa, "SET", "x", "2")
		stopAt = 1
	} else {
		serve(ca, fa, "MULTI")
		serve(ca, fa, "INCR", "x")
		serve(ca, fa, "INCR", "x")
	}
	var mu sync.Mutex
	var aid int64 = -1
	hits := 0
	stopped := make(chan struct{}, 1)
	release := make(chan struct{})
	nodis.VerifSetController(func(point string) {
		mu.Lock()
		mine := goid() == aid
		if mine && (point == "hit" || point == "miss") {
			hits++
		}
		stop := mine && hits == stopAt && (point == "hit" || point == "miss")
		if stop {
			hits++ // stop once
		}
		mu.Unlock()
		if stop {
			stopped <- struct{}{}
			<-release
		}
	})
	defer nodis.VerifSetController(nil)
	done := make(chan string, 1)
	go func() {
		mu.Lock()
		aid = goid()
		mu.Unlock()
		done <- serve(ca, fa, "EXEC")
	}()
	b := "not-run"
	bval := "100"
	if watchMode {
		bval = "5"
	}
	select {
	case <-stopped:
		b = serve(cb, fb, "SET", "x", bval)
		close(release)
	case <-time.After(3 * time.Second):
		close(release)
	}
	a := "TIMEOUT"
	select {
	case a = <-done:
	case <-time.After(5 * time.Second):
	}
	final := serve(cb, fb, "GET", "x")
	fmt.Printf("EXECISO a=%s b=%s final=%s\n", a, b, final)
}
