#!/usr/bin/env python3
"""dev tool: run a property's check and print candidate known-finding lines for every
unlisted signature it reports (one shrunk example each)."""
import glob, json, os, subprocess, sys
pid = sys.argv[1]
tier = sys.argv[2] if len(sys.argv) > 2 else "quick"
os.system("rm -rf /verif/replays/%s" % pid)
subprocess.run(["/verif/bin/check", pid, "--tier", tier], stdout=subprocess.DEVNULL)
seen = {}
for f in sorted(glob.glob("/verif/replays/%s/*.json" % pid)):
    r = json.load(open(f))
    sig = r.get("signature")
    if not sig or sig in seen:
        continue
    seen[sig] = r
for sig, r in sorted(seen.items()):
    what = r["what"].replace("\n", " ")
    print("finding: property=%s key=%s [%s] %s" % (pid, sig, " ; ".join(r["readable"])[:160], what[:150]))
