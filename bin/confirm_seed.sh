#!/bin/bash
# usage: bin/confirm_seed.sh <PID> <agent _out dir> <n> [more]
# Confirms a seeded mutation in a fresh scratch worktree of /repo HEAD:
#  (1) with the mutation the build and the whole test suite still pass (two tests in
#      package redis fail on the unchanged tree and are ignored),
#  (2) the demonstration fails with the mutation, (3) and passes without it.
# On success stores patch.diff, the demo and meta.json under /verif/seeded/<PID>-<n>/.
set -u
PID=$1; OUT=$2; N=$3
export GOFLAGS=-mod=mod GOPROXY=off GOSUMDB=off GOTOOLCHAIN=local
WT=/tmp/confirm-wt-$PID-$N
git -C /repo worktree remove --force $WT 2>/dev/null
git -C /repo worktree add -q --detach $WT HEAD || exit 2
cleanup() { git -C /repo worktree remove --force $WT; }
trap cleanup EXIT
cd $WT
DEMO=$OUT/demo${N}_test.go
DIR=$(grep -m1 -o '// dir: *[^ ]*' $DEMO | sed 's/.*dir: *//'); DIR=${DIR:-.}
cp $DEMO $DIR/zz_demo_test.go
TESTS=$(grep -o '^func Test[A-Za-z0-9_]*' $DIR/zz_demo_test.go | sed 's/func //' | paste -sd'|')
run_demo() { (cd $DIR && timeout 600 go test -vet=off -count=1 -run "^($TESTS)\$" . > $WT/demo.log 2>&1); }
run_demo; R0=$?
echo "demo without mutation: exit $R0"
git apply $OUT/mut$N.diff || { echo "patch does not apply on HEAD"; exit 3; }
go build ./... || { echo "mutation does not build"; exit 4; }
run_demo; R1=$?
echo "demo with mutation: exit $R1"
rm $DIR/zz_demo_test.go
timeout 1500 go test -vet=off -count=1 ./... > $WT/suite.log 2>&1
FAILS=$(grep -- '^--- FAIL' $WT/suite.log | grep -v -E 'TestReadInlineSpace|TestReaderReset' | wc -l)
PANICS=$(grep -c '^panic:' $WT/suite.log)
echo "suite with mutation: unexpected failures=$FAILS"
if [ $R0 -eq 0 ] && [ $R1 -ne 0 ] && [ $FAILS -eq 0 ]; then
  D=/verif/seeded/$PID-$N; mkdir -p $D
  cp $OUT/mut$N.diff $D/patch.diff; cp $DEMO $D/demo_test.go
  echo CONFIRMED $D
else
  echo NOT-CONFIRMED; tail -20 $WT/demo.log; grep -- '^--- FAIL' $WT/suite.log | head
  exit 1
fi
