#!/bin/bash
# usage: bin/seedrun.sh <patch.diff> <Cxx> [Cyy ...]   apply a seeded change to /repo, run the quick checks, undo it
# The change is undone on every exit path (also when this script is killed by a timeout).
P=$1; shift
git -C /repo apply "$P" || { echo "patch does not apply"; exit 2; }
trap 'git -C /repo checkout -- .' EXIT INT TERM
for c in "$@"; do
  out=$(cd /verif && timeout ${SEED_TIMEOUT:-900} bin/check $c --tier quick 2>&1)
  rc=$?
  v=$(echo "$out" | grep -c "^VIOLATION")
  nf=$(echo "$out" | grep -c "no-failing-input-found")
  if [ $rc -eq 124 ]; then echo "$c: TIMED OUT after ${SEED_TIMEOUT:-900}s (no verdict)"; continue; fi
  echo "$c: violations=$v (no-failing-input-found: $nf) $(echo "$out" | grep -E '^(OK|VIOLATION)' | head -2 | tr '\n' ' ' | cut -c1-160)"
done
