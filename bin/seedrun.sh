#!/bin/bash
# usage: bin/seedrun.sh <patch.diff> <Cxx> [Cyy ...]   apply a seeded change to /repo, run the quick checks, undo it
P=$1; shift
git -C /repo apply "$P" || { echo "patch does not apply"; exit 2; }
for c in "$@"; do
  out=$(cd /verif && timeout 1500 bin/check $c --tier quick 2>&1)
  v=$(echo "$out" | grep -c "^VIOLATION")
  nf=$(echo "$out" | grep -c "no-failing-input-found")
  echo "$c: violations=$v (no-failing-input-found: $nf) $(echo "$out" | grep -E '^(OK|VIOLATION)' | head -2 | tr '\n' ' ' | cut -c1-160)"
done
git -C /repo checkout -- .
