// Histories that failed on diiyw/nodis before the blocking-pop repairs (9cc8e3c abbda3e 5283214 2d9d3ea f69cb9e)
// and pass after them.  Place next to list.go (package nodis) and run: go test -vet=off -count=1 -run TestC18P_ .
// Kept for the record; the check bin/check C18 forces the same histories through schedule points (lib/props/c18.py DIRECTED).
package nodis

import (
	"fmt"
	"sync"
	"testing"
	"time"

	"github.com/diiyw/nodis/storage"
)

func pn() *Nodis { return Open(&Options{Storage: storage.NewMemory()}) }

// timeout zero must wait indefinitely (was: null at once)
func TestC18P_ZeroWaits(t *testing.T) {
	n := pn()
	done := make(chan string, 1)
	go func() { k, v := n.BLPop(0, "k"); done <- k + "=" + string(v) }()
	select {
	case r := <-done:
		t.Fatalf("BLPOP k 0 returned %q without any push", r)
	case <-time.After(300 * time.Millisecond):
	}
	n.RPush("k", []byte("a"))
	if r := <-done; r != "k=a" {
		t.Fatalf("got %q", r)
	}
}

// BRPOP woken by a push must pop the tail (was: head)
func TestC18P_BRPopTail(t *testing.T) {
	n := pn()
	done := make(chan string, 1)
	go func() { k, v := n.BRPop(2*time.Second, "k"); done <- k + "=" + string(v) }()
	time.Sleep(100 * time.Millisecond)
	n.RPush("k", []byte("a"), []byte("b"))
	if r := <-done; r != "k=b" {
		t.Fatalf("BRPOP got %q, want k=b", r)
	}
}

// two waiters, one element: the loser keeps waiting until its timeout (was: null after 100 ms)
func TestC18P_NoEarlyNull(t *testing.T) {
	n := pn()
	type res struct {
		r  string
		el time.Duration
	}
	out := make(chan res, 2)
	for i := 0; i < 2; i++ {
		go func() {
			t0 := time.Now()
			k, v := n.BLPop(time.Second, "k")
			out <- res{k + "=" + string(v), time.Since(t0)}
		}()
	}
	time.Sleep(100 * time.Millisecond)
	n.RPush("k", []byte("a"))
	for i := 0; i < 2; i++ {
		if r := <-out; r.r == "=" && r.el < 990*time.Millisecond {
			t.Fatalf("null after %v (timeout 1s)", r.el)
		}
	}
}

// the same key listed twice: the push must neither hang nor panic (was: send on closed channel)
func TestC18P_SameKeyTwice(t *testing.T) {
	n := pn()
	done := make(chan string, 1)
	go func() { k, v := n.BLPop(time.Second, "k", "k"); done <- k + "=" + string(v) }()
	time.Sleep(100 * time.Millisecond)
	pushed := make(chan int64, 1)
	go func() { pushed <- n.RPush("k", []byte("a")) }()
	select {
	case <-pushed:
	case <-time.After(3 * time.Second):
		t.Fatal("RPUSH k a never returned (waiter BLPOP k k 1)")
	}
	if r := <-done; r != "k=a" {
		t.Fatalf("got %q", r)
	}
}

// a waiter timing out while a push arrives: the push must never panic (was: send on closed channel)
func TestC18P_PushNeverPanics(t *testing.T) {
	n := pn()
	var mu sync.Mutex
	var panics []string
	for round := 0; round < 400 && len(panics) == 0; round++ {
		key := fmt.Sprint("k", round)
		var wg sync.WaitGroup
		wg.Add(2)
		go func() { defer wg.Done(); n.BLPop(3*time.Millisecond, key) }()
		go func() {
			defer wg.Done()
			defer func() {
				if e := recover(); e != nil {
					mu.Lock()
					panics = append(panics, fmt.Sprint(e))
					mu.Unlock()
				}
			}()
			time.Sleep(3 * time.Millisecond)
			n.RPush(key, []byte("a"))
		}()
		wg.Wait()
	}
	if len(panics) > 0 {
		t.Fatalf("push panicked: %v", panics)
	}
}
