(* Extraction of the executable models.  ExtrOcamlBasic only; N, Z, positive, nat and
   byte stay Coq datatypes.  Run from coq/extract:  coqc -Q .. Nodis ../Extract.v *)
From Coq Require Extraction ExtrOcamlBasic.
From Nodis Require Import Base.Bytes Base.Varint Model.Codec Model.Num Model.FMap Model.DsStr Model.DsList
     Model.DsHash Model.DsSet Model.DsZSet Model.Db Model.Api Model.Handlers Model.Conn Model.Reader Model.Conc Model.Block Spec.Redis.
Extraction Blacklist String List Nat Int Char Bytes Buffer.
Separate Extraction
  Bytes.b2n Bytes.n2b Bytes.bytes_eqb Bytes.bytes_ltb
  Varint.put_varint Varint.varint_dec
  Codec.key_enc Codec.key_dec Codec.entry_enc Codec.entry_dec
  Codec.str_enc Codec.str_dec Codec.list_enc Codec.list_dec Codec.set_enc Codec.set_dec
  Codec.hash_enc Codec.hash_dec Codec.zset_enc Codec.zset_dec
  Num.format_score Num.format_int Num.parse_int
  Db.gc Db.gc_modelled Db.flush Db.close Db.open_scan Db.with_faults Db.db_empty Db.clear
  Conn.serve Conn.server_new Conn.put_db Conn.get_conn
  Redis.spec_step Redis.purge
  Conc.init_state Conc.run_grants Conc.grant Conc.key_val Conc.reply_of Conc.waiting Conc.pc_tag Conc.ths Conc.t_pc
  Block.binit Block.bstep Block.bapply Block.enabled Block.breply Block.bpc_tag Block.lget Block.rget Block.wf_cmd
  Api.api_type Reader.ReadCommand Reader.rd_init Reader.enc_cmd Handlers.opt Handlers.opt1 Num.upper.
