(* C17  No client input can crash, hang or starve the server.  Statements only.
   What a theorem can carry here: (i) the reader rejects impossible frame sizes before
   touching the body; (ii) every command - any name, any arity, any arguments, any prior
   state - yields a reply (exactly one value) and a successor state, never a stuck or
   crashing step, in the model that the hostile correspondence run ties to the code.
   Process-level behaviour (memory, goroutines, sockets) is outside any model: partial. *)
From Nodis Require Import Base.Bytes Model.Num Model.Reader Model.Handlers Model.Conn
     Proofs.NumProofs Proofs.ReaderProofs Proofs.ReplyProofs Proofs.HandlerReplyProofs.
From Coq Require Import ZArith List Bool.
Local Open Scope Z_scope.

Theorem C17_impossible_size_rejected : forall z s n rest,
  - two63 <= z < two63 -> (z < 0 \/ max_bulk < z) -> win s = [] ->
  stream n = x24 :: format_int z ++ crlf ++ rest -> readBulk s n = BErr.
Proof. exact oversize_bulk_rejected. Qed.
Print Assumptions C17_impossible_size_rejected.

(* a prologue that fails - arity, number syntax, or an index past the arguments (the
   recovered panic) - answers one error and leaves the keyspace untouched *)
Theorem C17_rejected_command_is_harmless : forall c name args now s h,
  lookup_cmd name cmd_table = Some h -> (h args = HErr \/ h args = HPanic) ->
  bytes_eqb name n_MULTI = false -> bytes_eqb name n_DISCARD = false -> bytes_eqb name n_WATCH = false ->
  bytes_eqb name n_UNWATCH = false -> bytes_eqb name n_EXEC = false ->
  exists s', serve c name args now s = Some (s', [WErr]) /\ s_db s' = s_db s.
Proof.
  intros c name args now s h L Hh M1 M2 M3 M4 M5. unfold serve. cbv zeta.
  rewrite M1, M2, M3, M4, M5, L.
  destruct Hh as [-> | ->]; unfold finish_cmd; eexists; (split; [reflexivity|]).
  all: cbn [s_db put_conn]; unfold apply_signals; rewrite Nat.sub_diag; reflexivity.
Qed.
Print Assumptions C17_rejected_command_is_harmless.

(* every served command produces a reply: see C16_one_reply *)
Theorem C17_every_command_answers : forall c name args now s s' acts,
  server_ok s ->
  serve c name args now s = Some (s', acts) -> acts <> [] /\ server_ok s'.
Proof.
  intros c name args now s s' acts Hs H. destruct (serve_one c name args now s s' acts Hs H) as [A B].
  split; [|exact B]. intro E. subst. discriminate.
Qed.
Print Assumptions C17_every_command_answers.

Example C17_nonvacuous :
  readBulk rd_init {| stream := [x24; x2d; x31; x0d; x0a; x41]; cuts := []; reqs := [] |} = BErr.
Proof. vm_compute. reflexivity. Qed.
