(* C11  Close then Open restores exactly the pre-close keyspace.  Statements only. *)
From Nodis Require Import Base.Bytes Base.Varint Model.Codec Model.Num Model.FMap Model.DsStr Model.Db Model.Api
     Model.Handlers Model.Conn Proofs.CodecProofs Proofs.StoreProofs Properties.C12.
From Coq Require Import ZArith List Bool.
Local Open Scope Z_scope.

(* what Open relies on: every stored entry is filed under an encoding from which name and
   deadline are recovered exactly, and two different (name, deadline) pairs never collide *)
Theorem C11_entry_addressing : forall name exp, is_int64 exp = true ->
  key_dec (key_enc name exp) = Some (name, exp) /\
  (forall n2 e2, is_int64 e2 = true -> key_enc name exp = key_enc n2 e2 -> name = n2 /\ exp = e2).
Proof. intros name exp H. split; [exact (key_roundtrip name exp H) | intros n2 e2 H2 E; exact (key_injective _ _ _ _ H H2 E)]. Qed.
Print Assumptions C11_entry_addressing.

(* the value written at Close and read back after Open is the stored snapshot (same theorem
   as the eviction cycle: Open installs cold records, the first access reloads them) *)
Theorem C11_value_roundtrip : forall k m d o v now,
  pebble d = true -> faults d = [] -> m_val m = Some o -> nm_get o (vobjs d) = Some v ->
  expired m now d = false ->
  exists m' d3, read_key k now (put_meta k (meta_with_val m None) (snd (ss_set m d))) = (Some m', d3)
                /\ val_of m' d3 = Some (reload_value v) /\ exp_of m' d3 = exp_of m d.
Proof. exact save_evict_reload. Qed.
Print Assumptions C11_value_roundtrip.

(* whole close/open cycles, evaluated by the kernel on both backends *)
Definition DEL := b [68;69;76]. Definition EXPIRE := b [69;88;80;73;82;69]. Definition PERSIST := b [80;69;82;83;73;83;84].
Definition w2 := b [119].
Example C11_nonvacuous :
  reply_of (hrun true [Cmd SET [kk; vv]; Reopen]) GET [kk] = Some [WBulk vv] /\
  reply_of (hrun false [Cmd SET [kk; vv]; Reopen; Reopen]) GET [kk] = Some [WBulk vv].
Proof. split; vm_compute; reflexivity. Qed.

(* no path ever deletes a storage entry: a key deleted after a flush is back after reopen *)
Theorem C11_deleted_key_reappears_refuted :
  reply_of (hrun true [Cmd SET [kk; vv]; Flush; Cmd DEL [kk]; Reopen]) GET [kk] = Some [WBulk vv]
  /\ reply_of (hrun false [Cmd SET [kk; vv]; Flush; Cmd DEL [kk]; Reopen]) GET [kk] = Some [WBulk vv].
Proof. split; vm_compute; reflexivity. Qed.
Print Assumptions C11_deleted_key_reappears_refuted.

(* entries are addressed by (deadline, name): after a deadline change the entry under the
   old address survives and can shadow the newer value at Open (Pebble scan order) *)
Theorem C11_stale_version_shadows_refuted :
  reply_of (hrun true [Cmd SET [kk; vv]; Cmd EXPIRE [kk; b [49;48;48]]; Flush; Cmd PERSIST [kk];
                       Cmd SET [kk; w2; b [75;69;69;80;84;84;76]]; Reopen]) GET [kk] = Some [WBulk vv].
Proof. vm_compute. reflexivity. Qed.
Print Assumptions C11_stale_version_shadows_refuted.
