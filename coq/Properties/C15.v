(* C15  RESP requests parse exactly: binary-safe under any fragmentation / pipelining.
   Statements only, over the reader model coq/Model/Reader.v (buffer window + network with
   an arbitrary delivery oracle). *)
From Nodis Require Import Base.Bytes Model.Num Model.Reader Model.Handlers Proofs.NumProofs Proofs.ReaderProofs.
From Coq Require Import ZArith List Bool.
Local Open Scope Z_scope.

(* every name and argument vector (any bytes, each at most the 512 MiB protocol limit), any
   bytes following, any previous reader state, ANY way the network cuts the stream into
   reads ([cs]): ReadCommand returns exactly the upper-cased name and exactly the arguments
   and leaves exactly the following bytes unread *)
Theorem C15_parse_roundtrip : forall name args rest s0 cs rq,
  arg_ok name -> Forall arg_ok args -> Z.of_nat (S (length args)) < two63 ->
  exists s' n', ReadCommand s0 {| stream := enc_cmd name args ++ rest; cuts := cs; reqs := rq |}
                = CCmd (cmd_upper name) args s' n' /\ stream n' = rest.
Proof. exact ReadCommand_spec. Qed.
Print Assumptions C15_parse_roundtrip.

(* k commands back to back (sharing reads or not) come out as exactly those k commands *)
Theorem C15_pipeline : forall cmds rest s cs rq,
  Forall cmd_wf cmds ->
  exists n', read_many (length cmds) s {| stream := concat (map (fun c => enc_cmd (fst c) (snd c)) cmds) ++ rest;
                                           cuts := cs; reqs := rq |}
             = (map (fun c => (cmd_upper (fst c), snd c)) cmds, n') /\ stream n' = rest.
Proof. exact pipeline_spec. Qed.
Print Assumptions C15_pipeline.

(* the integer codec under the length headers *)
Theorem C15_length_header_roundtrip : forall z, 0 <= z < two63 -> parse_int (format_int z) = Some z.
Proof. exact parse_format_nonneg. Qed.
Print Assumptions C15_length_header_roundtrip.

(* an option position is only ever set by a whole argument equal to the option word *)
Theorem C15_options_whole_argument : forall w args,
  opt w args <> 0 -> exists i a, nth_error args i = Some a /\ bytes_eqb (upper a) w = true /\ opt w args = Z.of_nat i.
Proof. exact option_whole_argument. Qed.
Print Assumptions C15_options_whole_argument.

(* non-vacuity: a binary argument with CR LF NUL '*' '$', cut into 1-byte and 3-byte reads *)
Example C15_nonvacuous :
  match ReadCommand rd_init {| stream := enc_cmd [x73; x65; x74] [[x6b]; [x0d; x0a; x00; x2a; x24]] ++ [x2a];
                               cuts := [1; 3; 1; 1; 2]%nat; reqs := [] |} with
  | CCmd nm args _ n' => nm = [x53; x45; x54] /\ args = [[x6b]; [x0d; x0a; x00; x2a; x24]] /\ stream n' = [x2a]
  | _ => False
  end.
Proof. vm_compute. auto. Qed.
