(* C08  MULTI/EXEC runs the queue exactly once, in order - or not at all.  Statements only,
   over the connection model coq/Model/Conn.v.  The isolation clause ("no command of
   another client is served in the middle") is about thread schedules: see C08_isolation in
   Properties/Conc.v; everything here holds for every history at command granularity. *)
From Nodis Require Import Base.Bytes Model.Num Model.FMap Model.Db Model.Api Model.Handlers Model.Conn
     Proofs.ReplyProofs Proofs.HandlerReplyProofs Proofs.MultiProofs.
From Coq Require Import ZArith List Bool.
Local Open Scope Z_scope.

Theorem C08_queue_only : forall c name args now s h body,
  c_prepare (get_conn c s) = true -> special name = false ->
  lookup_cmd name cmd_table = Some h -> h args = HBody body ->
  exists s', serve c name args now s = Some (s', [WStr s_QUEUED]) /\ s_db s' = s_db s
             /\ c_queue (get_conn c s') = c_queue (get_conn c s) ++ [body]
             /\ c_prepare (get_conn c s') = true.
Proof. exact queued_not_executed. Qed.
Print Assumptions C08_queue_only.

Theorem C08_exec_once_in_order : forall c args now s b q,
  c_prepare (get_conn c s) = true -> c_error (get_conn c s) = false -> c_queue (get_conn c s) = b :: q ->
  existsb (fun kv => snd kv) (c_watch (get_conn c s)) = false ->
  match run_queue (b :: q) now (s_db s) with
  | Some (acts, d') =>
      exists s', serve c n_EXEC args now s = Some (s', WArr (Z.of_nat (length (b :: q))) :: acts)
                 /\ s_db s' = d' /\ get_conn c s' = conn_new
  | None => serve c n_EXEC args now s = None
  end.
Proof. exact exec_runs_queue_once_in_order. Qed.
Print Assumptions C08_exec_once_in_order.

(* the queue is the left-to-right composition of the bodies; a body that fails (panics)
   contributes one error reply and the rest still runs *)
Theorem C08_queue_composition : forall b q now d,
  run_queue (b :: q) now d =
  match run_body b now d with
  | Some (a1, d1) => match run_queue q now d1 with Some (a2, d2) => Some (a1 ++ a2, d2) | None => None end
  | None => None
  end.
Proof. exact run_queue_cons. Qed.

Theorem C08_none_on_discard : forall c args now s,
  exists s', serve c n_DISCARD args now s = Some (s', [WOK]) /\ s_db s' = s_db s /\ get_conn c s' = conn_new.
Proof. exact discard_resets. Qed.
Print Assumptions C08_none_on_discard.

Theorem C08_none_on_abort : forall c args now s,
  c_prepare (get_conn c s) = true -> c_error (get_conn c s) = true ->
  exists s', serve c n_EXEC args now s = Some (s', [WErr]) /\ s_db s' = s_db s /\ get_conn c s' = conn_new.
Proof. exact exec_aborted_runs_nothing. Qed.
Print Assumptions C08_none_on_abort.

(* a transaction script, evaluated by the kernel: MULTI; INCR a; LPUSH a x (fails: wrong
   type); INCR a; EXEC  ->  *3 :1 -ERR :2 *)
Definition b (l : list Z) : bytes := map (fun z => n2b (Z.to_N z)) l.
Definition hist (cmds : list (nat * bytes * list bytes)) : list (option (list wact)) * server :=
  fold_left (fun acc c => let '(outs, s) := acc in
               match serve (fst (fst c)) (snd (fst c)) (snd c) 1000 s with
               | Some (s', a) => (outs ++ [Some a], s')
               | None => (outs ++ [None], s)
               end) cmds ([], server_new false).
Example C08_nonvacuous :
  fst (hist [(0%nat, n_MULTI, []); (0%nat, b [73;78;67;82], [b [97]]); (0%nat, b [76;80;85;83;72], [b [97]; b [120]]);
             (0%nat, b [73;78;67;82], [b [97]]); (0%nat, n_EXEC, [])])
  = [Some [WOK]; Some [WStr s_QUEUED]; Some [WStr s_QUEUED]; Some [WStr s_QUEUED];
     Some [WArr 3; WInt 1; WErr; WInt 2]].
Proof. vm_compute. reflexivity. Qed.
