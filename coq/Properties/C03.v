(* C03  Hashes and sets behave as exact maps and mathematical sets.  Statements only. *)
From Nodis Require Import Base.Bytes Model.Num Model.FMap Model.DsHash Model.DsSet
     Proofs.FMapProofs Proofs.SetHashProofs.
From Coq Require Import ZArith List Bool.
Local Open Scope Z_scope.

(* the ordered-map invariant is kept by every mutation *)
Theorem C03_set_invariant : forall ms s, set_inv s ->
  set_inv (snd (set_sadd ms s)) /\ set_inv (snd (set_srem ms s)).
Proof. intros ms s H. split; [exact (sadd_inv ms s H) | exact (srem_inv ms s H)]. Qed.
Print Assumptions C03_set_invariant.

(* membership answers agree with what enumeration returns; cardinalities are exact *)
Theorem C03_membership_is_enumeration : forall m s, set_inv s ->
  (set_mem m s = true <-> In m (set_members s)) /\ set_card s = Z.of_nat (length (set_members s)).
Proof. intros m s H. split; [exact (set_mem_in m s H) | exact (scard_exact s)]. Qed.
Print Assumptions C03_membership_is_enumeration.

(* SADD: afterwards exactly the old members and the added ones, any member bytes (binary
   safe, including the empty string) *)
Theorem C03_sadd_exact : forall ms s x, set_inv s ->
  set_mem x (snd (set_sadd ms s)) = set_mem x s || existsb (bytes_eqb x) ms.
Proof. exact sadd_mem. Qed.
Print Assumptions C03_sadd_exact.

(* set algebra on operands that are all present equals the mathematical operations *)
Theorem C03_algebra : forall s others m,
  (In m (set_sinter s others) <-> In m (set_members s) /\ forallb (fun o => set_mem m o) others = true) /\
  (In m (set_sdiff s others) <-> In m (set_members s) /\ existsb (fun o => set_mem m o) others = false).
Proof. intros s others m. split; [exact (sinter_spec s others m) | exact (sdiff_spec s others m)]. Qed.
Print Assumptions C03_algebra.

(* SUNION has the right members ... *)
Theorem C03_sunion_members : forall s others m,
  In m (set_sunion s others) <->
  In m (set_members s) \/ exists o, In o others /\ In m (set_members o) /\ set_mem m s = false.
Proof. exact sunion_spec. Qed.
Print Assumptions C03_sunion_members.
(* ... but may list one twice (SUNION a b c with x in b and c, not in a) *)
Theorem C03_sunion_duplicates_refuted : exists s others, ~ NoDup (set_sunion s others).
Proof.
  exists [], [[([x78], tt)]; [([x78], tt)]]. vm_compute. intro H.
  inversion H as [|? ? Hn _]. apply Hn. now left.
Qed.
Print Assumptions C03_sunion_duplicates_refuted.

(* random selector SPOP: whatever the scan pops are current members, without repetition,
   at most count of them, and exactly those are removed *)
Theorem C03_spop_selects_members : forall c t ms p k,
  spop_scan c t ms = (p, k) ->
  (forall x, In x ms <-> In x p \/ In x k) /\ (length p + length k = length ms)%nat
  /\ Z.of_nat (length p) <= Z.max 0 c.
Proof. exact spop_scan_partition. Qed.
Print Assumptions C03_spop_selects_members.
Theorem C03_spop_no_repetition : forall c t ms p k, NoDup ms -> spop_scan c t ms = (p, k) ->
  NoDup p /\ NoDup k /\ (forall x, In x p -> ~ In x k).
Proof. exact spop_scan_nodup. Qed.
Print Assumptions C03_spop_no_repetition.

(* hashes: HSET then HGET, other fields untouched, reply 1 iff the field is new, HLEN exact *)
Theorem C03_hash_map_laws : forall f g v h, hash_inv h ->
  hash_inv (snd (hash_hset f v h)) /\ hash_hget f (snd (hash_hset f v h)) = Some v /\
  (g <> f -> hash_hget g (snd (hash_hset f v h)) = hash_hget g h) /\
  fst (hash_hset f v h) = (if hash_hexists f h then 0 else 1) /\
  hash_hlen h = Z.of_nat (length (fm_keys h)).
Proof.
  intros f g v h H.
  exact (conj (hset_inv f v h H) (conj (hget_hset_same f v h)
        (conj (hget_hset_other f g v h H) (conj (hset_reply f v h H) (hlen_exact h))))).
Qed.
Print Assumptions C03_hash_map_laws.

Example C03_nonvacuous : set_inv (snd (set_sadd [[x62]; []; [x61]] set_new))
  /\ set_members (snd (set_sadd [[x62]; []; [x61]] set_new)) = [[]; [x61]; [x62]].
Proof. split; [apply sadd_inv; constructor | vm_compute; reflexivity]. Qed.
