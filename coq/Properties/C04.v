(* C04  Sorted sets stay ordered by (score, member); the index never disagrees with the
   member -> score dictionary.  Statements only (layer Z1). *)
From Nodis Require Import Base.Bytes Model.Num Model.FMap Model.DsZSet Spec.Redis
     Proofs.FMapProofs Proofs.ZSetProofs.
From Coq Require Import ZArith List Bool.
Local Open Scope Z_scope.

(* for any insertion order, duplicate scores, score updates and removals: the dictionary is
   an ordered map, the index is strictly ascending by (score, member), and (m, s) is in the
   dictionary exactly when (s, m) is in the index *)
Theorem C04_index_agrees : forall m s z, zset_inv z -> zset_inv (snd (zset_zadd m s z)).
Proof. exact zadd_inv. Qed.
Print Assumptions C04_index_agrees.
Theorem C04_index_agrees_rem : forall ms z, zset_inv z -> zset_inv (snd (zset_zrem ms z)).
Proof. exact zrem_inv. Qed.
Print Assumptions C04_index_agrees_rem.
Theorem C04_empty_ok : zset_inv zset_new.
Proof. exact zset_new_inv. Qed.

(* hence every member has exactly one entry in the index, and membership agrees *)
Theorem C04_one_score_per_member : forall z, zset_inv z ->
  NoDup (zl z) /\ (forall m, fm_mem m (zd z) = true <-> exists s, In (s, m) (zl z)).
Proof. intros z H. split; [apply asc_nodup; apply H | exact (inv_index_members z H)]. Qed.
Print Assumptions C04_one_score_per_member.

(* the by-rank window is NOT the Redis slice: ZRANGE k 0 0 returns nothing, k 1 1 the first *)
Definition z3 : zsetv := snd (zset_zadd [x63] (SFin 3) (snd (zset_zadd [x62] (SFin 2) (snd (zset_zadd [x61] (SFin 1) zset_new))))).
Theorem C04_rank_window_refuted :
  zset_by_rank 1 1 false z3 = Some [(SFin 1, [x61])] /\
  slice_range (zsorted (zd z3)) 1 1 = [([x62], SFin 2)].
Proof. split; vm_compute; reflexivity. Qed.
Print Assumptions C04_rank_window_refuted.

Example C04_nonvacuous : zset_inv z3 /\ zl z3 = [(SFin 1, [x61]); (SFin 2, [x62]); (SFin 3, [x63])].
Proof. split; [unfold z3; repeat apply zadd_inv; exact zset_new_inv | vm_compute; reflexivity]. Qed.
