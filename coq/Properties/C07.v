(* C07  Multi-key commands are atomic: moves conserve elements.  Statements only (coq/Model/Conc.v). *)
From Nodis Require Import Model.Conc Proofs.ConcProofs Proofs.MoveProofs.
From Coq Require Import ZArith List Bool Arith Lia.
Import ListNotations.
Local Open Scope Z_scope.

(* a move that runs alone (all its micro-steps: lookups, Lock calls, loads, stores, unlink, publish,
   commit) takes one element from the source and adds one to the destination, for all lengths; a
   source that becomes empty disappears, a missing destination is created *)
Theorem C07_move_alone_conserves : forall va vb, 1 < va ->
  let s := run_micro (repeat 0%nat 9) (init_state [(1%nat, va); (2%nat, vb)] [Move 1 2]) in
  key_val 1 s = Some (va - 1) /\ key_val 2 s = Some (vb + 1) /\ reply_of 0 s = Some 1.
Proof. exact move_alone_conserves. Qed.
Print Assumptions C07_move_alone_conserves.
Theorem C07_move_last_element : forall vb,
  let s := run_micro (repeat 0%nat 10) (init_state [(1%nat, 1); (2%nat, vb)] [Move 1 2]) in
  key_val 1 s = None /\ key_val 2 s = Some (vb + 1) /\ reply_of 0 s = Some 1.
Proof. exact move_last_element. Qed.
Print Assumptions C07_move_last_element.
Theorem C07_move_creates_destination : forall va, 1 < va ->
  let s := run_micro (repeat 0%nat 9) (init_state [(1%nat, va)] [Move 1 2]) in
  key_val 1 s = Some (va - 1) /\ key_val 2 s = Some 1 /\ reply_of 0 s = Some 1.
Proof. exact move_creates_destination. Qed.
Print Assumptions C07_move_creates_destination.

(* two moves into a destination that does not exist yet: before tx.go was repaired both created
   it, both reported success and one element was gone (4 before, 3 after).  Now the second creator
   uses the record the first one published: 4 elements before, 4 after (kernel-evaluated schedule,
   forced on the implementation by the check) *)
Theorem C07_two_moves_into_missing_destination_conserve :
  let s := run_grants [0;0;1;1;0;1;0;1;0;1;0;1;0;1;0;1]%nat (init_state [(1%nat, 2); (2%nat, 2)] [Move 1 3; Move 2 3]) in
  reply_of 0 s = Some 1 /\ reply_of 1 s = Some 1 /\
  key_val 1 s = Some 1 /\ key_val 2 s = Some 1 /\ key_val 3 s = Some 2.
Proof. vm_compute. repeat split; reflexivity. Qed.
Print Assumptions C07_two_moves_into_missing_destination_conserve.
