(* C07  Multi-key commands are atomic: moves conserve elements.  Statements only (coq/Model/Conc.v). *)
From Nodis Require Import Model.Conc Proofs.ConcProofs Proofs.MoveProofs Proofs.BlockProofs Proofs.ConcGenProofs.
From Coq Require Import ZArith List Bool Arith Lia.
Import ListNotations.
Local Open Scope Z_scope.

(* a move that runs alone (all its micro-steps: lookups, Lock calls, loads, stores, unlink, publish,
   commit) takes one element from the source and adds one to the destination, for all lengths; a
   source that becomes empty disappears, a missing destination is created *)
Theorem C07_move_alone_conserves : forall va vb, 1 < va ->
  let s := run_micro (repeat 0%nat 9) (init_state [(1%nat, va); (2%nat, vb)] [Move 1 2]) in
  key_val 1 s = Some (va - 1) /\ key_val 2 s = Some (vb + 1) /\ reply_of 0 s = Some 1.
Proof. exact move_alone_conserves. Qed.
Print Assumptions C07_move_alone_conserves.
Theorem C07_move_last_element : forall vb,
  let s := run_micro (repeat 0%nat 10) (init_state [(1%nat, 1); (2%nat, vb)] [Move 1 2]) in
  key_val 1 s = None /\ key_val 2 s = Some (vb + 1) /\ reply_of 0 s = Some 1.
Proof. exact move_last_element. Qed.
Print Assumptions C07_move_last_element.
Theorem C07_move_creates_destination : forall va, 1 < va ->
  let s := run_micro (repeat 0%nat 9) (init_state [(1%nat, va)] [Move 1 2]) in
  key_val 1 s = Some (va - 1) /\ key_val 2 s = Some 1 /\ reply_of 0 s = Some 1.
Proof. exact move_creates_destination. Qed.
Print Assumptions C07_move_creates_destination.

(* two moves into a destination that does not exist yet: before tx.go was repaired both created
   it, both reported success and one element was gone (4 before, 3 after).  Now the second creator
   uses the record the first one published: 4 elements before, 4 after (kernel-evaluated schedule,
   forced on the implementation by the check) *)
Theorem C07_two_moves_into_missing_destination_conserve :
  let s := run_grants [0;0;1;1;0;1;0;1;0;1;0;1;0;1;0;1]%nat (init_state [(1%nat, 2); (2%nat, 2)] [Move 1 3; Move 2 3]) in
  reply_of 0 s = Some 1 /\ reply_of 1 s = Some 1 /\
  key_val 1 s = Some 1 /\ key_val 2 s = Some 1 /\ key_val 3 s = Some 2.
Proof. vm_compute. repeat split; reflexivity. Qed.
Print Assumptions C07_two_moves_into_missing_destination_conserve.

(* ---- moves conserve elements, for EVERY interleaving --------------------------------------------------
   Any number of LPOPRPUSH a b (a <> b), RPUSH, RPUSHX and LPOP clients on any keys - existing, missing, emptied
   and unlinked by a pop or a move while others hold stale pointers, created by a push or as a move's destination -
   and any interleaving of micro-steps (lookups, Lock calls and their validation, loads, stores, unlink, publish,
   commit; a move holds its source record while it looks up, waits for, locks or creates its destination).
   At every moment, for every key k: value(k) (0 if missing) = initial value + sum over the clients of eff k, where a
   move contributes -1 to its source from the moment its pop is stored and +1 to its destination from the moment
   its push is stored, and nothing else ever.  So an element in flight is counted exactly once (it is missing
   from the source and not yet in the destination only while its mover stands between the two stores), no element is
   lost and none is duplicated - also when two moves create the same missing destination, or one empties and
   unlinks the source another is about to pop.  When everybody has replied: value(k) = initial + acknowledged
   pushes and moves into k - acknowledged pops and moves out of k.  (Rotation a = b and DEL are outside this theorem:
   kernel-evaluated schedules above and forced schedules on the implementation.) *)
Theorem C07_moves_conserve_elements : forall vals cmds sched,
  supported cmds -> (forall kv, In kv vals -> 0 <= snd kv) ->
  let s := run_micro sched (init_state vals cmds) in
  forall k, cur0 k s = cur0 k (init_state vals cmds) + asum (eff k) (ths s).
Proof. exact supported_conserve. Qed.
Print Assumptions C07_moves_conserve_elements.
Theorem C07_moves_final_values : forall vals cmds sched,
  supported cmds -> (forall kv, In kv vals -> 0 <= snd kv) ->
  let s := run_micro sched (init_state vals cmds) in
  (forall t x, In (t, x) (ths s) -> exists rp, t_pc x = PDone rp) ->
  forall k, cur0 k s = cur0 k (init_state vals cmds) + count_th (acked_push k) (ths s) - count_th (acked_pop k) (ths s).
Proof. exact supported_conserve_when_done. Qed.
Print Assumptions C07_moves_final_values.

(* non-vacuous: two moves into a destination that does not exist, a third move emptying and unlinking the source of
   a fourth, a push and a pop in between; the interesting paths are taken and the books balance *)
Example C07_general_nonvacuous :
  let cmds := [Move 1 3; Move 2 3; Move 1 2; Pop 3; Push 1]%nat in
  supported cmds /\
  let s := run_micro [0;1;0;1;0;1;0;1;0;1;0;1;0;1;0;1;0;1;0;1;0;1;0;1;2;2;2;2;2;2;2;2;2;2;2;2;3;3;3;3;3;3;4;4;4;4;4;4;4]%nat
             (init_state [(1%nat, 2); (2%nat, 1)] cmds) in
  reply_of 0 s = Some 1 /\ reply_of 1 s = Some 1 /\ reply_of 2 s = Some 1 /\ reply_of 3 s = Some 1 /\
  cur0 1 s + cur0 2 s + cur0 3 s = 2 + 1 + 1 - 1.
Proof.
  split; [intros c Hc; cbn in Hc; repeat (destruct Hc as [<-|Hc]; [cbn; try exact I; discriminate|]); destruct Hc|].
  vm_compute. repeat split; reflexivity.
Qed.
