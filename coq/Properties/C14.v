(* C14  Storage codecs are lossless and injective for every key and typed value.
   Statements only; each closed by [exact] of a lemma proved elsewhere. *)
From Nodis Require Import Base.Bytes Base.Varint Model.Codec Proofs.VarintProofs Proofs.CodecProofs.
From Coq Require Import ZArith NArith List.
Local Open Scope Z_scope.

(* every int64 deadline, every trailing bytes: PutVarint/Varint round-trip *)
Theorem C14_varint_roundtrip : forall z rest, is_int64 z = true ->
  varint_dec (put_varint z ++ rest) = (z, Z.of_nat (length (put_varint z))).
Proof. exact varint_roundtrip. Qed.
Print Assumptions C14_varint_roundtrip.

(* key: every name (any bytes, any length) and every int64 deadline *)
Theorem C14_key_roundtrip : forall name exp, is_int64 exp = true ->
  key_dec (key_enc name exp) = Some (name, exp).
Proof. exact key_roundtrip. Qed.
Print Assumptions C14_key_roundtrip.

(* two different (name, deadline) pairs never share an encoding *)
Theorem C14_key_injective : forall n1 e1 n2 e2,
  is_int64 e1 = true -> is_int64 e2 = true ->
  key_enc n1 e1 = key_enc n2 e2 -> n1 = n2 /\ e1 = e2.
Proof. exact key_injective. Qed.
Print Assumptions C14_key_injective.

Theorem C14_envelope_roundtrip : forall t p, entry_dec (entry_enc t p) = Some (t, p).
Proof. exact entry_roundtrip. Qed.
Print Assumptions C14_envelope_roundtrip.

(* payloads.  [len_ok r] says that the length of r fits an int64 (every Go slice does) *)
Theorem C14_str_roundtrip : forall v, str_dec (str_enc v) = v.
Proof. exact str_roundtrip. Qed.
Print Assumptions C14_str_roundtrip.

Theorem C14_list_roundtrip : forall xs, Forall len_ok xs -> list_dec (list_enc xs) = Some xs.
Proof. exact list_roundtrip. Qed.
Print Assumptions C14_list_roundtrip.

Theorem C14_set_roundtrip : forall ms, Forall len_ok ms -> set_dec (set_enc ms) = Some ms.
Proof. exact set_roundtrip. Qed.
Print Assumptions C14_set_roundtrip.

Theorem C14_hash_roundtrip : forall kvs, Forall pair_ok kvs -> hash_dec (hash_enc kvs) = Some kvs.
Proof. exact hash_roundtrip. Qed.
Print Assumptions C14_hash_roundtrip.

(* every 64-bit score pattern (all floats incl. -0, inf, NaN payloads, subnormals) *)
Theorem C14_zset_roundtrip : forall its, Forall item_ok its -> zset_dec (zset_enc its) = Some its.
Proof. exact zset_roundtrip. Qed.
Print Assumptions C14_zset_roundtrip.

(* non-vacuity: members on both sides of the 1-/2-byte length prefix boundary *)
Example C14_nonvacuous :
  set_dec (set_enc [repeat x41 64; []; repeat x00 63]) = Some [repeat x41 64; []; repeat x00 63].
Proof. exact set_example_64. Qed.
