(* C19  A full SCAN / SSCAN / HSCAN / ZSCAN iteration returns every element and terminates.
   Statements only.  [iterate call fuel 0] is the client's loop: call with cursor 0, feed every
   returned cursor back, stop at cursor 0; [Some r] = cursor 0 was reached within [fuel] calls
   and r is the concatenation of the batches.  The call functions are the ones the handlers
   h_sscan / h_hscan / h_zscan / h_scan evaluate (coq/Model/Handlers.v). *)
From Nodis Require Import Base.Bytes Model.Num Model.FMap Model.DsHash Model.DsSet Model.DsZSet Model.Db Model.Api
     Proofs.FMapProofs Proofs.ZSetProofs Proofs.ScanProofs.
From Coq Require Import ZArith List Bool.
Import ListNotations.
Local Open Scope Z_scope.

(* SSCAN: for every set, pattern and COUNT >= 1 the loop ends within |s| + 1 calls and returns
   exactly the members that match (every one at least once, nothing else) *)
Theorem C19_sscan : forall pat count, 1 <= count -> count < two63 / 2 ->
  forall s : setv, Z.of_nat (length s) < two63 / 2 ->
  exists r, iterate (sscan_call pat count s) (S (length s)) 0 = Some r /\
            forall m, In m r <-> In m (set_members s) /\ glob_match pat m = true.
Proof. intros pat count H1 H2. exact (sscan_iteration pat count H2 H1). Qed.
Print Assumptions C19_sscan.

(* HSCAN: the same for the fields of a hash; values come with their fields *)
Theorem C19_hscan : forall pat count, 1 <= count -> count < two63 / 2 ->
  forall h : hashv, Z.of_nat (length h) < two63 / 2 ->
  exists r, iterate (fun c => hscan_call c pat count h) (S (length h)) 0 = Some r /\
            forall e, In e r <-> In e h /\ glob_match pat (fst e) = true.
Proof. intros pat count H1 H2. exact (hscan_iteration pat count H1 H2). Qed.
Print Assumptions C19_hscan.

(* ZSCAN: for every sorted set meeting the representation invariant of C04: no call panics, the
   loop ends within |z| + 1 calls, and returns exactly the (score, member) entries that match *)
Theorem C19_zscan : forall pat count, 1 <= count -> count < two63 / 2 ->
  forall z, zset_inv z -> Z.of_nat (length (zl z)) < two63 / 2 ->
  exists r, iterate (fun c => match zset_zscan c pat count z with Some x => x | None => (0, []) end)
                    (S (length (zl z))) 0 = Some r /\
            (forall c, 0 <= c <= Z.of_nat (length (zl z)) -> zset_zscan c pat count z <> None) /\
            forall e, In e r <-> In e (zl z) /\ glob_match (match pat with [] => [x2a] | _ => pat end) (snd e) = true.
Proof. intros pat count H1 H2. exact (zscan_iteration pat count H1 H2). Qed.
Print Assumptions C19_zscan.

(* SCAN: the loop against the keyspace (every call touches the records it visits, so the keyspace
   changes under the loop): it ends within |index| + 1 calls and returns exactly the names that
   are in the index, match the pattern, are not expired at [now] and pass the TYPE filter *)
Theorem C19_scan : forall pat count typ now, 1 <= count -> count < two63 / 2 ->
  forall d, sorted (idx d) -> Z.of_nat (length (idx d)) < two63 / 2 ->
  exists r d', scan_iterate pat count typ now (S (length (idx d))) 0 d = Some (r, d') /\
               forall k, In k r <-> scan_hit pat typ now d k = true.
Proof. intros pat count typ now H1 H2 d Hs. exact (scan_iteration pat count typ now H1 d Hs H2). Qed.
Print Assumptions C19_scan.

(* an expired or absent key is never a hit *)
Theorem C19_scan_never_expired : forall pat typ now d k m,
  fm_get k (idx d) = Some m -> expired m now d = true -> scan_hit pat typ now d k = false.
Proof.
  intros pat typ now d k m G E. unfold scan_hit. rewrite G, E. cbn. now rewrite andb_false_r.
Qed.
Print Assumptions C19_scan_never_expired.

(* non-vacuity and the COUNT 1 loops that used to lose elements *)
Definition s3 : setv := snd (set_sadd [[x61]; [x62]; [x63]] set_new).
Example C19_sscan_count1 : iterate (sscan_call [x2a] 1 s3) 4 0 = Some [[x61]; [x62]; [x63]].
Proof. vm_compute. reflexivity. Qed.
Definition h2 : hashv := snd (hash_hset [x62] [x32] (snd (hash_hset [x61] [x31] hash_new))).
Example C19_hscan_count1 : iterate (fun c => hscan_call c [x2a] 1 h2) 3 0 = Some [([x61], [x31]); ([x62], [x32])].
Proof. vm_compute. reflexivity. Qed.
Definition z2 : zsetv := snd (zset_zadd [x62] (SFin 2) (snd (zset_zadd [x61] (SFin 1) zset_new))).
Example C19_zscan_count1 :
  zset_inv z2 /\
  iterate (fun c => match zset_zscan c [x2a] 1 z2 with Some x => x | None => (0, []) end) 3 0
  = Some [(SFin 1, [x61]); (SFin 1, [x61]); (SFin 2, [x62])].
Proof. split; [unfold z2; repeat apply zadd_inv; exact zset_new_inv | vm_compute; reflexivity]. Qed.

(* the TYPE filter looks at the type cached in the index record, which Open leaves unknown until
   the value is read: after a close/open cycle SCAN 0 TYPE string misses a string key, and finds
   it once GET has loaded it (a known finding, replayed on the implementation by the check) *)
From Nodis Require Import Model.Handlers Model.Conn Properties.C12.
Definition SCAN := b [83;67;65;78]. Definition TYPEW := b [84;89;80;69]. Definition STRINGW := b [115;116;114;105;110;103].
Theorem C19_scan_type_after_open_refuted :
  reply_of (hrun true [Cmd SET [kk; vv]; Reopen]) SCAN [b [48]; TYPEW; STRINGW] = Some [WArr 2; WBulk (b [48]); WArr 0]
  /\ reply_of (hrun true [Cmd SET [kk; vv]; Reopen; Cmd GET [kk]]) SCAN [b [48]; TYPEW; STRINGW]
     = Some [WArr 2; WBulk (b [48]); WArr 1; WBulk kk].
Proof. split; vm_compute; reflexivity. Qed.
Print Assumptions C19_scan_type_after_open_refuted.
