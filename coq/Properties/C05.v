(* C05  Concurrent single-key commands: no lost update.  Statements only.
   coq/Model/Conc.v: threads run RPUSH / LPOP / LLEN / DEL / LPOPRPUSH against the locking
   protocol of tx.go (index lookup, key RWMutex, create-on-miss, unlink), values are list lengths.
   run_micro = any interleaving of micro-steps; run_grants = a schedule of grants between the
   verifPoint calls of the implementation, which the check forces on the real code. *)
From Nodis Require Import Model.Conc Proofs.ConcProofs Proofs.BlockProofs Proofs.ConcGenProofs.
From Coq Require Import ZArith List Bool Arith Lia.
Import ListNotations.
Local Open Scope Z_scope.

(* N concurrent pushes leave N more elements: any number of threads, each pushing to a key that
   exists, any interleaving of lookups, Lock calls, loads, stores and commits.  At every moment the
   value of a record is its initial value plus the pushes stored so far (no update is ever lost or
   applied twice), and once all threads have replied key k has grown by exactly the number of
   threads that pushed to it. *)
Theorem C05_concurrent_pushes_all_counted : forall vals cmds sched,
  pushes_only vals cmds ->
  let s := run_micro sched (init_state vals cmds) in
  (forall r, r_val (get_rec r s) = init_val vals cmds r + Z.of_nat (acked s r)) /\
  (all_done s -> forall k, In k (map fst vals) ->
     key_val k s = Some (init_val vals cmds k + Z.of_nat (pushes_of k cmds))).
Proof. exact concurrent_pushes_all_counted. Qed.
Print Assumptions C05_concurrent_pushes_all_counted.

(* mutual exclusion is what carries it: a thread that has loaded the value of a record holds the
   record exclusively and the value it loaded is still the current one *)
Theorem C05_loaded_value_is_current : forall v0 sched s, Inv v0 s ->
  forall t x r tmp, nget t (ths (run_micro sched s)) = Some x -> t_pc x = PLoaded r tmp false ->
    r_w (get_rec r (run_micro sched s)) = Some t /\ tmp = r_val (get_rec r (run_micro sched s)).
Proof.
  intros v0 sched s H t x r tmp Hx Hpc. destruct (run_micro_inv v0 sched s H) as [HA _].
  destruct (HA t x Hx) as [k [r' [_ [_ Hp]]]]. rewrite Hpc in Hp. destruct Hp as [-> [_ [Hw Ht]]]. now split.
Qed.
Print Assumptions C05_loaded_value_is_current.

Example C05_nonvacuous :
  pushes_only [(1%nat, 1)] [Push 1; Push 1; Push 1] /\
  let s := run_micro [0;1;2;0;1;2;0;1;2;0;1;2;0;1;2;1;2;1;2;1;2;2;2;2;2;2]%nat (init_state [(1%nat, 1)] [Push 1; Push 1; Push 1]) in
  key_val 1 s = Some 4 /\ reply_of 0 s = Some 2 /\ reply_of 1 s = Some 3 /\ reply_of 2 s = Some 4.
Proof.
  split; [intros c [<-|[<-|[<-|[]]]]; exists 1%nat; (split; [reflexivity|now left])|vm_compute; repeat split; reflexivity].
Qed.

(* keys that are being created or deleted.  Until tx.go was repaired (a creator now locks its record
   before publishing it and yields to a record published meanwhile; a writer that obtains the lock
   of a record unlinked meanwhile looks the key up again) these three schedules of grants lost an
   acknowledged update; the check still forces them on the implementation.  They are kernel-evaluated
   instances, not the unbounded claim: the theorem for arbitrary interleavings above is for keys
   that exist. *)
(* two creators of a missing key: both pushes are counted *)
Theorem C05_create_create_both_counted :
  let s := run_grants [0;1;0;1;0;1;0;1]%nat (init_state [] [Push 1; Push 1]) in
  reply_of 0 s = Some 1 /\ reply_of 1 s = Some 2 /\ key_val 1 s = Some 2.
Proof. vm_compute. repeat split; reflexivity. Qed.
Print Assumptions C05_create_create_both_counted.
Theorem C05_three_creators_all_counted :
  let s := run_grants [0;1;2;0;1;2;0;1;2;0;1;2;0;1;2]%nat (init_state [] [Push 1; Push 1; Push 1]) in
  reply_of 0 s = Some 1 /\ reply_of 1 s = Some 2 /\ reply_of 2 s = Some 3 /\ key_val 1 s = Some 3.
Proof. vm_compute. repeat split; reflexivity. Qed.
Print Assumptions C05_three_creators_all_counted.
(* a writer that waited for a record which was unlinked meanwhile does not update the orphan: it
   looks the key up again and creates it (DEL then RPUSH is the linearization) *)
Theorem C05_delete_recreate_linearizable :
  let s := run_grants [0;0;1;0;0;1;1;1;1]%nat (init_state [(1%nat, 1)] [Del 1; Push 1]) in
  reply_of 0 s = Some 1 /\ reply_of 1 s = Some 1 /\ key_val 1 s = Some 1.
Proof. vm_compute. repeat split; reflexivity. Qed.
Print Assumptions C05_delete_recreate_linearizable.

(* ---- the general form: keys that are created, emptied, unlinked and re-created while in use -------
   Any number of RPUSH, RPUSHX and LPOP clients on any keys - existing, missing, or emptied and
   unlinked by a pop while other clients are looking them up, waiting for their lock, or about to
   create them - and ANY interleaving of micro-steps (index lookup, Lock, validation, publish, load,
   store, unlink, commit).  At every moment the value of every key (a missing key counts as 0) is its
   initial value plus the contributions stored so far: +1 for a push that has stored, -1 for a pop
   that has stored (eff).  No acknowledged update is lost or applied twice; once every command has
   replied, the key holds its initial value plus the pushes acknowledged with a length minus the pops
   acknowledged with an element.  "supported" also admits LPOPRPUSH a b between two different keys (it
   contributes -1 to a once its pop is stored and +1 to b once its push is stored: C07).  DEL and LLEN are
   not covered by this theorem (forced schedules and the pushes-only theorem above cover them), nor are
   expired keys. *)
Theorem C05_writers_lose_no_update : forall vals cmds sched,
  supported cmds -> (forall kv, In kv vals -> 0 <= snd kv) ->
  let s := run_micro sched (init_state vals cmds) in
  forall k, cur0 k s = cur0 k (init_state vals cmds) + asum (eff k) (ths s).
Proof. exact supported_conserve. Qed.
Print Assumptions C05_writers_lose_no_update.

Theorem C05_writers_final_value : forall vals cmds sched,
  supported cmds -> (forall kv, In kv vals -> 0 <= snd kv) ->
  let s := run_micro sched (init_state vals cmds) in
  (forall t x, In (t, x) (ths s) -> exists rp, t_pc x = PDone rp) ->
  forall k, cur0 k s = cur0 k (init_state vals cmds) + count_th (acked_push k) (ths s) - count_th (acked_pop k) (ths s).
Proof. exact supported_conserve_when_done. Qed.
Print Assumptions C05_writers_final_value.

(* what carries it: whoever has loaded a value holds the record exclusively, the record is the one the
   index holds for the key and is not unlinked, and the loaded value is still current *)
Theorem C05_loaded_record_is_current : forall vals cmds sched t x r tmp,
  supported cmds -> (forall kv, In kv vals -> 0 <= snd kv) ->
  let s := run_micro sched (init_state vals cmds) in
  nget t (ths s) = Some x -> t_pc x = PLoaded r tmp false ->
  exists k, first_key (t_cmd x) = Some k /\ nget k (ix s) = Some r /\ r_w (get_rec r s) = Some t /\
            r_unl (get_rec r s) = false /\ tmp = r_val (get_rec r s).
Proof. exact loaded_record_is_current. Qed.
Print Assumptions C05_loaded_record_is_current.

(* non-vacuous: a pop empties key 1 and unlinks it while a push that looked it up earlier holds a stale
   pointer; the push re-creates the key, a second pop empties and unlinks it again; two creators race for key 2.  The hypotheses hold and the interesting paths
   (stale pointer, unlink, re-creation, two creators) are taken *)
Example C05_general_nonvacuous :
  let cmds := [Pop 1; Push 1; Pop 1; Push 2; Push 2]%nat in
  supported cmds /\ (forall kv, In kv [(1%nat, 1)] -> 0 <= snd kv) /\
  let s := run_micro [1;0;0;0;0;0;0;0;1;1;2;2;2;2;3;4;3;4;3;4;3;4;3;4;3;4;3;4;1;1;1;1;1;1;1;1;2;2;2;2;3;4;3;4;2;2;2]%nat (init_state [(1%nat, 1)] cmds) in
  reply_of 0 s = Some 1 /\ reply_of 1 s = Some 1 /\ reply_of 2 s = Some 1 /\ reply_of 3 s = Some 1 /\ reply_of 4 s = Some 2 /\
  cur0 1 s = 0 /\ key_val 1 s = None /\ cur0 2 s = 2.
Proof.
  split; [intros c Hc; cbn in Hc; repeat (destruct Hc as [<-|Hc]; [exact I|]); destruct Hc|].
  split; [intros kv [<-|[]]; cbn; lia|]. vm_compute. repeat split; reflexivity.
Qed.
