(* C13  Pebble crash consistency: at any kill point recover real, recent, untorn values.
   Partial: Pebble's WAL/LSM is outside the model (trusted: a Set(...,Sync) that returned is
   durable, single-key writes are atomic).  In the model a crash keeps the storage map as it
   is (every write to it is one atomic, durable step) and discards the index and the heaps;
   recovery is Open on that map.  Statements only. *)
From Nodis Require Import Base.Bytes Base.Varint Model.Codec Model.Num Model.FMap Model.DsStr Model.Db Model.Api
     Model.Handlers Model.Conn Proofs.CodecProofs Proofs.StoreProofs Properties.C12.
From Coq Require Import ZArith List Bool.
Local Open Scope Z_scope.

(* a crash: only the storage map survives *)
Definition crash (d : db) : db :=
  open_scan {| idx := []; kobjs := []; vobjs := []; nextref := 0; disk := disk d; pebble := pebble d;
               closed := false; faults := []; events := [] |}.
Definition hcrash (s : server) : server := {| s_db := crash (s_db s); s_conns := []; s_registry := [] |}.

(* every storage write files one complete (type, value) snapshot under one key: there is no
   state of the map in which an entry is half old and half new *)
Theorem C13_writes_are_whole_entries : forall m d o v,
  pebble d = true -> faults d = [] -> m_val m = Some o -> nm_get o (vobjs d) = Some v ->
  ss_set m d = (false, with_disk d (fst (fm_set (key_enc (fst (key_of m d)) (snd (key_of m d))) (SPeb v) (disk d)))).
Proof. exact ss_set_pebble. Qed.
Print Assumptions C13_writes_are_whole_entries.

(* recovery after a crash right after a completed SAVE returns the saved value; a crash before
   any flush recovers nothing for that key (the key was never durable) *)
Example C13_recover_after_save :
  reply_of (hcrash (hrun true [Cmd SET [kk; vv]; Flush; Cmd SET [kk; b [119]]])) GET [kk] = Some [WBulk vv] /\
  reply_of (hcrash (hrun true [Cmd SET [kk; vv]])) GET [kk] = Some [WNullBulk].
Proof. split; vm_compute; reflexivity. Qed.

(* the guarantee fails for keys deleted before the last SAVE: their entry is never removed *)
Theorem C13_absent_key_recovered_refuted :
  reply_of (hcrash (hrun true [Cmd SET [kk; vv]; Flush; Cmd (b [68;69;76]) [kk]; Flush])) GET [kk] = Some [WBulk vv].
Proof. vm_compute. reflexivity. Qed.
Print Assumptions C13_absent_key_recovered_refuted.
