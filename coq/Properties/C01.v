(* C01  Strings and keyspace follow sequential Redis semantics, byte-exact.  Statements only. *)
From Nodis Require Import Base.Bytes Model.Num Model.FMap Model.DsStr Model.Db Model.Api Model.Handlers
     Model.Conn Spec.Redis Proofs.FMapProofs Proofs.DbProofs.
From Coq Require Import ZArith NArith List Bool.
Local Open Scope Z_scope.

(* Values are binary-safe: for EVERY keyspace state (any index, heaps, backend, hot or cold
   records, pending faults), every key, every byte string v of any length and any two
   clock readings, SET k v followed by GET k returns exactly v - unless SET itself reports
   the wrong-type failure. *)
Theorem C01_binary_safe : forall k v keep now now' d,
  match api_set k v keep now d with
  | Ok _ d' => keep = false ->
      fst (match api_get k now' d' with Ok r _ => (Some r, tt) | _ => (None, tt) end) = Some (Some v)
  | Panic _ => True
  | Unm => False
  end.
Proof. exact set_then_get. Qed.
Print Assumptions C01_binary_safe.

(* whatever record a write obtains is the one filed under the key (no orphan updates) *)
Theorem C01_write_lands_in_index : forall k nv now d m d1,
  write_key k nv now d = (Some m, d1) -> fm_get k (idx d1) = Some m.
Proof. exact write_key_some. Qed.
Print Assumptions C01_write_lands_in_index.

(* the unchanged code does not follow the Redis semantics everywhere: kernel-checked
   witnesses (model vs specification) for three independent deviation classes *)
Definition run1 (name : bytes) (args : list bytes) (s : server) :=
  match serve 0%nat name args 1000 s with Some (s', acts) => Some acts | None => None end.
Definition after (cmds : list (bytes * list bytes)) : server :=
  fold_left (fun s c => match serve 0%nat (fst c) (snd c) 1000 s with Some (s', _) => s' | None => s end)
            cmds (server_new false).
Definition b (l : list Z) : bytes := map (fun z => n2b (Z.to_N z)) l.

(* SET k v GET on a missing key answers OK, Redis answers nil *)
Theorem C01_set_get_option_refuted :
  run1 (b [83;69;84]) [b [107]; b [118]; b [71;69;84]] (server_new false) = Some [WOK]
  /\ spec_step 1000 (b [83;69;84]) [b [107]; b [118]; b [71;69;84]] [] [] = SR [(b [107], (SvStr (b [118]), 0))] SNull.
Proof. split; vm_compute; reflexivity. Qed.
Print Assumptions C01_set_get_option_refuted.

(* BITCOUNT k 0 0 counts the whole string *)
Theorem C01_bitcount_refuted :
  run1 (b [66;73;84;67;79;85;78;84]) [b [107]; b [48]; b [48]]
       (after [(b [83;69;84], [b [107]; b [255;255]])]) = Some [WInt 16]
  /\ exists d, spec_step 1000 (b [66;73;84;67;79;85;78;84]) [b [107]; b [48]; b [48]] []
                         [(b [107], (SvStr (b [255;255]), 0))] = SR d (SInt 8).
Proof. split; [vm_compute; reflexivity | eexists; vm_compute; reflexivity]. Qed.
Print Assumptions C01_bitcount_refuted.

(* INCRBY on a value that is not a number answers :0 instead of failing *)
Theorem C01_incrby_refuted :
  run1 (b [73;78;67;82;66;89]) [b [107]; b [53]] (after [(b [83;69;84], [b [107]; b [120]])]) = Some [WInt 0]
  /\ exists d, spec_step 1000 (b [73;78;67;82;66;89]) [b [107]; b [53]] [] [(b [107], (SvStr (b [120]), 0))] = SR d SErr.
Proof. split; [vm_compute; reflexivity | eexists; vm_compute; reflexivity]. Qed.
Print Assumptions C01_incrby_refuted.

Example C01_nonvacuous :
  run1 (b [71;69;84]) [b [107]] (after [(b [83;69;84], [b [107]; b [0;13;10;255]])]) = Some [WBulk (b [0;13;10;255])].
Proof. vm_compute. reflexivity. Qed.
