(* C12  Eviction of cold values to storage is invisible; a failed flush loses nothing.
   Statements only, over the storage model coq/Model/Db.v. *)
From Nodis Require Import Base.Bytes Model.Num Model.FMap Model.DsStr Model.Db Model.Api Model.Handlers Model.Conn
     Proofs.FMapProofs Proofs.DbProofs Proofs.StoreProofs.
From Coq Require Import ZArith List Bool.
Local Open Scope Z_scope.

(* a pass never touches a value or key object: whatever stays in memory is unchanged *)
Theorem C12_pass_keeps_objects : forall now d, vobjs (gc now d) = vobjs d /\ kobjs (gc now d) = kobjs d.
Proof. exact gc_never_touches_values. Qed.
Print Assumptions C12_pass_keeps_objects.

(* the eviction cycle of one record on Pebble: written to storage, dropped from memory, read
   again by any later command - the value that comes back is the stored snapshot of the value
   that was dropped, under the same deadline (for every value of every type) *)
Theorem C12_save_evict_reload : forall k m d o v now,
  pebble d = true -> faults d = [] -> m_val m = Some o -> nm_get o (vobjs d) = Some v ->
  expired m now d = false ->
  let d1 := snd (ss_set m d) in
  let d2 := put_meta k (meta_with_val m None) d1 in
  exists m' d3, read_key k now d2 = (Some m', d3) /\ val_of m' d3 = Some (reload_value v)
                /\ exp_of m' d3 = exp_of m d.
Proof. exact save_evict_reload. Qed.
Print Assumptions C12_save_evict_reload.

(* ... and the snapshot is stable: storing and reloading it again changes nothing *)
Theorem C12_reload_stable : forall s l,
  reload_value (reload_value (VStr s)) = reload_value (VStr s) /\
  reload_value (reload_value (VList l)) = reload_value (VList l).
Proof. intros s l. split; reflexivity. Qed.

(* histories on the model: commands of connection 0 and storage-level operations *)
Inductive hop := Cmd (name : bytes) (args : list bytes) | Gc | Flush | Faults (f : list bool) | Reopen.
Definition hstep (now : Z) (s : server) (o : hop) : server :=
  match o with
  | Cmd n a => match serve 0%nat n a now s with Some (s', _) => s' | None => s end
  | Gc => put_db (gc now (s_db s)) s
  | Flush => put_db (flush now (s_db s)) s
  | Faults f => put_db (with_faults (s_db s) f) s
  | Reopen => {| s_db := open_scan (close now (s_db s)); s_conns := []; s_registry := [] |}
  end.
Definition hrun (peb : bool) (ops : list hop) : server := fold_left (hstep 1000) ops (server_new peb).
Definition reply_of (s : server) (n : bytes) (a : list bytes) : option (list wact) :=
  match serve 0%nat n a 1000 s with Some (_, acts) => Some acts | None => None end.
Definition b (l : list Z) : bytes := map (fun z => n2b (Z.to_N z)) l.
Definition SET := b [83;69;84]. Definition GET := b [71;69;84]. Definition kk := b [107]. Definition vv := b [118].

(* a rejected write leaves the record in memory and marked modified: the pass moves on and a
   later pass (or Close) writes it again - no acknowledged data is dropped or marked clean *)
Theorem C12_failed_write_keeps_record : forall now k m0 r d m,
  fm_get k (idx d) = Some m -> expired m now d = false -> meta_modified m = true ->
  fst (ss_set m d) = true ->
  gc_scan now false ((k, m0) :: r) d = gc_scan now false r (snd (ss_set m d))
  /\ idx (snd (ss_set m d)) = idx d /\ vobjs (snd (ss_set m d)) = vobjs d.
Proof.
  intros now k m0 r d m G E M F. split; [exact (gc_scan_failed_write_keeps now k m0 r d m G E M F)|exact (ss_set_failed_idx m d F)].
Qed.
Print Assumptions C12_failed_write_keeps_record.
Example C12_failed_write_history :
  reply_of (hrun true [Cmd SET [kk; vv]; Faults [true]; Gc; Gc; Gc]) GET [kk] = Some [WBulk vv]
  /\ reply_of (hrun false [Cmd SET [kk; vv]; Faults [true; true]; Gc; Gc; Gc; Gc]) GET [kk] = Some [WBulk vv].
Proof. split; vm_compute; reflexivity. Qed.

Example C12_nonvacuous :
  reply_of (hrun true [Cmd SET [kk; vv]; Gc; Gc; Gc]) GET [kk] = Some [WBulk vv].
Proof. vm_compute. reflexivity. Qed.
