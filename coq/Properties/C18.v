(* C18  Blocking pops hand each pushed element to exactly one waiter, or time out.  Statements only.
   coq/Model/Block.v: threads run LPUSH/RPUSH, LPOP/RPOP, RPOPLPUSH and BLPOP/BRPOP (any key lists,
   any timeouts) against list.go's blockingPop / notifyBlockingKey / removeBlockingKeys and the
   per-key locks; a schedule is any list of thread steps (Run), timer firings (Fire) and clock
   ticks (Tick) - ops that are not enabled do nothing.  brun sched (binit ls cmds) is therefore every
   reachable state of every history of every number of producers and consumers. *)
From Nodis Require Import Model.Conc Model.Block Proofs.BlockProofs Proofs.BlockWakeProofs Proofs.BlockImmediateProofs.
From Coq Require Import ZArith List Bool Arith Lia.
Import ListNotations.
Local Open Scope Z_scope.

(* none lost, none duplicated.  For every value v, in every reachable state: the occurrences of v in
   the lists plus the occurrences handed to clients (replies of pops and blocking pops, the element an
   RPOPLPUSH carries between its two keys) equal the occurrences in the initial lists plus the
   occurrences pushed by the pushes that have taken effect.  An element is therefore popped by at
   most one client or is still in a list. *)
Theorem C18_elements_conserved : forall ls cmds sched v,
  let s := brun sched (binit ls cmds) in
  lcount v s + hcount v s = asum (occ v) ls + pcount v s.
Proof. intros ls cmds sched v. exact (conservation ls cmds sched v). Qed.
Print Assumptions C18_elements_conserved.

(* a null reply means the timeout was not zero and the clock has passed the invocation by at least
   the timeout: a wake-up whose element went to somebody else, a lost race, a pending push are no
   reason to return null early; timeout 0 never returns null *)
Theorem C18_null_only_after_timeout : forall ls cmds sched t x sd ks tmo,
  let s := brun sched (binit ls cmds) in
  nget t (bths s) = Some x -> b_cmd x = BBlock sd ks tmo -> b_pc x = BDone (RBlock None) ->
  tmo <> 0 /\ b_start x + tmo <= now s.
Proof. exact null_only_after_timeout. Qed.
Print Assumptions C18_null_only_after_timeout.

(* no lost wake-up ("delivered without undue delay", as a safety statement): in every reachable state a
   consumer that sleeps in its select with no pending wake-up is registered on each of its keys and has
   nothing to pop there - the key is empty, or a push that still holds the key lock (so nobody can pop
   yet) stands at the point where it sends the wake-ups, this consumer's included.  A push made at any
   moment after the consumer's registration therefore leaves it a wake-up; nothing depends on when the
   consumer looked. *)
Theorem C18_no_lost_wakeup : forall ls cmds sched t x sd ks tmo,
  let s := brun sched (binit ls cmds) in
  nget t (bths s) = Some x -> b_cmd x = BBlock sd ks tmo -> b_pc x = BWSelect -> mem t (tok s) = false ->
  forall k, In k ks ->
    In t (rget k (reg s)) /\
    (lget k (lists s) = [] \/ exists u y, nget u (bths s) = Some y /\ notifyingb y k = true /\ nget k (klock s) = Some u).
Proof. exact no_lost_wakeup. Qed.
Print Assumptions C18_no_lost_wakeup.

(* a push never fails, blocks or reports an error because of consumers coming, going or timing out:
   (1) in every reachable state a key lock is held only by a push that is about to send its wake-ups
   or by an RPOPLPUSH between its two keys - never by a consumer, blocked, woken or departing;
   (2) a push that holds its lock always has its next step enabled, whatever the registry and the
   channels look like; that step replies the new length and frees the lock;
   (3) a push that has not started waits for the key lock and for nothing else. *)
Theorem C18_lock_holders_are_producers : forall ls cmds sched k u,
  let s := brun sched (binit ls cmds) in
  nget k (klock s) = Some u -> exists x, nget u (bths s) = Some x /\ holdsb x k = true.
Proof. exact lock_holders. Qed.
Print Assumptions C18_lock_holders_are_producers.
Theorem C18_push_never_waits_for_clients : forall s t x sd k vs,
  nget t (bths s) = Some x -> b_cmd x = BPush sd k vs -> b_pc x = BPNotify ->
  exists s', step_run t s = Some s' /\
             breply t s' = Some (RInt (Z.of_nat (length (lget k (lists s))))) /\ nget k (klock s') = None.
Proof. exact push_never_waits_for_clients. Qed.
Print Assumptions C18_push_never_waits_for_clients.
Theorem C18_push_start_needs_only_the_key_lock : forall s t x sd k vs,
  nget t (bths s) = Some x -> b_cmd x = BPush sd k vs -> b_pc x = BStart ->
  enabled (Run t) s = lock_is_free k s.
Proof. exact push_start_needs_only_the_key_lock. Qed.
Print Assumptions C18_push_start_needs_only_the_key_lock.

(* immediate return.  A blocking pop that runs while nobody else moves and none of its keys is locked, in
   ANY state (any lists, any registry, any number of keys, any timeout): if key number j of its list is the
   first that has an element, then after its 1 + n + j + 2 steps (start, n registrations, j empty looks, the
   pop, the deregistration) it has replied (that key, the element LPOP resp. RPOP would take), the
   element is gone from that list, every other list is as before, no key lock is held, and the client
   is registered nowhere.  With pop_one_head / pop_one_tail: the head for BLPOP, the tail for BRPOP. *)
Theorem C18_immediate_return : forall t sd ks tmo s x j k v r,
  nget t (bths s) = Some x -> b_cmd x = BBlock sd ks tmo -> b_pc x = BStart ->
  (forall k', In k' ks -> lock_is_free k' s = true) ->
  (forall k', ~ In t (rget k' (reg s))) ->
  nth_error ks j = Some k ->
  (forall i k', (i < j)%nat -> nth_error ks i = Some k' -> lget k' (lists s) = []) ->
  pop_one sd (lget k (lists s)) = Some (v, r) ->
  let s' := run_t (1 + (length ks + (j + 2))) t s in
  breply t s' = Some (RBlock (Some (k, v))) /\ lget k (lists s') = r /\
  (forall k', k' <> k -> lget k' (lists s') = lget k' (lists s)) /\
  (forall k', ~ In t (rget k' (reg s'))) /\ klock s' = klock s.
Proof. exact immediate_pop. Qed.
Print Assumptions C18_immediate_return.
Theorem C18_blpop_takes_the_head : forall v l, pop_one SL (v :: l) = Some (v, l).
Proof. exact pop_one_head. Qed.
Theorem C18_brpop_takes_the_tail : forall v l, pop_one SR (l ++ [v]) = Some (v, l).
Proof. exact pop_one_tail. Qed.

(* non-vacuous: two consumers (one with timeout 0) wait on an empty key, one RPUSH of two elements:
   BLPOP gets the head, BRPOP the tail, the push replies 2; a third consumer times out at 50 ms *)
Example C18_nonvacuous :
  let cmds := [BBlock SL [1%nat] 0; BBlock SR [2%nat; 1%nat] 100; BPush SR 1%nat [7; 8]; BBlock SL [3%nat] 50] in
  let sched := [Run 0; Run 0; Run 0; Run 1; Run 1; Run 1; Run 1; Run 1; Run 3; Run 3; Run 3;
                Run 2; Tick 50; Fire 3; Run 2; Run 0; Run 0; Run 0; Run 1; Run 1; Run 1; Run 1; Run 3]%nat in
  let s := brun sched (binit [] cmds) in
  breply 0 s = Some (RBlock (Some (1%nat, 7))) /\ breply 1 s = Some (RBlock (Some (1%nat, 8))) /\
  breply 2 s = Some (RInt 2) /\ breply 3 s = Some (RBlock None) /\ lget 1 (lists s) = [] /\ reg s = [(1%nat, []); (2%nat, []); (3%nat, [])].
Proof. vm_compute. repeat split; reflexivity. Qed.

(* the hypotheses of C18_no_lost_wakeup are met in the interesting case: the consumer sleeps without a
   wake-up while the list is already non-empty - because the push is between its two steps *)
Example C18_no_lost_wakeup_nonvacuous :
  let s := brun [Run 0; Run 0; Run 0; Run 1]%nat (binit [] [BBlock SL [1%nat] 0; BPush SR 1%nat [7]]) in
  (exists x, nget 0%nat (bths s) = Some x /\ b_pc x = BWSelect) /\ mem 0%nat (tok s) = false /\
  lget 1 (lists s) = [7] /\ nget 1%nat (klock s) = Some 1%nat /\ enabled (Run 0%nat) s = false /\
  enabled (Run 0%nat) (brun [Run 1]%nat s) = true.
Proof. vm_compute. repeat split; try reflexivity. eexists; split; reflexivity. Qed.
