(* C18  Blocking pops hand each pushed element to exactly one waiter, or time out.  Statements only.
   coq/Model/Block.v: threads run LPUSH/RPUSH, LPOP/RPOP, RPOPLPUSH and BLPOP/BRPOP (any key lists,
   any timeouts) against list.go's blockingPop / notifyBlockingKey / removeBlockingKeys and the
   per-key locks; a schedule is any list of thread steps (Run), timer firings (Fire) and clock
   ticks (Tick) - ops that are not enabled do nothing.  brun sched (binit ls cmds) is therefore every
   reachable state of every history of every number of producers and consumers. *)
From Nodis Require Import Model.Conc Model.Block Proofs.BlockProofs.
From Coq Require Import ZArith List Bool Arith Lia.
Import ListNotations.
Local Open Scope Z_scope.

(* none lost, none duplicated.  For every value v, in every reachable state: the occurrences of v in
   the lists plus the occurrences handed to clients (replies of pops and blocking pops, the element an
   RPOPLPUSH carries between its two keys) equal the occurrences in the initial lists plus the
   occurrences pushed by the pushes that have taken effect.  An element is therefore popped by at
   most one client or is still in a list. *)
Theorem C18_elements_conserved : forall ls cmds sched v,
  let s := brun sched (binit ls cmds) in
  lcount v s + hcount v s = asum (occ v) ls + pcount v s.
Proof. intros ls cmds sched v. exact (conservation ls cmds sched v). Qed.
Print Assumptions C18_elements_conserved.

(* a null reply means the timeout was not zero and the clock has passed the invocation by at least
   the timeout: a wake-up whose element went to somebody else, a lost race, a pending push are no
   reason to return null early; timeout 0 never returns null *)
Theorem C18_null_only_after_timeout : forall ls cmds sched t x sd ks tmo,
  let s := brun sched (binit ls cmds) in
  nget t (bths s) = Some x -> b_cmd x = BBlock sd ks tmo -> b_pc x = BDone (RBlock None) ->
  tmo <> 0 /\ b_start x + tmo <= now s.
Proof. exact null_only_after_timeout. Qed.
Print Assumptions C18_null_only_after_timeout.

(* non-vacuous: two consumers (one with timeout 0) wait on an empty key, one RPUSH of two elements:
   BLPOP gets the head, BRPOP the tail, the push replies 2; a third consumer times out at 50 ms *)
Example C18_nonvacuous :
  let cmds := [BBlock SL [1%nat] 0; BBlock SR [2%nat; 1%nat] 100; BPush SR 1%nat [7; 8]; BBlock SL [3%nat] 50] in
  let sched := [Run 0; Run 0; Run 0; Run 1; Run 1; Run 1; Run 1; Run 1; Run 3; Run 3; Run 3;
                Run 2; Tick 50; Fire 3; Run 2; Run 0; Run 0; Run 0; Run 1; Run 1; Run 1; Run 1; Run 3]%nat in
  let s := brun sched (binit [] cmds) in
  breply 0 s = Some (RBlock (Some (1%nat, 7))) /\ breply 1 s = Some (RBlock (Some (1%nat, 8))) /\
  breply 2 s = Some (RInt 2) /\ breply 3 s = Some (RBlock None) /\ lget 1 (lists s) = [] /\ reg s = [(1%nat, []); (2%nat, []); (3%nat, [])].
Proof. vm_compute. repeat split; reflexivity. Qed.
