(* C16  Exactly one well-formed RESP reply per command, in order.  Statements only. *)
From Nodis Require Import Base.Bytes Model.Num Model.FMap Model.Db Model.Api Model.Handlers Model.Conn
     Proofs.ReplyProofs Proofs.HandlerReplyProofs Proofs.PipelineProofs.
From Coq Require Import ZArith List Bool.
Local Open Scope Z_scope.

(* The sequence of writes of a command is the prefix coding of EXACTLY ONE value tree
   ([one_value]: starting with one value expected, every write is expected and nothing is
   left expected at the end).  For every reachable server state (any keyspace, any number of
   connections in any MULTI/WATCH state with any queue), every connection, every command
   name - known or unknown - every argument vector and every clock reading:
   the command writes exactly one value, inside or outside MULTI, including EXEC's array of
   the queued commands' replies; and the invariant is kept, so it holds for whole histories. *)
Theorem C16_one_reply : forall c name args now s s' acts,
  server_ok s ->
  serve c name args now s = Some (s', acts) -> one_value acts = true /\ server_ok s'.
Proof. exact serve_one. Qed.
Print Assumptions C16_one_reply.

Theorem C16_initial_state_ok : forall peb, server_ok (server_new peb).
Proof. intro peb. constructor. Qed.

(* MGET used to be excluded (a key of another type left a partial array followed by an error line,
   theorem C16_mget_refuted of earlier revisions); since the repair of mGet it reads every value before
   it writes the header, and is a handler like the others *)
Theorem C16_mget_one : forall args,
  match h_mget args with HBody b => forall now d, bres_one (b now d) = true | _ => True end.
Proof. exact one_h_mget. Qed.
Print Assumptions C16_mget_one.

(* every handler of the table, one by one (what C16_one_reply rests on) *)
Theorem C16_every_handler : forall name h,
  lookup_cmd name cmd_table = Some h -> handler_one h.
Proof. exact table_one. Qed.
Print Assumptions C16_every_handler.

(* Histories.  A pipeline of k commands, on any connections, each in any MULTI/WATCH state, served one
   after the other (the model is outside its domain only for the commands it declares unmodelled):
   the reply stream is the concatenation of k values, the i-th written by the i-th command - a reader
   expecting k values has consumed the whole stream and nothing else ([consume k _ = Some 0]). *)
Theorem C16_pipeline : forall rs s s' replies,
  server_ok s -> serve_all rs s = Some (s', replies) ->
  length replies = length rs /\ Forall (fun a => one_value a = true) replies /\
  consume (Z.of_nat (length rs)) (concat replies) = Some 0 /\ server_ok s'.
Proof. exact pipeline_values. Qed.
Print Assumptions C16_pipeline.

(* k commands followed by a marker: the client reads exactly k values and then the marker's reply *)
Theorem C16_pipeline_then_marker : forall rs m s s' replies,
  server_ok s -> serve_all (rs ++ [m]) s = Some (s', replies) ->
  exists front last, replies = front ++ [last] /\ length front = length rs /\
    consume (Z.of_nat (length rs)) (concat front) = Some 0 /\ one_value last = true.
Proof. exact pipeline_marker. Qed.
Print Assumptions C16_pipeline_then_marker.

(* the premise is met by a real pipeline: RPUSH k a b ; MGET k k (wrong type: two nils) ; MULTI ; LRANGE k 0 -1 ; EXEC ; PING *)
Example C16_pipeline_nonvacuous :
  match serve_all
    [ {| r_conn := 0%nat; r_name := cn [82;80;85;83;72]; r_args := [[x6b]; [x61]; [x62]]; r_now := 5 |};
      {| r_conn := 0%nat; r_name := cn [77;71;69;84]; r_args := [[x6b]; [x6b]]; r_now := 5 |};
      {| r_conn := 0%nat; r_name := cn [77;85;76;84;73]; r_args := []; r_now := 5 |};
      {| r_conn := 0%nat; r_name := cn [76;82;65;78;71;69]; r_args := [[x6b]; [x30]; [x2d; x31]]; r_now := 5 |};
      {| r_conn := 0%nat; r_name := cn [69;88;69;67]; r_args := []; r_now := 5 |};
      {| r_conn := 0%nat; r_name := cn [80;73;78;71]; r_args := []; r_now := 5 |} ] (server_new false) with
  | Some (_, replies) => map (@length wact) replies = [1; 3; 1; 1; 4; 1]%nat
  | None => False
  end.
Proof. vm_compute. reflexivity. Qed.

(* grammar facts used by the theorem: arrays of n leaves, cursors, pairs *)
Theorem C16_array_shapes : forall l h ws its,
  one_value (bulks l) = true /\ one_value (flat_pairs h) = true /\ one_value (items_reply ws its) = true.
Proof. intros l h ws its. exact (conj (one_bulks l) (conj (one_flat_pairs h) (one_items ws its))). Qed.
Print Assumptions C16_array_shapes.

Example C16_nonvacuous :
  match serve 0%nat (cn [76;82;65;78;71;69]) [[x6b]; [x30]; [x2d; x31]] 5
              (match serve 0%nat (cn [82;80;85;83;72]) [[x6b]; [x61]; [x62]] 5 (server_new false) with
               | Some (s, _) => s | None => server_new false end) with
  | Some (_, acts) => acts = [WArr 2; WBulk [x61]; WBulk [x62]]
  | None => False
  end.
Proof. vm_compute. reflexivity. Qed.
