(* C20 -- placeholder until the feed theorems are in place *)
From Nodis Require Import Base.Bytes.
