(* C20  The change feed: replaying it reproduces the primary.  Statements only.
   new_pops d d' = the records a step from d to d' emitted (oldest first); apply_pop = ApplyPatch
   on a replica (coq/Model/Feed.v); logical = live names with deadline and value. *)
From Nodis Require Import Base.Bytes Model.Num Model.FMap Model.DsStr Model.Db Model.Api Model.Feed Model.Handlers Model.Conn
     Proofs.DbProofs Proofs.FeedProofs Properties.C12.
From Coq Require Import ZArith List Bool.
Import ListNotations.
Local Open Scope Z_scope.

(* commands that change nothing emit nothing: every read leaves the list of records as it was *)
Theorem C20_reads_emit_nothing : forall k now d,
  res_events (api_get k now d) d = events d /\
  events (snd (api_type k now d)) = events d /\
  (forall ks, events (snd (api_exists ks now d)) = events d) /\
  (forall A (dflt : A) f, res_events (api_hread k dflt f now d) d = events d) /\
  (forall A (dflt : A) f, res_events (api_sread k dflt f now d) d = events d) /\
  (forall A (dflt : A) f, res_events (api_zread k dflt f now d) d = events d).
Proof.
  intros k now d. split; [exact (get_emits_nothing k now d)|]. split; [exact (type_emits_nothing k now d)|].
  split; [intro ks; exact (exists_emits_nothing ks now d)|]. split; [intros; apply hread_emits_nothing|].
  split; [intros; apply sread_emits_nothing | intros; apply zread_emits_nothing].
Qed.
Print Assumptions C20_reads_emit_nothing.

(* SET from any state emits exactly one record, and that record, applied to ANY replica whose key
   is not of another type, makes GET on the replica return the value written on the primary *)
Theorem C20_set_replays : forall k v keep now d d',
  api_set k v keep now d = Ok tt d' ->
  new_pops d d' = [PSet k v keep 0] /\
  forall r now', match api_set k v false now r with
                 | Ok _ r' => apply_pop (PSet k v false 0) now r = Some r' /\
                              fst (match api_get k now' r' with Ok x _ => (Some x, tt) | _ => (None, tt) end) = Some (Some v)
                 | Panic _ => True
                 | Unm => False
                 end.
Proof.
  intros k v keep now d d' H. split; [exact (set_record k v keep now d d' H)|].
  intros r now'. pose proof (set_then_get k v false now now' r) as G.
  unfold apply_pop. destruct (api_set k v false now r) as [u r'| |]; [|exact I|exact G].
  split; [reflexivity|exact (G eq_refl)].
Qed.
Print Assumptions C20_set_replays.

(* the principal writer of every other type (and INCR): a successful command emits exactly one record,
   carrying the arguments of the command (for INCR: the new value, keeping the deadline) - whatever
   the state before, including a key re-created in place or loaded from storage *)
Theorem C20_writers_emit_exactly_their_record : forall k now d,
  (forall left vs n d', api_push left k vs now d = Ok n d' -> new_pops d d' = [if left then PLPush k vs else PRPush k vs]) /\
  (forall f v n d', api_hset k f v now d = Ok n d' -> new_pops d d' = [PHSet k f v]) /\
  (forall ms n d', api_sadd k ms now d = Ok n d' -> new_pops d d' = [PSAdd k ms]) /\
  (forall m s n d', api_zadd_gen 0 k m s now d = Ok n d' -> new_pops d d' = [PZAdd k m s]) /\
  (forall delta decr n d', api_incr_gen k delta decr false now d = Ok (Some n) d' -> new_pops d d' = [PSet k (format_int n) true 0]).
Proof.
  intros k now d. repeat split; intros.
  - eapply push_record; eassumption.
  - eapply hset_record; eassumption.
  - eapply sadd_record; eassumption.
  - eapply zadd_record; eassumption.
  - eapply incr_record; eassumption.
Qed.
Print Assumptions C20_writers_emit_exactly_their_record.

(* whole histories replayed by the kernel: run the commands on a primary, collect its records,
   apply them in order to an empty replica, compare the logical states *)
Definition run_cmds (cmds : list (bytes * list bytes)) : server :=
  fold_left (fun s c => match serve 0%nat (fst c) (snd c) 1000 s with Some (s', _) => s' | None => s end) cmds (server_new false).
Definition replay (cmds : list (bytes * list bytes)) : option (list (bytes * Z * option value)) :=
  let p := s_db (run_cmds cmds) in
  match apply_pops (new_pops (db_empty false) p) 1000 (db_empty false) with
  | Some r => Some (logical 1000 r)
  | None => None
  end.
Definition primary (cmds : list (bytes * list bytes)) := logical 1000 (s_db (run_cmds cmds)).
Definition c (l : list Z) := b l.
Definition hist1 : list (bytes * list bytes) :=
  [ (SET, [kk; vv]); (c [65;80;80;69;78;68], [kk; c [49]]);                      (* APPEND k 1 *)
    (c [82;80;85;83;72], [c [108]; c [97]; c [98]; c [97]; c [99]; c [97]]);      (* RPUSH l a b a c a *)
    (c [76;82;69;77], [c [108]; c [45;50]; c [97]]);                              (* LREM l -2 a *)
    (c [76;80;79;80], [c [108]]);                                                 (* LPOP l *)
    (c [72;83;69;84], [c [104]; c [102]; c [49]]);                                (* HSET h f 1 *)
    (c [72;73;78;67;82;66;89], [c [104]; c [102]; c [52;49]]);                    (* HINCRBY h f 41 *)
    (c [83;65;68;68], [c [115]; c [97]; c [98]]); (c [83;82;69;77], [c [115]; c [97]]);   (* SADD s a b ; SREM s a *)
    (c [90;65;68;68], [c [122]; c [49]; c [97]; c [50]; c [98]]);                 (* ZADD z 1 a 2 b *)
    (c [90;73;78;67;82;66;89], [c [122]; c [53]; c [97]]);                        (* ZINCRBY z 5 a *)
    (c [69;88;80;73;82;69], [kk; c [49;48;48]]);                                  (* EXPIRE k 100 *)
    (c [73;78;67;82], [c [110]]); (c [68;69;76], [c [110]]);                      (* INCR n ; DEL n *)
    (c [82;69;78;65;77;69], [c [104]; c [104;50]]) ].                             (* RENAME h h2 *)
Example C20_history_replayed : replay hist1 = Some (primary hist1) /\ length (primary hist1) = 5%nat.
Proof. split; vm_compute; reflexivity. Qed.

(* SMOVE emits only the SAdd on the destination: the replica keeps the member in the source
   (known finding, replayed on the implementation by the check) *)
Definition hist_smove : list (bytes * list bytes) :=
  [ (c [83;65;68;68], [c [115]; c [97]; c [98]]); (c [83;77;79;86;69], [c [115]; c [116]; c [97]]) ].
Theorem C20_smove_refuted : replay hist_smove <> Some (primary hist_smove).
Proof. vm_compute. discriminate. Qed.
Print Assumptions C20_smove_refuted.

(* order matters: the same two records applied in the other order leave a different replica, so a
   feed that delivers out of emission order (each notification has its own goroutine) is not safe *)
Theorem C20_order_matters :
  let p1 := PSet kk vv false 0 in let p2 := PSet kk (c [119]) false 0 in
  option_map (logical 1000) (apply_pops [p1; p2] 1000 (db_empty false))
  <> option_map (logical 1000) (apply_pops [p2; p1] 1000 (db_empty false)).
Proof. vm_compute. discriminate. Qed.
Print Assumptions C20_order_matters.
