(* C06  Every command completes.  Statements only (coq/Model/Conc.v). *)
From Nodis Require Import Model.Conc Proofs.ConcProofs Proofs.ConcGenProofs Proofs.ConcLiveProofs.
From Nodis Require Model.RWPref Proofs.RWPrefProofs Proofs.RWMultiProofs.
From Coq Require Import ZArith List Bool Arith.
Import ListNotations.
Local Open Scope Z_scope.

(* single-key writers never hold a lock while they wait for one (no hold-and-wait, hence no cycle
   of waiting threads): in every state reachable by any interleaving, a thread that is inside
   Lock() holds nothing, and a thread that holds a record is past its Lock() and holds exactly one *)
Theorem C06_no_hold_and_wait : forall vals cmds sched, pushes_only vals cmds ->
  let s := run_micro sched (init_state vals cmds) in
  forall t x, nget t (ths s) = Some x ->
    (forall r sec, t_pc x = PWait r sec -> t_held x = []) /\
    (t_held x <> [] -> exists r, t_held x = [(r, true)] /\ r_w (get_rec r s) = Some t).
Proof.
  intros vals cmds sched Hp s t x Hx.
  destruct (run_micro_invC (init_val vals cmds) sched _ (init_invC vals cmds Hp)) as [[HA _] _].
  destruct (HA t x Hx) as [k [r [_ [_ Hpc]]]]. split.
  - intros r0 sec E. rewrite E in Hpc. destruct sec; [contradiction|]. apply Hpc.
  - intro Hne. destruct (t_pc x) as [|r' [|]|r' [|]|r' [|]| | |r' tmp [|]|r' [|]| |]; try contradiction;
      try (destruct Hpc as [_ Hh]; congruence); try congruence.
    + destruct Hpc as [_ [Hh Hw]]. exists r. now split.
    + destruct Hpc as [_ [Hh [Hw _]]]. exists r. now split.
    + destruct Hpc as [_ [Hh Hw]]. exists r. now split.
Qed.
Print Assumptions C06_no_hold_and_wait.

(* the same for the RPUSH, RPUSHX and LPOP clients of any mix that may also contain LPOPRPUSH a b, on keys that are
   created, emptied, unlinked and re-created meanwhile: whoever waits holds nothing, whoever holds a record holds exactly that one,
   exclusively, and stands at a step that is never blocked (load, store, unlink, commit) - the holder
   of any record can always run to its commit, so no cycle of waiting threads can form *)
Theorem C06_writers_no_hold_and_wait : forall vals cmds sched t x,
  supported cmds -> (forall kv, In kv vals -> 0 <= snd kv) ->
  let s := run_micro sched (init_state vals cmds) in
  nget t (ths s) = Some x -> wkey (t_cmd x) <> None ->
  (forall r sec, t_pc x = PWait r sec -> t_held x = []) /\
  (t_held x <> [] -> exists r, t_held x = [(r, true)] /\ r_w (get_rec r s) = Some t /\
                     match t_pc x with PLocked _ _ | PPub _ _ | PLoaded _ _ _ | PStored _ _ | PUnlink _ _ => True | _ => False end).
Proof. exact writers_no_hold_and_wait. Qed.
Print Assumptions C06_writers_no_hold_and_wait.

(* no deadlock among single-key writers, for every interleaving: in every reachable state of any number of RPUSH, RPUSHX
   and LPOP clients on any keys (created, emptied, unlinked, re-created meanwhile), as long as some command has not
   replied there is a thread that can take a step which is not a wait - it stands at a lookup, a load, a store, an
   unlink, a publish or a commit, or it is inside Lock() and the lock is free.  The proof adds to the invariant of
   C05 that every write-locked record is in the held list of an existing thread (so whoever waits, waits for a thread
   that is past its Lock() and never blocks).  Fairness of the Go scheduler is not modelled: this is freedom from
   deadlock, not a bound on waiting. *)
Theorem C06_writers_never_deadlock : forall vals cmds sched,
  writers_only cmds -> (forall kv, In kv vals -> 0 <= snd kv) ->
  let s := run_micro sched (init_state vals cmds) in
  (exists t x, nget t (ths s) = Some x /\ forall rp, t_pc x <> PDone rp) ->
  exists t x, nget t (ths s) = Some x /\ can_move s x.
Proof. exact writers_never_deadlock. Qed.
Print Assumptions C06_writers_never_deadlock.
(* non-vacuous: thread 1 is inside Lock() of a record thread 0 holds - thread 1 cannot move, thread 0 can *)
Example C06_never_deadlock_nonvacuous :
  let s := run_micro [0;0;1;1]%nat (init_state [(1%nat, 1)] [Push 1; Pop 1]) in
  (exists x, nget 1%nat (ths s) = Some x /\ t_pc x = PWait 1 false /\ ~ can_move s x) /\
  (exists x, nget 0%nat (ths s) = Some x /\ t_pc x = PLocked 1 false /\ can_move s x).
Proof.
  split; eexists; (split; [vm_compute; reflexivity|]); (split; [reflexivity|]); unfold can_move; cbn; [discriminate|exact I].
Qed.

(* multi-key commands do hold one lock while they wait for the next, in argument order: *)
(* two moves in opposite directions block each other for ever *)
Theorem C06_opposite_moves_deadlock :
  let s := run_grants [0;1;0;1;0;1;0;1;0;1;0;1]%nat (init_state [(1%nat, 2); (2%nat, 2)] [Move 1 2; Move 2 1]) in
  waiting s = [0; 1]%nat /\ reply_of 0 s = None /\ reply_of 1 s = None.
Proof. vm_compute. repeat split; reflexivity. Qed.
Print Assumptions C06_opposite_moves_deadlock.
(* a move whose source and destination are the same key used to wait for the lock it held (Go's
   RWMutex is not reentrant); tx.go's lockKey now recognises a record the command already holds, and a
   rotation keeps its key: the command completes, on lists of two elements and of one, and a DEL that
   runs concurrently with a one-element rotation sees the key (kernel-evaluated schedules, forced on the
   implementation by the check) *)
Theorem C06_self_move_completes :
  let s := run_grants [0;0;0;0;0;0;0;0]%nat (init_state [(1%nat, 2)] [Move 1 1]) in
  waiting s = [] /\ reply_of 0 s = Some 1 /\ key_val 1 s = Some 2.
Proof. vm_compute. repeat split; reflexivity. Qed.
Print Assumptions C06_self_move_completes.
Theorem C06_self_move_of_the_last_element_keeps_the_key :
  let s := run_grants [0;0;0;0;1;0;0;0;1;1;0;0;0;1;0;0;0;1;0;1;0;1]%nat (init_state [(2%nat, 1)] [Move 2 2; Del 2]) in
  waiting s = [] /\ reply_of 0 s = Some 1 /\ reply_of 1 s = Some 1 /\ key_val 2 s = None.
Proof. vm_compute. repeat split; reflexivity. Qed.
Print Assumptions C06_self_move_of_the_last_element_keeps_the_key.

(* ---- key locks with the writer preference of sync.RWMutex (coq/Model/RWPref.v) -------------------
   Commands as lock programs (the keys they lock, in the order they lock them, released together at the
   end); a writer that has called Lock() admits no new reader.  nodis takes key locks in argument order,
   and a missing key takes none, so two commands can meet two keys in opposite orders: *)

(* the reader form, staged on the implementation by `vh lockorder`: EXISTS a b a (a missing at first: locks b,
   then a), EXISTS a b, RPUSH b, RPUSH a - after one step of each, nobody can move and nobody has finished *)
Theorem C06_reader_lock_order_refuted :
  RWPref.deadlocked (RWPref.run [0; 1; 2; 3]%nat (RWPref.start RWPref.lockorder_readers)) = true.
Proof. exact RWPref.reader_lock_order_deadlock. Qed.
Print Assumptions C06_reader_lock_order_refuted.

(* the same two readers without the writers share both locks and finish (also staged: `vh lockorder readers`) *)
Theorem C06_readers_alone_finish :
  RWPref.all_finished (RWPref.run [0; 1; 0; 1; 0; 1]%nat
     (RWPref.start [[RWPref.RL 1; RWPref.RL 0]; [RWPref.RL 0; RWPref.RL 1]]%nat)) = true.
Proof. exact RWPref.readers_alone_finish. Qed.

(* the semantics the model assumes, checked on the implementation (`vh lockorder pref`): a reader holds k and a writer
   has called Lock(k): a second reader cannot enter (without the writer it could); when the first reader commits, all finish *)
Theorem C06_writer_preference :
  RWPref.enabled 2 (RWPref.run [0; 1]%nat (RWPref.start RWPref.pref_progs)) = false /\
  RWPref.enabled 2 (RWPref.run [0]%nat (RWPref.start RWPref.pref_progs)) = true /\
  RWPref.all_finished (RWPref.run [0; 1; 2; 0; 1; 1; 2; 2]%nat (RWPref.start RWPref.pref_progs)) = true.
Proof.
  destruct RWPref.writer_preference_blocks_reader as [A B]. exact (conj A (conj B RWPref.writer_preference_all_finish)).
Qed.

(* what a repair has to establish: if every command takes its key locks in one global order (strictly
   increasing keys), then NO schedule of ANY number of commands - readers, writers, writer preference
   included - ever reaches a state in which somebody is unfinished and nobody can move *)
Theorem C06_ordered_acquisition_never_deadlocks : forall ps sched,
  Forall RWPrefProofs.ordered_prog ps -> RWPref.deadlocked (RWPref.run sched (RWPref.start ps)) = false.
Proof. exact RWPrefProofs.ordered_commands_never_deadlock. Qed.
Print Assumptions C06_ordered_acquisition_never_deadlocks.

(* in particular: commands that lock at most one key - any mix of readers and writers - never deadlock *)
Theorem C06_single_key_commands_never_deadlock : forall ps sched,
  Forall (fun p => (length p <= 1)%nat) ps -> RWPref.deadlocked (RWPref.run sched (RWPref.start ps)) = false.
Proof. exact RWPrefProofs.single_key_commands_never_deadlock. Qed.
Print Assumptions C06_single_key_commands_never_deadlock.

(* a second repair condition, a one-mutex patch: commands that lock several keys first take one global mutex
   (key mu; their other keys in ANY order, each once), commands that lock one key do not.  Then no schedule of
   any number of such commands deadlocks - the opposite moves and the crossing readers included *)
Theorem C06_serialised_multi_key_commands_never_deadlock : forall mu ps sched,
  Forall (fun p => RWMultiProofs.single_prog mu p \/ RWMultiProofs.multi_prog mu p) ps ->
  RWPref.deadlocked (RWPref.run sched (RWPref.start ps)) = false.
Proof. exact RWMultiProofs.serialised_commands_never_deadlock. Qed.
Print Assumptions C06_serialised_multi_key_commands_never_deadlock.
Example C06_serialised_nonvacuous :
  Forall (fun p => RWMultiProofs.single_prog 9 p \/ RWMultiProofs.multi_prog 9 p)
    [[RWPref.WL 9; RWPref.WL 0; RWPref.WL 1]; [RWPref.WL 9; RWPref.WL 1; RWPref.WL 0]; [RWPref.WL 9; RWPref.RL 1; RWPref.RL 0];
     [RWPref.WL 9; RWPref.RL 0; RWPref.RL 1]; [RWPref.WL 1]; [RWPref.WL 0]; [RWPref.RL 0]]%nat.
Proof. exact RWMultiProofs.serialised_lockorder_cases. Qed.

(* the premise is met by real command mixes: two moves in the same direction, a reader of both keys and a writer of each *)
Example C06_ordered_nonvacuous :
  Forall RWPrefProofs.ordered_prog
    [[RWPref.WL 0; RWPref.WL 1]; [RWPref.WL 0; RWPref.WL 1]; [RWPref.RL 0; RWPref.RL 1]; [RWPref.WL 0]; [RWPref.WL 1]]%nat.
Proof.
  repeat constructor; unfold RWPrefProofs.key_lt; cbn; auto.
Qed.
