(* C02  Lists behave as exact sequences under every push/pop/index/trim command.
   Statements only.  Layer L1 (element sequence + cached length) of coq/Model/DsList.v;
   the command wrappers are tied to these primitives by the model (coq/Model/Api.v,
   Handlers.v) and the model to the code by the correspondence run. *)
From Nodis Require Import Base.Bytes Model.Num Model.DsList Spec.Redis Proofs.ListProofs.
From Coq Require Import ZArith List Bool.
Local Open Scope Z_scope.

(* the reported length always equals the number of elements: every primitive keeps it *)
Theorem C02_length_is_count_push : forall vs l,
  list_inv l -> list_inv (list_lpush vs l) /\ list_inv (list_rpush vs l).
Proof. intros vs l H. split; [exact (lpush_inv vs l H) | exact (rpush_inv vs l H)]. Qed.
Print Assumptions C02_length_is_count_push.

Theorem C02_length_is_count_pop : forall c l,
  list_inv l -> list_inv (snd (list_lpop c l)) /\ list_inv (snd (list_rpop c l)).
Proof. intros c l H. split; [exact (lpop_inv c l H) | exact (rpop_inv c l H)]. Qed.
Print Assumptions C02_length_is_count_pop.

Theorem C02_length_is_count_edit : forall p d b i v c a z l,
  list_inv l ->
  list_inv (snd (list_linsert p d b l)) /\ list_inv (snd (list_lset i v l)) /\
  list_inv (snd (list_lrem c v l)) /\ list_inv (list_ltrim a z l).
Proof.
  intros p d b i v c a z l H.
  exact (conj (linsert_inv p d b l H) (conj (lset_inv i v l H) (conj (lrem_inv c v l H) (ltrim_inv a z l H)))).
Qed.
Print Assumptions C02_length_is_count_edit.

(* LRANGE: for every list and every (start, stop) outside the deviation guard the model
   answers the Redis slice (0-based, negative from the tail, clamped, inclusive) *)
Theorem C02_lrange_modulo_findings : forall a b l,
  lrange_guard a b = false -> list_range a b l = slice_range (lx l) a b.
Proof. exact list_range_spec. Qed.
Print Assumptions C02_lrange_modulo_findings.

(* ... and inside the guard it does not: LRANGE k 1 -1 on [a; b] *)
Theorem C02_lrange_refuted : exists a b l,
  lrange_guard a b = true /\ list_range a b l <> slice_range (lx l) a b.
Proof.
  exists 1, (-1), {| lx := [[x61]; [x62]]; ll := 2 |}.
  split; [reflexivity | vm_compute; discriminate].
Qed.
Print Assumptions C02_lrange_refuted.

Theorem C02_ltrim_modulo_findings : forall a b l,
  0 <= a -> lx (list_ltrim a b l) = slice_range (lx l) a b.
Proof. exact list_ltrim_spec. Qed.
Print Assumptions C02_ltrim_modulo_findings.

Theorem C02_ltrim_refuted : exists a b l, a < 0 /\ lx (list_ltrim a b l) <> slice_range (lx l) a b.
Proof.
  exists (-1), (-1), {| lx := [[x61]; [x62]]; ll := 2 |}.
  split; [reflexivity | vm_compute; discriminate].
Qed.
Print Assumptions C02_ltrim_refuted.

Example C02_nonvacuous : list_inv (list_rpush [[x61]; []] list_new) /\ lrange_guard 0 (-1) = false.
Proof. split; reflexivity. Qed.
