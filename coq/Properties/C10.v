(* C10  Expiry: a key is visible before its deadline and to no command at or after it.
   Statements only, over the keyspace model of tx.go. *)
From Nodis Require Import Base.Bytes Model.Num Model.FMap Model.Db Model.Api Spec.Redis
     Proofs.FMapProofs Proofs.DbProofs.
From Coq Require Import ZArith List Bool.
Local Open Scope Z_scope.

(* the expiry predicate is exactly "deadline set and reached" *)
Theorem C10_deadline_predicate : forall m now d,
  (exp_of m d = 0 -> expired m now d = false) /\
  (now < exp_of m d -> expired m now d = false) /\
  (exp_of m d <> 0 -> exp_of m d <= now -> expired m now d = true).
Proof.
  intros m now d.
  exact (conj (no_deadline_never_expires m now d) (conj (not_expired_before m now d) (expired_at_deadline m now d))).
Qed.
Print Assumptions C10_deadline_predicate.

(* at or after the deadline every read path answers as for a key that does not exist, for
   every state (record still in the index, value hot or cold, any backend) *)
Theorem C10_invisible_to_reads : forall k d m now,
  fm_get k (idx d) = Some m -> expired m now d = true ->
  fst (read_key k now d) = None /\ (exists d', api_get k now d = Ok None d') /\
  fst (api_exists [k] now d) = 0 /\ fst (api_pttl k now d) = -2 /\ fst (api_ttl k now d) = -2 /\
  fst (api_type k now d) = type_name 0.
Proof.
  intros k d m now G E.
  exact (conj (read_key_expired k d m now G E) (conj (api_get_expired k d m now G E)
        (conj (api_exists_expired k d m now G E)
        (conj (proj1 (api_pttl_expired k d m now G E)) (conj (proj2 (api_pttl_expired k d m now G E))
              (api_type_expired k d m now G E)))))).
Qed.
Print Assumptions C10_invisible_to_reads.

Theorem C10_invisible_to_keys : forall k d m now pat,
  fm_get k (idx d) = Some m -> expired m now d = true -> sorted (idx d) -> ~ In k (api_keys pat now d).
Proof. exact api_keys_expired. Qed.
Print Assumptions C10_invisible_to_keys.

(* a write to an expired key behaves as on a key that never existed: brand-new value, no deadline *)
Theorem C10_write_recreates : forall k d m now v,
  fm_get k (idx d) = Some m -> expired m now d = true ->
  (exists m' d', write_key k (Some v) now d = (Some m', d') /\ val_of m' d' = Some v /\ exp_of m' d' = 0
                 /\ fm_get k (idx d') = Some m')
  /\ fst (write_key k None now d) = None.
Proof.
  intros k d m now v G E. split; [exact (write_key_expired k d m now v G E) | exact (write_key_nil_expired k d m now G E)].
Qed.
Print Assumptions C10_write_recreates.

(* the deadline arithmetic deviates: a second PEXPIRE-style call adds to the old deadline *)
Theorem C10_pexpire_refuted : exists d k,
  let '(_, d1) := api_expire_px k 100 1000 d in
  match fm_get k (idx d1) with
  | Some m => exp_of m d1 = 5100     (* Redis: 1000 + 100 = 1100 *)
  | None => False
  end.
Proof.
  set (d0 := snd (new_key None [x6b] (VStr (DsStr.str_of [x76])) (db_empty false))).
  set (d := match fm_get [x6b] (idx d0) with Some m => set_exp m 5000 d0 | None => d0 end).
  exists d, [x6b]. vm_compute. reflexivity.
Qed.
Print Assumptions C10_pexpire_refuted.

Example C10_nonvacuous : exists d m, fm_get [x6b] (idx d) = Some m /\ expired m 6000 d = true /\ expired m 4999 d = false.
Proof.
  set (d0 := snd (new_key None [x6b] (VStr (DsStr.str_of [x76])) (db_empty false))).
  set (d := match fm_get [x6b] (idx d0) with Some m => set_exp m 5000 d0 | None => d0 end).
  exists d. vm_compute. eexists. repeat split.
Qed.
