(* C09  WATCH is sound optimistic locking.  Statements only. *)
From Nodis Require Import Base.Bytes Model.Num Model.FMap Model.Db Model.Api Model.Handlers Model.Conn
     Proofs.FMapProofs Proofs.DbProofs Proofs.MultiProofs Proofs.SignalProofs.
From Coq Require Import ZArith List Bool.
Local Open Scope Z_scope.

(* whenever a command signals key k, every connection the registry holds for k is flagged *)
Theorem C09_signal_flags_watchers : forall k s c,
  (exists cs, fm_get k (s_registry s) = Some cs /\ In c cs) ->
  fm_get k (c_watch (get_conn c (flag_watchers k s))) = Some true.
Proof. exact flag_watchers_flags. Qed.
Print Assumptions C09_signal_flags_watchers.

(* ... and a flagged connection's EXEC replies null and has no effect *)
Theorem C09_flagged_exec_aborts : forall c args now s,
  c_prepare (get_conn c s) = true -> c_error (get_conn c s) = false ->
  existsb (fun kv => snd kv) (c_watch (get_conn c s)) = true ->
  exists s', serve c n_EXEC args now s = Some (s', [WNullBulk]) /\ s_db s' = s_db s /\ get_conn c s' = conn_new.
Proof. exact exec_watch_abort. Qed.
Print Assumptions C09_flagged_exec_aborts.

Definition b (l : list Z) : bytes := map (fun z => n2b (Z.to_N z)) l.
Definition hist (cmds : list (nat * bytes * list bytes)) : list (option (list wact)) :=
  fst (fold_left (fun acc c => let '(outs, s) := acc in
               match serve (fst (fst c)) (snd (fst c)) (snd c) 1000 s with
               | Some (s', a) => (outs ++ [Some a], s')
               | None => (outs ++ [None], s)
               end) cmds ([], server_new false)).
Definition SET := b [83;69;84]. Definition DEL := b [68;69;76]. Definition kk := b [107]. Definition xx := b [120].

(* a write that signals (SET) between WATCH and EXEC aborts the transaction *)
Example C09_set_aborts :
  last (hist [(0%nat, SET, [kk; xx]); (0%nat, n_WATCH, [kk]); (1%nat, SET, [kk; kk]);
              (0%nat, n_MULTI, []); (0%nat, SET, [xx; xx]); (0%nat, n_EXEC, [])]) None = Some [WNullBulk].
Proof. vm_compute. reflexivity. Qed.

(* DEL does not signal: the watched key is deleted by another client and EXEC still runs *)
Theorem C09_del_not_signalled_refuted :
  last (hist [(0%nat, SET, [kk; xx]); (0%nat, n_WATCH, [kk]); (1%nat, DEL, [kk]);
              (0%nat, n_MULTI, []); (0%nat, SET, [xx; xx]); (0%nat, n_EXEC, [])]) None = Some [WArr 1; WOK].
Proof. vm_compute. reflexivity. Qed.
Print Assumptions C09_del_not_signalled_refuted.

(* the registry is never cleaned: a watch taken for one transaction aborts a later,
   unrelated transaction of the same connection *)
Theorem C09_stale_registry_refuted :
  last (hist [(0%nat, n_WATCH, [kk]); (0%nat, n_MULTI, []); (0%nat, SET, [xx; xx]); (0%nat, n_EXEC, []);
              (1%nat, SET, [kk; kk]);
              (0%nat, n_MULTI, []); (0%nat, SET, [xx; kk]); (0%nat, n_EXEC, [])]) None = Some [WNullBulk].
Proof. vm_compute. reflexivity. Qed.
Print Assumptions C09_stale_registry_refuted.

(* which commands signal: SET always signals its key (so do the other writers, by the same
   two-line argument; DEL never does) *)
Theorem C09_set_signals : forall k v keep now d d',
  api_set k v keep now d = Ok tt d' -> exists rest, events d' = EvNotify (PSet k v keep 0) :: EvSignal k :: rest.
Proof.
  intros k v keep now d d'. unfold api_set.
  destruct (write_key k new_str now d) as [[m|] d1]; [|discriminate].
  destruct (as_str m d1); [|discriminate].
  intro H. inversion H; subst. unfold notify, signal, emit, with_events. cbn [events]. eexists. reflexivity.
Qed.
Print Assumptions C09_set_signals.
(* RENAME and RENAMENX signal both names (they used to signal the source name twice and never the
   destination: repaired) *)
Theorem C09_rename_signals_both : forall k dst now d d',
  bytes_eqb k dst = false -> api_rename k dst now d = (false, d') ->
  exists rest, events d' = EvNotify (PRename k dst) :: EvSignal dst :: EvSignal k :: rest.
Proof.
  intros k dst now d d' Hne. unfold api_rename.
  destruct (write_key k None now d) as [[m|] d1]; [|discriminate]. rewrite Hne.
  destruct (write_key dst None now d1) as [[dm|] d2].
  - intro H. inversion H; subst. unfold notify, signal, emit, with_events. cbn [events]. eexists. reflexivity.
  - unfold alloc_key. intro H. inversion H; subst. unfold notify, signal, emit, with_events. cbn [events]. eexists. reflexivity.
Qed.
Print Assumptions C09_rename_signals_both.
Theorem C09_renamenx_signals_both : forall k dst now d d',
  api_renamenx k dst now d = (0, d') ->
  exists rest, events d' = EvNotify (PRename k dst) :: EvSignal dst :: EvSignal k :: rest.
Proof.
  intros k dst now d d'. unfold api_renamenx.
  destruct (write_key dst None now d) as [[dm|] d1]; [discriminate|].
  destruct (write_key k None now d1) as [[m|] d2]; [|discriminate].
  unfold alloc_key. intro H. inversion H; subst. unfold notify, signal, emit, with_events. cbn [events]. eexists. reflexivity.
Qed.
Print Assumptions C09_renamenx_signals_both.
(* the principal writer of every type, and the two deadline commands: a successful write ends with
   signalModifiedKey(key) and the notification - the two newest events of the log.  (The commands
   that do not signal are the listed findings: DEL/UNLINK/HCLEAR/ZCLEAR/EXPIRE 0/FLUSH*.) *)
Theorem C09_writers_signal : forall k now d,
  (forall left vs n d', api_push left k vs now d = Ok n d' -> signals k d') /\
  (forall f v n d', api_hset k f v now d = Ok n d' -> signals k d') /\
  (forall ms n d', api_sadd k ms now d = Ok n d' -> signals k d') /\
  (forall mode m s n d', api_zadd_gen mode k m s now d = Ok n d' -> signals k d') /\
  (forall delta decr n d', api_incr_gen k delta decr false now d = Ok (Some n) d' -> signals k d') /\
  (forall d', api_persist k now d = (1, d') -> signals k d') /\
  (forall m e, signals k (exp_commit k m e d)).
Proof.
  intros k now d. repeat split; intros.
  - eapply push_signals; eassumption.
  - eapply hset_signals; eassumption.
  - eapply sadd_signals; eassumption.
  - eapply zadd_signals; eassumption.
  - eapply incr_signals; eassumption.
  - eapply persist_signals; eassumption.
  - apply expire_signals.
Qed.
Print Assumptions C09_writers_signal.
Definition is_signal (e : event) : bool := match e with EvSignal _ => true | _ => false end.
Theorem C09_del_never_signals : forall ks now d,
  filter is_signal (events (snd (api_del ks now d))) = filter is_signal (events d).
Proof.
  induction ks as [|k r IH]; intros now d; cbn [api_del]; [reflexivity|].
  assert (W : forall d0, events (snd (write_key k None now d0)) = events d0).
  { intro d0. unfold write_key, touch. destruct (fm_get k (idx d0)) as [m|]; cbn; [|reflexivity].
    destruct (expired _ now _); [reflexivity|].
    destruct (m_val _); [reflexivity|].
    unfold ss_get. destruct (key_of _ _) as [nm ex]. destruct (fm_get _ (disk _)) as [[kr o|v]|]; reflexivity. }
  destruct (write_key k None now d) as [[m|] d1] eqn:E.
  - specialize (IH now (notify (PDel k) (del_meta k d1))).
    destruct (api_del r now (notify (PDel k) (del_meta k d1))) as [c d2]. cbn [snd] in *.
    rewrite IH. change (events (notify (PDel k) (del_meta k d1))) with (EvNotify (PDel k) :: events d1).
    cbn [filter is_signal]. specialize (W d). rewrite E in W. cbn [snd] in W. now rewrite W.
  - rewrite IH. specialize (W d). rewrite E in W. cbn [snd] in W. now rewrite W.
Qed.
Print Assumptions C09_del_never_signals.
