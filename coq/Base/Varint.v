(* Go's encoding/binary PutUvarint / Uvarint / PutVarint / Varint, as used by
   ds/ds.go and the ds payload codecs.  Model only; proofs in Proofs/VarintProofs.v *)
From Nodis Require Import Base.Bytes.
From Coq Require Import ZArith NArith List.
Local Open Scope N_scope.

(* PutUvarint: low 7 bits first, continuation bit 0x80.  [fuel] bytes at most. *)
Fixpoint uvarint_enc (fuel : nat) (x : N) : bytes :=
  match fuel with
  | O => []
  | S f => if x <? 128 then [n2b x]
           else n2b (x mod 128 + 128) :: uvarint_enc f (x / 128)
  end.

Definition put_uvarint (x : N) : bytes := uvarint_enc 10 x.

(* int64 -> uint64 zig-zag:  ux := uint64(x) << 1; if x < 0 { ux = ^ux } *)
Definition zigzag (x : Z) : N :=
  if (0 <=? x)%Z then Z.to_N (2 * x) else Z.to_N (- 2 * x - 1).

Definition unzigzag (u : N) : Z :=
  if N.even u then Z.of_N (u / 2) else (- Z.of_N (u / 2) - 1)%Z.

Definition put_varint (x : Z) : bytes := put_uvarint (zigzag x).

(* Uvarint(buf) -> (value, n):  n > 0 bytes read; n = 0 buffer too small;
   n < 0 overflow (64 bits exceeded).  [i] = index, [m] = 2^(7i), [x] accumulated. *)
Fixpoint uvarint_dec_aux (i : nat) (m : N) (x : N) (buf : bytes) : N * Z :=
  match buf with
  | [] => (0, 0%Z)
  | b :: rest =>
      if Nat.eqb i 10 then (0, (- (Z.of_nat i + 1))%Z)
      else if b2n b <? 128 then
        if Nat.eqb i 9 && (1 <? b2n b) then (0, (- (Z.of_nat i + 1))%Z)
        else (x + b2n b * m, (Z.of_nat i + 1)%Z)
      else uvarint_dec_aux (S i) (m * 128) (x + (b2n b - 128) * m) rest
  end.

Definition uvarint_dec (buf : bytes) : N * Z := uvarint_dec_aux 0 1 0 buf.

Definition varint_dec (buf : bytes) : Z * Z :=
  let '(u, n) := uvarint_dec buf in (unzigzag u, n).

Definition int64_min : Z := (- 2 ^ 63)%Z.
Definition int64_max : Z := (2 ^ 63 - 1)%Z.
Definition is_int64 (z : Z) : bool := ((int64_min <=? z) && (z <=? int64_max))%Z.
