(* Byte strings: [list byte] with Go's string order (bytewise lexicographic). *)
From Coq Require Export List ZArith NArith Bool Lia.
From Coq.Strings Require Export Byte.
Export ListNotations.

Definition bytes := list byte.

Definition b2n (b : byte) : N := Byte.to_N b.
Definition n2b (n : N) : byte :=
  match Byte.of_N n with Some b => b | None => x00 end.

Definition byte_eqb (a b : byte) : bool := Byte.eqb a b.
Definition byte_ltb (a b : byte) : bool := N.ltb (b2n a) (b2n b).

Fixpoint bytes_eqb (a b : bytes) : bool :=
  match a, b with
  | [], [] => true
  | x :: a', y :: b' => byte_eqb x y && bytes_eqb a' b'
  | _, _ => false
  end.

(* Go: a < b on strings *)
Fixpoint bytes_ltb (a b : bytes) : bool :=
  match a, b with
  | [], [] => false
  | [], _ :: _ => true
  | _ :: _, [] => false
  | x :: a', y :: b' =>
      if byte_ltb x y then true
      else if byte_ltb y x then false
      else bytes_ltb a' b'
  end.

Definition bytes_leb (a b : bytes) : bool := negb (bytes_ltb b a).

Definition blen (a : bytes) : Z := Z.of_nat (length a).

(* zero-filled buffer *)
Definition zeros (n : nat) : bytes := repeat x00 n.

(* Go's copy(dst, src): overwrite a prefix of dst with as much of src as fits *)
Definition gocopy (dst src : bytes) : bytes :=
  firstn (length dst) src ++ skipn (length src) dst.

(* s[a:b] when 0 <= a <= b <= len *)
Definition slice (s : bytes) (a b : nat) : bytes := firstn (b - a) (skipn a s).

Lemma b2n_lt (b : byte) : (b2n b < 256)%N.
Proof. unfold b2n. pose proof (Byte.to_N_bounded b). lia. Qed.

Lemma n2b_b2n (b : byte) : n2b (b2n b) = b.
Proof. unfold n2b, b2n. rewrite Byte.of_to_N. reflexivity. Qed.

Lemma b2n_n2b (n : N) : (n < 256)%N -> b2n (n2b n) = n.
Proof.
  intro H. unfold n2b, b2n.
  destruct (Byte.of_N n) eqn:E.
  - apply Byte.to_of_N in E. exact E.
  - apply Byte.of_N_None_iff in E. lia.
Qed.

Lemma b2n_inj a b : b2n a = b2n b -> a = b.
Proof. intro H. rewrite <- (n2b_b2n a), <- (n2b_b2n b). now rewrite H. Qed.

Lemma byte_eqb_eq a b : byte_eqb a b = true <-> a = b.
Proof.
  unfold byte_eqb. split.
  - apply Byte.byte_dec_bl.
  - apply Byte.byte_dec_lb.
Qed.

Lemma byte_eqb_refl a : byte_eqb a a = true.
Proof. now apply byte_eqb_eq. Qed.

Lemma bytes_eqb_eq a b : bytes_eqb a b = true <-> a = b.
Proof.
  revert b. induction a as [|x a IH]; intros [|y b]; simpl; split; intro H;
    try reflexivity; try discriminate.
  - apply andb_true_iff in H. destruct H as [H1 H2].
    apply byte_eqb_eq in H1. apply IH in H2. now subst.
  - inversion H; subst. rewrite byte_eqb_refl. simpl. now apply IH.
Qed.

Lemma bytes_eqb_refl a : bytes_eqb a a = true.
Proof. now apply bytes_eqb_eq. Qed.

Lemma bytes_eqb_neq a b : bytes_eqb a b = false <-> a <> b.
Proof.
  split; intro H.
  - intro E. apply bytes_eqb_eq in E. congruence.
  - destruct (bytes_eqb a b) eqn:E; [|reflexivity].
    apply bytes_eqb_eq in E. contradiction.
Qed.

Definition bytes_eq_dec (a b : bytes) : {a = b} + {a <> b}.
Proof.
  destruct (bytes_eqb a b) eqn:E.
  - left. now apply bytes_eqb_eq.
  - right. now apply bytes_eqb_neq.
Defined.

Lemma byte_ltb_irrefl a : byte_ltb a a = false.
Proof. unfold byte_ltb. apply N.ltb_irrefl. Qed.

Lemma byte_ltb_trichotomy a b :
  byte_ltb a b = false -> byte_ltb b a = false -> a = b.
Proof.
  unfold byte_ltb. intros H1 H2.
  apply N.ltb_ge in H1. apply N.ltb_ge in H2.
  apply b2n_inj. lia.
Qed.

Lemma bytes_ltb_irrefl a : bytes_ltb a a = false.
Proof.
  induction a as [|x a IH]; simpl; [reflexivity|].
  now rewrite byte_ltb_irrefl.
Qed.

Lemma bytes_ltb_trans a b c :
  bytes_ltb a b = true -> bytes_ltb b c = true -> bytes_ltb a c = true.
Proof.
  revert b c. induction a as [|x a IH]; intros [|y b] [|z c]; simpl; try congruence.
  unfold byte_ltb.
  destruct (N.ltb_spec (b2n x) (b2n y)); destruct (N.ltb_spec (b2n y) (b2n x));
  destruct (N.ltb_spec (b2n y) (b2n z)); destruct (N.ltb_spec (b2n z) (b2n y));
  destruct (N.ltb_spec (b2n x) (b2n z)); destruct (N.ltb_spec (b2n z) (b2n x));
    try congruence; try lia.
  intros. eapply IH; eassumption.
Qed.

Lemma bytes_ltb_antisym a b : bytes_ltb a b = true -> bytes_ltb b a = false.
Proof.
  intro H. destruct (bytes_ltb b a) eqn:E; [|reflexivity].
  pose proof (bytes_ltb_trans _ _ _ H E) as T. rewrite bytes_ltb_irrefl in T. discriminate.
Qed.

Lemma bytes_ltb_total a b :
  bytes_ltb a b = false -> bytes_ltb b a = false -> a = b.
Proof.
  revert b. induction a as [|x a IH]; intros [|y b]; simpl; try congruence.
  destruct (byte_ltb x y) eqn:E1; [discriminate|].
  destruct (byte_ltb y x) eqn:E2; [discriminate|].
  intros H1 H2. pose proof (byte_ltb_trichotomy _ _ E1 E2). subst y.
  f_equal. now apply IH.
Qed.

Lemma gocopy_length dst src : length (gocopy dst src) = length dst.
Proof.
  unfold gocopy. rewrite app_length, firstn_length, skipn_length. lia.
Qed.

Lemma gocopy_fits dst src :
  (length src <= length dst)%nat -> gocopy dst src = src ++ skipn (length src) dst.
Proof. intro H. unfold gocopy. now rewrite firstn_all2. Qed.
