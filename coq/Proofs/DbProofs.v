(* Keyspace (tx.go) lemmas and the string / expiry theorems that rest on them. *)
From Nodis Require Import Base.Bytes Model.Num Model.FMap Model.DsStr Model.Db Model.Api Proofs.FMapProofs.
From Coq Require Import ZArith NArith List Bool Lia.
Local Open Scope Z_scope.

(* ---- heaps ------------------------------------------------------------------------ *)
Lemma nm_get_set_same {A} k (v : A) m : nm_get k (nm_set k v m) = Some v.
Proof.
  induction m as [|[k' v'] r IH]; simpl.
  - now rewrite Nat.eqb_refl.
  - destruct (Nat.eqb k k') eqn:E; simpl; [now rewrite Nat.eqb_refl | now rewrite E].
Qed.
Lemma nm_get_set_other {A} k k0 (v : A) m : k0 <> k -> nm_get k0 (nm_set k v m) = nm_get k0 m.
Proof.
  intro N. induction m as [|[k' v'] r IH]; simpl.
  - apply Nat.eqb_neq in N. now rewrite N.
  - destruct (Nat.eqb k k') eqn:E; simpl.
    + apply Nat.eqb_eq in E. subst k'. apply Nat.eqb_neq in N. now rewrite N.
    + destruct (Nat.eqb k0 k'); auto.
Qed.

Lemma idx_put_get k m d : fm_get k (idx (put_meta k m d)) = Some m.
Proof. unfold put_meta, with_idx. simpl. apply get_set_same. Qed.

(* ---- lookups ----------------------------------------------------------------------- *)
Lemma touch_none k d : fm_get k (idx d) = None -> touch k d = (None, d).
Proof. intro H. unfold touch. now rewrite H. Qed.
Lemma touch_some k d m : fm_get k (idx d) = Some m ->
  touch k d = (Some (meta_with_count m (m_count m + 1)), put_meta k (meta_with_count m (m_count m + 1)) d).
Proof. intro H. unfold touch. now rewrite H. Qed.

Lemma expired_put k m0 m now d : expired m now (put_meta k m0 d) = expired m now d.
Proof. reflexivity. Qed.

(* readKey on a record whose deadline has passed: not ok, whatever the storage holds *)
Lemma read_key_expired k d m now :
  fm_get k (idx d) = Some m -> expired m now d = true ->
  fst (read_key k now d) = None.
Proof.
  intros G E. unfold read_key. rewrite (touch_some _ _ _ G).
  assert (E' : expired (meta_with_count m (m_count m + 1)) now
                       (put_meta k (meta_with_count m (m_count m + 1)) d) = true) by exact E.
  now rewrite E'.
Qed.
Lemma read_key_missing k d now : fm_get k (idx d) = None -> fst (read_key k now d) = None.
Proof. intro G. unfold read_key. now rewrite (touch_none _ _ G). Qed.

(* writeKey with a constructor on an expired record installs a brand-new value and a
   brand-new key object without deadline *)
Lemma write_key_expired k d m now v :
  fm_get k (idx d) = Some m -> expired m now d = true ->
  exists m' d', write_key k (Some v) now d = (Some m', d')
                /\ val_of m' d' = Some v /\ exp_of m' d' = 0 /\ fm_get k (idx d') = Some m'.
Proof.
  intros G E. unfold write_key. rewrite (touch_some _ _ _ G).
  assert (E' : expired (meta_with_count m (m_count m + 1)) now
                       (put_meta k (meta_with_count m (m_count m + 1)) d) = true) by exact E.
  rewrite E'. unfold new_key, alloc_val, alloc_key. cbn.
  eexists. eexists. split; [reflexivity|].
  unfold val_of, exp_of, key_of. cbn. rewrite !Nat.eqb_refl.
  repeat split. apply get_set_same.
Qed.
Lemma write_key_missing k d now v :
  fm_get k (idx d) = None ->
  exists m' d', write_key k (Some v) now d = (Some m', d')
                /\ val_of m' d' = Some v /\ exp_of m' d' = 0 /\ fm_get k (idx d') = Some m'.
Proof.
  intro G. unfold write_key. rewrite (touch_none _ _ G).
  unfold new_key, alloc_val, alloc_key. cbn.
  eexists. eexists. split; [reflexivity|].
  unfold val_of, exp_of, key_of. cbn. rewrite !Nat.eqb_refl.
  repeat split. apply get_set_same.
Qed.
(* without a constructor both are "not ok" *)
Lemma write_key_nil_expired k d m now :
  fm_get k (idx d) = Some m -> expired m now d = true -> fst (write_key k None now d) = None.
Proof.
  intros G E. unfold write_key. rewrite (touch_some _ _ _ G).
  assert (E' : expired (meta_with_count m (m_count m + 1)) now
                       (put_meta k (meta_with_count m (m_count m + 1)) d) = true) by exact E.
  now rewrite E'.
Qed.

(* whatever writeKey returns is the record filed under the key *)
Lemma write_key_some k nv now d m d1 :
  write_key k nv now d = (Some m, d1) -> fm_get k (idx d1) = Some m.
Proof.
  unfold write_key. destruct (touch k d) as [om d0] eqn:T.
  assert (Hnew : forall m0 dd m' d', (match nv with
                                       | Some v => let '(mm, dx) := new_key m0 k v dd in (Some mm, dx)
                                       | None => (None, dd) end) = (Some m', d') -> fm_get k (idx d') = Some m').
  { intros m0 dd m' d'. destruct nv as [v|]; [|discriminate].
    unfold new_key, alloc_val, alloc_key. cbn. intro H. inversion H; subst. apply get_set_same. }
  destruct om as [m0|].
  - destruct (expired m0 now d0); [apply Hnew|].
    destruct (m_val m0) eqn:V.
    + intro H. inversion H; subst. unfold touch in T. destruct (fm_get k (idx d)); inversion T; subst.
      apply idx_put_get.
    + destruct (ss_get m0 d0) as [[o|] d2] eqn:S; [|apply Hnew].
      intro H. inversion H; subst. apply idx_put_get.
  - apply Hnew.
Qed.

(* side effects that do not touch the heaps *)
Lemma kobjs_signal k m d : kobjs (signal k m d) = kobjs d.
Proof. unfold signal. destruct (fm_get k (idx d)) as [mx|]; [destruct (Nat.eqb (m_key mx) (m_key m))|]; reflexivity. Qed.
Lemma vobjs_signal k m d : vobjs (signal k m d) = vobjs d.
Proof. unfold signal. destruct (fm_get k (idx d)) as [mx|]; [destruct (Nat.eqb (m_key mx) (m_key m))|]; reflexivity. Qed.
Lemma kobjs_notify o d : kobjs (notify o d) = kobjs d.
Proof. reflexivity. Qed.
Lemma vobjs_notify o d : vobjs (notify o d) = vobjs d.
Proof. reflexivity. Qed.

(* ---- strings: SET then GET is the identity on every byte string -------------------- *)
Lemma val_of_set_vobj m v d o : m_val m = Some o -> val_of m (set_vobj o v d) = Some v.
Proof. intro H. unfold val_of, set_vobj. rewrite H. cbn. apply nm_get_set_same. Qed.

Theorem set_then_get k v keep now now' d :
  match api_set k v keep now d with
  | Ok _ d' => (keep = false -> fst (match api_get k now' d' with Ok r _ => (Some r, tt) | _ => (None, tt) end) = Some (Some v))
  | Panic _ => True     (* the key holds a value of another type: WRONGTYPE *)
  | Unm => False
  end.
Proof.
  unfold api_set. destruct (write_key k new_str now d) as [[m|] d1] eqn:W.
  2:{ (* a constructor is always given: never "not ok" *)
      unfold write_key, new_str in W. destruct (touch k d) as [[m0|] d0].
      - destruct (expired m0 now d0); [unfold new_key, alloc_val, alloc_key in W; cbn in W; discriminate|].
        destruct (m_val m0); [discriminate|].
        destruct (ss_get m0 d0) as [[o|] d2]; [discriminate|].
        unfold new_key, alloc_val, alloc_key in W; cbn in W; discriminate.
      - unfold new_key, alloc_val, alloc_key in W; cbn in W; discriminate. }
  pose proof (write_key_some _ _ _ _ _ _ W) as G.
  unfold as_str. destruct (val_of m d1) as [[s| | | |]|] eqn:V; try exact I.
  intros ->. cbn [fst].
  assert (Hv : exists o, m_val m = Some o).
  { unfold val_of in V. destruct (m_val m); [eauto|discriminate]. }
  destruct Hv as [o Ho].
  (* the state after SET *)
  set (d2 := set_val_of m (VStr (str_set v s)) d1).
  set (d3 := set_exp m 0 d2).
  set (d' := notify (PSet k v false 0) (signal k m d3)).
  assert (Gi : fm_get k (idx d') = Some (meta_with_mod m true)).
  { unfold d', notify, emit, signal, with_events. cbn [idx].
    assert (G3 : fm_get k (idx d3) = Some m).
    { unfold d3, d2, set_exp, set_kobj, set_val_of. rewrite Ho. exact G. }
    rewrite G3, Nat.eqb_refl. apply idx_put_get. }
  unfold api_get, read_key. rewrite (touch_some _ _ _ Gi).
  set (m1 := meta_with_count (meta_with_mod m true) (m_count (meta_with_mod m true) + 1)).
  assert (Ex : expired m1 now' (put_meta k m1 d') = false).
  { unfold expired, exp_of, key_of.
    change (kobjs (put_meta k m1 d')) with (kobjs d'). change (m_key m1) with (m_key m).
    unfold d'. rewrite kobjs_notify, kobjs_signal. unfold d3, set_exp, set_kobj. cbn [kobjs].
    rewrite nm_get_set_same. reflexivity. }
  rewrite Ex.
  assert (Hm1 : m_val m1 = Some o) by exact Ho.
  rewrite Hm1. unfold as_str, val_of. rewrite Hm1.
  assert (Vo : nm_get o (vobjs (put_meta k m1 d')) = Some (VStr (str_set v s))).
  { change (vobjs (put_meta k m1 d')) with (vobjs d').
    unfold d'. rewrite vobjs_notify, vobjs_signal. unfold d3, set_exp, set_kobj. cbn [vobjs].
    unfold d2, set_val_of. rewrite Ho. unfold set_vobj. cbn [vobjs]. apply nm_get_set_same. }
  rewrite Vo. reflexivity.
Qed.

(* ---- expiry: an expired key answers like a missing one ------------------------------ *)
Lemma api_get_expired k d m now : fm_get k (idx d) = Some m -> expired m now d = true ->
  exists d', api_get k now d = Ok None d'.
Proof.
  intros G E. unfold api_get. pose proof (read_key_expired k d m now G E) as R.
  destruct (read_key k now d) as [[x|] d']; [discriminate|]. eauto.
Qed.
Lemma api_exists_expired k d m now : fm_get k (idx d) = Some m -> expired m now d = true ->
  fst (api_exists [k] now d) = 0.
Proof.
  intros G E. unfold api_exists. pose proof (read_key_expired k d m now G E) as R.
  destruct (read_key k now d) as [[x|] d']; [discriminate|]. reflexivity.
Qed.
Lemma api_pttl_expired k d m now : fm_get k (idx d) = Some m -> expired m now d = true ->
  fst (api_pttl k now d) = -2 /\ fst (api_ttl k now d) = -2.
Proof.
  intros G E. unfold api_pttl, api_ttl. pose proof (read_key_expired k d m now G E) as R.
  destruct (read_key k now d) as [[x|] d']; [discriminate|]. split; reflexivity.
Qed.
Lemma api_type_expired k d m now : fm_get k (idx d) = Some m -> expired m now d = true ->
  fst (api_type k now d) = type_name 0.
Proof.
  intros G E. unfold api_type. pose proof (read_key_expired k d m now G E) as R.
  destruct (read_key k now d) as [[x|] d']; [discriminate|]. reflexivity.
Qed.
Lemma api_keys_expired k d m now pat : fm_get k (idx d) = Some m -> expired m now d = true ->
  sorted (idx d) -> ~ In k (api_keys pat now d).
Proof.
  intros G E S I. unfold api_keys in I. apply in_map_iff in I. destruct I as [[k' m'] [Hk I]].
  simpl in Hk. subst k'. apply filter_In in I. destruct I as [I F].
  apply (get_in k m' (idx d) S) in I. rewrite G in I. inversion I; subst.
  apply andb_true_iff in F. destruct F as [_ F]. simpl in F. rewrite E in F. discriminate.
Qed.
(* before the deadline the record is visible *)
Lemma not_expired_before m now d : now < exp_of m d -> expired m now d = false.
Proof. intro H. unfold expired. apply andb_false_iff. right. lia. Qed.
Lemma no_deadline_never_expires m now d : exp_of m d = 0 -> expired m now d = false.
Proof. intro H. unfold expired. rewrite H. reflexivity. Qed.
Lemma expired_at_deadline m now d : exp_of m d <> 0 -> exp_of m d <= now -> expired m now d = true.
Proof. intros H1 H2. unfold expired. apply andb_true_iff. split; [apply negb_true_iff|]; lia. Qed.
