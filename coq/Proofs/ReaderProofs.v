(* ReadCommand parses exactly what was encoded, for every fragmentation of the stream. *)
From Nodis Require Import Base.Bytes Model.Num Model.Reader Proofs.NumProofs.
From Coq Require Import ZArith NArith List Bool Lia.
Local Open Scope Z_scope.

Lemma win_grow k s : win (grow k s) = win s.
Proof. unfold grow. now destruct (Nat.leb _ _). Qed.
Lemma win_put bs s : win (put bs s) = win s ++ bs.
Proof. reflexivity. Qed.
Lemma win_malloc s : win (malloc s) = [].
Proof. reflexivity. Qed.
Lemma win_reset s : win (rd_reset s) = [].
Proof. reflexivity. Qed.

Lemma firstn_app_len_eq {A} (a b : list A) : firstn (length a) (a ++ b) = a.
Proof. induction a; simpl; [reflexivity|now f_equal]. Qed.

Lemma net_read_one n b rest : stream n = b :: rest ->
  exists n', net_read 1 n = Some ([b], n') /\ stream n' = rest.
Proof.
  intro H. unfold net_read. rewrite H.
  set (offered := match cuts n with c :: _ => c | [] => 1%nat end).
  assert (K : Nat.max 1 (Nat.min (Nat.min offered 1) (length (b :: rest))) = 1%nat) by (cbn [length]; lia).
  rewrite K. eexists. split; reflexivity.
Qed.

Lemma readByte_step s n b rest : stream n = b :: rest ->
  exists s' n', readByte s n = Some (s', n') /\ win s' = win s ++ [b] /\ stream n' = rest.
Proof.
  intro H. unfold readByte. destruct (net_read_one n b rest H) as [n' [R St]]. rewrite R.
  eexists. eexists. split; [reflexivity|]. split; [|exact St]. now rewrite win_put, win_grow.
Qed.

Lemma last_snoc {A} (l : list A) x d : last (l ++ [x]) d = x.
Proof. induction l as [|y r IH]; [reflexivity|]. simpl. destruct (r ++ [x]) eqn:E; [destruct r; discriminate|exact IH]. Qed.

Definition noLF (b : byte) : Prop := byte_eqb b LF = false.

Lemma readLine_loop_spec : forall body fuel s n c rest,
  Forall noLF body -> noLF c -> stream n = body ++ [c; LF] ++ rest ->
  (length body + 2 <= fuel)%nat ->
  exists s' n', readLine_loop fuel s n = Some (s', n') /\ win s' = win s ++ body /\ stream n' = rest.
Proof.
  induction body as [|b body IH]; intros fuel s n c rest Hb Hc Hs Hf.
  - (* c then LF *)
    destruct fuel as [|[|fuel]]; [simpl in Hf; lia | simpl in Hf; lia |].
    cbn [readLine_loop]. cbn [app] in Hs.
    destruct (readByte_step s n c (LF :: rest) Hs) as [s1 [n1 [R1 [W1 S1]]]]. rewrite R1.
    assert (C1 : (Nat.ltb 1 (length (win s1)) && byte_eqb (last (win s1) x00) LF) = false).
    { rewrite W1, last_snoc. unfold noLF in Hc. rewrite Hc. apply andb_false_r. }
    rewrite C1.
    destruct (readByte_step s1 n1 LF rest S1) as [s2 [n2 [R2 [W2 S2]]]]. rewrite R2.
    assert (L2 : length (win s2) = (length (win s) + 2)%nat).
    { rewrite W2, W1, !app_length. cbn [length]. lia. }
    assert (C2 : (Nat.ltb 1 (length (win s2)) && byte_eqb (last (win s2) x00) LF) = true).
    { rewrite W2, last_snoc. apply andb_true_iff. split; [apply Nat.ltb_lt; rewrite <- W2; lia | apply byte_eqb_refl]. }
    rewrite C2. eexists. eexists. split; [reflexivity|]. split; [|exact S2].
    cbn [win]. rewrite L2. replace (length (win s) + 2 - 2)%nat with (length (win s)) by lia.
    rewrite W2, W1, <- app_assoc. rewrite app_nil_r. apply firstn_app_len_eq.
  - destruct fuel as [|fuel]; [simpl in Hf; lia|].
    cbn [readLine_loop]. cbn [app] in Hs.
    destruct (readByte_step s n b (body ++ [c; LF] ++ rest) Hs) as [s1 [n1 [R1 [W1 S1]]]]. rewrite R1.
    inversion Hb as [|? ? Hb1 Hb2]; subst.
    assert (C1 : (Nat.ltb 1 (length (win s1)) && byte_eqb (last (win s1) x00) LF) = false).
    { rewrite W1, last_snoc. unfold noLF in Hb1. rewrite Hb1. apply andb_false_r. }
    rewrite C1.
    destruct (IH fuel s1 n1 c rest Hb2 Hc S1) as [s' [n' [R [W St]]]]; [simpl in Hf; lia|].
    exists s', n'. split; [exact R|]. split; [|exact St]. rewrite W, W1, <- app_assoc. reflexivity.
Qed.

Lemma readLine_spec body s n c rest :
  Forall noLF body -> noLF c -> stream n = body ++ [c; LF] ++ rest ->
  exists s' n', readLine s n = Some (s', n') /\ win s' = win s ++ body /\ stream n' = rest.
Proof.
  intros Hb Hc Hs. unfold readLine. apply (readLine_loop_spec body _ s n c rest Hb Hc Hs).
  rewrite Hs, !app_length. cbn [length]. lia.
Qed.

Lemma CR_noLF : noLF CR.
Proof. reflexivity. Qed.

Lemma readInteger_spec z s n rest :
  0 <= z < two63 -> win s = [] -> stream n = format_int z ++ crlf ++ rest ->
  exists s' n', readInteger s n = Some (Some z, s', n') /\ win s' = [] /\ stream n' = rest.
Proof.
  intros Hz Hw Hs. unfold readInteger.
  destruct (format_int_digits z Hz) as [_ Hd].
  destruct (readLine_spec (format_int z) s n CR rest Hd CR_noLF Hs) as [s' [n' [R [W St]]]].
  rewrite R. rewrite W, Hw. cbn [app]. rewrite parse_format_nonneg by exact Hz.
  eexists. eexists. split; [reflexivity|]. split; [apply win_malloc | exact St].
Qed.

(* readByteN: any fragmentation delivers exactly the next k bytes into the window *)
Lemma readN_loop_spec : forall fuel got todo s n rest,
  win s = got -> stream n = todo ++ rest -> (length todo < fuel)%nat ->
  (todo = [] -> got = []) ->
  exists s' n', readN_loop fuel (length (got ++ todo)) s n = Some (s', n')
                /\ win s' = got ++ todo /\ stream n' = rest.
Proof.
  induction fuel as [|fuel IH]; intros got todo s n rest Hw Hs Hf Hz; [lia|].
  cbn [readN_loop]. rewrite Hw.
  replace (length (got ++ todo) - length got)%nat with (length todo) by (rewrite app_length; lia).
  destruct todo as [|t todo'].
  - (* nothing requested *)
    rewrite (Hz eq_refl) in *. cbn [length app]. unfold net_read.
    eexists. eexists. split; [cbn; reflexivity|]. cbn. split; [now rewrite Hw, app_nil_r|exact Hs].
  - unfold net_read. cbn [length]. rewrite Hs. cbn [app].
    set (offered := match cuts n with c :: _ => c | [] => S (length todo') end).
    set (k := Nat.max 1 (Nat.min (Nat.min offered (S (length todo'))) (length (t :: todo' ++ rest)))).
    assert (Hk : (1 <= k <= S (length todo'))%nat).
    { unfold k. cbn [length]. rewrite app_length. lia. }
    change (t :: todo' ++ rest) with ((t :: todo') ++ rest).
    assert (F : firstn k ((t :: todo') ++ rest) = firstn k (t :: todo')).
    { rewrite firstn_app. replace (k - length (t :: todo'))%nat with 0%nat by (cbn [length]; lia).
      cbn [firstn]. now rewrite app_nil_r. }
    assert (Sk : skipn k ((t :: todo') ++ rest) = skipn k (t :: todo') ++ rest).
    { rewrite skipn_app. replace (k - length (t :: todo'))%nat with 0%nat by (cbn [length]; lia). reflexivity. }
    rewrite F.
    set (bs := firstn k (t :: todo')).
    assert (Lbs : length bs = k) by (unfold bs; rewrite firstn_length; cbn [length]; lia).
    set (s1 := put bs s).
    assert (W1 : win s1 = got ++ bs) by (unfold s1; rewrite win_put, Hw; reflexivity).
    cbn [win put]. fold s1.
    destruct (Nat.ltb (length (win s1)) (length (got ++ t :: todo'))) eqn:E.
    + apply Nat.ltb_lt in E. rewrite W1, !app_length, Lbs in E. cbn [length] in E.
      set (todo2 := skipn k (t :: todo')).
      assert (D : t :: todo' = bs ++ todo2) by (unfold bs, todo2; now rewrite firstn_skipn).
      assert (L2 : length todo2 = (S (length todo') - k)%nat) by (unfold todo2; rewrite skipn_length; reflexivity).
      destruct (IH (got ++ bs) todo2 s1 {| stream := skipn k ((t :: todo') ++ rest); cuts := tl (cuts n);
                                          reqs := S (length todo') :: reqs n |} rest W1) as [s' [n' [R [W St]]]].
      * cbn [stream]. rewrite Sk. reflexivity.
      * cbn [length] in Hf. lia.
      * intro Hn. rewrite Hn in L2. cbn [length] in L2. lia.
      * exists s', n'. split; [|split; [|exact St]].
        -- replace (length (got ++ t :: todo')) with (length ((got ++ bs) ++ todo2))
             by (rewrite D, app_assoc; reflexivity).
           exact R.
        -- rewrite W, D, app_assoc. reflexivity.
    + apply Nat.ltb_ge in E. rewrite W1, !app_length, Lbs in E. cbn [length] in E.
      assert (k = S (length todo')) by lia.
      assert (Hbs : bs = t :: todo') by (unfold bs; apply firstn_all2; cbn [length]; lia).
      eexists. eexists. split; [reflexivity|]. split; [rewrite W1, Hbs; reflexivity|].
      cbn [stream]. rewrite Sk. replace (skipn k (t :: todo')) with (@nil byte); [reflexivity|].
      symmetry. apply skipn_all2. cbn [length]. lia.
Qed.

Lemma readByteN_spec data s n rest :
  win s = [] -> stream n = data ++ rest ->
  exists s' n', readByteN (length data) s n = Some (s', n') /\ win s' = data /\ stream n' = rest.
Proof.
  intros Hw Hs. unfold readByteN.
  destruct (readN_loop_spec (S (length data)) [] data (grow (length data) s) n rest) as [s' [n' [R [W St]]]];
    [now rewrite win_grow | exact Hs | lia | reflexivity |].
  exists s', n'. exact (conj R (conj W St)).
Qed.

Definition arg_ok (a : bytes) : Prop := Z.of_nat (length a) <= max_bulk.

Lemma readBulk_spec a s n rest :
  arg_ok a -> win s = [] -> stream n = enc_bulk a ++ rest ->
  exists s' n', readBulk s n = BVal a s' n' /\ win s' = [] /\ stream n' = rest.
Proof.
  intros Ha Hw Hs. unfold readBulk, enc_bulk in *. cbn [app] in Hs.
  destruct (readByte_step s n x24 _ Hs) as [s1 [n1 [R1 [W1 S1]]]]. rewrite R1, W1, Hw. cbn [app].
  change (byte_eqb x24 x24) with true. cbn [negb].
  assert (Hz : 0 <= Z.of_nat (length a) < two63) by (unfold arg_ok, max_bulk, two63 in *; lia).
  rewrite <- !app_assoc in S1.
  destruct (readInteger_spec _ (malloc s1) n1 _ Hz (win_malloc s1) S1) as [s2 [n2 [R2 [W2 S2]]]].
  rewrite R2.
  assert (C : ((Z.of_nat (length a) <? 0) || (Z.of_nat (length a) >? max_bulk)) = false).
  { unfold arg_ok in Ha. lia. }
  rewrite C.
  assert (Hmin : Z.min (Z.of_nat (length a)) (Z.of_nat (length (stream n2)) + 1) = Z.of_nat (length a)).
  { rewrite S2, app_length. lia. }
  rewrite Hmin. rewrite Nat2Z.id.
  destruct (readByteN_spec a s2 n2 (crlf ++ rest) W2 S2) as [s3 [n3 [R3 [W3 S3]]]]. rewrite R3.
  destruct (readLine_spec [] (malloc s3) n3 CR rest (Forall_nil _) CR_noLF S3) as [s4 [n4 [R4 [W4 S4]]]].
  rewrite R4, W3. eexists. eexists. split; [reflexivity|]. split; [apply win_malloc|exact S4].
Qed.

Lemma read_bulks_spec : forall args s n rest,
  Forall arg_ok args -> win s = [] -> stream n = concat (map enc_bulk args) ++ rest ->
  exists s' n', read_bulks (length args) s n = Some (args, s', n') /\ win s' = [] /\ stream n' = rest.
Proof.
  induction args as [|a args IH]; intros s n rest Hok Hw Hs.
  - cbn. eexists. eexists. split; [reflexivity|]. split; [exact Hw|exact Hs].
  - inversion Hok as [|? ? Ha Hr]; subst. cbn [length read_bulks map concat] in *.
    rewrite <- app_assoc in Hs.
    destruct (readBulk_spec a s n _ Ha Hw Hs) as [s1 [n1 [R1 [W1 S1]]]]. rewrite R1.
    destruct (IH s1 n1 rest Hr W1 S1) as [s2 [n2 [R2 [W2 S2]]]]. rewrite R2.
    eexists. eexists. split; [reflexivity|]. split; [exact W2|exact S2].
Qed.

(* every bulk encoding is at least one byte long *)
Lemma enc_bulks_length args : (length args <= length (concat (map enc_bulk args)))%nat.
Proof.
  induction args as [|a r IH]; [cbn; lia|].
  change (concat (map enc_bulk (a :: r))) with (enc_bulk a ++ concat (map enc_bulk r)).
  rewrite app_length.
  assert (H1 : (1 <= length (enc_bulk a))%nat) by (unfold enc_bulk; cbn [length]; lia).
  cbn [length]. lia.
Qed.

Theorem ReadCommand_spec : forall name args rest s0 cs rq,
  arg_ok name -> Forall arg_ok args -> Z.of_nat (S (length args)) < two63 ->
  exists s' n', ReadCommand s0 {| stream := enc_cmd name args ++ rest; cuts := cs; reqs := rq |}
                = CCmd (cmd_upper name) args s' n' /\ stream n' = rest.
Proof.
  intros name args rest s0 cs rq Hn Ha Hc. unfold ReadCommand, enc_cmd.
  set (n := {| stream := _; cuts := cs; reqs := rq |}).
  assert (Hs : stream n = x2a :: (format_int (Z.of_nat (S (length args))) ++ crlf ++
                                 concat (map enc_bulk (name :: args)) ++ rest)).
  { unfold n. cbn [stream app map concat]. rewrite <- !app_assoc. reflexivity. }
  destruct (readByte_step (rd_reset s0) n x2a _ Hs) as [s1 [n1 [R1 [W1 S1]]]].
  rewrite R1, W1, win_reset. cbn [app]. change (byte_eqb x2a x2a) with true. cbn [negb].
  assert (Hz : 0 <= Z.of_nat (S (length args)) < two63) by lia.
  destruct (readInteger_spec _ (malloc s1) n1 _ Hz (win_malloc s1) S1) as [s2 [n2 [R2 [W2 S2]]]].
  rewrite R2.
  assert (Cp : (Z.of_nat (S (length args)) <=? 0) = false) by lia. rewrite Cp.
  assert (Hmin : Z.min (Z.of_nat (S (length args))) (Z.of_nat (length (stream n2)) + 1) = Z.of_nat (S (length args))).
  { rewrite S2, app_length. pose proof (enc_bulks_length (name :: args)). cbn [length] in *. lia. }
  rewrite Hmin, Nat2Z.id.
  destruct (read_bulks_spec (name :: args) s2 n2 rest (Forall_cons _ Hn Ha) W2 S2) as [s3 [n3 [R3 [W3 S3]]]].
  cbn [length] in R3. rewrite R3. eexists. eexists. split; [reflexivity|exact S3].
Qed.

(* pipelining: the commands of a stream come out one after the other *)
Fixpoint read_many (k : nat) (s : rd) (n : net) : list (bytes * list bytes) * net :=
  match k with
  | O => ([], n)
  | S k' => match ReadCommand s n with
            | CCmd nm args s' n' => let '(l, n'') := read_many k' s' n' in ((nm, args) :: l, n'')
            | _ => ([], n)
            end
  end.
Definition cmd_wf (c : bytes * list bytes) : Prop :=
  arg_ok (fst c) /\ Forall arg_ok (snd c) /\ Z.of_nat (S (length (snd c))) < two63.

Theorem pipeline_spec : forall cmds rest s cs rq,
  Forall cmd_wf cmds ->
  exists n', read_many (length cmds) s {| stream := concat (map (fun c => enc_cmd (fst c) (snd c)) cmds) ++ rest;
                                           cuts := cs; reqs := rq |}
             = (map (fun c => (cmd_upper (fst c), snd c)) cmds, n') /\ stream n' = rest.
Proof.
  induction cmds as [|[nm args] cmds IH]; intros rest s cs rq Hwf.
  - cbn. eexists. split; reflexivity.
  - inversion Hwf as [|? ? [H1 [H2 H3]] Hr]; subst. cbn [length read_many map concat fst snd] in *.
    rewrite <- app_assoc.
    destruct (ReadCommand_spec nm args (concat (map (fun c => enc_cmd (fst c) (snd c)) cmds) ++ rest) s cs rq H1 H2 H3)
      as [s' [n' [R St]]].
    rewrite R. destruct n' as [st' cs' rq']. cbn [stream] in St. subst st'.
    destruct (IH rest s' cs' rq' Hr) as [n'' [R2 S2]]. rewrite R2.
    eexists. split; [reflexivity|exact S2].
Qed.

(* option positions (readOptions): set only by a whole argument equal to the option word
   up to ASCII case *)
From Nodis Require Import Model.FMap Model.Db Model.Api Model.Handlers.
Lemma opt_scan_spec w : forall args j acc,
  opt_scan w args j acc = acc \/
  exists i a, nth_error args i = Some a /\ bytes_eqb (upper a) w = true
              /\ opt_scan w args j acc = j + Z.of_nat i.
Proof.
  induction args as [|a r IH]; intros j acc; cbn [opt_scan]; [now left|].
  destruct (bytes_eqb (upper a) w) eqn:E.
  - destruct (IH (j + 1) j) as [H|[i [x [Hn [Hx Hv]]]]].
    + right. exists 0%nat, a. cbn. repeat split; auto. rewrite H. lia.
    + right. exists (S i), x. cbn. repeat split; auto. rewrite Hv. lia.
  - destruct (IH (j + 1) acc) as [H|[i [x [Hn [Hx Hv]]]]].
    + now left.
    + right. exists (S i), x. cbn. repeat split; auto. rewrite Hv. lia.
Qed.
Theorem option_whole_argument w args :
  opt w args <> 0 -> exists i a, nth_error args i = Some a /\ bytes_eqb (upper a) w = true /\ opt w args = Z.of_nat i.
Proof.
  unfold opt. intro H. destruct (opt_scan_spec w args 0 0) as [E|[i [a [Hn [Ha Hv]]]]]; [congruence|].
  exists i, a. repeat split; auto.
Qed.

(* a frame header announcing an impossible size is rejected before any body byte is read *)
Lemma readInteger_any z s n rest :
  - two63 <= z < two63 -> win s = [] -> stream n = format_int z ++ crlf ++ rest ->
  exists s' n', readInteger s n = Some (Some z, s', n') /\ win s' = [] /\ stream n' = rest.
Proof.
  intros Hz Hw Hs. unfold readInteger.
  destruct (format_int_noLF z Hz) as [_ Hd].
  destruct (readLine_spec (format_int z) s n CR rest Hd CR_noLF Hs) as [s' [n' [R [W St]]]].
  rewrite R. rewrite W, Hw. cbn [app]. rewrite parse_format_int by exact Hz.
  eexists. eexists. split; [reflexivity|]. split; [apply win_malloc | exact St].
Qed.
Theorem oversize_bulk_rejected z s n rest :
  - two63 <= z < two63 -> (z < 0 \/ max_bulk < z) -> win s = [] ->
  stream n = x24 :: format_int z ++ crlf ++ rest ->
  readBulk s n = BErr.
Proof.
  intros Hz Hbad Hw Hs. unfold readBulk.
  destruct (readByte_step s n x24 _ Hs) as [s1 [n1 [R1 [W1 S1]]]]. rewrite R1, W1, Hw. cbn [app].
  change (byte_eqb x24 x24) with true. cbn [negb].
  destruct (readInteger_any z (malloc s1) n1 rest Hz (win_malloc s1) S1) as [s2 [n2 [R2 [W2 S2]]]].
  rewrite R2.
  assert (C : ((z <? 0) || (z >? max_bulk)) = true) by lia. now rewrite C.
Qed.
