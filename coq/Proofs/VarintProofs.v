From Nodis Require Import Base.Bytes Base.Varint.
From Coq Require Import ZArith NArith List Lia ZifyN ZifyNat ZifyBool.
Ltac Zify.zify_post_hook ::= Z.div_mod_to_equations.
Local Open Scope N_scope.

Lemma uvarint_enc_length_pos fuel x : (0 < fuel)%nat -> (1 <= length (uvarint_enc fuel x))%nat.
Proof.
  destruct fuel as [|f]; [lia|]. intros _. simpl.
  destruct (x <? 128); simpl; lia.
Qed.

Lemma uvarint_enc_length_le fuel x : (length (uvarint_enc fuel x) <= fuel)%nat.
Proof.
  revert x. induction fuel as [|f IH]; intro x; simpl; [lia|].
  destruct (x <? 128); simpl; [lia|]. specialize (IH (x / 128)). lia.
Qed.

(* main decoding lemma, generalised over the loop state *)
Lemma uvarint_dec_enc_aux :
  forall fuel i m acc x rest,
    x < 128 ^ N.of_nat fuel ->
    (i + fuel <= 10)%nat -> (0 < fuel)%nat ->
    acc + x * m < 2 ^ 64 ->
    m = 128 ^ N.of_nat i ->
    uvarint_dec_aux i m acc (uvarint_enc fuel x ++ rest)
    = (acc + x * m, (Z.of_nat i + Z.of_nat (length (uvarint_enc fuel x)))%Z).
Proof.
  induction fuel as [|f IH]; intros i m acc x rest Hx Hi Hf Hacc Hm; [lia|].
  cbn [uvarint_enc].
  destruct (x <? 128) eqn:E.
  - apply N.ltb_lt in E. cbn [app uvarint_dec_aux length].
    assert (Hi10 : Nat.eqb i 10 = false) by (apply Nat.eqb_neq; lia).
    rewrite Hi10. rewrite b2n_n2b by lia.
    assert (E' : (x <? 128) = true) by (apply N.ltb_lt; lia). rewrite E'.
    destruct (Nat.eqb i 9) eqn:E9.
    + apply Nat.eqb_eq in E9. subst i.
      assert (Hm9 : m = 2 ^ 63) by (subst m; reflexivity).
      assert (x <= 1).
      { subst m. change (128 ^ N.of_nat 9) with 9223372036854775808 in Hacc.
        change (2 ^ 64) with 18446744073709551616 in Hacc. nia. }
      assert (E1 : (1 <? x) = false) by (apply N.ltb_ge; lia). rewrite E1. simpl andb.
      cbv iota. f_equal; lia.
    + simpl andb. cbv iota. f_equal; lia.
  - apply N.ltb_ge in E.
    cbn [app uvarint_dec_aux].
    assert (Hi10 : Nat.eqb i 10 = false) by (apply Nat.eqb_neq; lia).
    rewrite Hi10.
    assert (Hb : x mod 128 + 128 < 256) by (pose proof (N.mod_lt x 128); lia).
    rewrite b2n_n2b by exact Hb.
    assert (E' : (x mod 128 + 128 <? 128) = false) by (apply N.ltb_ge; lia). rewrite E'.
    destruct f as [|f'].
    { (* fuel 1 but x >= 128: contradiction with Hx *)
      change (128 ^ N.of_nat 1) with 128 in Hx. lia. }
    assert (Hpow : 128 ^ N.of_nat (S (S f')) = 128 * 128 ^ N.of_nat (S f')).
    { rewrite Nnat.Nat2N.inj_succ. rewrite N.pow_succ_r'. reflexivity. }
    assert (Hdm : x = 128 * (x / 128) + x mod 128) by (apply N.div_mod; lia).
    rewrite IH.
    + f_equal.
      * replace (x mod 128 + 128 - 128) with (x mod 128) by lia. nia.
      * cbn [length]. lia.
    + rewrite Hpow in Hx. apply N.div_lt_upper_bound; lia.
    + lia.
    + lia.
    + replace (x mod 128 + 128 - 128) with (x mod 128) by lia. nia.
    + subst m. rewrite Nnat.Nat2N.inj_succ. rewrite N.pow_succ_r'. lia.
Qed.

Theorem uvarint_roundtrip x rest :
  x < 2 ^ 64 ->
  uvarint_dec (put_uvarint x ++ rest) = (x, Z.of_nat (length (put_uvarint x))).
Proof.
  intro H. unfold uvarint_dec, put_uvarint.
  rewrite (uvarint_dec_enc_aux 10 0 1 0 x rest).
  - f_equal; lia.
  - change (128 ^ N.of_nat 10) with 1180591620717411303424.
    change (2 ^ 64) with 18446744073709551616 in H. lia.
  - lia.
  - lia.
  - lia.
  - reflexivity.
Qed.

Lemma put_uvarint_length x : (1 <= length (put_uvarint x) <= 10)%nat.
Proof.
  unfold put_uvarint. split.
  - apply uvarint_enc_length_pos. lia.
  - apply uvarint_enc_length_le.
Qed.

Lemma zigzag_bound z : is_int64 z = true -> zigzag z < 2 ^ 64.
Proof.
  unfold is_int64, int64_min, int64_max, zigzag. intro H.
  change (2 ^ 64) with 18446744073709551616.
  change (2 ^ 63)%Z with 9223372036854775808%Z in H.
  destruct (0 <=? z)%Z eqn:E; lia.
Qed.

Lemma unzigzag_zigzag z : unzigzag (zigzag z) = z.
Proof.
  unfold unzigzag, zigzag.
  destruct (0 <=? z)%Z eqn:E.
  - assert (Hev : N.even (Z.to_N (2 * z)) = true).
    { rewrite N.even_spec. exists (Z.to_N z). lia. }
    rewrite Hev. lia.
  - assert (Hev : N.even (Z.to_N (- 2 * z - 1)) = false).
    { rewrite <- N.negb_odd. assert (Ho : N.odd (Z.to_N (-2 * z - 1)) = true).
      { rewrite N.odd_spec. exists (Z.to_N (- z - 1)). lia. }
      now rewrite Ho. }
    rewrite Hev. lia.
Qed.

Theorem varint_roundtrip z rest :
  is_int64 z = true ->
  varint_dec (put_varint z ++ rest) = (z, Z.of_nat (length (put_varint z))).
Proof.
  intro H. unfold varint_dec, put_varint.
  rewrite uvarint_roundtrip by (now apply zigzag_bound).
  now rewrite unzigzag_zigzag.
Qed.

Lemma put_varint_length z : (1 <= length (put_varint z) <= 10)%nat.
Proof. apply put_uvarint_length. Qed.

(* Self-delimiting: equal streams that start with two encodings have equal heads. *)
Theorem varint_prefix_free a b r1 r2 :
  is_int64 a = true -> is_int64 b = true ->
  put_varint a ++ r1 = put_varint b ++ r2 -> a = b /\ r1 = r2.
Proof.
  intros Ha Hb E.
  pose proof (varint_roundtrip a r1 Ha) as Da.
  pose proof (varint_roundtrip b r2 Hb) as Db.
  rewrite E in Da. rewrite Da in Db. inversion Db as [[Hab Hlen]]. subst b.
  split; [reflexivity|]. now apply app_inv_head in E.
Qed.

(* length of the encoding of a small non-negative number: what the codecs rely on *)
Lemma put_varint_len_small z : (0 <= z < 64)%Z -> length (put_varint z) = 1%nat.
Proof.
  intro H. unfold put_varint, put_uvarint, zigzag.
  assert (E : (0 <=? z)%Z = true) by lia. rewrite E.
  cbn [uvarint_enc].
  assert (E2 : (Z.to_N (2 * z) <? 128) = true) by (apply N.ltb_lt; lia).
  now rewrite E2.
Qed.
