(* C16, histories: a pipeline of k commands - on any connections, in any MULTI/WATCH state - yields
   a reply stream that is the concatenation of k values, the i-th written by the i-th command. *)
From Nodis Require Import Base.Bytes Model.Db Model.Handlers Model.Conn Proofs.ReplyProofs Proofs.HandlerReplyProofs.
From Coq Require Import ZArith List Bool Lia.
Import ListNotations.
Local Open Scope Z_scope.

Record req := { r_conn : nat; r_name : bytes; r_args : list bytes; r_now : Z }.

(* the commands are served one after the other; the writes of each are kept apart *)
Fixpoint serve_all (rs : list req) (s : server) : option (server * list (list wact)) :=
  match rs with
  | [] => Some (s, [])
  | r :: rest =>
      match serve (r_conn r) (r_name r) (r_args r) (r_now r) s with
      | None => None
      | Some (s1, a) =>
          match serve_all rest s1 with
          | None => None
          | Some (s2, b) => Some (s2, a :: b)
          end
      end
  end.

Lemma serve_all_each : forall rs s s' replies,
  server_ok s -> serve_all rs s = Some (s', replies) ->
  length replies = length rs /\ Forall (fun a => one_value a = true) replies /\ server_ok s'.
Proof.
  induction rs as [|r rest IH]; intros s s' replies Hs; cbn [serve_all].
  - intro H. inversion H; subst. repeat split; [constructor|exact Hs].
  - destruct (serve (r_conn r) (r_name r) (r_args r) (r_now r) s) as [[s1 a]|] eqn:E; [|discriminate].
    destruct (serve_one _ _ _ _ _ _ _ Hs E) as [Ha Hs1].
    destruct (serve_all rest s1) as [[s2 b]|] eqn:E2; [|discriminate].
    intro H. inversion H; subst.
    destruct (IH s1 s' b Hs1 E2) as [Hl [Hf Hok]].
    repeat split; [cbn [length]; now rewrite Hl|constructor; assumption|exact Hok].
Qed.

(* a stream made of k values leaves nothing expected when k values are expected *)
Lemma consume_values : forall replies p,
  Forall (fun a => one_value a = true) replies -> Z.of_nat (length replies) <= p ->
  consume p (concat replies) = Some (p - Z.of_nat (length replies)).
Proof.
  induction replies as [|a r IH]; intros p Hf Hp; cbn [concat length].
  - cbn [consume]. f_equal. cbn. lia.
  - inversion Hf as [|? ? Ha Hr]; subst. cbn [length] in Hp. rewrite Nat2Z.inj_succ in Hp.
    rewrite consume_app. rewrite (one_then p a Ha) by lia.
    rewrite IH by (auto; lia). f_equal. rewrite Nat2Z.inj_succ. lia.
Qed.

Theorem pipeline_values : forall rs s s' replies,
  server_ok s -> serve_all rs s = Some (s', replies) ->
  length replies = length rs /\ Forall (fun a => one_value a = true) replies /\
  consume (Z.of_nat (length rs)) (concat replies) = Some 0 /\ server_ok s'.
Proof.
  intros rs s s' replies Hs H. destruct (serve_all_each rs s s' replies Hs H) as [Hl [Hf Hok]].
  repeat split; try assumption.
  rewrite <- Hl. rewrite consume_values by (auto; lia). f_equal. lia.
Qed.

(* k commands followed by a marker: the marker's reply is exactly what remains after k values *)
Theorem pipeline_marker : forall rs m s s' replies,
  server_ok s -> serve_all (rs ++ [m]) s = Some (s', replies) ->
  exists front last, replies = front ++ [last] /\ length front = length rs /\
    consume (Z.of_nat (length rs)) (concat front) = Some 0 /\ one_value last = true.
Proof.
  intros rs m s s' replies Hs H.
  destruct (serve_all_each _ _ _ _ Hs H) as [Hl [Hf _]].
  rewrite app_length in Hl. cbn [length] in Hl.
  destruct (exists_last (l := replies)) as [front [last ->]].
  { intro E. subst. cbn in Hl. lia. }
  rewrite app_length in Hl. cbn [length] in Hl.
  apply Forall_app in Hf. destruct Hf as [Hff Hfl]. inversion Hfl; subst.
  exists front, last. repeat split; [lia| |assumption].
  replace (length rs) with (length front) by lia. rewrite consume_values by (auto; lia). f_equal. lia.
Qed.
