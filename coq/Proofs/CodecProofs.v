From Nodis Require Import Base.Bytes Base.Varint Model.Codec Proofs.VarintProofs.
From Coq Require Import ZArith NArith List Lia ZifyN ZifyNat ZifyBool.
Ltac Zify.zify_post_hook ::= Z.div_mod_to_equations.
Local Open Scope Z_scope.

Definition len_ok (r : bytes) : Prop := blen r <= int64_max.

Lemma len_ok_int64 r : len_ok r -> is_int64 (blen r) = true.
Proof.
  unfold len_ok, is_int64, int64_min, int64_max, blen. intro H.
  change (2 ^ 63) with 9223372036854775808 in *. lia.
Qed.

Lemma blen_app a b : blen (a ++ b) = blen a + blen b.
Proof. unfold blen. rewrite app_length. lia. Qed.
Lemma blen_nonneg a : 0 <= blen a.
Proof. unfold blen. lia. Qed.

(* ---- key ---------------------------------------------------------------- *)
Lemma skipn_app_exact {A} (a b : list A) : skipn (length a) (a ++ b) = b.
Proof. induction a; simpl; auto. Qed.

Lemma firstn_app_exact {A} (a b : list A) : firstn (length a) (a ++ b) = a.
Proof. induction a; simpl; auto. now f_equal. Qed.

Lemma skipn_app_len {A} n (a b : list A) : length a = n -> skipn n (a ++ b) = b.
Proof. intros <-. apply skipn_app_exact. Qed.
Lemma firstn_app_len {A} n (a b : list A) : length a = n -> firstn n (a ++ b) = a.
Proof. intros <-. apply firstn_app_exact. Qed.

Theorem key_roundtrip name exp :
  is_int64 exp = true -> key_dec (key_enc name exp) = Some (name, exp).
Proof.
  intro H. unfold key_dec, key_enc.
  pose proof (put_varint_length exp) as L.
  destruct (put_varint exp ++ name) eqn:E.
  - apply (f_equal (@length byte)) in E. rewrite app_length in E. simpl in E. lia.
  - rewrite <- E. rewrite varint_roundtrip by exact H.
    assert (Hn : (Z.of_nat (length (put_varint exp)) <=? 0) = false) by lia.
    rewrite Hn. rewrite Nat2Z.id. now rewrite skipn_app_exact.
Qed.

Theorem key_injective n1 e1 n2 e2 :
  is_int64 e1 = true -> is_int64 e2 = true ->
  key_enc n1 e1 = key_enc n2 e2 -> n1 = n2 /\ e1 = e2.
Proof.
  intros H1 H2 E. unfold key_enc in E.
  destruct (varint_prefix_free _ _ _ _ H1 H2 E). now split.
Qed.

(* ---- envelope ----------------------------------------------------------- *)
Theorem entry_roundtrip t p : entry_dec (entry_enc t p) = Some (t, p).
Proof. reflexivity. Qed.

(* ---- record streams ----------------------------------------------------- *)
Lemma rec_enc_length r : (1 <= length (rec_enc r))%nat.
Proof. unfold rec_enc. rewrite app_length. pose proof (put_varint_length (blen r)). lia. Qed.

Lemma recs_dec_nonempty f buf :
  buf <> [] ->
  recs_dec (S f) buf =
    let '(l, n) := varint_dec buf in
    if (n <=? 0) || (l <? 0) || (blen buf <? n + l) then None
    else match recs_dec f (skipn (Z.to_nat (n + l)) buf) with
         | Some rs => Some (firstn (Z.to_nat l) (skipn (Z.to_nat n) buf) :: rs)
         | None => None
         end.
Proof. destruct buf; [congruence|reflexivity]. Qed.

Lemma recs_dec_enc :
  forall rs fuel,
    Forall len_ok rs ->
    (length (recs_enc rs) < fuel)%nat ->
    recs_dec fuel (recs_enc rs) = Some rs.
Proof.
  induction rs as [|r rs IH]; intros fuel Hok Hf.
  - destruct fuel; [simpl in Hf; lia|]. reflexivity.
  - destruct fuel as [|f]; [lia|].
    inversion Hok as [|? ? Hr Hrs]; subst.
    assert (Ecat : recs_enc (r :: rs) = rec_enc r ++ recs_enc rs) by reflexivity.
    rewrite Ecat in *.
    pose proof (rec_enc_length r) as Hl.
    rewrite recs_dec_nonempty.
    2:{ intro Hb. apply (f_equal (@length byte)) in Hb. rewrite app_length in Hb. simpl in Hb. lia. }
    set (n := length (put_varint (blen r))).
    pose proof (put_varint_length (blen r)) as Ln. fold n in Ln.
    assert (Hrl : length (rec_enc r) = (n + length r)%nat).
    { unfold rec_enc. rewrite app_length. reflexivity. }
    assert (Hv : varint_dec (rec_enc r ++ recs_enc rs) = (blen r, Z.of_nat n)).
    { unfold rec_enc. rewrite <- app_assoc. apply varint_roundtrip. now apply len_ok_int64. }
    rewrite Hv.
    assert (C : ((Z.of_nat n <=? 0) || (blen r <? 0)
                 || (blen (rec_enc r ++ recs_enc rs) <? Z.of_nat n + blen r)) = false).
    { unfold blen. rewrite app_length, Hrl. lia. }
    rewrite C.
    assert (E2 : skipn (Z.to_nat (Z.of_nat n + blen r)) (rec_enc r ++ recs_enc rs) = recs_enc rs).
    { replace (Z.to_nat (Z.of_nat n + blen r)) with (length (rec_enc r)).
      - apply skipn_app_exact.
      - unfold blen. lia. }
    rewrite E2.
    assert (E1 : firstn (Z.to_nat (blen r)) (skipn (Z.to_nat (Z.of_nat n)) (rec_enc r ++ recs_enc rs)) = r).
    { rewrite Nat2Z.id. unfold rec_enc. rewrite <- app_assoc.
      unfold n. rewrite skipn_app_exact. unfold blen. rewrite Nat2Z.id. apply firstn_app_exact. }
    rewrite E1.
    rewrite IH; auto.
    rewrite app_length in Hf. lia.
Qed.

Theorem recs_roundtrip rs : Forall len_ok rs -> recs_decode (recs_enc rs) = Some rs.
Proof. intro H. unfold recs_decode. apply recs_dec_enc; auto. Qed.

Theorem str_roundtrip v : str_dec (str_enc v) = v.
Proof. reflexivity. Qed.

Theorem list_roundtrip xs : Forall len_ok xs -> list_dec (list_enc xs) = Some xs.
Proof. apply recs_roundtrip. Qed.

Theorem set_roundtrip ms : Forall len_ok ms -> set_dec (set_enc ms) = Some ms.
Proof. apply recs_roundtrip. Qed.

(* ---- hash --------------------------------------------------------------- *)
Lemma pair_roundtrip k v : len_ok k -> pair_dec (pair_enc (k, v)) = Some (k, v).
Proof.
  intro H. unfold pair_dec, pair_enc. cbn [fst snd].
  rewrite varint_roundtrip by (now apply len_ok_int64).
  set (n := length (put_varint (blen k))).
  pose proof (put_varint_length (blen k)) as Ln. fold n in Ln.
  assert (C : ((Z.of_nat n <=? 0) || (blen k <? 0)
               || (blen (put_varint (blen k) ++ k ++ v) <? Z.of_nat n + blen k)) = false).
  { assert (Hn : blen (put_varint (blen k)) = Z.of_nat n) by reflexivity.
    rewrite !blen_app, Hn. pose proof (blen_nonneg k). pose proof (blen_nonneg v). lia. }
  rewrite C. rewrite Nat2Z.id. unfold n. rewrite skipn_app_exact.
  unfold blen. rewrite Nat2Z.id. now rewrite firstn_app_exact, skipn_app_exact.
Qed.

Lemma map_opt_roundtrip {A B} (enc : A -> B) (dec : B -> option A) (P : A -> Prop) l :
  (forall a, P a -> dec (enc a) = Some a) -> Forall P l ->
  map_opt dec (map enc l) = Some l.
Proof.
  intros Hrt. induction 1 as [|a l Ha Hl IH]; simpl; [reflexivity|].
  now rewrite (Hrt a Ha), IH.
Qed.

Definition pair_ok (kv : bytes * bytes) : Prop :=
  len_ok (fst kv) /\ len_ok (pair_enc kv).

Theorem hash_roundtrip kvs : Forall pair_ok kvs -> hash_dec (hash_enc kvs) = Some kvs.
Proof.
  intro H. unfold hash_dec, hash_enc.
  rewrite recs_roundtrip.
  - apply (map_opt_roundtrip pair_enc pair_dec pair_ok); auto.
    intros [k v] [Hk _]. now apply pair_roundtrip.
  - apply Forall_map. eapply Forall_impl; [|exact H]. intros a [_ Ha]. exact Ha.
Qed.

(* ---- zset --------------------------------------------------------------- *)
Lemma lebytes_enc_length k x : List.length (lebytes_enc k x) = k.
Proof. revert x. induction k; intro x; simpl; auto. Qed.

Lemma le_roundtrip k x : (x < 256 ^ N.of_nat k)%N -> lebytes_dec (lebytes_enc k x) = x.
Proof.
  revert x. induction k as [|k IH]; intros x H.
  - simpl in *. lia.
  - cbn [lebytes_enc lebytes_dec].
    assert (Hm : (x mod 256 < 256)%N) by (apply N.mod_lt; lia).
    rewrite b2n_n2b by exact Hm.
    rewrite IH.
    + pose proof (N.div_mod x 256). lia.
    + rewrite Nnat.Nat2N.inj_succ, N.pow_succ_r' in H.
      apply N.div_lt_upper_bound; lia.
Qed.

Definition item_ok (it : N * bytes) : Prop :=
  (fst it < 2 ^ 64)%N /\ len_ok (item_enc it).

Lemma item_roundtrip it : (fst it < 2 ^ 64)%N -> item_dec (item_enc it) = Some it.
Proof.
  destruct it as [s m]. cbn [fst]. intro H. unfold item_dec, item_enc. cbn [fst snd].
  assert (L : length (lebytes_enc 8 s) = 8%nat) by apply lebytes_enc_length.
  assert (C : (blen (lebytes_enc 8 s ++ m) <? 8) = false).
  { unfold blen. rewrite app_length, L. lia. }
  rewrite C.
  rewrite (firstn_app_len 8) by exact L. rewrite (skipn_app_len 8) by exact L.
  rewrite le_roundtrip; [reflexivity|].
  change (256 ^ N.of_nat 8)%N with (2 ^ 64)%N. exact H.
Qed.

Theorem zset_roundtrip its : Forall item_ok its -> zset_dec (zset_enc its) = Some its.
Proof.
  intro H. unfold zset_dec, zset_enc.
  rewrite recs_roundtrip.
  - apply (map_opt_roundtrip item_enc item_dec item_ok); auto.
    intros it [Hs _]. now apply item_roundtrip.
  - apply Forall_map. eapply Forall_impl; [|exact H]. intros a [_ Ha]. exact Ha.
Qed.

(* ---- concrete non-vacuity ------------------------------------------------ *)
Example key_example :
  key_dec (key_enc [x6b] 0) = Some ([x6b], 0)
  /\ key_dec (key_enc [] (2 ^ 62)) = Some ([], 2 ^ 62)
  /\ length (key_enc [x6b] (2 ^ 62)) = 11%nat.
Proof. vm_compute. auto. Qed.

Example set_example_64 :
  set_dec (set_enc [repeat x41 64; []; repeat x00 63])
  = Some [repeat x41 64; []; repeat x00 63].
Proof. vm_compute. reflexivity. Qed.
