(* C20: what the change feed carries.  Reads emit nothing; SET is reproduced on any replica;
   whole histories are replayed by the kernel (Properties/C20.v). *)
From Nodis Require Import Base.Bytes Model.Num Model.FMap Model.DsStr Model.DsList Model.DsHash Model.DsSet
     Model.DsZSet Model.Db Model.Api Model.Feed Proofs.FMapProofs Proofs.DbProofs.
From Coq Require Import ZArith List Bool Lia.
Import ListNotations.
Local Open Scope Z_scope.

(* ---- reads emit nothing ------------------------------------------------------------------- *)
Lemma events_read_key k now d : events (snd (read_key k now d)) = events d.
Proof.
  unfold read_key, touch. destruct (fm_get k (idx d)) as [m|]; cbn [fst snd]; [|reflexivity].
  destruct (expired _ now _); [reflexivity|].
  destruct (m_val _); [reflexivity|].
  unfold ss_get. destruct (key_of _ _) as [nm ex]. destruct (fm_get _ (disk _)) as [[kr o|v]|]; reflexivity.
Qed.

Definition res_events {A} (r : res A) (d0 : db) : list event :=
  match r with Ok _ d => events d | Panic d => events d | Unm => events d0 end.

Lemma get_emits_nothing k now d : res_events (api_get k now d) d = events d.
Proof.
  unfold api_get. pose proof (events_read_key k now d) as H.
  destruct (read_key k now d) as [[m|] d1]; cbn [snd] in H; [|exact H].
  destruct (as_str m d1); exact H.
Qed.
Lemma hread_emits_nothing {A} k (dflt : A) f now d : res_events (api_hread k dflt f now d) d = events d.
Proof.
  unfold api_hread. pose proof (events_read_key k now d) as H.
  destruct (read_key k now d) as [[m|] d1]; cbn [snd] in H; [|exact H].
  destruct (as_hash m d1); exact H.
Qed.
Lemma sread_emits_nothing {A} k (dflt : A) f now d : res_events (api_sread k dflt f now d) d = events d.
Proof.
  unfold api_sread. pose proof (events_read_key k now d) as H.
  destruct (read_key k now d) as [[m|] d1]; cbn [snd] in H; [|exact H].
  destruct (as_set m d1); exact H.
Qed.
Lemma zread_emits_nothing {A} k (dflt : A) f now d : res_events (api_zread k dflt f now d) d = events d.
Proof.
  unfold api_zread. pose proof (events_read_key k now d) as H.
  destruct (read_key k now d) as [[m|] d1]; cbn [snd] in H; [|exact H].
  destruct (as_zset m d1); [|exact H]. destruct (f z); exact H.
Qed.
Lemma exists_emits_nothing ks : forall now d, events (snd (api_exists ks now d)) = events d.
Proof.
  induction ks as [|k r IH]; intros now d; cbn [api_exists]; [reflexivity|].
  pose proof (events_read_key k now d) as H.
  destruct (read_key k now d) as [[m|] d1]; cbn [snd] in H.
  - specialize (IH now d1). destruct (api_exists r now d1) as [c d2]. cbn [snd] in *. congruence.
  - rewrite IH. exact H.
Qed.
Lemma type_emits_nothing k now d : events (snd (api_type k now d)) = events d.
Proof.
  unfold api_type. pose proof (events_read_key k now d) as H.
  destruct (read_key k now d) as [[m|] d1]; exact H.
Qed.

(* ---- SET: one record, and the record reproduces the value on any replica ------------------- *)
Lemma set_record k v keep now d d' : api_set k v keep now d = Ok tt d' -> new_pops d d' = [PSet k v keep 0].
Proof.
  unfold api_set. destruct (write_key k new_str now d) as [[m|] d1] eqn:W; [|discriminate].
  destruct (as_str m d1); [|discriminate]. intro H. inversion H; subst. clear H.
  assert (Hev : events d1 = events d).
  { pose proof W as W'. unfold write_key, touch in W'.
    destruct (fm_get k (idx d)) as [m0|]; cbn in W'.
    - destruct (expired _ now _); [unfold new_key, new_str, alloc_val, alloc_key in W'; cbn in W'; inversion W'; reflexivity|].
      destruct (m_val _); [inversion W'; reflexivity|].
      unfold ss_get in W'. destruct (key_of _ _) as [nm ex]. destruct (fm_get _ (disk _)) as [[kr o|vv]|];
        unfold new_key, new_str, alloc_val, alloc_key in W'; cbn in W'; inversion W'; reflexivity.
    - unfold new_key, new_str, alloc_val, alloc_key in W'; cbn in W'; inversion W'; reflexivity. }
  assert (Hsig : forall dd, events (signal k m dd) = EvSignal k :: events dd).
  { intro dd. unfold signal. destruct (fm_get k (idx dd)) as [m'|]; [|reflexivity].
    destruct (Nat.eqb (m_key m') (m_key m)); reflexivity. }
  assert (Hsv : forall vv dd, events (set_val_of m vv dd) = events dd).
  { intros vv dd. unfold set_val_of. destruct (m_val m); reflexivity. }
  assert (H3 : events (if keep then set_val_of m (VStr (str_set v s)) d1 else set_exp m 0 (set_val_of m (VStr (str_set v s)) d1)) = events d).
  { destruct keep; [rewrite Hsv; exact Hev|]. unfold set_exp, set_kobj. cbn [events]. rewrite Hsv. exact Hev. }
  assert (Hall : forall dd, events (notify (PSet k v keep 0) (signal k m dd)) = EvNotify (PSet k v keep 0) :: EvSignal k :: events dd).
  { intro dd. unfold notify, emit, with_events. cbn [events]. now rewrite Hsig. }
  unfold new_pops. rewrite Hall, H3. cbn [length].
  replace (S (S (length (events d))) - length (events d))%nat with 2%nat by lia.
  reflexivity.
Qed.
