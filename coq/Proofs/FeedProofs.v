(* C20: what the change feed carries.  Reads emit nothing; SET is reproduced on any replica;
   whole histories are replayed by the kernel (Properties/C20.v). *)
From Nodis Require Import Base.Bytes Model.Num Model.FMap Model.DsStr Model.DsList Model.DsHash Model.DsSet
     Model.DsZSet Model.Db Model.Api Model.Feed Proofs.FMapProofs Proofs.DbProofs.
From Coq Require Import ZArith List Bool Lia.
Import ListNotations.
Local Open Scope Z_scope.

(* ---- reads emit nothing ------------------------------------------------------------------- *)
Lemma events_read_key k now d : events (snd (read_key k now d)) = events d.
Proof.
  unfold read_key, touch. destruct (fm_get k (idx d)) as [m|]; cbn [fst snd]; [|reflexivity].
  destruct (expired _ now _); [reflexivity|].
  destruct (m_val _); [reflexivity|].
  unfold ss_get. destruct (key_of _ _) as [nm ex]. destruct (fm_get _ (disk _)) as [[kr o|v]|]; reflexivity.
Qed.

Definition res_events {A} (r : res A) (d0 : db) : list event :=
  match r with Ok _ d => events d | Panic d => events d | Unm => events d0 end.

Lemma get_emits_nothing k now d : res_events (api_get k now d) d = events d.
Proof.
  unfold api_get. pose proof (events_read_key k now d) as H.
  destruct (read_key k now d) as [[m|] d1]; cbn [snd] in H; [|exact H].
  destruct (as_str m d1); exact H.
Qed.
Lemma hread_emits_nothing {A} k (dflt : A) f now d : res_events (api_hread k dflt f now d) d = events d.
Proof.
  unfold api_hread. pose proof (events_read_key k now d) as H.
  destruct (read_key k now d) as [[m|] d1]; cbn [snd] in H; [|exact H].
  destruct (as_hash m d1); exact H.
Qed.
Lemma sread_emits_nothing {A} k (dflt : A) f now d : res_events (api_sread k dflt f now d) d = events d.
Proof.
  unfold api_sread. pose proof (events_read_key k now d) as H.
  destruct (read_key k now d) as [[m|] d1]; cbn [snd] in H; [|exact H].
  destruct (as_set m d1); exact H.
Qed.
Lemma zread_emits_nothing {A} k (dflt : A) f now d : res_events (api_zread k dflt f now d) d = events d.
Proof.
  unfold api_zread. pose proof (events_read_key k now d) as H.
  destruct (read_key k now d) as [[m|] d1]; cbn [snd] in H; [|exact H].
  destruct (as_zset m d1); [|exact H]. destruct (f z); exact H.
Qed.
Lemma exists_emits_nothing ks : forall now d, events (snd (api_exists ks now d)) = events d.
Proof.
  induction ks as [|k r IH]; intros now d; cbn [api_exists]; [reflexivity|].
  pose proof (events_read_key k now d) as H.
  destruct (read_key k now d) as [[m|] d1]; cbn [snd] in H.
  - specialize (IH now d1). destruct (api_exists r now d1) as [c d2]. cbn [snd] in *. congruence.
  - rewrite IH. exact H.
Qed.
Lemma type_emits_nothing k now d : events (snd (api_type k now d)) = events d.
Proof.
  unfold api_type. pose proof (events_read_key k now d) as H.
  destruct (read_key k now d) as [[m|] d1]; exact H.
Qed.

(* ---- SET: one record, and the record reproduces the value on any replica ------------------- *)
Lemma set_record k v keep now d d' : api_set k v keep now d = Ok tt d' -> new_pops d d' = [PSet k v keep 0].
Proof.
  unfold api_set. destruct (write_key k new_str now d) as [[m|] d1] eqn:W; [|discriminate].
  destruct (as_str m d1); [|discriminate]. intro H. inversion H; subst. clear H.
  assert (Hev : events d1 = events d).
  { pose proof W as W'. unfold write_key, touch in W'.
    destruct (fm_get k (idx d)) as [m0|]; cbn in W'.
    - destruct (expired _ now _); [unfold new_key, new_str, alloc_val, alloc_key in W'; cbn in W'; inversion W'; reflexivity|].
      destruct (m_val _); [inversion W'; reflexivity|].
      unfold ss_get in W'. destruct (key_of _ _) as [nm ex]. destruct (fm_get _ (disk _)) as [[kr o|vv]|];
        unfold new_key, new_str, alloc_val, alloc_key in W'; cbn in W'; inversion W'; reflexivity.
    - unfold new_key, new_str, alloc_val, alloc_key in W'; cbn in W'; inversion W'; reflexivity. }
  assert (Hsig : forall dd, events (signal k m dd) = EvSignal k :: events dd).
  { intro dd. unfold signal. destruct (fm_get k (idx dd)) as [m'|]; [|reflexivity].
    destruct (Nat.eqb (m_key m') (m_key m)); reflexivity. }
  assert (Hsv : forall vv dd, events (set_val_of m vv dd) = events dd).
  { intros vv dd. unfold set_val_of. destruct (m_val m); reflexivity. }
  assert (H3 : events (if keep then set_val_of m (VStr (str_set v s)) d1 else set_exp m 0 (set_val_of m (VStr (str_set v s)) d1)) = events d).
  { destruct keep; [rewrite Hsv; exact Hev|]. unfold set_exp, set_kobj. cbn [events]. rewrite Hsv. exact Hev. }
  assert (Hall : forall dd, events (notify (PSet k v keep 0) (signal k m dd)) = EvNotify (PSet k v keep 0) :: EvSignal k :: events dd).
  { intro dd. unfold notify, emit, with_events. cbn [events]. now rewrite Hsig. }
  unfold new_pops. rewrite Hall, H3. cbn [length].
  replace (S (S (length (events d))) - length (events d))%nat with 2%nat by lia.
  reflexivity.
Qed.

(* ---- the other principal writers: exactly one record, with the arguments of the command -------- *)
Lemma events_write_key k nv now d : events (snd (write_key k nv now d)) = events d.
Proof.
  unfold write_key, touch. destruct (fm_get k (idx d)) as [m0|]; cbn [fst snd].
  - destruct (expired _ now _).
    { destruct nv; [unfold new_key, alloc_val, alloc_key; destruct m0; cbn; reflexivity|reflexivity]. }
    destruct (m_val _); [reflexivity|].
    unfold ss_get. destruct (key_of _ _) as [nm ex]. destruct (fm_get _ (disk _)) as [[kr o|vv]|];
      try (destruct nv; [unfold new_key, alloc_val, alloc_key; cbn; reflexivity|reflexivity]); reflexivity.
  - destruct nv; [unfold new_key, alloc_val, alloc_key; cbn; reflexivity|reflexivity].
Qed.

Lemma events_signal k m dd : events (signal k m dd) = EvSignal k :: events dd.
Proof.
  unfold signal. destruct (fm_get k (idx dd)) as [m'|]; [|reflexivity].
  destruct (Nat.eqb (m_key m') (m_key m)); reflexivity.
Qed.
Lemma events_set_val_of m vv dd : events (set_val_of m vv dd) = events dd.
Proof. unfold set_val_of. destruct (m_val m); reflexivity. Qed.

Lemma one_record p k ev d : events ev = events d ->
  forall m, new_pops d (notify p (signal k m ev)) = [p].
Proof.
  intros He m. unfold new_pops, notify, emit, with_events. cbn [events]. rewrite events_signal, He. cbn [length].
  replace (S (S (length (events d))) - length (events d))%nat with 2%nat by lia. reflexivity.
Qed.

Lemma hset_record k f v now d n d' : api_hset k f v now d = Ok n d' -> new_pops d d' = [PHSet k f v].
Proof.
  unfold api_hset. pose proof (events_write_key k new_hash now d) as W.
  destruct (write_key k new_hash now d) as [[m|] d1]; [|discriminate]. cbn [snd] in W.
  destruct (as_hash m d1); [|discriminate]. destruct (hash_hset f v h). intro H. inversion H; subst.
  apply one_record. now rewrite events_set_val_of.
Qed.
Lemma sadd_record k ms now d n d' : api_sadd k ms now d = Ok n d' -> new_pops d d' = [PSAdd k ms].
Proof.
  unfold api_sadd. pose proof (events_write_key k new_set now d) as W.
  destruct (write_key k new_set now d) as [[m|] d1]; [|discriminate]. cbn [snd] in W.
  destruct (as_set m d1); [|discriminate]. destruct (set_sadd ms s). intro H. inversion H; subst.
  apply one_record. now rewrite events_set_val_of.
Qed.
Lemma zadd_record k m s now d n d' : api_zadd_gen 0 k m s now d = Ok n d' -> new_pops d d' = [PZAdd k m s].
Proof.
  unfold api_zadd_gen. pose proof (events_write_key k new_zset now d) as W.
  destruct (write_key k new_zset now d) as [[mt|] d1]; [|discriminate]. cbn [snd] in W.
  destruct (as_zset mt d1); [|discriminate]. cbn [Z.eqb].
  destruct (zset_zadd m s z). intro H. inversion H; subst.
  apply one_record. now rewrite events_set_val_of.
Qed.
Lemma incr_record k delta decr now d n d' : api_incr_gen k delta decr false now d = Ok (Some n) d' ->
  new_pops d d' = [PSet k (format_int n) true 0].
Proof.
  unfold api_incr_gen. pose proof (events_write_key k new_str now d) as W.
  destruct (write_key k new_str now d) as [[m|] d1]; [|discriminate]. cbn [snd] in W.
  destruct (as_str m d1); [|discriminate].
  destruct (if decr then _ else _) as [[n' s']|]; [|discriminate]. intro H. inversion H; subst.
  apply one_record. now rewrite events_set_val_of.
Qed.
Lemma push_record left k vs now d n d' : api_push left k vs now d = Ok n d' ->
  new_pops d d' = [if left then PLPush k vs else PRPush k vs].
Proof.
  unfold api_push. pose proof (events_write_key k new_list now d) as W.
  destruct (write_key k new_list now d) as [[m|] d1]; [|discriminate]. cbn [snd] in W.
  destruct (as_list m d1); [|discriminate]. intro H. inversion H; subst.
  unfold new_pops, notify, emit, with_events. cbn [events]. rewrite events_signal. cbn [events].
  rewrite events_set_val_of, W. cbn [length].
  replace (S (S (S (length (events d)))) - length (events d))%nat with 3%nat by lia. reflexivity.
Qed.
