(* C05: on keys that exist and are not unlinked, concurrent writers lose no update, for every
   number of threads and every interleaving of micro-steps (lookup, Lock, load, store, commit). *)
From Nodis Require Import Model.Conc.
From Coq Require Import ZArith List Bool Arith Lia.
Import ListNotations.
Local Open Scope Z_scope.

(* ---- association lists ------------------------------------------------------------------- *)
Lemma nget_nset_same {A} k (v : A) m : nget k (nset k v m) = Some v.
Proof.
  induction m as [|[k' v'] r IH]; cbn [nset nget]; [now rewrite Nat.eqb_refl|].
  destruct (Nat.eqb k k') eqn:E; cbn [nget]; [now rewrite Nat.eqb_refl|]. now rewrite E.
Qed.
Lemma nget_nset_other {A} k k0 (v : A) m : k0 <> k -> nget k0 (nset k v m) = nget k0 m.
Proof.
  intro H. induction m as [|[k' v'] r IH]; cbn [nset nget].
  - destruct (Nat.eqb k0 k) eqn:E; [apply Nat.eqb_eq in E; contradiction|reflexivity].
  - destruct (Nat.eqb k k') eqn:E; cbn [nget].
    + apply Nat.eqb_eq in E. subst k'. destruct (Nat.eqb k0 k) eqn:E2; [apply Nat.eqb_eq in E2; contradiction|reflexivity].
    + destruct (Nat.eqb k0 k'); [reflexivity|exact IH].
Qed.

Lemma get_set_rec_same r x s : get_rec r (set_rec r x s) = x.
Proof. unfold get_rec, set_rec. cbn [recs]. now rewrite nget_nset_same. Qed.
Lemma get_set_rec_other r r0 x s : r0 <> r -> get_rec r0 (set_rec r x s) = get_rec r0 s.
Proof. intro H. unfold get_rec, set_rec. cbn [recs]. now rewrite nget_nset_other. Qed.
Lemma get_rec_set_th r t x s : get_rec r (set_th t x s) = get_rec r s.
Proof. reflexivity. Qed.
Lemma ths_set_rec r x s : ths (set_rec r x s) = ths s.
Proof. reflexivity. Qed.
Lemma ix_set_rec r x s : ix (set_rec r x s) = ix s.
Proof. reflexivity. Qed.
Lemma ix_set_th t x s : ix (set_th t x s) = ix s.
Proof. reflexivity. Qed.

(* ---- the invariant -------------------------------------------------------------------------- *)
Section Stable.
  Variable v0 : nat -> Z.          (* the value every record started with *)

  (* what a pushing thread may be doing, and what then holds of the record it works on *)
  Definition thread_ok (s : cstate) (t : nat) (x : thread) : Prop :=
    exists k r, t_cmd x = Push k /\ nget k (ix s) = Some r /\
      match t_pc x with
      | PStart | PDone _ => t_held x = []
      | PHit r' false | PWait r' false => r' = r /\ t_held x = []
      | PLocked r' false | PStored r' false => r' = r /\ t_held x = [(r, true)] /\ r_w (get_rec r s) = Some t
      | PLoaded r' tmp false => r' = r /\ t_held x = [(r, true)] /\ r_w (get_rec r s) = Some t /\ tmp = r_val (get_rec r s)
      | _ => False
      end.
  Definition Inv (s : cstate) : Prop :=
    (forall t x, nget t (ths s) = Some x -> thread_ok s t x) /\
    (forall r, r_val (get_rec r s) = v0 r + r_in (get_rec r s) /\ r_unl (get_rec r s) = false).

  (* a step of some other thread u leaves thread t's clause intact when it changes at most one
     record r, and only if nobody but u holds r *)
  Lemma thread_ok_frame s s' t x :
    thread_ok s t x -> ix s' = ix s ->
    (forall r, r_w (get_rec r s) = Some t -> get_rec r s' = get_rec r s) ->
    thread_ok s' t x.
  Proof.
    intros [k [r [Hc [Hi Hp]]]] Hix Hrec. exists k, r. split; [exact Hc|]. split; [now rewrite Hix|].
    destruct (t_pc x) as [|r' [|]|r' [|]|r' [|]| | |r' tmp [|]|r' [|]| |]; try exact Hp.
    - destruct Hp as [E [Hh Hw]]. split; [exact E|]. split; [exact Hh|]. now rewrite (Hrec r Hw).
    - destruct Hp as [E [Hh [Hw Ht]]]. split; [exact E|]. split; [exact Hh|]. rewrite (Hrec r Hw). split; assumption.
    - destruct Hp as [E [Hh Hw]]. split; [exact E|]. split; [exact Hh|]. now rewrite (Hrec r Hw).
  Qed.

  Theorem mstep_inv t s s' : Inv s -> mstep t s = Some s' -> Inv s'.
  Proof.
    intros [HA HB] Hstep. unfold mstep in Hstep.
    destruct (nget t (ths s)) as [x|] eqn:Hx; [|discriminate].
    destruct (HA t x Hx) as [k [r [Hc [Hi Hp]]]].
    destruct (t_pc x) as [|r' [|]|r' [|]|r' [|]| | |r' tmp [|]|r' [|]| |] eqn:Hpc; try contradiction.
    - (* PStart: lookup *)
      inversion Hstep; subst s'; clear Hstep. unfold lookup_next. rewrite Hc. cbn [key_of]. rewrite Hi.
      split.
      + intros u y Hy. cbn [ths set_th] in Hy. destruct (Nat.eq_dec u t) as [->|Hu].
        * rewrite nget_nset_same in Hy. inversion Hy; subst y. exists k, r. cbn. repeat split; auto.
        * rewrite nget_nset_other in Hy by exact Hu. apply (thread_ok_frame s _ u y (HA u y Hy)); [reflexivity|reflexivity].
      + intro r0. apply HB.
    - (* PHit: Lock *)
      destruct Hp as [-> Hh]. inversion Hstep; subst s'; clear Hstep. unfold try_lock, holds_rec. rewrite Hh. cbn [existsb]. rewrite Hc. cbn [is_reader negb].
      rewrite (proj2 (HB r)). destruct (lock_free true (get_rec r s)) eqn:Hf.
      + assert (Hwn : r_w (get_rec r s) = None) by (unfold lock_free in Hf; destruct (r_w (get_rec r s)); [discriminate|reflexivity]).
        split.
        * intros u y Hy. cbn [ths set_th set_rec] in Hy. destruct (Nat.eq_dec u t) as [->|Hu].
          -- rewrite nget_nset_same in Hy. inversion Hy; subst y. exists k, r. cbn [t_cmd t_pc t_held].
             split; [reflexivity|]. split; [exact Hi|]. rewrite ?Hh. split; [reflexivity|]. split; [reflexivity|].
             rewrite get_rec_set_th, get_set_rec_same. reflexivity.
          -- rewrite nget_nset_other in Hy by exact Hu.
             apply (thread_ok_frame s _ u y (HA u y Hy)); [reflexivity|].
             intros r0 Hw. rewrite get_rec_set_th. destruct (Nat.eq_dec r0 r) as [->|Hr]; [congruence|].
             now rewrite get_set_rec_other.
        * intro r0. rewrite get_rec_set_th. destruct (Nat.eq_dec r0 r) as [->|Hr].
          -- rewrite get_set_rec_same. cbn. apply HB.
          -- rewrite get_set_rec_other by exact Hr. apply HB.
      + split.
        * intros u y Hy. cbn [ths set_th] in Hy. destruct (Nat.eq_dec u t) as [->|Hu].
          -- rewrite nget_nset_same in Hy. inversion Hy; subst y. exists k, r. cbn. repeat split; auto.
          -- rewrite nget_nset_other in Hy by exact Hu. apply (thread_ok_frame s _ u y (HA u y Hy)); reflexivity.
        * intro r0. apply HB.
    - (* PWait: Lock again *)
      destruct Hp as [-> Hh]. inversion Hstep; subst s'; clear Hstep. unfold try_lock, holds_rec. rewrite Hh. cbn [existsb]. rewrite Hc. cbn [is_reader negb].
      rewrite (proj2 (HB r)). destruct (lock_free true (get_rec r s)) eqn:Hf.
      + assert (Hwn : r_w (get_rec r s) = None) by (unfold lock_free in Hf; destruct (r_w (get_rec r s)); [discriminate|reflexivity]).
        split.
        * intros u y Hy. cbn [ths set_th set_rec] in Hy. destruct (Nat.eq_dec u t) as [->|Hu].
          -- rewrite nget_nset_same in Hy. inversion Hy; subst y. exists k, r. cbn [t_cmd t_pc t_held].
             split; [reflexivity|]. split; [exact Hi|]. rewrite ?Hh. split; [reflexivity|]. split; [reflexivity|].
             rewrite get_rec_set_th, get_set_rec_same. reflexivity.
          -- rewrite nget_nset_other in Hy by exact Hu.
             apply (thread_ok_frame s _ u y (HA u y Hy)); [reflexivity|].
             intros r0 Hw. rewrite get_rec_set_th. destruct (Nat.eq_dec r0 r) as [->|Hr]; [congruence|].
             now rewrite get_set_rec_other.
        * intro r0. rewrite get_rec_set_th. destruct (Nat.eq_dec r0 r) as [->|Hr].
          -- rewrite get_set_rec_same. cbn. apply HB.
          -- rewrite get_set_rec_other by exact Hr. apply HB.
      + split.
        * intros u y Hy. cbn [ths set_th] in Hy. destruct (Nat.eq_dec u t) as [->|Hu].
          -- rewrite nget_nset_same in Hy. inversion Hy; subst y. exists k, r. cbn. repeat split; auto.
          -- rewrite nget_nset_other in Hy by exact Hu. apply (thread_ok_frame s _ u y (HA u y Hy)); reflexivity.
        * intro r0. apply HB.
    - (* PLocked: load *)
      destruct Hp as [-> [Hh Hw]]. rewrite Hc in Hstep. inversion Hstep; subst s'; clear Hstep. split.
      + intros u y Hy. cbn [ths set_th] in Hy. destruct (Nat.eq_dec u t) as [->|Hu].
        * rewrite nget_nset_same in Hy. inversion Hy; subst y. exists k, r. cbn. repeat split; auto.
        * rewrite nget_nset_other in Hy by exact Hu. apply (thread_ok_frame s _ u y (HA u y Hy)); reflexivity.
      + intro r0. apply HB.
    - (* PLoaded: store *)
      destruct Hp as [-> [Hh [Hw Ht]]]. rewrite Hc in Hstep. inversion Hstep; subst s'; clear Hstep. split.
      + intros u y Hy. cbn [ths set_th set_rec] in Hy. destruct (Nat.eq_dec u t) as [->|Hu].
        * rewrite nget_nset_same in Hy. inversion Hy; subst y. exists k, r. cbn [t_cmd t_pc t_held with_pc].
          split; [exact Hc|]. split; [exact Hi|]. split; [reflexivity|]. split; [exact Hh|].
          rewrite get_rec_set_th, get_set_rec_same. cbn. exact Hw.
        * rewrite nget_nset_other in Hy by exact Hu.
          apply (thread_ok_frame s _ u y (HA u y Hy)); [reflexivity|].
          intros r0 Hw0. rewrite get_rec_set_th. destruct (Nat.eq_dec r0 r) as [->|Hr]; [congruence|].
          now rewrite get_set_rec_other.
      + intro r0. rewrite get_rec_set_th. destruct (Nat.eq_dec r0 r) as [->|Hr].
        * rewrite get_set_rec_same. cbn. split; [rewrite Ht, (proj1 (HB r)); lia|apply HB].
        * rewrite get_set_rec_other by exact Hr. apply HB.
    - (* PStored: commit *)
      destruct Hp as [-> [Hh Hw]]. rewrite Hc in Hstep. inversion Hstep; subst s'; clear Hstep.
      unfold commit. rewrite Hh. cbn [fold_left fst snd]. split.
      + intros u y Hy. cbn [ths set_th set_rec] in Hy. destruct (Nat.eq_dec u t) as [->|Hu].
        * rewrite nget_nset_same in Hy. inversion Hy; subst y. exists k, r. cbn. repeat split; auto.
        * rewrite nget_nset_other in Hy by exact Hu.
          apply (thread_ok_frame s _ u y (HA u y Hy)); [reflexivity|].
          intros r0 Hw0. rewrite get_rec_set_th. destruct (Nat.eq_dec r0 r) as [->|Hr]; [congruence|].
          now rewrite get_set_rec_other.
      + intro r0. rewrite get_rec_set_th. destruct (Nat.eq_dec r0 r) as [->|Hr].
        * rewrite get_set_rec_same. cbn. apply HB.
        * rewrite get_set_rec_other by exact Hr. apply HB.
    - (* PDone *) discriminate.
  Qed.

  Theorem run_micro_inv sched : forall s, Inv s -> Inv (run_micro sched s).
  Proof.
    induction sched as [|t r IH]; intros s H; [exact H|].
    unfold run_micro. cbn [fold_left]. fold (run_micro r).
    destruct (mstep t s) as [s'|] eqn:E; [apply IH; exact (mstep_inv t s s' H E)|apply IH; exact H].
  Qed.
End Stable.

(* ---- counting the acknowledged pushes -------------------------------------------------------- *)
Definition stored_pc (p : pc) : bool := match p with PStored _ _ | PDone _ => true | _ => false end.
(* thread x has stored (or acknowledged) a push into record r *)
Definition flag (s : cstate) (r : nat) (x : thread) : bool :=
  match t_cmd x with
  | Push k => match nget k (ix s) with Some r' => Nat.eqb r' r && stored_pc (t_pc x) | None => false end
  | _ => false
  end.
Definition acked (s : cstate) (r : nat) : nat := length (filter (fun tx => flag s r (snd tx)) (ths s)).

Lemma map_fst_nset {A} t (y old : A) m : nget t m = Some old -> map fst (nset t y m) = map fst m.
Proof.
  induction m as [|[k v] r IH]; cbn [nget nset]; [discriminate|].
  destruct (Nat.eqb t k) eqn:E; cbn [map fst].
  - intros _. apply Nat.eqb_eq in E. now subst.
  - intro H. now rewrite (IH H).
Qed.
Lemma count_nset {A} (f : A -> bool) t (y old : A) m : NoDup (map fst m) -> nget t m = Some old ->
  (length (filter (fun kv => f (snd kv)) (nset t y m)) + (if f old then 1 else 0)
   = length (filter (fun kv => f (snd kv)) m) + (if f y then 1 else 0))%nat.
Proof.
  induction m as [|[k v] r IH]; cbn [nget nset]; [discriminate|]. intros Hnd Hg.
  inversion Hnd as [|? ? Hnin Hnd']; subst.
  destruct (Nat.eqb t k) eqn:E.
  - inversion Hg; subst v. cbn [filter snd]. destruct (f y), (f old); cbn [length]; lia.
  - specialize (IH Hnd' Hg). cbn [filter snd]. destruct (f v); cbn [length]; lia.
Qed.

Section Count.
  Variable v0 : nat -> Z.

  Definition InvC (s : cstate) : Prop :=
    Inv v0 s /\ NoDup (map fst (ths s)) /\ forall r, r_in (get_rec r s) = Z.of_nat (acked s r).

  Lemma mstep_shape t s s' x : Inv v0 s -> nget t (ths s) = Some x -> mstep t s = Some s' ->
    exists y, ths s' = nset t y (ths s) /\ ix s' = ix s /\ t_cmd y = t_cmd x /\
      ((exists r tmp, t_pc x = PLoaded r tmp false /\ t_pc y = PStored r false /\
                      (exists k, t_cmd x = Push k /\ nget k (ix s) = Some r) /\
                      r_in (get_rec r s') = r_in (get_rec r s) + 1 /\
                      forall r0, r0 <> r -> r_in (get_rec r0 s') = r_in (get_rec r0 s))
       \/ (stored_pc (t_pc y) = stored_pc (t_pc x) /\ forall r0, r_in (get_rec r0 s') = r_in (get_rec r0 s))).
  Proof.
    intros [HA HB] Hx Hstep. unfold mstep in Hstep. rewrite Hx in Hstep.
    destruct (HA t x Hx) as [k [r [Hc [Hi Hp]]]].
    destruct (t_pc x) as [|r' [|]|r' [|]|r' [|]| | |r' tmp [|]|r' [|]| |] eqn:Hpc; try contradiction.
    - inversion Hstep; subst s'. unfold lookup_next. rewrite Hc. cbn [key_of]. rewrite Hi.
      eexists. split; [reflexivity|]. split; [reflexivity|]. split; [first [reflexivity | cbn [t_cmd with_pc]; congruence]|]. right. split; [reflexivity|]. reflexivity.
    - destruct Hp as [-> Hh]. inversion Hstep; subst s'. unfold try_lock, holds_rec. rewrite Hh. cbn [existsb]. rewrite Hc. cbn [is_reader negb].
      rewrite (proj2 (HB r)). destruct (lock_free true (get_rec r s)).
      + eexists. split; [reflexivity|]. split; [reflexivity|]. split; [first [reflexivity | cbn [t_cmd with_pc]; congruence]|]. right. split; [reflexivity|].
        intro r0. rewrite get_rec_set_th. destruct (Nat.eq_dec r0 r) as [->|Hr]; [now rewrite get_set_rec_same|now rewrite get_set_rec_other].
      + eexists. split; [reflexivity|]. split; [reflexivity|]. split; [first [reflexivity | cbn [t_cmd with_pc]; congruence]|]. right. split; reflexivity.
    - destruct Hp as [-> Hh]. inversion Hstep; subst s'. unfold try_lock, holds_rec. rewrite Hh. cbn [existsb]. rewrite Hc. cbn [is_reader negb].
      rewrite (proj2 (HB r)). destruct (lock_free true (get_rec r s)).
      + eexists. split; [reflexivity|]. split; [reflexivity|]. split; [first [reflexivity | cbn [t_cmd with_pc]; congruence]|]. right. split; [reflexivity|].
        intro r0. rewrite get_rec_set_th. destruct (Nat.eq_dec r0 r) as [->|Hr]; [now rewrite get_set_rec_same|now rewrite get_set_rec_other].
      + eexists. split; [reflexivity|]. split; [reflexivity|]. split; [first [reflexivity | cbn [t_cmd with_pc]; congruence]|]. right. split; reflexivity.
    - destruct Hp as [-> [Hh Hw]]. rewrite Hc in Hstep. inversion Hstep; subst s'.
      eexists. split; [reflexivity|]. split; [reflexivity|]. split; [first [reflexivity | cbn [t_cmd with_pc]; congruence]|]. right. split; reflexivity.
    - destruct Hp as [-> [Hh [Hw Ht]]]. rewrite Hc in Hstep. inversion Hstep; subst s'.
      eexists. split; [reflexivity|]. split; [reflexivity|]. split; [first [reflexivity | cbn [t_cmd with_pc]; congruence]|]. left.
      exists r, tmp. split; [reflexivity|]. split; [reflexivity|]. split; [exists k; split; [exact Hc|exact Hi]|].
      rewrite get_rec_set_th, get_set_rec_same. split; [reflexivity|].
      intros r0 Hr. rewrite get_rec_set_th. now rewrite get_set_rec_other.
    - destruct Hp as [-> [Hh Hw]]. rewrite Hc in Hstep. inversion Hstep; subst s'.
      unfold commit. rewrite Hh. cbn [fold_left fst snd].
      eexists. split; [reflexivity|]. split; [reflexivity|]. split; [first [reflexivity | cbn [t_cmd with_pc]; congruence]|]. right. split; [reflexivity|].
      intro r0. rewrite get_rec_set_th. destruct (Nat.eq_dec r0 r) as [->|Hr]; [now rewrite get_set_rec_same|now rewrite get_set_rec_other].
    - discriminate.
  Qed.

  Theorem mstep_invC t s s' : InvC s -> mstep t s = Some s' -> InvC s'.
  Proof.
    intros [HI [Hnd HD]] Hstep. split; [exact (mstep_inv v0 t s s' HI Hstep)|].
    assert (Hx : exists x, nget t (ths s) = Some x).
    { unfold mstep in Hstep. destruct (nget t (ths s)); [eauto|discriminate]. }
    destruct Hx as [x Hx].
    destruct (mstep_shape t s s' x HI Hx Hstep) as [y [Hth [Hix [Hcy Hcase]]]].
    split; [rewrite Hth, (map_fst_nset t y x _ Hx); exact Hnd|].
    intro r0. unfold acked. rewrite Hth.
    assert (Hfl : forall z, flag s' r0 z = flag s r0 z) by (intro z; unfold flag; now rewrite Hix).
    rewrite (filter_ext _ _ (fun tx => Hfl (snd tx))).
    pose proof (count_nset (flag s r0) t y x (ths s) Hnd Hx) as Hc.
    fold (acked s r0) in Hc.
    destruct Hcase as [[r [tmp [Hpx [Hpy [[k [Hck Hik]] [Hin Hoth]]]]]]|[Hsp Hin]].
    - assert (Fx : flag s r0 x = false) by (unfold flag; rewrite Hck, Hik, Hpx; cbn; now rewrite andb_false_r).
      assert (Fy : flag s r0 y = Nat.eqb r r0) by (unfold flag; rewrite Hcy, Hck, Hik, Hpy; cbn; now rewrite andb_true_r).
      rewrite Fx, Fy in Hc. destruct (Nat.eq_dec r0 r) as [->|Hr].
      + rewrite Nat.eqb_refl in Hc. rewrite Hin, (HD r). unfold acked in *. lia.
      + assert (E : Nat.eqb r r0 = false) by (apply Nat.eqb_neq; congruence). rewrite E in Hc.
        rewrite (Hoth r0 Hr), (HD r0). unfold acked in *. lia.
    - assert (Fxy : flag s r0 y = flag s r0 x) by (unfold flag; rewrite Hcy; destruct (t_cmd x); try reflexivity; destruct (nget k (ix s)); [now rewrite Hsp|reflexivity]).
      rewrite Fxy in Hc. rewrite (Hin r0), (HD r0). unfold acked in *. destruct (flag s r0 x); lia.
  Qed.

  Theorem run_micro_invC sched : forall s, InvC s -> InvC (run_micro sched s).
  Proof.
    induction sched as [|t r IH]; intros s H; [exact H|].
    unfold run_micro. cbn [fold_left]. fold (run_micro r).
    destruct (mstep t s) as [s'|] eqn:E; [apply IH; exact (mstep_invC t s s' H E)|apply IH; exact H].
  Qed.

  (* no lost update: at any moment the value is the initial value plus the pushes stored so far *)
  Corollary no_lost_update sched s : InvC s -> forall r,
    r_val (get_rec r (run_micro sched s)) = v0 r + Z.of_nat (acked (run_micro sched s) r).
  Proof.
    intros H r. destruct (run_micro_invC sched s H) as [[_ HB] [_ HD]]. now rewrite (proj1 (HB _)), HD.
  Qed.
End Count.

(* ---- from the initial state ------------------------------------------------------------------- *)
Lemma nget_combine_in {A} : forall (ks : list nat) (vs : list A) t x, nget t (combine ks vs) = Some x -> In x vs.
Proof.
  induction ks as [|k ks IH]; intros [|v vs] t x H; cbn in H; try discriminate.
  destruct (Nat.eqb t k); [inversion H; now left|right; now apply (IH vs t x)].
Qed.
Lemma map_fst_combine {A} : forall (ks : list nat) (vs : list A), length ks = length vs -> map fst (combine ks vs) = ks.
Proof.
  induction ks as [|k ks IH]; intros [|v vs] H; cbn in *; try discriminate; [reflexivity|]. f_equal. apply IH. lia.
Qed.
Lemma map_snd_combine {A} : forall (ks : list nat) (vs : list A), length ks = length vs -> map snd (combine ks vs) = vs.
Proof.
  induction ks as [|k ks IH]; intros [|v vs] H; cbn in *; try discriminate; [reflexivity|]. f_equal. apply IH. lia.
Qed.
Lemma nget_ix_init k (vals : list (nat * Z)) : In k (map fst vals) -> nget k (map (fun kv => (fst kv, fst kv)) vals) = Some k.
Proof.
  induction vals as [|[k' v] r IH]; cbn; [tauto|]. intros [E|H].
  - subst. now rewrite Nat.eqb_refl.
  - destruct (Nat.eqb k k') eqn:E; [apply Nat.eqb_eq in E; now subst|now apply IH].
Qed.
Lemma r_in_init r (vals : list (nat * Z)) :
  r_in (match nget r (map (fun kv => (fst kv, {| r_val := snd kv; r_w := None; r_rd := []; r_in := 0; r_out := 0; r_unl := false |})) vals) with
        | Some x => x | None => rcd_new end) = 0.
Proof.
  induction vals as [|[k' v] rest IH]; cbn; [reflexivity|]. destruct (Nat.eqb r k'); [reflexivity|exact IH].
Qed.
Lemma r_unl_init r (vals : list (nat * Z)) :
  r_unl (match nget r (map (fun kv => (fst kv, {| r_val := snd kv; r_w := None; r_rd := []; r_in := 0; r_out := 0; r_unl := false |})) vals) with
         | Some x => x | None => rcd_new end) = false.
Proof.
  induction vals as [|[k' v] rest IH]; cbn; [reflexivity|]. destruct (Nat.eqb r k'); [reflexivity|exact IH].
Qed.
Lemma map_cmd_nset t (y x : thread) m : nget t m = Some x -> t_cmd y = t_cmd x ->
  map (fun tx => t_cmd (snd tx)) (nset t y m) = map (fun tx => t_cmd (snd tx)) m.
Proof.
  induction m as [|[k v] r IH]; cbn [nget nset]; [discriminate|]. intros Hg Hc.
  destruct (Nat.eqb t k) eqn:E; cbn [map snd].
  - inversion Hg; subst v. now rewrite Hc.
  - now rewrite (IH Hg Hc).
Qed.

Definition pushes_only (vals : list (nat * Z)) (cmds : list cmd) : Prop :=
  forall c, In c cmds -> exists k, c = Push k /\ In k (map fst vals).
Definition init_val (vals : list (nat * Z)) (cmds : list cmd) (r : nat) : Z := r_val (get_rec r (init_state vals cmds)).

Lemma filter_none {A} (f : A -> bool) l : (forall x, In x l -> f x = false) -> filter f l = [].
Proof.
  induction l as [|a r IH]; intro H; [reflexivity|]. cbn [filter]. rewrite (H a (or_introl eq_refl)).
  apply IH. intros x Hx. apply H. now right.
Qed.

Lemma init_invC vals cmds : pushes_only vals cmds -> InvC (init_val vals cmds) (init_state vals cmds).
Proof.
  intro Hp. split; [split|split].
  - intros t x Hx. unfold init_state in Hx. cbn [ths] in Hx. apply nget_combine_in in Hx.
    apply in_map_iff in Hx. destruct Hx as [c [<- Hc]]. destruct (Hp c Hc) as [k [-> Hk]].
    exists k, k. cbn. split; [reflexivity|]. split; [now apply nget_ix_init|reflexivity].
  - intro r. split.
    + unfold init_val. unfold get_rec, init_state. cbn [recs]. rewrite r_in_init. lia.
    + unfold get_rec, init_state. cbn [recs]. apply r_unl_init.
  - unfold init_state. cbn [ths]. rewrite map_fst_combine by (rewrite seq_length, map_length; reflexivity). apply seq_NoDup.
  - intro r. unfold get_rec at 1. unfold init_state at 1. cbn [recs]. rewrite r_in_init.
    unfold acked. rewrite filter_none; [reflexivity|].
    intros [t x] Hx. unfold init_state in Hx. cbn [ths] in Hx. apply in_combine_r in Hx.
    apply in_map_iff in Hx. destruct Hx as [c [<- Hc]]. cbn [snd]. unfold flag. cbn [t_cmd t_pc].
    destruct c; try reflexivity. destruct (nget k _); [cbn [stored_pc]; now rewrite andb_false_r|reflexivity].
Qed.

(* the commands and the index never change *)
Definition InvS (cmds : list cmd) (ix0 : list (nat * nat)) (s : cstate) : Prop :=
  map (fun tx => t_cmd (snd tx)) (ths s) = cmds /\ ix s = ix0.
Lemma mstep_invS v0 cmds ix0 t s s' : Inv v0 s -> InvS cmds ix0 s -> mstep t s = Some s' -> InvS cmds ix0 s'.
Proof.
  intros HI [Hc Hi] Hstep.
  assert (Hx : exists x, nget t (ths s) = Some x) by (unfold mstep in Hstep; destruct (nget t (ths s)); [eauto|discriminate]).
  destruct Hx as [x Hx]. destruct (mstep_shape v0 t s s' x HI Hx Hstep) as [y [Hth [Hix [Hcy _]]]].
  split; [rewrite Hth, (map_cmd_nset t y x _ Hx Hcy); exact Hc|congruence].
Qed.

Definition all_done (s : cstate) : Prop := forall t x, nget t (ths s) = Some x -> exists rp, t_pc x = PDone rp.
Definition pushes_of (k : nat) (cmds : list cmd) : nat :=
  length (filter (fun c => match c with Push k' => Nat.eqb k' k | _ => false end) cmds).

Lemma run_micro_invS v0 cmds ix0 sched : forall s, InvC v0 s -> InvS cmds ix0 s -> InvS cmds ix0 (run_micro sched s).
Proof.
  induction sched as [|t r IH]; intros s HC HS; [exact HS|].
  unfold run_micro. cbn [fold_left]. fold (run_micro r).
  destruct (mstep t s) as [s1|] eqn:E; [|now apply IH].
  apply IH; [exact (mstep_invC v0 t s s1 HC E)|exact (mstep_invS v0 cmds ix0 t s s1 (proj1 HC) HS E)].
Qed.
Lemma nget_in {A} t (x : A) m : NoDup (map fst m) -> In (t, x) m -> nget t m = Some x.
Proof.
  induction m as [|[k v] r IH]; intros Hnd Hin; [destruct Hin|]. cbn [nget].
  inversion Hnd as [|? ? Hnin Hnd']; subst. destruct Hin as [E|Hin].
  - inversion E; subst. now rewrite Nat.eqb_refl.
  - destruct (Nat.eqb t k) eqn:E; [|now apply IH].
    apply Nat.eqb_eq in E. subst. exfalso. apply Hnin. change k with (fst (k, x)). now apply in_map.
Qed.

(* N concurrent pushes leave N more elements: for every interleaving of the micro-steps of any
   number of threads pushing to existing keys, once every thread has its reply the value of key k
   is its initial value plus the number of threads that pushed to k *)
Theorem concurrent_pushes_all_counted vals cmds sched :
  pushes_only vals cmds ->
  let s := run_micro sched (init_state vals cmds) in
  (forall r, r_val (get_rec r s) = init_val vals cmds r + Z.of_nat (acked s r)) /\
  (all_done s -> forall k, In k (map fst vals) ->
     key_val k s = Some (init_val vals cmds k + Z.of_nat (pushes_of k cmds))).
Proof.
  intros Hp s.
  assert (HC : InvC (init_val vals cmds) s) by (apply run_micro_invC; now apply init_invC).
  assert (HS : InvS cmds (ix (init_state vals cmds)) s).
  { apply (run_micro_invS (init_val vals cmds)); [now apply init_invC|].
    split; [|reflexivity]. unfold init_state. cbn [ths]. rewrite <- map_map.
    rewrite map_snd_combine by (rewrite seq_length, map_length; reflexivity). rewrite map_map. cbn. apply map_id. }
  split.
  - intro r. destruct HC as [[_ HB] [_ HD]]. now rewrite (proj1 (HB _)), HD.
  - intros Hdone k Hk. destruct HS as [Hcm Hix]. unfold key_val. rewrite Hix.
    unfold init_state at 1. cbn [ix]. rewrite (nget_ix_init k vals Hk).
    destruct HC as [[_ HB] [Hnd HD]]. rewrite (proj1 (HB _)), HD. f_equal. f_equal. f_equal.
    unfold acked, pushes_of. rewrite <- Hcm.
    rewrite <- (map_length (fun tx : nat * thread => t_cmd (snd tx))).
    assert (Hf : forall l, (forall t x, In (t, x) l -> (exists rp, t_pc x = PDone rp) /\ In (t_cmd x) cmds) ->
               map (fun tx : nat * thread => t_cmd (snd tx)) (filter (fun tx => flag s k (snd tx)) l)
               = filter (fun c => match c with Push k' => Nat.eqb k' k | _ => false end) (map (fun tx => t_cmd (snd tx)) l)).
    { induction l as [|[t x] r IH]; intro Hd; [reflexivity|]. cbn [filter map snd].
      destruct (Hd t x (or_introl eq_refl)) as [[rp Hrp] Hc].
      assert (Hfl : flag s k x = match t_cmd x with Push k' => Nat.eqb k' k | _ => false end).
      { unfold flag. destruct (t_cmd x) as [k'| | | | |] eqn:Ec; try reflexivity. rewrite Hix. unfold init_state. cbn [ix].
        destruct (Hp _ Hc) as [k2 [E2 Hk2]]. inversion E2; subst k2.
        rewrite (nget_ix_init k' vals Hk2), Hrp. cbn. now rewrite andb_true_r. }
      rewrite Hfl. destruct (match t_cmd x with Push k' => Nat.eqb k' k | _ => false end); cbn [map snd]; rewrite IH; auto;
        intros t' x' Hin; apply (Hd t' x'); now right. }
    rewrite Hf; [reflexivity|].
    intros t x Hin. split.
    + apply (Hdone t x). now apply nget_in.
    + rewrite <- Hcm. apply in_map_iff. exists (t, x). split; [reflexivity|exact Hin].
Qed.
