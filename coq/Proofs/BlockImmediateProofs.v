(* C18: a blocking pop that finds an element returns it at once - first listed key that has one, head
   for BLPOP, tail for BRPOP - and leaves nothing registered (coq/Model/Block.v, the steps of one thread
   while nobody else moves and no listed key is locked). *)
From Nodis Require Import Model.Conc Model.Block Proofs.ConcProofs Proofs.BlockProofs Proofs.BlockWakeProofs.
From Coq Require Import ZArith List Bool Arith Lia.
Import ListNotations.

Fixpoint run_t (n : nat) (t : nat) (s : bstate) : bstate :=
  match n with
  | O => s
  | S m => match step_run t s with Some s' => run_t m t s' | None => s end
  end.

Lemma run_t_step n t s s' : step_run t s = Some s' -> run_t (S n) t s = run_t n t s'.
Proof. intro H. cbn [run_t]. now rewrite H. Qed.
Lemma run_t_stuck b t s : step_run t s = None -> run_t b t s = s.
Proof. intro H. destruct b; cbn [run_t]; [reflexivity|now rewrite H]. Qed.
Lemma run_t_add a b t s : run_t (a + b) t s = run_t b t (run_t a t s).
Proof.
  revert s. induction a as [|a IH]; intro s; [reflexivity|].
  cbn [Nat.add run_t]. destruct (step_run t s) as [s'|] eqn:E; [apply IH|]. symmetry. now apply run_t_stuck.
Qed.

Section Alone.
  Variables (t : nat) (sd : side) (ks : list nat) (tmo : Z).

  Definition at_pc (s : bstate) (p : bpc) : Prop :=
    exists x, nget t (bths s) = Some x /\ b_cmd x = BBlock sd ks tmo /\ b_pc x = p.

  (* registration: from b:reg for key i to the first look, lists and key locks untouched, t registered on keys i.. *)
  Lemma reg_phase : forall m i s, (i + m = length ks)%nat -> (0 < m)%nat -> at_pc s (BWReg i) ->
    exists s', run_t m t s = s' /\ at_pc s' (BWTry 0) /\ lists s' = lists s /\ klock s' = klock s /\
               (forall k, In t (rget k (reg s')) <-> In t (rget k (reg s)) \/ In k (skipn i ks)).
  Proof.
    induction m as [|m IH]; intros i s Hlen Hm [x [Hx [Hc Hp]]]; [lia|].
    assert (Hi : (i < length ks)%nat) by lia.
    destruct (nth_error ks i) as [k|] eqn:Hn; [|apply nth_error_None in Hn; lia].
    assert (Hsk : skipn i ks = k :: skipn (S i) ks).
    { clear - Hn. revert i Hn. induction ks as [|a l IHl]; intros [|i] H; cbn in *; try discriminate; [now inversion H|now apply IHl]. }
    destruct (Nat.ltb (S i) (length ks)) eqn:Hlt.
    - apply Nat.ltb_lt in Hlt.
      assert (Hs : step_run t s = Some (set_bth t (with_bpc x (BWReg (S i))) (set_reg (nset k (t :: rget k (reg s)) (reg s)) s))).
      { unfold step_run. rewrite Hx, Hc, Hp, Hn. assert (E : Nat.ltb (S i) (length ks) = true) by now apply Nat.ltb_lt. now rewrite E. }
      rewrite (run_t_step m t s _ Hs).
      set (s1 := set_bth t (with_bpc x (BWReg (S i))) (set_reg (nset k (t :: rget k (reg s)) (reg s)) s)).
      assert (Hat1 : at_pc s1 (BWReg (S i))).
      { exists (with_bpc x (BWReg (S i))). unfold s1. cbn [bths set_bth set_reg]. rewrite nget_nset_same. repeat split; assumption. }
      destruct (IH (S i) s1 ltac:(lia) ltac:(lia) Hat1) as [s' [Hr [Hat [Hl [Hk Hreg]]]]].
      exists s'. split; [exact Hr|]. split; [exact Hat|]. split; [exact Hl|]. split; [exact Hk|].
      intro k0. rewrite Hreg, Hsk. unfold s1. cbn [reg set_bth set_reg]. destruct (Nat.eq_dec k0 k) as [->|Hd].
      + rewrite rget_nset_same. cbn [In]. tauto.
      + rewrite rget_nset_other by exact Hd. cbn [In]. split; [intros [H|H]; [now left|right; now right]|intros [H|[H|H]]; [now left|congruence|now right]].
    - apply Nat.ltb_ge in Hlt. assert (m = 0)%nat by lia. subst m.
      assert (Hs : step_run t s = Some (set_bth t {| b_cmd := b_cmd x; b_pc := BWTry 0; b_start := b_start x; b_deadline := (now s + tmo)%Z |}
                                          (set_reg (nset k (t :: rget k (reg s)) (reg s)) s))).
      { unfold step_run. rewrite Hx, Hc, Hp, Hn. assert (E : Nat.ltb (S i) (length ks) = false) by now apply Nat.ltb_ge. now rewrite E. }
      cbn [run_t]. rewrite Hs. eexists. split; [reflexivity|]. split.
      + eexists. cbn [bths set_bth set_reg]. rewrite nget_nset_same. split; [reflexivity|]. split; [exact Hc|reflexivity].
      + split; [reflexivity|]. split; [reflexivity|]. intro k0. rewrite Hsk. cbn [reg set_bth set_reg].
        assert (Hnil : skipn (S i) ks = []) by (apply skipn_all2; lia). rewrite Hnil.
        destruct (Nat.eq_dec k0 k) as [->|Hd].
        * rewrite rget_nset_same. cbn [In]. tauto.
        * rewrite rget_nset_other by exact Hd. cbn [In]. split; [intros H; now left|intros [H|[H|[]]]; [exact H|congruence]].
  Qed.

  (* looks at empty keys: from b:try for key i to b:try for key j, nothing changes *)
  Lemma try_phase : forall m i s, (i + m < length ks)%nat -> at_pc s (BWTry i) ->
    (forall i' k', (i <= i' < i + m)%nat -> nth_error ks i' = Some k' -> lock_is_free k' s = true /\ lget k' (lists s) = []) ->
    exists s', run_t m t s = s' /\ at_pc s' (BWTry (i + m)) /\ lists s' = lists s /\ klock s' = klock s /\ reg s' = reg s /\ tok s' = tok s.
  Proof.
    induction m as [|m IH]; intros i s Hlen [x [Hx [Hc Hp]]] Hempty.
    - exists s. rewrite Nat.add_0_r. repeat split; try reflexivity. exists x. repeat split; assumption.
    - destruct (nth_error ks i) as [k|] eqn:Hn; [|apply nth_error_None in Hn; lia].
      destruct (Hempty i k ltac:(lia) Hn) as [Hf He].
      assert (Hs : step_run t s = Some (set_bth t (with_bpc x (BWTry (S i))) s)).
      { unfold step_run. rewrite Hx, Hc, Hp, Hn, Hf, He. rewrite pop_nil.
        assert (E : Nat.ltb (S i) (length ks) = true) by (apply Nat.ltb_lt; lia). now rewrite E. }
      rewrite (run_t_step m t s _ Hs).
      set (s1 := set_bth t (with_bpc x (BWTry (S i))) s).
      assert (Hat1 : at_pc s1 (BWTry (S i))).
      { exists (with_bpc x (BWTry (S i))). unfold s1. cbn [bths set_bth]. rewrite nget_nset_same. repeat split; assumption. }
      destruct (IH (S i) s1 ltac:(lia) Hat1) as [s' [Hr [Hat [Hl [Hk [Hrg Htk]]]]]].
      + intros i' k' Hi' Hn'. apply (Hempty i' k'); [lia|exact Hn'].
      + exists s'. replace (i + S m)%nat with (S i + m)%nat by lia. repeat split; assumption.
  Qed.

  Lemma lock_free_klock k s s' : klock s' = klock s -> lock_is_free k s' = lock_is_free k s.
  Proof. intro H. unfold lock_is_free. now rewrite H. Qed.

  Lemma dereg_removes k0 : forall l m,
    In t (rget k0 (fold_left (fun m k => match nget k m with Some l => nset k (remove_all t l) m | None => m end) l m)) ->
    In t (rget k0 m) /\ ~ In k0 l.
  Proof.
    induction l as [|k l IH]; intros m H; cbn [fold_left] in H; [split; [exact H|intros []]|].
    apply IH in H. destruct H as [H1 H2]. destruct (nget k m) as [l0|] eqn:E.
    - destruct (Nat.eq_dec k0 k) as [->|Hd].
      + rewrite rget_nset_same in H1. apply in_remove_all in H1. destruct H1 as [_ Hc]. congruence.
      + rewrite rget_nset_other in H1 by exact Hd. split; [exact H1|]. intros [Hk|Hk]; [congruence|contradiction].
    - split; [exact H1|]. intros [Hk|Hk]; [|contradiction]. subst k0. unfold rget in H1. rewrite E in H1. destruct H1.
  Qed.

  (* a blocking pop that runs while nobody else moves and no listed key is locked *)
  Theorem immediate_pop s x j k v r :
    nget t (bths s) = Some x -> b_cmd x = BBlock sd ks tmo -> b_pc x = BStart ->
    (forall k', In k' ks -> lock_is_free k' s = true) ->
    (forall k', ~ In t (rget k' (reg s))) ->
    nth_error ks j = Some k ->
    (forall i k', (i < j)%nat -> nth_error ks i = Some k' -> lget k' (lists s) = []) ->
    pop_one sd (lget k (lists s)) = Some (v, r) ->
    let s' := run_t (1 + (length ks + (j + 2))) t s in
    breply t s' = Some (RBlock (Some (k, v))) /\ lget k (lists s') = r /\
    (forall k', k' <> k -> lget k' (lists s') = lget k' (lists s)) /\
    (forall k', ~ In t (rget k' (reg s'))) /\ klock s' = klock s.
  Proof.
    intros Hx Hc Hp Hfree Hfresh Hj Hempty Hpop s'.
    assert (Hjl : (j < length ks)%nat) by (apply nth_error_Some; congruence).
    (* start *)
    assert (H0 : step_run t s = Some (set_bth t {| b_cmd := b_cmd x; b_pc := BWReg 0; b_start := now s; b_deadline := b_deadline x |} s)).
    { unfold step_run. now rewrite Hx, Hc, Hp. }
    set (s1 := set_bth t _ s) in H0.
    assert (Hat1 : at_pc s1 (BWReg 0)).
    { eexists. unfold s1. cbn [bths set_bth]. rewrite nget_nset_same. split; [reflexivity|]. split; [exact Hc|reflexivity]. }
    (* registration *)
    destruct (reg_phase (length ks) 0 s1 ltac:(lia) ltac:(lia) Hat1) as [s2 [Hr2 [Hat2 [Hl2 [Hk2 Hreg2]]]]].
    (* empty keys *)
    destruct (try_phase j 0 s2 ltac:(lia) Hat2) as [s3 [Hr3 [Hat3 [Hl3 [Hk3 [Hrg3 Htk3]]]]]].
    { intros i' k' Hi' Hn'. split.
      - rewrite (lock_free_klock k' s1 s2 Hk2). apply Hfree. eapply nth_error_In; eassumption.
      - rewrite Hl2. apply (Hempty i' k'); [lia|exact Hn']. }
    cbn [Nat.add] in Hat3.
    (* the pop *)
    destruct Hat3 as [x3 [Hx3 [Hc3 Hp3]]].
    assert (Hl3' : lists s3 = lists s) by (rewrite Hl3, Hl2; reflexivity).
    assert (Hk3' : klock s3 = klock s) by (rewrite Hk3, Hk2; reflexivity).
    assert (H4 : step_run t s3 = Some (set_bth t (with_bpc x3 (BWDereg (Some (k, v)))) (set_lists (nset k r (lists s3)) s3))).
    { unfold step_run. rewrite Hx3, Hc3, Hp3, Hj. rewrite (lock_free_klock k s s3 Hk3'), (Hfree k (nth_error_In _ _ Hj)).
      rewrite Hl3', Hpop. reflexivity. }
    set (s4 := set_bth t _ (set_lists _ s3)) in H4.
    assert (H5 : step_run t s4 = Some (set_bth t (with_bpc (with_bpc x3 (BWDereg (Some (k, v)))) (BDone (RBlock (Some (k, v))))) (dereg t ks s4))).
    { unfold step_run. unfold s4 at 1 2. cbn [bths set_bth]. rewrite nget_nset_same. cbn [b_cmd b_pc with_bpc]. rewrite Hc3. reflexivity. }
    (* put the run together *)
    assert (Hrun : s' = set_bth t (with_bpc (with_bpc x3 (BWDereg (Some (k, v)))) (BDone (RBlock (Some (k, v))))) (dereg t ks s4)).
    { unfold s'. rewrite (run_t_add 1), (run_t_add (length ks)), (run_t_add j).
      rewrite (run_t_step 0 t s _ H0). change (run_t 0 t s1) with s1. rewrite Hr2, Hr3. rewrite (run_t_step 1 t s3 _ H4), (run_t_step 0 t s4 _ H5). reflexivity. }
    rewrite Hrun. split; [|split; [|split; [|split]]].
    - unfold breply. cbn [bths set_bth]. rewrite nget_nset_same. reflexivity.
    - cbn [lists set_bth dereg set_reg]. unfold s4. cbn [lists set_bth set_lists]. apply lget_nset_same.
    - intros k' Hd. cbn [lists set_bth dereg set_reg]. unfold s4. cbn [lists set_bth set_lists]. rewrite lget_nset_other by exact Hd. now rewrite Hl3'.
    - intros k' Hin. cbn [reg set_bth dereg set_reg] in Hin. apply dereg_removes in Hin. destruct Hin as [Hin Hnot].
      unfold s4 in Hin. cbn [reg set_bth set_lists] in Hin. rewrite Hrg3 in Hin. apply Hreg2 in Hin.
      destruct Hin as [Hin|Hin]; [exact (Hfresh k' Hin)|]. cbn [skipn] in Hin. contradiction.
    - cbn [klock set_bth dereg set_reg]. unfold s4. cbn [klock set_bth set_lists]. exact Hk3'.
  Qed.
End Alone.

Lemma pop_one_head v l : pop_one SL (v :: l) = Some (v, l).
Proof. reflexivity. Qed.
Lemma pop_one_tail v l : pop_one SR (l ++ [v]) = Some (v, l).
Proof. cbn [pop_one]. rewrite rev_app_distr. cbn [rev app]. now rewrite rev_involutive. Qed.
