(* store.go / storage: eviction passes, flush, close/open on the keyspace model. *)
From Nodis Require Import Base.Bytes Base.Varint Model.Codec Model.Num Model.FMap Model.DsStr Model.Db Model.Api
     Proofs.VarintProofs Proofs.CodecProofs Proofs.FMapProofs Proofs.DbProofs.
From Coq Require Import ZArith NArith List Bool Lia.
Local Open Scope Z_scope.

(* ---- a storage write followed by eviction and a lazy reload (Pebble) ----------------- *)
(* ss.Set on a hot record files a snapshot of the value under the encoding of its current key *)
Lemma ss_set_pebble m d o v :
  pebble d = true -> faults d = [] -> m_val m = Some o -> nm_get o (vobjs d) = Some v ->
  ss_set m d = (false, with_disk d (fst (fm_set (key_enc (fst (key_of m d)) (snd (key_of m d))) (SPeb v) (disk d)))).
Proof.
  intros Hp Hf Hv Ho. unfold ss_set. rewrite Hf. destruct (key_of m d) as [nm ex] eqn:K. cbn [fst snd].
  rewrite Hv, Hp, Ho. reflexivity.
Qed.

(* the record is then dropped from memory and read again: the snapshot comes back *)
Theorem save_evict_reload k m d o v now :
  pebble d = true -> faults d = [] -> m_val m = Some o -> nm_get o (vobjs d) = Some v ->
  expired m now d = false ->
  let d1 := snd (ss_set m d) in
  let cold := meta_with_val m None in
  let d2 := put_meta k cold d1 in
  exists m' d3, read_key k now d2 = (Some m', d3) /\ val_of m' d3 = Some (reload_value v)
                /\ exp_of m' d3 = exp_of m d.
Proof.
  intros Hp Hf Hv Ho He. cbv zeta. rewrite (ss_set_pebble m d o v Hp Hf Hv Ho). cbn [snd].
  set (enc := key_enc (fst (key_of m d)) (snd (key_of m d))).
  set (dsk := fst (fm_set enc (SPeb v) (disk d))).
  unfold read_key.
  rewrite (touch_some k _ (meta_with_val m None)) by apply idx_put_get.
  set (mc := meta_with_count (meta_with_val m None) (m_count (meta_with_val m None) + 1)).
  assert (Ex : expired mc now (put_meta k mc (put_meta k (meta_with_val m None) (with_disk d dsk))) = false) by exact He.
  rewrite Ex. cbn [m_val mc meta_with_count meta_with_val].
  unfold ss_get.
  assert (K : key_of mc (put_meta k mc (put_meta k (meta_with_val m None) (with_disk d dsk))) = key_of m d) by reflexivity.
  rewrite K. destruct (key_of m d) as [nm ex] eqn:Kd.
  assert (G : fm_get (key_enc nm ex) (disk (put_meta k mc (put_meta k (meta_with_val m None) (with_disk d dsk)))) = Some (SPeb v)).
  { cbn [disk put_meta with_idx with_disk]. unfold dsk, enc. cbn [fst snd]. apply get_set_same. }
  rewrite G. unfold alloc_val. cbn [fst snd].
  eexists. eexists. split; [reflexivity|]. split.
  - unfold val_of, meta_set_value. cbn. now rewrite Nat.eqb_refl.
  - unfold exp_of, key_of, meta_set_value. cbn. unfold exp_of, key_of in *. reflexivity.
Qed.

(* reload_value is idempotent: what comes back from storage is stable under further cycles *)
Lemma reload_idem_str s : reload_value (reload_value (VStr s)) = reload_value (VStr s).
Proof. reflexivity. Qed.
Lemma reload_idem_list l : reload_value (reload_value (VList l)) = reload_value (VList l).
Proof. reflexivity. Qed.

(* ---- an eviction pass never touches the value objects ---------------------------------- *)
Lemma ss_set_heaps m d : vobjs (snd (ss_set m d)) = vobjs d /\ kobjs (snd (ss_set m d)) = kobjs d.
Proof.
  unfold ss_set. destruct (faults d) as [|[|] r]; cbn [snd].
  - destruct (key_of m d) as [nm ex]. destruct (m_val m) as [o|]; [|split; reflexivity].
    destruct (pebble d); [destruct (nm_get o (vobjs d))|]; split; reflexivity.
  - split; reflexivity.
  - destruct (key_of m (with_faults d r)) as [nm ex]. destruct (m_val m) as [o|]; [|split; reflexivity].
    destruct (pebble (with_faults d r)); [destruct (nm_get o (vobjs (with_faults d r)))|]; split; reflexivity.
Qed.
Lemma gc_scan_heaps now : forall es skip d,
  vobjs (gc_scan now skip es d) = vobjs d /\ kobjs (gc_scan now skip es d) = kobjs d.
Proof.
  induction es as [|[k m0] r IH]; intros skip d; cbn [gc_scan]; [split; reflexivity|].
  destruct skip; [apply IH|].
  destruct (fm_get k (idx d)) as [m|]; [|apply IH].
  destruct (expired m now d).
  - destruct (IH false (del_meta k d)) as [A B]. split; [rewrite A|rewrite B]; reflexivity.
  - destruct (meta_modified m).
    + destruct (ss_set_heaps m d) as [A B]. destruct (ss_set m d) as [failed d1]. cbn [snd] in A, B.
      destruct failed.
      * destruct (IH false d1) as [A2 B2]. split; [rewrite A2|rewrite B2]; assumption.
      * match goal with |- context [gc_scan now false r ?D] => destruct (IH false D) as [A2 B2] end.
        split; [rewrite A2|rewrite B2]; cbn [vobjs kobjs put_meta with_idx]; assumption.
    + match goal with |- context [gc_scan now false r ?D] => destruct (IH false D) as [A2 B2] end.
      split; [rewrite A2|rewrite B2]; reflexivity.
Qed.
(* a rejected write leaves the record exactly as it was: in memory and marked modified *)
Lemma gc_scan_failed_write_keeps now k m0 r d m :
  fm_get k (idx d) = Some m -> expired m now d = false -> meta_modified m = true ->
  fst (ss_set m d) = true ->
  gc_scan now false ((k, m0) :: r) d = gc_scan now false r (snd (ss_set m d)).
Proof.
  intros G E M F. cbn [gc_scan]. rewrite G, E, M. destruct (ss_set m d) as [failed d1]. cbn [fst snd] in *. now subst.
Qed.
Lemma ss_set_failed_idx m d : fst (ss_set m d) = true -> idx (snd (ss_set m d)) = idx d /\ vobjs (snd (ss_set m d)) = vobjs d.
Proof.
  unfold ss_set. destruct (faults d) as [|[|] rest]; cbn [fst snd].
  - destruct (key_of m d). destruct (m_val m); [destruct (pebble d); [destruct (nm_get _ _)|]|]; discriminate.
  - intros _. split; reflexivity.
  - destruct (key_of m _). destruct (m_val m); [destruct (pebble _); [destruct (nm_get _ _)|]|]; discriminate.
Qed.
Theorem gc_never_touches_values now d : vobjs (gc now d) = vobjs d /\ kobjs (gc now d) = kobjs d.
Proof. unfold gc. destruct (closed d); [split; reflexivity|apply gc_scan_heaps]. Qed.
