(* A second repair condition: commands that lock several keys first take one global mutex (key mu), commands that
   lock one key do not.  Then no schedule deadlocks, whatever the order in which the multi-key commands name their keys. *)
From Coq Require Import List Arith Bool Lia.
From Nodis Require Import Model.RWPref Proofs.RWPrefProofs.
Import ListNotations.

Section Multi.
Variable mu : nat.

Definition keys (p : list act) : list nat := map akey p.
Definition holds_any (x : th) (k : nat) : Prop := In k (held_r x) \/ In k (held_w x).
Definition owns_mu (x : th) : Prop := In mu (held_w x) \/ ann x = Some mu.

(* the three shapes a thread can have *)
Definition J_single (x : th) : Prop :=
  ~ In mu (keys (prog x)) /\ ~ In mu (held_r x) /\ ~ In mu (held_w x) /\ ann x <> Some mu /\
  length (prog x) + length (held_r x) + length (held_w x) <= 1.
Definition J_before (x : th) : Prop :=
  exists rest, prog x = WL mu :: rest /\ held_r x = [] /\ held_w x = [] /\ NoDup (keys rest) /\ ~ In mu (keys rest) /\
               (ann x = None \/ ann x = Some mu).
Definition J_in (x : th) : Prop :=
  In mu (held_w x) /\ ~ In mu (held_r x) /\ ann x <> Some mu /\ ~ In mu (keys (prog x)) /\ NoDup (keys (prog x)) /\
  (forall k, holds_any x k -> ~ In k (keys (prog x))).
Definition J (x : th) : Prop :=
  (forall k, ann x = Some k -> exists rest, prog x = WL k :: rest) /\ (J_single x \/ J_before x \/ J_in x).

Definition single_prog (p : list act) : Prop := length p <= 1 /\ ~ In mu (keys p).
Definition multi_prog (p : list act) : Prop := exists rest, p = WL mu :: rest /\ NoDup (keys rest) /\ ~ In mu (keys rest).

Lemma start_J ps : Forall (fun p => single_prog p \/ multi_prog p) ps -> Forall J (start ps).
Proof.
  intro H. unfold start. rewrite Forall_map. eapply Forall_impl; [|exact H].
  intros p [[Hl Hm]|[rest [-> [Hn Hm]]]]; split; cbn; try discriminate.
  - left. repeat split; cbn; auto; try discriminate. lia.
  - right; left. exists rest. repeat split; auto.
Qed.

Lemma In_keys_head a rest : In (akey a) (keys (a :: rest)).
Proof. now left. Qed.

Lemma step_J t ths ths' : Forall J ths -> step t ths = Some ths' -> Forall J ths'.
Proof.
  intros HF. unfold step. destruct (nth_error ths t) as [x|] eqn:Ex; [|discriminate].
  assert (Hx : J x) by (eapply Forall_forall; [exact HF|eapply nth_error_In; exact Ex]).
  destruct Hx as [Ha Hc].
  destruct (prog x) as [|[k|k] rest] eqn:Ep.
  - (* commit *)
    destruct (finished x); [discriminate|]. intro H. inversion H; subst.
    apply Forall_set_nth; [exact HF|]. split; cbn; [discriminate|].
    left. repeat split; cbn; auto; try discriminate.
  - (* RL k *)
    assert (An : ann x = None).
    { destruct (ann x) as [j|] eqn:E; [|reflexivity]. destruct (Ha j eq_refl) as [r' E']. discriminate. }
    destruct (memb k (held_r x) || memb k (held_w x)) eqn:Eh.
    + (* already held: impossible in every shape *)
      exfalso. apply orb_true_iff in Eh.
      assert (Hk : holds_any x k) by (destruct Eh as [E|E]; apply memb_In in E; [now left|now right]).
      destruct Hc as [Hs|[Hb|Hi]].
      * destruct Hs as [_ [_ [_ [_ Hl]]]]. rewrite Ep in Hl. cbn [length] in Hl.
        destruct Hk as [Hk|Hk]; [destruct (held_r x); [destruct Hk|cbn in Hl; lia] | destruct (held_w x); [destruct Hk|cbn in Hl; lia]].
      * destruct Hb as [r' [E' _]]. rewrite Ep in E'. discriminate.
      * destruct Hi as [_ [_ [_ [_ [_ Hd]]]]]. apply (Hd k Hk). rewrite Ep. now left.
    + destruct (others _ t ths); [discriminate|]. intro H. inversion H; subst.
      apply Forall_set_nth; [exact HF|]. split; cbn [prog held_r held_w ann]; [rewrite An; discriminate|].
      destruct Hc as [Hs|[Hb|Hi]].
      * left. destruct Hs as [Hm [Hr [Hw [Hn Hl]]]]. rewrite Ep in Hm, Hl. cbn [length] in Hl.
        assert (rest = []) by (destruct rest; [reflexivity|cbn in Hl; lia]). subst rest.
        assert (held_r x = []) by (destruct (held_r x); [reflexivity|cbn in Hl; lia]).
        assert (held_w x = []) by (destruct (held_w x); [reflexivity|cbn in Hl; lia]).
        unfold J_single. cbn [prog held_r held_w ann]. rewrite H0, H1. cbn.
        repeat split; auto.
        all: try (intros [E|[]]; subst; apply Hm; now left).
        all: try (rewrite An; discriminate).
        all: try discriminate. all: try (intros []). all: try (cbn; lia).
      * destruct Hb as [r' [E' _]]. rewrite Ep in E'. discriminate.
      * right; right. destruct Hi as [Hm [Hr [Hn [Hk [Hnd Hd]]]]]. rewrite Ep in Hk, Hnd, Hd.
        unfold J_in. cbn [prog held_r held_w ann]. inversion Hnd as [|? ? Hnk Hnd']; subst.
        repeat split; auto.
        -- intros [E|E]; [subst; apply Hk; now left|exact (Hr E)].
        -- intro E; apply Hk; now right.
        -- intros j [[E|Hj]|Hj] Hin.
           ++ subst j. exact (Hnk Hin).
           ++ apply (Hd j (or_introl Hj)). now right.
           ++ apply (Hd j (or_intror Hj)). now right.
  - (* WL k *)
    destruct (memb k (held_w x)) eqn:Ew.
    + exfalso. apply memb_In in Ew.
      destruct Hc as [Hs|[Hb|Hi]].
      * destruct Hs as [_ [_ [_ [_ Hl]]]]. rewrite Ep in Hl. cbn [length] in Hl.
        destruct (held_w x); [destruct Ew|cbn in Hl; lia].
      * destruct Hb as [r' [_ [_ [E' _]]]]. rewrite E' in Ew. destruct Ew.
      * destruct Hi as [_ [_ [_ [_ [_ Hd]]]]]. apply (Hd k (or_intror Ew)). rewrite Ep. now left.
    + destruct (ann x) as [j|] eqn:An.
      * (* announced: acquire *)
        destruct (Ha j eq_refl) as [r' E']. inversion E'; subst j r'. clear E'.
        destruct (memb k (held_r x) || others _ t ths); [discriminate|]. intro H. inversion H; subst.
        apply Forall_set_nth; [exact HF|]. split; cbn [prog held_r held_w ann]; [discriminate|].
        destruct Hc as [Hs|[Hb|Hi]].
        -- left. destruct Hs as [Hm [Hr [Hw [Hn Hl]]]]. rewrite Ep in Hm, Hl. cbn [length] in Hl.
           assert (rest = []) by (destruct rest; [reflexivity|cbn in Hl; lia]). subst rest.
           assert (E1 : held_r x = []) by (destruct (held_r x); [reflexivity|cbn in Hl; lia]).
           assert (E2 : held_w x = []) by (destruct (held_w x); [reflexivity|cbn in Hl; lia]).
           unfold J_single. cbn [prog held_r held_w ann]. rewrite E1, E2. cbn.
           repeat split; auto.
           all: try (intros [E|[]]; subst; apply Hm; now left).
           all: try discriminate. all: try (intros []). all: try (cbn; lia).
        -- right; right. destruct Hb as [r' [E' [E1 [E2 [Hnd [Hm _]]]]]]. rewrite Ep in E'. inversion E'; subst k r'.
           unfold J_in. cbn [prog held_r held_w ann]. rewrite E1, E2.
           repeat split; auto; [now left|discriminate|].
           intros j [[]|[E|[]]]. subst j. exact Hm.
        -- right; right. destruct Hi as [Hm [Hr [Hn [Hk [Hnd Hd]]]]]. rewrite Ep in Hk, Hnd, Hd.
           unfold J_in. cbn [prog held_r held_w ann]. inversion Hnd as [|? ? Hnk Hnd']; subst.
           repeat split; auto.
           ++ now right.
           ++ discriminate.
           ++ intro E; apply Hk; now right.
           ++ intros j [Hj|[E|Hj]] Hin.
              ** apply (Hd j (or_introl Hj)). now right.
              ** subst j. exact (Hnk Hin).
              ** apply (Hd j (or_intror Hj)). now right.
      * (* announce *)
        destruct (others _ t ths); [discriminate|]. intro H. inversion H; subst.
        apply Forall_set_nth; [exact HF|]. split; cbn [prog held_r held_w ann].
        -- intros j Ej. inversion Ej; subst. exists rest. reflexivity.
        -- destruct Hc as [Hs|[Hb|Hi]].
           ++ left. destruct Hs as [Hm [Hr [Hw [Hn Hl]]]]. unfold J_single. cbn [prog held_r held_w ann].
              rewrite Ep in Hm, Hl. repeat split; auto.
              intro E. inversion E; subst. apply Hm. now left.
           ++ right; left. destruct Hb as [r' [E' [E1 [E2 [Hnd [Hm _]]]]]]. rewrite Ep in E'. inversion E'; subst k r'.
              exists rest. repeat split; auto.
           ++ right; right. destruct Hi as [Hm [Hr [Hn [Hk [Hnd Hd]]]]]. unfold J_in. cbn [prog held_r held_w ann].
              rewrite Ep in Hk, Hnd, Hd. repeat split; auto.
              intro E. inversion E; subst. apply Hk. now left.
Qed.

(* ---- helpers ---------------------------------------------------------------------------------- *)
Lemma other_sat_false p t : forall ths i, other_sat p t i ths = false ->
  forall u y, nth_error ths u = Some y -> i + u <> t -> p y = false.
Proof.
  induction ths as [|x r IH]; intros i H u y Hu Hne; [destruct u; discriminate|].
  cbn [other_sat] in H. apply orb_false_iff in H. destruct H as [H1 H2].
  destruct u as [|u]; cbn in Hu.
  - inversion Hu; subst. apply andb_false_iff in H1. destruct H1 as [H1|H1]; [|exact H1].
    apply negb_false_iff, Nat.eqb_eq in H1. lia.
  - apply (IH (S i) H2 u y Hu). lia.
Qed.
Lemma others_false p t ths : others p t ths = false ->
  forall u y, nth_error ths u = Some y -> u <> t -> p y = false.
Proof. intros H u y Hu Hne. apply (other_sat_false p t ths 0 H u y Hu). lia. Qed.

Lemma nth_set_nth_other : forall ths t x u, u <> t -> nth_error (set_nth t x ths) u = nth_error ths u.
Proof.
  induction ths as [|y r IH]; intros t x u Hne; [destruct t; reflexivity|].
  destruct t as [|t]; destruct u as [|u]; cbn; try reflexivity; try lia. apply IH. lia.
Qed.

Definition owns_mub (x : th) : bool := memb mu (held_w x) || ann_is mu x.
Lemma owns_mub_spec x : owns_mub x = true <-> owns_mu x.
Proof.
  unfold owns_mub, owns_mu, ann_is. rewrite orb_true_iff, memb_In. split; intros [H|H]; auto.
  - right. destruct (ann x) as [j|]; [|discriminate]. apply Nat.eqb_eq in H. now subst.
  - right. rewrite H. apply Nat.eqb_refl.
Qed.

(* at most one thread owns the global mutex *)
Definition U (ths : list th) : Prop :=
  forall t u x y, nth_error ths t = Some x -> nth_error ths u = Some y -> owns_mu x -> owns_mu y -> t = u.

Lemma step_U t ths ths' : Forall J ths -> U ths -> step t ths = Some ths' -> U ths'.
Proof.
  intros HF HU Hs.
  pose proof Hs as Hs0. unfold step in Hs. destruct (nth_error ths t) as [x|] eqn:Ex; [|discriminate].
  assert (Hlt : t < length ths) by (apply nth_error_Some; congruence).
  (* the new thread x' owns mu only if x did, or no other thread does *)
  assert (Key : forall x', ths' = set_nth t x' ths ->
                (owns_mu x' -> owns_mu x \/ forall u y, u <> t -> nth_error ths u = Some y -> ~ owns_mu y) -> U ths').
  { intros x' -> Hown a b xa yb Ha Hb Oa Ob.
    destruct (Nat.eq_dec a t) as [->|Na]; destruct (Nat.eq_dec b t) as [->|Nb]; [reflexivity| | |].
    - rewrite nth_set_nth_same in Ha by exact Hlt. inversion Ha; subst xa.
      rewrite nth_set_nth_other in Hb by exact Nb.
      destruct (Hown Oa) as [Ox|Hno]; [exact (HU t b x yb Ex Hb Ox Ob)|exfalso; exact (Hno b yb Nb Hb Ob)].
    - rewrite nth_set_nth_same in Hb by exact Hlt. inversion Hb; subst yb.
      rewrite nth_set_nth_other in Ha by exact Na.
      destruct (Hown Ob) as [Ox|Hno]; [exact (HU a t xa x Ha Ex Oa Ox)|exfalso; exact (Hno a xa Na Ha Oa)].
    - rewrite nth_set_nth_other in Ha by exact Na. rewrite nth_set_nth_other in Hb by exact Nb.
      exact (HU a b xa yb Ha Hb Oa Ob). }
  destruct (prog x) as [|[k|k] rest] eqn:Ep.
  - destruct (finished x); [discriminate|]. inversion Hs; subst. eapply Key; [reflexivity|].
    intros [O|O]; cbn in O; [destruct O|discriminate].
  - destruct (memb k (held_r x) || memb k (held_w x)).
    + inversion Hs; subst. eapply Key; [reflexivity|]. intros [O|O]; cbn in O; left; [now left|now right].
    + destruct (others _ t ths); [discriminate|]. inversion Hs; subst. eapply Key; [reflexivity|].
      intros [O|O]; cbn in O; left; [now left|now right].
  - destruct (memb k (held_w x)).
    + inversion Hs; subst. eapply Key; [reflexivity|]. intros [O|O]; cbn in O; left; [now left|now right].
    + destruct (ann x) as [j|] eqn:An.
      * destruct (memb k (held_r x) || others _ t ths); [discriminate|]. inversion Hs; subst.
        assert (Hx : J x) by (eapply Forall_forall; [exact HF|eapply nth_error_In; exact Ex]).
        destruct Hx as [Ha _]. destruct (Ha j An) as [r0 E0]. rewrite Ep in E0. inversion E0; subst j r0.
        eapply Key; [reflexivity|]. intros [O|O]; cbn in O; [|discriminate].
        left. destruct O as [E|O]; [right; rewrite An; now rewrite E|now left].
      * destruct (others (fun y => memb k (held_w y) || ann_is k y) t ths) eqn:Eo; [discriminate|]. inversion Hs; subst.
        eapply Key; [reflexivity|]. intros [O|O]; cbn in O; [left; now left|].
        inversion O; subst k. right. intros u y Nu Hu Oy.
        pose proof (others_false _ _ _ Eo u y Hu Nu) as Hf. apply owns_mub_spec in Oy. unfold owns_mub in Oy. congruence.
Qed.

(* ---- no deadlock ------------------------------------------------------------------------------ *)
Definition relb (x : th) : bool := match prog x with [] => negb (finished x) | _ => false end.

Lemma rel_enabled ths u y : nth_error ths u = Some y -> relb y = true -> enabled u ths = true.
Proof.
  intros Hu Hr. unfold relb in Hr. unfold enabled, step. rewrite Hu.
  destruct (prog y); [|discriminate]. apply negb_true_iff in Hr. rewrite Hr. reflexivity.
Qed.

Lemma existsb_nth {A} (p : A -> bool) (l : list A) : existsb p l = true -> exists i x, nth_error l i = Some x /\ p x = true.
Proof.
  intro H. apply existsb_exists in H. destruct H as [x [Hin Hp]].
  destruct (In_nth_error _ _ Hin) as [i Hi]. exists i, x. auto.
Qed.
Lemma existsb_false_nth {A} (p : A -> bool) (l : list A) i x : existsb p l = false -> nth_error l i = Some x -> p x = false.
Proof.
  intros H Hi. destruct (p x) eqn:E; [|reflexivity].
  assert (existsb p l = true) by (apply existsb_exists; exists x; split; [eapply nth_error_In; exact Hi|exact E]). congruence.
Qed.

(* a writer that has announced itself on k gets k as soon as nobody read-holds it *)
Lemma pending_enabled ths u y k r : nth_error ths u = Some y -> prog y = WL k :: r -> ann y = Some k ->
  (forall v z, nth_error ths v = Some z -> ~ In k (held_r z)) -> enabled u ths = true.
Proof.
  intros Hu Hp Ha Hno. unfold enabled, step. rewrite Hu, Hp.
  destruct (memb k (held_w y)); [reflexivity|]. rewrite Ha.
  destruct (memb k (held_r y)) eqn:Er; [exfalso; apply memb_In in Er; exact (Hno u y Hu Er)|]. cbn [orb].
  destruct (others (fun y0 => memb k (held_r y0)) u ths) eqn:Eo; [|reflexivity].
  exfalso. destruct (others_true _ _ _ Eo) as [v [z [_ [Hv Hz]]]]. apply memb_In in Hz. exact (Hno v z Hv Hz).
Qed.

Theorem serialised_never_deadlocks ths : Forall J ths -> U ths -> all_finished ths = false -> exists u, enabled u ths = true.
Proof.
  intros HF HU Hnf.
  assert (HJ : forall u y, nth_error ths u = Some y -> J y).
  { intros u y Hu. eapply Forall_forall; [exact HF|eapply nth_error_In; exact Hu]. }
  (* a thread whose program has ended and that still holds something can commit *)
  destruct (existsb relb ths) eqn:Erel.
  { destruct (existsb_nth _ _ Erel) as [u [y [Hu Hy]]]. exists u. eapply rel_enabled; eassumption. }
  assert (Hrel : forall u y, nth_error ths u = Some y -> relb y = false) by (intros; eapply existsb_false_nth; eassumption).
  (* so whoever holds a key is inside a multi-key command, i.e. owns the global mutex *)
  assert (holder_in : forall u y k, nth_error ths u = Some y -> holds_any y k -> J_in y).
  { intros u y k Hu Hk. destruct (HJ u y Hu) as [_ [Hs|[Hb|Hi]]]; [| |exact Hi].
    - exfalso. destruct Hs as [_ [_ [_ [_ Hl]]]]. pose proof (Hrel u y Hu) as Hr. unfold relb, finished in Hr.
      destruct (prog y) as [|a r].
      + destruct Hk as [Hk|Hk]; [destruct (held_r y); [destruct Hk|discriminate] | destruct (held_r y); [destruct (held_w y); [destruct Hk|discriminate]|discriminate]].
      + cbn [length] in Hl. destruct Hk as [Hk|Hk]; [destruct (held_r y); [destruct Hk|cbn in Hl; lia]|destruct (held_w y); [destruct Hk|cbn in Hl; lia]].
    - exfalso. destruct Hb as [r [_ [E1 [E2 _]]]]. destruct Hk as [Hk|Hk]; [rewrite E1 in Hk|rewrite E2 in Hk]; destruct Hk. }
  assert (holder_owns : forall u y k, nth_error ths u = Some y -> holds_any y k -> owns_mu y).
  { intros u y k Hu Hk. destruct (holder_in u y k Hu Hk) as [Hm _]. now left. }
  (* the unfinished thread *)
  assert (Hex : exists t x, nth_error ths t = Some x /\ finished x = false).
  { unfold all_finished in Hnf. clear -Hnf. induction ths as [|y r IH]; cbn [forallb] in Hnf; [discriminate|].
    apply andb_false_iff in Hnf. destruct Hnf as [H|H]; [exists 0, y; auto|].
    destruct (IH H) as [t [x [Ht Hx]]]. exists (S t), x. auto. }
  destruct (existsb owns_mub ths) eqn:Eown.
  - (* somebody owns the mutex *)
    destruct (existsb_nth _ _ Eown) as [m [y [Hm Oy]]]. apply owns_mub_spec in Oy.
    destruct (HJ m y Hm) as [Han Hc].
    destruct (ann y) as [j|] eqn:Eann.
    + (* it has announced itself somewhere *)
      destruct (Han j eq_refl) as [r Ep].
      destruct (Nat.eq_dec j mu) as [->|Nj].
      * exists m. eapply pending_enabled; try eassumption.
        intros v z Hv Hin. destruct (HJ v z Hv) as [_ [Hs|[Hb|Hi]]].
        -- destruct Hs as [_ [Hr _]]. exact (Hr Hin).
        -- destruct Hb as [r' [_ [E1 _]]]. rewrite E1 in Hin. destruct Hin.
        -- destruct Hi as [_ [Hr _]]. exact (Hr Hin).
      * (* announced on an ordinary key j while holding mu: only the owner itself could read-hold j, and it does not *)
        assert (Hmu : In mu (held_w y)) by (destruct Oy as [O|O]; [exact O|congruence]).
        exists m. eapply pending_enabled; try eassumption.
        intros v z Hv Hin.
        assert (Oz : owns_mu z) by (eapply holder_owns; [exact Hv|left; exact Hin]).
        assert (v = m) by (eapply HU; eassumption). subst v. rewrite Hm in Hv. inversion Hv; subst z.
        destruct Hc as [Hs|[Hb|Hi]].
        -- destruct Hs as [_ [_ [Hw _]]]. exact (Hw Hmu).
        -- destruct Hb as [r' [_ [_ [E2 _]]]]. rewrite E2 in Hmu. destruct Hmu.
        -- destruct Hi as [_ [_ [_ [_ [_ Hd]]]]]. apply (Hd j (or_introl Hin)). rewrite Ep. now left.
    + (* it holds mu and is inside its command *)
      assert (Hmu : In mu (held_w y)) by (destruct Oy as [O|O]; [exact O|congruence]).
      assert (Hi : J_in y).
      { destruct Hc as [Hs|[Hb|Hi]]; [| |exact Hi]; exfalso.
        - destruct Hs as [_ [_ [Hw _]]]. exact (Hw Hmu).
        - destruct Hb as [r' [_ [_ [E2 _]]]]. rewrite E2 in Hmu. destruct Hmu. }
      destruct Hi as [_ [_ [_ [Hk [Hnd Hd]]]]].
      destruct (prog y) as [|a rest] eqn:Ep.
      { exfalso. pose proof (Hrel m y Hm) as Hr. unfold relb, finished in Hr. rewrite Ep in Hr.
        destruct (held_r y); [destruct (held_w y); [destruct Hmu|discriminate]|discriminate]. }
      destruct (step m ths) as [s'|] eqn:Es; [exists m; unfold enabled; now rewrite Es|].
      (* who keeps the owner from its next key k: only a single-key writer that has announced itself on k *)
      assert (Hnh : forall v z, nth_error ths v = Some z -> ~ holds_any z (akey a)).
      { intros v z Hv Hz. assert (Oz : owns_mu z) by (eapply holder_owns; eassumption).
        assert (v = m) by (eapply HU; eassumption). subst v. rewrite Hm in Hv. inversion Hv; subst z.
        apply (Hd (akey a) Hz). now left. }
      assert (blocked : others (fun y0 => memb (akey a) (held_w y0) || ann_is (akey a) y0) m ths = true -> exists v, enabled v ths = true).
      { intro Eo. destruct (others_true _ _ _ Eo) as [u [z [_ [Hu Hz]]]]. apply orb_true_iff in Hz. destruct Hz as [Hz|Hz].
        - exfalso. apply memb_In in Hz. exact (Hnh u z Hu (or_intror Hz)).
        - unfold ann_is in Hz. destruct (ann z) as [j|] eqn:Ea; [|discriminate]. apply Nat.eqb_eq in Hz. subst j.
          destruct (HJ u z Hu) as [Hanz _]. destruct (Hanz _ Ea) as [r Epz].
          exists u. eapply pending_enabled; try eassumption. intros v w Hv Hin. exact (Hnh v w Hv (or_introl Hin)). }
      unfold step in Es. rewrite Hm, Ep in Es. destruct a as [k|k]; cbn [akey] in *.
      * destruct (memb k (held_r y) || memb k (held_w y)); [discriminate|].
        destruct (others (fun y0 => memb k (held_w y0) || ann_is k y0) m ths) eqn:Eo; [|discriminate]. exact (blocked eq_refl).
      * destruct (memb k (held_w y)); [discriminate|]. rewrite Eann in Es.
        destruct (others (fun y0 => memb k (held_w y0) || ann_is k y0) m ths) eqn:Eo; [|discriminate]. exact (blocked eq_refl).
  - (* nobody owns the mutex: nobody holds anything *)
    assert (Hno : forall u y, nth_error ths u = Some y -> ~ owns_mu y).
    { intros u y Hu O. apply owns_mub_spec in O. pose proof (existsb_false_nth _ _ _ _ Eown Hu). congruence. }
    assert (Hnh : forall v z k, nth_error ths v = Some z -> ~ holds_any z k).
    { intros v z k Hv Hz. exact (Hno v z Hv (holder_owns v z k Hv Hz)). }
    destruct Hex as [t [x [Ht Hx]]].
    destruct (prog x) as [|a rest] eqn:Ep.
    { exfalso. pose proof (Hrel t x Ht) as Hr. unfold relb in Hr. rewrite Ep, Hx in Hr. discriminate. }
    destruct (step t ths) as [s'|] eqn:Es; [exists t; unfold enabled; now rewrite Es|].
    assert (blocked : others (fun y0 => memb (akey a) (held_w y0) || ann_is (akey a) y0) t ths = true -> exists v, enabled v ths = true).
    { intro Eo. destruct (others_true _ _ _ Eo) as [u [z [_ [Hu Hz]]]]. apply orb_true_iff in Hz. destruct Hz as [Hz|Hz].
      - exfalso. apply memb_In in Hz. exact (Hnh u z _ Hu (or_intror Hz)).
      - unfold ann_is in Hz. destruct (ann z) as [j|] eqn:Ea; [|discriminate]. apply Nat.eqb_eq in Hz. subst j.
        destruct (HJ u z Hu) as [Hanz _]. destruct (Hanz _ Ea) as [r Epz].
        exists u. eapply pending_enabled; try eassumption. intros v w Hv Hin. exact (Hnh v w _ Hv (or_introl Hin)). }
    unfold step in Es. rewrite Ht, Ep in Es. destruct a as [k|k]; cbn [akey] in *.
    + destruct (memb k (held_r x) || memb k (held_w x)); [discriminate|].
      destruct (others (fun y0 => memb k (held_w y0) || ann_is k y0) t ths) eqn:Eo; [|discriminate]. exact (blocked eq_refl).
    + destruct (memb k (held_w x)); [discriminate|].
      destruct (ann x) as [j|] eqn:Eann.
      * destruct (HJ t x Ht) as [Hanx _]. destruct (Hanx _ Eann) as [r Epx]. rewrite Ep in Epx. inversion Epx; subst j r.
        exists t. eapply pending_enabled; try eassumption. intros v w Hv Hin. exact (Hnh v w _ Hv (or_introl Hin)).
      * destruct (others (fun y0 => memb k (held_w y0) || ann_is k y0) t ths) eqn:Eo; [|discriminate]. exact (blocked eq_refl).
Qed.

Lemma start_U ps : U (start ps).
Proof.
  intros t u x y Ht _ Ox _. exfalso. unfold start in Ht.
  destruct (nth_error (map _ ps) t) eqn:E; [|discriminate]. inversion Ht; subst.
  apply nth_error_In in E. apply in_map_iff in E. destruct E as [p [<- _]].
  destruct Ox as [O|O]; cbn in O; [destruct O|discriminate].
Qed.
Lemma run_JU sched : forall ths, Forall J ths -> U ths -> Forall J (run sched ths) /\ U (run sched ths).
Proof.
  induction sched as [|t r IH]; intros ths HJ HU; cbn [run fold_left]; [split; assumption|].
  unfold apply. destruct (step t ths) as [s'|] eqn:E.
  - apply IH; [eapply step_J; eassumption|eapply step_U; eassumption].
  - apply IH; assumption.
Qed.

Theorem serialised_commands_never_deadlock ps sched :
  Forall (fun p => single_prog p \/ multi_prog p) ps -> deadlocked (run sched (start ps)) = false.
Proof.
  intro H. set (s := run sched (start ps)).
  destruct (run_JU sched (start ps) (start_J ps H) (start_U ps)) as [HJ HU]. fold s in HJ, HU.
  unfold deadlocked. destruct (all_finished s) eqn:Ef; [reflexivity|]. cbn [negb andb].
  destruct (serialised_never_deadlocks s HJ HU Ef) as [u Hu].
  apply not_true_is_false. intro Hall. rewrite forallb_forall in Hall.
  assert (Hlt : u < length s).
  { unfold enabled, step in Hu. destruct (nth_error s u) eqn:E; [|discriminate]. apply nth_error_Some. congruence. }
  assert (Hin : In u (seq 0 (length s))) by (apply in_seq; lia).
  specialize (Hall u Hin). rewrite Hu in Hall. discriminate.
Qed.
End Multi.
Print Assumptions serialised_commands_never_deadlock.

(* the opposite moves and the two readers that deadlock in argument order finish under the global mutex (key 9) *)
Example serialised_lockorder_cases :
  Forall (fun p => single_prog 9 p \/ multi_prog 9 p)
    [[WL 9; WL 0; WL 1]; [WL 9; WL 1; WL 0]; [WL 9; RL 1; RL 0]; [WL 9; RL 0; RL 1]; [WL 1]; [WL 0]; [RL 0]].
Proof.
  assert (M : forall rest, NoDup (keys rest) -> ~ In 9 (keys rest) -> multi_prog 9 (WL 9 :: rest)) by (intros rest A B; exists rest; auto).
  assert (S1 : forall a, akey a <> 9 -> single_prog 9 [a]) by (intros a A; split; [cbn; lia|cbn; intuition]).
  repeat (apply Forall_cons;
    [first [right; apply M; [repeat (apply NoDup_cons; [cbn; intuition lia|]); apply NoDup_nil|cbn; intuition lia]
           | left; apply S1; cbn; lia]|]).
  apply Forall_nil.
Qed.
