(* C18: who holds key locks, who is registered, and why no wake-up is lost (coq/Model/Block.v). *)
From Nodis Require Import Model.Conc Model.Block Proofs.ConcProofs Proofs.BlockProofs.
From Coq Require Import ZArith List Bool Arith Lia.
Import ListNotations.

(* ---- small facts ----------------------------------------------------------------------------- *)
Lemma nget_kdel_same k m : nget k (kdel k m) = None.
Proof.
  induction m as [|[k' v] r IH]; cbn [kdel filter nget fst]; [reflexivity|].
  destruct (Nat.eqb k' k) eqn:E; cbn [negb]; [exact IH|]. cbn [nget].
  rewrite Nat.eqb_sym, E. exact IH.
Qed.
Lemma nget_kdel_other k k0 m : k0 <> k -> nget k0 (kdel k m) = nget k0 m.
Proof.
  intro H. induction m as [|[k' v] r IH]; cbn [kdel filter nget fst]; [reflexivity|].
  destruct (Nat.eqb k' k) eqn:E; cbn [negb].
  - apply Nat.eqb_eq in E. subst k'. destruct (Nat.eqb k0 k) eqn:E2; [apply Nat.eqb_eq in E2; contradiction|exact IH].
  - cbn [nget]. destruct (Nat.eqb k0 k'); [reflexivity|exact IH].
Qed.
Lemma mem_true t l : mem t l = true <-> In t l.
Proof.
  unfold mem. rewrite existsb_exists. split.
  - intros [x [Hi He]]. apply Nat.eqb_eq in He. now subst.
  - intro H. exists t. split; [exact H|apply Nat.eqb_refl].
Qed.
Lemma mem_false t l : mem t l = false <-> ~ In t l.
Proof.
  rewrite <- mem_true. destruct (mem t l); split; intro H.
  - discriminate.
  - exfalso. now apply H.
  - intro; discriminate.
  - reflexivity.
Qed.
Lemma in_remove_all w t l : In w (remove_all t l) <-> In w l /\ w <> t.
Proof.
  unfold remove_all. rewrite filter_In. split; intros [H1 H2]; split; try exact H1.
  - apply negb_true_iff, Nat.eqb_neq in H2. exact H2.
  - apply negb_true_iff, Nat.eqb_neq. exact H2.
Qed.
Lemma notify_fold_in w l : forall acc, In w acc \/ In w l -> In w (fold_left (fun a c => if mem c a then a else c :: a) l acc).
Proof.
  induction l as [|c r IH]; intros acc H; cbn [fold_left].
  - destruct H as [H|[]]. exact H.
  - apply IH. destruct H as [H|[H|H]].
    + left. destruct (mem c acc); [exact H|now right].
    + subst c. left. destruct (mem w acc) eqn:E; [now apply mem_true|now left].
    + now right.
Qed.
Lemma notify_fold_only w l : forall acc, In w (fold_left (fun a c => if mem c a then a else c :: a) l acc) -> In w acc \/ In w l.
Proof.
  induction l as [|c r IH]; intros acc H; cbn [fold_left] in H; [now left|].
  apply IH in H. destruct H as [H|H]; [|right; now right].
  destruct (mem c acc); [now left|]. destruct H as [H|H]; [right; now left|now left].
Qed.

(* ---- lock holders ----------------------------------------------------------------------------- *)
Definition holdsb (x : bthread) (k : nat) : bool :=
  match b_cmd x, b_pc x with
  | BPush _ k' _, BPNotify => Nat.eqb k' k
  | BMove a b, BMWait _ => Nat.eqb a k
  | BMove a b, BMNotify _ => Nat.eqb a k || Nat.eqb b k
  | _, _ => false
  end.
Definition notifyingb (x : bthread) (k : nat) : bool :=
  match b_cmd x, b_pc x with
  | BPush _ k' _, BPNotify => Nat.eqb k' k
  | BMove a b, BMNotify _ => Nat.eqb b k
  | _, _ => false
  end.
Lemma notifying_holds x k : notifyingb x k = true -> holdsb x k = true.
Proof.
  unfold notifyingb, holdsb. destruct (b_cmd x); try discriminate; destruct (b_pc x); try discriminate; try tauto.
  intro H. rewrite H. apply orb_true_r.
Qed.

Definition LInv (s : bstate) : Prop :=
  (forall k u, nget k (klock s) = Some u -> exists x, nget u (bths s) = Some x /\ holdsb x k = true) /\
  (forall u x k, nget u (bths s) = Some x -> holdsb x k = true -> nget k (klock s) = Some u).

Lemma L_step s s' t x x' :
  LInv s -> nget t (bths s) = Some x -> bths s' = nset t x' (bths s) ->
  (forall k, nget k (klock s') = if holdsb x' k then Some t else if holdsb x k then None else nget k (klock s)) ->
  (forall k, holdsb x' k = true -> holdsb x k = true \/ nget k (klock s) = None) ->
  LInv s'.
Proof.
  intros [L1 L2] Hx Hb Hk Hnew. split.
  - intros k u Hu. rewrite Hk in Hu. destruct (holdsb x' k) eqn:E1.
    + inversion Hu; subst u. exists x'. rewrite Hb, nget_nset_same. now split.
    + destruct (holdsb x k) eqn:E2; [discriminate|]. destruct (L1 k u Hu) as [y [Hy Hh]].
      destruct (Nat.eq_dec u t) as [->|Hne]; [rewrite Hx in Hy; inversion Hy; subst y; congruence|].
      exists y. rewrite Hb, nget_nset_other by exact Hne. now split.
  - intros u y k Hy Hh. rewrite Hb in Hy. rewrite Hk. destruct (Nat.eq_dec u t) as [->|Hne].
    + rewrite nget_nset_same in Hy. inversion Hy; subst y. now rewrite Hh.
    + rewrite nget_nset_other in Hy by exact Hne. pose proof (L2 u y k Hy Hh) as Hl.
      destruct (holdsb x' k) eqn:E1.
      * destruct (Hnew k E1) as [E2|E2]; [pose proof (L2 t x k Hx E2); congruence|congruence].
      * destruct (holdsb x k) eqn:E2; [pose proof (L2 t x k Hx E2); congruence|exact Hl].
Qed.

Ltac eqb_cases :=
  repeat match goal with
         | |- context [Nat.eqb ?a ?b] => destruct (Nat.eqb_spec a b); subst
         | H : context [Nat.eqb ?a ?b] |- _ => destruct (Nat.eqb_spec a b); subst
         end.

Lemma free_none k s : lock_is_free k s = true -> nget k (klock s) = None.
Proof. unfold lock_is_free. destruct (nget k (klock s)); [discriminate|reflexivity]. Qed.

Lemma step_run_L t s s' : LInv s -> step_run t s = Some s' -> LInv s'.
Proof.
  intros HL Hs. unfold step_run in Hs. destruct (nget t (bths s)) as [x|] eqn:Hx; [|discriminate].
  destruct (b_cmd x) as [sd k vs|sd k|a b|sd ks tmo] eqn:Hc; destruct (b_pc x) eqn:Hp; try discriminate.
  - (* push: lock + push *)
    destruct (lock_is_free k s) eqn:Hf; [|discriminate]. inversion Hs; subst s'; clear Hs. apply free_none in Hf.
    eapply (L_step s _ t x); [exact HL|exact Hx|reflexivity| |].
    + intro k0. cbn [klock set_bth set_klock set_lists]. unfold holdsb. cbn [b_cmd b_pc with_bpc]. rewrite Hc, Hp. cbv beta iota.
      destruct (Nat.eqb_spec k k0); [subst; apply nget_nset_same|apply nget_nset_other; congruence].
    + intro k0. unfold holdsb. cbn [b_cmd b_pc with_bpc]. rewrite Hc, Hp. cbv beta iota. intro E. apply Nat.eqb_eq in E. subst. now right.
  - (* push: notify + release *)
    inversion Hs; subst s'; clear Hs.
    eapply (L_step s _ t x); [exact HL|exact Hx|reflexivity| |].
    + intro k0. cbn [klock set_bth set_klock set_lists notify set_tok]. unfold holdsb. cbn [b_cmd b_pc with_bpc]. rewrite Hc, Hp. cbv beta iota.
      destruct (Nat.eqb_spec k k0); [subst; apply nget_kdel_same|apply nget_kdel_other; congruence].
    + intro k0. unfold holdsb. cbn [b_cmd b_pc with_bpc]. rewrite Hc. cbv beta iota. discriminate.
  - (* pop *)
    destruct (lock_is_free k s); [|discriminate].
    destruct (pop_one sd (lget k (lists s))) as [[y r]|]; inversion Hs; subst s'; clear Hs;
      (eapply (L_step s _ t x); [exact HL|exact Hx|reflexivity| |];
       intro k0; cbn [klock set_bth set_klock set_lists]; unfold holdsb; cbn [b_cmd b_pc with_bpc]; rewrite Hc, ?Hp; cbv beta iota; try reflexivity; discriminate).
  - (* move: source *)
    destruct (lock_is_free a s) eqn:Hf; [|discriminate]. apply free_none in Hf.
    destruct (pop_one SR (lget a (lists s))) as [[y r]|]; inversion Hs; subst s'; clear Hs.
    + eapply (L_step s _ t x); [exact HL|exact Hx|reflexivity| |].
      * intro k0. cbn [klock set_bth set_klock set_lists]. unfold holdsb. cbn [b_cmd b_pc with_bpc]. rewrite Hc, Hp. cbv beta iota.
        destruct (Nat.eqb_spec a k0); [subst; apply nget_nset_same|apply nget_nset_other; congruence].
      * intro k0. unfold holdsb. cbn [b_cmd b_pc with_bpc]. rewrite Hc, Hp. cbv beta iota. intro E. apply Nat.eqb_eq in E. subst. now right.
    + eapply (L_step s _ t x); [exact HL|exact Hx|reflexivity| |];
        intro k0; cbn [klock set_bth]; unfold holdsb; cbn [b_cmd b_pc with_bpc]; rewrite Hc, ?Hp; cbv beta iota; try reflexivity; discriminate.
  - (* move: destination *)
    destruct (lock_avail b t s) eqn:Hf; [|discriminate]. inversion Hs; subst s'; clear Hs.
    assert (Hf' : holdsb x b = true \/ nget b (klock s) = None).
    { unfold lock_avail in Hf. destruct (nget b (klock s)) as [u|] eqn:Eu; [|now right]. left.
      apply Nat.eqb_eq in Hf. subst u. destruct HL as [L1 _]. destruct (L1 b t Eu) as [x0 [Hx0 Hh0]]. congruence. }
    eapply (L_step s _ t x); [exact HL|exact Hx|reflexivity| |].
    + intro k0. cbn [klock set_bth set_klock set_lists]. unfold holdsb. cbn [b_cmd b_pc with_bpc]. rewrite Hc, Hp. cbv beta iota.
      destruct (Nat.eqb_spec b k0).
      * subst. rewrite orb_true_r. apply nget_nset_same.
      * rewrite orb_false_r. rewrite nget_nset_other by congruence.
        destruct (Nat.eqb_spec a k0); [|reflexivity]. subst.
        destruct HL as [_ L2]. apply (L2 t x k0 Hx). unfold holdsb. rewrite Hc, Hp. apply Nat.eqb_refl.
    + intro k0. unfold holdsb. cbn [b_cmd b_pc with_bpc]. rewrite Hc, Hp. cbv beta iota. intro E. apply orb_prop in E. destruct E as [E|E].
      * now left.
      * apply Nat.eqb_eq in E. subst. unfold holdsb in Hf'. rewrite Hc, Hp in Hf'. exact Hf'.
  - (* move: notify + release *)
    inversion Hs; subst s'; clear Hs.
    eapply (L_step s _ t x); [exact HL|exact Hx|reflexivity| |].
    + intro k0. cbn [klock set_bth set_klock set_lists notify set_tok]. unfold holdsb. cbn [b_cmd b_pc with_bpc]. rewrite Hc, Hp. cbv beta iota.
      destruct (Nat.eqb_spec b k0).
      * subst. rewrite orb_true_r. apply nget_kdel_same.
      * rewrite orb_false_r. rewrite nget_kdel_other by congruence.
        destruct (Nat.eqb_spec a k0); [subst; apply nget_kdel_same|apply nget_kdel_other; congruence].
    + intro k0. unfold holdsb. cbn [b_cmd b_pc with_bpc]. rewrite Hc. cbv beta iota. discriminate.
  - (* blocking pop: start *)
    inversion Hs; subst s'; clear Hs.
    eapply (L_step s _ t x); [exact HL|exact Hx|reflexivity| |];
      intro k0; cbn [klock set_bth]; unfold holdsb; cbn [b_cmd b_pc]; rewrite Hc, ?Hp; cbv beta iota; try reflexivity; discriminate.
  - (* register *)
    destruct (nth_error ks i) as [k|]; [|discriminate].
    destruct (Nat.ltb (S i) (length ks)); inversion Hs; subst s'; clear Hs;
      (eapply (L_step s _ t x); [exact HL|exact Hx|reflexivity| |];
       intro k0; cbn [klock set_bth set_reg]; unfold holdsb; cbn [b_cmd b_pc with_bpc]; rewrite Hc, ?Hp; cbv beta iota; try reflexivity; discriminate).
  - (* try *)
    destruct (nth_error ks i) as [k|]; [|discriminate].
    destruct (lock_is_free k s); [|discriminate].
    destruct (pop_one sd (lget k (lists s))) as [[y r]|].
    + inversion Hs; subst s'; clear Hs.
      eapply (L_step s _ t x); [exact HL|exact Hx|reflexivity| |];
        intro k0; cbn [klock set_bth set_lists]; unfold holdsb; cbn [b_cmd b_pc with_bpc]; rewrite Hc, ?Hp; cbv beta iota; try reflexivity; discriminate.
    + destruct (Nat.ltb (S i) (length ks)); inversion Hs; subst s'; clear Hs;
        (eapply (L_step s _ t x); [exact HL|exact Hx|reflexivity| |];
         intro k0; cbn [klock set_bth]; unfold holdsb; cbn [b_cmd b_pc with_bpc]; rewrite Hc, ?Hp; cbv beta iota; try reflexivity; discriminate).
  - (* select: wake-up *)
    destruct (mem t (tok s)); [|discriminate]. inversion Hs; subst s'; clear Hs.
    eapply (L_step s _ t x); [exact HL|exact Hx|reflexivity| |];
      intro k0; cbn [klock set_bth set_tok]; unfold holdsb; cbn [b_cmd b_pc with_bpc]; rewrite Hc, ?Hp; cbv beta iota; try reflexivity; discriminate.
  - (* deregister *)
    inversion Hs; subst s'; clear Hs.
    eapply (L_step s _ t x); [exact HL|exact Hx|reflexivity| |];
      intro k0; cbn [klock set_bth dereg set_reg]; unfold holdsb; cbn [b_cmd b_pc with_bpc]; rewrite Hc, ?Hp; cbv beta iota; try reflexivity; discriminate.
Qed.

Lemma bstep_L o s s' : LInv s -> bstep o s = Some s' -> LInv s'.
Proof.
  intros HL Hs. destruct o as [t|t|d]; cbn [bstep] in Hs.
  - exact (step_run_L t s s' HL Hs).
  - unfold step_fire in Hs. destruct (nget t (bths s)) as [x|] eqn:Hx; [|discriminate].
    destruct (b_cmd x) eqn:Hc; try discriminate. destruct (b_pc x) eqn:Hp; try discriminate.
    destruct (negb (tmo =? 0)%Z && (b_deadline x <=? now s)%Z); [|discriminate].
    inversion Hs; subst s'; clear Hs.
    eapply (L_step s _ t x); [exact HL|exact Hx|reflexivity| |];
      intro k0; cbn [klock set_bth]; unfold holdsb; cbn [b_cmd b_pc with_bpc]; rewrite Hc, ?Hp; cbv beta iota; try reflexivity; discriminate.
  - destruct (0 <=? d)%Z; [|discriminate]. inversion Hs; subst s'. exact HL.
Qed.
Theorem brun_L sched : forall s, LInv s -> LInv (brun sched s).
Proof.
  induction sched as [|o r IH]; intros s H; [exact H|].
  unfold brun. cbn [fold_left]. fold (brun r). apply IH. unfold bapply.
  destruct (bstep o s) as [s'|] eqn:E; [exact (bstep_L o s s' H E)|exact H].
Qed.
Lemma binit_L ls cmds : LInv (binit ls cmds).
Proof.
  split.
  - intros k u H. discriminate.
  - intros u x k Hx Hh. unfold binit in Hx. cbn [bths] in Hx. apply nget_combine_in in Hx.
    apply in_map_iff in Hx. destruct Hx as [c [<- _]]. unfold holdsb in Hh. cbn in Hh. destruct c; discriminate.
Qed.

(* a key lock is only ever held by a push that is about to send its wake-ups, or by an RPOPLPUSH:
   never by a (blocked or departing) consumer *)
Theorem lock_holders ls cmds sched k u :
  let s := brun sched (binit ls cmds) in
  nget k (klock s) = Some u -> exists x, nget u (bths s) = Some x /\ holdsb x k = true.
Proof. intros s H. exact (proj1 (brun_L sched _ (binit_L ls cmds)) k u H). Qed.

(* a push that holds its key lock takes its next step whatever the consumers do: the wake-ups
   never wait, and the step replies the new length and gives the lock back *)
Theorem push_never_waits_for_clients s t x sd k vs :
  nget t (bths s) = Some x -> b_cmd x = BPush sd k vs -> b_pc x = BPNotify ->
  exists s', step_run t s = Some s' /\
             breply t s' = Some (RInt (Z.of_nat (length (lget k (lists s))))) /\ nget k (klock s') = None.
Proof.
  intros Hx Hc Hp. unfold step_run. rewrite Hx, Hc, Hp. eexists. split; [reflexivity|]. split.
  - unfold breply. cbn [bths set_bth]. rewrite nget_nset_same. reflexivity.
  - cbn [klock set_bth set_klock]. apply nget_kdel_same.
Qed.
(* and a push that has not started waits for nothing but the key lock *)
Theorem push_start_needs_only_the_key_lock s t x sd k vs :
  nget t (bths s) = Some x -> b_cmd x = BPush sd k vs -> b_pc x = BStart ->
  enabled (Run t) s = lock_is_free k s.
Proof.
  intros Hx Hc Hp. unfold enabled. cbn [bstep]. unfold step_run. rewrite Hx, Hc, Hp. destruct (lock_is_free k s); reflexivity.
Qed.

(* ---- registration ----------------------------------------------------------------------------- *)
Definition registered (s : bstate) (t : nat) (ks : list nat) (p : bpc) : Prop :=
  match p with
  | BWReg i => forall j k, (j < i)%nat -> nth_error ks j = Some k -> In t (rget k (reg s))
  | BWTry _ | BWSelect => forall k, In k ks -> In t (rget k (reg s))
  | _ => True
  end.
Definition RInv (s : bstate) : Prop :=
  forall t x sd ks tmo, nget t (bths s) = Some x -> b_cmd x = BBlock sd ks tmo -> registered s t ks (b_pc x).

Lemma registered_mono s s' t ks p :
  (forall k, In t (rget k (reg s)) -> In t (rget k (reg s'))) -> registered s t ks p -> registered s' t ks p.
Proof. intros H. destruct p; cbn [registered]; try tauto; intros Hr; intros; apply H; eapply Hr; eassumption. Qed.

Lemma R_step s s' t x x' :
  RInv s -> nget t (bths s) = Some x -> bths s' = nset t x' (bths s) ->
  (forall w k, w <> t -> In w (rget k (reg s)) -> In w (rget k (reg s'))) ->
  (forall sd ks tmo, b_cmd x' = BBlock sd ks tmo -> registered s' t ks (b_pc x')) ->
  RInv s'.
Proof.
  intros HR Hx Hb Hm Hself w y sd ks tmo Hy Hc. rewrite Hb in Hy. destruct (Nat.eq_dec w t) as [->|Hne].
  - rewrite nget_nset_same in Hy. inversion Hy; subst y. exact (Hself sd ks tmo Hc).
  - rewrite nget_nset_other in Hy by exact Hne. apply (registered_mono s); [intros k; now apply Hm|exact (HR w y sd ks tmo Hy Hc)].
Qed.

Lemma rget_nset_same k l m : rget k (nset k l m) = l.
Proof. unfold rget. now rewrite nget_nset_same. Qed.
Lemma rget_nset_other k k0 l m : k0 <> k -> rget k0 (nset k l m) = rget k0 m.
Proof. intro H. unfold rget. now rewrite nget_nset_other. Qed.

Lemma dereg_keeps t w k0 : w <> t -> forall ks m, In w (rget k0 m) ->
  In w (rget k0 (fold_left (fun m k => match nget k m with Some l => nset k (remove_all t l) m | None => m end) ks m)).
Proof.
  intro Hne. induction ks as [|k r IH]; intros m H; cbn [fold_left]; [exact H|]. apply IH.
  destruct (nget k m) as [l|] eqn:E; [|exact H].
  destruct (Nat.eq_dec k0 k) as [->|Hk].
  - rewrite rget_nset_same. unfold rget in H. rewrite E in H. apply in_remove_all. now split.
  - now rewrite rget_nset_other.
Qed.

Lemma nth_error_lt_in {A} (l : list A) k : In k l -> exists j, (j < length l)%nat /\ nth_error l j = Some k.
Proof.
  intro H. apply In_nth_error in H. destruct H as [j Hj]. exists j. split; [|exact Hj].
  apply nth_error_Some. congruence.
Qed.

Lemma step_run_R t s s' : RInv s -> step_run t s = Some s' -> RInv s'.
Proof.
  intros HR Hs. unfold step_run in Hs. destruct (nget t (bths s)) as [x|] eqn:Hx; [|discriminate].
  destruct (b_cmd x) as [sd k vs|sd k|a b|sd ks tmo] eqn:Hc; destruct (b_pc x) eqn:Hp; try discriminate;
    repeat match type of Hs with
           | (if ?c then _ else _) = Some _ => destruct c eqn:?; try discriminate
           | match ?c with Some _ => _ | None => _ end = Some _ => destruct c as [?|] eqn:?; try discriminate
           | (let (_, _) := ?p in _) = Some _ => destruct p
           end;
    inversion Hs; subst s'; clear Hs;
    try (eapply (R_step s _ t x); [exact HR|exact Hx|reflexivity|intros w k0 _ H; exact H|];
         intros sd' ks' tmo' Hc'; cbn [b_cmd b_pc with_bpc] in *; rewrite Hc in Hc'; try discriminate;
         cbn [registered]; try exact I; inversion Hc'; subst;
         pose proof (HR t x _ _ _ Hx Hc) as Hr; rewrite Hp in Hr; cbn [registered] in Hr; exact Hr).
  - (* start *)
    eapply (R_step s _ t x); [exact HR|exact Hx|reflexivity|intros w k0 _ H; exact H|].
    intros sd' ks' tmo' Hc'. cbn [b_pc registered]. intros j k0 Hj. lia.
  - (* register, more keys to go *)
    match goal with H : nth_error ks i = Some ?kk |- _ => rename kk into n; rename H into Hnth end.
    eapply (R_step s _ t x); [exact HR|exact Hx|reflexivity| |].
    + intros w k0 Hne H. cbn [reg set_bth set_reg]. destruct (Nat.eq_dec k0 n) as [->|Hk].
      * rewrite rget_nset_same. now right.
      * now rewrite rget_nset_other.
    + intros sd' ks' tmo' Hc'. cbn [b_cmd b_pc with_bpc] in *. rewrite Hc in Hc'. inversion Hc'; subst. cbn [registered].
      pose proof (HR t x _ _ _ Hx Hc) as Hr. rewrite Hp in Hr. cbn [registered] in Hr.
      intros j k0 Hj Hn. cbn [reg set_bth set_reg]. destruct (Nat.eq_dec k0 n) as [->|Hk].
      * rewrite rget_nset_same. now left.
      * rewrite rget_nset_other by exact Hk. apply (Hr j k0); [|exact Hn].
        destruct (Nat.eq_dec j i) as [->|Hji]; [congruence|lia].
  - (* register, last key *)
    match goal with H : nth_error ks i = Some ?kk |- _ => rename kk into n; rename H into Hnth end.
    match goal with H : Nat.ltb _ _ = false |- _ => rename H into Heqb end.
    eapply (R_step s _ t x); [exact HR|exact Hx|reflexivity| |].
    + intros w k0 Hne H. cbn [reg set_bth set_reg]. destruct (Nat.eq_dec k0 n) as [->|Hk].
      * rewrite rget_nset_same. now right.
      * now rewrite rget_nset_other.
    + intros sd' ks' tmo' Hc'. cbn [b_cmd b_pc] in *. try rewrite Hc in Hc'. inversion Hc'; subst. cbn [registered].
      pose proof (HR t x _ _ _ Hx Hc) as Hr. rewrite Hp in Hr. cbn [registered] in Hr.
      intros k0 Hin. cbn [reg set_bth set_reg]. destruct (Nat.eq_dec k0 n) as [->|Hk].
      * rewrite rget_nset_same. now left.
      * rewrite rget_nset_other by exact Hk. destruct (nth_error_lt_in _ _ Hin) as [j [Hj Hn]].
        apply (Hr j k0); [|exact Hn]. apply Nat.ltb_ge in Heqb.
        destruct (Nat.eq_dec j i) as [->|Hji]; [congruence|lia].
  - (* deregister *)
    eapply (R_step s _ t x); [exact HR|exact Hx|reflexivity| |].
    + intros w k0 Hne H. cbn [reg set_bth dereg set_reg]. now apply dereg_keeps.
    + intros sd' ks' tmo' Hc'. cbn [b_pc with_bpc registered]. exact I.
Qed.

Lemma step_fire_shape t s s' : step_fire t s = Some s' ->
  exists x sd ks tmo, nget t (bths s) = Some x /\ b_cmd x = BBlock sd ks tmo /\ b_pc x = BWSelect /\
                      s' = set_bth t (with_bpc x (BWDereg None)) s.
Proof.
  unfold step_fire. destruct (nget t (bths s)) as [x|] eqn:Hx; [|discriminate].
  destruct (b_cmd x) eqn:Hc; try discriminate. destruct (b_pc x) eqn:Hp; try discriminate.
  destruct (negb (tmo =? 0)%Z && (b_deadline x <=? now s)%Z); [|discriminate].
  intro H. inversion H. exists x, sd, ks, tmo. repeat split; assumption.
Qed.

Lemma bstep_R o s s' : RInv s -> bstep o s = Some s' -> RInv s'.
Proof.
  intros HR Hs. destruct o as [t|t|d]; cbn [bstep] in Hs.
  - exact (step_run_R t s s' HR Hs).
  - destruct (step_fire_shape t s s' Hs) as [x [sd [ks [tmo [Hx [Hc [Hp ->]]]]]]].
    eapply (R_step s _ t x); [exact HR|exact Hx|reflexivity|intros w k0 _ H; exact H|].
    intros sd' ks' tmo' Hc'. cbn [b_pc with_bpc registered]. exact I.
  - destruct (0 <=? d)%Z; [|discriminate]. inversion Hs; subst s'. exact HR.
Qed.
Lemma binit_R ls cmds : RInv (binit ls cmds).
Proof.
  intros t x sd ks tmo Hx Hc. unfold binit in Hx. cbn [bths] in Hx. apply nget_combine_in in Hx.
  apply in_map_iff in Hx. destruct Hx as [c [<- _]]. cbn. exact I.
Qed.

(* ---- no wake-up is lost -------------------------------------------------------------------- *)
(* nothing to pop on key k: its list is empty, or the push that filled it is still inside its
   critical section, at the point where it is about to send the wake-ups *)
Definition quiet (s : bstate) (k : nat) : Prop :=
  lget k (lists s) = [] \/ exists u y, nget u (bths s) = Some y /\ notifyingb y k = true.
Definition scope (s : bstate) (ks : list nat) (p : bpc) : Prop :=
  match p with
  | BWTry i => forall j k, (j < i)%nat -> nth_error ks j = Some k -> quiet s k
  | BWSelect => forall k, In k ks -> quiet s k
  | _ => True
  end.
Definition EInv (s : bstate) : Prop :=
  forall t x sd ks tmo, nget t (bths s) = Some x -> b_cmd x = BBlock sd ks tmo -> mem t (tok s) = false ->
    scope s ks (b_pc x).

Lemma quiet_frame s s' t x x' k :
  nget t (bths s) = Some x -> bths s' = nset t x' (bths s) ->
  (lget k (lists s) = [] -> lget k (lists s') = [] \/ notifyingb x' k = true) ->
  (notifyingb x k = true -> notifyingb x' k = true) ->
  quiet s k -> quiet s' k.
Proof.
  intros Hx Hb Hl Hn [H|[u [y [Hy Hq]]]].
  - destruct (Hl H) as [H1|H1]; [now left|]. right. exists t, x'. rewrite Hb, nget_nset_same. now split.
  - right. destruct (Nat.eq_dec u t) as [->|Hne].
    + rewrite Hx in Hy. inversion Hy; subst y. exists t, x'. rewrite Hb, nget_nset_same. split; [reflexivity|now apply Hn].
    + exists u, y. rewrite Hb, nget_nset_other by exact Hne. now split.
Qed.
Lemma scope_frame s s' ks p (P : nat -> Prop) :
  (forall k, In k ks -> P k -> quiet s k -> quiet s' k) -> (forall k, In k ks -> P k) -> scope s ks p -> scope s' ks p.
Proof.
  intros H HP. destruct p; cbn [scope]; try tauto.
  - intros Hs j k Hj Hn. apply H; [eapply nth_error_In; eassumption|apply HP; eapply nth_error_In; eassumption|now apply (Hs j k)].
  - intros Hs k Hin. apply H; [exact Hin|now apply HP|now apply Hs].
Qed.

Lemma lget_nset_same k l m : lget k (nset k l m) = l.
Proof. unfold lget. now rewrite nget_nset_same. Qed.
Lemma lget_nset_other k k0 l m : k0 <> k -> lget k0 (nset k l m) = lget k0 m.
Proof. intro H. unfold lget. now rewrite nget_nset_other. Qed.

(* the waiters other than the stepping thread t, for a step that sends no wake-ups *)
Lemma E_others s s' t x x' :
  EInv s -> nget t (bths s) = Some x -> bths s' = nset t x' (bths s) ->
  (forall w, w <> t -> mem w (tok s') = false -> mem w (tok s) = false) ->
  (forall k, lget k (lists s) = [] -> lget k (lists s') = [] \/ notifyingb x' k = true) ->
  (forall k, notifyingb x k = true -> notifyingb x' k = true) ->
  forall w y sd ks tmo, w <> t -> nget w (bths s') = Some y -> b_cmd y = BBlock sd ks tmo -> mem w (tok s') = false ->
    scope s' ks (b_pc y).
Proof.
  intros HE Hx Hb Ht Hl Hn w y sd ks tmo Hne Hy Hc Hm.
  rewrite Hb, nget_nset_other in Hy by exact Hne.
  apply (scope_frame s s' ks (b_pc y) (fun _ => True)); [|auto|exact (HE w y sd ks tmo Hy Hc (Ht w Hne Hm))].
  intros k _ _. apply (quiet_frame s s' t x x' k Hx Hb (Hl k) (Hn k)).
Qed.

Lemma E_step s s' t x x' :
  nget t (bths s) = Some x -> bths s' = nset t x' (bths s) ->
  (forall w y sd ks tmo, w <> t -> nget w (bths s') = Some y -> b_cmd y = BBlock sd ks tmo -> mem w (tok s') = false -> scope s' ks (b_pc y)) ->
  (forall sd ks tmo, b_cmd x' = BBlock sd ks tmo -> mem t (tok s') = false -> scope s' ks (b_pc x')) ->
  EInv s'.
Proof.
  intros Hx Hb Ho Hs w y sd ks tmo Hy Hc Hm. destruct (Nat.eq_dec w t) as [->|Hne].
  - rewrite Hb, nget_nset_same in Hy. inversion Hy; subst y. exact (Hs sd ks tmo Hc Hm).
  - exact (Ho w y sd ks tmo Hne Hy Hc Hm).
Qed.

Lemma notifyingb_push x sd k vs k0 : b_cmd x = BPush sd k vs -> b_pc x = BPNotify -> notifyingb x k0 = Nat.eqb k k0.
Proof. intros Hc Hp. unfold notifyingb. now rewrite Hc, Hp. Qed.

(* the step that sends the wake-ups for key k0 *)
Lemma E_notify s t x x' k0 :
  EInv s -> RInv s -> nget t (bths s) = Some x ->
  (forall k, notifyingb x k = true -> k = k0) -> (forall k, notifyingb x' k = false) ->
  (forall sd ks tmo, b_cmd x' = BBlock sd ks tmo -> False) ->
  forall kl, EInv (set_bth t x' (set_klock kl (notify k0 s))).
Proof.
  intros HE HR Hx Hn Hn' Hnb kl.
  apply (E_step s _ t x x' Hx); [reflexivity| |intros sd ks tmo Hc; destruct (Hnb _ _ _ Hc)].
  intros w y sd ks tmo Hne Hy Hc Hm. cbn [bths set_bth] in Hy. rewrite nget_nset_other in Hy by exact Hne.
  cbn [tok set_bth set_klock notify set_tok] in Hm.
  assert (Hm0 : mem w (tok s) = false).
  { apply mem_false. intro Hi. apply mem_false in Hm. apply Hm. apply notify_fold_in. now left. }
  assert (Hnr : ~ In w (rget k0 (reg s))).
  { intro Hi. apply mem_false in Hm. apply Hm. apply notify_fold_in. now right. }
  pose proof (HE w y sd ks tmo Hy Hc Hm0) as Hsc. pose proof (HR w y sd ks tmo Hy Hc) as Hrg.
  destruct (b_pc y) eqn:Hpy; cbn [scope registered] in *; try exact I.
  - intros j k Hj Hnth.
    assert (Hin : In k ks) by (eapply nth_error_In; eassumption).
    assert (Hk : k <> k0) by (intros ->; apply Hnr; now apply Hrg).
    apply (quiet_frame s _ t x x' k Hx); [reflexivity|intro H0; now left|intro H0; exfalso; apply Hk; now apply Hn|now apply (Hsc j k)].
  - intros k Hin.
    assert (Hk : k <> k0) by (intros ->; apply Hnr; now apply Hrg).
    apply (quiet_frame s _ t x x' k Hx); [reflexivity|intro H0; now left|intro H0; exfalso; apply Hk; now apply Hn|now apply Hsc].
Qed.

Ltac not_notifying Hc Hp := let k0 := fresh "k0" in let H := fresh "H" in
  intros k0 H; unfold notifyingb in H; rewrite Hc, ?Hp in H; discriminate.
Ltac same_lists := let k0 := fresh "k0" in let H := fresh "H" in intros k0 H; left; exact H.
Ltac same_tok := let w := fresh "w" in let H := fresh "H" in intros w _ H; exact H.
Ltac not_block Hc := let H := fresh "H" in intros ? ? ? H; cbn [b_cmd with_bpc] in H; rewrite Hc in H; discriminate.

Lemma pop_nil sd : pop_one sd [] = None.
Proof. destruct sd; reflexivity. Qed.

Lemma step_run_E t s s' : EInv s -> RInv s -> step_run t s = Some s' -> EInv s'.
Proof.
  intros HE HR Hs. unfold step_run in Hs. destruct (nget t (bths s)) as [x|] eqn:Hx; [|discriminate].
  destruct (b_cmd x) as [sd k vs|sd k|a b|sd ks tmo] eqn:Hc; destruct (b_pc x) eqn:Hp; try discriminate.
  - (* push: lock + push *)
    destruct (lock_is_free k s); [|discriminate]. inversion Hs; subst s'; clear Hs.
    eapply (E_step s _ t x); [exact Hx|reflexivity| |not_block Hc].
    eapply (E_others s _ t x); [exact HE|exact Hx|reflexivity|same_tok| |not_notifying Hc Hp].
    intros k0 H. cbn [lists set_bth set_klock set_lists]. destruct (Nat.eq_dec k0 k) as [->|Hk].
    + right. unfold notifyingb. cbn [b_cmd b_pc with_bpc]. rewrite Hc. apply Nat.eqb_refl.
    + left. now rewrite lget_nset_other.
  - (* push: notify *)
    inversion Hs; subst s'; clear Hs.
    eapply (E_notify s t x _ k); [exact HE|exact HR|exact Hx| | |].
    + intros k0 H. rewrite (notifyingb_push x sd k vs k0 Hc Hp) in H. apply Nat.eqb_eq in H. now subst.
    + intro k0. unfold notifyingb. cbn [b_cmd b_pc with_bpc]. now rewrite Hc.
    + intros ? ? ? H. cbn [b_cmd with_bpc] in H. rewrite Hc in H. discriminate.
  - (* pop *)
    destruct (lock_is_free k s); [|discriminate].
    destruct (pop_one sd (lget k (lists s))) as [[y r]|] eqn:Ep; inversion Hs; subst s'; clear Hs.
    + eapply (E_step s _ t x); [exact Hx|reflexivity| |not_block Hc].
      eapply (E_others s _ t x); [exact HE|exact Hx|reflexivity|same_tok| |not_notifying Hc Hp].
      intros k0 H. cbn [lists set_bth set_lists]. destruct (Nat.eq_dec k0 k) as [->|Hk].
      * rewrite H, pop_nil in Ep. discriminate.
      * left. now rewrite lget_nset_other.
    + eapply (E_step s _ t x); [exact Hx|reflexivity| |not_block Hc].
      eapply (E_others s _ t x); [exact HE|exact Hx|reflexivity|same_tok|same_lists|not_notifying Hc Hp].
  - (* move: source *)
    destruct (lock_is_free a s); [|discriminate].
    destruct (pop_one SR (lget a (lists s))) as [[y r]|] eqn:Ep; inversion Hs; subst s'; clear Hs.
    + eapply (E_step s _ t x); [exact Hx|reflexivity| |not_block Hc].
      eapply (E_others s _ t x); [exact HE|exact Hx|reflexivity|same_tok| |not_notifying Hc Hp].
      intros k0 H. cbn [lists set_bth set_klock set_lists]. destruct (Nat.eq_dec k0 a) as [->|Hk].
      * rewrite H, pop_nil in Ep. discriminate.
      * left. now rewrite lget_nset_other.
    + eapply (E_step s _ t x); [exact Hx|reflexivity| |not_block Hc].
      eapply (E_others s _ t x); [exact HE|exact Hx|reflexivity|same_tok|same_lists|not_notifying Hc Hp].
  - (* move: destination *)
    destruct (lock_avail b t s); [|discriminate]. inversion Hs; subst s'; clear Hs.
    eapply (E_step s _ t x); [exact Hx|reflexivity| |not_block Hc].
    eapply (E_others s _ t x); [exact HE|exact Hx|reflexivity|same_tok| |not_notifying Hc Hp].
    intros k0 H. cbn [lists set_bth set_klock set_lists]. destruct (Nat.eq_dec k0 b) as [->|Hk].
    + right. unfold notifyingb. cbn [b_cmd b_pc with_bpc]. rewrite Hc. apply Nat.eqb_refl.
    + left. now rewrite lget_nset_other.
  - (* move: notify *)
    inversion Hs; subst s'; clear Hs.
    eapply (E_notify s t x _ b); [exact HE|exact HR|exact Hx| | |].
    + intros k0 H. unfold notifyingb in H. rewrite Hc, Hp in H. apply Nat.eqb_eq in H. now subst.
    + intro k0. unfold notifyingb. cbn [b_cmd b_pc with_bpc]. now rewrite Hc.
    + intros ? ? ? H. cbn [b_cmd with_bpc] in H. rewrite Hc in H. discriminate.
  - (* blocking pop: start *)
    inversion Hs; subst s'; clear Hs.
    eapply (E_step s _ t x); [exact Hx|reflexivity| |intros; cbn [b_pc scope]; exact I].
    eapply (E_others s _ t x); [exact HE|exact Hx|reflexivity|same_tok|same_lists|not_notifying Hc Hp].
  - (* register *)
    destruct (nth_error ks i) as [k|]; [|discriminate].
    destruct (Nat.ltb (S i) (length ks)); inversion Hs; subst s'; clear Hs.
    + eapply (E_step s _ t x); [exact Hx|reflexivity| |intros; cbn [b_pc with_bpc scope]; exact I].
      eapply (E_others s _ t x); [exact HE|exact Hx|reflexivity|same_tok|same_lists|not_notifying Hc Hp].
    + eapply (E_step s _ t x); [exact Hx|reflexivity| |intros; cbn [b_pc scope]; intros j k0 Hj; lia].
      eapply (E_others s _ t x); [exact HE|exact Hx|reflexivity|same_tok|same_lists|not_notifying Hc Hp].
  - (* try *)
    destruct (nth_error ks i) as [k|] eqn:Hn; [|discriminate].
    destruct (lock_is_free k s); [|discriminate].
    destruct (pop_one sd (lget k (lists s))) as [[y r]|] eqn:Ep.
    + inversion Hs; subst s'; clear Hs.
      eapply (E_step s _ t x); [exact Hx|reflexivity| |intros; cbn [b_pc with_bpc scope]; exact I].
      eapply (E_others s _ t x); [exact HE|exact Hx|reflexivity|same_tok| |not_notifying Hc Hp].
      intros k0 H. cbn [lists set_bth set_lists]. destruct (Nat.eq_dec k0 k) as [->|Hk].
      * rewrite H, pop_nil in Ep. discriminate.
      * left. now rewrite lget_nset_other.
    + apply pop_none_nil in Ep.
      assert (Hold : mem t (tok s) = false -> forall j k0, (j < S i)%nat -> nth_error ks j = Some k0 -> quiet s k0).
      { intros Hm j k0 Hj Hnj. destruct (Nat.eq_dec j i) as [->|Hji].
        - rewrite Hn in Hnj. inversion Hnj; subst. now left.
        - pose proof (HE t x sd ks tmo Hx Hc Hm) as Hsc. rewrite Hp in Hsc. cbn [scope] in Hsc. apply (Hsc j k0); [lia|exact Hnj]. }
      assert (Hq : forall x', b_cmd x' = b_cmd x -> b_pc x' = BWTry (S i) \/ b_pc x' = BWSelect ->
                   forall k0, quiet s k0 -> quiet (set_bth t x' s) k0).
      { intros x' Hc' _ k0. apply (quiet_frame s _ t x x' k0 Hx); [reflexivity|intro H; now left|].
        intro H. unfold notifyingb in H. rewrite Hc in H. discriminate. }
      destruct (Nat.ltb (S i) (length ks)) eqn:Hlt; inversion Hs; subst s'; clear Hs.
      * eapply (E_step s _ t x); [exact Hx|reflexivity| |].
        -- eapply (E_others s _ t x); [exact HE|exact Hx|reflexivity|same_tok|same_lists|not_notifying Hc Hp].
        -- intros sd' ks' tmo' Hc' Hm. cbn [b_cmd b_pc with_bpc tok set_bth] in *. rewrite Hc in Hc'. inversion Hc'; subst.
           cbn [scope]. intros j k0 Hj Hnj. apply Hq; [reflexivity|now left|]. now apply (Hold Hm j k0).
      * eapply (E_step s _ t x); [exact Hx|reflexivity| |].
        -- eapply (E_others s _ t x); [exact HE|exact Hx|reflexivity|same_tok|same_lists|not_notifying Hc Hp].
        -- intros sd' ks' tmo' Hc' Hm. cbn [b_cmd b_pc with_bpc tok set_bth] in *. rewrite Hc in Hc'. inversion Hc'; subst.
           cbn [scope]. intros k0 Hin. apply Hq; [reflexivity|now right|].
           destruct (nth_error_lt_in _ _ Hin) as [j [Hj Hnj]]. apply Nat.ltb_ge in Hlt. apply (Hold Hm j k0); [lia|exact Hnj].
  - (* select: wake-up *)
    destruct (mem t (tok s)); [|discriminate]. inversion Hs; subst s'; clear Hs.
    eapply (E_step s _ t x); [exact Hx|reflexivity| |intros; cbn [b_pc with_bpc scope]; intros j k0 Hj; lia].
    eapply (E_others s _ t x); [exact HE|exact Hx|reflexivity| |same_lists|not_notifying Hc Hp].
    intros w Hne H. cbn [tok set_bth set_tok] in H. apply mem_false. apply mem_false in H. intro Hi. apply H.
    apply in_remove_all. now split.
  - (* deregister *)
    inversion Hs; subst s'; clear Hs.
    eapply (E_step s _ t x); [exact Hx|reflexivity| |intros; cbn [b_pc with_bpc scope]; exact I].
    eapply (E_others s _ t x); [exact HE|exact Hx|reflexivity|same_tok|same_lists|not_notifying Hc Hp].
Qed.

Lemma bstep_E o s s' : EInv s -> RInv s -> bstep o s = Some s' -> EInv s'.
Proof.
  intros HE HR Hs. destruct o as [t|t|d]; cbn [bstep] in Hs.
  - exact (step_run_E t s s' HE HR Hs).
  - destruct (step_fire_shape t s s' Hs) as [x [sd [ks [tmo [Hx [Hc [Hp ->]]]]]]].
    eapply (E_step s _ t x); [exact Hx|reflexivity| |intros; cbn [b_pc with_bpc scope]; exact I].
    eapply (E_others s _ t x); [exact HE|exact Hx|reflexivity|same_tok|same_lists|not_notifying Hc Hp].
  - destruct (0 <=? d)%Z; [|discriminate]. inversion Hs; subst s'. exact HE.
Qed.
Lemma binit_E ls cmds : EInv (binit ls cmds).
Proof.
  intros t x sd ks tmo Hx Hc _. unfold binit in Hx. cbn [bths] in Hx. apply nget_combine_in in Hx.
  apply in_map_iff in Hx. destruct Hx as [c [<- _]]. cbn. exact I.
Qed.
Theorem brun_RE sched : forall s, RInv s /\ EInv s -> RInv (brun sched s) /\ EInv (brun sched s).
Proof.
  induction sched as [|o r IH]; intros s H; [exact H|].
  unfold brun. cbn [fold_left]. fold (brun r). apply IH. unfold bapply.
  destruct (bstep o s) as [s'|] eqn:E; [|exact H]. destruct H as [HR HE].
  split; [exact (bstep_R o s s' HR E)|exact (bstep_E o s s' HE HR E)].
Qed.

(* no lost wake-up: in every reachable state, a consumer that sleeps in its select with no pending
   wake-up has nothing to pop - each of its keys is empty, or is being filled by a push that still
   holds the key lock and is about to send the wake-up (to this consumer too: it is registered) *)
Theorem no_lost_wakeup ls cmds sched t x sd ks tmo :
  let s := brun sched (binit ls cmds) in
  nget t (bths s) = Some x -> b_cmd x = BBlock sd ks tmo -> b_pc x = BWSelect -> mem t (tok s) = false ->
  forall k, In k ks ->
    In t (rget k (reg s)) /\
    (lget k (lists s) = [] \/ exists u y, nget u (bths s) = Some y /\ notifyingb y k = true /\ nget k (klock s) = Some u).
Proof.
  intros s Hx Hc Hp Hm k Hin.
  destruct (brun_RE sched _ (conj (binit_R ls cmds) (binit_E ls cmds))) as [HR HE]. fold s in HR, HE.
  pose proof (HR t x sd ks tmo Hx Hc) as Hr. pose proof (HE t x sd ks tmo Hx Hc Hm) as He.
  rewrite Hp in Hr, He. cbn [registered scope] in Hr, He. split; [now apply Hr|].
  destruct (He k Hin) as [H|[u [y [Hy Hn]]]]; [now left|]. right. exists u, y. split; [exact Hy|]. split; [exact Hn|].
  destruct (brun_L sched _ (binit_L ls cmds)) as [_ L2]. fold s in L2. apply (L2 u y k Hy). now apply notifying_holds.
Qed.
