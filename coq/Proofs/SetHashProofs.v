(* Hashes and sets over the ordered-map model. *)
From Nodis Require Import Base.Bytes Model.Num Model.FMap Model.DsHash Model.DsSet Proofs.FMapProofs.
From Coq Require Import ZArith List Bool Lia.
Local Open Scope Z_scope.

(* ---- sets ---------------------------------------------------------------------- *)
Definition set_inv (s : setv) : Prop := sorted s.

Lemma set_mem_in m (s : setv) : set_inv s -> (set_mem m s = true <-> In m (set_members s)).
Proof.
  intro H. unfold set_mem, fm_mem, set_members, fm_keys. split.
  - destruct (fm_get m s) as [[]|] eqn:E; [|discriminate]. intros _.
    apply (get_in m tt s H) in E. apply in_map_iff. now exists (m, tt).
  - intro I. apply in_map_iff in I. destruct I as [[k []] [<- I]]. simpl.
    apply (get_in k tt s H) in I. now rewrite I.
Qed.

Lemma sadd_inv ms s : set_inv s -> set_inv (snd (set_sadd ms s)).
Proof.
  revert s. induction ms as [|m r IH]; intros s H; simpl; [exact H|].
  destruct (fm_set m tt s) as [s1 upd] eqn:E1.
  assert (H1 : set_inv s1) by (pose proof (set_sorted m tt s H) as Q; now rewrite E1 in Q).
  specialize (IH s1 H1). destruct (set_sadd r s1) as [n s2]. exact IH.
Qed.
Lemma srem_inv ms s : set_inv s -> set_inv (snd (set_srem ms s)).
Proof.
  revert s. induction ms as [|m r IH]; intros s H; simpl; [exact H|].
  destruct (fm_del m s) as [s1 d] eqn:E1.
  assert (H1 : set_inv s1) by (pose proof (del_sorted m s H) as Q; now rewrite E1 in Q).
  specialize (IH s1 H1). destruct (set_srem r s1) as [n s2]. exact IH.
Qed.

(* membership after SADD: exactly the old members and the added ones *)
Lemma sadd_mem ms s x : set_inv s ->
  set_mem x (snd (set_sadd ms s)) = set_mem x s || existsb (bytes_eqb x) ms.
Proof.
  revert s. induction ms as [|m r IH]; intros s H; simpl; [now rewrite orb_false_r|].
  destruct (fm_set m tt s) as [s1 upd] eqn:E1.
  assert (H1 : set_inv s1) by (pose proof (set_sorted m tt s H) as Q; now rewrite E1 in Q).
  specialize (IH s1 H1). destruct (set_sadd r s1) as [n s2]. simpl in *. rewrite IH.
  unfold set_mem, fm_mem.
  destruct (bytes_eqb x m) eqn:Ex.
  - apply bytes_eqb_eq in Ex. subst x.
    pose proof (get_set_same m tt s) as G. rewrite E1 in G. simpl in G. rewrite G.
    simpl. now rewrite orb_true_r.
  - assert (Hne : x <> m) by (now apply bytes_eqb_neq).
    pose proof (get_set_other m x tt s H Hne) as G. rewrite E1 in G. simpl in G. now rewrite G.
Qed.

(* SCARD is the number of members enumerated *)
Lemma scard_exact (s : setv) : set_card s = Z.of_nat (length (set_members s)).
Proof. unfold set_card, set_members, fm_keys. now rewrite map_length. Qed.

(* set algebra, every operand being a set *)
Lemma sinter_spec s others m :
  In m (set_sinter s others) <-> In m (set_members s) /\ forallb (fun o => set_mem m o) others = true.
Proof. unfold set_sinter. apply filter_In. Qed.
Lemma sdiff_spec s others m :
  In m (set_sdiff s others) <-> In m (set_members s) /\ existsb (fun o => set_mem m o) others = false.
Proof.
  unfold set_sdiff. rewrite filter_In. split; intros [A B]; split; auto.
  - now apply negb_true_iff in B.
  - now apply negb_true_iff.
Qed.
Lemma sunion_spec s others m :
  In m (set_sunion s others) <->
  In m (set_members s) \/ exists o, In o others /\ In m (set_members o) /\ set_mem m s = false.
Proof.
  unfold set_sunion. rewrite in_app_iff, in_flat_map. split.
  - intros [A|[o [Io F]]]; [now left|]. apply filter_In in F. destruct F as [F1 F2].
    right. exists o. repeat split; auto. now apply negb_true_iff in F2.
  - intros [A|[o [Io [F1 F2]]]]; [now left|]. right. exists o. split; auto.
    apply filter_In. split; auto. now apply negb_true_iff.
Qed.

(* SPOP: what is popped and what is kept partition the members, in order *)
Lemma spop_scan_partition c t ms p k :
  spop_scan c t ms = (p, k) ->
  (forall x, In x ms <-> In x p \/ In x k) /\ (length p + length k = length ms)%nat
  /\ Z.of_nat (length p) <= Z.max 0 c.
Proof.
  revert c t p k. induction ms as [|m r IH]; intros c t p k; simpl.
  - intro H. inversion H; subst. simpl. repeat split; try tauto; lia.
  - destruct (t && (0 <? c)) eqn:E.
    + destruct (spop_scan (c - 1) false r) as [p' k'] eqn:Er. intro H. inversion H; subst.
      destruct (IH _ _ _ _ Er) as [I1 [I2 I3]].
      apply andb_true_iff in E. destruct E as [_ Ec]. apply Z.ltb_lt in Ec.
      repeat split.
      * intros [->|Hx]; [left; now left|]. apply I1 in Hx. destruct Hx; [left; now right|now right].
      * intros [[->|Hx]|Hx]; [now left| right; apply I1; now left | right; apply I1; now right].
      * simpl. lia.
      * simpl length. lia.
    + destruct (spop_scan c true r) as [p' k'] eqn:Er. intro H. inversion H; subst.
      destruct (IH _ _ _ _ Er) as [I1 [I2 I3]].
      repeat split.
      * intros [->|Hx]; [right; now left|]. apply I1 in Hx. destruct Hx; [now left|right; now right].
      * intros [Hx|[->|Hx]]; [right; apply I1; now left | now left | right; apply I1; now right].
      * simpl. lia.
      * exact I3.
Qed.

Lemma spop_scan_nodup c t ms p k : NoDup ms -> spop_scan c t ms = (p, k) -> NoDup p /\ NoDup k
  /\ (forall x, In x p -> ~ In x k).
Proof.
  revert c t p k. induction ms as [|m r IH]; intros c t p k ND; simpl.
  - intro H. inversion H; subst. repeat split; try constructor. intros x [].
  - inversion ND as [|? ? Hnin ND']; subst.
    destruct (t && (0 <? c)).
    + destruct (spop_scan (c - 1) false r) as [p' k'] eqn:Er. intro H. inversion H; subst.
      destruct (IH _ _ _ _ ND' Er) as [N1 [N2 N3]].
      destruct (spop_scan_partition _ _ _ _ _ Er) as [I1 _].
      repeat split; auto.
      * constructor; auto. intro Hp. apply Hnin. apply I1. now left.
      * intros x [->|Hx] Hk; [apply Hnin; apply I1; now right | exact (N3 x Hx Hk)].
    + destruct (spop_scan c true r) as [p' k'] eqn:Er. intro H. inversion H; subst.
      destruct (IH _ _ _ _ ND' Er) as [N1 [N2 N3]].
      destruct (spop_scan_partition _ _ _ _ _ Er) as [I1 _].
      repeat split; auto.
      * constructor; auto. intro Hk. apply Hnin. apply I1. now right.
      * intros x Hx [->|Hk]; [apply Hnin; apply I1; now left | exact (N3 x Hx Hk)].
Qed.

(* ---- hashes -------------------------------------------------------------------- *)
Definition hash_inv (h : hashv) : Prop := sorted h.

Lemma hset_inv f v h : hash_inv h -> hash_inv (snd (hash_hset f v h)).
Proof.
  intro H. unfold hash_hset. destruct (fm_set f v h) as [h' rep] eqn:E. simpl.
  pose proof (set_sorted f v h H) as Q. now rewrite E in Q.
Qed.
Lemma hget_hset_same f v h : hash_hget f (snd (hash_hset f v h)) = Some v.
Proof.
  unfold hash_hget, hash_hset. pose proof (get_set_same f v h) as G.
  destruct (fm_set f v h) as [h' rep]. exact G.
Qed.
Lemma hget_hset_other f g v h : hash_inv h -> g <> f -> hash_hget g (snd (hash_hset f v h)) = hash_hget g h.
Proof.
  intros H N. unfold hash_hget, hash_hset. pose proof (get_set_other f g v h H N) as G.
  destruct (fm_set f v h) as [h' rep]. exact G.
Qed.
(* HSET answers 1 exactly when the field is new *)
Lemma hset_reply f v h : hash_inv h -> fst (hash_hset f v h) = if hash_hexists f h then 0 else 1.
Proof.
  intro H. unfold hash_hset, hash_hexists. pose proof (set_replaced_iff f v h H) as R.
  destruct (fm_set f v h) as [h' rep]. simpl in *. subst rep. now destruct (fm_mem f h).
Qed.
Lemma hlen_exact (h : hashv) : hash_hlen h = Z.of_nat (length (fm_keys h)).
Proof. unfold hash_hlen, fm_keys. now rewrite map_length. Qed.
