(* strconv.FormatInt / ParseInt round trip on non-negative numbers (lengths, counts). *)
From Nodis Require Import Base.Bytes Model.Num.
From Coq Require Import ZArith NArith List Bool Lia ZifyN ZifyNat ZifyBool.
Ltac Zify.zify_post_hook ::= Z.div_mod_to_equations.
Local Open Scope Z_scope.

Definition dig (d : Z) : byte := n2b (Z.to_N (d + 48)).

Lemma dig_b2n d : 0 <= d < 10 -> b2n (dig d) = Z.to_N (d + 48).
Proof. intro H. unfold dig. apply b2n_n2b. lia. Qed.
Lemma dig_is_digit d : 0 <= d < 10 -> is_digit (dig d) = true.
Proof. intro H. unfold is_digit. rewrite dig_b2n by exact H. lia. Qed.
Lemma dig_val d : 0 <= d < 10 -> digit_val (dig d) = d.
Proof. intro H. unfold digit_val. rewrite dig_b2n by exact H. lia. Qed.
Lemma byte_neq_by_code a c : b2n a <> b2n c -> byte_eqb a c = false.
Proof.
  intro H. destruct (byte_eqb a c) eqn:E; [|reflexivity].
  apply byte_eqb_eq in E. subst. congruence.
Qed.
Lemma dig_not_minus d : 0 <= d < 10 -> byte_eqb (dig d) x2d = false /\ byte_eqb (dig d) x2b = false
                                       /\ byte_eqb (dig d) x0a = false.
Proof.
  intro H. repeat split; apply byte_neq_by_code; rewrite dig_b2n by exact H.
  - change (b2n x2d) with 45%N. lia.
  - change (b2n x2b) with 43%N. lia.
  - change (b2n x0a) with 10%N. lia.
Qed.

Lemma digits_val_app xs ys a :
  digits_val (xs ++ ys) a = match digits_val xs a with Some v => digits_val ys v | None => None end.
Proof.
  revert a. induction xs as [|x r IH]; intro a; simpl; [reflexivity|].
  destruct (is_digit x); [apply IH|reflexivity].
Qed.

(* all bytes produced by digits_pos are digits; the value is recovered *)
Lemma digits_pos_spec : forall f z acc,
  0 <= z -> z < 10 ^ Z.of_nat f -> (1 <= f)%nat ->
  exists ds, digits_pos f z acc = ds ++ acc /\ ds <> [] /\ Forall (fun b => exists d, 0 <= d < 10 /\ b = dig d) ds
             /\ forall a, digits_val ds a = Some (a * 10 ^ Z.of_nat (length ds) + z).
Proof.
  induction f as [|f IH]; intros z acc Hz Hlt Hf; [lia|].
  cbn [digits_pos].
  assert (Hd : 0 <= z mod 10 < 10) by (apply Z.mod_pos_bound; lia).
  change (n2b (Z.to_N (z mod 10 + 48))) with (dig (z mod 10)).
  destruct (z <? 10) eqn:E.
  - apply Z.ltb_lt in E. exists [dig (z mod 10)]. repeat split.
    + discriminate.
    + constructor; [eauto|constructor].
    + intro a. cbn [digits_val]. rewrite dig_is_digit, dig_val by exact Hd. cbn [length].
      f_equal. rewrite Z.mod_small by lia. change (10 ^ Z.of_nat 1) with 10. lia.
  - apply Z.ltb_ge in E.
    destruct f as [|f'].
    { change (10 ^ Z.of_nat 1) with 10 in Hlt. lia. }
    assert (Hq : z / 10 < 10 ^ Z.of_nat (S f')).
    { rewrite Nat2Z.inj_succ, Z.pow_succ_r in Hlt by lia. apply Z.div_lt_upper_bound; lia. }
    destruct (IH (z / 10) (dig (z mod 10) :: acc)) as [ds [E1 [Hne [Hall Hv]]]]; [apply Z.div_pos; lia | exact Hq | lia |].
    exists (ds ++ [dig (z mod 10)]). repeat split.
    + rewrite E1. now rewrite <- app_assoc.
    + destruct ds; discriminate.
    + apply Forall_app. split; [exact Hall|]. constructor; [eauto|constructor].
    + intro a. rewrite digits_val_app, Hv. cbn [digits_val].
      rewrite dig_is_digit, dig_val by exact Hd. f_equal.
      rewrite app_length. cbn [length]. rewrite Nat2Z.inj_add. change (Z.of_nat 1) with 1.
      rewrite Z.pow_add_r by lia. change (10 ^ 1) with 10.
      pose proof (Z.div_mod z 10). lia.
Qed.

Theorem parse_format_nonneg z : 0 <= z < two63 -> parse_int (format_int z) = Some z.
Proof.
  intros [H0 H1]. unfold format_int.
  assert (E : (z <? 0) = false) by lia. rewrite E.
  destruct (digits_pos_spec 40 z [] H0) as [ds [E1 [Hne [Hall Hv]]]].
  - unfold two63 in H1. change (10 ^ Z.of_nat 40) with 10000000000000000000000000000000000000000. lia.
  - lia.
  - rewrite E1, app_nil_r. unfold parse_int, parse_signed.
    destruct ds as [|b r]; [congruence|].
    inversion Hall as [|? ? [d [Hd ->]] _]; subst.
    destruct (dig_not_minus d Hd) as [N1 [N2 _]]. rewrite N1, N2.
    rewrite Hv. replace (0 * 10 ^ Z.of_nat (length (dig d :: r)) + z) with z by lia.
    assert (G : in_int64 z = true) by (unfold in_int64, two63 in *; lia).
    now rewrite G.
Qed.

(* the decimal rendering of a non-negative number contains no line feed and is not empty *)
Lemma format_int_digits z : 0 <= z < two63 ->
  format_int z <> [] /\ Forall (fun b => byte_eqb b x0a = false) (format_int z).
Proof.
  intros [H0 H1]. unfold format_int.
  assert (E : (z <? 0) = false) by lia. rewrite E.
  destruct (digits_pos_spec 40 z [] H0) as [ds [E1 [Hne [Hall Hv]]]].
  - unfold two63 in H1. change (10 ^ Z.of_nat 40) with 10000000000000000000000000000000000000000. lia.
  - lia.
  - rewrite E1, app_nil_r. split; [exact Hne|].
    eapply Forall_impl; [|exact Hall]. intros b [d [Hd ->]]. apply (dig_not_minus d Hd).
Qed.

(* negative numbers *)
Theorem parse_format_int z : - two63 <= z < two63 -> parse_int (format_int z) = Some z.
Proof.
  intro H. destruct (Z_lt_ge_dec z 0) as [Hn|Hp]; [|apply parse_format_nonneg; lia].
  unfold format_int. assert (E : (z <? 0) = true) by lia. rewrite E.
  assert (H0 : 0 <= - z) by lia.
  destruct (digits_pos_spec 40 (- z) [] H0) as [ds [E1 [Hne [Hall Hv]]]].
  - unfold two63 in H. change (10 ^ Z.of_nat 40) with 10000000000000000000000000000000000000000. lia.
  - lia.
  - rewrite E1, app_nil_r. unfold parse_int, parse_signed.
    change (byte_eqb x2d x2d) with true. cbv iota.
    destruct ds as [|b r]; [congruence|].
    rewrite Hv. cbn [option_map].
    replace (- (0 * 10 ^ Z.of_nat (length (b :: r)) + - z)) with z by lia.
    assert (G : in_int64 z = true) by (unfold in_int64, two63 in *; lia).
    now rewrite G.
Qed.
Lemma format_int_noLF z : - two63 <= z < two63 ->
  format_int z <> [] /\ Forall (fun b => byte_eqb b x0a = false) (format_int z).
Proof.
  intro H. destruct (Z_lt_ge_dec z 0) as [Hn|Hp]; [|apply format_int_digits; lia].
  unfold format_int. assert (E : (z <? 0) = true) by lia. rewrite E.
  assert (H0 : 0 <= - z) by lia.
  destruct (digits_pos_spec 40 (- z) [] H0) as [ds [E1 [Hne [Hall Hv]]]].
  - unfold two63 in H. change (10 ^ Z.of_nat 40) with 10000000000000000000000000000000000000000. lia.
  - lia.
  - rewrite E1, app_nil_r. split; [discriminate|]. constructor; [reflexivity|].
    eapply Forall_impl; [|exact Hall]. intros b [d [Hd ->]]. apply (dig_not_minus d Hd).
Qed.
