(* C09: which writers tell the watchers.  A successful write of each of these commands ends with
   signalModifiedKey(key) followed by the notification: the newest two events of the log. *)
From Nodis Require Import Base.Bytes Model.Num Model.FMap Model.DsStr Model.DsList Model.DsHash Model.DsSet
     Model.DsZSet Model.Db Model.Api.
From Coq Require Import ZArith List Bool.
Import ListNotations.
Local Open Scope Z_scope.

Definition signals (k : bytes) (d' : db) : Prop := exists p rest, events d' = EvNotify p :: EvSignal k :: rest.

Ltac fin_sig := unfold signals, notify, signal, emit, with_events; cbn [events]; eexists; eexists; reflexivity.

Lemma push_signals left k vs now d n d' : api_push left k vs now d = Ok n d' -> signals k d'.
Proof.
  unfold api_push. destruct (write_key k new_list now d) as [[m|] d1]; [|discriminate].
  destruct (as_list m d1); [|discriminate]. intro H. inversion H; subst. fin_sig.
Qed.
Lemma hset_signals k f v now d n d' : api_hset k f v now d = Ok n d' -> signals k d'.
Proof.
  unfold api_hset. destruct (write_key k new_hash now d) as [[m|] d1]; [|discriminate].
  destruct (as_hash m d1); [|discriminate]. destruct (hash_hset f v h). intro H. inversion H; subst. fin_sig.
Qed.
Lemma sadd_signals k ms now d n d' : api_sadd k ms now d = Ok n d' -> signals k d'.
Proof.
  unfold api_sadd. destruct (write_key k new_set now d) as [[m|] d1]; [|discriminate].
  destruct (as_set m d1); [|discriminate]. destruct (set_sadd ms s). intro H. inversion H; subst. fin_sig.
Qed.
Lemma zadd_signals mode k m s now d n d' : api_zadd_gen mode k m s now d = Ok n d' -> signals k d'.
Proof.
  unfold api_zadd_gen. destruct (write_key k new_zset now d) as [[mt|] d1]; [|discriminate].
  destruct (as_zset mt d1); [|discriminate].
  destruct (if mode =? 1 then _ else _). intro H. inversion H; subst. fin_sig.
Qed.
Lemma incr_signals k delta decr now d n d' : api_incr_gen k delta decr false now d = Ok (Some n) d' -> signals k d'.
Proof.
  unfold api_incr_gen. destruct (write_key k new_str now d) as [[m|] d1]; [|discriminate].
  destruct (as_str m d1); [|discriminate].
  destruct (if decr then _ else _) as [[n' s']|]; [|discriminate]. intro H. inversion H; subst. fin_sig.
Qed.
Lemma persist_signals k now d d' : api_persist k now d = (1, d') -> signals k d'.
Proof.
  unfold api_persist. destruct (write_key k None now d) as [[m|] d1]; [|discriminate].
  destruct (exp_of m d1 =? 0); [discriminate|]. intro H. inversion H; subst. fin_sig.
Qed.
Lemma expire_signals k m e d : signals k (exp_commit k m e d).
Proof. unfold exp_commit. fin_sig. Qed.
