(* Lists (layer L1): the cached length is always the element count; the range functions
   agree with the Redis index conventions outside the enumerated guards. *)
From Nodis Require Import Base.Bytes Model.Num Model.DsList Spec.Redis.
From Coq Require Import ZArith List Bool Lia.
Local Open Scope Z_scope.

Definition list_inv (l : listv) : Prop := ll l = zlength (lx l).

Lemma zlength_app {A} (a b : list A) : zlength (a ++ b) = zlength a + zlength b.
Proof. unfold zlength. rewrite app_length. lia. Qed.
Lemma zlength_rev {A} (a : list A) : zlength (rev a) = zlength a.
Proof. unfold zlength. now rewrite rev_length. Qed.
Lemma zlength_nonneg {A} (a : list A) : 0 <= zlength a.
Proof. unfold zlength. lia. Qed.

Lemma list_new_inv : list_inv list_new.
Proof. reflexivity. Qed.

Lemma lpush_inv vs l : list_inv l -> list_inv (list_lpush vs l).
Proof. unfold list_inv, list_lpush; simpl. intro H. rewrite zlength_app, zlength_rev. lia. Qed.
Lemma rpush_inv vs l : list_inv l -> list_inv (list_rpush vs l).
Proof. unfold list_inv, list_rpush; simpl. intro H. rewrite zlength_app. lia. Qed.

Lemma firstn_skipn_zlength {A} n (l : list A) : zlength (firstn n l) + zlength (skipn n l) = zlength l.
Proof. unfold zlength. rewrite <- Nat2Z.inj_add, <- app_length, firstn_skipn. reflexivity. Qed.

Lemma lpop_inv c l : list_inv l -> list_inv (snd (list_lpop c l)).
Proof.
  unfold list_inv, list_lpop. intro H.
  destruct (lx l) eqn:E; cbn [snd]; [now rewrite E|].
  destruct (c <=? 0); cbn [snd lx ll]; [now rewrite E|].
  rewrite <- E in *. pose proof (firstn_skipn_zlength (Z.to_nat (Z.min c (zlength (lx l)))) (lx l)). lia.
Qed.
Lemma rpop_inv c l : list_inv l -> list_inv (snd (list_rpop c l)).
Proof.
  unfold list_inv, list_rpop. intro H.
  destruct (lx l) eqn:E; cbn [snd]; [now rewrite E|].
  destruct (c <=? 0); cbn [snd lx ll]; [now rewrite E|].
  rewrite <- E in *. rewrite zlength_rev.
  pose proof (firstn_skipn_zlength (length (lx l) - Z.to_nat (Z.min c (zlength (lx l)))) (lx l)). lia.
Qed.

Lemma zlength_cons' {A} (x : A) l : zlength (x :: l) = 1 + zlength l.
Proof. unfold zlength. cbn [length]. lia. Qed.
Lemma insert_at_pivot_length p d b xs ys :
  insert_at_pivot p d b xs = Some ys -> zlength ys = zlength xs + 1.
Proof.
  revert ys. induction xs as [|x r IH]; intros ys; cbn [insert_at_pivot]; [discriminate|].
  destruct (bytes_eqb x p).
  - intro H. inversion H; subst. destruct b; rewrite !zlength_cons'; lia.
  - destruct (insert_at_pivot p d b r) eqn:E; [|discriminate].
    intro H. inversion H; subst. specialize (IH _ eq_refl). rewrite !zlength_cons'. lia.
Qed.
Lemma linsert_inv p d b l : list_inv l -> list_inv (snd (list_linsert p d b l)).
Proof.
  unfold list_inv, list_linsert. intro H.
  destruct (insert_at_pivot p d b (lx l)) eqn:E; cbn [snd lx ll]; [|exact H].
  apply insert_at_pivot_length in E. lia.
Qed.

Lemma zlength_cons {A} (x : A) l : zlength (x :: l) = 1 + zlength l.
Proof. unfold zlength. cbn [length]. lia. Qed.
Lemma zlength_nil {A} : zlength (@nil A) = 0.
Proof. reflexivity. Qed.

Lemma remove_first_length c all v xs :
  zlength (fst (remove_first c all v xs)) = zlength xs - snd (remove_first c all v xs).
Proof.
  revert c. induction xs as [|x r IH]; intro c; cbn [remove_first].
  - cbn [fst snd]. rewrite zlength_nil. lia.
  - destruct (bytes_eqb x v && (all || (0 <? c))).
    + specialize (IH (c - 1)). destruct (remove_first (c - 1) all v r) as [r' n]. cbn [fst snd] in *.
      rewrite zlength_cons. lia.
    + specialize (IH c). destruct (remove_first c all v r) as [r' n]. cbn [fst snd] in *.
      rewrite !zlength_cons. lia.
Qed.
Lemma lrem_inv c v l : list_inv l -> list_inv (snd (list_lrem c v l)).
Proof.
  unfold list_inv, list_lrem. intro H.
  destruct (c >? 0).
  - pose proof (remove_first_length c false v (lx l)) as R.
    destruct (remove_first c false v (lx l)) as [xs n]. cbn [fst snd lx ll] in *. lia.
  - destruct (c <? 0).
    + pose proof (remove_first_length (- c) false v (rev (lx l))) as R.
      destruct (remove_first (- c) false v (rev (lx l))) as [xs n]. cbn [fst snd lx ll] in *.
      rewrite !zlength_rev in *. lia.
    + pose proof (remove_first_length 0 true v (lx l)) as R.
      destruct (remove_first 0 true v (lx l)) as [xs n]. cbn [fst snd lx ll] in *. lia.
Qed.

Lemma set_nth_b_length xs i v ys : set_nth_b xs i v = Some ys -> zlength ys = zlength xs.
Proof.
  revert i ys. induction xs as [|x r IH]; intros i ys; cbn [set_nth_b]; [destruct i; discriminate|].
  destruct i.
  - intro H. inversion H. rewrite !zlength_cons. reflexivity.
  - destruct (set_nth_b r i v) eqn:E; [|discriminate].
    intro H. inversion H; subst. specialize (IH _ _ E). rewrite !zlength_cons. lia.
Qed.
Lemma lset_inv i v l : list_inv l -> list_inv (snd (list_lset i v l)).
Proof.
  unfold list_inv, list_lset. intro H.
  destruct ((i <? 0) || (i >=? zlength (lx l))); cbn [snd lx ll]; [exact H|].
  destruct (set_nth_b (lx l) (Z.to_nat i) v) eqn:E; cbn [snd lx ll]; [|exact H].
  apply set_nth_b_length in E. lia.
Qed.
Lemma ltrim_inv a b l : list_inv l -> list_inv (list_ltrim a b l).
Proof. unfold list_inv, list_ltrim. cbn [lx ll]. intro H. lia. Qed.

(* ---- agreement with the Redis index conventions ------------------------------- *)
(* the deviation guard of forEach: a non-zero start that is not below the raw stop *)
Definition lrange_guard (a b : Z) : bool := negb (a =? 0) && (a >=? b).

Lemma list_range_spec a b l :
  lrange_guard a b = false -> list_range a b l = slice_range (lx l) a b.
Proof.
  unfold lrange_guard, list_range, slice_range, norm_range. intro G. rewrite G.
  fold (zlength (lx l)). set (n := zlength (lx l)). pose proof (zlength_nonneg (lx l)) as Hn. fold n in Hn.
  destruct (a <? 0) eqn:Ea; destruct (b <? 0) eqn:Eb;
    repeat match goal with
           | |- context [if ?c then _ else _] => let E := fresh "E" in destruct c eqn:E
           end; try reflexivity; try lia;
    try (f_equal; [f_equal; lia | f_equal; lia]).
Qed.

(* LRANGE k 1 -1 on a two-element list: the guard fires and the answers differ *)
Example lrange_guard_real :
  lrange_guard 1 (-1) = true /\
  list_range 1 (-1) {| lx := [[x61]; [x62]]; ll := 2 |} = [] /\
  slice_range [[x61]; [x62]] 1 (-1) = [[x62]].
Proof. vm_compute. auto. Qed.

(* LTRIM agrees when start >= 0 (only the stop is normalised by the code) *)
Lemma list_ltrim_spec a b l : 0 <= a -> lx (list_ltrim a b l) = slice_range (lx l) a b.
Proof.
  unfold list_ltrim, slice_range, norm_range. simpl. intro Ha.
  fold (zlength (lx l)). set (n := zlength (lx l)). pose proof (zlength_nonneg (lx l)) as Hn. fold n in Hn.
  assert (Ea : (a <? 0) = false) by lia. rewrite Ea.
  destruct (b <? 0) eqn:Eb;
    repeat match goal with
           | |- context [if ?c then _ else _] => let E := fresh "E" in destruct c eqn:E
           end; try reflexivity; try lia;
    try (f_equal; [f_equal; lia | f_equal; lia]).
Qed.
Example ltrim_negative_start_real :
  lx (list_ltrim (-1) (-1) {| lx := [[x61]; [x62]]; ll := 2 |}) = [[x61]; [x62]] /\
  slice_range [[x61]; [x62]] (-1) (-1) = [[x62]].
Proof. vm_compute. auto. Qed.
