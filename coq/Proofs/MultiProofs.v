(* MULTI / EXEC / DISCARD / WATCH on the connection model. *)
From Nodis Require Import Base.Bytes Model.Num Model.FMap Model.Db Model.Api Model.Handlers Model.Conn
     Proofs.FMapProofs Proofs.DbProofs Proofs.ReplyProofs Proofs.HandlerReplyProofs.
From Coq Require Import ZArith NArith List Bool Lia.
Local Open Scope Z_scope.

Definition special (name : bytes) : bool :=
  bytes_eqb name n_MULTI || bytes_eqb name n_DISCARD || bytes_eqb name n_WATCH
  || bytes_eqb name n_UNWATCH || bytes_eqb name n_EXEC.

Lemma special_false name : special name = false ->
  bytes_eqb name n_MULTI = false /\ bytes_eqb name n_DISCARD = false /\ bytes_eqb name n_WATCH = false
  /\ bytes_eqb name n_UNWATCH = false /\ bytes_eqb name n_EXEC = false.
Proof.
  unfold special. intro H. repeat (apply orb_false_iff in H; destruct H as [H ?]). auto.
Qed.

Lemma apply_signals_nothing n0 s : n0 = length (events (s_db s)) -> apply_signals n0 s = s.
Proof. intros ->. unfold apply_signals. now rewrite Nat.sub_diag. Qed.
Lemma apply_signals_db n0 s : s_db (apply_signals n0 s) = s_db s.
Proof.
  unfold apply_signals. generalize (rev (firstn (length (events (s_db s)) - n0) (events (s_db s)))).
  intro evs. revert s. induction evs as [|e r IH]; intro s; cbn [fold_left]; [reflexivity|].
  rewrite IH. destruct e; try reflexivity.
  unfold flag_watchers. destruct (fm_get k (s_registry s)) as [cs|]; [|reflexivity].
  revert s. induction cs as [|c cs IHc]; intro s; cbn [fold_left]; [reflexivity|]. now rewrite IHc.
Qed.

(* Between MULTI and EXEC a data command is only queued: acknowledged with QUEUED, the
   keyspace is untouched, the body is appended to this connection's queue *)
Theorem queued_not_executed : forall c name args now s h body,
  c_prepare (get_conn c s) = true -> special name = false ->
  lookup_cmd name cmd_table = Some h -> h args = HBody body ->
  exists s', serve c name args now s = Some (s', [WStr s_QUEUED]) /\ s_db s' = s_db s
             /\ c_queue (get_conn c s') = c_queue (get_conn c s) ++ [body]
             /\ c_prepare (get_conn c s') = true.
Proof.
  intros c name args now s h body Hp Hsp L Hb.
  destruct (special_false name Hsp) as [M1 [M2 [M3 [M4 M5]]]].
  unfold serve. cbv zeta. rewrite M1, M2, M3, M4, M5, L, Hb, Hp. cbn [negb].
  unfold finish_cmd. cbn [app has_err existsb]. cbn [andb].
  eexists. split; [reflexivity|].
  rewrite apply_signals_nothing by reflexivity.
  unfold put_conn, get_conn. cbn [s_db s_conns]. rewrite !nm_get_set_same. cbn [c_queue c_prepare].
  repeat split.
Qed.

(* DISCARD: nothing runs, the connection is back to its initial mode *)
Theorem discard_resets : forall c args now s,
  exists s', serve c n_DISCARD args now s = Some (s', [WOK]) /\ s_db s' = s_db s /\ get_conn c s' = conn_new.
Proof.
  intros c args now s. unfold serve. cbv zeta.
  change (bytes_eqb n_DISCARD n_MULTI) with false. change (bytes_eqb n_DISCARD n_DISCARD) with true. cbv iota.
  unfold finish_cmd. cbn [has_err existsb andb]. eexists. split; [reflexivity|].
  rewrite apply_signals_nothing by reflexivity.
  unfold put_conn, get_conn. cbn [s_db s_conns]. rewrite !nm_get_set_same. repeat split.
Qed.

(* EXEC after a queue-time error: aborted, nothing runs, connection reset *)
Theorem exec_aborted_runs_nothing : forall c args now s,
  c_prepare (get_conn c s) = true -> c_error (get_conn c s) = true ->
  exists s', serve c n_EXEC args now s = Some (s', [WErr]) /\ s_db s' = s_db s /\ get_conn c s' = conn_new.
Proof.
  intros c args now s Hp He. unfold serve. cbv zeta.
  change (bytes_eqb n_EXEC n_MULTI) with false. change (bytes_eqb n_EXEC n_DISCARD) with false.
  change (bytes_eqb n_EXEC n_WATCH) with false. change (bytes_eqb n_EXEC n_UNWATCH) with false.
  change (bytes_eqb n_EXEC n_EXEC) with true. cbv iota. rewrite Hp, He. cbn [negb].
  unfold finish_cmd. cbn [has_err existsb orb andb].
  eexists. split; [reflexivity|].
  rewrite apply_signals_nothing by reflexivity.
  unfold put_conn, get_conn. cbn [s_db s_conns]. rewrite !nm_get_set_same. cbn [c_prepare c_error orb].
  repeat split.
Qed.

(* EXEC with a modified watched key: null reply, nothing runs, connection reset *)
(* for every queue, the empty one included (the code used to answer *0 on an empty queue before it
   looked at the watch flags; repaired, see known_findings.txt) *)
Theorem exec_watch_abort : forall c args now s,
  c_prepare (get_conn c s) = true -> c_error (get_conn c s) = false ->
  existsb (fun kv => snd kv) (c_watch (get_conn c s)) = true ->
  exists s', serve c n_EXEC args now s = Some (s', [WNullBulk]) /\ s_db s' = s_db s /\ get_conn c s' = conn_new.
Proof.
  intros c args now s Hp He Hw. unfold serve. cbv zeta.
  change (bytes_eqb n_EXEC n_MULTI) with false. change (bytes_eqb n_EXEC n_DISCARD) with false.
  change (bytes_eqb n_EXEC n_WATCH) with false. change (bytes_eqb n_EXEC n_UNWATCH) with false.
  change (bytes_eqb n_EXEC n_EXEC) with true. cbv iota. rewrite Hp, He, Hw. cbn [negb].
  unfold finish_cmd. cbn [has_err existsb orb andb].
  eexists. split; [reflexivity|].
  rewrite apply_signals_nothing by reflexivity.
  unfold put_conn, get_conn. cbn [s_db s_conns]. rewrite !nm_get_set_same. repeat split.
Qed.

(* EXEC otherwise: the queue is run exactly once, in order, from the state at EXEC; one
   reply per queued command; a failing body does not stop the following ones; reset *)
Theorem exec_runs_queue_once_in_order : forall c args now s b q,
  c_prepare (get_conn c s) = true -> c_error (get_conn c s) = false -> c_queue (get_conn c s) = b :: q ->
  existsb (fun kv => snd kv) (c_watch (get_conn c s)) = false ->
  match run_queue (b :: q) now (s_db s) with
  | Some (acts, d') =>
      exists s', serve c n_EXEC args now s = Some (s', WArr (Z.of_nat (length (b :: q))) :: acts)
                 /\ s_db s' = d' /\ get_conn c s' = conn_new
  | None => serve c n_EXEC args now s = None
  end.
Proof.
  intros c args now s b q Hp He Hq Hw. unfold serve. cbv zeta.
  change (bytes_eqb n_EXEC n_MULTI) with false. change (bytes_eqb n_EXEC n_DISCARD) with false.
  change (bytes_eqb n_EXEC n_WATCH) with false. change (bytes_eqb n_EXEC n_UNWATCH) with false.
  change (bytes_eqb n_EXEC n_EXEC) with true. cbv iota. rewrite Hp, He, Hw, Hq. cbn [negb].
  destruct (run_queue (b :: q) now (s_db s)) as [[acts d']|]; [|reflexivity].
  eexists. split; [reflexivity|].
  unfold put_conn, get_conn. cbn [s_db s_conns]. rewrite apply_signals_db. cbn [s_db].
  rewrite !nm_get_set_same. repeat split.
Qed.
(* run_queue is the left-to-right composition of the bodies *)
Lemma run_queue_cons b q now d :
  run_queue (b :: q) now d =
  match run_body b now d with
  | Some (a1, d1) => match run_queue q now d1 with Some (a2, d2) => Some (a1 ++ a2, d2) | None => None end
  | None => None
  end.
Proof. reflexivity. Qed.

(* ---- WATCH ------------------------------------------------------------------------- *)
(* a signal for key k flags every connection the registry holds for k *)
Lemma flag_watchers_flags k s c : 
  (exists cs, fm_get k (s_registry s) = Some cs /\ In c cs) ->
  fm_get k (c_watch (get_conn c (flag_watchers k s))) = Some true.
Proof.
  intros [cs [G I]]. unfold flag_watchers. rewrite G.
  assert (Gen : forall l st, (In c l \/ fm_get k (c_watch (get_conn c st)) = Some true) ->
          fm_get k (c_watch (get_conn c (fold_left (fun st0 c0 =>
             put_conn c0 {| c_prepare := c_prepare (get_conn c0 st0); c_error := c_error (get_conn c0 st0);
                            c_queue := c_queue (get_conn c0 st0);
                            c_watch := fst (fm_set k true (c_watch (get_conn c0 st0))) |} st0) l st))) = Some true).
  { induction l as [|c0 r IH]; intros st H; cbn [fold_left].
    - destruct H as [[]|H]; exact H.
    - apply IH. destruct (Nat.eq_dec c c0) as [->|N].
      + right. unfold put_conn, get_conn at 1. cbn [s_conns]. rewrite nm_get_set_same. cbn [c_watch].
        apply get_set_same.
      + destruct H as [[E|H]|H]; [congruence | now left |].
        right. unfold put_conn, get_conn at 1. cbn [s_conns]. rewrite nm_get_set_other by exact N. exact H. }
  apply Gen. now left.
Qed.
