(* C07: a move that runs alone conserves the elements, for all lengths (symbolic evaluation of the
   micro-steps of coq/Model/Conc.v). *)
From Nodis Require Import Model.Conc.
From Coq Require Import ZArith List Bool Arith Lia.
Import ListNotations.
Local Open Scope Z_scope.

Lemma move_alone_conserves va vb : 1 < va ->
  let s := run_micro (repeat 0%nat 9) (init_state [(1%nat, va); (2%nat, vb)] [Move 1 2]) in
  key_val 1 s = Some (va - 1) /\ key_val 2 s = Some (vb + 1) /\ reply_of 0 s = Some 1.
Proof.
  intros H. assert (E1 : (va <=? 0) = false) by lia. assert (E2 : (va - 1 =? 0) = false) by lia.
  cbv [run_micro fold_left init_state repeat]. cbn -[Z.leb Z.eqb Z.sub Z.add].
  repeat (rewrite ?E1, ?E2; cbn -[Z.leb Z.eqb Z.sub Z.add]).
  repeat split; reflexivity.
Qed.
Lemma move_last_element vb :
  let s := run_micro (repeat 0%nat 10) (init_state [(1%nat, 1); (2%nat, vb)] [Move 1 2]) in
  key_val 1 s = None /\ key_val 2 s = Some (vb + 1) /\ reply_of 0 s = Some 1.
Proof. cbv [run_micro fold_left init_state repeat]. cbn -[Z.add]. repeat split; reflexivity. Qed.
Lemma move_creates_destination va : 1 < va ->
  let s := run_micro (repeat 0%nat 9) (init_state [(1%nat, va)] [Move 1 2]) in
  key_val 1 s = Some (va - 1) /\ key_val 2 s = Some 1 /\ reply_of 0 s = Some 1.
Proof.
  intros H. assert (E1 : (va <=? 0) = false) by lia. assert (E2 : (va - 1 =? 0) = false) by lia.
  cbv [run_micro fold_left init_state repeat]. cbn -[Z.leb Z.eqb Z.sub Z.add].
  repeat (rewrite ?E1, ?E2; cbn -[Z.leb Z.eqb Z.sub Z.add]).
  repeat split; reflexivity.
Qed.
