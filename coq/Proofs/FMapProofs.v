(* The ordered-map model (tidwall/btree as a strictly ascending association list). *)
From Nodis Require Import Base.Bytes Model.FMap.
From Coq Require Import List Bool Lia.

Section P.
  Context {V : Type}.
  Implicit Types (m : fmap V) (k : bytes) (v : V).

  (* every key of m is strictly above k *)
  Definition all_above k m : Prop := forall k' v', In (k', v') m -> bytes_ltb k k' = true.

  Inductive sorted : fmap V -> Prop :=
  | sorted_nil : sorted []
  | sorted_cons k v m : all_above k m -> sorted m -> sorted ((k, v) :: m).

  Lemma ltb_neq a b : bytes_ltb a b = true -> bytes_eqb a b = false.
  Proof.
    intro H. destruct (bytes_eqb a b) eqn:E; [|reflexivity].
    apply bytes_eqb_eq in E. subst. rewrite bytes_ltb_irrefl in H. discriminate.
  Qed.
  Lemma eqb_sym a b : bytes_eqb a b = bytes_eqb b a.
  Proof.
    destruct (bytes_eqb a b) eqn:E.
    - apply bytes_eqb_eq in E. subst. now rewrite bytes_eqb_refl.
    - symmetry. apply bytes_eqb_neq. apply bytes_eqb_neq in E. congruence.
  Qed.

  Lemma get_above k m : all_above k m -> fm_get k m = None.
  Proof.
    destruct m as [|[k' v'] r]; [reflexivity|]. intro H. simpl.
    assert (L : bytes_ltb k k' = true) by (apply (H k' v'); now left).
    now rewrite (ltb_neq _ _ L), L.
  Qed.

  Lemma all_above_trans k k' m : bytes_ltb k k' = true -> all_above k' m -> all_above k m.
  Proof. intros L H x y I. eapply bytes_ltb_trans; [exact L | exact (H x y I)]. Qed.

  Lemma in_set k v m x y : In (x, y) (fst (fm_set k v m)) -> (x = k /\ y = v) \/ In (x, y) m.
  Proof.
    induction m as [|[k' v'] r IH]; simpl.
    - intros [H|[]]. inversion H. now left.
    - destruct (bytes_eqb k k') eqn:E.
      + simpl. intros [H|H]; [inversion H; now left | right; now right].
      + destruct (bytes_ltb k k'); simpl.
        * intros [H|H]; [inversion H; now left | now right].
        * destruct (fm_set k v r) as [r' rep] eqn:Er. simpl in *.
          intros [H|H]; [right; now left|]. destruct (IH H) as [?|?]; [now left | right; now right].
  Qed.

  Lemma set_sorted k v m : sorted m -> sorted (fst (fm_set k v m)).
  Proof.
    induction 1 as [|k' v' r Ha Hs IH]; simpl.
    - constructor; [intros ? ? []|constructor].
    - destruct (bytes_eqb k k') eqn:E.
      + apply bytes_eqb_eq in E. subst. simpl. now constructor.
      + destruct (bytes_ltb k k') eqn:L; simpl.
        * constructor; [|now constructor].
          intros x y [I|I]; [inversion I; subst; exact L | eapply bytes_ltb_trans; [exact L | exact (Ha x y I)]].
        * destruct (fm_set k v r) as [r' rep] eqn:Er. simpl in *.
          constructor; [|exact IH].
          intros x y I. pose proof (in_set k v r x y) as Q. rewrite Er in Q. simpl in Q.
          destruct (Q I) as [[-> ->]|I'].
          -- destruct (bytes_ltb k' k) eqn:L2; [reflexivity|].
             pose proof (bytes_ltb_total _ _ L L2). subst. rewrite bytes_eqb_refl in E. discriminate.
          -- exact (Ha x y I').
  Qed.

  Lemma get_set_same k v m : fm_get k (fst (fm_set k v m)) = Some v.
  Proof.
    induction m as [|[k' v'] r IH]; simpl.
    - now rewrite bytes_eqb_refl.
    - destruct (bytes_eqb k k') eqn:E; simpl.
      + now rewrite bytes_eqb_refl.
      + destruct (bytes_ltb k k') eqn:L; simpl.
        * now rewrite bytes_eqb_refl.
        * destruct (fm_set k v r) as [r' rep]. simpl in *. now rewrite E, L.
  Qed.

  Lemma get_set_other k k0 v m : sorted m -> k0 <> k -> fm_get k0 (fst (fm_set k v m)) = fm_get k0 m.
  Proof.
    intros Hs Hne. induction Hs as [|k' v' r Ha Hs IH]; simpl.
    - apply bytes_eqb_neq in Hne. rewrite Hne. now destruct (bytes_ltb k0 k).
    - destruct (bytes_eqb k k') eqn:E.
      + apply bytes_eqb_eq in E. subst. simpl. apply bytes_eqb_neq in Hne. now rewrite Hne.
      + destruct (bytes_ltb k k') eqn:L; simpl.
        * apply bytes_eqb_neq in Hne. rewrite Hne.
          destruct (bytes_ltb k0 k) eqn:L0; [|reflexivity].
          pose proof (bytes_ltb_trans _ _ _ L0 L) as L1. now rewrite (ltb_neq _ _ L1), L1.
        * destruct (fm_set k v r) as [r' rep] eqn:Er. simpl in *. now rewrite IH.
  Qed.

  Lemma in_del k m x y : In (x, y) (fst (fm_del k m)) -> In (x, y) m.
  Proof.
    induction m as [|[k' v'] r IH]; simpl; [tauto|].
    destruct (bytes_eqb k k'); simpl; [now right|].
    destruct (bytes_ltb k k'); simpl; [tauto|].
    destruct (fm_del k r) as [r' dl]. simpl in *. intros [H|H]; [now left | right; now apply IH].
  Qed.

  Lemma del_sorted k m : sorted m -> sorted (fst (fm_del k m)).
  Proof.
    induction 1 as [|k' v' r Ha Hs IH]; simpl; [constructor|].
    destruct (bytes_eqb k k'); simpl; [exact Hs|].
    destruct (bytes_ltb k k'); simpl; [now constructor|].
    destruct (fm_del k r) as [r' dl] eqn:Er. simpl in *. constructor; [|exact IH].
    intros x y I. apply (Ha x y). pose proof (in_del k r x y) as Q. rewrite Er in Q. now apply Q.
  Qed.

  Lemma get_del_same k m : sorted m -> fm_get k (fst (fm_del k m)) = None.
  Proof.
    induction 1 as [|k' v' r Ha Hs IH]; simpl; [reflexivity|].
    destruct (bytes_eqb k k') eqn:E; simpl.
    - apply bytes_eqb_eq in E. subst. now apply get_above.
    - destruct (bytes_ltb k k') eqn:L; simpl.
      + now rewrite E, L.
      + destruct (fm_del k r) as [r' dl]. simpl in *. now rewrite E, L.
  Qed.

  Lemma get_del_other k k0 m : sorted m -> k0 <> k -> fm_get k0 (fst (fm_del k m)) = fm_get k0 m.
  Proof.
    intros Hs Hne. induction Hs as [|k' v' r Ha Hs IH]; simpl; [reflexivity|].
    destruct (bytes_eqb k k') eqn:E.
    - apply bytes_eqb_eq in E. subst. simpl. apply bytes_eqb_neq in Hne. rewrite Hne.
      destruct (bytes_ltb k0 k') eqn:L0; [|reflexivity].
      apply get_above. eapply all_above_trans; eauto.
    - destruct (bytes_ltb k k') eqn:L; simpl; [reflexivity|].
      destruct (fm_del k r) as [r' dl]. simpl in *. now rewrite IH.
  Qed.

  (* membership through In *)
  Lemma get_in k v m : sorted m -> (fm_get k m = Some v <-> In (k, v) m).
  Proof.
    induction 1 as [|k' v' r Ha Hs IH]; simpl; [split; [discriminate|tauto]|].
    destruct (bytes_eqb k k') eqn:E.
    - apply bytes_eqb_eq in E. subst. split.
      + intro H. inversion H. now left.
      + intros [H|H]; [now inversion H|].
        pose proof (Ha _ _ H) as L. rewrite bytes_ltb_irrefl in L. discriminate.
    - destruct (bytes_ltb k k') eqn:L.
      + split; [discriminate|]. intros [H|H].
        * inversion H; subst. rewrite bytes_eqb_refl in E. discriminate.
        * pose proof (Ha _ _ H) as L2. rewrite (bytes_ltb_antisym _ _ L) in L2. discriminate.
      + rewrite IH. split; [now right|]. intros [H|H]; [|exact H].
        inversion H; subst. rewrite bytes_eqb_refl in E. discriminate.
  Qed.

  Lemma set_replaced_iff k v m : sorted m -> snd (fm_set k v m) = fm_mem k m.
  Proof.
    unfold fm_mem. induction 1 as [|k' v' r Ha Hs IH]; simpl; [reflexivity|].
    destruct (bytes_eqb k k'); simpl; [reflexivity|].
    destruct (bytes_ltb k k'); simpl; [reflexivity|].
    destruct (fm_set k v r) as [r' rep]. simpl in *. exact IH.
  Qed.

  Lemma del_deleted_iff k m : sorted m -> snd (fm_del k m) = fm_mem k m.
  Proof.
    unfold fm_mem. induction 1 as [|k' v' r Ha Hs IH]; simpl; [reflexivity|].
    destruct (bytes_eqb k k'); simpl; [reflexivity|].
    destruct (bytes_ltb k k'); simpl; [reflexivity|].
    destruct (fm_del k r) as [r' dl]. simpl in *. exact IH.
  Qed.
End P.
