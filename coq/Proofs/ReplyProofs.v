(* Exactly one well-formed RESP value per command: the flat sequence of writes of every
   modelled handler is the prefix coding of exactly one value tree. *)
From Nodis Require Import Base.Bytes Model.Num Model.FMap Model.DsStr Model.DsList Model.DsHash
     Model.DsSet Model.DsZSet Model.Db Model.Api Model.Handlers Model.Conn.
From Coq Require Import ZArith NArith List Bool Lia ZifyBool ZifyNat.
Local Open Scope Z_scope.

(* number of values still expected after the writes; None = a write with nothing expected *)
Fixpoint consume (pending : Z) (acts : list wact) : option Z :=
  match acts with
  | [] => Some pending
  | a :: r =>
      if pending <=? 0 then None
      else match a with
           | WArr n => if n <? 0 then None else consume (pending - 1 + n) r
           | _ => consume (pending - 1) r
           end
  end.
Definition one_value (acts : list wact) : bool :=
  match consume 1 acts with Some 0 => true | _ => false end.

Lemma consume_app p a b :
  consume p (a ++ b) = match consume p a with Some q => consume q b | None => None end.
Proof.
  revert p. induction a as [|x r IH]; intro p; cbn [app consume]; [reflexivity|].
  destruct (p <=? 0); [reflexivity|]. destruct x; try apply IH.
  destruct (n <? 0); [reflexivity|apply IH].
Qed.

Lemma consume_shift k : 0 <= k -> forall a p q, consume p a = Some q -> consume (p + k) a = Some (q + k).
Proof.
  intros Hk. induction a as [|x r IH]; intros p q; cbn [consume].
  - intro H. inversion H. reflexivity.
  - destruct (p <=? 0) eqn:E; [discriminate|].
    assert (E' : (p + k <=? 0) = false) by lia. rewrite E'.
    destruct x; try (intro H; replace (p + k - 1) with (p - 1 + k) by lia; now apply IH).
    destruct (n <? 0); [discriminate|]. intro H. replace (p + k - 1 + n) with (p - 1 + n + k) by lia. now apply IH.
Qed.

Lemma one_then p a : one_value a = true -> 1 <= p -> consume p a = Some (p - 1).
Proof.
  unfold one_value. destruct (consume 1 a) as [[| |]|] eqn:E; try discriminate. intros _ Hp.
  assert (Hk : 0 <= p - 1) by lia.
  pose proof (consume_shift (p - 1) Hk a 1 0 E) as H.
  replace (1 + (p - 1)) with p in H by lia. replace (0 + (p - 1)) with (p - 1) in H by lia. exact H.
Qed.

(* n leaves *)
Definition leaf (a : wact) : bool := match a with WArr _ => false | _ => true end.
Lemma consume_leaves l : forall p, forallb leaf l = true -> Z.of_nat (length l) <= p ->
  consume p l = Some (p - Z.of_nat (length l)).
Proof.
  induction l as [|x r IH]; intros p Hl Hp; cbn [consume length].
  - f_equal. lia.
  - cbn [forallb] in Hl. apply andb_true_iff in Hl. destruct Hl as [Hx Hr].
    cbn [length] in Hp. rewrite Nat2Z.inj_succ in Hp. rewrite Nat2Z.inj_succ.
    assert (E : (p <=? 0) = false) by lia. rewrite E.
    destruct x; cbn [leaf] in Hx; try discriminate; rewrite IH by (auto; lia); f_equal; lia.
Qed.
Lemma one_array_of_leaves l : forallb leaf l = true -> one_value (WArr (Z.of_nat (length l)) :: l) = true.
Proof.
  intro H. unfold one_value. cbn [consume]. change (1 <=? 0) with false. cbv iota.
  assert (E : (Z.of_nat (length l) <? 0) = false) by lia. rewrite E.
  replace (1 - 1 + Z.of_nat (length l)) with (Z.of_nat (length l)) by lia.
  rewrite consume_leaves by (auto; lia). now rewrite Z.sub_diag.
Qed.

Lemma one_bulks l : one_value (bulks l) = true.
Proof.
  unfold bulks. rewrite <- (map_length WBulk l). apply one_array_of_leaves.
  induction l; [reflexivity|exact IHl].
Qed.
Lemma one_obulks (l : list (option bytes)) : one_value (WArr (Z.of_nat (length l)) :: map obulk l) = true.
Proof.
  rewrite <- (map_length obulk l). apply one_array_of_leaves.
  induction l as [|[x|] r IH]; [reflexivity|exact IH|exact IH].
Qed.
Lemma flat_map_pairs_length {A} (f : A -> wact) (g : A -> wact) (h : list A) :
  Z.of_nat (length (flat_map (fun kv => [f kv; g kv]) h)) = 2 * Z.of_nat (length h).
Proof. induction h as [|x r IH]; cbn [flat_map app length]; [reflexivity|]. rewrite !Nat2Z.inj_succ. lia. Qed.
Lemma one_flat_pairs h : one_value (flat_pairs h) = true.
Proof.
  unfold flat_pairs. rewrite <- (flat_map_pairs_length (fun kv => WBulk (fst kv)) (fun kv => WBulk (snd kv)) h).
  apply one_array_of_leaves. induction h as [|x r IH]; [reflexivity|exact IH].
Qed.
Lemma one_items ws its : one_value (items_reply ws its) = true.
Proof.
  unfold items_reply. destruct ws.
  - rewrite <- (flat_map_pairs_length (fun it : item => WBulk (snd it)) (fun it => WBulk (format_score (fst it))) its).
    apply one_array_of_leaves. induction its as [|x r IH]; [reflexivity|exact IH].
  - apply one_bulks.
Qed.
(* a cursor reply: *2, the cursor, then one array *)
Lemma one_cursor c rest : one_value rest = true -> one_value (WArr 2 :: WBulk c :: rest) = true.
Proof.
  intro H. unfold one_value. cbn [consume]. change (1 <=? 0) with false. change (2 <? 0) with false. cbv iota.
  change (1 - 1 + 2 <=? 0) with false. cbv iota. change (1 - 1 + 2 - 1) with 1.
  unfold one_value in H. exact H.
Qed.

(* ---- bodies ------------------------------------------------------------------------ *)
Definition bres_one (r : bres) : bool :=
  match r with
  | BOk acts _ => one_value acts
  | BPanic acts _ => one_value (acts ++ [WErr])
  | BUnm => true
  end.
Lemma lift_one {A} (r : res A) k : (forall a d, bres_one (k a d) = true) -> bres_one (lift r k) = true.
Proof. intro H. destruct r; cbn; auto. Qed.

Definition handler_one (h : list bytes -> hres) : Prop :=
  forall args, match h args with HBody b => forall now d, bres_one (b now d) = true | _ => True end.

Ltac break_one :=
  repeat first
    [ apply lift_one; intros; cbv zeta
    | match goal with
      | |- bres_one (ret _ _) = true => unfold ret; cbn [bres_one]
      | |- bres_one (let '(_, _) := ?x in _) = true => destruct x
      | |- bres_one (if ?c then _ else _) = true => destruct c
      | |- bres_one (match ?x with _ => _ end) = true => destruct x
      | |- bres_one BUnm = true => reflexivity
      | |- bres_one (BOk _ _) = true => cbn [bres_one]
      | |- bres_one (BPanic [] _) = true => reflexivity
      | |- one_value (bulks _) = true => apply one_bulks
      | |- one_value (flat_pairs _) = true => apply one_flat_pairs
      | |- one_value (items_reply _ _) = true => apply one_items
      | |- one_value (WArr 2 :: WBulk _ :: _) = true => apply one_cursor
      | |- one_value (WArr (Z.of_nat (length ?l)) :: map obulk ?l) = true => apply one_obulks
      | |- one_value [match ?x with _ => _ end] = true => destruct x
      | |- one_value [if ?c then _ else _] = true => destruct c
      | |- one_value [_] = true => reflexivity
      | |- one_value (match ?x with _ => _ end) = true => destruct x
      | |- one_value (if ?c then _ else _) = true => destruct c
      end ].

Ltac handler_tac h :=
  unfold handler_one, h, need, incr_reply, by_score_body, by_rank_body; intro args;
  repeat match goal with
         | |- match (if ?c then _ else _) with _ => _ end => destruct c; try exact I
         | |- match (match ?x with _ => _ end) with _ => _ end => destruct x; try exact I
         end;
  try exact I; intros now d; cbv zeta; unfold obulk; break_one.


(* the loops *)
Lemma mset_loop_one : forall args now d, bres_one (mset_loop args now d) = true.
Proof.
  fix IH 1. intros args now d. destruct args as [|k [|v r]]; cbn [mset_loop]; try reflexivity.
  destruct (api_set k v false now d); try reflexivity. apply IH.
Qed.
Lemma mget_loop_one : forall ks acc now d, bres_one (mget_loop ks acc now d) = true.
Proof.
  induction ks as [|k r IH]; intros acc now d; cbn [mget_loop].
  - cbn [bres_one]. apply one_obulks.
  - destruct (api_get k now d); [apply IH|apply IH|reflexivity].
Qed.
Lemma zadd_loop_one : forall prs k i x nx lt gt c now d, bres_one (zadd_loop k prs i x nx lt gt c now d) = true.
Proof.
  fix IH 1. intros prs k i x nx lt gt c now d. destruct prs as [|sc [|m r]]; cbn [zadd_loop]; try reflexivity.
  destruct (parse_score sc); try reflexivity.
  destruct i; [break_one|]. destruct x; [break_one|]. destruct nx; [break_one|].
  destruct lt; [break_one|]. destruct gt; [break_one|].
  apply lift_one. intros a d'. apply IH.
Qed.
