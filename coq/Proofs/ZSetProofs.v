(* Sorted sets, layer Z1: the ordered index is always the strictly ascending sequence of
   exactly the dictionary's (score, member) pairs. *)
From Nodis Require Import Base.Bytes Model.Num Model.FMap Model.DsZSet Proofs.FMapProofs.
From Coq Require Import ZArith List Bool Lia.
Local Open Scope Z_scope.

(* ---- the score order ------------------------------------------------------------ *)
Lemma score_eqb_eq a b : score_eqb a b = true <-> a = b.
Proof.
  destruct a, b; simpl; split; intro H; try discriminate; try reflexivity; try congruence.
  - apply Z.eqb_eq in H. now subst.
  - inversion H. apply Z.eqb_refl.
Qed.
Lemma score_ltb_irrefl a : score_ltb a a = false.
Proof. destruct a; simpl; auto. apply Z.ltb_irrefl. Qed.
Lemma score_ltb_trans a b c : score_ltb a b = true -> score_ltb b c = true -> score_ltb a c = true.
Proof. destruct a, b, c; simpl; intros; try discriminate; auto. lia. Qed.
Lemma score_total a b : score_ltb a b = false -> score_ltb b a = false -> a = b.
Proof. destruct a, b; simpl; intros; try discriminate; auto. f_equal. lia. Qed.
Lemma score_ltb_asym a b : score_ltb a b = true -> score_ltb b a = false.
Proof. destruct a, b; simpl; intros; try discriminate; auto. lia. Qed.
Lemma score_ltb_neq a b : score_ltb a b = true -> score_eqb a b = false.
Proof.
  intro H. destruct (score_eqb a b) eqn:E; [|reflexivity].
  apply score_eqb_eq in E. subst. rewrite score_ltb_irrefl in H. discriminate.
Qed.
Lemma score_eqb_refl a : score_eqb a a = true.
Proof. now apply score_eqb_eq. Qed.

(* ---- the node order -------------------------------------------------------------- *)
Lemma item_ltb_irrefl a : item_ltb a a = false.
Proof. unfold item_ltb. now rewrite score_ltb_irrefl, score_eqb_refl, bytes_ltb_irrefl. Qed.

Lemma item_ltb_trans a b c : item_ltb a b = true -> item_ltb b c = true -> item_ltb a c = true.
Proof.
  unfold item_ltb. destruct a as [sa ma], b as [sb mb], c as [sc mc]. simpl.
  intros H1 H2. apply orb_true_iff in H1. apply orb_true_iff in H2. apply orb_true_iff.
  destruct H1 as [H1|H1]; destruct H2 as [H2|H2].
  - left. eapply score_ltb_trans; eauto.
  - apply andb_true_iff in H2. destruct H2 as [E _]. apply score_eqb_eq in E. subst. now left.
  - apply andb_true_iff in H1. destruct H1 as [E _]. apply score_eqb_eq in E. subst. now left.
  - apply andb_true_iff in H1. apply andb_true_iff in H2. destruct H1 as [E1 L1]. destruct H2 as [E2 L2].
    apply score_eqb_eq in E1. apply score_eqb_eq in E2. subst. right.
    rewrite score_eqb_refl. simpl. eapply bytes_ltb_trans; eauto.
Qed.

Lemma item_total a b : item_ltb a b = false -> item_ltb b a = false -> a = b.
Proof.
  unfold item_ltb. destruct a as [sa ma], b as [sb mb]. simpl. intros H1 H2.
  apply orb_false_iff in H1. apply orb_false_iff in H2. destruct H1 as [A1 B1]. destruct H2 as [A2 B2].
  pose proof (score_total _ _ A1 A2). subst sb. rewrite score_eqb_refl in *. simpl in *.
  f_equal. now apply bytes_ltb_total.
Qed.

Lemma item_ltb_asym a b : item_ltb a b = true -> item_ltb b a = false.
Proof.
  intro H. destruct (item_ltb b a) eqn:E; [|reflexivity].
  pose proof (item_ltb_trans _ _ _ H E) as T. rewrite item_ltb_irrefl in T. discriminate.
Qed.

(* strictly ascending sequences *)
Inductive asc : list item -> Prop :=
| asc_nil : asc []
| asc_cons x l : (forall y, In y l -> item_ltb x y = true) -> asc l -> asc (x :: l).

Lemma in_sl_insert x l y : In y (sl_insert x l) <-> y = x \/ In y l.
Proof.
  induction l as [|z r IH]; simpl.
  - split; [intros [->|[]]; now left | intros [->|[]]; now left].
  - destruct (item_ltb z x); simpl.
    + rewrite IH. tauto.
    + split; [intros [->|H]; [now left | now right] | intros [->|H]; [now left | now right]].
Qed.

Lemma sl_insert_asc x l : asc l -> ~ In x l -> asc (sl_insert x l).
Proof.
  induction 1 as [|z r Hz Hr IH]; intro Hn; simpl.
  - constructor; [intros ? []|constructor].
  - destruct (item_ltb z x) eqn:E.
    + constructor.
      * intros y Hy. apply in_sl_insert in Hy. destruct Hy as [->|Hy]; [exact E|now apply Hz].
      * apply IH. intro Hi. apply Hn. now right.
    + constructor; [|now constructor].
      assert (L : item_ltb x z = true).
      { destruct (item_ltb x z) eqn:L; [reflexivity|].
        exfalso. apply Hn. left. symmetry. now apply item_total. }
      intros y [<-|Hy]; [exact L|]. eapply item_ltb_trans; [exact L|now apply Hz].
Qed.

Lemma pair_eqb_spec (x y : item) :
  (score_eqb (fst y) (fst x) && bytes_eqb (snd y) (snd x)) = true <-> y = x.
Proof.
  destruct x as [sx mx], y as [sy my]. simpl. rewrite andb_true_iff, score_eqb_eq, bytes_eqb_eq.
  split; [intros [-> ->]; reflexivity | intro H; inversion H; auto].
Qed.

Lemma in_sl_remove x l y : asc l -> (In y (sl_remove x l) <-> In y l /\ y <> x).
Proof.
  induction 1 as [|z r Hz Hr IH]; simpl; [tauto|].
  destruct (item_ltb z x) eqn:E.
  - simpl. rewrite IH. split.
    + intros [->|[A B]]; [split; [now left|]|split; [now right|exact B]].
      intro Heq. subst. rewrite item_ltb_irrefl in E. discriminate.
    + intros [[->|A] B]; [now left | right; now split].
  - destruct (score_eqb (fst z) (fst x) && bytes_eqb (snd z) (snd x)) eqn:Q.
    + apply pair_eqb_spec in Q. subst z. split.
      * intro Hy. split; [now right|]. intro Heq. subst.
        pose proof (Hz _ Hy) as L. rewrite item_ltb_irrefl in L. discriminate.
      * intros [[->|A] B]; [congruence|exact A].
    + (* x is not in the list: everything from z on is above x *)
      split; [|intros [A _]; exact A].
      intro Hy. split; [exact Hy|]. intro Heq. subst y.
      destruct Hy as [->|Hy].
      * assert (Q' : (score_eqb (fst x) (fst x) && bytes_eqb (snd x) (snd x)) = true) by now apply pair_eqb_spec.
        congruence.
      * pose proof (Hz _ Hy) as L. pose proof (item_ltb_asym _ _ L). congruence.
Qed.

Lemma sl_remove_asc x l : asc l -> asc (sl_remove x l).
Proof.
  induction 1 as [|z r Hz Hr IH]; simpl; [constructor|].
  destruct (item_ltb z x).
  - constructor; [|exact IH]. intros y Hy. apply (in_sl_remove x r y Hr) in Hy. now apply Hz.
  - destruct (score_eqb (fst z) (fst x) && bytes_eqb (snd z) (snd x)); [exact Hr|now constructor].
Qed.

(* ---- the sorted-set invariant ------------------------------------------------------ *)
Definition zset_inv (z : zsetv) : Prop :=
  sorted (zd z) /\ asc (zl z) /\ (forall m s, fm_get m (zd z) = Some s <-> In (s, m) (zl z)).

Lemma zset_new_inv : zset_inv zset_new.
Proof. split; [constructor | split; [constructor|]]. intros m s. simpl. split; [discriminate|tauto]. Qed.

Lemma zadd_inv m s z : zset_inv z -> zset_inv (snd (zset_zadd m s z)).
Proof.
  intros [Hd [Ha Hag]]. unfold zset_zadd.
  destruct (fm_get m (zd z)) as [old|] eqn:G.
  - (* existing member *)
    destruct (score_eqb s old) eqn:Es; cbn [negb snd]; unfold zset_inv; cbn [zd zl].
    + apply score_eqb_eq in Es. subst old.
      split; [apply set_sorted; exact Hd | split; [exact Ha|]].
      intros m0 s0. split.
      * intro H. destruct (bytes_eq_dec m0 m) as [->|N].
        -- rewrite get_set_same in H. inversion H; subst. now apply Hag.
        -- rewrite get_set_other in H by auto. now apply Hag.
      * intro H. apply Hag in H. destruct (bytes_eq_dec m0 m) as [->|N].
        -- rewrite get_set_same. congruence.
        -- now rewrite get_set_other by auto.
    + assert (Hnin : ~ In (s, m) (sl_remove (old, m) (zl z))).
      { intro I. apply (in_sl_remove _ _ _ Ha) in I. destruct I as [I _].
        apply Hag in I. rewrite G in I. inversion I; subst. rewrite score_eqb_refl in Es. discriminate. }
      split; [apply set_sorted; exact Hd | split; [apply sl_insert_asc; [now apply sl_remove_asc | exact Hnin]|]].
      intros m0 s0. split.
      * intro H. apply in_sl_insert. destruct (bytes_eq_dec m0 m) as [->|N].
        -- rewrite get_set_same in H. inversion H; subst. now left.
        -- rewrite get_set_other in H by auto. right. apply (in_sl_remove _ _ _ Ha). split; [now apply Hag|congruence].
      * intro H. apply in_sl_insert in H. destruct H as [H|H].
        -- inversion H; subst. apply get_set_same.
        -- apply (in_sl_remove _ _ _ Ha) in H. destruct H as [H Hne]. apply Hag in H.
           destruct (bytes_eq_dec m0 m) as [->|N]; [|now rewrite get_set_other by auto].
           rewrite G in H. inversion H; subst. congruence.
  - (* new member *)
    cbn [snd]; unfold zset_inv; cbn [zd zl].
    assert (Hnin : ~ In (s, m) (zl z)) by (intro I; apply Hag in I; congruence).
    split; [apply set_sorted; exact Hd | split; [now apply sl_insert_asc|]].
    intros m0 s0. split.
    + intro H. apply in_sl_insert. destruct (bytes_eq_dec m0 m) as [->|N].
      * rewrite get_set_same in H. inversion H; subst. now left.
      * rewrite get_set_other in H by auto. right. now apply Hag.
    + intro H. apply in_sl_insert in H. destruct H as [H|H].
      * inversion H; subst. apply get_set_same.
      * apply Hag in H. destruct (bytes_eq_dec m0 m) as [->|N]; [congruence|now rewrite get_set_other by auto].
Qed.

Lemma zrem1_inv m z : zset_inv z ->
  zset_inv (match fm_get m (zd z) with
            | Some s => {| zd := fst (fm_del m (zd z)); zl := sl_remove (s, m) (zl z) |}
            | None => z end).
Proof.
  intros [Hd [Ha Hag]]. destruct (fm_get m (zd z)) as [s|] eqn:G; [|now split; [|split]].
  unfold zset_inv; cbn [zd zl]. split; [|split]; [now apply del_sorted | now apply sl_remove_asc |].
  intros m0 s0. split.
  - intro H. apply (in_sl_remove _ _ _ Ha). destruct (bytes_eq_dec m0 m) as [->|N].
    + rewrite get_del_same in H by auto. discriminate.
    + rewrite get_del_other in H by auto. split; [now apply Hag|congruence].
  - intro H. apply (in_sl_remove _ _ _ Ha) in H. destruct H as [H Hne]. apply Hag in H.
    destruct (bytes_eq_dec m0 m) as [->|N]; [|now rewrite get_del_other by auto].
    rewrite G in H. inversion H; subst. congruence.
Qed.

Lemma zrem_inv ms z : zset_inv z -> zset_inv (snd (zset_zrem ms z)).
Proof.
  revert z. induction ms as [|m r IH]; intros z H; simpl; [exact H|].
  pose proof (zrem1_inv m z H) as H1.
  destruct (fm_get m (zd z)) as [s|] eqn:G.
  - specialize (IH _ H1). destruct (zset_zrem r _) as [n z2]. exact IH.
  - now apply IH.
Qed.

(* consequences: every member has exactly one score; cardinalities agree *)
Lemma asc_nodup l : asc l -> NoDup l.
Proof.
  induction 1 as [|x l Hx Hl IH]; constructor; auto.
  intro I. pose proof (Hx _ I) as L. rewrite item_ltb_irrefl in L. discriminate.
Qed.

Lemma inv_index_members z : zset_inv z ->
  forall m, fm_mem m (zd z) = true <-> exists s, In (s, m) (zl z).
Proof.
  intros [_ [_ Hag]] m. unfold fm_mem. split.
  - destruct (fm_get m (zd z)) as [s|] eqn:G; [|discriminate]. intros _. exists s. now apply Hag.
  - intros [s I]. apply Hag in I. now rewrite I.
Qed.
