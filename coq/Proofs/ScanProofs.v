(* C19: a cursor-following loop over SSCAN / HSCAN / ZSCAN / SCAN returns every matching element
   and only those, and terminates within (number of elements + 1) calls. *)
From Nodis Require Import Base.Bytes Model.Num Model.FMap Model.DsHash Model.DsSet Model.DsZSet.
From Nodis Require Import Proofs.ZSetProofs.
From Coq Require Import ZArith List Bool Lia ZifyBool ZifyNat.
Import ListNotations.
Local Open Scope Z_scope.

(* the client's loop: call with the cursor, stop at cursor 0, otherwise feed the cursor back.
   None = the calls allowed by [fuel] did not reach cursor 0. *)
Fixpoint iterate {E} (call : Z -> Z * list E) (fuel : nat) (cursor : Z) : option (list E) :=
  match fuel with
  | O => None
  | S f => let '(nx, es) := call cursor in
           if nx =? 0 then Some es
           else match iterate call f nx with Some r => Some (es ++ r) | None => None end
  end.

Lemma skipn_skipn' {A} : forall a b (l : list A), skipn a (skipn b l) = skipn (a + b) l.
Proof.
  intros a b. revert a. induction b as [|b IH]; intros a l.
  - rewrite Nat.add_0_r. reflexivity.
  - destruct l as [|x l]; [now rewrite !skipn_nil|].
    rewrite Nat.add_succ_r. cbn [skipn]. apply IH.
Qed.
Lemma firstn_In' {A} : forall n (l : list A) x, In x (firstn n l) -> In x l.
Proof.
  induction n as [|n IH]; intros l x H; [destruct H|].
  destruct l as [|y l]; [destruct H|]. destruct H as [H|H]; [now left|right; now apply IH].
Qed.
Lemma skipn_In {A} : forall n (l : list A) x, In x (skipn n l) -> In x l.
Proof.
  induction n as [|n IH]; intros l x H; [exact H|].
  destruct l as [|y l]; [exact H|]. right. now apply IH.
Qed.

(* ---- paging through a list ---------------------------------------------------------------- *)
Section Paging.
  Context {E : Type}.
  Variable l : list E.
  Variable P : E -> bool.
  Variable call : Z -> Z * list E.
  Variable pos : Z -> nat.          (* where in l the call with this cursor starts *)
  Variable good : Z -> Prop.        (* the cursors the loop can hold *)
  Hypothesis call_spec : forall c, good c -> (pos c <= length l)%nat ->
     (forall e, In e (snd (call c)) -> In e l /\ P e = true) /\
     (if fst (call c) =? 0
      then forall e, In e (skipn (pos c) l) -> P e = true -> In e (snd (call c))
      else good (fst (call c)) /\ (pos c < pos (fst (call c)) <= length l)%nat /\
           forall e, In e (firstn (pos (fst (call c)) - pos c) (skipn (pos c) l)) -> P e = true -> In e (snd (call c))).

  Lemma iterate_pages : forall fuel c, good c -> (pos c <= length l)%nat -> (length l - pos c < fuel)%nat ->
    exists r, iterate call fuel c = Some r /\
              (forall e, In e r -> In e l /\ P e = true) /\
              (forall e, In e (skipn (pos c) l) -> P e = true -> In e r).
  Proof.
    induction fuel as [|f IH]; intros c Hg Hp Hf; [lia|].
    cbn [iterate]. destruct (call_spec c Hg Hp) as [Hs Hc].
    destruct (call c) as [nx es] eqn:Ec. cbn [fst snd] in *.
    destruct (nx =? 0) eqn:En.
    - exists es. split; [reflexivity|]. split; assumption.
    - destruct Hc as [Hg' [[Hlt Hle] Hcov]].
      destruct (IH nx Hg' Hle ltac:(lia)) as [r [Hr [Hrs Hrc]]].
      rewrite Hr. exists (es ++ r). split; [reflexivity|]. split.
      + intros e He. apply in_app_or in He. destruct He as [He|He]; auto.
      + intros e He HP. apply in_or_app.
        rewrite <- (firstn_skipn (pos nx - pos c) (skipn (pos c) l)) in He.
        apply in_app_or in He. destruct He as [He|He].
        * left. now apply Hcov.
        * right. apply Hrc; [|exact HP]. rewrite skipn_skipn' in He.
          replace (pos nx - pos c + pos c)%nat with (pos nx) in He by lia. exact He.
  Qed.
End Paging.

Lemma wrap64_id z : - two63 <= z < two63 -> wrap64 z = z.
Proof.
  unfold wrap64, two63, two64. intro H.
  rewrite Z.mod_small; lia.
Qed.

Lemma in_filter_iff {A} (f : A -> bool) l x : In x (filter f l) <-> In x l /\ f x = true.
Proof. apply filter_In. Qed.

(* ================================ SSCAN ===================================== *)
Section SScan.
  Variable pat : bytes.
  Variable count : Z.
  Hypothesis count_small : count < two63 / 2.

  Hypothesis count_pos : 1 <= count.

  (* past the cursor: the window [i, cursor + count) *)
  Lemma sscan_window cursor : 0 <= cursor < two63 / 2 -> forall ms i, cursor <= i <= cursor + count ->
    sscan_aux cursor count pat i ms =
      if cursor + count - i <? Z.of_nat (length ms)
      then (cursor + count, filter (glob_match pat) (firstn (Z.to_nat (cursor + count - i)) ms))
      else (0, filter (glob_match pat) ms).
  Proof.
    intros Hc. assert (Hw : wrap64 (cursor + count) = cursor + count) by (apply wrap64_id; unfold two63 in *; lia).
    induction ms as [|m r IH]; intros i Hi; cbn [sscan_aux length].
    - assert (E : (cursor + count - i <? Z.of_nat 0) = false) by lia. rewrite E. reflexivity.
    - assert (E0 : (i <? cursor) = false) by lia. rewrite E0, Hw.
      destruct (Z.eq_dec i (cursor + count)) as [->|Hne].
      + assert (E1 : ((0 <? count) && (cursor + count >=? cursor + count)) = true) by lia. rewrite E1.
        replace (cursor + count - (cursor + count)) with 0 by lia.
        assert (E2 : (0 <? Z.of_nat (S (length r))) = true) by lia. rewrite E2. reflexivity.
      + assert (E1 : ((0 <? count) && (i >=? cursor + count)) = false) by lia. rewrite E1.
        rewrite IH by lia. rewrite Nat2Z.inj_succ.
        destruct (cursor + count - (i + 1) <? Z.of_nat (length r)) eqn:E2.
        * assert (E3 : (cursor + count - i <? Z.succ (Z.of_nat (length r))) = true) by lia. rewrite E3.
          replace (Z.to_nat (cursor + count - i)) with (S (Z.to_nat (cursor + count - (i + 1)))) by lia.
          cbn [firstn filter]. destruct (glob_match pat m); reflexivity.
        * assert (E3 : (cursor + count - i <? Z.succ (Z.of_nat (length r))) = false) by lia. rewrite E3.
          cbn [filter]. destruct (glob_match pat m); reflexivity.
  Qed.

  (* before the cursor: skip *)
  Lemma sscan_skip cursor : forall ms i, 0 <= i <= cursor -> cursor - i <= Z.of_nat (length ms) ->
    sscan_aux cursor count pat i ms = sscan_aux cursor count pat cursor (skipn (Z.to_nat (cursor - i)) ms).
  Proof.
    induction ms as [|m r IH]; intros i Hi Hl.
    - cbn [length] in Hl. replace i with cursor by lia. rewrite skipn_nil. reflexivity.
    - destruct (Z.eq_dec i cursor) as [->|Hne].
      + replace (cursor - cursor) with 0 by lia. reflexivity.
      + cbn [sscan_aux]. assert (E : (i <? cursor) = true) by lia. rewrite E.
        cbn [length] in Hl. rewrite IH by lia.
        replace (Z.to_nat (cursor - i)) with (S (Z.to_nat (cursor - (i + 1)))) by lia. reflexivity.
  Qed.

  Definition sscan_call (s : setv) (c : Z) : Z * list bytes := set_sscan c pat count s.

  Theorem sscan_iteration (s : setv) : Z.of_nat (length s) < two63 / 2 ->
    exists r, iterate (sscan_call s) (S (length s)) 0 = Some r /\
              forall m, In m r <-> In m (set_members s) /\ glob_match pat m = true.
  Proof.
    intros Hlen. pose proof count_pos as Hcnt.
    assert (Hlm : length (set_members s) = length s) by (unfold set_members, fm_keys; apply map_length).
    destruct (iterate_pages (set_members s) (glob_match pat) (sscan_call s) Z.to_nat
                (fun c => 0 <= c <= Z.of_nat (length s))) with (fuel := S (length s)) (c := 0)
      as [r [Hr [Hs Hc]]].
    - (* one call meets the paging specification *)
      intros c [Hc0 Hc1] _. unfold sscan_call, set_sscan, set_card.
      destruct (c >=? Z.of_nat (length s)) eqn:Ege.
      + cbn [fst snd]. split; [intros e []|]. cbn. intros e He _.
        rewrite skipn_all2 in He by lia. destruct He.
      + rewrite (sscan_skip c (set_members s) 0) by lia.
        rewrite sscan_window by (unfold two63 in *; lia).
        replace (c - 0) with c by lia. set (rest := skipn (Z.to_nat c) (set_members s)).
        assert (Hrl : Z.of_nat (length rest) = Z.of_nat (length s) - c) by (unfold rest; rewrite skipn_length; lia).
        replace (c + count - c) with count by lia.
        destruct (count <? Z.of_nat (length rest)) eqn:E1.
        * cbn [fst snd].
          assert (E2 : (c + count =? 0) = false) by lia. rewrite E2. split.
          -- intros e He. apply in_filter_iff in He. destruct He as [He HP]. split; [|exact HP].
             apply firstn_In' in He. unfold rest in He. eapply skipn_In; exact He.
          -- split; [lia|]. split; [lia|]. intros e He HP. apply in_filter_iff. split; [|exact HP].
             replace (Z.to_nat (c + count) - Z.to_nat c)%nat with (Z.to_nat count) in He by lia. exact He.
        * cbn [fst snd]. cbn [Z.eqb]. split.
          -- intros e He. apply in_filter_iff in He. destruct He as [He HP]. split; [|exact HP].
             unfold rest in He. eapply skipn_In; exact He.
          -- intros e He HP. apply in_filter_iff. split; assumption.
    - lia.
    - cbn. lia.
    - cbn. lia.
    - exists r. split; [exact Hr|]. intro m. split.
      + apply Hs.
      + intros [Hm HP]. apply Hc; [|exact HP]. cbn. exact Hm.
  Qed.
End SScan.

Lemma let_pair_eta {A B} (x : A * B) : (let '(n, r) := x in (n, r)) = x.
Proof. destruct x; reflexivity. Qed.

(* ================================ HSCAN ===================================== *)
Section HScan.
  Variable pat : bytes.
  Variable count : Z.
  Hypothesis count_pos : 1 <= count.
  Hypothesis count_small : count < two63 / 2.
  Let P (e : bytes * bytes) : bool := glob_match pat (fst e).

  Lemma hscan_window cursor : 0 <= cursor < two63 / 2 -> forall h i, cursor <= i < cursor + count ->
    hash_hscan_aux cursor count pat i h =
      (Z.min (cursor + count) (i + Z.of_nat (length h)), filter P (firstn (Z.to_nat (cursor + count - i)) h)).
  Proof.
    intros Hc. assert (Hw : wrap64 (cursor + count) = cursor + count) by (apply wrap64_id; unfold two63 in *; lia).
    induction h as [|[k v] r IH]; intros i Hi; cbn [hash_hscan_aux length].
    - rewrite firstn_nil. cbn [filter]. f_equal. lia.
    - rewrite Hw. assert (E0 : (i >=? cursor) = true) by lia. rewrite E0, andb_true_r.
      replace (Z.to_nat (cursor + count - i)) with (S (Z.to_nat (cursor + count - (i + 1)))) by lia.
      cbn [firstn filter]. unfold P at 1. cbn [fst].
      destruct (i + 1 <? cursor + count) eqn:E1.
      + rewrite IH by lia. rewrite Nat2Z.inj_succ.
        replace (Z.min (cursor + count) (i + Z.succ (Z.of_nat (length r))))
          with (Z.min (cursor + count) (i + 1 + Z.of_nat (length r))) by lia.
        destruct (glob_match pat k); reflexivity.
      + replace (cursor + count - (i + 1)) with 0 by lia. cbn [Z.to_nat firstn filter].
        rewrite Nat2Z.inj_succ. replace (Z.min (cursor + count) (i + Z.succ (Z.of_nat (length r)))) with (i + 1) by lia.
        destruct (glob_match pat k); reflexivity.
  Qed.

  Lemma hscan_skip cursor : 0 <= cursor < two63 / 2 -> forall h i, 0 <= i <= cursor -> cursor - i <= Z.of_nat (length h) ->
    hash_hscan_aux cursor count pat i h =
      match skipn (Z.to_nat (cursor - i)) h with
      | [] => (cursor, [])
      | rest => hash_hscan_aux cursor count pat cursor rest
      end.
  Proof.
    intros Hc. assert (Hw : wrap64 (cursor + count) = cursor + count) by (apply wrap64_id; unfold two63 in *; lia).
    induction h as [|[k v] r IH]; intros i Hi Hl.
    - cbn [length] in Hl. rewrite skipn_nil. cbn [hash_hscan_aux]. f_equal. lia.
    - destruct (Z.eq_dec i cursor) as [->|Hne].
      + replace (cursor - cursor) with 0 by lia. reflexivity.
      + cbn [length] in Hl.
        replace (Z.to_nat (cursor - i)) with (S (Z.to_nat (cursor - (i + 1)))) by lia. cbn [skipn].
        rewrite <- IH by lia.
        cbn [hash_hscan_aux]. rewrite Hw.
        assert (E0 : (i >=? cursor) = false) by lia. rewrite E0, andb_false_r.
        assert (E1 : (i + 1 <? cursor + count) = true) by lia. rewrite E1.
        apply let_pair_eta.
  Qed.

  Theorem hscan_iteration (h : hashv) : Z.of_nat (length h) < two63 / 2 ->
    exists r, iterate (fun c => hscan_call c pat count h) (S (length h)) 0 = Some r /\
              forall e, In e r <-> In e h /\ glob_match pat (fst e) = true.
  Proof.
    intros Hlen.
    destruct (iterate_pages h P (fun c => hscan_call c pat count h) Z.to_nat
                (fun c => 0 <= c <= Z.of_nat (length h))) with (fuel := S (length h)) (c := 0)
      as [r [Hr [Hs Hc]]].
    - intros c [Hc0 Hc1] _. unfold hscan_call, hash_hscan.
      assert (Hw : wrap64 (c + count) = c + count) by (apply wrap64_id; unfold two63 in *; lia).
      rewrite Hw. rewrite (hscan_skip c) by (unfold two63 in *; lia).
      replace (c - 0) with c by lia. set (rest := skipn (Z.to_nat c) h).
      assert (Hrl : Z.of_nat (length rest) = Z.of_nat (length h) - c) by (unfold rest; rewrite skipn_length; lia).
      assert (Hcall : forall rs, (match rs with [] => (c, []) | p :: l0 => hash_hscan_aux c count pat c (p :: l0) end)
                      = (Z.min (c + count) (c + Z.of_nat (length rs)), filter P (firstn (Z.to_nat count) rs))).
      { intros [|x rs'].
        - rewrite firstn_nil. cbn [filter length]. f_equal. lia.
        - rewrite hscan_window by (unfold two63 in *; lia). replace (c + count - c) with count by lia. reflexivity. }
      rewrite (Hcall rest). cbn [fst snd].
      destruct (Z.min (c + count) (c + Z.of_nat (length rest)) <? c + count) eqn:E1.
      + cbn [Z.eqb]. split.
        * intros e He. apply in_filter_iff in He. destruct He as [He HP]. split; [|exact HP].
          apply firstn_In' in He. unfold rest in He. eapply skipn_In; exact He.
        * intros e He HP. apply in_filter_iff. split; [|exact HP].
          rewrite firstn_all2 by lia. exact He.
      + assert (E2 : (Z.min (c + count) (c + Z.of_nat (length rest)) =? 0) = false) by lia. rewrite E2.
        replace (Z.min (c + count) (c + Z.of_nat (length rest))) with (c + count) by lia. split.
        * intros e He. apply in_filter_iff in He. destruct He as [He HP]. split; [|exact HP].
          apply firstn_In' in He. unfold rest in He. eapply skipn_In; exact He.
        * split; [lia|]. split; [lia|]. intros e He HP. apply in_filter_iff. split; [|exact HP].
          replace (Z.to_nat (c + count) - Z.to_nat c)%nat with (Z.to_nat count) in He by lia. exact He.
    - lia.
    - cbn. lia.
    - cbn. lia.
    - exists r. split; [exact Hr|]. intro e. split.
      + apply Hs.
      + intros [Hm HP]. apply Hc; [|exact HP]. cbn. exact Hm.
  Qed.
End HScan.

(* ================================ ZSCAN ===================================== *)
From Nodis Require Import Proofs.FMapProofs.
From Coq Require FinFun.

Lemma sorted_nodup {V} (m : fmap V) : sorted m -> NoDup m.
Proof.
  induction 1 as [|k v r Ha Hs IH]; constructor; auto.
  intro I. pose proof (Ha _ _ I) as L. rewrite bytes_ltb_irrefl in L. discriminate.
Qed.

(* the dictionary and the index have the same number of entries *)
Lemma inv_card z : zset_inv z -> length (zd z) = length (zl z).
Proof.
  intros [Hs [Ha Hag]].
  set (swap := fun (it : item) => (snd it, fst it)).
  assert (Hnd : NoDup (map swap (zl z))).
  { apply FinFun.Injective_map_NoDup; [|now apply asc_nodup].
    intros [a b] [c d] H. unfold swap in H. cbn in H. congruence. }
  rewrite <- (map_length swap (zl z)). apply Nat.le_antisymm.
  - apply NoDup_incl_length; [now apply sorted_nodup|].
    intros [m s] I. apply (get_in m s _ Hs) in I. apply Hag in I.
    change (m, s) with (swap (s, m)). now apply in_map.
  - apply NoDup_incl_length; [exact Hnd|].
    intros [m s] I. apply in_map_iff in I. destruct I as [[s' m'] [E I]]. unfold swap in E. cbn in E.
    inversion E; subst. apply Hag in I. now apply (get_in m s _ Hs).
Qed.

Lemma skipn_nth_cons {A} : forall i (l : list A) x, nth_error l i = Some x -> skipn i l = x :: skipn (S i) l.
Proof.
  induction i as [|i IH]; intros [|y l] x H; try discriminate.
  - cbn in H. inversion H. reflexivity.
  - cbn [nth_error] in H. change (skipn (S i) (y :: l)) with (skipn i l). rewrite (IH l x H). reflexivity.
Qed.

Lemma sl_walk_asc l : forall n i, (i + n < length l)%nat ->
  sl_walk n false l (PIdx i) = Some (firstn (S n) (skipn i l)).
Proof.
  induction n as [|n IH]; intros i H.
  - cbn [sl_walk]. destruct (nth_error l i) as [it|] eqn:E.
    + rewrite (skipn_nth_cons i l it E). reflexivity.
    + apply nth_error_None in E. lia.
  - cbn [sl_walk]. destruct (nth_error l i) as [it|] eqn:E.
    + cbn [pos_next]. assert (E2 : Nat.ltb (S i) (length l) = true) by (apply Nat.ltb_lt; lia). rewrite E2.
      rewrite IH by lia. rewrite (skipn_nth_cons i l it E). reflexivity.
    + apply nth_error_None in E. lia.
Qed.

Section ZScan.
  Variable pat : bytes.
  Variable count : Z.
  Hypothesis count_pos : 1 <= count.
  Hypothesis count_small : count < two63 / 2.
  Let pat' := match pat with [] => [x2a] | _ => pat end.
  Let P (it : item) : bool := glob_match pat' (snd it).

  (* the items one call visits *)
  Lemma zscan_window z c : zset_inv z -> 0 <= c <= Z.of_nat (length (zl z)) -> Z.of_nat (length (zl z)) < two63 / 2 ->
    exists w, zset_by_rank c (c + count) false z = Some w /\
              (forall e, In e w -> In e (zl z)) /\
              (forall e, In e (firstn (Z.to_nat count) (skipn (Z.to_nat c) (zl z))) -> In e w).
  Proof.
    intros Hinv Hc Hlen. pose proof (inv_card z Hinv) as Hcard.
    unfold zset_by_rank, zset_zcard. rewrite Hcard. set (l := zl z) in *. set (n := Z.of_nat (length l)) in *.
    assert (E0 : (c >? n) = false) by lia. rewrite E0.
    set (start := if c =? 0 then 1 else c).
    assert (E1 : (c + count <? 0) = false) by lia. rewrite E1.
    assert (E2 : (c + count <? start) = false) by (unfold start; destruct (c =? 0) eqn:Eq1; lia). rewrite E2.
    assert (E3 : (start <? 0) = false) by (unfold start; destruct (c =? 0) eqn:Eq2; lia). rewrite E3.
    set (stop := if c + count >? n then n else c + count).
    assert (Hws : wrap64 (stop - start) = stop - start).
    { apply wrap64_id. unfold stop, start, n, two63 in *. destruct (c =? 0); destruct (c + count >? Z.of_nat (length l)); lia. }
    rewrite Hws.
    destruct (stop - start <? 0) eqn:E4.
    - (* nothing in range: the set is empty or c = n and ... *)
      exists []. split; [reflexivity|]. split; [intros e []|].
      intros e He. exfalso.
      assert (Hs : (Z.to_nat c >= length l)%nat).
      { unfold stop, start in E4. destruct (c =? 0) eqn:Eq3; destruct (c + count >? n) eqn:Eq4; lia. }
      rewrite skipn_all2 in He by lia. rewrite firstn_nil in He. destruct He.
    - assert (Hst : 1 <= start <= n) by (unfold stop, start in *; destruct (c =? 0) eqn:Eq5; destruct (c + count >? n) eqn:Eq6; lia).
      assert (Hfirst : (if start >? 1 then sl_by_rank start l else match l with [] => PNil | _ :: _ => PIdx 0 end)
                       = PIdx (Z.to_nat (start - 1))).
      { destruct (start >? 1) eqn:E5.
        - unfold sl_by_rank. assert (E6 : (start =? 0) = false) by lia. rewrite E6.
          assert (E7 : ((start <? 0) || (start >? Z.of_nat (length l))) = false) by (fold n; lia). rewrite E7. reflexivity.
        - replace (start - 1) with 0 by lia. destruct l; [cbn [length] in n; lia|reflexivity]. }
      rewrite Hfirst.
      assert (Hmin : Z.min (stop - start) (n + 2) = stop - start) by (unfold stop; destruct (c + count >? n) eqn:Eq7; lia).
      rewrite Hmin.
      assert (Hstop : stop <= n) by (unfold stop; destruct (c + count >? n) eqn:Eq8; lia).
      rewrite sl_walk_asc by (unfold n in *; lia).
      eexists. split; [reflexivity|]. split.
      + intros e He. apply firstn_In' in He. eapply skipn_In; exact He.
      + intros e He.
        assert (Hcnt : firstn (Z.to_nat count) (skipn (Z.to_nat c) l) = firstn (Z.to_nat (stop - c)) (skipn (Z.to_nat c) l)).
        { unfold stop. destruct (c + count >? n) eqn:E8.
          - rewrite !firstn_all2; [reflexivity| |]; rewrite skipn_length; lia.
          - f_equal. lia. }
        rewrite Hcnt in He.
        destruct (Z.eq_dec c 0) as [Hz|Hnz].
        * assert (Hs1 : start = 1) by (unfold start; rewrite Hz; reflexivity).
          rewrite Hs1. rewrite Hz in He. cbn [Z.to_nat skipn] in He.
          replace (Z.to_nat (1 - 1)) with 0%nat by lia. cbn [skipn].
          replace (S (Z.to_nat (stop - 1))) with (Z.to_nat (stop - 0)) by lia. exact He.
        * assert (Hsc : start = c) by (unfold start; destruct (c =? 0) eqn:E9; [lia|reflexivity]).
          assert (Hn : exists x, nth_error l (Z.to_nat (c - 1)) = Some x).
          { destruct (nth_error l (Z.to_nat (c - 1))) eqn:E10; [eauto|]. apply nth_error_None in E10. unfold n in *. lia. }
          destruct Hn as [x Hx]. rewrite Hsc.
          rewrite (skipn_nth_cons _ _ _ Hx). replace (S (Z.to_nat (c - 1))) with (Z.to_nat c) by lia.
          cbn [firstn]. right. exact He.
  Qed.

  Theorem zscan_iteration z : zset_inv z -> Z.of_nat (length (zl z)) < two63 / 2 ->
    exists r, iterate (fun c => match zset_zscan c pat count z with Some x => x | None => (0, []) end)
                      (S (length (zl z))) 0 = Some r /\
              (forall c, 0 <= c <= Z.of_nat (length (zl z)) -> zset_zscan c pat count z <> None) /\
              forall e, In e r <-> In e (zl z) /\ glob_match pat' (snd e) = true.
  Proof.
    intros Hinv Hlen. pose proof (inv_card z Hinv) as Hcard.
    assert (Hcall : forall c, 0 <= c <= Z.of_nat (length (zl z)) ->
              exists w, zset_zscan c pat count z
                        = Some ((if c + count >=? Z.of_nat (length (zl z)) then 0 else c + count), filter P w) /\
                        (forall e, In e w -> In e (zl z)) /\
                        (forall e, In e (firstn (Z.to_nat count) (skipn (Z.to_nat c) (zl z))) -> In e w)).
    { intros c Hc. destruct (zscan_window z c Hinv Hc Hlen) as [w [Hw [Hs Hcov]]].
      exists w. split; [|split; assumption].
      unfold zset_zscan. assert (E : (count =? 0) = false) by lia. rewrite E.
      assert (Hwr : wrap64 (c + count) = c + count) by (apply wrap64_id; unfold two63 in *; lia).
      rewrite Hwr, Hw. unfold zset_zcard. rewrite Hcard. f_equal. f_equal.
      destruct (c + count >=? Z.of_nat (length (zl z))) eqn:E1.
      - rewrite orb_true_l. reflexivity.
      - assert (E2 : (c + count <=? c) = false) by lia. rewrite E2. reflexivity. }
    destruct (iterate_pages (zl z) P (fun c => match zset_zscan c pat count z with Some x => x | None => (0, []) end) Z.to_nat
                (fun c => 0 <= c <= Z.of_nat (length (zl z)))) with (fuel := S (length (zl z))) (c := 0)
      as [r [Hr [Hs Hc]]].
    - intros c Hc _. destruct (Hcall c Hc) as [w [Hw [Hws Hwc]]]. rewrite Hw. cbn [fst snd].
      destruct (c + count >=? Z.of_nat (length (zl z))) eqn:E1.
      + cbn [Z.eqb]. split.
        * intros e He. apply in_filter_iff in He. destruct He as [He HP]. split; [now apply Hws|exact HP].
        * intros e He HP. apply in_filter_iff. split; [|exact HP]. apply Hwc.
          rewrite firstn_all2; [exact He|]. rewrite skipn_length. lia.
      + assert (E2 : (c + count =? 0) = false) by lia. rewrite E2. split.
        * intros e He. apply in_filter_iff in He. destruct He as [He HP]. split; [now apply Hws|exact HP].
        * split; [lia|]. split; [lia|]. intros e He HP. apply in_filter_iff. split; [|exact HP]. apply Hwc.
          replace (Z.to_nat (c + count) - Z.to_nat c)%nat with (Z.to_nat count) in He by lia. exact He.
    - lia.
    - cbn. lia.
    - cbn. lia.
    - exists r. split; [exact Hr|]. split.
      + intros c Hc0. destruct (Hcall c Hc0) as [w [Hw _]]. rewrite Hw. discriminate.
      + intro e. split; [apply Hs|]. intros [Hm HP]. apply Hc; [|exact HP]. cbn. exact Hm.
  Qed.
End ZScan.

(* ================================ SCAN ====================================== *)
From Nodis Require Import Model.DsStr Model.DsList Model.Db Model.Api Proofs.DbProofs.

Lemma fm_set_keys_present {V} k (v v' : V) : forall m, fm_get k m = Some v -> map fst (fst (fm_set k v' m)) = map fst m.
Proof.
  induction m as [|[k0 v0] r IH]; cbn [fm_get fm_set]; [discriminate|].
  destruct (bytes_eqb k k0) eqn:E.
  - intros _. apply bytes_eqb_eq in E. subst. reflexivity.
  - destruct (bytes_ltb k k0); [discriminate|]. intro H. specialize (IH H).
    destruct (fm_set k v' r) as [r' rep]. cbn [fst map] in *. now rewrite IH.
Qed.

Section Scan.
  Variable pat : bytes.
  Variable count typ now : Z.
  Hypothesis count_pos : 1 <= count.

  (* what SCAN reports about a key name in a given keyspace *)
  Definition scan_hit (d : db) (k : bytes) : bool :=
    match fm_get k (idx d) with
    | Some m => glob_match pat k && negb (expired m now d) && ((typ =? 0) || (m_vtype m =? typ))
    | None => false
    end.
  (* two keyspaces SCAN cannot tell apart *)
  Definition scan_equiv (d d' : db) : Prop :=
    map fst (idx d) = map fst (idx d') /\ (forall k, scan_hit d k = scan_hit d' k) /\ sorted (idx d').

  Lemma touch_scan_equiv k d : sorted (idx d) -> scan_equiv d (snd (touch k d)).
  Proof.
    intro Hs. unfold touch. destruct (fm_get k (idx d)) as [m|] eqn:G; cbn [snd].
    - unfold scan_equiv, put_meta. cbn [idx with_idx]. split; [|split].
      + symmetry. eapply fm_set_keys_present; exact G.
      + intro k'. unfold scan_hit. cbn [idx with_idx].
        destruct (bytes_eqb k' k) eqn:E.
        * apply bytes_eqb_eq in E. subst k'. rewrite get_set_same, G. reflexivity.
        * rewrite get_set_other; [reflexivity|exact Hs|]. intro H. subst. rewrite bytes_eqb_refl in E. discriminate.
      + now apply set_sorted.
    - split; [reflexivity|split; [reflexivity|exact Hs]].
  Qed.

  (* the loop without the keyspace *)
  Fixpoint scan_pure (ks : list bytes) (iter cursor cnt keylen : Z) (hit : bytes -> bool) : Z * bool * list bytes :=
    match ks with
    | [] => (iter, true, [])
    | k :: r =>
        let iter := iter + 1 in
        let cursor := cursor - 1 in
        if cursor >? 0 then scan_pure r iter cursor cnt keylen hit
        else if iter >? keylen then (0, true, [])
        else if cnt =? 0 then (iter, false, [])
        else let '(it, fin, res) := scan_pure r iter cursor (cnt - 1) keylen hit in
             (it, fin, if hit k then k :: res else res)
    end.
  Lemma scan_pure_ext ks : forall iter cursor cnt keylen h1 h2, (forall k, h1 k = h2 k) ->
    scan_pure ks iter cursor cnt keylen h1 = scan_pure ks iter cursor cnt keylen h2.
  Proof.
    induction ks as [|k r IH]; intros iter cursor cnt keylen h1 h2 H; cbn [scan_pure]; [reflexivity|].
    rewrite (IH _ _ _ _ h1 h2 H), (IH _ _ _ _ h1 h2 H), (H k). reflexivity.
  Qed.

  Lemma scan_loop_pure : forall es iter cursor cnt keylen d, sorted (idx d) ->
    exists d', scan_loop es iter cursor cnt keylen pat typ now d
               = (let '(it, fin, res) := scan_pure (map fst es) iter cursor cnt keylen (scan_hit d) in (it, fin, res, d'))
               /\ scan_equiv d d'.
  Proof.
    induction es as [|[k m0] r IH]; intros iter cursor cnt keylen d Hs; cbn [scan_loop scan_pure map fst].
    - exists d. split; [reflexivity|]. split; [reflexivity|split; [reflexivity|exact Hs]].
    - destruct (cursor - 1 >? 0); [apply IH; exact Hs|].
      destruct (iter + 1 >? keylen).
      { exists d. split; [reflexivity|]. split; [reflexivity|split; [reflexivity|exact Hs]]. }
      destruct (cnt =? 0).
      { exists d. split; [reflexivity|]. split; [reflexivity|split; [reflexivity|exact Hs]]. }
      pose proof (touch_scan_equiv k d Hs) as Heq.
      assert (Hhit : (match fst (touch k d) with
                      | Some m => glob_match pat k && negb (expired m now (snd (touch k d))) && ((typ =? 0) || (m_vtype m =? typ))
                      | None => false end) = scan_hit d k).
      { unfold scan_hit, touch. destruct (fm_get k (idx d)) as [m|] eqn:G; cbn [fst snd]; [|reflexivity].
        rewrite expired_put. reflexivity. }
      destruct (touch k d) as [om d1] eqn:Et. cbn [fst snd] in *.
      destruct Heq as [Hk [Hh Hs1]].
      destruct (IH (iter + 1) (cursor - 1) (cnt - 1) keylen d1 Hs1) as [d' [Hl He]].
      rewrite Hl. rewrite (scan_pure_ext (map fst r) _ _ _ _ (scan_hit d1) (scan_hit d)) by (intro; symmetry; apply Hh).
      destruct (scan_pure (map fst r) (iter + 1) (cursor - 1) (cnt - 1) keylen (scan_hit d)) as [[it fin] res].
      exists d'. split.
      + rewrite Hhit. reflexivity.
      + destruct He as [Hk' [Hh' Hs']]. split; [congruence|]. split; [|exact Hs'].
        intro k'. rewrite Hh. apply Hh'.
  Qed.

  (* the window phase *)
  Lemma scan_pure_window hit keylen : forall ks iter cursor cnt, cursor <= 1 -> 0 <= cnt ->
    iter + Z.of_nat (length ks) <= keylen ->
    scan_pure ks iter cursor cnt keylen hit =
      if cnt <? Z.of_nat (length ks) then (iter + cnt + 1, false, filter hit (firstn (Z.to_nat cnt) ks))
      else (iter + Z.of_nat (length ks), true, filter hit ks).
  Proof.
    induction ks as [|k r IH]; intros iter cursor cnt Hc Hn Hl; cbn [scan_pure length].
    - assert (E : (cnt <? Z.of_nat 0) = false) by lia. rewrite E. cbn [filter]. f_equal. f_equal. lia.
    - cbn [length] in Hl. rewrite Nat2Z.inj_succ in *.
      assert (E0 : (cursor - 1 >? 0) = false) by lia. rewrite E0.
      assert (E1 : (iter + 1 >? keylen) = false) by lia. rewrite E1.
      destruct (cnt =? 0) eqn:E2.
      + assert (E3 : (cnt <? Z.succ (Z.of_nat (length r))) = true) by lia. rewrite E3.
        replace cnt with 0 by lia. cbn [Z.to_nat firstn filter]. f_equal. f_equal. lia.
      + rewrite IH by lia.
        destruct (cnt - 1 <? Z.of_nat (length r)) eqn:E3.
        * assert (E4 : (cnt <? Z.succ (Z.of_nat (length r))) = true) by lia. rewrite E4.
          replace (Z.to_nat cnt) with (S (Z.to_nat (cnt - 1))) by lia. cbn [firstn filter].
          replace (iter + 1 + (cnt - 1) + 1) with (iter + cnt + 1) by lia. reflexivity.
        * assert (E4 : (cnt <? Z.succ (Z.of_nat (length r))) = false) by lia. rewrite E4.
          cbn [filter]. replace (iter + 1 + Z.of_nat (length r)) with (iter + Z.succ (Z.of_nat (length r))) by lia. reflexivity.
  Qed.
  (* the skipping phase *)
  Lemma scan_pure_skip hit keylen : forall ks iter cursor cnt, 1 <= cursor -> cursor - 1 <= Z.of_nat (length ks) ->
    scan_pure ks iter cursor cnt keylen hit
    = scan_pure (skipn (Z.to_nat (cursor - 1)) ks) (iter + (cursor - 1)) 1 cnt keylen hit.
  Proof.
    induction ks as [|k r IH]; intros iter cursor cnt Hc Hl.
    - cbn [length] in Hl. rewrite skipn_nil. replace (cursor - 1) with 0 by lia. cbn [scan_pure]. f_equal. f_equal. lia.
    - destruct (Z.eq_dec cursor 1) as [->|Hne].
      + cbn [Z.sub Z.to_nat skipn]. replace (1 - 1) with 0 by lia. cbn [Z.to_nat skipn]. f_equal. lia.
      + cbn [scan_pure]. assert (E : (cursor - 1 >? 0) = true) by lia. rewrite E.
        cbn [length] in Hl. rewrite IH by lia.
        replace (Z.to_nat (cursor - 1)) with (S (Z.to_nat (cursor - 1 - 1))) by lia. cbn [skipn].
        f_equal. lia.
  Qed.

  (* one call on a fixed keyspace, as the reply shows it *)
  Definition scan_call (d : db) (c : Z) : Z * list bytes :=
    let '(nx, ks, _) := api_scan c pat count typ now d in (nx, ks).

  Lemma scan_call_equiv d d' c : sorted (idx d) -> scan_equiv d d' -> scan_call d' c = scan_call d c.
  Proof.
    intros Hs [Hk [Hh Hs']]. unfold scan_call, api_scan.
    assert (Hlen : length (idx d') = length (idx d)) by (rewrite <- (map_length fst (idx d')), <- Hk; apply map_length).
    rewrite Hlen. destruct ((Z.of_nat (length (idx d)) =? 0) || (c >? Z.of_nat (length (idx d)))); [reflexivity|].
    destruct (scan_loop_pure (idx d) 0 c count (Z.of_nat (length (idx d))) d Hs) as [e [He _]].
    destruct (scan_loop_pure (idx d') 0 c count (Z.of_nat (length (idx d))) d' Hs') as [e' [He' _]].
    rewrite He, He', <- Hk.
    rewrite (scan_pure_ext _ _ _ _ _ (scan_hit d') (scan_hit d)) by (intro; symmetry; apply Hh).
    destruct (scan_pure (map fst (idx d)) 0 c count (Z.of_nat (length (idx d))) (scan_hit d)) as [[it fin] res]. reflexivity.
  Qed.
  Lemma api_scan_equiv d c : sorted (idx d) -> scan_equiv d (snd (api_scan c pat count typ now d)).
  Proof.
    intro Hs. unfold api_scan.
    destruct ((Z.of_nat (length (idx d)) =? 0) || (c >? Z.of_nat (length (idx d)))).
    - cbn [snd]. split; [reflexivity|split; [reflexivity|exact Hs]].
    - destruct (scan_loop_pure (idx d) 0 c count (Z.of_nat (length (idx d))) d Hs) as [e [He Heq]].
      rewrite He. destruct (scan_pure _ _ _ _ _ _) as [[it fin] res]. cbn [snd]. exact Heq.
  Qed.

  (* the client's loop against the changing keyspace *)
  Fixpoint scan_iterate (fuel : nat) (c : Z) (d : db) : option (list bytes * db) :=
    match fuel with
    | O => None
    | S f => let '(nx, ks, d1) := api_scan c pat count typ now d in
             if nx =? 0 then Some (ks, d1)
             else match scan_iterate f nx d1 with Some (r, d2) => Some (ks ++ r, d2) | None => None end
    end.
  Lemma scan_iterate_fixed d0 : sorted (idx d0) -> forall fuel c d, scan_equiv d0 d ->
    forall r, iterate (scan_call d0) fuel c = Some r -> exists d', scan_iterate fuel c d = Some (r, d') /\ scan_equiv d0 d'.
  Proof.
    intros Hs0. induction fuel as [|f IH]; intros c d Heq r; cbn [iterate scan_iterate]; [discriminate|].
    pose proof (scan_call_equiv d0 d c Hs0 Heq) as Hc. unfold scan_call in Hc.
    assert (Hsd : sorted (idx d)) by apply Heq.
    pose proof (api_scan_equiv d c Hsd) as Hnext.
    unfold scan_call at 1.
    destruct (api_scan c pat count typ now d0) as [[nx0 ks0] e0].
    destruct (api_scan c pat count typ now d) as [[nx ks] d1]. cbn [snd] in Hnext. inversion Hc; subst nx0 ks0.
    assert (Heq1 : scan_equiv d0 d1).
    { destruct Heq as [Hk [Hh _]], Hnext as [Hk1 [Hh1 Hs1]]. split; [congruence|]. split; [|exact Hs1].
      intro k. rewrite Hh. apply Hh1. }
    destruct (nx =? 0).
    - intro H. inversion H; subst. exists d1. split; [reflexivity|exact Heq1].
    - destruct (iterate (scan_call d0) f nx) as [r'|] eqn:Ei; [|discriminate]. intro H. inversion H; subst.
      destruct (IH nx d1 Heq1 r' Ei) as [d' [Hd' He']]. rewrite Hd'. exists d'. split; [reflexivity|exact He'].
  Qed.

  Theorem scan_iteration d : sorted (idx d) -> count < two63 / 2 -> Z.of_nat (length (idx d)) < two63 / 2 ->
    exists r d', scan_iterate (S (length (idx d))) 0 d = Some (r, d') /\
                 forall k, In k r <-> scan_hit d k = true.
  Proof.
    intros Hs Hcs Hlen. set (ks := map fst (idx d)).
    assert (Hkl : length ks = length (idx d)) by apply map_length.
    destruct (iterate_pages ks (scan_hit d) (scan_call d) (fun c => Z.to_nat (Z.max (c - 1) 0))
                (fun c => 0 <= c <= Z.of_nat (length ks))) with (fuel := S (length (idx d))) (c := 0)
      as [r [Hr [Hsound Hcov]]].
    - intros c [Hc0 Hc1] _. unfold scan_call, api_scan. rewrite <- Hkl.
      destruct (Z.of_nat (length ks) =? 0) eqn:E0.
      + cbn [orb fst snd Z.eqb]. split; [intros e []|]. intros e He _.
        destruct ks; [rewrite skipn_nil in He; destruct He|cbn [length] in E0; lia].
      + assert (E1 : (c >? Z.of_nat (length ks)) = false) by lia. rewrite E1. cbn [orb].
        destruct (scan_loop_pure (idx d) 0 c count (Z.of_nat (length ks)) d Hs) as [e [He _]]. rewrite He. fold ks.
        set (s := Z.max (c - 1) 0).
        assert (Hpure : scan_pure ks 0 c count (Z.of_nat (length ks)) (scan_hit d)
                        = scan_pure (skipn (Z.to_nat s) ks) s (Z.min c 1) count (Z.of_nat (length ks)) (scan_hit d)).
        { destruct (Z_le_gt_dec 1 c) as [H1|H1].
          - rewrite scan_pure_skip by lia. unfold s. replace (Z.max (c - 1) 0) with (c - 1) by lia.
            replace (Z.min c 1) with 1 by lia. reflexivity.
          - unfold s. replace (Z.max (c - 1) 0) with 0 by lia. replace (Z.min c 1) with c by lia. reflexivity. }
        rewrite Hpure. set (rest := skipn (Z.to_nat s) ks).
        assert (Hrl : Z.of_nat (length rest) = Z.of_nat (length ks) - s) by (unfold rest; rewrite skipn_length; lia).
        rewrite scan_pure_window by lia.
        destruct (count <? Z.of_nat (length rest)) eqn:E2; cbn [fst snd].
        * assert (E3 : (s + count + 1 =? 0) = false) by lia. rewrite E3. split.
          -- intros k Hk. apply in_filter_iff in Hk. destruct Hk as [Hk HP]. split; [|exact HP].
             apply firstn_In' in Hk. unfold rest in Hk. eapply skipn_In; exact Hk.
          -- split; [lia|]. split; [lia|]. intros k Hk HP. apply in_filter_iff. split; [|exact HP].
             replace (Z.to_nat (Z.max (s + count + 1 - 1) 0) - Z.to_nat s)%nat with (Z.to_nat count) in Hk by lia. exact Hk.
        * cbn [Z.eqb]. split.
          -- intros k Hk. apply in_filter_iff in Hk. destruct Hk as [Hk HP]. split; [|exact HP].
             unfold rest in Hk. eapply skipn_In; exact Hk.
          -- intros k Hk HP. apply in_filter_iff. split; assumption.
    - lia.
    - cbn. lia.
    - cbn. lia.
    - destruct (scan_iterate_fixed d Hs (S (length (idx d))) 0 d) with (r := r) as [d' [Hd' _]].
      + split; [reflexivity|split; [reflexivity|exact Hs]].
      + exact Hr.
      + exists r, d'. split; [exact Hd'|]. intro k. split.
        * intro Hk. apply Hsound in Hk. apply Hk.
        * intro HP. apply Hcov; [|exact HP]. cbn [Z.max Z.to_nat skipn].
          replace (Z.to_nat (Z.max (0 - 1) 0)) with 0%nat by lia. cbn [skipn].
          unfold scan_hit in HP. destruct (fm_get k (idx d)) as [m|] eqn:G; [|discriminate].
          apply (get_in k m _ Hs) in G. unfold ks. change k with (fst (k, m)). now apply in_map.
  Qed.
End Scan.
