(* C18: invariants of the blocking-pop thread system (coq/Model/Block.v), for every schedule of
   steps, timer firings and clock ticks. *)
From Nodis Require Import Model.Conc Model.Block Proofs.ConcProofs.
From Coq Require Import ZArith List Bool Arith Lia.
Import ListNotations.
Local Open Scope Z_scope.

(* ---- association lists ------------------------------------------------------------------- *)
Lemma nget_ndel_same {A} k (m : list (nat * A)) : nget k (ndel k m) = None.
Proof.
  unfold ndel. induction m as [|[k' v] r IH]; cbn [filter nget fst]; [reflexivity|].
  destruct (Nat.eqb k' k) eqn:E; cbn [negb]; [exact IH|]. cbn [nget]. rewrite Nat.eqb_sym, E. exact IH.
Qed.
Lemma nget_ndel_other {A} k k0 (m : list (nat * A)) : k0 <> k -> nget k0 (ndel k m) = nget k0 m.
Proof.
  intro H. unfold ndel. induction m as [|[k' v] r IH]; cbn [filter nget fst]; [reflexivity|].
  destruct (Nat.eqb k' k) eqn:E; cbn [negb].
  - apply Nat.eqb_eq in E. subst k'. destruct (Nat.eqb k0 k) eqn:E2; [apply Nat.eqb_eq in E2; contradiction|exact IH].
  - cbn [nget]. destruct (Nat.eqb k0 k'); [reflexivity|exact IH].
Qed.

Fixpoint asum {A} (f : A -> Z) (m : list (nat * A)) : Z :=
  match m with [] => 0 | (_, a) :: r => f a + asum f r end.
Lemma asum_nset {A} (f : A -> Z) t y m :
  asum f (nset t y m) = asum f m - (match nget t m with Some old => f old | None => 0 end) + f y.
Proof.
  induction m as [|[k v] r IH]; cbn [nset nget asum]; [lia|].
  destruct (Nat.eqb t k); cbn [asum]; lia.
Qed.

(* ---- counting elements --------------------------------------------------------------------- *)
Definition occ (v : Z) (l : list Z) : Z := Z.of_nat (count_occ Z.eq_dec l v).
Lemma occ_nil v : occ v [] = 0. Proof. reflexivity. Qed.
Lemma occ_app v l1 l2 : occ v (l1 ++ l2) = occ v l1 + occ v l2.
Proof. unfold occ. rewrite count_occ_app. lia. Qed.
Lemma occ_cons v a l : occ v (a :: l) = occ v [a] + occ v l.
Proof. change (a :: l) with ([a] ++ l). apply occ_app. Qed.
Lemma occ_rev v l : occ v (rev l) = occ v l.
Proof. unfold occ. now rewrite count_occ_rev. Qed.
Lemma occ_nonneg v l : 0 <= occ v l.
Proof. unfold occ. lia. Qed.
Lemma occ_push v sd vs l : occ v (push_vals sd vs l) = occ v vs + occ v l.
Proof. destruct sd; cbn [push_vals]; rewrite occ_app, ?occ_rev; lia. Qed.
Lemma occ_pop v sd l x r : pop_one sd l = Some (x, r) -> occ v l = occ v [x] + occ v r.
Proof.
  destruct sd; cbn [pop_one].
  - destruct l as [|a l']; [discriminate|]. intro H. inversion H; subst. apply occ_cons.
  - destruct (rev l) as [|a l'] eqn:E; [discriminate|]. intro H. inversion H; subst.
    rewrite <- (occ_rev v l), E, occ_cons, occ_rev. reflexivity.
Qed.
Lemma pop_none_nil sd l : pop_one sd l = None -> l = [].
Proof.
  destruct sd; cbn [pop_one].
  - destruct l; [reflexivity|discriminate].
  - destruct (rev l) eqn:E; [|discriminate]. intros _. apply (f_equal (@rev Z)) in E. now rewrite rev_involutive in E.
Qed.

(* elements a thread has taken out of the lists and not put back *)
Definition held_elems (x : bthread) : list Z :=
  match b_pc x with
  | BMWait v => [v]
  | BWDereg (Some (_, v)) => [v]
  | BDone (RElem (Some v)) => match b_cmd x with BMove _ _ => [] | _ => [v] end
  | BDone (RBlock (Some (_, v))) => [v]
  | _ => []
  end.
(* elements a thread has added *)
Definition pushed_elems (x : bthread) : list Z :=
  match b_cmd x, b_pc x with
  | BPush _ _ vs, BPNotify => vs
  | BPush _ _ vs, BDone _ => vs
  | _, _ => []
  end.
Definition lcount (v : Z) (s : bstate) : Z := asum (occ v) (lists s).
Definition hcount (v : Z) (s : bstate) : Z := asum (fun x => occ v (held_elems x)) (bths s).
Definition pcount (v : Z) (s : bstate) : Z := asum (fun x => occ v (pushed_elems x)) (bths s).

(* none lost, none duplicated: for every value, (occurrences in the lists) + (occurrences handed to
   clients) = (occurrences at the start) + (occurrences pushed) *)
Definition Conserved (v0 : Z -> Z) (s : bstate) : Prop :=
  forall v, lcount v s + hcount v s = v0 v + pcount v s.

Lemma lcount_nset v k l s :
  asum (occ v) (nset k l (lists s)) = lcount v s - occ v (lget k (lists s)) + occ v l.
Proof.
  unfold lcount, lget. rewrite asum_nset. destruct (nget k (lists s)); [reflexivity|now rewrite occ_nil].
Qed.

Ltac thread_sums x Hx :=
  unfold hcount, pcount, lcount; cbn [bths lists set_bth set_klock set_lists set_tok set_reg notify dereg];
  rewrite ?asum_nset, ?Hx; unfold held_elems, pushed_elems;
  cbn [b_pc b_cmd with_bpc].
Ltac fin Hc Hp := rewrite ?Hc, ?Hp; cbv beta iota; rewrite ?occ_nil.

Lemma step_run_conserved v0 t s s' : Conserved v0 s -> step_run t s = Some s' -> Conserved v0 s'.
Proof.
  intros H Hs v. specialize (H v). unfold step_run in Hs.
  destruct (nget t (bths s)) as [x|] eqn:Hx; [|discriminate].
  unfold hcount, pcount, lcount, held_elems, pushed_elems in H.
  destruct (b_cmd x) as [sd k vs|sd k|a b|sd ks tmo] eqn:Hc; destruct (b_pc x) eqn:Hp; try discriminate.
  - (* push: lock + push *)
    destruct (lock_is_free k s); [|discriminate]. inversion Hs; subst s'; clear Hs.
    thread_sums x Hx. fin Hc Hp.
    fold (lget k (lists s)). rewrite occ_push.
    destruct (nget k (lists s)) eqn:E; unfold lget; rewrite E; rewrite ?occ_nil; lia.
  - (* push: notify + release *)
    inversion Hs; subst s'; clear Hs. thread_sums x Hx. fin Hc Hp. lia.
  - (* pop *)
    destruct (lock_is_free k s); [|discriminate].
    destruct (pop_one sd (lget k (lists s))) as [[y r]|] eqn:Ep; inversion Hs; subst s'; clear Hs.
    + thread_sums x Hx. fin Hc Hp.
      pose proof (occ_pop v sd _ y r Ep) as Ho.
      destruct (nget k (lists s)) eqn:E; unfold lget in Ho; rewrite E in Ho; rewrite ?occ_nil in *; lia.
    + thread_sums x Hx. fin Hc Hp. lia.
  - (* move: pop from the source *)
    destruct (lock_is_free a s); [|discriminate].
    destruct (pop_one SR (lget a (lists s))) as [[y r]|] eqn:Ep; inversion Hs; subst s'; clear Hs.
    + thread_sums x Hx. fin Hc Hp.
      pose proof (occ_pop v SR _ y r Ep) as Ho.
      destruct (nget a (lists s)) eqn:E; unfold lget in Ho; rewrite E in Ho; rewrite ?occ_nil in *; lia.
    + thread_sums x Hx. fin Hc Hp. lia.
  - (* move: push to the destination *)
    destruct (lock_avail b t s); [|discriminate]. inversion Hs; subst s'; clear Hs.
    thread_sums x Hx. fin Hc Hp.
    rewrite (occ_cons v v1).
    destruct (nget b (lists s)) eqn:E; unfold lget; rewrite E; rewrite ?occ_nil; lia.
  - (* move: notify *)
    inversion Hs; subst s'; clear Hs. thread_sums x Hx. fin Hc Hp. lia.
  - (* blocking pop: start *)
    inversion Hs; subst s'; clear Hs. thread_sums x Hx. fin Hc Hp. lia.
  - (* register *)
    destruct (nth_error ks i) as [k|]; [|discriminate].
    destruct (Nat.ltb (S i) (length ks)); inversion Hs; subst s'; clear Hs; thread_sums x Hx; fin Hc Hp; lia.
  - (* try *)
    destruct (nth_error ks i) as [k|]; [|discriminate].
    destruct (lock_is_free k s); [|discriminate].
    destruct (pop_one sd (lget k (lists s))) as [[y r]|] eqn:Ep.
    + inversion Hs; subst s'; clear Hs. thread_sums x Hx. fin Hc Hp.
      pose proof (occ_pop v sd _ y r Ep) as Ho.
      destruct (nget k (lists s)) eqn:E; unfold lget in Ho; rewrite E in Ho; rewrite ?occ_nil in *; lia.
    + destruct (Nat.ltb (S i) (length ks)); inversion Hs; subst s'; clear Hs; thread_sums x Hx; fin Hc Hp; lia.
  - (* select: wake-up *)
    destruct (mem t (tok s)); [|discriminate]. inversion Hs; subst s'; clear Hs. thread_sums x Hx. fin Hc Hp. lia.
  - (* deregister *)
    inversion Hs; subst s'; clear Hs. thread_sums x Hx. fin Hc Hp.
    destruct r as [[k y]|]; cbv beta iota; rewrite ?occ_nil; lia.
Qed.

Lemma bstep_conserved v0 o s s' : Conserved v0 s -> bstep o s = Some s' -> Conserved v0 s'.
Proof.
  intros H Hs. destruct o as [t|t|d]; cbn [bstep] in Hs.
  - exact (step_run_conserved v0 t s s' H Hs).
  - unfold step_fire in Hs. destruct (nget t (bths s)) as [x|] eqn:Hx; [|discriminate].
    destruct (b_cmd x) eqn:Hc; try discriminate. destruct (b_pc x) eqn:Hp; try discriminate.
    destruct (negb (tmo =? 0) && (b_deadline x <=? now s)); [|discriminate].
    inversion Hs; subst s'. intro v. specialize (H v). revert H. thread_sums x Hx. fin Hc Hp. lia.
  - destruct (0 <=? d); [|discriminate]. inversion Hs; subst s'. exact H.
Qed.

Theorem brun_conserved v0 sched : forall s, Conserved v0 s -> Conserved v0 (brun sched s).
Proof.
  induction sched as [|o r IH]; intros s H; [exact H|].
  unfold brun. cbn [fold_left]. fold (brun r). apply IH. unfold bapply.
  destruct (bstep o s) as [s'|] eqn:E; [exact (bstep_conserved v0 o s s' H E)|exact H].
Qed.

Lemma asum_zero {A} (f : A -> Z) m : (forall a, In a (map snd m) -> f a = 0) -> asum f m = 0.
Proof.
  induction m as [|[k a] r IH]; intro H; cbn [asum]; [reflexivity|].
  rewrite (H a (or_introl eq_refl)), IH; [reflexivity|]. intros a' Ha. apply H. now right.
Qed.
Lemma binit_conserved ls cmds : Conserved (fun v => asum (occ v) ls) (binit ls cmds).
Proof.
  intro v. unfold lcount, hcount, pcount, binit. cbn [lists bths].
  rewrite (asum_zero (fun x => occ v (held_elems x))), (asum_zero (fun x => occ v (pushed_elems x))); [lia| |].
  - intros a Ha. apply in_map_iff in Ha. destruct Ha as [[k b] [<- Hin]]. apply in_combine_r in Hin.
    apply in_map_iff in Hin. destruct Hin as [c [<- _]]. cbn. destruct c; reflexivity.
  - intros a Ha. apply in_map_iff in Ha. destruct Ha as [[k b] [<- Hin]]. apply in_combine_r in Hin.
    apply in_map_iff in Hin. destruct Hin as [c [<- _]]. reflexivity.
Qed.

Theorem conservation ls cmds sched :
  Conserved (fun v => asum (occ v) ls) (brun sched (binit ls cmds)).
Proof. apply brun_conserved, binit_conserved. Qed.

(* ---- a null reply only after the timeout ----------------------------------------------------- *)
Definition time_ok (nw : Z) (x : bthread) : Prop :=
  match b_cmd x with
  | BBlock _ _ tmo =>
      match b_pc x with
      | BStart => True
      | BWReg _ => b_start x <= nw
      | BWTry _ | BWSelect | BWDereg (Some _) | BDone (RBlock (Some _)) =>
          b_start x <= nw /\ b_start x + tmo <= b_deadline x
      | BWDereg None | BDone (RBlock None) =>
          b_start x <= nw /\ b_start x + tmo <= b_deadline x /\ tmo <> 0 /\ b_deadline x <= nw
      | _ => True
      end
  | _ => True
  end.
Definition TimeInv (s : bstate) : Prop := forall t x, nget t (bths s) = Some x -> time_ok (now s) x.

Lemma time_ok_mono n1 n2 x : n1 <= n2 -> time_ok n1 x -> time_ok n2 x.
Proof.
  intros Hn. unfold time_ok. destruct (b_cmd x); try tauto. destruct (b_pc x) as [| | | | | | |[?|]|[| |[?|]]]; try tauto; lia.
Qed.

Lemma time_frame t x' s s' :
  TimeInv s -> bths s' = nset t x' (bths s) -> now s' = now s -> time_ok (now s) x' -> TimeInv s'.
Proof.
  intros H Hb Hn Hx u y Hy. rewrite Hb in Hy. rewrite Hn. destruct (Nat.eq_dec u t) as [->|Hu].
  - rewrite nget_nset_same in Hy. inversion Hy; subst. exact Hx.
  - rewrite nget_nset_other in Hy by exact Hu. exact (H u y Hy).
Qed.

Lemma bstep_time o s s' : TimeInv s -> bstep o s = Some s' -> TimeInv s'.
Proof.
  intros H Hs. destruct o as [t|t|d]; cbn [bstep] in Hs.
  - unfold step_run in Hs. destruct (nget t (bths s)) as [x|] eqn:Hx; [|discriminate].
    pose proof (H t x Hx) as Ht. unfold time_ok in Ht.
    destruct (b_cmd x) as [sd k vs|sd k|a b|sd ks tmo] eqn:Hc; destruct (b_pc x) eqn:Hp; try discriminate;
      repeat match type of Hs with
             | (if ?c then _ else _) = Some _ => destruct c eqn:?; try discriminate
             | match ?c with Some _ => _ | None => _ end = Some _ => destruct c as [?|] eqn:?; try discriminate
             | (let (_, _) := ?p in _) = Some _ => destruct p
             end;
      inversion Hs; subst s'; clear Hs;
      (eapply time_frame; [exact H|reflexivity|reflexivity|]);
      unfold time_ok; cbn [b_cmd b_pc b_start b_deadline with_bpc]; rewrite ?Hc; try exact I; try lia.
    + destruct r as [?|]; lia.
  - unfold step_fire in Hs. destruct (nget t (bths s)) as [x|] eqn:Hx; [|discriminate].
    pose proof (H t x Hx) as Ht. unfold time_ok in Ht.
    destruct (b_cmd x) eqn:Hc; try discriminate. destruct (b_pc x) eqn:Hp; try discriminate.
    destruct (negb (tmo =? 0) && (b_deadline x <=? now s)) eqn:E; [|discriminate].
    inversion Hs; subst s'; clear Hs.
    eapply time_frame; [exact H|reflexivity|reflexivity|].
    unfold time_ok; cbn [b_cmd b_pc b_start b_deadline with_bpc]. rewrite Hc.
    apply andb_prop in E. destruct E as [E1 E2]. apply negb_true_iff in E1. lia.
  - destruct (0 <=? d) eqn:E; [|discriminate]. inversion Hs; subst s'. intros u y Hy. cbn [bths now] in *.
    apply (time_ok_mono (now s)); [lia|exact (H u y Hy)].
Qed.

Theorem brun_time sched : forall s, TimeInv s -> TimeInv (brun sched s).
Proof.
  induction sched as [|o r IH]; intros s H; [exact H|].
  unfold brun. cbn [fold_left]. fold (brun r). apply IH. unfold bapply.
  destruct (bstep o s) as [s'|] eqn:E; [exact (bstep_time o s s' H E)|exact H].
Qed.
Lemma binit_time ls cmds : TimeInv (binit ls cmds).
Proof.
  intros t x Hx. unfold binit in Hx. cbn [bths] in Hx. apply nget_combine_in in Hx.
  apply in_map_iff in Hx. destruct Hx as [c [<- _]]. unfold time_ok. cbn. destruct c; exact I.
Qed.

(* a blocking pop that replies null had a non-zero timeout, and the clock has passed the moment of
   its invocation by at least that timeout *)
Theorem null_only_after_timeout ls cmds sched t x sd ks tmo :
  let s := brun sched (binit ls cmds) in
  nget t (bths s) = Some x -> b_cmd x = BBlock sd ks tmo -> b_pc x = BDone (RBlock None) ->
  tmo <> 0 /\ b_start x + tmo <= now s.
Proof.
  intros s Hx Hc Hp. pose proof (brun_time sched _ (binit_time ls cmds) t x Hx) as H.
  unfold time_ok in H. rewrite Hc, Hp in H. subst s. lia.
Qed.
