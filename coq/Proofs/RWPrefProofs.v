(* If every command takes its key locks in one global order, no state is a deadlock - also under the
   writer preference of sync.RWMutex.  (nodis takes them in argument order: the witnesses of RWPref.v.) *)
From Coq Require Import List Arith Bool Lia Sorted.
From Nodis Require Import Model.RWPref.
Import ListNotations.

Definition key_lt (a b : act) : Prop := akey a < akey b.
Definition Ord (x : th) : Prop :=
  StronglySorted key_lt (prog x) /\
  (forall j a, In j (held_r x) \/ In j (held_w x) -> In a (prog x) -> j < akey a) /\
  (forall k, ann x = Some k -> exists rest, prog x = WL k :: rest).

Lemma memb_In k l : memb k l = true <-> In k l.
Proof.
  unfold memb. rewrite existsb_exists. split.
  - intros [j [Hj E]]. apply Nat.eqb_eq in E. now subst.
  - intro H. exists k. split; [exact H|apply Nat.eqb_refl].
Qed.

Lemma other_sat_true p t : forall ths i, other_sat p t i ths = true ->
  exists u y, i + u <> t /\ nth_error ths u = Some y /\ p y = true.
Proof.
  induction ths as [|x r IH]; intros i H; cbn [other_sat] in H; [discriminate|].
  apply orb_true_iff in H. destruct H as [H|H].
  - apply andb_true_iff in H. destruct H as [Hn Hp]. apply negb_true_iff, Nat.eqb_neq in Hn.
    exists 0, x. repeat split; [lia|exact Hp].
  - destruct (IH (S i) H) as [u [y [Hu [Hy Hp]]]]. exists (S u), y. repeat split; [lia|exact Hy|exact Hp].
Qed.
Lemma others_true p t ths : others p t ths = true -> exists u y, u <> t /\ nth_error ths u = Some y /\ p y = true.
Proof. intro H. destruct (other_sat_true p t ths 0 H) as [u [y [A [B C]]]]. exists u, y. repeat split; auto. Qed.

Lemma nth_set_nth_same : forall ths t x, t < length ths -> nth_error (set_nth t x ths) t = Some x.
Proof. induction ths as [|y r IH]; intros [|t] x H; cbn in *; try lia; [reflexivity|apply IH; lia]. Qed.
Lemma Forall_set_nth (P : th -> Prop) : forall ths t x, Forall P ths -> P x -> Forall P (set_nth t x ths).
Proof.
  induction ths as [|y r IH]; intros t x H Hx; [destruct t; constructor|].
  inversion H; subst. destruct t; cbn [set_nth]; constructor; auto.
Qed.

(* ---- the order invariant is kept ------------------------------------------------------------- *)
Lemma step_Ord t ths ths' : Forall Ord ths -> step t ths = Some ths' -> Forall Ord ths'.
Proof.
  intros HF. unfold step. destruct (nth_error ths t) as [x|] eqn:Ex; [|discriminate].
  assert (Hx : Ord x) by (eapply Forall_forall; [exact HF|eapply nth_error_In; exact Ex]).
  destruct Hx as [Hs [Hh Ha]].
  destruct (prog x) as [|[k|k] rest] eqn:Ep.
  - destruct (finished x); [discriminate|]. intro H. inversion H; subst.
    apply Forall_set_nth; [exact HF|]. repeat split; cbn; [constructor|intros ? ? [[]|[]]|discriminate].
  - assert (An : ann x = None).
    { destruct (ann x) as [j|] eqn:E; [|reflexivity]. destruct (Ha j eq_refl) as [r' E']. discriminate. }
    inversion Hs as [|? ? Hs' Hall]; subst.
    destruct (memb k (held_r x) || memb k (held_w x)).
    + intro H. inversion H; subst. apply Forall_set_nth; [exact HF|]. repeat split; cbn [prog held_r held_w ann].
      * exact Hs'.
      * intros j a Hj Hin. apply Hh; [exact Hj|now right].
      * rewrite An. discriminate.
    + destruct (others _ t ths); [discriminate|]. intro H. inversion H; subst.
      apply Forall_set_nth; [exact HF|]. repeat split; cbn [prog held_r held_w ann].
      * exact Hs'.
      * intros j a [[<-|Hj]|Hj] Hin.
        -- rewrite Forall_forall in Hall. exact (Hall a Hin).
        -- apply Hh; [now left|now right].
        -- apply Hh; [now right|now right].
      * rewrite An. discriminate.
  - inversion Hs as [|? ? Hs' Hall]; subst.
    destruct (memb k (held_w x)) eqn:Ew.
    + (* k held as writer while WL k is still to come: impossible by the order, k < k *)
      exfalso. assert (Hk : k < akey (WL k)) by (apply Hh; [right; apply memb_In; exact Ew|now left]). cbn in Hk. lia.
    + destruct (ann x) as [j|] eqn:An.
      * destruct (memb k (held_r x) || others _ t ths); [discriminate|]. intro H. inversion H; subst.
        apply Forall_set_nth; [exact HF|]. repeat split; cbn [prog held_r held_w ann].
        -- exact Hs'.
        -- intros i a [Hi|[<-|Hi]] Hin.
           ++ apply Hh; [now left|now right].
           ++ rewrite Forall_forall in Hall. exact (Hall a Hin).
           ++ apply Hh; [now right|now right].
        -- discriminate.
      * destruct (others _ t ths); [discriminate|]. intro H. inversion H; subst.
        apply Forall_set_nth; [exact HF|]. repeat split; cbn [prog held_r held_w ann].
        -- exact Hs.
        -- exact Hh.
        -- intros j Ej. inversion Ej; subst. exists rest. reflexivity.
Qed.

(* ---- no deadlock under ordered acquisition ---------------------------------------------------- *)
Definition kmax (ths : list th) : nat := list_max (map akey (flat_map prog ths)).
Lemma key_le_kmax ths t x a : nth_error ths t = Some x -> In a (prog x) -> akey a <= kmax ths.
Proof.
  intros Hn Ha. unfold kmax.
  pose proof (proj1 (list_max_le (map akey (flat_map prog ths)) _) (le_n _)) as HF.
  rewrite Forall_forall in HF. apply HF. apply in_map. apply in_flat_map. exists x. split; [|exact Ha].
  eapply nth_error_In; exact Hn.
Qed.

Lemma release_enabled ths u y k : nth_error ths u = Some y -> prog y = [] ->
  In k (held_r y) \/ In k (held_w y) -> enabled u ths = true.
Proof.
  intros Hn Hp Hk. unfold enabled, step. rewrite Hn, Hp.
  assert (F : finished y = false).
  { unfold finished. rewrite Hp. destruct (held_r y) as [|? ?]; [|reflexivity].
    destruct (held_w y) as [|? ?]; [|reflexivity]. destruct Hk as [[]|[]]. }
  rewrite F. reflexivity.
Qed.

Lemma progress_m ths : Forall Ord ths -> forall m t x a rest,
  nth_error ths t = Some x -> prog x = a :: rest -> kmax ths - akey a = m -> exists u, enabled u ths = true.
Proof.
  intros HF m. induction m as [m IH] using lt_wf_ind. intros t x a rest Hn Hp Hm.
  assert (Hx : Ord x) by (eapply Forall_forall; [exact HF|eapply nth_error_In; exact Hn]).
  assert (Hak : akey a <= kmax ths) by (eapply key_le_kmax; [exact Hn|rewrite Hp; now left]).
  (* a thread that holds the key t waits for either runs or waits for a larger key *)
  assert (holder : forall u y, nth_error ths u = Some y -> In (akey a) (held_r y) \/ In (akey a) (held_w y) ->
                               exists v, enabled v ths = true).
  { intros u y Hu Hk.
    assert (Hy : Ord y) by (eapply Forall_forall; [exact HF|eapply nth_error_In; exact Hu]).
    destruct (prog y) as [|b rest'] eqn:Ey.
    - exists u. eapply release_enabled; eassumption.
    - destruct Hy as [_ [Hh _]].
      assert (Hlt : akey a < akey b) by (apply Hh; [exact Hk|rewrite Ey; now left]).
      assert (Hb : akey b <= kmax ths) by (eapply key_le_kmax; [exact Hu|rewrite Ey; now left]).
      apply (IH (kmax ths - akey b)) with (t := u) (x := y) (a := b) (rest := rest'); auto. lia. }
  (* a writer that has announced itself on that key either gets it or waits for a reader that holds it *)
  assert (pending : forall u y, nth_error ths u = Some y -> ann y = Some (akey a) -> exists v, enabled v ths = true).
  { intros u y Hu Ha.
    assert (Hy : Ord y) by (eapply Forall_forall; [exact HF|eapply nth_error_In; exact Hu]).
    destruct Hy as [_ [Hh Han]]. destruct (Han _ Ha) as [r' Ey].
    destruct (step u ths) as [s'|] eqn:Es; [exists u; unfold enabled; now rewrite Es|].
    unfold step in Es. rewrite Hu, Ey, Ha in Es.
    destruct (memb (akey a) (held_w y)); [discriminate|].
    destruct (memb (akey a) (held_r y)) eqn:Er.
    { exfalso. apply memb_In in Er. assert (akey a < akey (WL (akey a))) by (apply Hh; [now left|rewrite Ey; now left]). cbn in *. lia. }
    cbn [orb] in Es.
    destruct (others (fun y0 => memb (akey a) (held_r y0)) u ths) eqn:Eo; [|discriminate].
    destruct (others_true _ _ _ Eo) as [v [z [_ [Hv Hz]]]]. apply memb_In in Hz.
    apply (holder v z Hv). now left. }
  (* who blocks a reader, or a writer that wants to announce itself *)
  assert (blocked : others (fun y => memb (akey a) (held_w y) || ann_is (akey a) y) t ths = true -> exists v, enabled v ths = true).
  { intro Eo. destruct (others_true _ _ _ Eo) as [u [y [_ [Hu Hy]]]].
    apply orb_true_iff in Hy. destruct Hy as [Hy|Hy].
    - apply memb_In in Hy. apply (holder u y Hu). now right.
    - unfold ann_is in Hy. destruct (ann y) as [j|] eqn:Ea; [|discriminate]. apply Nat.eqb_eq in Hy. subst j.
      apply (pending u y Hu Ea). }
  destruct (step t ths) as [s'|] eqn:Es; [exists t; unfold enabled; now rewrite Es|].
  unfold step in Es. rewrite Hn, Hp in Es. destruct a as [k|k]; cbn [akey] in *.
  - destruct (memb k (held_r x) || memb k (held_w x)); [discriminate|].
    destruct (others _ t ths) eqn:Eo; [|discriminate]. first [exact (blocked Eo) | exact (blocked eq_refl)].
  - destruct (memb k (held_w x)); [discriminate|].
    destruct (ann x) as [j|] eqn:Ea.
    + destruct Hx as [_ [Hh Han]].
      destruct (memb k (held_r x)) eqn:Er.
      { exfalso. apply memb_In in Er. assert (k < akey (WL k)) by (apply Hh; [now left|rewrite Hp; now left]). cbn in *. lia. }
      cbn [orb] in Es. destruct (others (fun y0 => memb k (held_r y0)) t ths) eqn:Eo; [|discriminate].
      destruct (others_true _ _ _ Eo) as [v [z [_ [Hv Hz]]]]. apply memb_In in Hz. apply (holder v z Hv). now left.
    + destruct (others _ t ths) eqn:Eo; [|discriminate]. first [exact (blocked Eo) | exact (blocked eq_refl)].
Qed.

Theorem ordered_never_deadlocks ths : Forall Ord ths -> all_finished ths = false -> exists u, enabled u ths = true.
Proof.
  intros HF Hnf. unfold all_finished in Hnf.
  assert (Hex : exists x, In x ths /\ finished x = false).
  { clear HF. induction ths as [|y r IH]; cbn [forallb] in Hnf; [discriminate|].
    apply andb_false_iff in Hnf. destruct Hnf as [H|H].
    - exists y. split; [now left|exact H].
    - destruct (IH H) as [x [Hx Hf]]. exists x. split; [now right|exact Hf]. }
  destruct Hex as [x [Hin Hf]]. destruct (In_nth_error _ _ Hin) as [t Hn].
  destruct (prog x) as [|a rest] eqn:Ep.
  - exists t. unfold finished in Hf. rewrite Ep in Hf.
    destruct (held_r x) as [|k l] eqn:Er.
    + destruct (held_w x) as [|k l] eqn:Ew; [discriminate|].
      apply (release_enabled ths t x k Hn Ep). right. rewrite Ew. now left.
    + apply (release_enabled ths t x k Hn Ep). left. rewrite Er. now left.
  - eapply progress_m; eauto.
Qed.

(* every reachable state of commands whose keys are strictly increasing *)
Definition ordered_prog (p : list act) : Prop := StronglySorted key_lt p.
Lemma start_Ord ps : Forall ordered_prog ps -> Forall Ord (start ps).
Proof.
  intro H. unfold start. rewrite Forall_map. eapply Forall_impl; [|exact H].
  intros p Hp. repeat split; cbn; [exact Hp|intros ? ? [[]|[]]|discriminate].
Qed.
Lemma run_Ord sched : forall ths, Forall Ord ths -> Forall Ord (run sched ths).
Proof.
  induction sched as [|t r IH]; intros ths H; cbn [run fold_left]; [exact H|].
  apply IH. unfold apply. destruct (step t ths) as [s'|] eqn:E; [eapply step_Ord; eassumption|exact H].
Qed.
Theorem ordered_commands_never_deadlock ps sched :
  Forall ordered_prog ps -> deadlocked (run sched (start ps)) = false.
Proof.
  intro H. set (s := run sched (start ps)).
  assert (HO : Forall Ord s) by (apply run_Ord, start_Ord, H).
  unfold deadlocked. destruct (all_finished s) eqn:Ef; [reflexivity|]. cbn [negb andb].
  destruct (ordered_never_deadlocks s HO Ef) as [u Hu].
  apply not_true_is_false. intro Hall. rewrite forallb_forall in Hall.
  assert (Hlt : u < length s).
  { unfold enabled, step in Hu. destruct (nth_error s u) eqn:E; [|discriminate]. apply nth_error_Some. congruence. }
  specialize (Hall u). rewrite Hu in Hall. cbn in Hall.
  assert (In u (seq 0 (length s))) by (apply in_seq; lia). specialize (Hall H0). discriminate.
Qed.
Print Assumptions ordered_commands_never_deadlock.

(* corollary: commands that lock at most one key - readers and writers in any mix - never deadlock *)
Corollary single_key_commands_never_deadlock ps sched :
  Forall (fun p => length p <= 1) ps -> deadlocked (run sched (start ps)) = false.
Proof.
  intro H. apply ordered_commands_never_deadlock. eapply Forall_impl; [|exact H].
  intros p Hp. destruct p as [|a [|b r]]; cbn in Hp; [constructor|constructor; constructor|lia].
Qed.
