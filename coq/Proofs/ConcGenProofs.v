(* C05, general form: writers (RPUSH, RPUSHX, LPOP) on keys that may not exist yet, are emptied, unlinked
   and re-created while others use them.  For every interleaving of micro-steps, at every moment,
   the value of every key is its initial value plus the pushes stored minus the pops stored
   (a missing key counts as 0): no acknowledged update is lost or applied twice.  What carries it:
   a thread that works on a record holds it exclusively, and the record is the one the index holds for
   the key and is not unlinked (coq/Model/Conc.v, the repaired tx.go protocol). *)
From Nodis Require Import Model.Conc Proofs.ConcProofs Proofs.BlockProofs.
From Coq Require Import ZArith List Bool Arith Lia.
Import ListNotations.
Local Open Scope Z_scope.

Definition wkey (c : cmd) : option nat :=
  match c with Push k | Pop k | PushX k => Some k | _ => None end.
Definition is_push (c : cmd) : bool := match c with Push _ | PushX _ => true | _ => false end.
Definition cur0 (k : nat) (s : cstate) : Z :=
  match nget k (ix s) with Some r => r_val (get_rec r s) | None => 0 end.

(* what thread x has contributed to key k so far *)
Definition eff (k : nat) (x : thread) : Z :=
  match t_cmd x with
  | Push k' | PushX k' =>
      if Nat.eqb k' k
      then match t_pc x with PStored _ _ => 1 | PDone rp => if 0 <? rp then 1 else 0 | _ => 0 end
      else 0
  | Pop k' =>
      if Nat.eqb k' k
      then match t_pc x with PStored _ _ | PUnlink _ true => -1 | PDone rp => if rp =? 1 then -1 else 0 | _ => 0 end
      else 0
  | Move a b =>
      (* LPOPRPUSH a b: -1 on the source once the pop is stored, +1 on the destination once the push is stored *)
      (if Nat.eqb a k
       then match t_pc x with
            | PStored _ false | PUnlink _ true | PHit _ true | PWait _ true | PMiss true | PLocked _ true | PPub _ true
            | PLoaded _ _ true | PStored _ true => -1
            | PDone rp => if rp =? 1 then -1 else 0
            | _ => 0
            end
       else 0) +
      (if Nat.eqb b k
       then match t_pc x with PStored _ true => 1 | PDone rp => if rp =? 1 then 1 else 0 | _ => 0 end
       else 0)
  | _ => 0
  end.

Definition own (s : cstate) (t : nat) (x : thread) (k r : nat) : Prop :=
  t_held x = [(r, true)] /\ r_w (get_rec r s) = Some t /\ nget k (ix s) = Some r /\
  r_unl (get_rec r s) = false /\ (r < nextr s)%nat.
Definition tokW (s : cstate) (t : nat) (x : thread) : Prop :=
  exists k, wkey (t_cmd x) = Some k /\
  match t_pc x with
  | PStart | PMiss false | PDone _ => t_held x = []
  | PHit r false | PWait r false =>
      t_held x = [] /\ (r < nextr s)%nat /\ (r_unl (get_rec r s) = false -> nget k (ix s) = Some r)
  | PLocked r false | PPub r false => own s t x k r
  | PLoaded r tmp false => own s t x k r /\ tmp = r_val (get_rec r s)
  | PStored r false => own s t x k r /\ (is_push (t_cmd x) = true -> 1 <= r_val (get_rec r s))
  | PUnlink r _ => own s t x k r /\ (r_val (get_rec r s) = 0 /\ is_push (t_cmd x) = false)
  | _ => False
  end.

(* LPOPRPUSH a b, a <> b.  Phase 1 (second = false) works on the source like a pop; from the moment the pop is
   stored the thread keeps holding the source record r1 - linked as a's record, or flagged if the pop emptied the list
   and the thread unlinked it - while it looks up, locks or creates the destination and pushes. *)
Definition held1 (s : cstate) (t : nat) (a r1 : nat) : Prop :=
  r_w (get_rec r1 s) = Some t /\ (r1 < nextr s)%nat /\
  ((nget a (ix s) = Some r1 /\ r_unl (get_rec r1 s) = false) \/ r_unl (get_rec r1 s) = true).
Definition own2 (s : cstate) (t : nat) (b r2 : nat) : Prop :=
  r_w (get_rec r2 s) = Some t /\ nget b (ix s) = Some r2 /\ r_unl (get_rec r2 s) = false /\ (r2 < nextr s)%nat.
Definition tokM (s : cstate) (t : nat) (x : thread) : Prop :=
  exists a b, t_cmd x = Move a b /\ a <> b /\
  match t_pc x with
  | PStart | PMiss false | PDone _ => t_held x = []
  | PHit r false | PWait r false =>
      t_held x = [] /\ (r < nextr s)%nat /\ (r_unl (get_rec r s) = false -> nget a (ix s) = Some r)
  | PLocked r false | PStored r false => own s t x a r
  | PLoaded r tmp false => own s t x a r /\ tmp = r_val (get_rec r s)
  | PUnlink r popped => own s t x a r /\ (r_val (get_rec r s) = 0 /\ popped = true)
  | PPub _ false => False
  | PHit r2 true | PWait r2 true =>
      exists r1, t_held x = [(r1, true)] /\ held1 s t a r1 /\ (r2 < nextr s)%nat /\ r2 <> r1 /\
                 (r_unl (get_rec r2 s) = false -> nget b (ix s) = Some r2)
  | PMiss true => exists r1, t_held x = [(r1, true)] /\ held1 s t a r1
  | PLocked r2 true | PPub r2 true | PStored r2 true =>
      exists r1, t_held x = [(r2, true); (r1, true)] /\ held1 s t a r1 /\ r2 <> r1 /\ own2 s t b r2
  | PLoaded r2 tmp true =>
      exists r1, t_held x = [(r2, true); (r1, true)] /\ held1 s t a r1 /\ r2 <> r1 /\ own2 s t b r2 /\ tmp = r_val (get_rec r2 s)
  end.
Definition tok (s : cstate) (t : nat) (x : thread) : Prop := tokW s t x \/ tokM s t x.

Section General.
  Variable v0 : nat -> Z.

  Record GInv (s : cstate) : Prop := {
    gV : forall t x, nget t (ths s) = Some x -> tok s t x;
    gK : forall k, cur0 k s = v0 k + asum (eff k) (ths s);
    gN : forall r, 0 <= r_val (get_rec r s);
    gI : forall k k' r, nget k (ix s) = Some r -> nget k' (ix s) = Some r -> k = k';
    gR : forall k r, nget k (ix s) = Some r -> (r < nextr s)%nat;
    gF : forall r, (nextr s <= r)%nat -> nget r (recs s) = None;
    gJ : forall k r, nget k (ix s) = Some r -> r_unl (get_rec r s) = false }.

  Lemma own_frame s s' t x k r :
    own s t x k r -> (nextr s <= nextr s')%nat ->
    (forall r0, r_w (get_rec r0 s) = Some t -> get_rec r0 s' = get_rec r0 s) ->
    (forall k0 r0, nget k0 (ix s) = Some r0 -> r_w (get_rec r0 s) = Some t -> nget k0 (ix s') = Some r0) ->
    own s' t x k r.
  Proof.
    intros [Hh [Hw [Hi [Hu Hr]]]] Hn Hrec Hix. unfold own. rewrite (Hrec r Hw). split; [exact Hh|]. split; [exact Hw|]. split; [now apply Hix|]. split; [exact Hu|lia].
  Qed.
  Lemma tokW_frame s s' t x :
    tokW s t x -> (nextr s <= nextr s')%nat ->
    (forall r0, r_w (get_rec r0 s) = Some t -> get_rec r0 s' = get_rec r0 s) ->
    (forall k0 r0, nget k0 (ix s) = Some r0 -> r_w (get_rec r0 s) = Some t -> nget k0 (ix s') = Some r0) ->
    (forall r0, r_unl (get_rec r0 s') = false -> r_unl (get_rec r0 s) = false) ->
    (forall k0 r0, nget k0 (ix s) = Some r0 -> nget k0 (ix s') = Some r0 \/ r_unl (get_rec r0 s') = true) ->
    tokW s' t x.
  Proof.
    intros [k [Hk Hp]] Hn Hrec Hix HM1 HM2. exists k. split; [exact Hk|].
    destruct (t_pc x) as [|r [|]|r [|]|r [|]|[|]|r [|]|r tmp [|]|r [|]|r p|rp]; try exact Hp; try contradiction.
    - destruct Hp as [Hh [Hr Hu]]. split; [exact Hh|]. split; [lia|]. intro H.
      destruct (HM2 k r (Hu (HM1 r H))) as [H1|H1]; [exact H1|congruence].
    - destruct Hp as [Hh [Hr Hu]]. split; [exact Hh|]. split; [lia|]. intro H.
      destruct (HM2 k r (Hu (HM1 r H))) as [H1|H1]; [exact H1|congruence].
    - now apply (own_frame s).
    - now apply (own_frame s).
    - destruct Hp as [Ho Ht]. pose proof Ho as [_ [Hw _]]. split; [now apply (own_frame s)|now rewrite (Hrec r Hw)].
    - destruct Hp as [Ho Ht]. pose proof Ho as [_ [Hw _]]. split; [now apply (own_frame s)|now rewrite (Hrec r Hw)].
    - destruct Hp as [Ho Ht]. pose proof Ho as [_ [Hw _]]. split; [now apply (own_frame s)|now rewrite (Hrec r Hw)].
  Qed.

  Lemma held1_frame s s' t a r1 :
    held1 s t a r1 -> (nextr s <= nextr s')%nat ->
    (forall r0, r_w (get_rec r0 s) = Some t -> get_rec r0 s' = get_rec r0 s) ->
    (forall k0 r0, nget k0 (ix s) = Some r0 -> r_w (get_rec r0 s) = Some t -> nget k0 (ix s') = Some r0) ->
    held1 s' t a r1.
  Proof.
    intros [Hw [Hr Hl]] Hn Hrec Hix. unfold held1. rewrite (Hrec r1 Hw). split; [exact Hw|]. split; [lia|].
    destruct Hl as [[Hi Hu]|Hu]; [left; split; [now apply Hix|exact Hu]|now right].
  Qed.
  Lemma own2_frame s s' t b r2 :
    own2 s t b r2 -> (nextr s <= nextr s')%nat ->
    (forall r0, r_w (get_rec r0 s) = Some t -> get_rec r0 s' = get_rec r0 s) ->
    (forall k0 r0, nget k0 (ix s) = Some r0 -> r_w (get_rec r0 s) = Some t -> nget k0 (ix s') = Some r0) ->
    own2 s' t b r2.
  Proof.
    intros [Hw [Hi [Hu Hr]]] Hn Hrec Hix. unfold own2. rewrite (Hrec r2 Hw). split; [exact Hw|]. split; [now apply Hix|]. split; [exact Hu|lia].
  Qed.
  Lemma tokM_frame s s' t x :
    tokM s t x -> (nextr s <= nextr s')%nat ->
    (forall r0, r_w (get_rec r0 s) = Some t -> get_rec r0 s' = get_rec r0 s) ->
    (forall k0 r0, nget k0 (ix s) = Some r0 -> r_w (get_rec r0 s) = Some t -> nget k0 (ix s') = Some r0) ->
    (forall r0, r_unl (get_rec r0 s') = false -> r_unl (get_rec r0 s) = false) ->
    (forall k0 r0, nget k0 (ix s) = Some r0 -> nget k0 (ix s') = Some r0 \/ r_unl (get_rec r0 s') = true) ->
    tokM s' t x.
  Proof.
    intros [a [b [Hc [Hab Hp]]]] Hn Hrec Hix HM1 HM2. exists a, b. split; [exact Hc|]. split; [exact Hab|].
    destruct (t_pc x) as [|r [|]|r [|]|r [|]|[|]|r [|]|r tmp [|]|r [|]|r p|rp]; try exact Hp; try contradiction.
    - (* PHit true *) destruct Hp as [r1 [Hh [H1 [Hr [Hne Hu]]]]]. exists r1. split; [exact Hh|]. split; [now apply (held1_frame s)|]. split; [lia|]. split; [exact Hne|].
      intro H. destruct (HM2 b r (Hu (HM1 r H))) as [H2|H2]; [exact H2|congruence].
    - (* PHit false *) destruct Hp as [Hh [Hr Hu]]. split; [exact Hh|]. split; [lia|]. intro H.
      destruct (HM2 a r (Hu (HM1 r H))) as [H2|H2]; [exact H2|congruence].
    - (* PWait true *) destruct Hp as [r1 [Hh [H1 [Hr [Hne Hu]]]]]. exists r1. split; [exact Hh|]. split; [now apply (held1_frame s)|]. split; [lia|]. split; [exact Hne|].
      intro H. destruct (HM2 b r (Hu (HM1 r H))) as [H2|H2]; [exact H2|congruence].
    - (* PWait false *) destruct Hp as [Hh [Hr Hu]]. split; [exact Hh|]. split; [lia|]. intro H.
      destruct (HM2 a r (Hu (HM1 r H))) as [H2|H2]; [exact H2|congruence].
    - (* PLocked true *) destruct Hp as [r1 [Hh [H1 [Hne H2]]]]. exists r1. split; [exact Hh|]. split; [now apply (held1_frame s)|]. split; [exact Hne|now apply (own2_frame s)].
    - (* PLocked false *) now apply (own_frame s).
    - (* PMiss true *) destruct Hp as [r1 [Hh H1]]. exists r1. split; [exact Hh|now apply (held1_frame s)].
    - (* PPub true *) destruct Hp as [r1 [Hh [H1 [Hne H2]]]]. exists r1. split; [exact Hh|]. split; [now apply (held1_frame s)|]. split; [exact Hne|now apply (own2_frame s)].
    - (* PLoaded true *) destruct Hp as [r1 [Hh [H1 [Hne [H2 Ht]]]]]. exists r1. split; [exact Hh|]. split; [now apply (held1_frame s)|]. split; [exact Hne|].
      pose proof H2 as [Hw2 _]. split; [now apply (own2_frame s)|now rewrite (Hrec r Hw2)].
    - (* PLoaded false *) destruct Hp as [Ho Ht]. pose proof Ho as [_ [Hw _]]. split; [now apply (own_frame s)|now rewrite (Hrec r Hw)].
    - (* PStored true *) destruct Hp as [r1 [Hh [H1 [Hne H2]]]]. exists r1. split; [exact Hh|]. split; [now apply (held1_frame s)|]. split; [exact Hne|now apply (own2_frame s)].
    - (* PStored false *) now apply (own_frame s).
    - (* PUnlink *) destruct Hp as [Ho Ht]. pose proof Ho as [_ [Hw _]]. split; [now apply (own_frame s)|now rewrite (Hrec r Hw)].
  Qed.
  Lemma tok_frame s s' t x :
    tok s t x -> (nextr s <= nextr s')%nat ->
    (forall r0, r_w (get_rec r0 s) = Some t -> get_rec r0 s' = get_rec r0 s) ->
    (forall k0 r0, nget k0 (ix s) = Some r0 -> r_w (get_rec r0 s) = Some t -> nget k0 (ix s') = Some r0) ->
    (forall r0, r_unl (get_rec r0 s') = false -> r_unl (get_rec r0 s) = false) ->
    (forall k0 r0, nget k0 (ix s) = Some r0 -> nget k0 (ix s') = Some r0 \/ r_unl (get_rec r0 s') = true) ->
    tok s' t x.
  Proof.
    intros [H|H] Hn Hrec Hix HM1 HM2; [left; now apply (tokW_frame s)|right; now apply (tokM_frame s)].
  Qed.

  (* the threads other than the stepping one *)
  Lemma others_frame s s' t x' :
    (forall u y, nget u (ths s) = Some y -> tok s u y) ->
    ths s' = nset t x' (ths s) -> (nextr s <= nextr s')%nat ->
    (forall u r0, u <> t -> r_w (get_rec r0 s) = Some u -> get_rec r0 s' = get_rec r0 s) ->
    (forall u k0 r0, u <> t -> nget k0 (ix s) = Some r0 -> r_w (get_rec r0 s) = Some u -> nget k0 (ix s') = Some r0) ->
    (forall r0, r_unl (get_rec r0 s') = false -> r_unl (get_rec r0 s) = false) ->
    (forall k0 r0, nget k0 (ix s) = Some r0 -> nget k0 (ix s') = Some r0 \/ r_unl (get_rec r0 s') = true) ->
    tok s' t x' ->
    forall u y, nget u (ths s') = Some y -> tok s' u y.
  Proof.
    intros HV Hth Hn Hrec Hix HM1 HM2 Hself u y Hy. rewrite Hth in Hy. destruct (Nat.eq_dec u t) as [->|Hne].
    - rewrite nget_nset_same in Hy. inversion Hy; subst y. exact Hself.
    - rewrite nget_nset_other in Hy by exact Hne.
      apply (tok_frame s s' u y (HV u y Hy) Hn); [intros r0 H; now apply (Hrec u)|intros k0 r0 H1 H2; now apply (Hix u)|exact HM1|exact HM2].
  Qed.

  Lemma asum_eff_nset k t x x' m : nget t m = Some x -> asum (eff k) (nset t x' m) = asum (eff k) m - eff k x + eff k x'.
  Proof. intro H. rewrite asum_nset, H. reflexivity. Qed.

  Lemma cur0_set_th k t x s : cur0 k (set_th t x s) = cur0 k s.
  Proof. reflexivity. Qed.
  Lemma cur0_set_rec_other k r y s : (forall r', nget k (ix s) = Some r' -> r' <> r) -> cur0 k (set_rec r y s) = cur0 k s.
  Proof.
    intro H. unfold cur0. cbn [ix set_rec]. destruct (nget k (ix s)) as [r'|] eqn:E; [|reflexivity].
    rewrite get_set_rec_other; [reflexivity|]. now apply H.
  Qed.
  Lemma cur0_set_rec_same k r y s : nget k (ix s) = Some r -> cur0 k (set_rec r y s) = r_val y.
  Proof. intro H. unfold cur0. cbn [ix set_rec]. rewrite H, get_set_rec_same. reflexivity. Qed.

  (* a step that changes only the stepping thread *)
  Lemma G_local s t x x' :
    GInv s -> nget t (ths s) = Some x -> tok (set_th t x' s) t x' -> (forall k, eff k x' = eff k x) ->
    GInv (set_th t x' s).
  Proof.
    intros G Hx Hself Heff. constructor.
    - apply (others_frame s _ t x' (gV s G)); [reflexivity|cbn; lia|intros; reflexivity|intros u k0 r0 _ H _; exact H|intros r0 H; exact H|intros k0 r0 H; now left|exact Hself].
    - intro k. rewrite cur0_set_th. cbn [ths set_th]. rewrite (asum_eff_nset k t x x' _ Hx), Heff. rewrite (gK s G k). lia.
    - intro r. apply (gN s G).
    - apply (gI s G).
    - apply (gR s G).
    - apply (gF s G).
    - apply (gJ s G).
  Qed.

  (* a step that also rewrites one record, which no other thread owns *)
  Lemma G_rec s t x x' r y :
    GInv s -> nget t (ths s) = Some x -> (r < nextr s)%nat ->
    (forall u, u <> t -> r_w (get_rec r s) <> Some u) ->
    tok (set_th t x' (set_rec r y s)) t x' ->
    (forall k, cur0 k (set_rec r y s) + eff k x = cur0 k s + eff k x') ->
    0 <= r_val y -> r_unl y = r_unl (get_rec r s) ->
    GInv (set_th t x' (set_rec r y s)).
  Proof.
    intros G Hx Hr Hnot Hself Hk Hn Hunl. constructor.
    - apply (others_frame s _ t x' (gV s G)); [reflexivity|cbn; lia| | | | |exact Hself].
      + intros u r0 Hne Hw. rewrite get_rec_set_th. destruct (Nat.eq_dec r0 r) as [->|Hd]; [destruct (Hnot u Hne Hw)|now rewrite get_set_rec_other].
      + intros u k0 r0 _ H _. exact H.
      + intros r0. rewrite get_rec_set_th. destruct (Nat.eq_dec r0 r) as [->|Hd]; [rewrite get_set_rec_same; congruence|now rewrite get_set_rec_other].
      + intros k0 r0 H. now left.
    - intro k. rewrite cur0_set_th. cbn [ths set_th set_rec]. rewrite (asum_eff_nset k t x x' _ Hx).
      pose proof (Hk k) as H1. pose proof (gK s G k) as H2. lia.
    - intro r0. rewrite get_rec_set_th. destruct (Nat.eq_dec r0 r) as [->|Hd]; [now rewrite get_set_rec_same|rewrite get_set_rec_other by exact Hd; apply (gN s G)].
    - apply (gI s G).
    - apply (gR s G).
    - intros r0 Hr0. cbn [recs set_th set_rec nextr] in *. rewrite nget_nset_other by lia. now apply (gF s G).
    - intros k0 r0 H. cbn [ix set_th set_rec] in H. rewrite get_rec_set_th. destruct (Nat.eq_dec r0 r) as [->|Hd].
      + rewrite get_set_rec_same, Hunl. exact (gJ s G k0 r H).
      + rewrite get_set_rec_other by exact Hd. exact (gJ s G k0 r0 H).
  Qed.

  Definition quiet_pc (p : pc) : bool :=
    match p with
    | PStart | PHit _ false | PWait _ false | PLocked _ false | PMiss false | PPub _ false | PLoaded _ _ false | PUnlink _ false => true
    | _ => false
    end.
  Lemma eff_quiet k x : quiet_pc (t_pc x) = true -> eff k x = 0.
  Proof.
    unfold eff. destruct (t_cmd x); try reflexivity;
      destruct (t_pc x) as [|? [|]|? [|]|? [|]|[|]|? [|]|? ? [|]|? [|]|? [|]|]; cbn [quiet_pc]; intro H; try discriminate;
      repeat (destruct (Nat.eqb _ _)); reflexivity.
  Qed.
  Lemma wkey_key c k : wkey c = Some k -> key_of c false = k /\ is_reader c = false.
  Proof. destruct c; cbn; intro H; inversion H; split; reflexivity. Qed.

  Lemma lookup_G s t x k :
    GInv s -> nget t (ths s) = Some x -> wkey (t_cmd x) = Some k -> t_held x = [] -> quiet_pc (t_pc x) = true ->
    GInv (lookup_next t x false s).
  Proof.
    intros G Hx Hk Hh Hq. unfold lookup_next. destruct (wkey_key _ _ Hk) as [Hkey _]. rewrite Hkey.
    destruct (nget k (ix s)) as [r|] eqn:E.
    - apply (G_local s t x _ G Hx).
      + left. exists k. cbn [t_cmd t_pc t_held with_pc set_th]. split; [exact Hk|]. split; [exact Hh|]. split; [exact (gR s G k r E)|]. intros _. exact E.
      + intro k0. rewrite (eff_quiet k0 x Hq). apply eff_quiet. reflexivity.
    - apply (G_local s t x _ G Hx).
      + left. exists k. cbn [t_cmd t_pc t_held with_pc set_th]. split; [exact Hk|exact Hh].
      + intro k0. rewrite (eff_quiet k0 x Hq). apply eff_quiet. reflexivity.
  Qed.

  Lemma lock_free_none y : lock_free true y = true -> r_w y = None.
  Proof. unfold lock_free. destruct (r_w y); [discriminate|reflexivity]. Qed.

  Lemma try_lock_G s t x k r :
    GInv s -> nget t (ths s) = Some x -> wkey (t_cmd x) = Some k -> t_held x = [] -> quiet_pc (t_pc x) = true ->
    (r < nextr s)%nat -> (r_unl (get_rec r s) = false -> nget k (ix s) = Some r) ->
    GInv (try_lock t x r false s).
  Proof.
    intros G Hx Hk Hh Hq Hr Hu. unfold try_lock, holds_rec. rewrite Hh. cbn [existsb].
    destruct (wkey_key _ _ Hk) as [_ Hrd]. rewrite Hrd. cbn [negb].
    destruct (lock_free true (get_rec r s)) eqn:Hf.
    - destruct (r_unl (get_rec r s)) eqn:Hun.
      + now apply (lookup_G s t x k).
      + apply lock_free_none in Hf.
        apply (G_rec s t x _ r _ G Hx Hr).
        * intros u _. congruence.
        * left. exists k. cbn [t_cmd t_pc t_held set_th]. split; [exact Hk|]. unfold own. cbn [t_held].
          rewrite get_rec_set_th, get_set_rec_same. cbn [acquire r_w r_unl ix set_th set_rec nextr].
          split; [reflexivity|]. split; [reflexivity|]. split; [now apply Hu|]. split; [exact Hun|exact Hr].
        * intro k0. rewrite (eff_quiet k0 x Hq), (eff_quiet k0); [|reflexivity].
          unfold cur0. cbn [ix set_rec]. destruct (nget k0 (ix s)) as [r'|]; [|lia].
          destruct (Nat.eq_dec r' r) as [->|Hd]; [rewrite get_set_rec_same; cbn; lia|rewrite get_set_rec_other by exact Hd; lia].
        * cbn. apply (gN s G).
        * reflexivity.
    - apply (G_local s t x _ G Hx).
      + left. exists k. cbn [t_cmd t_pc t_held with_pc set_th]. split; [exact Hk|]. split; [exact Hh|]. split; [exact Hr|exact Hu].
      + intro k0. rewrite (eff_quiet k0 x Hq). apply eff_quiet. reflexivity.
  Qed.

  Lemma cur0_same_val k r y s : r_val y = r_val (get_rec r s) -> cur0 k (set_rec r y s) = cur0 k s.
  Proof.
    intro H. unfold cur0. cbn [ix set_rec]. destruct (nget k (ix s)) as [r'|]; [|reflexivity].
    destruct (Nat.eq_dec r' r) as [->|Hd]; [now rewrite get_set_rec_same|now rewrite get_set_rec_other].
  Qed.
  Lemma commit1 t x rp r s : t_held x = [(r, true)] ->
    commit t x rp s = set_th t {| t_cmd := t_cmd x; t_pc := PDone rp; t_held := [] |} (set_rec r (release t true (get_rec r s)) s).
  Proof. intro H. unfold commit. rewrite H. reflexivity. Qed.
  Lemma commit0 t x rp s : t_held x = [] ->
    commit t x rp s = set_th t {| t_cmd := t_cmd x; t_pc := PDone rp; t_held := [] |} s.
  Proof. intro H. unfold commit. rewrite H. reflexivity. Qed.

  (* the command replies and gives its record back *)
  Lemma commit_G s t x k r rp :
    GInv s -> nget t (ths s) = Some x -> wkey (t_cmd x) = Some k -> own s t x k r ->
    (forall k0, eff k0 {| t_cmd := t_cmd x; t_pc := PDone rp; t_held := [] |} = eff k0 x) ->
    GInv (commit t x rp s).
  Proof.
    intros G Hx Hk [Hh [Hw [Hi [Hu Hr]]]] Heff. rewrite (commit1 t x rp r s Hh).
    apply (G_rec s t x _ r _ G Hx Hr).
    - intros u Hne. rewrite Hw. congruence.
    - left. exists k. split; [exact Hk|reflexivity].
    - intro k0. rewrite Heff, cur0_same_val; [lia|reflexivity].
    - cbn. apply (gN s G).
    - reflexivity.
  Qed.

  (* a store into the record the thread owns *)
  Lemma store_G s t x k r p' v din dout :
    GInv s -> nget t (ths s) = Some x -> wkey (t_cmd x) = Some k -> own s t x k r -> quiet_pc (t_pc x) = true ->
    0 <= v ->
    (is_push (t_cmd x) = true -> 1 <= v) ->
    p' = PStored r false ->
    eff k (with_pc x p') = v - r_val (get_rec r s) ->
    (forall k0, k0 <> k -> eff k0 (with_pc x p') = 0) ->
    GInv (set_th t (with_pc x p') (set_rec r (with_val (get_rec r s) v din dout) s)).
  Proof.
    intros G Hx Hk [Hh [Hw [Hi [Hu Hr]]]] Hq Hv Hpush -> Hek Heo.
    apply (G_rec s t x _ r _ G Hx Hr).
    - intros u Hne. rewrite Hw. congruence.
    - left. exists k. cbn [t_cmd t_pc t_held with_pc set_th]. split; [exact Hk|]. split.
      + unfold own. cbn [t_held]. rewrite get_rec_set_th, get_set_rec_same. cbn [with_val r_w r_unl ix set_th set_rec nextr].
        repeat split; assumption.
      + rewrite get_rec_set_th, get_set_rec_same. cbn [with_val r_val]. exact Hpush.
    - intro k0. rewrite (eff_quiet k0 x Hq). destruct (Nat.eq_dec k0 k) as [->|Hd].
      + rewrite (cur0_set_rec_same k r _ s Hi), Hek. cbn [with_val r_val]. unfold cur0. rewrite Hi. lia.
      + rewrite (Heo k0 Hd), cur0_set_rec_other; [lia|]. intros r' Hr' ->. apply Hd. exact (gI s G k0 k r Hr' Hi).
    - cbn [with_val r_val]. exact Hv.
    - reflexivity.
  Qed.

  Lemma get_rec_fresh s r : GInv s -> (nextr s <= r)%nat -> get_rec r s = rcd_new.
  Proof. intros G H. unfold get_rec. now rewrite (gF s G r H). Qed.

  (* tx.go newKey on a key that is still missing: the new record is locked, then published *)
  Lemma create_gen s t x x' k :
    GInv s -> nget t (ths s) = Some x -> nget k (ix s) = None ->
    tok (set_th t x' {| ix := nset k (nextr s) (ix s); recs := nset (nextr s) (acquire t true rcd_new) (recs s);
                        nextr := S (nextr s); ths := ths s |}) t x' ->
    (forall k0, eff k0 x' = eff k0 x) ->
    GInv (set_th t x'
            {| ix := nset k (nextr s) (ix s); recs := nset (nextr s) (acquire t true rcd_new) (recs s);
               nextr := S (nextr s); ths := ths s |}).
  Proof.
    intros G Hx Hnone Hself Heff. set (rn := nextr s) in *.
    assert (Hfresh : get_rec rn s = rcd_new) by (apply get_rec_fresh; [exact G|unfold rn; lia]).
    assert (Hget : forall r0 i nx tx, r0 <> rn ->
              get_rec r0 (set_th t tx {| ix := i; recs := nset rn (acquire t true rcd_new) (recs s); nextr := nx; ths := ths s |}) = get_rec r0 s).
    { intros r0 i nx tx Hd. unfold get_rec. cbn [recs set_th]. now rewrite nget_nset_other. }
    constructor.
    - eapply (others_frame s _ t _ (gV s G)); [reflexivity|cbn; lia| | | | |].
      + intros u r0 Hne Hw. apply Hget. intros ->. rewrite Hfresh in Hw. discriminate.
      + intros u k0 r0 _ H _. cbn [ix set_th]. rewrite nget_nset_other; [exact H|]. intros ->. congruence.
      + intros r0. destruct (Nat.eq_dec r0 rn) as [->|Hd]; [intros _; now rewrite Hfresh|]. rewrite (Hget r0 _ _ _ Hd). auto.
      + intros k0 r0 H. left. cbn [ix set_th]. rewrite nget_nset_other; [exact H|]. intros ->. congruence.
      + exact Hself.
    - intro k0. cbn [ths set_th]. rewrite (asum_eff_nset k0 t x _ _ Hx), Heff.
      pose proof (gK s G k0) as HK.
      match goal with |- cur0 k0 ?S' = _ => assert (Hc0 : cur0 k0 S' = cur0 k0 s) end.
      { unfold cur0. cbn [ix set_th]. destruct (Nat.eq_dec k0 k) as [->|Hd].
        + rewrite nget_nset_same, Hnone. unfold get_rec. cbn [recs set_th]. rewrite nget_nset_same. reflexivity.
        + rewrite nget_nset_other by exact Hd. destruct (nget k0 (ix s)) as [r'|] eqn:E; [|reflexivity].
          rewrite Hget; [reflexivity|]. pose proof (gR s G k0 r' E). unfold rn. lia. }
      rewrite Hc0. lia.
    - intro r0. destruct (Nat.eq_dec r0 rn) as [->|Hd].
      + unfold get_rec. cbn [recs set_th]. rewrite nget_nset_same. cbn. lia.
      + rewrite (Hget r0 _ _ _ Hd). apply (gN s G).
    - intros k1 k2 r1. cbn [ix set_th]. destruct (Nat.eq_dec k1 k) as [->|H1]; destruct (Nat.eq_dec k2 k) as [->|H2]; try reflexivity.
      + rewrite nget_nset_same, nget_nset_other by exact H2. intros E1 E2. inversion E1; subst r1. pose proof (gR s G k2 _ E2). unfold rn in *. lia.
      + rewrite nget_nset_same, nget_nset_other by exact H1. intros E1 E2. inversion E2; subst r1. pose proof (gR s G k1 _ E1). unfold rn in *. lia.
      + rewrite !nget_nset_other by assumption. apply (gI s G).
    - intros k0 r0. cbn [ix set_th nextr]. destruct (Nat.eq_dec k0 k) as [->|Hd].
      + rewrite nget_nset_same. intro E. inversion E. unfold rn. lia.
      + rewrite nget_nset_other by exact Hd. intro E. pose proof (gR s G k0 r0 E). lia.
    - intros r0 Hr0. cbn [recs set_th nextr] in *. rewrite nget_nset_other by (unfold rn; lia). apply (gF s G). lia.
    - intros k0 r0. cbn [ix set_th]. destruct (Nat.eq_dec k0 k) as [->|Hd].
      + rewrite nget_nset_same. intro E. inversion E. unfold get_rec. cbn [recs set_th]. rewrite nget_nset_same. reflexivity.
      + rewrite nget_nset_other by exact Hd. intro E. rewrite Hget; [exact (gJ s G k0 r0 E)|]. pose proof (gR s G k0 r0 E). unfold rn. lia.
  Qed.

  Lemma create_G s t x k :
    GInv s -> nget t (ths s) = Some x -> wkey (t_cmd x) = Some k -> t_held x = [] -> quiet_pc (t_pc x) = true ->
    nget k (ix s) = None ->
    GInv (set_th t {| t_cmd := t_cmd x; t_pc := PPub (nextr s) false; t_held := (nextr s, true) :: t_held x |}
            {| ix := nset k (nextr s) (ix s); recs := nset (nextr s) (acquire t true rcd_new) (recs s);
               nextr := S (nextr s); ths := ths s |}).
  Proof.
    intros G Hx Hk Hh Hq Hnone. apply (create_gen s t x _ k G Hx Hnone).
    - left. exists k. cbn [t_cmd t_pc t_held set_th]. split; [exact Hk|]. unfold own. cbn [t_held ix set_th nextr].
      rewrite Hh. split; [reflexivity|]. unfold get_rec. cbn [recs set_th]. rewrite nget_nset_same. cbn [acquire r_w r_unl rcd_new].
      split; [reflexivity|]. split; [apply nget_nset_same|]. split; [reflexivity|lia].
    - intro k0. rewrite (eff_quiet k0 x Hq). apply eff_quiet. reflexivity.
  Qed.

  (* tx.go delKey by the thread that owns the key's record (the list has become empty): the record is flagged and leaves
     the index; y' is what the record holds afterwards (released or not), x' the thread *)
  Lemma unlink_gen s t x x' k r y' :
    GInv s -> nget t (ths s) = Some x -> r_w (get_rec r s) = Some t -> nget k (ix s) = Some r -> (r < nextr s)%nat ->
    r_val (get_rec r s) = 0 -> r_val y' = 0 -> r_unl y' = true ->
    tok (set_th t x' (set_rec r y' (set_ix (ndel k (ix s)) s))) t x' ->
    (forall k0, eff k0 x' = eff k0 x) ->
    GInv (set_th t x' (set_rec r y' (set_ix (ndel k (ix s)) s))).
  Proof.
    intros G Hx Hw Hi Hr Hval Hv' Hu' Hself Heff.
    set (S' := set_th t _ _) in *.
    assert (Hsame : get_rec r S' = y').
    { unfold S'. rewrite get_rec_set_th. unfold get_rec. cbn [recs set_rec set_ix]. now rewrite nget_nset_same. }
    assert (Hoth : forall r0, r0 <> r -> get_rec r0 S' = get_rec r0 s).
    { intros r0 Hd. unfold S'. rewrite get_rec_set_th. unfold get_rec. cbn [recs set_rec set_ix]. now rewrite nget_nset_other. }
    assert (Hix : ix S' = ndel k (ix s)) by reflexivity.
    constructor.
    - eapply (others_frame s S' t _ (gV s G)); [reflexivity|cbn; lia| | | | |].
      + intros u r0 Hne Hw0. apply Hoth. intros ->. rewrite Hw in Hw0. congruence.
      + intros u k0 r0 Hne H Hw0. rewrite Hix. rewrite nget_ndel_other; [exact H|]. intros ->. rewrite Hi in H. inversion H; subst r0. rewrite Hw in Hw0. congruence.
      + intros r0. destruct (Nat.eq_dec r0 r) as [->|Hd]; [rewrite Hsame, Hu'; discriminate|now rewrite Hoth].
      + intros k0 r0 H. rewrite Hix. destruct (Nat.eq_dec k0 k) as [->|Hd].
        * right. rewrite Hi in H. inversion H; subst r0. rewrite Hsame. exact Hu'.
        * left. now rewrite nget_ndel_other.
      + exact Hself.
    - intro k0. unfold S' at 2. cbn [ths set_th set_rec set_ix]. rewrite (asum_eff_nset k0 t x _ _ Hx), Heff.
      pose proof (gK s G k0) as HK.
      assert (Hc0 : cur0 k0 S' = cur0 k0 s).
      { unfold cur0. rewrite Hix. destruct (Nat.eq_dec k0 k) as [->|Hd].
        - rewrite nget_ndel_same, Hi. now rewrite Hval.
        - rewrite nget_ndel_other by exact Hd. destruct (nget k0 (ix s)) as [r'|] eqn:E; [|reflexivity].
          rewrite Hoth; [reflexivity|]. intros ->. apply Hd. exact (gI s G k0 k r E Hi). }
      rewrite Hc0. lia.
    - intro r0. destruct (Nat.eq_dec r0 r) as [->|Hd]; [rewrite Hsame, Hv'; lia|rewrite Hoth by exact Hd; apply (gN s G)].
    - intros k1 k2 r1. rewrite Hix. intros E1 E2.
      destruct (Nat.eq_dec k1 k) as [->|H1]; [now rewrite nget_ndel_same in E1|].
      destruct (Nat.eq_dec k2 k) as [->|H2]; [now rewrite nget_ndel_same in E2|].
      rewrite nget_ndel_other in E1, E2 by assumption. exact (gI s G k1 k2 r1 E1 E2).
    - intros k0 r0. rewrite Hix. intro E. destruct (Nat.eq_dec k0 k) as [->|Hd]; [now rewrite nget_ndel_same in E|].
      rewrite nget_ndel_other in E by exact Hd. exact (gR s G k0 r0 E).
    - intros r0 Hr0. assert (Hr1 : (nextr s <= r0)%nat) by exact Hr0. unfold S'. cbn [recs set_th set_rec set_ix]. rewrite nget_nset_other by lia. now apply (gF s G).
    - intros k0 r0. rewrite Hix. intro E. destruct (Nat.eq_dec k0 k) as [->|Hd]; [now rewrite nget_ndel_same in E|].
      rewrite nget_ndel_other in E by exact Hd. rewrite Hoth; [exact (gJ s G k0 r0 E)|]. intros ->. apply Hd. exact (gI s G k0 k r E Hi).
  Qed.

  Lemma nset_nset {A} k (v1 v2 : A) m : nset k v2 (nset k v1 m) = nset k v2 m.
  Proof.
    induction m as [|[k' v'] r IH]; cbn [nset]; [now rewrite Nat.eqb_refl|].
    destruct (Nat.eqb k k') eqn:E; cbn [nset]; [now rewrite Nat.eqb_refl|rewrite E; now rewrite IH].
  Qed.
  Lemma set_rec_twice r y1 y2 i s : set_rec r y2 (set_ix i (set_rec r y1 s)) = set_rec r y2 (set_ix i s).
  Proof. unfold set_rec, set_ix. cbn [ix recs nextr ths]. now rewrite nset_nset. Qed.
  Lemma unlink_G s t x k r rp :
    GInv s -> nget t (ths s) = Some x -> wkey (t_cmd x) = Some k -> own s t x k r -> r_val (get_rec r s) = 0 ->
    (forall k0, eff k0 {| t_cmd := t_cmd x; t_pc := PDone rp; t_held := [] |} = eff k0 x) ->
    let y := get_rec r s in
    let yflag := {| r_val := r_val y; r_w := r_w y; r_rd := r_rd y; r_in := r_in y; r_out := r_out y; r_unl := true |} in
    GInv (set_th t {| t_cmd := t_cmd x; t_pc := PDone rp; t_held := [] |}
            (set_rec r (release t true yflag) (set_ix (ndel k (ix s)) (set_rec r yflag s)))).
  Proof.
    intros G Hx Hk [Hh [Hw [Hi [Hu Hr]]]] Hval Heff y yflag. rewrite set_rec_twice.
    apply (unlink_gen s t x _ k r _ G Hx Hw Hi Hr Hval); [exact Hval|reflexivity| |exact Heff].
    left. exists k. split; [exact Hk|reflexivity].
  Qed.

  Lemma own_set_th s t x p k r : own s t x k r -> own (set_th t (with_pc x p) s) t (with_pc x p) k r.
  Proof. intro H. exact H. Qed.

  Ltac effq Hpc := let k0 := fresh "k0" in intro k0; rewrite (eff_quiet k0 _ ltac:(rewrite Hpc; reflexivity)); apply eff_quiet; reflexivity.

  Lemma mstep_GW t s s' x : GInv s -> nget t (ths s) = Some x -> tokW s t x -> mstep t s = Some s' -> GInv s'.
  Proof.
    intros G Hx [k [Hk Hp]] Hs. unfold mstep in Hs. rewrite Hx in Hs.
    destruct (wkey_key _ _ Hk) as [Hkey Hrd].
    destruct (t_pc x) as [|r [|]|r [|]|r [|]|[|]|r [|]|r tmp [|]|r [|]|r popped|rp] eqn:Hpc; try contradiction; try discriminate.
    - (* PStart *)
      inversion Hs; subst s'. apply (lookup_G s t x k G Hx Hk Hp). now rewrite Hpc.
    - (* PHit *)
      destruct Hp as [Hh [Hr Hu]]. inversion Hs; subst s'. apply (try_lock_G s t x k r G Hx Hk Hh); [now rewrite Hpc|exact Hr|exact Hu].
    - (* PWait *)
      destruct Hp as [Hh [Hr Hu]]. inversion Hs; subst s'. apply (try_lock_G s t x k r G Hx Hk Hh); [now rewrite Hpc|exact Hr|exact Hu].
    - (* PLocked: load *)
      assert (Hs2 : s' = set_th t (with_pc x (PLoaded r (r_val (get_rec r s)) false)) s)
        by (destruct (t_cmd x); try discriminate; now inversion Hs).
      subst s'. apply (G_local s t x _ G Hx).
      + left. exists k. split; [exact Hk|]. cbn [t_pc with_pc]. split; [now apply own_set_th|reflexivity].
      + effq Hpc.
    - (* PMiss *)
      destruct (t_cmd x) as [k1|k1|k1|k1|a b|k1] eqn:Hc; try discriminate; cbn [creates key_of] in Hs; cbn [key_of] in Hkey; subst k1.
      + (* RPUSH creates *)
        destruct (nget k (ix s)) as [r0|] eqn:E; inversion Hs; subst s'.
        * rewrite <- Hc in Hk. apply (lookup_G s t x k G Hx); [now rewrite Hc|exact Hp|now rewrite Hpc].
        * rewrite <- Hc. apply (create_G s t x k G Hx); [now rewrite Hc|exact Hp|now rewrite Hpc|exact E].
      + (* LPOP on a missing key *)
        inversion Hs; subst s'. rewrite (commit0 t x 0 s Hp). apply (G_local s t x _ G Hx).
        * left. exists k. split; [cbn [t_cmd]; now rewrite Hc|reflexivity].
        * intro k0. rewrite (eff_quiet k0 x) by (now rewrite Hpc). unfold eff. cbn [t_cmd t_pc]. rewrite Hc. destruct (Nat.eqb k k0); reflexivity.
      + (* RPUSHX on a missing key *)
        inversion Hs; subst s'. rewrite (commit0 t x 0 s Hp). apply (G_local s t x _ G Hx).
        * left. exists k. split; [cbn [t_cmd]; now rewrite Hc|reflexivity].
        * intro k0. rewrite (eff_quiet k0 x) by (now rewrite Hpc). unfold eff. cbn [t_cmd t_pc]. rewrite Hc. destruct (Nat.eqb k k0); reflexivity.
    - (* PPub: load *)
      inversion Hs; subst s'. apply (G_local s t x _ G Hx).
      + left. exists k. split; [exact Hk|]. cbn [t_pc with_pc]. split; [now apply own_set_th|reflexivity].
      + effq Hpc.
    - (* PLoaded: store *)
      destruct Hp as [Ho Ht]. pose proof (gN s G r) as Hnn.
      destruct (t_cmd x) as [k1|k1|k1|k1|a b|k1] eqn:Hc; try discriminate; cbn [key_of] in Hkey; subst k1.
      + inversion Hs; subst s'. rewrite <- Hc in Hk.
        apply (store_G s t x k r _ (tmp + 1) 1 0 G Hx Hk Ho); [now rewrite Hpc|lia|intros _; lia|reflexivity| |].
        * unfold eff. cbn [t_cmd t_pc with_pc]. rewrite Hc, Nat.eqb_refl. lia.
        * intros k0 Hd. unfold eff. cbn [t_cmd t_pc with_pc]. rewrite Hc. destruct (Nat.eqb_spec k k0); [congruence|reflexivity].
      + destruct (tmp <=? 0) eqn:Et; inversion Hs; subst s'.
        * apply (G_local s t x _ G Hx).
          -- left. exists k. split; [cbn [t_cmd with_pc]; now rewrite Hc|]. cbn [t_pc with_pc]. split; [now apply own_set_th|].
             cbn [t_cmd with_pc]. rewrite Hc. split; [rewrite get_rec_set_th; lia|reflexivity].
          -- effq Hpc.
        * rewrite <- Hc in Hk.
          apply (store_G s t x k r _ (tmp - 1) 0 1 G Hx Hk Ho); [now rewrite Hpc|lia|rewrite Hc; discriminate|reflexivity| |].
          -- unfold eff. cbn [t_cmd t_pc with_pc]. rewrite Hc, Nat.eqb_refl. lia.
          -- intros k0 Hd. unfold eff. cbn [t_cmd t_pc with_pc]. rewrite Hc. destruct (Nat.eqb_spec k k0); [congruence|reflexivity].
      + inversion Hs; subst s'. rewrite <- Hc in Hk.
        apply (store_G s t x k r _ (tmp + 1) 1 0 G Hx Hk Ho); [now rewrite Hpc|lia|intros _; lia|reflexivity| |].
        * unfold eff. cbn [t_cmd t_pc with_pc]. rewrite Hc, Nat.eqb_refl. lia.
        * intros k0 Hd. unfold eff. cbn [t_cmd t_pc with_pc]. rewrite Hc. destruct (Nat.eqb_spec k k0); [congruence|reflexivity].
    - (* PStored: commit, or unlink when the pop emptied the list *)
      destruct Hp as [Ho Hpush].
      destruct (t_cmd x) as [k1|k1|k1|k1|a b|k1] eqn:Hc; try discriminate; cbn [key_of] in Hkey; subst k1.
      + inversion Hs; subst s'. rewrite <- Hc in Hk. apply (commit_G s t x k r _ G Hx Hk Ho).
        intro k0. unfold eff. cbn [t_cmd t_pc]. rewrite Hc, Hpc. destruct (Nat.eqb k k0); [|reflexivity].
        assert (1 <= r_val (get_rec r s)) by (apply Hpush; reflexivity). destruct (0 <? r_val (get_rec r s)) eqn:E; [reflexivity|lia].
      + destruct (r_val (get_rec r s) =? 0) eqn:Ez; inversion Hs; subst s'.
        * apply (G_local s t x _ G Hx).
          -- left. exists k. split; [cbn [t_cmd with_pc]; now rewrite Hc|]. cbn [t_pc with_pc]. split; [now apply own_set_th|].
             cbn [t_cmd with_pc]. rewrite Hc. split; [rewrite get_rec_set_th; lia|reflexivity].
          -- intro k0. unfold eff. cbn [t_cmd t_pc with_pc]. rewrite Hc, Hpc. reflexivity.
        * rewrite <- Hc in Hk. apply (commit_G s t x k r _ G Hx Hk Ho).
          intro k0. unfold eff. cbn [t_cmd t_pc]. rewrite Hc, Hpc. reflexivity.
      + inversion Hs; subst s'. rewrite <- Hc in Hk. apply (commit_G s t x k r _ G Hx Hk Ho).
        intro k0. unfold eff. cbn [t_cmd t_pc]. rewrite Hc, Hpc. destruct (Nat.eqb k k0); [|reflexivity].
        assert (1 <= r_val (get_rec r s)) by (apply Hpush; reflexivity). destruct (0 <? r_val (get_rec r s)) eqn:E; [reflexivity|lia].
    - (* PUnlink *)
      destruct Hp as [Ho [Hz Hnp]]. pose proof Ho as [Hh [Hw [Hi [Hu Hr]]]].
      destruct (t_cmd x) as [k1|k1|k1|k1|a b|k1] eqn:Hc; try discriminate; cbn [key_of] in Hkey; subst k1.
      cbn [key_of] in Hs. rewrite Hi in Hs. inversion Hs; subst s'. clear Hs.
      rewrite (commit1 t x _ r _ Hh). rewrite <- Hc in Hk.
      assert (E : forall i y, get_rec r (set_ix i (set_rec r y s)) = y)
        by (intros; unfold get_rec; cbn [recs set_ix set_rec]; now rewrite nget_nset_same).
      rewrite E.
      apply (unlink_G s t x k r _ G Hx Hk Ho Hz).
      intro k0. unfold eff. cbn [t_cmd t_pc]. rewrite Hc, Hpc. destruct popped; reflexivity.
  Qed.

  (* ---- LPOPRPUSH a b ---------------------------------------------------------------------------- *)
  Lemma effM_quiet k x a b : t_cmd x = Move a b -> quiet_pc (t_pc x) = true -> eff k x = 0.
  Proof. intros _ H. now apply eff_quiet. Qed.

  (* two records rewritten, both owned by the stepping thread *)
  Lemma G_rec2 s t x x' r1 y1 r2 y2 :
    GInv s -> nget t (ths s) = Some x -> (r1 < nextr s)%nat -> (r2 < nextr s)%nat -> r1 <> r2 ->
    r_w (get_rec r1 s) = Some t -> r_w (get_rec r2 s) = Some t ->
    tok (set_th t x' (set_rec r1 y1 (set_rec r2 y2 s))) t x' ->
    (forall k, eff k x' = eff k x) ->
    r_val y1 = r_val (get_rec r1 s) -> r_val y2 = r_val (get_rec r2 s) ->
    r_unl y1 = r_unl (get_rec r1 s) -> r_unl y2 = r_unl (get_rec r2 s) ->
    GInv (set_th t x' (set_rec r1 y1 (set_rec r2 y2 s))).
  Proof.
    intros G Hx Hr1 Hr2 Hne Hw1 Hw2 Hself Heff Hv1 Hv2 Hu1 Hu2.
    assert (Hg : forall r0, r0 <> r1 -> r0 <> r2 -> get_rec r0 (set_th t x' (set_rec r1 y1 (set_rec r2 y2 s))) = get_rec r0 s).
    { intros r0 A B. rewrite get_rec_set_th, get_set_rec_other by exact A. now rewrite get_set_rec_other. }
    assert (Hg1 : get_rec r1 (set_th t x' (set_rec r1 y1 (set_rec r2 y2 s))) = y1) by (rewrite get_rec_set_th; apply get_set_rec_same).
    assert (Hg2 : get_rec r2 (set_th t x' (set_rec r1 y1 (set_rec r2 y2 s))) = y2).
    { rewrite get_rec_set_th, get_set_rec_other by congruence. apply get_set_rec_same. }
    constructor.
    - apply (others_frame s _ t x' (gV s G)); [reflexivity|cbn; lia| | | | |exact Hself].
      + intros u r0 Hu Hw. apply Hg; intros ->; congruence.
      + intros u k0 r0 _ H _. exact H.
      + intros r0. destruct (Nat.eq_dec r0 r1) as [->|A]; [rewrite Hg1; congruence|].
        destruct (Nat.eq_dec r0 r2) as [->|B]; [rewrite Hg2; congruence|]. now rewrite Hg.
      + intros k0 r0 H. now left.
    - intro k. rewrite cur0_set_th. cbn [ths set_th set_rec]. rewrite (asum_eff_nset k t x x' _ Hx), Heff.
      rewrite cur0_same_val by (rewrite get_set_rec_other by exact Hne; exact Hv1). rewrite cur0_same_val by exact Hv2. pose proof (gK s G k). lia.
    - intro r0. destruct (Nat.eq_dec r0 r1) as [->|A]; [rewrite Hg1, Hv1; apply (gN s G)|].
      destruct (Nat.eq_dec r0 r2) as [->|B]; [rewrite Hg2, Hv2; apply (gN s G)|]. rewrite Hg by assumption. apply (gN s G).
    - apply (gI s G).
    - apply (gR s G).
    - intros r0 Hr0. cbn [recs set_th set_rec nextr] in *. rewrite !nget_nset_other by lia. now apply (gF s G).
    - intros k0 r0 H. cbn [ix set_th set_rec] in H.
      destruct (Nat.eq_dec r0 r1) as [->|A]; [rewrite Hg1, Hu1; exact (gJ s G k0 r1 H)|].
      destruct (Nat.eq_dec r0 r2) as [->|B]; [rewrite Hg2, Hu2; exact (gJ s G k0 r2 H)|]. rewrite Hg by assumption. exact (gJ s G k0 r0 H).
  Qed.

  Lemma commit2 t x rp r2 r1 s : t_held x = [(r2, true); (r1, true)] -> r1 <> r2 ->
    commit t x rp s = set_th t {| t_cmd := t_cmd x; t_pc := PDone rp; t_held := [] |}
                        (set_rec r1 (release t true (get_rec r1 s)) (set_rec r2 (release t true (get_rec r2 s)) s)).
  Proof.
    intros H Hne. unfold commit. rewrite H. cbn [fold_left fst snd]. now rewrite get_set_rec_other by exact Hne.
  Qed.

  Definition mid_pc (p : pc) : bool :=
    match p with
    | PStored _ false | PUnlink _ true | PHit _ true | PWait _ true | PMiss true | PLocked _ true | PPub _ true | PLoaded _ _ true => true
    | _ => false
    end.
  Lemma eff_mid k x a b : t_cmd x = Move a b -> a <> b -> mid_pc (t_pc x) = true -> eff k x = if Nat.eqb a k then -1 else 0.
  Proof.
    intros Hc Hab H. unfold eff. rewrite Hc.
    destruct (t_pc x) as [|? [|]|? [|]|? [|]|[|]|? [|]|? ? [|]|? [|]|? [|]|]; cbn [mid_pc] in H; try discriminate;
      destruct (Nat.eqb a k); destruct (Nat.eqb b k); reflexivity.
  Qed.
  Lemma own_held1 s t x a r : own s t x a r -> held1 s t a r.
  Proof. intros [_ [Hw [Hi [Hu Hr]]]]. split; [exact Hw|]. split; [exact Hr|]. left. now split. Qed.
  Lemma held1_set_th s t a r1 u y : held1 (set_th u y s) t a r1 <-> held1 s t a r1.
  Proof. reflexivity. Qed.

  (* the lookup of the destination, by a thread that holds the source record *)
  Lemma lookupM2 s t x a b r1 :
    GInv s -> nget t (ths s) = Some x -> t_cmd x = Move a b -> a <> b -> t_held x = [(r1, true)] -> held1 s t a r1 ->
    mid_pc (t_pc x) = true -> GInv (lookup_next t x true s).
  Proof.
    intros G Hx Hc Hab Hh H1 Hm. unfold lookup_next. rewrite Hc. cbn [key_of].
    destruct (nget b (ix s)) as [r2|] eqn:E.
    - apply (G_local s t x _ G Hx).
      + right. exists a, b. cbn [t_cmd t_pc t_held with_pc]. split; [exact Hc|]. split; [exact Hab|].
        exists r1. split; [exact Hh|]. split; [exact H1|]. split; [exact (gR s G b r2 E)|]. split; [|intros _; exact E].
        intros ->. destruct H1 as [_ [_ [[Hi _]|Hu]]].
        * apply Hab. exact (gI s G a b r1 Hi E).
        * rewrite (gJ s G b r1 E) in Hu. discriminate.
      + intro k0. rewrite (eff_mid k0 x a b Hc Hab Hm). apply (eff_mid k0 _ a b); [exact Hc|exact Hab|reflexivity].
    - apply (G_local s t x _ G Hx).
      + right. exists a, b. cbn [t_cmd t_pc t_held with_pc]. split; [exact Hc|]. split; [exact Hab|]. exists r1. now split.
      + intro k0. rewrite (eff_mid k0 x a b Hc Hab Hm). apply (eff_mid k0 _ a b); [exact Hc|exact Hab|reflexivity].
  Qed.

  Lemma try_lockM2 s t x a b r1 r2 :
    GInv s -> nget t (ths s) = Some x -> t_cmd x = Move a b -> a <> b -> t_held x = [(r1, true)] -> held1 s t a r1 ->
    mid_pc (t_pc x) = true -> (r2 < nextr s)%nat -> r2 <> r1 -> (r_unl (get_rec r2 s) = false -> nget b (ix s) = Some r2) ->
    GInv (try_lock t x r2 true s).
  Proof.
    intros G Hx Hc Hab Hh H1 Hm Hr Hne Hu. unfold try_lock, holds_rec. rewrite Hh. cbn [existsb fst snd].
    assert (En : Nat.eqb r1 r2 = false) by (apply Nat.eqb_neq; congruence). rewrite En. cbn [andb orb].
    rewrite Hc. cbn [is_reader negb].
    destruct (lock_free true (get_rec r2 s)) eqn:Hf.
    - destruct (r_unl (get_rec r2 s)) eqn:Hun.
      + now apply (lookupM2 s t x a b r1).
      + apply lock_free_none in Hf.
        apply (G_rec s t x _ r2 _ G Hx Hr).
        * intros u _. congruence.
        * right. exists a, b. cbn [t_cmd t_pc t_held]. split; [reflexivity|]. split; [exact Hab|].
          exists r1. split; [reflexivity|]. split.
          { destruct H1 as [Hw1 [Hr1 Hl]]. unfold held1. rewrite get_rec_set_th, get_set_rec_other by congruence.
            split; [exact Hw1|]. split; [exact Hr1|exact Hl]. }
          split; [exact Hne|]. unfold own2. rewrite get_rec_set_th, get_set_rec_same. cbn [acquire r_w r_unl ix set_th set_rec nextr].
          split; [reflexivity|]. split; [now apply Hu|]. split; [exact Hun|exact Hr].
        * intro k0. rewrite (eff_mid k0 x a b Hc Hab Hm), (eff_mid k0 _ a b); [|reflexivity|exact Hab|reflexivity].
          rewrite cur0_same_val; [lia|reflexivity].
        * cbn. apply (gN s G).
        * reflexivity.
    - apply (G_local s t x _ G Hx).
      + right. exists a, b. cbn [t_cmd t_pc t_held with_pc]. split; [exact Hc|]. split; [exact Hab|].
        exists r1. split; [exact Hh|]. split; [exact H1|]. split; [exact Hr|]. split; [exact Hne|exact Hu].
      + intro k0. rewrite (eff_mid k0 x a b Hc Hab Hm). apply (eff_mid k0 _ a b); [exact Hc|exact Hab|reflexivity].
  Qed.

  Lemma get_rec_create_other r0 t tx i y nx rn s : r0 <> rn ->
    get_rec r0 (set_th t tx {| ix := i; recs := nset rn y (recs s); nextr := nx; ths := ths s |}) = get_rec r0 s.
  Proof. intro H. unfold get_rec. cbn [recs set_th]. now rewrite nget_nset_other. Qed.
  Lemma own_set_thM s t x p a r : own s t x a r -> own (set_th t (with_pc x p) s) t (with_pc x p) a r.
  Proof. intro H. exact H. Qed.

  Lemma mstep_GM t s s' x : GInv s -> nget t (ths s) = Some x -> tokM s t x -> mstep t s = Some s' -> GInv s'.
  Proof.
    intros G Hx [a [b [Hc [Hab Hp]]]] Hs. unfold mstep in Hs. rewrite Hx, Hc in Hs.
    assert (Eab : Nat.eqb a b = false) by (now apply Nat.eqb_neq).
    destruct (t_pc x) as [|r [|]|r [|]|r [|]|[|]|r [|]|r tmp [|]|r [|]|r popped|rp] eqn:Hpc; try contradiction; try discriminate.
    - (* PStart *)
      inversion Hs; subst s'. unfold lookup_next. rewrite Hc. cbn [key_of]. destruct (nget a (ix s)) as [r|] eqn:E.
      + apply (G_local s t x _ G Hx).
        * right. exists a, b. cbn [t_cmd t_pc t_held with_pc]. split; [exact Hc|]. split; [exact Hab|]. split; [exact Hp|]. split; [exact (gR s G a r E)|intros _; exact E].
        * intro k0. rewrite (eff_quiet k0 x) by (now rewrite Hpc). apply eff_quiet. reflexivity.
      + apply (G_local s t x _ G Hx).
        * right. exists a, b. cbn [t_cmd t_pc t_held with_pc]. split; [exact Hc|]. split; [exact Hab|exact Hp].
        * intro k0. rewrite (eff_quiet k0 x) by (now rewrite Hpc). apply eff_quiet. reflexivity.
    - (* PHit r true *)
      destruct Hp as [r1 [Hh [H1 [Hr [Hne Hu]]]]]. inversion Hs; subst s'.
      apply (try_lockM2 s t x a b r1 r G Hx Hc Hab Hh H1); [now rewrite Hpc|exact Hr|exact Hne|exact Hu].
    - (* PHit r false *)
      destruct Hp as [Hh [Hr Hu]]. inversion Hs; subst s'. unfold try_lock, holds_rec. rewrite Hh. cbn [existsb]. rewrite Hc. cbn [is_reader negb].
      destruct (lock_free true (get_rec r s)) eqn:Hf.
      + destruct (r_unl (get_rec r s)) eqn:Hun.
        * unfold lookup_next. rewrite Hc. cbn [key_of]. destruct (nget a (ix s)) as [r'|] eqn:E.
          -- apply (G_local s t x _ G Hx).
             ++ right. exists a, b. cbn [t_cmd t_pc t_held with_pc]. split; [exact Hc|]. split; [exact Hab|]. split; [exact Hh|]. split; [exact (gR s G a r' E)|intros _; exact E].
             ++ intro k0. rewrite (eff_quiet k0 x) by (now rewrite Hpc). apply eff_quiet. reflexivity.
          -- apply (G_local s t x _ G Hx).
             ++ right. exists a, b. cbn [t_cmd t_pc t_held with_pc]. split; [exact Hc|]. split; [exact Hab|exact Hh].
             ++ intro k0. rewrite (eff_quiet k0 x) by (now rewrite Hpc). apply eff_quiet. reflexivity.
        * apply lock_free_none in Hf. apply (G_rec s t x _ r _ G Hx Hr).
          -- intros u _. congruence.
          -- right. exists a, b. cbn [t_cmd t_pc t_held]. split; [reflexivity|]. split; [exact Hab|]. unfold own. cbn [t_held].
             rewrite get_rec_set_th, get_set_rec_same. cbn [acquire r_w r_unl ix set_th set_rec nextr].
             split; [reflexivity|]. split; [reflexivity|]. split; [now apply Hu|]. split; [exact Hun|exact Hr].
          -- intro k0. rewrite (eff_quiet k0 x) by (now rewrite Hpc). rewrite (eff_quiet k0) by reflexivity. rewrite cur0_same_val; [lia|reflexivity].
          -- cbn. apply (gN s G).
          -- reflexivity.
      + apply (G_local s t x _ G Hx).
        * right. exists a, b. cbn [t_cmd t_pc t_held with_pc]. split; [exact Hc|]. split; [exact Hab|]. split; [exact Hh|]. split; [exact Hr|exact Hu].
        * intro k0. rewrite (eff_quiet k0 x) by (now rewrite Hpc). apply eff_quiet. reflexivity.
    - (* PWait r true *)
      destruct Hp as [r1 [Hh [H1 [Hr [Hne Hu]]]]]. inversion Hs; subst s'.
      apply (try_lockM2 s t x a b r1 r G Hx Hc Hab Hh H1); [now rewrite Hpc|exact Hr|exact Hne|exact Hu].
    - (* PWait r false *)
      destruct Hp as [Hh [Hr Hu]]. inversion Hs; subst s'. unfold try_lock, holds_rec. rewrite Hh. cbn [existsb]. rewrite Hc. cbn [is_reader negb].
      destruct (lock_free true (get_rec r s)) eqn:Hf.
      + destruct (r_unl (get_rec r s)) eqn:Hun.
        * unfold lookup_next. rewrite Hc. cbn [key_of]. destruct (nget a (ix s)) as [r'|] eqn:E.
          -- apply (G_local s t x _ G Hx).
             ++ right. exists a, b. cbn [t_cmd t_pc t_held with_pc]. split; [exact Hc|]. split; [exact Hab|]. split; [exact Hh|]. split; [exact (gR s G a r' E)|intros _; exact E].
             ++ intro k0. rewrite (eff_quiet k0 x) by (now rewrite Hpc). apply eff_quiet. reflexivity.
          -- apply (G_local s t x _ G Hx).
             ++ right. exists a, b. cbn [t_cmd t_pc t_held with_pc]. split; [exact Hc|]. split; [exact Hab|exact Hh].
             ++ intro k0. rewrite (eff_quiet k0 x) by (now rewrite Hpc). apply eff_quiet. reflexivity.
        * apply lock_free_none in Hf. apply (G_rec s t x _ r _ G Hx Hr).
          -- intros u _. congruence.
          -- right. exists a, b. cbn [t_cmd t_pc t_held]. split; [reflexivity|]. split; [exact Hab|]. unfold own. cbn [t_held].
             rewrite get_rec_set_th, get_set_rec_same. cbn [acquire r_w r_unl ix set_th set_rec nextr].
             split; [reflexivity|]. split; [reflexivity|]. split; [now apply Hu|]. split; [exact Hun|exact Hr].
          -- intro k0. rewrite (eff_quiet k0 x) by (now rewrite Hpc). rewrite (eff_quiet k0) by reflexivity. rewrite cur0_same_val; [lia|reflexivity].
          -- cbn. apply (gN s G).
          -- reflexivity.
      + apply (G_local s t x _ G Hx).
        * right. exists a, b. cbn [t_cmd t_pc t_held with_pc]. split; [exact Hc|]. split; [exact Hab|]. split; [exact Hh|]. split; [exact Hr|exact Hu].
        * intro k0. rewrite (eff_quiet k0 x) by (now rewrite Hpc). apply eff_quiet. reflexivity.
    - (* PLocked r true: load *)
      destruct Hp as [r1 [Hh [H1 [Hne H2]]]]. inversion Hs; subst s'. apply (G_local s t x _ G Hx).
      + right. exists a, b. cbn [t_cmd t_pc t_held with_pc]. split; [exact Hc|]. split; [exact Hab|]. exists r1.
        split; [exact Hh|]. split; [exact H1|]. split; [exact Hne|]. split; [exact H2|reflexivity].
      + intro k0. rewrite (eff_mid k0 x a b Hc Hab) by (now rewrite Hpc). apply (eff_mid k0 _ a b); [exact Hc|exact Hab|reflexivity].
    - (* PLocked r false: load *)
      inversion Hs; subst s'. apply (G_local s t x _ G Hx).
      + right. exists a, b. cbn [t_cmd t_pc t_held with_pc]. split; [exact Hc|]. split; [exact Hab|]. split; [now apply own_set_thM|reflexivity].
      + intro k0. rewrite (eff_quiet k0 x) by (now rewrite Hpc). apply eff_quiet. reflexivity.
    - (* PMiss true: create the destination, or use the one published meanwhile *)
      destruct Hp as [r1 [Hh H1]]. cbn [creates key_of] in Hs.
      destruct (nget b (ix s)) as [r2|] eqn:E; inversion Hs; subst s'.
      + apply (lookupM2 s t x a b r1 G Hx Hc Hab Hh H1). now rewrite Hpc.
      + rewrite <- Hc. apply (create_gen s t x _ b G Hx E).
        * right. exists a, b. cbn [t_cmd t_pc t_held]. split; [exact Hc|]. split; [exact Hab|]. exists r1.
          destruct H1 as [Hw1 [Hr1 Hl]].
          assert (Hd : r1 <> nextr s) by lia.
          split; [now rewrite Hh|]. split.
          { unfold held1. rewrite (get_rec_create_other r1) by exact Hd. cbn [nextr set_th ix].
            split; [exact Hw1|]. split; [lia|]. destruct Hl as [[Hi Hu]|Hu]; [left|now right].
            split; [|exact Hu]. rewrite nget_nset_other by exact Hab. exact Hi. }
          split; [lia|]. unfold own2. cbn [nextr set_th ix]. rewrite get_rec_set_th. unfold get_rec. cbn [recs]. rewrite !nget_nset_same.
          cbn [acquire r_w r_unl rcd_new]. split; [reflexivity|]. split; [reflexivity|]. split; [reflexivity|lia].
        * intro k0. rewrite (eff_mid k0 x a b Hc Hab) by (now rewrite Hpc). apply (eff_mid k0 _ a b); [exact Hc|exact Hab|reflexivity].
    - (* PMiss false: nothing to pop *)
      cbn [creates] in Hs. inversion Hs; subst s'. rewrite (commit0 t x 0 s Hp). apply (G_local s t x _ G Hx).
      + right. exists a, b. split; [exact Hc|]. split; [exact Hab|reflexivity].
      + intro k0. rewrite (eff_quiet k0 x) by (now rewrite Hpc). unfold eff. cbn [t_cmd t_pc]. rewrite Hc.
        destruct (Nat.eqb a k0); destruct (Nat.eqb b k0); reflexivity.
    - (* PPub r true: load *)
      destruct Hp as [r1 [Hh [H1 [Hne H2]]]]. inversion Hs; subst s'. apply (G_local s t x _ G Hx).
      + right. exists a, b. cbn [t_cmd t_pc t_held with_pc]. split; [exact Hc|]. split; [exact Hab|]. exists r1.
        split; [exact Hh|]. split; [exact H1|]. split; [exact Hne|]. split; [exact H2|reflexivity].
      + intro k0. rewrite (eff_mid k0 x a b Hc Hab) by (now rewrite Hpc). apply (eff_mid k0 _ a b); [exact Hc|exact Hab|reflexivity].
    - (* PLoaded r tmp true: push to the destination *)
      destruct Hp as [r1 [Hh [H1 [Hne [H2 Ht]]]]]. inversion Hs; subst s'. destruct H2 as [Hw2 [Hi2 [Hu2 Hr2]]].
      pose proof (gN s G r) as Hnn.
      apply (G_rec s t x _ r _ G Hx Hr2).
      + intros u Hd. rewrite Hw2. congruence.
      + right. exists a, b. cbn [t_cmd t_pc t_held with_pc]. split; [exact Hc|]. split; [exact Hab|]. exists r1.
        split; [exact Hh|]. split.
        { destruct H1 as [Hw1 [Hr1 Hl]]. unfold held1. rewrite get_rec_set_th, get_set_rec_other by congruence. split; [exact Hw1|]. split; [exact Hr1|exact Hl]. }
        split; [exact Hne|]. unfold own2. rewrite get_rec_set_th, get_set_rec_same. cbn [with_val r_w r_unl ix set_th set_rec nextr]. repeat split; assumption.
      + intro k0. rewrite (eff_mid k0 x a b Hc Hab) by (now rewrite Hpc). unfold eff. cbn [t_cmd t_pc with_pc]. rewrite Hc.
        destruct (Nat.eq_dec k0 b) as [->|Hd].
        * rewrite (cur0_set_rec_same b r _ s Hi2). cbn [with_val r_val]. unfold cur0. rewrite Hi2, Eab, Nat.eqb_refl. lia.
        * rewrite cur0_set_rec_other.
          -- destruct (Nat.eqb a k0); destruct (Nat.eqb_spec b k0); try congruence; lia.
          -- intros r' Hr' ->. apply Hd. exact (gI s G k0 b r Hr' Hi2).
      + cbn [with_val r_val]. lia.
      + reflexivity.
    - (* PLoaded r tmp false: pop from the source *)
      destruct Hp as [Ho Ht]. pose proof (gN s G r) as Hnn. pose proof Ho as [Hh [Hw [Hi [Hu Hr]]]].
      destruct (tmp <=? 0) eqn:Et; inversion Hs; subst s'.
      + rewrite (commit1 t x 0 r s Hh). apply (G_rec s t x _ r _ G Hx Hr).
        * intros u Hd. rewrite Hw. congruence.
        * right. exists a, b. split; [exact Hc|]. split; [exact Hab|reflexivity].
        * intro k0. rewrite (eff_quiet k0 x) by (now rewrite Hpc). rewrite cur0_same_val by reflexivity. unfold eff. cbn [t_cmd t_pc]. rewrite Hc.
          destruct (Nat.eqb a k0); destruct (Nat.eqb b k0); cbn; lia.
        * cbn. exact Hnn.
        * reflexivity.
      + apply (G_rec s t x _ r _ G Hx Hr).
        * intros u Hd. rewrite Hw. congruence.
        * right. exists a, b. cbn [t_cmd t_pc t_held with_pc]. split; [exact Hc|]. split; [exact Hab|]. unfold own. cbn [t_held with_pc].
          rewrite get_rec_set_th, get_set_rec_same. cbn [with_val r_w r_unl ix set_th set_rec nextr]. repeat split; assumption.
        * intro k0. rewrite (eff_quiet k0 x) by (now rewrite Hpc). unfold eff. cbn [t_cmd t_pc with_pc]. rewrite Hc.
          destruct (Nat.eq_dec k0 a) as [->|Hd].
          -- rewrite (cur0_set_rec_same a r _ s Hi). cbn [with_val r_val]. unfold cur0. rewrite Hi, Nat.eqb_refl.
             assert (E2 : Nat.eqb b a = false) by (apply Nat.eqb_neq; congruence). rewrite E2. lia.
          -- rewrite cur0_set_rec_other.
             ++ destruct (Nat.eqb_spec a k0); try congruence. destruct (Nat.eqb b k0); lia.
             ++ intros r' Hr' ->. apply Hd. exact (gI s G k0 a r Hr' Hi).
        * cbn [with_val r_val]. lia.
        * reflexivity.
    - (* PStored r true: commit, both records are given back *)
      destruct Hp as [r1 [Hh [H1 [Hne H2]]]]. inversion Hs; subst s'. destruct H2 as [Hw2 [Hi2 [Hu2 Hr2]]]. destruct H1 as [Hw1 [Hr1 Hl]].
      rewrite (commit2 t x 1 r r1 s Hh) by congruence.
      apply (G_rec2 s t x _ r1 _ r _ G Hx Hr1 Hr2); try reflexivity; try assumption; try congruence.
      + right. exists a, b. split; [exact Hc|]. split; [exact Hab|reflexivity].
      + intro k0. unfold eff. cbn [t_cmd t_pc]. rewrite Hc, Hpc. destruct (Nat.eqb a k0); destruct (Nat.eqb b k0); reflexivity.
    - (* PStored r false: unlink the emptied source, or go on to the destination *)
      pose proof Hp as [Hh [Hw [Hi [Hu Hr]]]]. cbn [key_of] in Hs. rewrite Eab in Hs. cbn [negb] in Hs. rewrite andb_true_r in Hs.
      destruct (r_val (get_rec r s) =? 0) eqn:Ez; inversion Hs; subst s'.
      + apply (G_local s t x _ G Hx).
        * right. exists a, b. cbn [t_cmd t_pc t_held with_pc]. split; [exact Hc|]. split; [exact Hab|]. split; [now apply own_set_thM|].
          split; [rewrite get_rec_set_th; lia|reflexivity].
        * intro k0. rewrite (eff_mid k0 x a b Hc Hab) by (now rewrite Hpc). apply (eff_mid k0 _ a b); [exact Hc|exact Hab|reflexivity].
      + apply (lookupM2 s t x a b r G Hx Hc Hab Hh (own_held1 s t x a r Hp)). now rewrite Hpc.
    - (* PUnlink: the source record is flagged and leaves the index; the thread keeps holding it *)
      destruct Hp as [Ho [Hz Hpop]]. subst popped. pose proof Ho as [Hh [Hw [Hi [Hu Hr]]]].
      cbn [key_of] in Hs. rewrite Hi in Hs. inversion Hs; subst s'. clear Hs.
      unfold lookup_next. rewrite Hc. cbn [key_of set_ix set_rec ix].
      assert (Eb : nget b (ndel a (ix s)) = nget b (ix s)) by (apply nget_ndel_other; congruence).
      rewrite Eb.
      set (yflag := {| r_val := r_val (get_rec r s); r_w := r_w (get_rec r s); r_rd := r_rd (get_rec r s);
                       r_in := r_in (get_rec r s); r_out := r_out (get_rec r s); r_unl := true |}).
      assert (Hheld : forall S', get_rec r S' = yflag -> (nextr s <= nextr S')%nat -> held1 S' t a r).
      { intros S' Hg Hn. unfold held1. rewrite Hg. cbn [yflag r_w r_unl]. split; [exact Hw|]. split; [lia|now right]. }
      destruct (nget b (ix s)) as [r2|] eqn:E.
      + change (GInv (set_th t (with_pc x (PHit r2 true)) (set_rec r yflag (set_ix (ndel a (ix s)) s)))).
        apply (unlink_gen s t x _ a r yflag G Hx Hw Hi Hr Hz); [exact Hz|reflexivity| |].
        * right. exists a, b. cbn [t_cmd t_pc t_held with_pc]. split; [exact Hc|]. split; [exact Hab|]. exists r.
          assert (Hr2 : r2 <> r) by (intros ->; apply Hab; exact (gI s G a b r Hi E)).
          split; [exact Hh|]. split.
          { apply Hheld; [|cbn; lia]. rewrite get_rec_set_th. unfold get_rec. cbn [recs set_rec set_ix]. now rewrite nget_nset_same. }
          split; [exact (gR s G b r2 E)|]. split; [exact Hr2|]. intros _. cbn [ix set_th set_rec set_ix]. rewrite ?Eb. first [exact E | reflexivity | (rewrite E; reflexivity)].
        * intro k0. rewrite (eff_mid k0 x a b Hc Hab) by (now rewrite Hpc). apply (eff_mid k0 _ a b); [exact Hc|exact Hab|reflexivity].
      + change (GInv (set_th t (with_pc x (PMiss true)) (set_rec r yflag (set_ix (ndel a (ix s)) s)))).
        apply (unlink_gen s t x _ a r yflag G Hx Hw Hi Hr Hz); [exact Hz|reflexivity| |].
        * right. exists a, b. cbn [t_cmd t_pc t_held with_pc]. split; [exact Hc|]. split; [exact Hab|]. exists r.
          split; [exact Hh|]. apply Hheld; [|cbn; lia]. rewrite get_rec_set_th. unfold get_rec. cbn [recs set_rec set_ix]. now rewrite nget_nset_same.
        * intro k0. rewrite (eff_mid k0 x a b Hc Hab) by (now rewrite Hpc). apply (eff_mid k0 _ a b); [exact Hc|exact Hab|reflexivity].
  Qed.

  Theorem mstep_G t s s' : GInv s -> mstep t s = Some s' -> GInv s'.
  Proof.
    intros G Hs. destruct (nget t (ths s)) as [x|] eqn:Hx; [|unfold mstep in Hs; rewrite Hx in Hs; discriminate].
    destruct (gV s G t x Hx) as [HW|HM]; [exact (mstep_GW t s s' x G Hx HW Hs)|exact (mstep_GM t s s' x G Hx HM Hs)].
  Qed.

  Theorem run_micro_G sched : forall s, GInv s -> GInv (run_micro sched s).
  Proof.
    induction sched as [|t r IH]; intros s H; [exact H|].
    unfold run_micro. cbn [fold_left]. fold (run_micro r).
    destruct (mstep t s) as [s'|] eqn:E; [apply IH; exact (mstep_G t s s' H E)|apply IH; exact H].
  Qed.
End General.

(* ---- from the initial state ------------------------------------------------------------------- *)
Definition writers_only (cmds : list cmd) : Prop := forall c, In c cmds -> wkey c <> None.
(* RPUSH, RPUSHX, LPOP, and LPOPRPUSH between two different keys *)
Definition supported_cmd (c : cmd) : Prop :=
  match c with Push _ | Pop _ | PushX _ => True | Move a b => a <> b | _ => False end.
Definition supported (cmds : list cmd) : Prop := forall c, In c cmds -> supported_cmd c.
Lemma writers_supported cmds : writers_only cmds -> supported cmds.
Proof. intros H c Hc. specialize (H c Hc). destruct c; cbn in *; try exact I; congruence. Qed.

Lemma fold_max_le l : forall a k, (k <= a)%nat \/ In k l -> (k <= fold_left Nat.max l a)%nat.
Proof.
  induction l as [|h r IH]; intros a k H; cbn [fold_left]; [destruct H as [H|[]]; exact H|].
  apply IH. destruct H as [H|[H|H]]; [left; lia|left; subst; lia|now right].
Qed.
Lemma nget_ix_init_inv k r (vals : list (nat * Z)) :
  nget k (map (fun kv => (fst kv, fst kv)) vals) = Some r -> r = k /\ In k (map fst vals).
Proof.
  induction vals as [|[k' v] rest IH]; cbn; [discriminate|]. destruct (Nat.eqb k k') eqn:E.
  - intro H. inversion H. apply Nat.eqb_eq in E. subst. split; [reflexivity|now left].
  - intro H. destruct (IH H) as [A B]. split; [exact A|now right].
Qed.
Lemma nget_recs_init r (vals : list (nat * Z)) :
  match nget r (map (fun kv => (fst kv, {| r_val := snd kv; r_w := None; r_rd := []; r_in := 0; r_out := 0; r_unl := false |})) vals) with
  | Some y => In r (map fst vals) /\ (exists v, In (r, v) vals /\ r_val y = v)
  | None => True
  end.
Proof.
  induction vals as [|[k' v] rest IH]; cbn; [exact I|]. destruct (Nat.eqb r k') eqn:E.
  - apply Nat.eqb_eq in E. subst. split; [now left|]. exists v. split; [now left|reflexivity].
  - destruct (nget r _); [|exact I]. destruct IH as [A [v' [B C]]]. split; [now right|]. exists v'. split; [now right|exact C].
Qed.

Lemma init_G vals cmds :
  supported cmds -> (forall kv, In kv vals -> 0 <= snd kv) ->
  GInv (fun k => cur0 k (init_state vals cmds)) (init_state vals cmds).
Proof.
  intros Hw Hnn. constructor.
  - intros t x Hx. unfold init_state in Hx. cbn [ths] in Hx. apply nget_combine_in in Hx.
    apply in_map_iff in Hx. destruct Hx as [c [<- Hc]]. pose proof (Hw c Hc) as Hk.
    destruct c as [k|k|k|k|a b|k]; cbn in Hk; try contradiction.
    + left. exists k. cbn. split; reflexivity.
    + left. exists k. cbn. split; reflexivity.
    + right. exists a, b. cbn. repeat split; [exact Hk].
    + left. exists k. cbn. split; reflexivity.
  - intro k. rewrite asum_zero; [lia|]. intros a Ha. apply in_map_iff in Ha. destruct Ha as [[t x] [<- Hin]].
    unfold init_state in Hin. cbn [ths] in Hin. apply in_combine_r in Hin. apply in_map_iff in Hin. destruct Hin as [c [<- _]].
    apply eff_quiet. reflexivity.
  - intro r. unfold get_rec, init_state. cbn [recs]. pose proof (nget_recs_init r vals) as H.
    destruct (nget r _) as [y|]; [|cbn; lia]. destruct H as [_ [v [Hin ->]]]. exact (Hnn (r, v) Hin).
  - intros k k' r H1 H2. unfold init_state in *. cbn [ix] in *. apply nget_ix_init_inv in H1, H2. destruct H1, H2. congruence.
  - intros k r H. unfold init_state in *. cbn [ix nextr] in *. apply nget_ix_init_inv in H. destruct H as [-> Hin].
    apply Nat.lt_succ_r. apply fold_max_le. now right.
  - intros r Hr. unfold init_state in *. cbn [recs nextr] in *. pose proof (nget_recs_init r vals) as H.
    destruct (nget r _) as [y|]; [|reflexivity]. destruct H as [Hin _].
    assert ((r <= fold_left Nat.max (map fst vals) 0)%nat) by (apply fold_max_le; now right). lia.
  - intros k r H. unfold init_state in *. cbn [ix] in *. unfold get_rec. cbn [recs].
    clear H. induction vals as [|[k' v] rest IH]; cbn; [reflexivity|]. destruct (Nat.eqb r k'); [reflexivity|].
    apply IH. intros kv Hkv. apply Hnn. now right.
Qed.

(* no lost update, for keys that are created, emptied, unlinked and re-created while they are in use *)
Theorem supported_conserve vals cmds sched :
  supported cmds -> (forall kv, In kv vals -> 0 <= snd kv) ->
  let s := run_micro sched (init_state vals cmds) in
  forall k, cur0 k s = cur0 k (init_state vals cmds) + asum (eff k) (ths s).
Proof.
  intros Hw Hnn s k. exact (gK _ s (run_micro_G _ sched _ (init_G vals cmds Hw Hnn)) k).
Qed.
Theorem writers_conserve vals cmds sched :
  writers_only cmds -> (forall kv, In kv vals -> 0 <= snd kv) ->
  let s := run_micro sched (init_state vals cmds) in
  forall k, cur0 k s = cur0 k (init_state vals cmds) + asum (eff k) (ths s).
Proof. intros Hw. apply supported_conserve. now apply writers_supported. Qed.

(* mutual exclusion and validity: a thread that has loaded the value of a source or single-key record holds the
   record exclusively, the record is the one the index holds for that key, it is not unlinked, and the value it
   loaded is still the current one *)
Definition first_key (c : cmd) : option nat :=
  match c with Push k | Pop k | PushX k => Some k | Move a _ => Some a | _ => None end.
Theorem loaded_record_is_current vals cmds sched t x r tmp :
  supported cmds -> (forall kv, In kv vals -> 0 <= snd kv) ->
  let s := run_micro sched (init_state vals cmds) in
  nget t (ths s) = Some x -> t_pc x = PLoaded r tmp false ->
  exists k, first_key (t_cmd x) = Some k /\ nget k (ix s) = Some r /\ r_w (get_rec r s) = Some t /\
            r_unl (get_rec r s) = false /\ tmp = r_val (get_rec r s).
Proof.
  intros Hw Hnn s Hx Hp.
  destruct (gV _ s (run_micro_G _ sched _ (init_G vals cmds Hw Hnn)) t x Hx) as [[k [Hk Hpc]]|[a [b [Hc [_ Hpc]]]]].
  - rewrite Hp in Hpc. destruct Hpc as [[_ [Hw' [Hi [Hu _]]]] Ht]. exists k. split; [|repeat split; assumption].
    destruct (t_cmd x); cbn in *; congruence.
  - rewrite Hp in Hpc. destruct Hpc as [[_ [Hw' [Hi [Hu _]]]] Ht]. exists a. rewrite Hc. cbn. repeat split; assumption.
Qed.

(* when every command has replied: the key holds its initial value, plus one per push or move-in that was
   acknowledged, minus one per pop or move-out that was acknowledged *)
Definition acked_push (k : nat) (x : thread) : bool :=
  match t_cmd x, t_pc x with
  | Push k', PDone rp | PushX k', PDone rp => Nat.eqb k' k && (0 <? rp)
  | Move _ b, PDone rp => Nat.eqb b k && (rp =? 1)
  | _, _ => false
  end.
Definition acked_pop (k : nat) (x : thread) : bool :=
  match t_cmd x, t_pc x with
  | Pop k', PDone rp => Nat.eqb k' k && (rp =? 1)
  | Move a _, PDone rp => Nat.eqb a k && (rp =? 1)
  | _, _ => false
  end.
Definition count_th (f : thread -> bool) (m : list (nat * thread)) : Z :=
  Z.of_nat (length (filter (fun tx => f (snd tx)) m)).

Lemma eff_done k x rp : t_pc x = PDone rp ->
  eff k x = (if acked_push k x then 1 else 0) - (if acked_pop k x then 1 else 0).
Proof.
  intro Hp. unfold eff, acked_push, acked_pop. rewrite Hp.
  destruct (t_cmd x); try reflexivity; repeat (destruct (Nat.eqb _ _)); cbn [andb]; try reflexivity;
    try (destruct (0 <? rp); reflexivity); destruct (rp =? 1); reflexivity.
Qed.
Lemma asum_done k m : (forall t x, In (t, x) m -> exists rp, t_pc x = PDone rp) ->
  asum (eff k) m = count_th (acked_push k) m - count_th (acked_pop k) m.
Proof.
  unfold count_th. induction m as [|[t x] r IH]; intro H; [reflexivity|]. cbn [asum filter snd].
  destruct (H t x (or_introl eq_refl)) as [rp Hp]. rewrite (eff_done k x rp Hp), IH by (intros t' x' Hin; apply (H t' x'); now right).
  destruct (acked_push k x), (acked_pop k x); cbn [length]; lia.
Qed.

Theorem supported_conserve_when_done vals cmds sched :
  supported cmds -> (forall kv, In kv vals -> 0 <= snd kv) ->
  let s := run_micro sched (init_state vals cmds) in
  (forall t x, In (t, x) (ths s) -> exists rp, t_pc x = PDone rp) ->
  forall k, cur0 k s = cur0 k (init_state vals cmds) + count_th (acked_push k) (ths s) - count_th (acked_pop k) (ths s).
Proof.
  intros Hw Hnn s Hdone k. pose proof (supported_conserve vals cmds sched Hw Hnn k) as H. fold s in H. rewrite H, (asum_done k _ Hdone). lia.
Qed.
Theorem writers_conserve_when_done vals cmds sched :
  writers_only cmds -> (forall kv, In kv vals -> 0 <= snd kv) ->
  let s := run_micro sched (init_state vals cmds) in
  (forall t x, In (t, x) (ths s) -> exists rp, t_pc x = PDone rp) ->
  forall k, cur0 k s = cur0 k (init_state vals cmds) + count_th (acked_push k) (ths s) - count_th (acked_pop k) (ths s).
Proof. intros Hw. apply supported_conserve_when_done. now apply writers_supported. Qed.

(* moves conserve elements: at every moment the elements of all keys together are the initial elements, plus
   the pushes stored, minus the pops stored, minus one for every LPOPRPUSH that has taken its element from the
   source and not yet put it into the destination - an element is never lost and never duplicated.  (total_eff
   sums eff over a finite set of keys that contains every key a command names.) *)

(* no hold-and-wait among single-key writers, also while keys are created and unlinked; an LPOPRPUSH holds its
   source record while it waits for the destination (which is how two opposite moves block each other) *)
Theorem writers_no_hold_and_wait vals cmds sched t x :
  supported cmds -> (forall kv, In kv vals -> 0 <= snd kv) ->
  let s := run_micro sched (init_state vals cmds) in
  nget t (ths s) = Some x -> wkey (t_cmd x) <> None ->
  (forall r sec, t_pc x = PWait r sec -> t_held x = []) /\
  (t_held x <> [] -> exists r, t_held x = [(r, true)] /\ r_w (get_rec r s) = Some t /\
                     match t_pc x with PLocked _ _ | PPub _ _ | PLoaded _ _ _ | PStored _ _ | PUnlink _ _ => True | _ => False end).
Proof.
  intros Hw Hnn s Hx Hwk.
  destruct (gV _ s (run_micro_G _ sched _ (init_G vals cmds Hw Hnn)) t x Hx) as [[k [Hk Hp]]|[a [b [Hc _]]]]; [|rewrite Hc in Hwk; now cbn in Hwk].
  split.
  - intros r sec E. rewrite E in Hp. destruct sec; [contradiction|]. apply Hp.
  - intro Hne. destruct (t_pc x) as [|r [|]|r [|]|r [|]|[|]|r [|]|r tmp [|]|r [|]|r p|rp]; try contradiction;
      try (exfalso; apply Hne; apply Hp); try (exfalso; apply Hne; apply (proj1 Hp)).
    + destruct Hp as [Hh [Hw' _]]. exists r. repeat split; assumption.
    + destruct Hp as [Hh [Hw' _]]. exists r. repeat split; assumption.
    + destruct Hp as [[Hh [Hw' _]] _]. exists r. repeat split; assumption.
    + destruct Hp as [[Hh [Hw' _]] _]. exists r. repeat split; assumption.
    + destruct Hp as [[Hh [Hw' _]] _]. exists r. repeat split; assumption.
Qed.
