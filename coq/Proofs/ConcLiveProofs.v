(* C06: no state of a system of single-key writers (RPUSH, RPUSHX, LPOP) is deadlocked - for every interleaving,
   also while keys are created, emptied, unlinked and re-created.  Every write-locked record is held by a thread,
   that thread is past its Lock() and stands at a step that is never blocked; so as long as some command has not
   replied, some thread can take a step that is not a wait.  (coq/Model/Conc.v) *)
From Nodis Require Import Model.Conc Proofs.ConcProofs Proofs.BlockProofs Proofs.ConcGenProofs.
From Coq Require Import ZArith List Bool Arith Lia.
Import ListNotations.
Local Open Scope Z_scope.

Definition OInv (s : cstate) : Prop :=
  (forall r u, r_w (get_rec r s) = Some u -> exists y, nget u (ths s) = Some y /\ In (r, true) (t_held y)) /\
  (forall r, r_rd (get_rec r s) = []) /\
  (forall t x, nget t (ths s) = Some x -> wkey (t_cmd x) <> None).

Lemma O_local s t x x' : OInv s -> nget t (ths s) = Some x -> t_held x' = t_held x -> t_cmd x' = t_cmd x -> OInv (set_th t x' s).
Proof.
  intros [HO [HQ HW]] Hx Hh Hc. split; [|split].
  - intros r u Hr. rewrite get_rec_set_th in Hr. destruct (HO r u Hr) as [y [Hy Hin]]. cbn [ths set_th].
    destruct (Nat.eq_dec u t) as [->|Hne].
    + rewrite Hx in Hy. inversion Hy; subst y. exists x'. rewrite nget_nset_same, Hh. now split.
    + exists y. rewrite nget_nset_other by exact Hne. now split.
  - intro r. apply HQ.
  - intros u y Hy. cbn [ths set_th] in Hy. destruct (Nat.eq_dec u t) as [->|Hne].
    + rewrite nget_nset_same in Hy. inversion Hy; subst y. rewrite Hc. exact (HW t x Hx).
    + rewrite nget_nset_other in Hy by exact Hne. exact (HW u y Hy).
Qed.

(* one record rewritten by the stepping thread: it ends up write-locked by t and in t's list, or unlocked *)
Lemma O_rec s t x x' r y : OInv s -> nget t (ths s) = Some x -> t_cmd x' = t_cmd x -> r_rd y = [] ->
  (r_w y = None \/ (r_w y = Some t /\ In (r, true) (t_held x'))) ->
  (forall r0, r0 <> r -> In (r0, true) (t_held x) -> In (r0, true) (t_held x')) ->
  OInv (set_th t x' (set_rec r y s)).
Proof.
  intros [HO [HQ HW]] Hx Hc Hrd Hy Hkeep. split; [|split].
  - intros r0 u Hr. rewrite get_rec_set_th in Hr. cbn [ths set_th set_rec]. destruct (Nat.eq_dec r0 r) as [->|Hd].
    + rewrite get_set_rec_same in Hr. destruct Hy as [Hn|[Hs Hin]]; [congruence|]. rewrite Hs in Hr. inversion Hr; subst u.
      exists x'. rewrite nget_nset_same. now split.
    + rewrite get_set_rec_other in Hr by exact Hd. destruct (HO r0 u Hr) as [z [Hz Hin]]. destruct (Nat.eq_dec u t) as [->|Hne].
      * rewrite Hx in Hz. inversion Hz; subst z. exists x'. rewrite nget_nset_same. split; [reflexivity|now apply Hkeep].
      * exists z. rewrite nget_nset_other by exact Hne. now split.
  - intro r0. rewrite get_rec_set_th. destruct (Nat.eq_dec r0 r) as [->|Hd]; [now rewrite get_set_rec_same|rewrite get_set_rec_other by exact Hd; apply HQ].
  - intros u z Hz. cbn [ths set_th set_rec] in Hz. destruct (Nat.eq_dec u t) as [->|Hne].
    + rewrite nget_nset_same in Hz. inversion Hz; subst z. rewrite Hc. exact (HW t x Hx).
    + rewrite nget_nset_other in Hz by exact Hne. exact (HW u z Hz).
Qed.

Lemma O_create s t x x' k rn : OInv s -> nget t (ths s) = Some x -> t_cmd x' = t_cmd x ->
  In (rn, true) (t_held x') -> (forall r0, In (r0, true) (t_held x) -> In (r0, true) (t_held x')) ->
  OInv (set_th t x' {| ix := nset k rn (ix s); recs := nset rn (acquire t true rcd_new) (recs s); nextr := S (nextr s); ths := ths s |}).
Proof.
  intros [HO [HQ HW]] Hx Hc Hin Hkeep.
  assert (Hg : forall r0, r0 <> rn -> get_rec r0 (set_th t x' {| ix := nset k rn (ix s); recs := nset rn (acquire t true rcd_new) (recs s); nextr := S (nextr s); ths := ths s |}) = get_rec r0 s).
  { intros r0 Hd. unfold get_rec. cbn [recs set_th]. now rewrite nget_nset_other. }
  assert (Hn : get_rec rn (set_th t x' {| ix := nset k rn (ix s); recs := nset rn (acquire t true rcd_new) (recs s); nextr := S (nextr s); ths := ths s |}) = acquire t true rcd_new).
  { unfold get_rec. cbn [recs set_th]. now rewrite nget_nset_same. }
  split; [|split].
  - intros r0 u Hr. cbn [ths set_th]. destruct (Nat.eq_dec r0 rn) as [->|Hd].
    + rewrite Hn in Hr. cbn in Hr. inversion Hr; subst u. exists x'. rewrite nget_nset_same. now split.
    + rewrite Hg in Hr by exact Hd. destruct (HO r0 u Hr) as [z [Hz Hi]]. destruct (Nat.eq_dec u t) as [->|Hne].
      * rewrite Hx in Hz. inversion Hz; subst z. exists x'. rewrite nget_nset_same. split; [reflexivity|now apply Hkeep].
      * exists z. rewrite nget_nset_other by exact Hne. now split.
  - intro r0. destruct (Nat.eq_dec r0 rn) as [->|Hd]; [now rewrite Hn|rewrite Hg by exact Hd; apply HQ].
  - intros u z Hz. cbn [ths set_th] in Hz. destruct (Nat.eq_dec u t) as [->|Hne].
    + rewrite nget_nset_same in Hz. inversion Hz; subst z. rewrite Hc. exact (HW t x Hx).
    + rewrite nget_nset_other in Hz by exact Hne. exact (HW u z Hz).
Qed.

Lemma OInv_set_ix i s : OInv s -> OInv (set_ix i s).
Proof. intro H. exact H. Qed.

Section Live.
  Variable v0 : nat -> Z.

  Lemma writer_tok s t x : GInv v0 s -> OInv s -> nget t (ths s) = Some x -> tokW s t x.
  Proof.
    intros G [_ [_ HW]] Hx. destruct (gV v0 s G t x Hx) as [H|[a [b [Hc _]]]]; [exact H|].
    exfalso. apply (HW t x Hx). now rewrite Hc.
  Qed.

  Lemma lookup_O s t x sec : OInv s -> nget t (ths s) = Some x -> OInv (lookup_next t x sec s).
  Proof.
    intros H Hx. unfold lookup_next. destruct (nget _ (ix s)).
    - apply (O_local s t x _ H Hx); reflexivity.
    - apply (O_local s t x _ H Hx); reflexivity.
  Qed.

  Theorem mstep_O t s s' : GInv v0 s -> OInv s -> mstep t s = Some s' -> OInv s'.
  Proof.
    intros G HOI Hs. unfold mstep in Hs. destruct (nget t (ths s)) as [x|] eqn:Hx; [|discriminate].
    destruct (writer_tok s t x G HOI Hx) as [k [Hk Hp]]. destruct (wkey_key _ _ Hk) as [Hkey Hrd].
    pose proof HOI as [HO [HQ HW]].
    destruct (t_pc x) as [|r [|]|r [|]|r [|]|[|]|r [|]|r tmp [|]|r [|]|r popped|rp] eqn:Hpc; try contradiction; try discriminate.
    - (* PStart *) inversion Hs; subst s'. now apply lookup_O.
    - (* PHit *)
      destruct Hp as [Hh _]. inversion Hs; subst s'. unfold try_lock, holds_rec. rewrite Hh. cbn [existsb]. rewrite Hrd. cbn [negb].
      destruct (lock_free true (get_rec r s)); [destruct (r_unl (get_rec r s))|].
      + now apply lookup_O.
      + apply (O_rec s t x _ r _ HOI Hx).
        * reflexivity.
        * cbn. apply HQ.
        * right. split; [reflexivity|]. cbn. now left.
        * intros r0 _ H. rewrite Hh in H. destruct H.
      + apply (O_local s t x _ HOI Hx); reflexivity.
    - (* PWait *)
      destruct Hp as [Hh _]. inversion Hs; subst s'. unfold try_lock, holds_rec. rewrite Hh. cbn [existsb]. rewrite Hrd. cbn [negb].
      destruct (lock_free true (get_rec r s)); [destruct (r_unl (get_rec r s))|].
      + now apply lookup_O.
      + apply (O_rec s t x _ r _ HOI Hx).
        * reflexivity.
        * cbn. apply HQ.
        * right. split; [reflexivity|]. cbn. now left.
        * intros r0 _ H. rewrite Hh in H. destruct H.
      + apply (O_local s t x _ HOI Hx); reflexivity.
    - (* PLocked *)
      assert (Hs2 : s' = set_th t (with_pc x (PLoaded r (r_val (get_rec r s)) false)) s)
        by (destruct (t_cmd x); try discriminate; now inversion Hs).
      subst s'. apply (O_local s t x _ HOI Hx); reflexivity.
    - (* PMiss *)
      destruct (t_cmd x) as [k1|k1|k1|k1|a b|k1] eqn:Hc; try discriminate; cbn [creates key_of] in Hs.
      + destruct (nget k1 (ix s)); inversion Hs; subst s'.
        * now apply lookup_O.
        * apply (O_create s t x _ k1 (nextr s) HOI Hx); [cbn; now rewrite Hc|now left|intros r0 H; now right].
      + inversion Hs; subst s'. rewrite (commit0 t x 0 s Hp). apply (O_local s t x _ HOI Hx); [now rewrite Hp|reflexivity].
      + inversion Hs; subst s'. rewrite (commit0 t x 0 s Hp). apply (O_local s t x _ HOI Hx); [now rewrite Hp|reflexivity].
    - (* PPub *) inversion Hs; subst s'. apply (O_local s t x _ HOI Hx); reflexivity.
    - (* PLoaded *)
      destruct Hp as [[Hh [Hw _]] _].
      destruct (t_cmd x) as [k1|k1|k1|k1|a b|k1] eqn:Hc; try discriminate.
      + inversion Hs; subst s'. apply (O_rec s t x _ r _ HOI Hx); [reflexivity|cbn; apply HQ|right; cbn [with_val r_w with_pc t_held]; split; [exact Hw|rewrite Hh; now left]|intros r0 _ H; exact H].
      + destruct (tmp <=? 0); inversion Hs; subst s'.
        * apply (O_local s t x _ HOI Hx); reflexivity.
        * apply (O_rec s t x _ r _ HOI Hx); [reflexivity|cbn; apply HQ|right; cbn [with_val r_w with_pc t_held]; split; [exact Hw|rewrite Hh; now left]|intros r0 _ H; exact H].
      + inversion Hs; subst s'. apply (O_rec s t x _ r _ HOI Hx); [reflexivity|cbn; apply HQ|right; cbn [with_val r_w with_pc t_held]; split; [exact Hw|rewrite Hh; now left]|intros r0 _ H; exact H].
    - (* PStored *)
      destruct Hp as [[Hh [Hw _]] _].
      assert (Hcm : forall rp, OInv (commit t x rp s)).
      { intro rp. rewrite (commit1 t x rp r s Hh). apply (O_rec s t x _ r _ HOI Hx); [reflexivity|cbn; apply HQ|left; reflexivity|].
        intros r0 Hd Hin. rewrite Hh in Hin. destruct Hin as [E|[]]. inversion E. congruence. }
      destruct (t_cmd x) as [k1|k1|k1|k1|a b|k1] eqn:Hc; try discriminate.
      + inversion Hs; subst s'. apply Hcm.
      + destruct (r_val (get_rec r s) =? 0); inversion Hs; subst s'; [apply (O_local s t x _ HOI Hx); reflexivity|apply Hcm].
      + inversion Hs; subst s'. apply Hcm.
    - (* PUnlink *)
      destruct Hp as [[Hh [Hw [Hi _]]] [_ Hnp]].
      destruct (t_cmd x) as [k1|k1|k1|k1|a b|k1] eqn:Hc; try discriminate; cbn [key_of] in Hkey; subst k1.
      cbn [key_of] in Hs. rewrite Hi in Hs. inversion Hs; subst s'. clear Hs.
      rewrite (commit1 t x _ r _ Hh).
      assert (E : forall i y, get_rec r (set_ix i (set_rec r y s)) = y)
        by (intros; unfold get_rec; cbn [recs set_ix set_rec]; now rewrite nget_nset_same).
      rewrite E, set_rec_twice.
      apply (O_rec (set_ix _ s) t x _ r _ (OInv_set_ix _ s HOI) Hx); [reflexivity|cbn; apply HQ|left; reflexivity|].
      intros r0 Hd Hin. rewrite Hh in Hin. destruct Hin as [E2|[]]. inversion E2. congruence.
  Qed.
End Live.

Theorem run_micro_GO v0 sched : forall s, GInv v0 s -> OInv s -> GInv v0 (run_micro sched s) /\ OInv (run_micro sched s).
Proof.
  induction sched as [|t r IH]; intros s G O; [now split|].
  unfold run_micro. cbn [fold_left]. fold (run_micro r).
  destruct (mstep t s) as [s'|] eqn:E; [|now apply IH].
  apply IH; [exact (mstep_G v0 t s s' G E)|exact (mstep_O v0 t s s' G O E)].
Qed.

Lemma init_O vals cmds : writers_only cmds -> OInv (init_state vals cmds).
Proof.
  intro Hw. split; [|split].
  - intros r u H. exfalso. unfold get_rec, init_state in H. cbn [recs] in H.
    induction vals as [|[k v] rest IH]; cbn in H; [discriminate|]. destruct (Nat.eqb r k); [discriminate|exact (IH H)].
  - intro r. unfold get_rec, init_state. cbn [recs].
    induction vals as [|[k v] rest IH]; cbn; [reflexivity|]. destruct (Nat.eqb r k); [reflexivity|exact IH].
  - intros t x Hx. unfold init_state in Hx. cbn [ths] in Hx. apply nget_combine_in in Hx.
    apply in_map_iff in Hx. destruct Hx as [c [<- Hc]]. exact (Hw c Hc).
Qed.

(* a thread can take a step that is not a wait: it has not replied, and if it is inside Lock() the lock is free *)
Definition can_move (s : cstate) (x : thread) : Prop :=
  match t_pc x with
  | PDone _ => False
  | PWait r _ => lock_free true (get_rec r s) = true
  | _ => True
  end.

Theorem writers_never_deadlock vals cmds sched :
  writers_only cmds -> (forall kv, In kv vals -> 0 <= snd kv) ->
  let s := run_micro sched (init_state vals cmds) in
  (exists t x, nget t (ths s) = Some x /\ forall rp, t_pc x <> PDone rp) ->
  exists t x, nget t (ths s) = Some x /\ can_move s x.
Proof.
  intros Hw Hnn s [t [x [Hx Hnd]]].
  destruct (run_micro_GO _ sched _ (init_G vals cmds (writers_supported cmds Hw) Hnn) (init_O vals cmds Hw)) as [G O]. fold s in G, O.
  destruct (t_pc x) as [|r sec|r sec|r sec|sec|r sec|r tmp sec|r sec|r p|rp] eqn:Hpc;
    try (exists t, x; split; [exact Hx|unfold can_move; rewrite Hpc; exact I]).
  - (* inside Lock() *)
    destruct (lock_free true (get_rec r s)) eqn:Hf; [exists t, x; split; [exact Hx|unfold can_move; now rewrite Hpc]|].
    pose proof O as [HO [HQ _]].
    assert (Hwr : exists u, r_w (get_rec r s) = Some u).
    { unfold lock_free in Hf. destruct (r_w (get_rec r s)) as [u|]; [now exists u|]. rewrite HQ in Hf. discriminate. }
    destruct Hwr as [u Hu]. destruct (HO r u Hu) as [y [Hy Hin]].
    exists u, y. split; [exact Hy|].
    destruct (writer_tok _ s u y G O Hy) as [k [Hk Hp]]. unfold can_move.
    destruct (t_pc y) as [|r' [|]|r' [|]|r' [|]|[|]|r' [|]|r' tmp' [|]|r' [|]|r' p'|rp'] eqn:Hpy; try exact I; try contradiction;
      try (rewrite Hp in Hin; destruct Hin); try (destruct Hp as [Hp _]; rewrite Hp in Hin; destruct Hin).
  - (* replied *) exfalso. exact (Hnd rp eq_refl).
Qed.
