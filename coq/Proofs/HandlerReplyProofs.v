(* one reply per handler: generated list of lemmas, each discharged by handler_tac *)
From Nodis Require Import Base.Bytes Model.Num Model.FMap Model.Db Model.Api Model.Handlers Model.Conn Proofs.ReplyProofs.
From Coq Require Import ZArith NArith List Bool Lia.
Local Open Scope Z_scope.
Lemma one_h_del : handler_one (h_del).
Proof. handler_tac h_del; try apply mset_loop_one; try apply zadd_loop_one. Qed.
Lemma one_h_exists : handler_one (h_exists).
Proof. handler_tac h_exists; try apply mset_loop_one; try apply zadd_loop_one. Qed.
Lemma one_h_expire : handler_one (h_expire).
Proof. handler_tac h_expire; try apply mset_loop_one; try apply zadd_loop_one. Qed.
Lemma one_h_expireat : handler_one (h_expireat).
Proof. handler_tac h_expireat; try apply mset_loop_one; try apply zadd_loop_one. Qed.
Lemma one_h_keys : handler_one (h_keys).
Proof. handler_tac h_keys; try apply mset_loop_one; try apply zadd_loop_one. Qed.
Lemma one_h_ttl : handler_one (h_ttl).
Proof. handler_tac h_ttl; try apply mset_loop_one; try apply zadd_loop_one. Qed.
Lemma one_h_pttl : handler_one (h_pttl).
Proof. handler_tac h_pttl; try apply mset_loop_one; try apply zadd_loop_one. Qed.
Lemma one_h_persist : handler_one (h_persist).
Proof. handler_tac h_persist; try apply mset_loop_one; try apply zadd_loop_one. Qed.
Lemma one_h_rename : handler_one (h_rename).
Proof. handler_tac h_rename; try apply mset_loop_one; try apply zadd_loop_one. Qed.
Lemma one_h_renamenx : handler_one (h_renamenx).
Proof. handler_tac h_renamenx; try apply mset_loop_one; try apply zadd_loop_one. Qed.
Lemma one_h_type : handler_one (h_type).
Proof. handler_tac h_type; try apply mset_loop_one; try apply zadd_loop_one. Qed.
Lemma one_h_scan : handler_one (h_scan).
Proof. handler_tac h_scan; try apply mset_loop_one; try apply zadd_loop_one. Qed.
Lemma one_h_set : handler_one (h_set).
Proof. handler_tac h_set; try apply mset_loop_one; try apply zadd_loop_one. Qed.
Lemma one_h_mset : handler_one (h_mset).
Proof. handler_tac h_mset; try apply mset_loop_one; try apply zadd_loop_one. Qed.
Lemma one_h_append : handler_one (h_append).
Proof. handler_tac h_append; try apply mset_loop_one; try apply zadd_loop_one. Qed.
Lemma one_h_setex : handler_one (h_setex).
Proof. handler_tac h_setex; try apply mset_loop_one; try apply zadd_loop_one. Qed.
Lemma one_h_setnx : handler_one (h_setnx).
Proof. handler_tac h_setnx; try apply mset_loop_one; try apply zadd_loop_one. Qed.
Lemma one_h_get : handler_one (h_get).
Proof. handler_tac h_get; try apply mset_loop_one; try apply zadd_loop_one. Qed.
Lemma one_h_getset : handler_one (h_getset).
Proof. handler_tac h_getset; try apply mset_loop_one; try apply zadd_loop_one. Qed.
Lemma one_h_setrange : handler_one (h_setrange).
Proof. handler_tac h_setrange; try apply mset_loop_one; try apply zadd_loop_one. Qed.
Lemma one_h_getrange : handler_one (h_getrange).
Proof. handler_tac h_getrange; try apply mset_loop_one; try apply zadd_loop_one. Qed.
Lemma one_h_strlen : handler_one (h_strlen).
Proof. handler_tac h_strlen; try apply mset_loop_one; try apply zadd_loop_one. Qed.
Lemma one_h_incr : handler_one (h_incr).
Proof. handler_tac h_incr; try apply mset_loop_one; try apply zadd_loop_one. Qed.
Lemma one_h_incrby : handler_one (h_incrby).
Proof. handler_tac h_incrby; try apply mset_loop_one; try apply zadd_loop_one. Qed.
Lemma one_h_decr : handler_one (h_decr).
Proof. handler_tac h_decr; try apply mset_loop_one; try apply zadd_loop_one. Qed.
Lemma one_h_decrby : handler_one (h_decrby).
Proof. handler_tac h_decrby; try apply mset_loop_one; try apply zadd_loop_one. Qed.
Lemma one_h_incrbyfloat : handler_one (h_incrbyfloat).
Proof. handler_tac h_incrbyfloat; try apply mset_loop_one; try apply zadd_loop_one. Qed.
Lemma one_h_setbit : handler_one (h_setbit).
Proof. handler_tac h_setbit; try apply mset_loop_one; try apply zadd_loop_one. Qed.
Lemma one_h_getbit : handler_one (h_getbit).
Proof. handler_tac h_getbit; try apply mset_loop_one; try apply zadd_loop_one. Qed.
Lemma one_h_bitcount : handler_one (h_bitcount).
Proof. handler_tac h_bitcount; try apply mset_loop_one; try apply zadd_loop_one. Qed.
Lemma one_h_sadd : handler_one (h_sadd).
Proof. handler_tac h_sadd; try apply mset_loop_one; try apply zadd_loop_one. Qed.
Lemma one_h_smove : handler_one (h_smove).
Proof. handler_tac h_smove; try apply mset_loop_one; try apply zadd_loop_one. Qed.
Lemma one_h_sscan : handler_one (h_sscan).
Proof. handler_tac h_sscan; try apply mset_loop_one; try apply zadd_loop_one. Qed.
Lemma one_h_scard : handler_one (h_scard).
Proof. handler_tac h_scard; try apply mset_loop_one; try apply zadd_loop_one. Qed.
Lemma one_h_spop : handler_one (h_spop).
Proof. handler_tac h_spop; try apply mset_loop_one; try apply zadd_loop_one. Qed.
Lemma one_h_salgebra_api_sdiff : handler_one (h_salgebra api_sdiff).
Proof. handler_tac h_salgebra; try apply mset_loop_one; try apply zadd_loop_one. Qed.
Lemma one_h_sstore_true_api_sdiff : handler_one (h_sstore true api_sdiff).
Proof. handler_tac h_sstore; try apply mset_loop_one; try apply zadd_loop_one. Qed.
Lemma one_h_salgebra_api_sinter : handler_one (h_salgebra api_sinter).
Proof. handler_tac h_salgebra; try apply mset_loop_one; try apply zadd_loop_one. Qed.
Lemma one_h_sstore_true_api_sinter : handler_one (h_sstore true api_sinter).
Proof. handler_tac h_sstore; try apply mset_loop_one; try apply zadd_loop_one. Qed.
Lemma one_h_salgebra_api_sunion : handler_one (h_salgebra api_sunion).
Proof. handler_tac h_salgebra; try apply mset_loop_one; try apply zadd_loop_one. Qed.
Lemma one_h_sstore_false_api_sunion : handler_one (h_sstore false api_sunion).
Proof. handler_tac h_sstore; try apply mset_loop_one; try apply zadd_loop_one. Qed.
Lemma one_h_sismember : handler_one (h_sismember).
Proof. handler_tac h_sismember; try apply mset_loop_one; try apply zadd_loop_one. Qed.
Lemma one_h_smembers : handler_one (h_smembers).
Proof. handler_tac h_smembers; try apply mset_loop_one; try apply zadd_loop_one. Qed.
Lemma one_h_srem : handler_one (h_srem).
Proof. handler_tac h_srem; try apply mset_loop_one; try apply zadd_loop_one. Qed.
Lemma one_h_hset : handler_one (h_hset).
Proof. handler_tac h_hset; try apply mset_loop_one; try apply zadd_loop_one. Qed.
Lemma one_h_hget : handler_one (h_hget).
Proof. handler_tac h_hget; try apply mset_loop_one; try apply zadd_loop_one. Qed.
Lemma one_h_hdel : handler_one (h_hdel).
Proof. handler_tac h_hdel; try apply mset_loop_one; try apply zadd_loop_one. Qed.
Lemma one_h_hlen : handler_one (h_hlen).
Proof. handler_tac h_hlen; try apply mset_loop_one; try apply zadd_loop_one. Qed.
Lemma one_h_hkeys : handler_one (h_hkeys).
Proof. handler_tac h_hkeys; try apply mset_loop_one; try apply zadd_loop_one. Qed.
Lemma one_h_hexists : handler_one (h_hexists).
Proof. handler_tac h_hexists; try apply mset_loop_one; try apply zadd_loop_one. Qed.
Lemma one_h_hgetall : handler_one (h_hgetall).
Proof. handler_tac h_hgetall; try apply mset_loop_one; try apply zadd_loop_one. Qed.
Lemma one_h_hincrby : handler_one (h_hincrby).
Proof. handler_tac h_hincrby; try apply mset_loop_one; try apply zadd_loop_one. Qed.
Lemma one_h_hincrbyfloat : handler_one (h_hincrbyfloat).
Proof. handler_tac h_hincrbyfloat; try apply mset_loop_one; try apply zadd_loop_one. Qed.
Lemma one_h_hsetnx : handler_one (h_hsetnx).
Proof. handler_tac h_hsetnx; try apply mset_loop_one; try apply zadd_loop_one. Qed.
Lemma one_h_hmset : handler_one (h_hmset).
Proof. handler_tac h_hmset; try apply mset_loop_one; try apply zadd_loop_one. Qed.
Lemma one_h_hclear : handler_one (h_hclear).
Proof. handler_tac h_hclear; try apply mset_loop_one; try apply zadd_loop_one. Qed.
Lemma one_h_hstrlen : handler_one (h_hstrlen).
Proof. handler_tac h_hstrlen; try apply mset_loop_one; try apply zadd_loop_one. Qed.
Lemma one_h_hscan : handler_one (h_hscan).
Proof. handler_tac h_hscan; try apply mset_loop_one; try apply zadd_loop_one. Qed.
Lemma one_h_hvals : handler_one (h_hvals).
Proof. handler_tac h_hvals; try apply mset_loop_one; try apply zadd_loop_one. Qed.
Lemma one_h_push_true : handler_one (h_push true).
Proof. handler_tac h_push; try apply mset_loop_one; try apply zadd_loop_one. Qed.
Lemma one_h_push_false : handler_one (h_push false).
Proof. handler_tac h_push; try apply mset_loop_one; try apply zadd_loop_one. Qed.
Lemma one_h_pop_true : handler_one (h_pop true).
Proof. handler_tac h_pop; try apply mset_loop_one; try apply zadd_loop_one. Qed.
Lemma one_h_pop_false : handler_one (h_pop false).
Proof. handler_tac h_pop; try apply mset_loop_one; try apply zadd_loop_one. Qed.
Lemma one_h_llen : handler_one (h_llen).
Proof. handler_tac h_llen; try apply mset_loop_one; try apply zadd_loop_one. Qed.
Lemma one_h_lindex : handler_one (h_lindex).
Proof. handler_tac h_lindex; try apply mset_loop_one; try apply zadd_loop_one. Qed.
Lemma one_h_linsert : handler_one (h_linsert).
Proof. handler_tac h_linsert; try apply mset_loop_one; try apply zadd_loop_one. Qed.
Lemma one_h_pushx_true : handler_one (h_pushx true).
Proof. handler_tac h_pushx; try apply mset_loop_one; try apply zadd_loop_one. Qed.
Lemma one_h_pushx_false : handler_one (h_pushx false).
Proof. handler_tac h_pushx; try apply mset_loop_one; try apply zadd_loop_one. Qed.
Lemma one_h_lrem : handler_one (h_lrem).
Proof. handler_tac h_lrem; try apply mset_loop_one; try apply zadd_loop_one. Qed.
Lemma one_h_ltrim : handler_one (h_ltrim).
Proof. handler_tac h_ltrim; try apply mset_loop_one; try apply zadd_loop_one. Qed.
Lemma one_h_lset : handler_one (h_lset).
Proof. handler_tac h_lset; try apply mset_loop_one; try apply zadd_loop_one. Qed.
Lemma one_h_lrange : handler_one (h_lrange).
Proof. handler_tac h_lrange; try apply mset_loop_one; try apply zadd_loop_one. Qed.
Lemma one_h_move_true : handler_one (h_move true).
Proof. handler_tac h_move; try apply mset_loop_one; try apply zadd_loop_one. Qed.
Lemma one_h_move_false : handler_one (h_move false).
Proof. handler_tac h_move; try apply mset_loop_one; try apply zadd_loop_one. Qed.
Lemma one_h_zadd : handler_one (h_zadd).
Proof. handler_tac h_zadd; try apply mset_loop_one; try apply zadd_loop_one. Qed.
Lemma one_h_zcard : handler_one (h_zcard).
Proof. handler_tac h_zcard; try apply mset_loop_one; try apply zadd_loop_one. Qed.
Lemma one_h_zscore : handler_one (h_zscore).
Proof. handler_tac h_zscore; try apply mset_loop_one; try apply zadd_loop_one. Qed.
Lemma one_h_zincrby : handler_one (h_zincrby).
Proof. handler_tac h_zincrby; try apply mset_loop_one; try apply zadd_loop_one. Qed.
Lemma one_h_zrange : handler_one (h_zrange).
Proof. handler_tac h_zrange; try apply mset_loop_one; try apply zadd_loop_one. Qed.
Lemma one_h_zrevrange : handler_one (h_zrevrange).
Proof. handler_tac h_zrevrange; try apply mset_loop_one; try apply zadd_loop_one. Qed.
Lemma one_h_zrangebyscore_false : handler_one (h_zrangebyscore false).
Proof. handler_tac h_zrangebyscore; try apply mset_loop_one; try apply zadd_loop_one. Qed.
Lemma one_h_zrangebyscore_true : handler_one (h_zrangebyscore true).
Proof. handler_tac h_zrangebyscore; try apply mset_loop_one; try apply zadd_loop_one. Qed.
Lemma one_h_zrem : handler_one (h_zrem).
Proof. handler_tac h_zrem; try apply mset_loop_one; try apply zadd_loop_one. Qed.
Lemma one_h_zcount : handler_one (h_zcount).
Proof. handler_tac h_zcount; try apply mset_loop_one; try apply zadd_loop_one. Qed.
Lemma one_h_zremrangebyrank : handler_one (h_zremrangebyrank).
Proof. handler_tac h_zremrangebyrank; try apply mset_loop_one; try apply zadd_loop_one. Qed.
Lemma one_h_zremrangebyscore : handler_one (h_zremrangebyscore).
Proof. handler_tac h_zremrangebyscore; try apply mset_loop_one; try apply zadd_loop_one. Qed.
Lemma one_h_zclear : handler_one (h_zclear).
Proof. handler_tac h_zclear; try apply mset_loop_one; try apply zadd_loop_one. Qed.
Lemma one_h_zstore_false : handler_one (h_zstore false).
Proof. handler_tac h_zstore; try apply mset_loop_one; try apply zadd_loop_one. Qed.
Lemma one_h_zstore_true : handler_one (h_zstore true).
Proof. handler_tac h_zstore; try apply mset_loop_one; try apply zadd_loop_one. Qed.
Lemma one_h_zexists : handler_one (h_zexists).
Proof. handler_tac h_zexists; try apply mset_loop_one; try apply zadd_loop_one. Qed.
Lemma one_h_zscan : handler_one (h_zscan).
Proof. handler_tac h_zscan; try apply mset_loop_one; try apply zadd_loop_one. Qed.
Lemma one_h_dbsize : handler_one (h_dbsize).
Proof. handler_tac h_dbsize; try apply mset_loop_one; try apply zadd_loop_one. Qed.
Lemma one_h_flushdb : handler_one (h_flushdb).
Proof. handler_tac h_flushdb; try apply mset_loop_one; try apply zadd_loop_one. Qed.
Lemma one_h_save : handler_one (h_save).
Proof. handler_tac h_save; try apply mset_loop_one; try apply zadd_loop_one. Qed.
Lemma one_h_ping : handler_one (h_ping).
Proof. handler_tac h_ping; try apply mset_loop_one; try apply zadd_loop_one. Qed.
Lemma one_h_echo : handler_one (h_echo).
Proof. handler_tac h_echo; try apply mset_loop_one; try apply zadd_loop_one. Qed.

Lemma one_h_hmget : handler_one h_hmget.
Proof.
  unfold handler_one, h_hmget, need. intro args. destruct (nargs args <? 2); [exact I|].
  intros now d. apply lift_one. intros vs d'. unfold ret. cbn [bres_one]. apply one_obulks.
Qed.
Lemma one_h_zrank b : handler_one (h_zrank b).
Proof.
  unfold handler_one, h_zrank, need. intro args. destruct (nargs args <? 2); [exact I|].
  intros now d. cbv zeta.
  destruct (opt o_WITHSCORES args >? 1).
  - apply lift_one. intros [rk|] d'; reflexivity.
  - apply lift_one. intros [rk|] d'; [reflexivity|]. destruct b; reflexivity.
Qed.

Lemma one_h_mget : handler_one h_mget.
Proof.
  unfold handler_one, h_mget, need. intro args. destruct (nargs args <? 1); [exact I|].
  intros now d. apply mget_loop_one.
Qed.

(* every entry of the command table writes exactly one value *)
Theorem table_one : forall name h, lookup_cmd name cmd_table = Some h -> handler_one h.
Proof.
  intros name h. unfold cmd_table. cbn [lookup_cmd].
  destruct (bytes_eqb (cn [68;69;76]) name); [intros H; injection H as <-; exact one_h_del |].
  destruct (bytes_eqb (cn [85;78;76;73;78;75]) name); [intros H; injection H as <-; exact one_h_del |].
  destruct (bytes_eqb (cn [69;88;73;83;84;83]) name); [intros H; injection H as <-; exact one_h_exists |].
  destruct (bytes_eqb (cn [69;88;80;73;82;69]) name); [intros H; injection H as <-; exact one_h_expire |].
  destruct (bytes_eqb (cn [69;88;80;73;82;69;65;84]) name); [intros H; injection H as <-; exact one_h_expireat |].
  destruct (bytes_eqb (cn [75;69;89;83]) name); [intros H; injection H as <-; exact one_h_keys |].
  destruct (bytes_eqb (cn [84;84;76]) name); [intros H; injection H as <-; exact one_h_ttl |].
  destruct (bytes_eqb (cn [80;84;84;76]) name); [intros H; injection H as <-; exact one_h_pttl |].
  destruct (bytes_eqb (cn [80;69;82;83;73;83;84]) name); [intros H; injection H as <-; exact one_h_persist |].
  destruct (bytes_eqb (cn [82;69;78;65;77;69]) name); [intros H; injection H as <-; exact one_h_rename |].
  destruct (bytes_eqb (cn [82;69;78;65;77;69;78;88]) name); [intros H; injection H as <-; exact one_h_renamenx |].
  destruct (bytes_eqb (cn [84;89;80;69]) name); [intros H; injection H as <-; exact one_h_type |].
  destruct (bytes_eqb (cn [83;67;65;78]) name); [intros H; injection H as <-; exact one_h_scan |].
  destruct (bytes_eqb (cn [83;69;84]) name); [intros H; injection H as <-; exact one_h_set |].
  destruct (bytes_eqb (cn [77;83;69;84]) name); [intros H; injection H as <-; exact one_h_mset |].
  destruct (bytes_eqb (cn [65;80;80;69;78;68]) name); [intros H; injection H as <-; exact one_h_append |].
  destruct (bytes_eqb (cn [83;69;84;69;88]) name); [intros H; injection H as <-; exact one_h_setex |].
  destruct (bytes_eqb (cn [83;69;84;78;88]) name); [intros H; injection H as <-; exact one_h_setnx |].
  destruct (bytes_eqb (cn [71;69;84]) name); [intros H; injection H as <-; exact one_h_get |].
  destruct (bytes_eqb (cn [71;69;84;83;69;84]) name); [intros H; injection H as <-; exact one_h_getset |].
  destruct (bytes_eqb (cn [77;71;69;84]) name); [intros H; injection H as <-; exact one_h_mget |].
  destruct (bytes_eqb (cn [83;69;84;82;65;78;71;69]) name); [intros H; injection H as <-; exact one_h_setrange |].
  destruct (bytes_eqb (cn [71;69;84;82;65;78;71;69]) name); [intros H; injection H as <-; exact one_h_getrange |].
  destruct (bytes_eqb (cn [83;84;82;76;69;78]) name); [intros H; injection H as <-; exact one_h_strlen |].
  destruct (bytes_eqb (cn [73;78;67;82]) name); [intros H; injection H as <-; exact one_h_incr |].
  destruct (bytes_eqb (cn [73;78;67;82;66;89]) name); [intros H; injection H as <-; exact one_h_incrby |].
  destruct (bytes_eqb (cn [68;69;67;82]) name); [intros H; injection H as <-; exact one_h_decr |].
  destruct (bytes_eqb (cn [68;69;67;82;66;89]) name); [intros H; injection H as <-; exact one_h_decrby |].
  destruct (bytes_eqb (cn [73;78;67;82;66;89;70;76;79;65;84]) name); [intros H; injection H as <-; exact one_h_incrbyfloat |].
  destruct (bytes_eqb (cn [83;69;84;66;73;84]) name); [intros H; injection H as <-; exact one_h_setbit |].
  destruct (bytes_eqb (cn [71;69;84;66;73;84]) name); [intros H; injection H as <-; exact one_h_getbit |].
  destruct (bytes_eqb (cn [66;73;84;67;79;85;78;84]) name); [intros H; injection H as <-; exact one_h_bitcount |].
  destruct (bytes_eqb (cn [83;65;68;68]) name); [intros H; injection H as <-; exact one_h_sadd |].
  destruct (bytes_eqb (cn [83;77;79;86;69]) name); [intros H; injection H as <-; exact one_h_smove |].
  destruct (bytes_eqb (cn [83;83;67;65;78]) name); [intros H; injection H as <-; exact one_h_sscan |].
  destruct (bytes_eqb (cn [83;67;65;82;68]) name); [intros H; injection H as <-; exact one_h_scard |].
  destruct (bytes_eqb (cn [83;80;79;80]) name); [intros H; injection H as <-; exact one_h_spop |].
  destruct (bytes_eqb (cn [83;68;73;70;70]) name); [intros H; injection H as <-; exact one_h_salgebra_api_sdiff |].
  destruct (bytes_eqb (cn [83;68;73;70;70;83;84;79;82;69]) name); [intros H; injection H as <-; exact one_h_sstore_true_api_sdiff |].
  destruct (bytes_eqb (cn [83;73;78;84;69;82]) name); [intros H; injection H as <-; exact one_h_salgebra_api_sinter |].
  destruct (bytes_eqb (cn [83;73;78;84;69;82;83;84;79;82;69]) name); [intros H; injection H as <-; exact one_h_sstore_true_api_sinter |].
  destruct (bytes_eqb (cn [83;85;78;73;79;78]) name); [intros H; injection H as <-; exact one_h_salgebra_api_sunion |].
  destruct (bytes_eqb (cn [83;85;78;73;79;78;83;84;79;82;69]) name); [intros H; injection H as <-; exact one_h_sstore_false_api_sunion |].
  destruct (bytes_eqb (cn [83;73;83;77;69;77;66;69;82]) name); [intros H; injection H as <-; exact one_h_sismember |].
  destruct (bytes_eqb (cn [83;77;69;77;66;69;82;83]) name); [intros H; injection H as <-; exact one_h_smembers |].
  destruct (bytes_eqb (cn [83;82;69;77]) name); [intros H; injection H as <-; exact one_h_srem |].
  destruct (bytes_eqb (cn [72;83;69;84]) name); [intros H; injection H as <-; exact one_h_hset |].
  destruct (bytes_eqb (cn [72;71;69;84]) name); [intros H; injection H as <-; exact one_h_hget |].
  destruct (bytes_eqb (cn [72;68;69;76]) name); [intros H; injection H as <-; exact one_h_hdel |].
  destruct (bytes_eqb (cn [72;76;69;78]) name); [intros H; injection H as <-; exact one_h_hlen |].
  destruct (bytes_eqb (cn [72;75;69;89;83]) name); [intros H; injection H as <-; exact one_h_hkeys |].
  destruct (bytes_eqb (cn [72;69;88;73;83;84;83]) name); [intros H; injection H as <-; exact one_h_hexists |].
  destruct (bytes_eqb (cn [72;71;69;84;65;76;76]) name); [intros H; injection H as <-; exact one_h_hgetall |].
  destruct (bytes_eqb (cn [72;73;78;67;82;66;89]) name); [intros H; injection H as <-; exact one_h_hincrby |].
  destruct (bytes_eqb (cn [72;73;78;67;82;66;89;70;76;79;65;84]) name); [intros H; injection H as <-; exact one_h_hincrbyfloat |].
  destruct (bytes_eqb (cn [72;83;69;84;78;88]) name); [intros H; injection H as <-; exact one_h_hsetnx |].
  destruct (bytes_eqb (cn [72;77;71;69;84]) name); [intros H; injection H as <-; exact one_h_hmget |].
  destruct (bytes_eqb (cn [72;77;83;69;84]) name); [intros H; injection H as <-; exact one_h_hmset |].
  destruct (bytes_eqb (cn [72;67;76;69;65;82]) name); [intros H; injection H as <-; exact one_h_hclear |].
  destruct (bytes_eqb (cn [72;83;84;82;76;69;78]) name); [intros H; injection H as <-; exact one_h_hstrlen |].
  destruct (bytes_eqb (cn [72;83;67;65;78]) name); [intros H; injection H as <-; exact one_h_hscan |].
  destruct (bytes_eqb (cn [72;86;65;76;83]) name); [intros H; injection H as <-; exact one_h_hvals |].
  destruct (bytes_eqb (cn [76;80;85;83;72]) name); [intros H; injection H as <-; exact one_h_push_true |].
  destruct (bytes_eqb (cn [82;80;85;83;72]) name); [intros H; injection H as <-; exact one_h_push_false |].
  destruct (bytes_eqb (cn [76;80;79;80]) name); [intros H; injection H as <-; exact one_h_pop_true |].
  destruct (bytes_eqb (cn [82;80;79;80]) name); [intros H; injection H as <-; exact one_h_pop_false |].
  destruct (bytes_eqb (cn [76;76;69;78]) name); [intros H; injection H as <-; exact one_h_llen |].
  destruct (bytes_eqb (cn [76;73;78;68;69;88]) name); [intros H; injection H as <-; exact one_h_lindex |].
  destruct (bytes_eqb (cn [76;73;78;83;69;82;84]) name); [intros H; injection H as <-; exact one_h_linsert |].
  destruct (bytes_eqb (cn [76;80;85;83;72;88]) name); [intros H; injection H as <-; exact one_h_pushx_true |].
  destruct (bytes_eqb (cn [82;80;85;83;72;88]) name); [intros H; injection H as <-; exact one_h_pushx_false |].
  destruct (bytes_eqb (cn [76;82;69;77]) name); [intros H; injection H as <-; exact one_h_lrem |].
  destruct (bytes_eqb (cn [76;84;82;73;77]) name); [intros H; injection H as <-; exact one_h_ltrim |].
  destruct (bytes_eqb (cn [76;83;69;84]) name); [intros H; injection H as <-; exact one_h_lset |].
  destruct (bytes_eqb (cn [76;82;65;78;71;69]) name); [intros H; injection H as <-; exact one_h_lrange |].
  destruct (bytes_eqb (cn [76;80;79;80;82;80;85;83;72]) name); [intros H; injection H as <-; exact one_h_move_true |].
  destruct (bytes_eqb (cn [82;80;79;80;76;80;85;83;72]) name); [intros H; injection H as <-; exact one_h_move_false |].
  destruct (bytes_eqb (cn [90;65;68;68]) name); [intros H; injection H as <-; exact one_h_zadd |].
  destruct (bytes_eqb (cn [90;67;65;82;68]) name); [intros H; injection H as <-; exact one_h_zcard |].
  destruct (bytes_eqb (cn [90;82;65;78;75]) name); [intros H; injection H as <-; exact (one_h_zrank _) |].
  destruct (bytes_eqb (cn [90;82;69;86;82;65;78;75]) name); [intros H; injection H as <-; exact (one_h_zrank _) |].
  destruct (bytes_eqb (cn [90;83;67;79;82;69]) name); [intros H; injection H as <-; exact one_h_zscore |].
  destruct (bytes_eqb (cn [90;73;78;67;82;66;89]) name); [intros H; injection H as <-; exact one_h_zincrby |].
  destruct (bytes_eqb (cn [90;82;65;78;71;69]) name); [intros H; injection H as <-; exact one_h_zrange |].
  destruct (bytes_eqb (cn [90;82;69;86;82;65;78;71;69]) name); [intros H; injection H as <-; exact one_h_zrevrange |].
  destruct (bytes_eqb (cn [90;82;65;78;71;69;66;89;83;67;79;82;69]) name); [intros H; injection H as <-; exact one_h_zrangebyscore_false |].
  destruct (bytes_eqb (cn [90;82;69;86;82;65;78;71;69;66;89;83;67;79;82;69]) name); [intros H; injection H as <-; exact one_h_zrangebyscore_true |].
  destruct (bytes_eqb (cn [90;82;69;77]) name); [intros H; injection H as <-; exact one_h_zrem |].
  destruct (bytes_eqb (cn [90;67;79;85;78;84]) name); [intros H; injection H as <-; exact one_h_zcount |].
  destruct (bytes_eqb (cn [90;82;69;77;82;65;78;71;69;66;89;82;65;78;75]) name); [intros H; injection H as <-; exact one_h_zremrangebyrank |].
  destruct (bytes_eqb (cn [90;82;69;77;82;65;78;71;69;66;89;83;67;79;82;69]) name); [intros H; injection H as <-; exact one_h_zremrangebyscore |].
  destruct (bytes_eqb (cn [90;67;76;69;65;82]) name); [intros H; injection H as <-; exact one_h_zclear |].
  destruct (bytes_eqb (cn [90;85;78;73;79;78;83;84;79;82;69]) name); [intros H; injection H as <-; exact one_h_zstore_false |].
  destruct (bytes_eqb (cn [90;73;78;84;69;82;83;84;79;82;69]) name); [intros H; injection H as <-; exact one_h_zstore_true |].
  destruct (bytes_eqb (cn [90;69;88;73;83;84;83]) name); [intros H; injection H as <-; exact one_h_zexists |].
  destruct (bytes_eqb (cn [90;83;67;65;78]) name); [intros H; injection H as <-; exact one_h_zscan |].
  destruct (bytes_eqb (cn [68;66;83;73;90;69]) name); [intros H; injection H as <-; exact one_h_dbsize |].
  destruct (bytes_eqb (cn [70;76;85;83;72;68;66]) name); [intros H; injection H as <-; exact one_h_flushdb |].
  destruct (bytes_eqb (cn [70;76;85;83;72;65;76;76]) name); [intros H; injection H as <-; exact one_h_flushdb |].
  destruct (bytes_eqb (cn [83;65;86;69]) name); [intros H; injection H as <-; exact one_h_save |].
  destruct (bytes_eqb (cn [80;73;78;71]) name); [intros H; injection H as <-; exact one_h_ping |].
  destruct (bytes_eqb (cn [69;67;72;79]) name); [intros H; injection H as <-; exact one_h_echo |].
  discriminate.
Qed.

(* ---- connections: every served command writes exactly one value ---------------------- *)
Definition body_one (b : Z -> db -> bres) : Prop := forall now d, bres_one (b now d) = true.
Definition conn_ok (x : conn) : Prop := Forall body_one (c_queue x).
Definition server_ok (s : server) : Prop := Forall (fun p => conn_ok (snd p)) (s_conns s).

Lemma conn_new_ok : conn_ok conn_new.
Proof. constructor. Qed.
Lemma get_conn_ok c s : server_ok s -> conn_ok (get_conn c s).
Proof.
  unfold server_ok, get_conn. intro H. induction (s_conns s) as [|[k x] r IH]; cbn [nm_get]; [apply conn_new_ok|].
  inversion H as [|? ? Hx Hr]; subst. destruct (Nat.eqb c k); [exact Hx|now apply IH].
Qed.
Lemma nm_set_forall {A} (P : nat * A -> Prop) k v m : Forall P m -> P (k, v) -> Forall P (nm_set k v m).
Proof.
  intros H Hv. induction H as [|[k' v'] r Hx Hr IH]; cbn [nm_set]; [now constructor|].
  destruct (Nat.eqb k k'); constructor; auto.
Qed.
Lemma put_conn_ok c x s : server_ok s -> conn_ok x -> server_ok (put_conn c x s).
Proof. unfold server_ok, put_conn. cbn [s_conns]. intros H Hx. now apply nm_set_forall. Qed.
Lemma put_db_ok d s : server_ok s -> server_ok (put_db d s).
Proof. exact (fun H => H). Qed.

Lemma flag_watchers_ok k s : server_ok s -> server_ok (flag_watchers k s).
Proof.
  unfold flag_watchers. intro H. destruct (fm_get k (s_registry s)) as [cs|]; [|exact H].
  revert s H. induction cs as [|c r IH]; intros s H; cbn [fold_left]; [exact H|].
  apply IH. apply put_conn_ok; [exact H|]. exact (get_conn_ok c s H).
Qed.
Lemma apply_signals_ok n0 s : server_ok s -> server_ok (apply_signals n0 s).
Proof.
  unfold apply_signals. intro H. generalize (rev (firstn (length (events (s_db s)) - n0) (events (s_db s)))).
  intro evs. revert s H. induction evs as [|e r IH]; intros s H; cbn [fold_left]; [exact H|].
  apply IH. destruct e; auto using flag_watchers_ok.
Qed.
Lemma watch_keys_ok c ks : forall s, server_ok s -> server_ok (watch_keys c ks s).
Proof.
  induction ks as [|k r IH]; intros s H; cbn [watch_keys]; [exact H|].
  apply IH. pose proof (get_conn_ok c s H) as Hc.
  assert (H1 : server_ok (put_conn c (if fm_mem k (c_watch (get_conn c s)) then get_conn c s
                                       else {| c_prepare := c_prepare (get_conn c s); c_error := c_error (get_conn c s);
                                               c_queue := c_queue (get_conn c s);
                                               c_watch := fst (fm_set k false (c_watch (get_conn c s))) |}) s)).
  { apply put_conn_ok; [exact H|]. destruct (fm_mem k (c_watch (get_conn c s))); exact Hc. }
  exact H1.
Qed.

Lemma run_body_one b now d acts d' : body_one b -> run_body b now d = Some (acts, d') -> one_value acts = true.
Proof.
  intros Hb. unfold run_body. specialize (Hb now d). destruct (b now d); [| |discriminate];
    intro H; inversion H; subst; exact Hb.
Qed.
Lemma run_queue_consume : forall q now d acts d', Forall body_one q -> run_queue q now d = Some (acts, d') ->
  forall p, Z.of_nat (length q) <= p -> consume p acts = Some (p - Z.of_nat (length q)).
Proof.
  induction q as [|b r IH]; intros now d acts d' Hq; cbn [run_queue length].
  - intro H. inversion H; subst. intros p _. cbn. f_equal. lia.
  - inversion Hq as [|? ? Hb Hr]; subst.
    destruct (run_body b now d) as [[a1 d1]|] eqn:E1; [|discriminate].
    destruct (run_queue r now d1) as [[a2 d2]|] eqn:E2; [|discriminate].
    intro H. inversion H; subst. intros p Hp. rewrite Nat2Z.inj_succ in *.
    rewrite consume_app. rewrite (one_then p a1 (run_body_one _ _ _ _ _ Hb E1)) by lia.
    rewrite (IH _ _ _ _ Hr E2) by lia. f_equal. lia.
Qed.

Lemma finish_cmd_ok n0 c s1 a s' acts :
  server_ok s1 -> finish_cmd n0 c (s1, a) = Some (s', acts) -> acts = a /\ server_ok s'.
Proof.
  intro H1. unfold finish_cmd. intro H. inversion H; subst. split; [reflexivity|].
  pose proof (apply_signals_ok n0 s1 H1) as H2. pose proof (get_conn_ok c _ H2) as Hy.
  apply put_conn_ok; [exact H2|]. destruct (has_err acts && _); exact Hy.
Qed.

Ltac fin Hok :=
  let H := fresh "H" in
  intro H; apply finish_cmd_ok in H; [|exact Hok];
  let A := fresh in let B := fresh in destruct H as [A B]; subst; split; [reflexivity|exact B].

Theorem serve_one : forall c name args now s s' acts,
  server_ok s ->
  serve c name args now s = Some (s', acts) -> one_value acts = true /\ server_ok s'.
Proof.
  intros c name args now s s' acts Hs. unfold serve.
  pose proof (get_conn_ok c s Hs) as Hx.
  set (x := get_conn c s) in *.
  set (n0 := length (events (s_db s))).
  cbv zeta.
  destruct (bytes_eqb name n_MULTI).
  { destruct (c_prepare x) eqn:Ep.
    - fin Hs.
    - assert (Hok : server_ok (put_conn c {| c_prepare := true; c_error := c_error x; c_queue := c_queue x; c_watch := c_watch x |} s))
        by (apply put_conn_ok; [exact Hs|exact Hx]).
      fin Hok. }
  destruct (bytes_eqb name n_DISCARD).
  { assert (Hok : server_ok (put_conn c conn_new s)) by (apply put_conn_ok; [exact Hs|exact conn_new_ok]). fin Hok. }
  destruct (bytes_eqb name n_WATCH).
  { destruct (c_prepare x).
    - fin Hs.
    - destruct args as [|a0 ar].
      + fin Hs.
      + pose proof (watch_keys_ok c (a0 :: ar) s Hs) as Hok. fin Hok. }
  destruct (bytes_eqb name n_UNWATCH).
  { destruct (c_prepare x) eqn:Ep; cbn [negb].
    - assert (Hq : conn_ok {| c_prepare := true; c_error := c_error x; c_queue := c_queue x ++ [unwatch_marker]; c_watch := c_watch x |}).
      { unfold conn_ok. cbn [c_queue]. apply Forall_app. split; [exact Hx|]. constructor; [|constructor]. intros ? ?. reflexivity. }
      pose proof (put_conn_ok c _ s Hs Hq) as Hok. fin Hok.
    - assert (Hq : conn_ok {| c_prepare := false; c_error := c_error x; c_queue := c_queue x; c_watch := [] |}) by exact Hx.
      pose proof (put_conn_ok c _ s Hs Hq) as Hok. fin Hok. }
  destruct (bytes_eqb name n_EXEC).
  { pose proof (put_conn_ok c conn_new s Hs conn_new_ok) as Hnew.
    destruct (c_prepare x); cbn [negb]; [|fin Hnew].
    destruct (c_error x); [fin Hnew|].
    destruct (existsb (fun kv => snd kv) (c_watch x)); [fin Hnew|].
    destruct (c_queue x) as [|b q] eqn:Eq; [fin Hnew|].
    destruct (run_queue (b :: q) now (s_db s)) as [[qa d']|] eqn:Er; [|discriminate].
    intro H. inversion H; subst. split.
    - unfold one_value. cbn [consume]. change (1 <=? 0) with false. cbv iota.
      match goal with |- context [if ?n <? 0 then _ else _] =>
        assert (E : (n <? 0) = false) by lia; rewrite E end.
      unfold conn_ok in Hx. rewrite Eq in Hx.
      rewrite (run_queue_consume _ _ _ _ _ Hx Er) by (cbn [length]; lia).
      match goal with |- match ?z with _ => _ end = true => replace z with 0 by (cbn [length]; lia) end.
      reflexivity.
    - apply put_conn_ok; [|exact conn_new_ok]. apply apply_signals_ok. exact Hs. }
  destruct (lookup_cmd name cmd_table) as [h|] eqn:L.
  - pose proof (table_one name h L args) as Hh.
    destruct (h args) as [| |body|].
    + fin Hs.
    + fin Hs.
    + destruct (c_prepare x); cbn [negb].
      * assert (Hq : conn_ok {| c_prepare := true; c_error := c_error x; c_queue := c_queue x ++ [body]; c_watch := c_watch x |}).
        { unfold conn_ok. cbn [c_queue]. apply Forall_app. split; [exact Hx|]. constructor; [exact Hh|constructor]. }
        pose proof (put_conn_ok c _ s Hs Hq) as Hok. fin Hok.
      * destruct (run_body body now (s_db s)) as [[a d']|] eqn:Er; [|discriminate].
        intro H. apply finish_cmd_ok in H; [|exact (put_db_ok d' s Hs)]. destruct H as [A B]. subst.
        split; [exact (run_body_one _ _ _ _ _ Hh Er)|exact B].
    + discriminate.
  - destruct (existsb (bytes_eqb name) unmodelled_names); [discriminate|]. fin Hs.
Qed.
