(* Specification: the documented Redis semantics of the judged commands over an abstract
   keyspace  key -> (value, deadline).  Written from the Redis command reference, not from
   the nodis source.  A command is judged per step: from the abstraction of the state the
   implementation was in, the reply and the abstract post-state must be the ones below. *)
From Nodis Require Import Base.Bytes Model.Num Model.FMap.
From Coq Require Import ZArith NArith List Bool.
Local Open Scope Z_scope.

Inductive sval :=
| SvStr (v : bytes)
| SvList (l : list bytes)
| SvHash (h : fmap bytes)
| SvSet (s : fmap unit)
| SvZSet (z : fmap score).

(* deadline 0 = none *)
Definition sdb := fmap (sval * Z).

Inductive sreply :=
| SInt (z : Z)
| SBulk (b : bytes)
| SNull                         (* null bulk or null array *)
| SArr (l : list sreply)        (* ordered array *)
| SBag (l : list sreply)        (* array whose order is unspecified *)
| SPairs (l : list (sreply * sreply))  (* flat array of pairs, pair order unspecified *)
| SErr
| SOk                           (* +OK *)
| SStatus (s : bytes)           (* other simple string *)
| SIntIn (lo hi : Z)            (* an integer in [lo, hi] (time-dependent answers) *)
| SScan (l : list sreply)       (* a cursor reply: judged by the iteration driver *)
| SAny.                         (* not judged *)

Definition alive (now : Z) (e : sval * Z) : bool := (snd e =? 0) || (now <? snd e).
Definition purge (now : Z) (d : sdb) : sdb := filter (fun kv => alive now (snd kv)) d.

Definition sget (k : bytes) (d : sdb) : option (sval * Z) := fm_get k d.
Definition sput (k : bytes) (v : sval) (e : Z) (d : sdb) : sdb := fst (fm_set k (v, e) d).
Definition sdel (k : bytes) (d : sdb) : sdb := fst (fm_del k d).

Definition nargs (a : list bytes) : Z := Z.of_nat (length a).
Definition bulk_list (l : list bytes) : list sreply := map SBulk l.
Definition obulk (o : option bytes) : sreply := match o with Some b => SBulk b | None => SNull end.

(* Redis index conventions: 0-based, negative from the tail, inclusive, clamped *)
Definition norm_range (len start stop : Z) : option (Z * Z) :=
  let s := if start <? 0 then Z.max 0 (len + start) else start in
  let e := if stop <? 0 then len + stop else stop in
  let e := Z.min e (len - 1) in
  if (s >? e) || (s >=? len) then None else Some (s, e).
Definition slice_range {A} (l : list A) (start stop : Z) : list A :=
  match norm_range (Z.of_nat (length l)) start stop with
  | None => []
  | Some (s, e) => firstn (Z.to_nat (e - s + 1)) (skipn (Z.to_nat s) l)
  end.

(* words *)
Definition wd (l : list Z) : bytes := map (fun z => n2b (Z.to_N z)) l.
Definition W_NX := wd [78;88]. Definition W_XX := wd [88;88]. Definition W_GT := wd [71;84].
Definition W_LT := wd [76;84]. Definition W_GET := wd [71;69;84]. Definition W_KEEPTTL := wd [75;69;69;80;84;84;76].
Definition W_EX := wd [69;88]. Definition W_PX := wd [80;88]. Definition W_EXAT := wd [69;88;65;84].
Definition W_PXAT := wd [80;88;65;84]. Definition W_CH := wd [67;72]. Definition W_INCR := wd [73;78;67;82].
Definition W_WITHSCORES := wd [87;73;84;72;83;67;79;82;69;83]. Definition W_LIMIT := wd [76;73;77;73;84].
Definition W_BYSCORE := wd [66;89;83;67;79;82;69]. Definition W_REV := wd [82;69;86].
Definition W_BEFORE := wd [66;69;70;79;82;69]. Definition W_AFTER := wd [65;70;84;69;82].
Definition W_BIT := wd [66;73;84]. Definition W_BYTE := wd [66;89;84;69].
Definition W_AGGREGATE := wd [65;71;71;82;69;71;65;84;69]. Definition W_WEIGHTS := wd [87;69;73;71;72;84;83].
Definition W_SUM := wd [83;85;77]. Definition W_MIN := wd [77;73;78]. Definition W_MAX := wd [77;65;88].
Definition W_MATCH := wd [77;65;84;67;72]. Definition W_COUNT := wd [67;79;85;78;84]. Definition W_TYPE := wd [84;89;80;69].
Definition is_word (w a : bytes) : bool := bytes_eqb (upper a) w.

Definition type_of (v : sval) : bytes :=
  match v with
  | SvStr _ => wd [115;116;114;105;110;103] | SvList _ => wd [108;105;115;116]
  | SvHash _ => wd [104;97;115;104] | SvSet _ => wd [115;101;116] | SvZSet _ => wd [122;115;101;116]
  end.

(* ---- typed lookups: inl value | inr true (wrong type) | inr false (missing) ---- *)
Inductive look (A : Type) := LVal (a : A) (e : Z) | LMissing | LWrong.
Arguments LVal {A}. Arguments LMissing {A}. Arguments LWrong {A}.
Definition look_str (k : bytes) (d : sdb) : look bytes :=
  match sget k d with Some (SvStr v, e) => LVal v e | Some _ => LWrong | None => LMissing end.
Definition look_list (k : bytes) (d : sdb) : look (list bytes) :=
  match sget k d with Some (SvList v, e) => LVal v e | Some _ => LWrong | None => LMissing end.
Definition look_hash (k : bytes) (d : sdb) : look (fmap bytes) :=
  match sget k d with Some (SvHash v, e) => LVal v e | Some _ => LWrong | None => LMissing end.
Definition look_set (k : bytes) (d : sdb) : look (fmap unit) :=
  match sget k d with Some (SvSet v, e) => LVal v e | Some _ => LWrong | None => LMissing end.
Definition look_zset (k : bytes) (d : sdb) : look (fmap score) :=
  match sget k d with Some (SvZSet v, e) => LVal v e | Some _ => LWrong | None => LMissing end.

(* store a collection; an empty one ceases to exist *)
Definition put_list k (l : list bytes) e d := match l with [] => sdel k d | _ => sput k (SvList l) e d end.
Definition put_hash k (h : fmap bytes) e d := match h with [] => sdel k d | _ => sput k (SvHash h) e d end.
Definition put_set k (s : fmap unit) e d := match s with [] => sdel k d | _ => sput k (SvSet s) e d end.
Definition put_zset k (z : fmap score) e d := match z with [] => sdel k d | _ => sput k (SvZSet z) e d end.

(* ---- sorted-set order -------------------------------------------------------- *)
Definition zitem_ltb (a b : bytes * score) : bool :=
  score_ltb (snd a) (snd b) || (score_eqb (snd a) (snd b) && bytes_ltb (fst a) (fst b)).
Fixpoint zinsert (x : bytes * score) (l : list (bytes * score)) :=
  match l with [] => [x] | y :: r => if zitem_ltb y x then y :: zinsert x r else x :: l end.
Definition zsorted (z : fmap score) : list (bytes * score) := fold_right zinsert [] z.

Fixpoint index_of (m : bytes) (l : list (bytes * score)) (i : Z) : option Z :=
  match l with [] => None | (x, _) :: r => if bytes_eqb x m then Some i else index_of m r (i + 1) end.

Definition in_lo (s lo : score) (ex : bool) : bool := if ex then score_ltb lo s else score_leb lo s.
Definition in_hi (s hi : score) (ex : bool) : bool := if ex then score_ltb s hi else score_leb s hi.

(* a score bound "(x" | "x" *)
Definition parse_bound (a : bytes) : option (score * bool) :=
  match a with
  | b :: r => if byte_eqb b x28 then match parse_score r with FOk s => Some (s, true) | _ => None end
              else match parse_score a with FOk s => Some (s, false) | _ => None end
  | [] => None
  end.
Definition bound_unmodelled (a : bytes) : bool :=
  match a with
  | b :: r => match parse_score (if byte_eqb b x28 then r else a) with FUnmodelled => true | _ => false end
  | [] => false
  end.

Definition items_reply (ws : bool) (its : list (bytes * score)) : sreply :=
  SArr (if ws then flat_map (fun it => [SBulk (fst it); SBulk (format_score (snd it))]) its
        else map (fun it => SBulk (fst it)) its).

(* ---- helpers on argument lists -------------------------------------------------- *)
Fixpoint has_word (w : bytes) (a : list bytes) : bool :=
  match a with [] => false | x :: r => is_word w x || has_word w r end.
Fixpoint after_word (w : bytes) (a : list bytes) : option (list bytes) :=
  match a with [] => None | x :: r => if is_word w x then Some r else after_word w r end.

Fixpoint pairs_of (l : list bytes) : option (list (bytes * bytes)) :=
  match l with
  | [] => Some []
  | a :: b :: r => match pairs_of r with Some p => Some ((a, b) :: p) | None => None end
  | _ => None
  end.

Definition popcount_byte (b : byte) : Z :=
  fold_left (fun acc k => acc + (if N.testbit (b2n b) k then 1 else 0)) [0;1;2;3;4;5;6;7]%N 0.
Definition bit_at (v : bytes) (off : Z) : bool :=
  if (off <? 0) || (off / 8 >=? Z.of_nat (length v)) then false else   (* past the end: 0, decided on Z *)
  match nth_error v (Z.to_nat (off / 8)) with
  | Some b => N.testbit (b2n b) (N.of_nat (Z.to_nat (7 - off mod 8)))
  | None => false
  end.

Definition set_of_list (l : list bytes) : fmap unit :=
  fold_left (fun s m => fst (fm_set m tt s)) l [].

(* outcome of one specification step *)
Inductive sres :=
| SR (d : sdb) (r : sreply)
| SUnjudged.        (* outside the judged domain (see DESIGN.md 2.5) *)

Definition err (d : sdb) : sres := SR d SErr.

(* SET key value [NX|XX] [GET] [EX s|PX ms|EXAT s|PXAT ms|KEEPTTL] *)
Definition spec_set (now : Z) (args : list bytes) (d : sdb) : sres :=
  match args with
  | k :: v :: opts =>
      let nx := has_word W_NX opts in let xx := has_word W_XX opts in
      let get := has_word W_GET opts in let keep := has_word W_KEEPTTL opts in
      let ttl_opt (w : bytes) (mult : Z) (absolute : bool) : option (option Z) :=
          match after_word w opts with
          | None => Some None
          | Some (x :: _) => match parse_int x with
                             | Some n => if (n <=? 0) && negb absolute then None
                                         else Some (Some (if absolute then n * mult else now + n * mult))
                             | None => None
                             end
          | Some [] => None
          end in
      match ttl_opt W_EX 1000 false, ttl_opt W_PX 1 false, ttl_opt W_EXAT 1000 true, ttl_opt W_PXAT 1 true with
      | Some ex, Some px, Some exat, Some pxat =>
          let newexp := match ex, px, exat, pxat with
                        | Some e, _, _, _ => Some e | _, Some e, _, _ => Some e
                        | _, _, Some e, _ => Some e | _, _, _, Some e => Some e
                        | _, _, _, _ => None end in
          if nx && xx then err d
          else
          let cur := sget k d in
          let old_reply := match cur with
                           | Some (SvStr o, _) => Some (SBulk o)
                           | Some _ => None            (* GET on a wrong type: error *)
                           | None => Some SNull end in
          if get && match old_reply with None => true | _ => false end then err d
          else
          let blocked := (nx && match cur with Some _ => true | None => false end)
                         || (xx && match cur with None => true | _ => false end) in
          if blocked then SR d (if get then match old_reply with Some r => r | None => SNull end else SNull)
          else
            let e := match newexp with
                     | Some e => e
                     | None => if keep then match cur with Some (_, e0) => e0 | None => 0 end else 0
                     end in
            let d' := sput k (SvStr v) e d in
            (* an absolute time already in the past deletes the key *)
            let d'' := if negb (e =? 0) && (e <=? now) then sdel k d' else d' in
            SR d'' (if get then match old_reply with Some r => r | None => SNull end else SOk)
      | _, _, _, _ => err d
      end
  | _ => err d
  end.

Definition incr_by (k : bytes) (delta : Z) (d : sdb) : sres :=
  match look_str k d with
  | LWrong => err d
  | LMissing => if in_int64 delta then SR (sput k (SvStr (format_int delta)) 0 d) (SInt delta) else err d
  | LVal v e =>
      match parse_int v with
      | None => err d
      | Some n => if in_int64 (n + delta) then SR (sput k (SvStr (format_int (n + delta))) e d) (SInt (n + delta))
                  else err d
      end
  end.

Fixpoint remove_n (count : Z) (all : bool) (v : bytes) (xs : list bytes) : list bytes * Z :=
  match xs with
  | [] => ([], 0)
  | x :: r => if bytes_eqb x v && (all || (0 <? count))
              then let '(r', n) := remove_n (count - 1) all v r in (r', n + 1)
              else let '(r', n) := remove_n count all v r in (x :: r', n)
  end.
Fixpoint insert_pivot (pivot v : bytes) (before : bool) (xs : list bytes) : option (list bytes) :=
  match xs with
  | [] => None
  | x :: r => if bytes_eqb x pivot then Some (if before then v :: x :: r else x :: v :: r)
              else match insert_pivot pivot v before r with Some r' => Some (x :: r') | None => None end
  end.
Fixpoint replace_nth (xs : list bytes) (i : nat) (v : bytes) : list bytes :=
  match xs, i with
  | [], _ => []
  | _ :: r, O => v :: r
  | x :: r, S k => x :: replace_nth r k v
  end.

(* set algebra over operand keys: missing = empty; a wrong type is an error *)
Fixpoint operand_sets (ks : list bytes) (d : sdb) : option (list (fmap unit)) :=
  match ks with
  | [] => Some []
  | k :: r => match look_set k d, operand_sets r d with
              | LWrong, _ => None
              | _, None => None
              | LMissing, Some ss => Some ([] :: ss)
              | LVal s _, Some ss => Some (s :: ss)
              end
  end.
Definition sset_inter (ss : list (fmap unit)) : list bytes :=
  match ss with
  | [] => []
  | s :: r => filter (fun m => forallb (fun o => fm_mem m o) r) (fm_keys s)
  end.
Definition sset_union (ss : list (fmap unit)) : list bytes :=
  fm_keys (fold_left (fun acc s => fold_left (fun a m => fst (fm_set m tt a)) (fm_keys s) acc) ss []).
Definition sset_diff (ss : list (fmap unit)) : list bytes :=
  match ss with
  | [] => []
  | s :: r => filter (fun m => negb (existsb (fun o => fm_mem m o) r)) (fm_keys s)
  end.

Definition cn (l : list Z) : bytes := wd l.


(* ---- sorted-set commands with option syntax -------------------------------------- *)
Fixpoint zadd_opts (a : list bytes) (nx xx gt lt ch incr : bool) : (list bytes * (bool*bool*bool*bool*bool*bool)) :=
  match a with
  | x :: r =>
      if is_word W_NX x then zadd_opts r true xx gt lt ch incr
      else if is_word W_XX x then zadd_opts r nx true gt lt ch incr
      else if is_word W_GT x then zadd_opts r nx xx true lt ch incr
      else if is_word W_LT x then zadd_opts r nx xx gt true ch incr
      else if is_word W_CH x then zadd_opts r nx xx gt lt true incr
      else if is_word W_INCR x then zadd_opts r nx xx gt lt ch true
      else (a, (nx, xx, gt, lt, ch, incr))
  | [] => ([], (nx, xx, gt, lt, ch, incr))
  end.
Inductive zp := ZPok (l : list (score * bytes)) | ZPerr | ZPunm.
Fixpoint zpairs (a : list bytes) : zp :=
  match a with
  | [] => ZPok []
  | sc :: m :: r =>
      match parse_score sc, zpairs r with
      | FUnmodelled, _ => ZPunm
      | _, ZPunm => ZPunm
      | FErr, _ => ZPerr
      | _, ZPerr => ZPerr
      | FOk s, ZPok l => ZPok ((s, m) :: l)
      end
  | _ => ZPerr
  end.
Definition spec_zadd (args : list bytes) (d : sdb) : sres :=
  match args with
  | k :: rest =>
      let '(prs_args, (nx, xx, gt, lt, ch, incr)) := zadd_opts rest false false false false false false in
      match zpairs prs_args with
      | ZPunm => SUnjudged
      | ZPerr => err d
      | ZPok [] => err d
      | ZPok prs =>
          if (nx && xx) || (nx && (gt || lt)) || (gt && lt) || (incr && negb (Z.of_nat (length prs) =? 1)) then err d
          else
          match look_zset k d with
          | LWrong => err d
          | lk =>
              let '(z, e) := match lk with LVal z e => (z, e) | _ => ([], 0) end in
              let step (acc : option (fmap score * Z * Z * option score)) (p : score * bytes) :=
                  match acc with
                  | None => None
                  | Some (zz, added, changed, _) =>
                      let '(s0, m) := p in
                      match fm_get m zz with
                      | None => if xx then Some (zz, added, changed, None)
                                else Some (fst (fm_set m s0 zz), added + 1, changed, Some s0)
                      | Some old =>
                          if nx then Some (zz, added, changed, None)
                          else
                            match (if incr then score_add old s0 else Some s0) with
                            | None => None
                            | Some s1 =>
                                if (gt && negb (score_ltb old s1)) || (lt && negb (score_ltb s1 old))
                                then Some (zz, added, changed, None)
                                else Some (fst (fm_set m s1 zz), added,
                                           changed + (if score_eqb old s1 then 0 else 1), Some s1)
                            end
                      end
                  end in
              match fold_left step prs (Some (z, 0, 0, None)) with
              | None => SUnjudged
              | Some (z', added, changed, lastscore) =>
                  SR (put_zset k z' e d)
                     (if incr then match lastscore with Some s => SBulk (format_score s) | None => SNull end
                      else SInt (if ch then added + changed else added))
              end
          end
      end
  | [] => err d
  end.

Definition apply_limit {A} (l : list A) (off cnt : Z) : list A :=
  if off <? 0 then []
  else let r := skipn (Z.to_nat (Z.min off (Z.of_nat (length l)))) l in
       if cnt <? 0 then r else firstn (Z.to_nat (Z.min cnt (Z.of_nat (length r)))) r.

(* options after the three positional arguments of the range commands *)
Fixpoint range_opts (a : list bytes) (byscore rev ws : bool) (lim : option (Z * Z))
  : option (bool * bool * bool * option (Z * Z)) :=
  match a with
  | [] => Some (byscore, rev, ws, lim)
  | x :: r =>
      if is_word W_BYSCORE x then range_opts r true rev ws lim
      else if is_word W_REV x then range_opts r byscore true ws lim
      else if is_word W_WITHSCORES x then range_opts r byscore rev true lim
      else if is_word W_LIMIT x then
        match r with
        | o :: c :: r' => match parse_int o, parse_int c with
                          | Some ov, Some cv => range_opts r' byscore rev ws (Some (ov, cv))
                          | _, _ => None
                          end
        | _ => None
        end
      else None
  end.

Definition spec_zrange_gen (k lo_arg hi_arg : bytes) (byscore rev ws : bool) (lim : option (Z * Z)) (d : sdb) : sres :=
  match look_zset k d with
  | LWrong => err d
  | lk =>
      let z := match lk with LVal z _ => z | _ => [] end in
      let sorted := zsorted z in
      if byscore then
        if bound_unmodelled lo_arg || bound_unmodelled hi_arg then SUnjudged else
        match parse_bound lo_arg, parse_bound hi_arg with
        | Some (lo, lx), Some (hi, hx) =>
            let sel := filter (fun it => in_lo (snd it) lo lx && in_hi (snd it) hi hx) sorted in
            let sel := if rev then List.rev sel else sel in
            let sel := match lim with Some (o, c) => apply_limit sel o c | None => sel end in
            SR d (items_reply ws sel)
        | _, _ => err d
        end
      else
        match lim with
        | Some _ => err d
        | None =>
            match parse_int lo_arg, parse_int hi_arg with
            | Some s, Some e => SR d (items_reply ws (slice_range (if rev then List.rev sorted else sorted) s e))
            | _, _ => err d
            end
        end
  end.

(* operands of ZUNIONSTORE/ZINTERSTORE: sorted sets, plain sets (score 1) or missing *)
Fixpoint zoperands (ks : list bytes) (d : sdb) : option (list (fmap score)) :=
  match ks with
  | [] => Some []
  | k :: r =>
      match sget k d, zoperands r d with
      | _, None => None
      | None, Some l => Some ([] :: l)
      | Some (SvZSet z, _), Some l => Some (z :: l)
      | Some (SvSet s, _), Some l => Some (map (fun m => (fst m, SFin 1)) s :: l)
      | Some _, _ => None
      end
  end.
Definition zagg (agg : Z) (a b : score) : option score :=
  if agg =? 0 then score_add a b else if agg =? 1 then Some (if score_ltb b a then b else a)
  else Some (if score_ltb a b then b else a).
Definition zunion_all (agg : Z) (zs : list (fmap score)) : option (fmap score) :=
  fold_left (fun acc z =>
     fold_left (fun acc2 it =>
        match acc2 with
        | None => None
        | Some m => match fm_get (fst it) m with
                    | None => Some (fst (fm_set (fst it) (snd it) m))
                    | Some old => match zagg agg old (snd it) with
                                  | Some r => Some (fst (fm_set (fst it) r m))
                                  | None => None
                                  end
                    end
        end) z acc) zs (Some []).
Definition zinter_all (agg : Z) (zs : list (fmap score)) : option (fmap score) :=
  match zs with
  | [] => Some []
  | z0 :: r =>
      fold_left (fun acc it =>
         match acc with
         | None => None
         | Some m =>
             if forallb (fun o => fm_mem (fst it) o) r then
               match fold_left (fun sc o => match sc, fm_get (fst it) o with
                                            | Some s, Some t => zagg agg s t
                                            | _, _ => None end) r (Some (snd it)) with
               | Some s => Some (fst (fm_set (fst it) s m))
               | None => None
               end
             else Some m
         end) z0 (Some [])
  end.
Definition spec_zstore (inter : bool) (args : list bytes) (d : sdb) : sres :=
  match args with
  | dst :: nk :: rest =>
      match parse_int nk with
      | None => err d
      | Some n =>
          if (n <=? 0) || (n >? Z.of_nat (length rest)) then err d else
          let ks := firstn (Z.to_nat n) rest in
          let opts := skipn (Z.to_nat n) rest in
          if has_word W_WEIGHTS opts then SUnjudged else
          let aggr := match opts with
                      | [] => Some 0
                      | [w; x] => if is_word W_AGGREGATE w then
                                    (if is_word W_SUM x then Some 0 else if is_word W_MIN x then Some 1
                                     else if is_word W_MAX x then Some 2 else None)
                                  else None
                      | _ => None
                      end in
          match aggr with
          | None => err d
          | Some agg =>
              match zoperands ks d with
              | None => err d
              | Some zs =>
                  match (if inter then zinter_all agg zs else zunion_all agg zs) with
                  | None => SUnjudged
                  | Some res => SR (put_zset dst res 0 (sdel dst d)) (SInt (Z.of_nat (length res)))
                  end
              end
          end
      end
  | _ => err d
  end.

Definition spec_step2 (now : Z) (name : bytes) (args : list bytes) (d : sdb) : sres :=
  let is l := bytes_eqb name (wd l) in
  let n := nargs args in
  let a i := nth i args [] in
  if is [90;65;68;68] then (if n <? 3 then err d else spec_zadd args d)
  else if is [90;82;65;78;71;69] then (* ZRANGE *)
    if n <? 3 then err d else
    match range_opts (skipn 3 args) false false false None with
    | None => err d
    | Some (bs, rev, ws, lim) =>
        if bs && rev then spec_zrange_gen (a 0%nat) (a 2%nat) (a 1%nat) bs rev ws lim d
        else spec_zrange_gen (a 0%nat) (a 1%nat) (a 2%nat) bs rev ws lim d
    end
  else if is [90;82;69;86;82;65;78;71;69] then (* ZREVRANGE key start stop [WITHSCORES] *)
    if n <? 3 then err d else
    match range_opts (skipn 3 args) false false false None with
    | Some (false, false, ws, None) => spec_zrange_gen (a 0%nat) (a 1%nat) (a 2%nat) false true ws None d
    | _ => err d
    end
  else if is [90;82;65;78;71;69;66;89;83;67;79;82;69] then (* ZRANGEBYSCORE key min max *)
    if n <? 3 then err d else
    match range_opts (skipn 3 args) false false false None with
    | Some (false, false, ws, lim) => spec_zrange_gen (a 0%nat) (a 1%nat) (a 2%nat) true false ws lim d
    | _ => err d
    end
  else if is [90;82;69;86;82;65;78;71;69;66;89;83;67;79;82;69] then (* ZREVRANGEBYSCORE key max min *)
    if n <? 3 then err d else
    match range_opts (skipn 3 args) false false false None with
    | Some (false, false, ws, lim) => spec_zrange_gen (a 0%nat) (a 2%nat) (a 1%nat) true true ws lim d
    | _ => err d
    end
  else if is [90;85;78;73;79;78;83;84;79;82;69] then spec_zstore false args d
  else if is [90;73;78;84;69;82;83;84;79;82;69] then spec_zstore true args d
  (* nodis extensions, specified by analogy with DEL / membership *)
  else if is [72;67;76;69;65;82] || is [90;67;76;69;65;82] then
    if negb (n =? 1) then err d else SR (sdel (a 0%nat) d) SOk
  else if is [90;69;88;73;83;84;83] then
    if negb (n =? 2) then err d else
    match look_zset (a 0%nat) d with
    | LWrong => err d | LMissing => SR d (SInt 0)
    | LVal z _ => SR d (SInt (if fm_mem (a 1%nat) z then 1 else 0))
    end
  else if is [83;65;86;69] then SR d SOk
  else if is [80;73;78;71] then SR d SAny
  else if is [69;67;72;79] then (if negb (n =? 1) then err d else SR d (SBulk (a 0%nat)))
  (* cursor commands are judged by whole iterations (C19), not per step *)
  else if is [83;67;65;78] || is [83;83;67;65;78] || is [72;83;67;65;78] || is [90;83;67;65;78] then SR d SAny
  else SUnjudged.

(* the dispatcher: name is upper-case *)
Definition spec_step (now : Z) (name : bytes) (args : list bytes) (oracle : list bytes) (d0 : sdb) : sres :=
  let d := purge now d0 in
  let is l := bytes_eqb name (cn l) in
  let n := nargs args in
  let a i := nth i args [] in
  (* ------------------------------ keyspace -------------------------------- *)
  if is [68;69;76] || is [85;78;76;73;78;75] then (* DEL UNLINK *)
    if n <? 1 then err d else
    let '(d', c) := fold_left (fun (acc : sdb * Z) k =>
                       match sget k (fst acc) with Some _ => (sdel k (fst acc), snd acc + 1) | None => acc end)
                     args (d, 0) in SR d' (SInt c)
  else if is [69;88;73;83;84;83] then (* EXISTS *)
    if n <? 1 then err d else
    SR d (SInt (Z.of_nat (length (filter (fun k => match sget k d with Some _ => true | None => false end) args))))
  else if is [84;89;80;69] then (* TYPE *)
    if negb (n =? 1) then err d else
    SR d (SStatus (match sget (a 0%nat) d with Some (v, _) => type_of v | None => wd [110;111;110;101] end))
  else if is [75;69;89;83] then (* KEYS *)
    if negb (n =? 1) then err d else
    if negb (pattern_modelled (a 0%nat)) then SUnjudged else
    SR d (SBag (bulk_list (filter (glob_match (a 0%nat)) (fm_keys d))))
  else if is [68;66;83;73;90;69] then SR d SAny (* DBSIZE: may count logically expired keys *)
  else if is [70;76;85;83;72;68;66] || is [70;76;85;83;72;65;76;76] then SR [] SOk
  else if is [82;69;78;65;77;69] then (* RENAME *)
    if negb (n =? 2) then err d else
    match sget (a 0%nat) d with
    | None => err d
    | Some (v, e) => SR (sput (a 1%nat) v e (sdel (a 0%nat) d)) SOk
    end
  else if is [82;69;78;65;77;69;78;88] then (* RENAMENX *)
    if negb (n =? 2) then err d else
    match sget (a 0%nat) d with
    | None => err d
    | Some (v, e) =>
        match sget (a 1%nat) d with
        | Some _ => SR d (SInt 0)
        | None => SR (sput (a 1%nat) v e (sdel (a 0%nat) d)) (SInt 1)
        end
    end
  else if is [84;84;76] || is [80;84;84;76] then (* TTL PTTL *)
    if negb (n =? 1) then err d else
    match sget (a 0%nat) d with
    | None => SR d (SInt (-2))
    | Some (_, e) => if e =? 0 then SR d (SInt (-1))
                     else if is [80;84;84;76] then SR d (SInt (e - now))
                     else (* seconds, rounding mode not fixed by the property *)
                       SR d (SIntIn ((e - now) / 1000) ((e - now + 999) / 1000))
    end
  else if is [80;69;82;83;73;83;84] then (* PERSIST *)
    if negb (n =? 1) then err d else
    match sget (a 0%nat) d with
    | Some (v, e) => if e =? 0 then SR d (SInt 0) else SR (sput (a 0%nat) v 0 d) (SInt 1)
    | None => SR d (SInt 0)
    end
  else if is [69;88;80;73;82;69] || is [69;88;80;73;82;69;65;84] then (* EXPIRE EXPIREAT key n [NX|XX|GT|LT] *)
    if (n <? 2) || (n >? 3) then err d else
    match parse_int (a 1%nat) with
    | None => err d
    | Some v =>
        let target := if is [69;88;80;73;82;69] then now + v * 1000 else v * 1000 in
        let flag := if n =? 3 then upper (a 2%nat) else [] in
        if (n =? 3) && negb (existsb (bytes_eqb flag) [W_NX; W_XX; W_GT; W_LT]) then err d else
        match sget (a 0%nat) d with
        | None => SR d (SInt 0)
        | Some (val, e) =>
            (* no deadline counts as infinitely far for GT/LT *)
            let okc := if bytes_eqb flag W_NX then e =? 0
                       else if bytes_eqb flag W_XX then negb (e =? 0)
                       else if bytes_eqb flag W_GT then negb (e =? 0) && (target >? e)
                       else if bytes_eqb flag W_LT then (e =? 0) || (target <? e)
                       else true in
            if negb okc then SR d (SInt 0)
            else if target <=? now then SR (sdel (a 0%nat) d) (SInt 1)
            else SR (sput (a 0%nat) val target d) (SInt 1)
        end
    end
  (* ------------------------------ strings --------------------------------- *)
  else if is [83;69;84] then spec_set now args d
  else if is [71;69;84] then
    if negb (n =? 1) then err d else
    match look_str (a 0%nat) d with LVal v _ => SR d (SBulk v) | LMissing => SR d SNull | LWrong => err d end
  else if is [71;69;84;83;69;84] then (* GETSET *)
    if negb (n =? 2) then err d else
    match look_str (a 0%nat) d with
    | LVal v _ => SR (sput (a 0%nat) (SvStr (a 1%nat)) 0 d) (SBulk v)
    | LMissing => SR (sput (a 0%nat) (SvStr (a 1%nat)) 0 d) SNull
    | LWrong => err d
    end
  else if is [83;69;84;78;88] then (* SETNX *)
    if negb (n =? 2) then err d else
    match sget (a 0%nat) d with
    | Some _ => SR d (SInt 0)
    | None => SR (sput (a 0%nat) (SvStr (a 1%nat)) 0 d) (SInt 1)
    end
  else if is [83;69;84;69;88] then (* SETEX key seconds value *)
    if negb (n =? 3) then err d else
    match parse_int (a 1%nat) with
    | Some s => if s <=? 0 then err d else SR (sput (a 0%nat) (SvStr (a 2%nat)) (now + s * 1000) d) SOk
    | None => err d
    end
  else if is [77;83;69;84] then (* MSET *)
    match pairs_of args with
    | Some ((k, v) :: r) => SR (fold_left (fun acc kv => sput (fst kv) (SvStr (snd kv)) 0 acc) ((k, v) :: r) d) SOk
    | _ => err d
    end
  else if is [77;71;69;84] then (* MGET *)
    if n <? 1 then err d else
    SR d (SArr (map (fun k => match look_str k d with LVal v _ => SBulk v | _ => SNull end) args))
  else if is [65;80;80;69;78;68] then (* APPEND *)
    if negb (n =? 2) then err d else
    match look_str (a 0%nat) d with
    | LVal v e => SR (sput (a 0%nat) (SvStr (v ++ a 1%nat)) e d) (SInt (Z.of_nat (length (v ++ a 1%nat))))
    | LMissing => SR (sput (a 0%nat) (SvStr (a 1%nat)) 0 d) (SInt (Z.of_nat (length (a 1%nat))))
    | LWrong => err d
    end
  else if is [83;84;82;76;69;78] then (* STRLEN *)
    if negb (n =? 1) then err d else
    match look_str (a 0%nat) d with LVal v _ => SR d (SInt (Z.of_nat (length v))) | LMissing => SR d (SInt 0) | LWrong => err d end
  else if is [71;69;84;82;65;78;71;69] then (* GETRANGE *)
    if negb (n =? 3) then err d else
    match parse_int (a 1%nat), parse_int (a 2%nat) with
    | Some s, Some e =>
        match look_str (a 0%nat) d with
        | LVal v _ => SR d (SBulk (slice_range v s e))
        | LMissing => SR d (SBulk [])
        | LWrong => err d
        end
    | _, _ => err d
    end
  else if is [83;69;84;82;65;78;71;69] then (* SETRANGE key offset value *)
    if negb (n =? 3) then err d else
    match parse_int (a 1%nat) with
    | None => err d
    | Some off =>
        if off <? 0 then err d else if off >? 1048576 then SUnjudged else
        match look_str (a 0%nat) d with
        | LWrong => err d
        | lk =>
            let '(v, e, exists_) := match lk with LVal v e => (v, e, true) | _ => ([], 0, false) end in
            let data := a 2%nat in
            match data with
            | [] => SR d (SInt (Z.of_nat (length v)))     (* nothing to write: no change *)
            | _ =>
                let padded := v ++ repeat x00 (Z.to_nat (off + Z.of_nat (length data)) - length v) in
                let v' := firstn (Z.to_nat off) padded ++ data ++ skipn (Z.to_nat off + length data) padded in
                SR (sput (a 0%nat) (SvStr v') e d) (SInt (Z.of_nat (length v')))
            end
        end
    end
  else if is [73;78;67;82] then if negb (n =? 1) then err d else incr_by (a 0%nat) 1 d
  else if is [68;69;67;82] then if negb (n =? 1) then err d else incr_by (a 0%nat) (-1) d
  else if is [73;78;67;82;66;89] || is [68;69;67;82;66;89] then
    if negb (n =? 2) then err d else
    match parse_int (a 1%nat) with
    | None => err d
    | Some v => if is [73;78;67;82;66;89] then incr_by (a 0%nat) v d
                else if v =? - two63 then err d else incr_by (a 0%nat) (- v) d
    end
  else if is [73;78;67;82;66;89;70;76;79;65;84] then (* INCRBYFLOAT *)
    if negb (n =? 2) then err d else
    match parse_score (a 1%nat) with
    | FUnmodelled => SUnjudged
    | FErr => err d
    | FOk delta =>
        match delta with SFin _ =>
          match look_str (a 0%nat) d with
          | LWrong => err d
          | LMissing => SR (sput (a 0%nat) (SvStr (format_score delta)) 0 d) (SBulk (format_score delta))
          | LVal v e =>
              match parse_score v with
              | FOk (SFin x) => match score_add (SFin x) delta with
                                | Some r => SR (sput (a 0%nat) (SvStr (format_score r)) e d) (SBulk (format_score r))
                                | None => SUnjudged
                                end
              | FOk _ => err d
              | FErr => err d
              | FUnmodelled => SUnjudged
              end
          end
        | _ => err d   (* increment would produce NaN or Infinity *)
        end
    end
  else if is [83;69;84;66;73;84] then (* SETBIT key offset 0|1 *)
    if negb (n =? 3) then err d else
    match parse_int (a 1%nat), parse_int (a 2%nat) with
    | Some off, Some b =>
        if (off <? 0) || negb ((b =? 0) || (b =? 1)) then err d else if off >? 8388608 then SUnjudged else
        match look_str (a 0%nat) d with
        | LWrong => err d
        | lk =>
            let '(v, e) := match lk with LVal v e => (v, e) | _ => ([], 0) end in
            let old := bit_at v off in
            let padded := v ++ repeat x00 (Z.to_nat (off / 8 + 1) - length v) in
            let byte := nth (Z.to_nat (off / 8)) padded x00 in
            let bitn := N.of_nat (Z.to_nat (7 - off mod 8)) in
            let nb := n2b (if b =? 1 then N.setbit (b2n byte) bitn else N.clearbit (b2n byte) bitn) in
            let v' := firstn (Z.to_nat (off / 8)) padded ++ [nb] ++ skipn (S (Z.to_nat (off / 8))) padded in
            SR (sput (a 0%nat) (SvStr v') e d) (SInt (if old then 1 else 0))
        end
    | _, _ => err d
    end
  else if is [71;69;84;66;73;84] then (* GETBIT *)
    if negb (n =? 2) then err d else
    match parse_int (a 1%nat) with
    | Some off => if off <? 0 then err d else
        match look_str (a 0%nat) d with
        | LVal v _ => SR d (SInt (if bit_at v off then 1 else 0))
        | LMissing => SR d (SInt 0)
        | LWrong => err d
        end
    | None => err d
    end
  else if is [66;73;84;67;79;85;78;84] then (* BITCOUNT key [start end [BYTE|BIT]] *)
    if (n =? 2) || (n >? 4) || (n <? 1) then err d else
    match look_str (a 0%nat) d with
    | LWrong => err d
    | lk =>
        let v := match lk with LVal v _ => v | _ => [] end in
        if n =? 1 then SR d (SInt (fold_left (fun acc b => acc + popcount_byte b) v 0))
        else match parse_int (a 1%nat), parse_int (a 2%nat) with
             | Some s, Some e =>
                 let bitmode := (n =? 4) && is_word W_BIT (a 3%nat) in
                 if (n =? 4) && negb (is_word W_BIT (a 3%nat) || is_word W_BYTE (a 3%nat)) then err d
                 else if bitmode then
                   let bits := flat_map (fun b => map (fun k => N.testbit (b2n b) k) [7;6;5;4;3;2;1;0]%N) v in
                   SR d (SInt (Z.of_nat (length (filter (fun x => x) (slice_range bits s e)))))
                 else SR d (SInt (fold_left (fun acc b => acc + popcount_byte b) (slice_range v s e) 0))
             | _, _ => err d
             end
    end
  (* -------------------------------- lists ---------------------------------- *)
  else if is [76;80;85;83;72] || is [82;80;85;83;72] then (* LPUSH RPUSH *)
    if n <? 2 then err d else
    match look_list (a 0%nat) d with
    | LWrong => err d
    | lk => let '(l, e) := match lk with LVal l e => (l, e) | _ => ([], 0) end in
            let l' := if is [76;80;85;83;72] then rev (tl args) ++ l else l ++ tl args in
            SR (sput (a 0%nat) (SvList l') e d) (SInt (Z.of_nat (length l')))
    end
  else if is [76;80;85;83;72;88] || is [82;80;85;83;72;88] then (* LPUSHX RPUSHX *)
    if n <? 2 then err d else
    match look_list (a 0%nat) d with
    | LWrong => err d
    | LMissing => SR d (SInt 0)
    | LVal l e => let l' := if is [76;80;85;83;72;88] then rev (tl args) ++ l else l ++ tl args in
                  SR (sput (a 0%nat) (SvList l') e d) (SInt (Z.of_nat (length l')))
    end
  else if is [76;80;79;80] || is [82;80;79;80] then (* LPOP RPOP key [count] *)
    if (n <? 1) || (n >? 2) then err d else
    let left := is [76;80;79;80] in
    match (if n =? 2 then parse_int (a 1%nat) else Some 1) with
    | None => err d
    | Some c =>
        if c <? 0 then err d else
        match look_list (a 0%nat) d with
        | LWrong => err d
        | LMissing => SR d SNull
        | LVal l e =>
            let k := Z.to_nat (Z.min c (Z.of_nat (length l))) in
            let popped := if left then firstn k l else rev (skipn (length l - k) l) in
            let rest := if left then skipn k l else firstn (length l - k) l in
            SR (put_list (a 0%nat) rest e d)
               (if n =? 1 then match popped with x :: _ => SBulk x | [] => SNull end
                else SArr (bulk_list popped))
        end
    end
  else if is [76;76;69;78] then
    if negb (n =? 1) then err d else
    match look_list (a 0%nat) d with LVal l _ => SR d (SInt (Z.of_nat (length l))) | LMissing => SR d (SInt 0) | LWrong => err d end
  else if is [76;73;78;68;69;88] then (* LINDEX *)
    if negb (n =? 2) then err d else
    match parse_int (a 1%nat) with
    | None => err d
    | Some i =>
        match look_list (a 0%nat) d with
        | LWrong => err d
        | LMissing => SR d SNull
        | LVal l _ => let j := if i <? 0 then Z.of_nat (length l) + i else i in
                      (* an index past the end is nil; decided on Z so that a hostile index (2^62) is never
                         turned into a unary numeral *)
                      SR d (if (j <? 0) || (j >=? Z.of_nat (length l)) then SNull else obulk (nth_error l (Z.to_nat j)))
        end
    end
  else if is [76;82;65;78;71;69] then (* LRANGE *)
    if negb (n =? 3) then err d else
    match parse_int (a 1%nat), parse_int (a 2%nat) with
    | Some s, Some e =>
        match look_list (a 0%nat) d with
        | LWrong => err d
        | LMissing => SR d (SArr [])
        | LVal l _ => SR d (SArr (bulk_list (slice_range l s e)))
        end
    | _, _ => err d
    end
  else if is [76;73;78;83;69;82;84] then (* LINSERT key BEFORE|AFTER pivot value *)
    if negb (n =? 4) then err d else
    if negb (is_word W_BEFORE (a 1%nat) || is_word W_AFTER (a 1%nat)) then err d else
    match look_list (a 0%nat) d with
    | LWrong => err d
    | LMissing => SR d (SInt 0)
    | LVal l e => match insert_pivot (a 2%nat) (a 3%nat) (is_word W_BEFORE (a 1%nat)) l with
                  | Some l' => SR (sput (a 0%nat) (SvList l') e d) (SInt (Z.of_nat (length l')))
                  | None => SR d (SInt (-1))
                  end
    end
  else if is [76;83;69;84] then (* LSET *)
    if negb (n =? 3) then err d else
    match parse_int (a 1%nat) with
    | None => err d
    | Some i =>
        match look_list (a 0%nat) d with
        | LWrong => err d
        | LMissing => err d
        | LVal l e => let j := if i <? 0 then Z.of_nat (length l) + i else i in
                      if (j <? 0) || (j >=? Z.of_nat (length l)) then err d
                      else SR (sput (a 0%nat) (SvList (replace_nth l (Z.to_nat j) (a 2%nat))) e d) SOk
        end
    end
  else if is [76;82;69;77] then (* LREM key count value *)
    if negb (n =? 3) then err d else
    match parse_int (a 1%nat) with
    | None => err d
    | Some c =>
        match look_list (a 0%nat) d with
        | LWrong => err d
        | LMissing => SR d (SInt 0)
        | LVal l e =>
            let '(l', k) := if c >? 0 then remove_n c false (a 2%nat) l
                            else if c <? 0 then let '(r, k) := remove_n (- c) false (a 2%nat) (rev l) in (rev r, k)
                            else remove_n 0 true (a 2%nat) l in
            SR (put_list (a 0%nat) l' e d) (SInt k)
        end
    end
  else if is [76;84;82;73;77] then (* LTRIM *)
    if negb (n =? 3) then err d else
    match parse_int (a 1%nat), parse_int (a 2%nat) with
    | Some s, Some e0 =>
        match look_list (a 0%nat) d with
        | LWrong => err d
        | LMissing => SR d SOk
        | LVal l e => SR (put_list (a 0%nat) (slice_range l s e0) e d) SOk
        end
    | _, _ => err d
    end
  else if is [82;80;79;80;76;80;85;83;72] || is [76;80;79;80;82;80;85;83;72] then (* RPOPLPUSH / LPOPRPUSH src dst *)
    if negb (n =? 2) then err d else
    let rl := is [82;80;79;80;76;80;85;83;72] in
    match look_list (a 0%nat) d with
    | LWrong => err d
    | LMissing => SR d SNull
    | LVal l e =>
        match look_list (a 1%nat) d with
        | LWrong => err d
        | _ =>
            let x := if rl then last l [] else hd [] l in
            let rest := if rl then removelast l else tl l in
            let d1 := put_list (a 0%nat) rest e d in
            let '(dl, de) := match look_list (a 1%nat) d1 with LVal dl de => (dl, de) | _ => ([], 0) end in
            let dl' := if rl then x :: dl else dl ++ [x] in
            SR (sput (a 1%nat) (SvList dl') de d1) (SBulk x)
        end
    end
  (* -------------------------------- hashes --------------------------------- *)
  else if is [72;83;69;84] || is [72;77;83;69;84] then (* HSET HMSET key f v [f v ...] *)
    if n <? 3 then err d else
    match pairs_of (tl args) with
    | None => err d
    | Some prs =>
        match look_hash (a 0%nat) d with
        | LWrong => err d
        | lk => let '(h, e) := match lk with LVal h e => (h, e) | _ => ([], 0) end in
                let '(h', added) := fold_left (fun (acc : fmap bytes * Z) fv =>
                                        let '(h1, rep) := fm_set (fst fv) (snd fv) (fst acc) in
                                        (h1, snd acc + (if rep then 0 else 1))) prs (h, 0) in
                SR (sput (a 0%nat) (SvHash h') e d) (if is [72;83;69;84] then SInt added else SOk)
        end
    end
  else if is [72;83;69;84;78;88] then (* HSETNX *)
    if negb (n =? 3) then err d else
    match look_hash (a 0%nat) d with
    | LWrong => err d
    | lk => let '(h, e) := match lk with LVal h e => (h, e) | _ => ([], 0) end in
            if fm_mem (a 1%nat) h then SR d (SInt 0)
            else SR (sput (a 0%nat) (SvHash (fst (fm_set (a 1%nat) (a 2%nat) h))) e d) (SInt 1)
    end
  else if is [72;71;69;84] then
    if negb (n =? 2) then err d else
    match look_hash (a 0%nat) d with
    | LWrong => err d | LMissing => SR d SNull
    | LVal h _ => SR d (obulk (fm_get (a 1%nat) h))
    end
  else if is [72;77;71;69;84] then
    if n <? 2 then err d else
    match look_hash (a 0%nat) d with
    | LWrong => err d
    | lk => let h := match lk with LVal h _ => h | _ => [] end in
            SR d (SArr (map (fun f => obulk (fm_get f h)) (tl args)))
    end
  else if is [72;71;69;84;65;76;76] then
    if negb (n =? 1) then err d else
    match look_hash (a 0%nat) d with
    | LWrong => err d
    | lk => let h := match lk with LVal h _ => h | _ => [] end in
            SR d (SPairs (map (fun fv => (SBulk (fst fv), SBulk (snd fv))) h))
    end
  else if is [72;75;69;89;83] || is [72;86;65;76;83] then
    if negb (n =? 1) then err d else
    match look_hash (a 0%nat) d with
    | LWrong => err d
    | lk => let h := match lk with LVal h _ => h | _ => [] end in
            SR d (SBag (bulk_list (if is [72;75;69;89;83] then fm_keys h else fm_vals h)))
    end
  else if is [72;68;69;76] then
    if n <? 2 then err d else
    match look_hash (a 0%nat) d with
    | LWrong => err d | LMissing => SR d (SInt 0)
    | LVal h e => let '(h', c) := fold_left (fun (acc : fmap bytes * Z) f =>
                                     let '(h1, del) := fm_del f (fst acc) in (h1, snd acc + (if del then 1 else 0)))
                                   (tl args) (h, 0) in
                  SR (put_hash (a 0%nat) h' e d) (SInt c)
    end
  else if is [72;76;69;78] then
    if negb (n =? 1) then err d else
    match look_hash (a 0%nat) d with LWrong => err d | LMissing => SR d (SInt 0) | LVal h _ => SR d (SInt (Z.of_nat (length h))) end
  else if is [72;69;88;73;83;84;83] then
    if negb (n =? 2) then err d else
    match look_hash (a 0%nat) d with
    | LWrong => err d | LMissing => SR d (SInt 0)
    | LVal h _ => SR d (SInt (if fm_mem (a 1%nat) h then 1 else 0))
    end
  else if is [72;83;84;82;76;69;78] then
    if negb (n =? 2) then err d else
    match look_hash (a 0%nat) d with
    | LWrong => err d | LMissing => SR d (SInt 0)
    | LVal h _ => SR d (SInt (match fm_get (a 1%nat) h with Some v => Z.of_nat (length v) | None => 0 end))
    end
  else if is [72;73;78;67;82;66;89] then (* HINCRBY *)
    if negb (n =? 3) then err d else
    match parse_int (a 2%nat) with
    | None => err d
    | Some delta =>
        match look_hash (a 0%nat) d with
        | LWrong => err d
        | lk => let '(h, e) := match lk with LVal h e => (h, e) | _ => ([], 0) end in
                match (match fm_get (a 1%nat) h with Some v => parse_int v | None => Some 0 end) with
                | None => err d
                | Some cur => if in_int64 (cur + delta)
                              then SR (sput (a 0%nat) (SvHash (fst (fm_set (a 1%nat) (format_int (cur + delta)) h))) e d) (SInt (cur + delta))
                              else err d
                end
        end
    end
  else if is [72;73;78;67;82;66;89;70;76;79;65;84] then (* HINCRBYFLOAT *)
    if negb (n =? 3) then err d else
    match parse_score (a 2%nat) with
    | FUnmodelled => SUnjudged | FErr => err d
    | FOk (SFin dl) =>
        match look_hash (a 0%nat) d with
        | LWrong => err d
        | lk => let '(h, e) := match lk with LVal h e => (h, e) | _ => ([], 0) end in
                match (match fm_get (a 1%nat) h with Some v => parse_score v | None => FOk (SFin 0) end) with
                | FOk (SFin cur) => match score_add (SFin cur) (SFin dl) with
                                    | Some r => SR (sput (a 0%nat) (SvHash (fst (fm_set (a 1%nat) (format_score r) h))) e d) (SBulk (format_score r))
                                    | None => SUnjudged
                                    end
                | FUnmodelled => SUnjudged
                | _ => err d
                end
        end
    | FOk _ => err d
    end
  (* --------------------------------- sets ----------------------------------- *)
  else if is [83;65;68;68] then
    if n <? 2 then err d else
    match look_set (a 0%nat) d with
    | LWrong => err d
    | lk => let '(s, e) := match lk with LVal s e => (s, e) | _ => ([], 0) end in
            let '(s', c) := fold_left (fun (acc : fmap unit * Z) m =>
                               let '(s1, rep) := fm_set m tt (fst acc) in (s1, snd acc + (if rep then 0 else 1)))
                             (tl args) (s, 0) in
            SR (sput (a 0%nat) (SvSet s') e d) (SInt c)
    end
  else if is [83;82;69;77] then
    if n <? 2 then err d else
    match look_set (a 0%nat) d with
    | LWrong => err d | LMissing => SR d (SInt 0)
    | LVal s e => let '(s', c) := fold_left (fun (acc : fmap unit * Z) m =>
                                     let '(s1, del) := fm_del m (fst acc) in (s1, snd acc + (if del then 1 else 0)))
                                   (tl args) (s, 0) in
                  SR (put_set (a 0%nat) s' e d) (SInt c)
    end
  else if is [83;73;83;77;69;77;66;69;82] then
    if negb (n =? 2) then err d else
    match look_set (a 0%nat) d with
    | LWrong => err d | LMissing => SR d (SInt 0)
    | LVal s _ => SR d (SInt (if fm_mem (a 1%nat) s then 1 else 0))
    end
  else if is [83;67;65;82;68] then
    if negb (n =? 1) then err d else
    match look_set (a 0%nat) d with LWrong => err d | LMissing => SR d (SInt 0) | LVal s _ => SR d (SInt (Z.of_nat (length s))) end
  else if is [83;77;69;77;66;69;82;83] then
    if negb (n =? 1) then err d else
    match look_set (a 0%nat) d with
    | LWrong => err d
    | lk => SR d (SBag (bulk_list (fm_keys (match lk with LVal s _ => s | _ => [] end))))
    end
  else if is [83;77;79;86;69] then (* SMOVE src dst member *)
    if negb (n =? 3) then err d else
    match look_set (a 0%nat) d, look_set (a 1%nat) d with
    | LWrong, _ => err d
    | LMissing, _ => SR d (SInt 0)
    | _, LWrong => err d
    | LVal s e, ld =>
        if negb (fm_mem (a 2%nat) s) then SR d (SInt 0)
        else if bytes_eqb (a 0%nat) (a 1%nat) then SR d (SInt 1)
        else
          let d1 := put_set (a 0%nat) (fst (fm_del (a 2%nat) s)) e d in
          let '(ds, de) := match ld with LVal ds de => (ds, de) | _ => ([], 0) end in
          SR (sput (a 1%nat) (SvSet (fst (fm_set (a 2%nat) tt ds))) de d1) (SInt 1)
    end
  else if is [83;73;78;84;69;82] || is [83;85;78;73;79;78] || is [83;68;73;70;70] then
    if n <? 1 then err d else
    match operand_sets args d with
    | None => err d
    | Some ss => SR d (SBag (bulk_list (if is [83;73;78;84;69;82] then sset_inter ss
                                         else if is [83;85;78;73;79;78] then sset_union ss else sset_diff ss)))
    end
  else if is [83;73;78;84;69;82;83;84;79;82;69] || is [83;85;78;73;79;78;83;84;79;82;69] || is [83;68;73;70;70;83;84;79;82;69] then
    if n <? 2 then err d else
    match operand_sets (tl args) d with
    | None => err d
    | Some ss =>
        let ms := if is [83;73;78;84;69;82;83;84;79;82;69] then sset_inter ss
                  else if is [83;85;78;73;79;78;83;84;79;82;69] then sset_union ss else sset_diff ss in
        SR (put_set (a 0%nat) (set_of_list ms) 0 (sdel (a 0%nat) d)) (SInt (Z.of_nat (length ms)))
    end
  else if is [83;80;79;80] then (* SPOP key [count]: the popped members come from the oracle *)
    if (n <? 1) || (n >? 2) then err d else
    match (if n =? 2 then parse_int (a 1%nat) else Some 1) with
    | None => err d
    | Some c =>
        if c <? 0 then err d else
        match look_set (a 0%nat) d with
        | LWrong => err d
        | LMissing => SR d (if n =? 1 then SNull else SArr [])
        | LVal s e =>
            (* judged by C03's statement only: returned members are current members, without
               repetition, at most count of them, and exactly those are removed *)
            let ok := forallb (fun m => fm_mem m s) oracle && (Z.of_nat (length oracle) <=? c)
                      && (Z.of_nat (length (set_of_list oracle)) =? Z.of_nat (length oracle))
                      && ((c =? 0) || (0 <? Z.of_nat (length oracle))) in
            if negb ok then SR d SErr
            else
              let s' := fold_left (fun acc m => fst (fm_del m acc)) oracle s in
              SR (put_set (a 0%nat) s' e d)
                 (if n =? 1 then match oracle with x :: _ => SBulk x | [] => SNull end else SBag (bulk_list oracle))
        end
    end
  (* ------------------------------ sorted sets -------------------------------- *)
  else if is [90;67;65;82;68] then
    if negb (n =? 1) then err d else
    match look_zset (a 0%nat) d with LWrong => err d | LMissing => SR d (SInt 0) | LVal z _ => SR d (SInt (Z.of_nat (length z))) end
  else if is [90;83;67;79;82;69] then
    if negb (n =? 2) then err d else
    match look_zset (a 0%nat) d with
    | LWrong => err d | LMissing => SR d SNull
    | LVal z _ => SR d (match fm_get (a 1%nat) z with Some s => SBulk (format_score s) | None => SNull end)
    end
  else if is [90;82;65;78;75] || is [90;82;69;86;82;65;78;75] then
    if negb (n =? 2) then (if n =? 3 then SUnjudged else err d) else
    match look_zset (a 0%nat) d with
    | LWrong => err d | LMissing => SR d SNull
    | LVal z _ => match index_of (a 1%nat) (zsorted z) 0 with
                  | None => SR d SNull
                  | Some i => SR d (SInt (if is [90;82;65;78;75] then i else Z.of_nat (length z) - 1 - i))
                  end
    end
  else if is [90;82;69;77] then
    if n <? 2 then err d else
    match look_zset (a 0%nat) d with
    | LWrong => err d | LMissing => SR d (SInt 0)
    | LVal z e => let '(z', c) := fold_left (fun (acc : fmap score * Z) m =>
                                     let '(z1, del) := fm_del m (fst acc) in (z1, snd acc + (if del then 1 else 0)))
                                   (tl args) (z, 0) in
                  SR (put_zset (a 0%nat) z' e d) (SInt c)
    end
  else if is [90;73;78;67;82;66;89] then (* ZINCRBY key incr member *)
    if negb (n =? 3) then err d else
    match parse_score (a 1%nat) with
    | FUnmodelled => SUnjudged | FErr => err d
    | FOk dl =>
        match look_zset (a 0%nat) d with
        | LWrong => err d
        | lk => let '(z, e) := match lk with LVal z e => (z, e) | _ => ([], 0) end in
                if (match fm_get (a 2%nat) z with Some s => score_add_nan s dl | None => false end)
                then err d   (* resulting score is not a number (NaN) *)
                else
                match (match fm_get (a 2%nat) z with Some s => score_add s dl | None => Some dl end) with
                | None => SUnjudged
                | Some r => SR (sput (a 0%nat) (SvZSet (fst (fm_set (a 2%nat) r z))) e d) (SBulk (format_score r))
                end
        end
    end
  else if is [90;67;79;85;78;84] then (* ZCOUNT key min max *)
    if negb (n =? 3) then err d else
    if bound_unmodelled (a 1%nat) || bound_unmodelled (a 2%nat) then SUnjudged else
    match parse_bound (a 1%nat), parse_bound (a 2%nat) with
    | Some (lo, lx), Some (hi, hx) =>
        match look_zset (a 0%nat) d with
        | LWrong => err d
        | lk => let z := match lk with LVal z _ => z | _ => [] end in
                SR d (SInt (Z.of_nat (length (filter (fun it => in_lo (snd it) lo lx && in_hi (snd it) hi hx) z))))
        end
    | _, _ => err d
    end
  else if is [90;82;69;77;82;65;78;71;69;66;89;82;65;78;75] then (* ZREMRANGEBYRANK *)
    if negb (n =? 3) then err d else
    match parse_int (a 1%nat), parse_int (a 2%nat) with
    | Some s, Some e0 =>
        match look_zset (a 0%nat) d with
        | LWrong => err d | LMissing => SR d (SInt 0)
        | LVal z e => let gone := slice_range (zsorted z) s e0 in
                      SR (put_zset (a 0%nat) (fold_left (fun acc it => fst (fm_del (fst it) acc)) gone z) e d)
                         (SInt (Z.of_nat (length gone)))
        end
    | _, _ => err d
    end
  else if is [90;82;69;77;82;65;78;71;69;66;89;83;67;79;82;69] then (* ZREMRANGEBYSCORE *)
    if negb (n =? 3) then err d else
    if bound_unmodelled (a 1%nat) || bound_unmodelled (a 2%nat) then SUnjudged else
    match parse_bound (a 1%nat), parse_bound (a 2%nat) with
    | Some (lo, lx), Some (hi, hx) =>
        match look_zset (a 0%nat) d with
        | LWrong => err d | LMissing => SR d (SInt 0)
        | LVal z e => let gone := filter (fun it => in_lo (snd it) lo lx && in_hi (snd it) hi hx) z in
                      SR (put_zset (a 0%nat) (fold_left (fun acc it => fst (fm_del (fst it) acc)) gone z) e d)
                         (SInt (Z.of_nat (length gone)))
        end
    | _, _ => err d
    end
  else spec_step2 now name args d.
