(* Connections: execCommand, MULTI/EXEC/DISCARD/WATCH/UNWATCH (handler.go), the watcher
   registry (key.go Watch/UnWatch/signalModifiedKey, store.watchedKeys) and the per-command
   wrapper of Serve (nodis.go).  A server state is the keyspace plus all connections; a
   history is a list of (connection, command, clock reading). *)
From Nodis Require Import Base.Bytes Model.Num Model.FMap Model.Db Model.Api Model.Handlers.
From Coq Require Import ZArith NArith List Bool.
Local Open Scope Z_scope.

Record conn := {
  c_prepare : bool;                       (* MultiPrepare *)
  c_error : bool;                         (* MultiError *)
  c_queue : list (Z -> db -> bres);       (* conn.Commands, oldest first *)
  c_watch : fmap bool                     (* conn.WatchKeys: key -> modified *)
}.
Definition conn_new : conn := {| c_prepare := false; c_error := false; c_queue := []; c_watch := [] |}.

Record server := {
  s_db : db;
  s_conns : nmap conn;
  s_registry : fmap (list nat)            (* store.watchedKeys: key -> connections, newest first *)
}.
Definition server_new (peb : bool) : server := {| s_db := db_empty peb; s_conns := []; s_registry := [] |}.

Definition get_conn (c : nat) (s : server) : conn :=
  match nm_get c (s_conns s) with Some x => x | None => conn_new end.
Definition put_conn (c : nat) (x : conn) (s : server) : server :=
  {| s_db := s_db s; s_conns := nm_set c x (s_conns s); s_registry := s_registry s |}.
Definition put_db (d : db) (s : server) : server :=
  {| s_db := d; s_conns := s_conns s; s_registry := s_registry s |}.

(* signalModifiedKey: every connection registered for the key gets WatchKeys[key] = true,
   whether or not the key is still in that connection's own map *)
Definition flag_watchers (k : bytes) (s : server) : server :=
  match fm_get k (s_registry s) with
  | None => s
  | Some cs =>
      fold_left (fun st c =>
                   let x := get_conn c st in
                   put_conn c {| c_prepare := c_prepare x; c_error := c_error x; c_queue := c_queue x;
                                 c_watch := fst (fm_set k true (c_watch x)) |} st)
                cs s
  end.
(* apply the signals a command emitted: events newer than the first [n0] (the list is
   most-recent-first) *)
Definition apply_signals (n0 : nat) (s : server) : server :=
  let evs := events (s_db s) in
  let fresh := rev (firstn (length evs - n0) evs) in
  fold_left (fun st e => match e with EvSignal k => flag_watchers k st | _ => st end) fresh s.

(* run a body now, with execCommand's recover: a panic adds one error reply *)
Definition run_body (body : Z -> db -> bres) (now : Z) (d : db) : option (list wact * db) :=
  match body now d with
  | BOk acts d' => Some (acts, d')
  | BPanic acts d' => Some (acts ++ [WErr], d')
  | BUnm => None
  end.

(* EXEC's loop over the queue *)
Fixpoint run_queue (q : list (Z -> db -> bres)) (now : Z) (d : db) : option (list wact * db) :=
  match q with
  | [] => Some ([], d)
  | b :: r =>
      match run_body b now d with
      | None => None
      | Some (a1, d1) => match run_queue r now d1 with
                         | None => None
                         | Some (a2, d2) => Some (a1 ++ a2, d2)
                         end
      end
  end.

Definition n_MULTI := cn [77;85;76;84;73]. Definition n_EXEC := cn [69;88;69;67].
Definition n_DISCARD := cn [68;73;83;67;65;82;68]. Definition n_WATCH := cn [87;65;84;67;72].
Definition n_UNWATCH := cn [85;78;87;65;84;67;72].

Definition has_err (acts : list wact) : bool :=
  existsb (fun a => match a with WErr => true | _ => false end) acts.

Definition reset_conn (x : conn) : conn := conn_new.

(* Watch(conn, keys...) *)
Fixpoint watch_keys (c : nat) (ks : list bytes) (s : server) : server :=
  match ks with
  | [] => s
  | k :: r =>
      let x := get_conn c s in
      let x' := if fm_mem k (c_watch x) then x
                else {| c_prepare := c_prepare x; c_error := c_error x; c_queue := c_queue x;
                        c_watch := fst (fm_set k false (c_watch x)) |} in
      let s1 := put_conn c x' s in
      let reg := match fm_get k (s_registry s1) with
                 | None => [c]
                 | Some cs => if existsb (Nat.eqb c) cs then cs else c :: cs
                 end in
      watch_keys c r {| s_db := s_db s1; s_conns := s_conns s1;
                        s_registry := fst (fm_set k reg (s_registry s1)) |}
  end.

(* the body of UNWATCH: UnWatch(conn) with no keys only clears the connection's map *)
Definition unwatch_marker : Z -> db -> bres := fun _ d => BOk [WOK] d.

(* wrapper of Serve: the signals raised by the command reach the watchers; an error written
   while in MULTI marks the transaction *)
Definition finish_cmd (n0 : nat) (c : nat) (res : server * list wact) : option (server * list wact) :=
  let '(s1, acts) := res in
  let s2 := apply_signals n0 s1 in
  let y := get_conn c s2 in
  let y' := if has_err acts && (c_prepare y || c_error y)
            then {| c_prepare := c_prepare y; c_error := true; c_queue := c_queue y; c_watch := c_watch y |}
            else y in
  Some (put_conn c y' s2, acts).

(* one command on one connection.  Result: new server and what was written, or None when
   the step is outside the model *)
Definition serve (c : nat) (name : bytes) (args : list bytes) (now : Z) (s : server)
  : option (server * list wact) :=
  let x := get_conn c s in
  let n0 := length (events (s_db s)) in
  let finish := finish_cmd n0 c in
  let exec_command (body : Z -> db -> bres) (pre : list wact) : option (server * list wact) :=
      if negb (c_prepare x) then
        match run_body body now (s_db s) with
        | None => None
        | Some (acts, d') => finish (put_db d' s, pre ++ acts)
        end
      else
        finish (put_conn c {| c_prepare := true; c_error := c_error x; c_queue := c_queue x ++ [body];
                              c_watch := c_watch x |} s, pre ++ [WStr s_QUEUED]) in
  if bytes_eqb name n_MULTI then
    if c_prepare x then finish (s, [WErr])
    else finish (put_conn c {| c_prepare := true; c_error := c_error x; c_queue := c_queue x; c_watch := c_watch x |} s, [WOK])
  else if bytes_eqb name n_DISCARD then
    finish (put_conn c conn_new s, [WOK])
  else if bytes_eqb name n_WATCH then
    if c_prepare x then finish (s, [WErr])
    else match args with
         | [] => finish (s, [WErr])
         | _ => finish (watch_keys c args s, [WOK])
         end
  else if bytes_eqb name n_UNWATCH then
    (* goes through execCommand: queued inside MULTI *)
    if negb (c_prepare x) then
      finish (put_conn c {| c_prepare := c_prepare x; c_error := c_error x; c_queue := c_queue x; c_watch := [] |} s, [WOK])
    else
      (* queued: when EXEC runs it, clearing the connection's map has no further effect
         (the watch test is over and EXEC clears the map anyway) *)
      finish (put_conn c {| c_prepare := true; c_error := c_error x; c_queue := c_queue x ++ [unwatch_marker];
                            c_watch := c_watch x |} s, [WStr s_QUEUED])
  else if bytes_eqb name n_EXEC then
    if negb (c_prepare x) then finish (put_conn c conn_new s, [WErr])
    else if c_error x then finish (put_conn c conn_new s, [WErr])
    else if existsb (fun kv => snd kv) (c_watch x) then finish (put_conn c conn_new s, [WNullBulk])
    else match c_queue x with
         | [] => finish (put_conn c conn_new s, [WArr 0])
         | q =>
             match run_queue q now (s_db s) with
                  | None => None
                  | Some (acts, d') =>
                      (* signals raised by the queue hit the registry; then the deferred reset *)
                      let s1 := apply_signals n0 (put_db d' s) in
                      Some (put_conn c conn_new s1, WArr (Z.of_nat (length q)) :: acts)
                  end
         end
  else
    match lookup_cmd name cmd_table with
    | Some h =>
        match h args with
        | HErr => finish (s, [WErr])
        | HPanic => finish (s, [WErr])
        | HUnm => None
        | HBody body => exec_command body []
        end
    | None =>
        if existsb (bytes_eqb name) unmodelled_names then None
        else finish (s, [WErr])          (* cmdNotFound *)
    end.
