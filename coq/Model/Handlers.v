(* handler.go: one model function per command handler.  A handler first runs its prologue
   (arity and number validation, outside execCommand) and then hands a body to
   execCommand, which runs it now or queues it inside MULTI.  The model keeps that split:
   [hres] is what the prologue decides, the body is a closure over the parsed arguments. *)
From Nodis Require Import Base.Bytes Model.Num Model.FMap Model.DsStr Model.DsList Model.DsHash
     Model.DsSet Model.DsZSet Model.Db Model.Api.
From Coq Require Import ZArith NArith List Bool.
Local Open Scope Z_scope.

(* what a handler writes to the connection, in order *)
Inductive wact :=
| WStr (s : bytes)        (* +s    (WriteString / WriteOK) *)
| WBulk (b : bytes)       (* $len b *)
| WArr (n : Z)            (* *n    *)
| WErr                    (* -text (texts are not modelled) *)
| WNullBulk               (* $-1   *)
| WNullArr                (* *-1   *)
| WInt (z : Z).           (* :z    *)

Definition s_OK : bytes := bytes_of_ascii [79; 75]%N.
Definition s_QUEUED : bytes := bytes_of_ascii [81; 85; 69; 85; 69; 68]%N.
Definition s_PONG : bytes := bytes_of_ascii [80; 79; 78; 71]%N.
Definition WOK : wact := WStr s_OK.

Inductive bres :=
| BOk (acts : list wact) (d : db)
| BPanic (acts : list wact) (d : db)   (* panic inside the body: recovered by execCommand *)
| BUnm.

Inductive hres :=
| HErr                                  (* the prologue wrote one error and returned *)
| HPanic                                (* the prologue panicked: top-level recover *)
| HBody (body : Z -> db -> bres)        (* execCommand(conn, body) *)
| HUnm.                                 (* command outside the model *)

(* ---- arguments and options -------------------------------------------------- *)
Definition arg (i : Z) (args : list bytes) : option bytes :=
  if i <? 0 then None else nth_error args (Z.to_nat i).
Definition nargs (args : list bytes) : Z := Z.of_nat (length args).

Definition w (l : list Z) : bytes := map (fun z => n2b (Z.to_N z)) l.
(* option words *)
Definition o_NX := w [78;88]. Definition o_XX := w [88;88].
Definition o_LT := w [76;84]. Definition o_GT := w [71;84].
Definition o_MATCH := w [77;65;84;67;72]. Definition o_COUNT := w [67;79;85;78;84].
Definition o_TYPE := w [84;89;80;69].
Definition o_EX := w [69;88]. Definition o_EXAT := w [69;88;65;84].
Definition o_PX := w [80;88]. Definition o_PXAT := w [80;88;65;84].
Definition o_GET := w [71;69;84]. Definition o_KEEPTTL := w [75;69;69;80;84;84;76].
Definition o_CH := w [67;72]. Definition o_INCR := w [73;78;67;82].
Definition o_WITHSCORES := w [87;73;84;72;83;67;79;82;69;83].
Definition o_LIMIT := w [76;73;77;73;84]. Definition o_BYSCORE := w [66;89;83;67;79;82;69].
Definition o_REV := w [82;69;86]. Definition o_WEIGHTS := w [87;69;73;71;72;84;83].
Definition o_AGGREGATE := w [65;71;71;82;69;71;65;84;69]. Definition o_BIT := w [66;73;84].
Definition s_BEFORE := w [66;69;70;79;82;69].
Definition s_SUM := w [83;85;77]. Definition s_MIN := w [77;73;78]. Definition s_MAX := w [77;65;88].
Definition s_STRING := w [83;84;82;73;78;71]. Definition s_LIST := w [76;73;83;84].
Definition s_HASH := w [72;65;83;72]. Definition s_SET := w [83;69;84]. Definition s_ZSET := w [90;83;69;84].

(* readOptions: the position recorded for option word [word] is the index of its last
   occurrence among the arguments (plus one for options that take a value); 0 if absent *)
Fixpoint opt_scan (word : bytes) (args : list bytes) (j : Z) (acc : Z) : Z :=
  match args with
  | [] => acc
  | a :: r => opt_scan word r (j + 1) (if bytes_eqb (upper a) word then j else acc)
  end.
Definition opt (word : bytes) (args : list bytes) : Z := opt_scan word args 0 0.
Definition opt1 (word : bytes) (args : list bytes) : Z :=
  let p := opt_scan word args 0 (-1) in if p <? 0 then 0 else p + 1.

(* redis.FormatFloat64 / FormatInt64: an optional leading '(' is dropped *)
Definition strip_paren (s : bytes) : bytes :=
  match s with b :: r => if byte_eqb b x28 then r else s | [] => s end.
Definition starts_paren (s : bytes) : bool :=
  match s with b :: _ => byte_eqb b x28 | [] => false end.

(* ---- reply helpers ---------------------------------------------------------- *)
Definition bulks (l : list bytes) : list wact := WArr (Z.of_nat (length l)) :: map WBulk l.
Definition obulk (o : option bytes) : wact := match o with Some b => WBulk b | None => WNullBulk end.
Definition b2z (b : bool) : Z := if b then 1 else 0.

Definition lift {A} (r : res A) (k : A -> db -> bres) : bres :=
  match r with Ok a d => k a d | Panic d => BPanic [] d | Unm => BUnm end.
Definition ret (acts : list wact) (d : db) : bres := BOk acts d.

Definition body1 (f : Z -> db -> bres) : hres := HBody f.

(* parse helpers for the prologue: None = the handler writes an error and returns *)
Definition pint (o : option bytes) : option (option Z) :=
  (* outer None: index panic; inner None: parse error *)
  match o with None => None | Some s => Some (parse_int s) end.

(* score arguments: FOk / FErr / FUnmodelled *)
Definition pscore (s : bytes) : fparse := parse_score (strip_paren s).

(* ---- generic shapes ----------------------------------------------------------- *)
(* "if len(cmd.Args) < k { error; return }" *)
Definition need (k : Z) (args : list bytes) (h : hres) : hres :=
  if nargs args <? k then HErr else h.

Definition a0 (args : list bytes) : bytes := match args with a :: _ => a | [] => [] end.
Definition a1 (args : list bytes) : bytes := match args with _ :: a :: _ => a | _ => [] end.
Definition a2 (args : list bytes) : bytes := match args with _ :: _ :: a :: _ => a | _ => [] end.
Definition a3 (args : list bytes) : bytes := match args with _ :: _ :: _ :: a :: _ => a | _ => [] end.

(* ============================ keyspace commands =============================== *)
Definition h_del (args : list bytes) : hres :=
  need 1 args (HBody (fun now d => let '(n, d') := api_del args now d in ret [WInt n] d')).
Definition h_exists (args : list bytes) : hres :=
  need 1 args (HBody (fun now d => let '(n, d') := api_exists args now d in ret [WInt n] d')).

Definition h_expire (args : list bytes) : hres :=
  need 2 args (HBody (fun now d =>
    let seconds := parse_int_lax (a1 args) in
    let k := a0 args in
    let '(n, d') :=
      if opt o_NX args >? 1 then api_expire_nx k seconds now d
      else if opt o_XX args >? 1 then api_expire_xx k seconds now d
      else if opt o_LT args >? 1 then api_expire_lt k seconds now d
      else if opt o_GT args >? 1 then api_expire_gt k seconds now d
      else api_expire k seconds now d in
    ret [WInt n] d')).

Definition h_expireat (args : list bytes) : hres :=
  need 2 args
    match parse_int (a1 args) with
    | None => HErr
    | Some ts =>
        HBody (fun now d =>
          let e := ts * 1000 in
          if negb (in_int64 e) then BUnm else
          let k := a0 args in
          let '(n, d') :=
            if opt o_NX args >? 1 then api_expireat_nx k e now d
            else if opt o_XX args >? 1 then api_expireat_xx k e now d
            else if opt o_LT args >? 1 then api_expireat_lt k e now d
            else if opt o_GT args >? 1 then api_expireat_gt k e now d
            else api_expireat k e now d in
          ret [WInt n] d')
    end.

Definition h_keys (args : list bytes) : hres :=
  need 1 args (HBody (fun now d =>
    if negb (pattern_modelled (a0 args)) then BUnm
    else ret (bulks (api_keys (a0 args) now d)) d)).

Definition h_ttl (args : list bytes) : hres :=
  need 1 args (HBody (fun now d => let '(n, d') := api_ttl (a0 args) now d in ret [WInt n] d')).
Definition h_pttl (args : list bytes) : hres :=
  need 1 args (HBody (fun now d => let '(n, d') := api_pttl (a0 args) now d in ret [WInt n] d')).
Definition h_persist (args : list bytes) : hres :=
  need 1 args (HBody (fun now d => let '(n, d') := api_persist (a0 args) now d in ret [WInt n] d')).

(* RENAME ignores the error and always answers OK.  (Same source and destination used to re-lock the
   held key and was kept out of the model; since the repair of the key locks it is an ordinary case.) *)
Definition h_rename (args : list bytes) : hres :=
  need 2 args (HBody (fun now d =>
    let '(_, d') := api_rename (a0 args) (a1 args) now d in ret [WOK] d')).
Definition h_renamenx (args : list bytes) : hres :=
  need 2 args (HBody (fun now d =>
    let '(e, d') := api_renamenx (a0 args) (a1 args) now d in
         ret [WInt (if e =? 0 then 1 else 0)] d')).
Definition h_type (args : list bytes) : hres :=
  need 1 args (HBody (fun now d => let '(t, d') := api_type (a0 args) now d in ret [WStr t] d')).

Definition string_to_type (s : bytes) : Z :=
  if bytes_eqb s s_STRING then 1 else if bytes_eqb s s_LIST then 3
  else if bytes_eqb s s_HASH then 5 else if bytes_eqb s s_SET then 2
  else if bytes_eqb s s_ZSET then 4 else 0.

(* SCAN cursor [MATCH p] [COUNT n] [TYPE t] *)
Definition h_scan (args : list bytes) : hres :=
  need 1 args
    match parse_int (a0 args) with
    | None => HErr
    | Some cursor =>
        let pm := opt1 o_MATCH args in
        let pc := opt1 o_COUNT args in
        let pt := opt1 o_TYPE args in
        match (if pm >? 0 then arg pm args else Some [x2a]) with
        | None => HPanic
        | Some pat =>
            match (if pc >? 0 then pint (arg pc args) else Some (Some 10)) with
            | None => HPanic
            | Some None => HErr
            | Some (Some count) =>
                if (pc >? 0) && (count =? 0) then HErr
                else
                match (if pt >? 0 then arg pt args else Some []) with
                | None => HPanic
                | Some tname =>
                    let typ := if pt >? 0 then string_to_type (upper tname) else 0 in
                    HBody (fun now d =>
                      if negb (pattern_modelled pat) then BUnm else
                      let '(nc, ks, d') := api_scan cursor pat count typ now d in
                      ret (WArr 2 :: WBulk (format_int nc) :: bulks ks) d')
                end
            end
        end
    end.

(* ============================== string commands =============================== *)
(* SET key value [NX|XX] [GET] [EX s|PX ms|EXAT s|PXAT ms|KEEPTTL] *)
Definition h_set (args : list bytes) : hres :=
  need 2 args (HBody (fun now d =>
    let k := a0 args in let v := a1 args in
    let keep := opt o_KEEPTTL args >? 1 in
    (* optional GET first *)
    let getr := if opt o_GET args >? 1 then api_get k now d else Ok None d in
    lift getr (fun get d1 =>
    let setr : res bool :=
      if opt o_NX args >? 1 then api_setnx k v keep now d1
      else if opt o_XX args >? 1 then api_setxx k v keep now d1
      else match api_set k v keep now d1 with Ok _ dd => Ok true dd | Panic dd => Panic dd | Unm => Unm end in
    lift setr (fun done d2 =>
      if negb done then ret [WNullBulk] d2
      else
      let pex := opt1 o_EX args in let ppx := opt1 o_PX args in
      let pexat := opt1 o_EXAT args in let ppxat := opt1 o_PXAT args in
      let num p := match arg p args with
                   | None => None
                   | Some s => Some (parse_int_lax s)
                   end in
      if pex >? 1 then
        match num pex with
        | None => BPanic [] d2
        | Some s => let '(_, d3) := api_expire k s now d2 in ret [WOK] d3
        end
      else if ppx >? 1 then
        match num ppx with
        | None => BPanic [] d2
        | Some ms => let '(n, d3) := api_expire_px k ms now d2 in
                     ret [if n =? 0 then WNullBulk else WOK] d3
        end
      else if pexat >? 1 then
        match num pexat with
        | None => BPanic [] d2
        | Some s => if negb (in_int64 (s * 1000)) then BUnm else
                    let '(n, d3) := api_expireat k (s * 1000) now d2 in
                    ret [if n =? 0 then WNullBulk else WOK] d3
        end
      else if ppxat >? 1 then
        match num ppxat with
        | None => BPanic [] d2
        | Some ms => let '(_, d3) := api_expireat k ms now d2 in ret [WOK] d3
        end
      else match get with
           | Some g => ret [WBulk g] d2
           | None => ret [WOK] d2
           end)))).

Fixpoint mset_loop (args : list bytes) (now : Z) (d : db) : bres :=
  match args with
  | k :: v :: r =>
      match api_set k v false now d with
      | Ok _ d1 => mset_loop r now d1
      | Panic d1 => BPanic [] d1
      | Unm => BUnm
      end
  | _ => ret [WOK] d
  end.
Definition h_mset (args : list bytes) : hres :=
  if (nargs args =? 0) || negb (nargs args mod 2 =? 0) then HErr
  else HBody (fun now d => mset_loop args now d).

Definition h_append (args : list bytes) : hres :=
  need 2 args (HBody (fun now d => lift (api_append (a0 args) (a1 args) now d) (fun n d' => ret [WInt n] d'))).
Definition h_setex (args : list bytes) : hres :=
  need 3 args (HBody (fun now d =>
    let s := parse_int_lax (a1 args) in
    lift (api_setex (a0 args) (a2 args) s now d) (fun _ d' => ret [WOK] d'))).
Definition h_setnx (args : list bytes) : hres :=
  need 2 args (HBody (fun now d =>
    lift (api_setnx (a0 args) (a1 args) false now d) (fun b d' => ret [WInt (b2z b)] d'))).
Definition h_get (args : list bytes) : hres :=
  need 1 args (HBody (fun now d => lift (api_get (a0 args) now d) (fun v d' => ret [obulk v] d'))).
Definition h_getset (args : list bytes) : hres :=
  need 2 args (HBody (fun now d =>
    lift (api_getset (a0 args) (a1 args) now d) (fun v d' => ret [obulk v] d'))).

(* MGET reads every value first - a key of another type counts as missing - and then writes the array *)
Fixpoint mget_loop (ks : list bytes) (acc : list (option bytes)) (now : Z) (d : db) : bres :=
  match ks with
  | [] => BOk (WArr (Z.of_nat (length acc)) :: map obulk acc) d
  | k :: r =>
      match api_get k now d with
      | Ok v d1 => mget_loop r (acc ++ [v]) now d1
      | Panic d1 => mget_loop r (acc ++ [None]) now d1
      | Unm => BUnm
      end
  end.
Definition h_mget (args : list bytes) : hres :=
  need 1 args (HBody (fun now d => mget_loop args [] now d)).

Definition h_setrange (args : list bytes) : hres :=
  need 3 args
    match parse_int (a1 args) with
    | None => HErr
    | Some off =>
        (* 512MB limit, checked in the prologue *)
        if off >? 536870912 - zlen (a2 args) then HErr else
        HBody (fun now d =>
        if off >? 1048576 then BUnm else
        lift (api_setrange (a0 args) off (a2 args) now d) (fun n d' => ret [WInt n] d'))
    end.
Definition h_getrange (args : list bytes) : hres :=
  need 3 args
    match parse_int (a1 args), parse_int (a2 args) with
    | Some a, Some b => HBody (fun now d =>
        lift (api_getrange (a0 args) a b now d) (fun v d' => ret [WBulk v] d'))
    | _, _ => HErr
    end.
Definition h_strlen (args : list bytes) : hres :=
  need 1 args (HBody (fun now d => lift (api_strlen (a0 args) now d) (fun n d' => ret [WInt n] d'))).

(* INCR / DECR / INCRBY / DECRBY: a failure is answered with the null bulk *)
Definition incr_reply (r : res (option Z)) : bres :=
  lift r (fun v d' => ret [match v with Some n => WInt n | None => WNullBulk end] d').
Definition h_incr (args : list bytes) : hres :=
  need 1 args (HBody (fun now d => incr_reply (api_incr_gen (a0 args) 1 false false now d))).
Definition h_decr (args : list bytes) : hres :=
  need 1 args (HBody (fun now d => incr_reply (api_incr_gen (a0 args) 1 true false now d))).
Definition h_incrby (args : list bytes) : hres :=
  need 2 args match parse_int (a1 args) with
              | None => HErr
              | Some v => HBody (fun now d => incr_reply (api_incr_gen (a0 args) v false true now d))
              end.
Definition h_decrby (args : list bytes) : hres :=
  need 2 args match parse_int (a1 args) with
              | None => HErr
              | Some v => HBody (fun now d => incr_reply (api_incr_gen (a0 args) v true false now d))
              end.
Definition h_incrbyfloat (args : list bytes) : hres :=
  need 2 args match pscore (a1 args) with
              | FErr => HErr
              | FUnmodelled => HUnm
              | FOk v => HBody (fun now d =>
                  lift (api_incrbyfloat (a0 args) v now d)
                       (fun r d' => ret [match r with Some s => WBulk (format_score s) | None => WNullBulk end] d'))
              end.

Definition h_setbit (args : list bytes) : hres :=
  need 3 args
    match parse_int (a1 args) with
    | None => HErr
    | Some off =>
        if (off <? 0) || (off >=? 4294967296) then HErr else
        match parse_int (a2 args) with
        | None => HErr
        | Some v => if negb ((v =? 0) || (v =? 1)) then HErr
                    else HBody (fun now d =>
                      if off >? 8388608 then BUnm else
                      lift (api_setbit (a0 args) off (v =? 1) now d) (fun n d' => ret [WInt n] d'))
        end
    end.
Definition h_getbit (args : list bytes) : hres :=
  need 2 args
    match parse_int (a1 args) with
    | None => HErr
    | Some off => if off <? 0 then HErr
                  else HBody (fun now d => lift (api_getbit (a0 args) off now d) (fun n d' => ret [WInt n] d'))
    end.
Definition h_bitcount (args : list bytes) : hres :=
  need 1 args
    (let ps := if nargs args >? 1 then parse_int (a1 args) else Some 0 in
     let pe := if nargs args >? 2 then parse_int (a2 args) else Some 0 in
     match ps, pe with
     | Some s, Some e => HBody (fun now d =>
         lift (api_bitcount (a0 args) s e (opt o_BIT args >? 2) now d) (fun n d' => ret [WInt n] d'))
     | _, _ => HErr
     end).

(* ================================ sets ========================================= *)
Definition h_sadd (args : list bytes) : hres :=
  need 2 args (HBody (fun now d => lift (api_sadd (a0 args) (tl args) now d) (fun n d' => ret [WInt n] d'))).
Definition h_smove (args : list bytes) : hres :=
  need 3 args (HBody (fun now d =>
    lift (api_smove (a0 args) (a1 args) (a2 args) now d) (fun b d' => ret [WInt (b2z b)] d'))).
Definition h_sscan (args : list bytes) : hres :=
  need 2 args
    match parse_int (a1 args) with
    | None => HErr
    | Some cursor =>
        let pm := opt1 o_MATCH args in let pc := opt1 o_COUNT args in
        match (if pm >? 1 then arg pm args else Some [x2a]) with
        | None => HPanic
        | Some pat =>
            match (if pc >? 1 then pint (arg pc args) else Some (Some 0)) with
            | None => HPanic
            | Some None => HErr
            | Some (Some count) =>
                HBody (fun now d =>
                  if negb (pattern_modelled pat) then BUnm else
                  lift (api_sread (a0 args) (0, []) (set_sscan cursor pat count) now d)
                       (fun r d' => ret (WArr 2 :: WBulk (format_int (fst r)) :: bulks (snd r)) d'))
            end
        end
    end.
Definition h_spop (args : list bytes) : hres :=
  need 1 args
    match (if nargs args >? 1 then parse_int (a1 args) else Some 1) with
    | None => HErr
    | Some count => HBody (fun now d =>
        lift (api_spop (a0 args) count now d) (fun r d' =>
          match r with
          | None => ret [WNullBulk] d'
          | Some [] => ret [WNullBulk] d'
          | Some (x :: rest) => if nargs args <=? 1 then ret [WBulk x] d' else ret (bulks (x :: rest)) d'
          end))
    end.
Definition h_scard (args : list bytes) : hres :=
  need 1 args (HBody (fun now d => lift (api_sread (a0 args) 0 set_card now d) (fun n d' => ret [WInt n] d'))).
Definition h_salgebra (f : list bytes -> Z -> db -> res (list bytes)) (args : list bytes) : hres :=
  need 2 args (HBody (fun now d => lift (f args now d) (fun ms d' => ret (bulks ms) d'))).
(* the *STORE handlers test Exists(keys...) first *)
Definition h_sstore (all : bool) (f : list bytes -> Z -> db -> res (list bytes)) (args : list bytes) : hres :=
  need 2 args (HBody (fun now d =>
    let dst := a0 args in let ks := tl args in
    let '(n, d1) := api_exists ks now d in
    if (if all then negb (n =? nargs ks) else n =? 0) then ret [WInt 0] d1
    else lift (api_sstore f dst ks now d1) (fun c d' => ret [WInt c] d'))).
Definition h_sismember (args : list bytes) : hres :=
  need 2 args (HBody (fun now d =>
    lift (api_sread (a0 args) false (set_mem (a1 args)) now d) (fun b d' => ret [WInt (b2z b)] d'))).
Definition h_smembers (args : list bytes) : hres :=
  need 1 args (HBody (fun now d => lift (api_smembers (a0 args) now d) (fun ms d' => ret (bulks ms) d'))).
Definition h_srem (args : list bytes) : hres :=
  need 2 args (HBody (fun now d => lift (api_srem (a0 args) (tl args) now d) (fun n d' => ret [WInt n] d'))).

(* ================================ hashes ====================================== *)
(* pairs after the first one as a Go map: later duplicates win, iteration order free *)
Fixpoint pairs_map (l : list bytes) (acc : fmap bytes) : fmap bytes :=
  match l with
  | f :: v :: r => pairs_map r (fst (fm_set f v acc))
  | _ => acc
  end.
Definition h_hset (args : list bytes) : hres :=
  need 3 args (HBody (fun now d =>
    lift (api_hset (a0 args) (a1 args) (a2 args) now d) (fun i d1 =>
      if nargs args >? 3 then
        lift (api_hmset (a0 args) (pairs_map (skipn 3 args) []) now d1) (fun j d2 => ret [WInt (i + j)] d2)
      else ret [WInt i] d1))).
(* HGET: an empty value is answered like a missing one *)
Definition h_hget (args : list bytes) : hres :=
  need 2 args (HBody (fun now d =>
    lift (api_hread (a0 args) None (hash_hget (a1 args)) now d) (fun v d' =>
      ret [match v with Some (x :: r) => WBulk (x :: r) | _ => WNullBulk end] d'))).
Definition h_hdel (args : list bytes) : hres :=
  need 2 args (HBody (fun now d => lift (api_hdel (a0 args) (tl args) now d) (fun n d' => ret [WInt n] d'))).
Definition h_hlen (args : list bytes) : hres :=
  need 1 args (HBody (fun now d => lift (api_hread (a0 args) 0 hash_hlen now d) (fun n d' => ret [WInt n] d'))).
Definition h_hkeys (args : list bytes) : hres :=
  need 1 args (HBody (fun now d => lift (api_hread (a0 args) [] fm_keys now d) (fun ks d' => ret (bulks ks) d'))).
Definition h_hvals (args : list bytes) : hres :=
  need 1 args (HBody (fun now d => lift (api_hread (a0 args) [] fm_vals now d) (fun ks d' => ret (bulks ks) d'))).
Definition h_hexists (args : list bytes) : hres :=
  need 2 args (HBody (fun now d =>
    lift (api_hread (a0 args) false (hash_hexists (a1 args)) now d) (fun b d' => ret [WInt (b2z b)] d'))).
(* HGETALL: Go map order; the model lists fields ascending and the comparison sorts pairs *)
Definition flat_pairs (h : list (bytes * bytes)) : list wact :=
  WArr (2 * Z.of_nat (length h)) :: flat_map (fun kv => [WBulk (fst kv); WBulk (snd kv)]) h.
Definition h_hgetall (args : list bytes) : hres :=
  need 1 args (HBody (fun now d => lift (api_hread (a0 args) [] (fun h => h) now d) (fun h d' => ret (flat_pairs h) d'))).
Definition h_hincrby (args : list bytes) : hres :=
  need 3 args match parse_int (a2 args) with
              | None => HErr
              | Some v => HBody (fun now d =>
                  lift (api_hincrby (a0 args) (a1 args) v now d)
                       (fun r d' => ret [match r with Some n => WInt n | None => WErr end] d'))
              end.
Definition h_hincrbyfloat (args : list bytes) : hres :=
  need 3 args match pscore (a2 args) with
              | FErr => HErr
              | FUnmodelled => HUnm
              | FOk v => HBody (fun now d =>
                  lift (api_hincrbyfloat (a0 args) (a1 args) v now d)
                       (fun r d' => ret [match r with Some s => WBulk (format_score s) | None => WErr end] d'))
              end.
Definition h_hsetnx (args : list bytes) : hres :=
  need 3 args (HBody (fun now d =>
    lift (api_hsetnx (a0 args) (a1 args) (a2 args) now d) (fun n d' => ret [WInt n] d'))).
Definition h_hmget (args : list bytes) : hres :=
  need 2 args (HBody (fun now d =>
    let fs := tl args in
    lift (api_hread (a0 args) (map (fun _ => None) fs) (hash_hmget fs) now d)
         (fun vs d' => ret (WArr (Z.of_nat (length vs)) :: map obulk vs) d'))).
Definition h_hmset (args : list bytes) : hres :=
  need 3 args (HBody (fun now d =>
    lift (api_hmset (a0 args) (pairs_map (tl args) []) now d) (fun _ d' => ret [WOK] d'))).
Definition h_hclear (args : list bytes) : hres :=
  need 1 args (HBody (fun now d => let '(_, d') := api_del [a0 args] now d in ret [WOK] d')).
Definition h_hstrlen (args : list bytes) : hres :=
  need 2 args (HBody (fun now d =>
    lift (api_hread (a0 args) 0 (fun h => match hash_hget (a1 args) h with
                                          | Some v => Z.of_nat (length v) | None => 0 end) now d)
         (fun n d' => ret [WInt n] d'))).
(* HSCAN key cursor [MATCH p] [COUNT n]: COUNT defaults to 10 and must be positive; the reply
   carries the position the walk reached, 0 when it ran off the end *)
Definition h_hscan (args : list bytes) : hres :=
  need 2 args
    (let cursor := parse_int_lax (a1 args) in
     let pm := opt1 o_MATCH args in let pc := opt1 o_COUNT args in
     match (if pm >? 1 then arg pm args else Some [x2a]) with
     | None => HPanic
     | Some pat =>
         match (if pc >? 1 then pint (arg pc args) else Some (Some 10)) with
         | None => HPanic
         | Some None => HErr
         | Some (Some count) =>
             if count <? 1 then HErr else
             HBody (fun now d =>
               if negb (pattern_modelled pat) then BUnm else
               lift (api_hread (a0 args) (0, []) (hscan_call cursor pat count) now d)
                    (fun r d' => ret (WArr 2 :: WBulk (format_int (fst r)) :: flat_pairs (snd r)) d'))
         end
     end).

(* ================================ lists ======================================= *)
Definition h_push (left : bool) (args : list bytes) : hres :=
  need 2 args (HBody (fun now d => lift (api_push left (a0 args) (tl args) now d) (fun n d' => ret [WInt n] d'))).
Definition h_pop (left : bool) (args : list bytes) : hres :=
  need 1 args
    match (if nargs args >? 1 then parse_int (a1 args) else Some 1) with
    | None => HErr
    | Some count => HBody (fun now d =>
        lift (api_pop left (a0 args) count now d) (fun r d' =>
          match r with
          | None => ret [WNullBulk] d'
          | Some vs => if count =? 1 then ret [match vs with x :: _ => WBulk x | [] => WNullBulk end] d'
                       else ret (bulks vs) d'
          end))
    end.
Definition h_llen (args : list bytes) : hres :=
  need 1 args (HBody (fun now d =>
    lift (api_llen (a0 args) now d) (fun n d' => ret [if n =? -1 then WNullBulk else WInt n] d'))).
Definition h_lindex (args : list bytes) : hres :=
  need 2 args (HBody (fun now d =>
    let i := parse_int_lax (a1 args) in
    lift (api_lindex (a0 args) i now d) (fun v d' => ret [obulk v] d'))).
Definition h_linsert (args : list bytes) : hres :=
  need 4 args (HBody (fun now d =>
    lift (api_linsert (a0 args) (a2 args) (a3 args) (bytes_eqb (upper (a1 args)) s_BEFORE) now d)
         (fun n d' => ret [WInt n] d'))).
Definition h_pushx (left : bool) (args : list bytes) : hres :=
  need 2 args (HBody (fun now d => lift (api_pushx left (a0 args) (a1 args) now d) (fun n d' => ret [WInt n] d'))).
Definition h_lrem (args : list bytes) : hres :=
  need 3 args match parse_int (a1 args) with
              | None => HErr
              | Some c => HBody (fun now d => lift (api_lrem (a0 args) (a2 args) c now d) (fun n d' => ret [WInt n] d'))
              end.
Definition h_ltrim (args : list bytes) : hres :=
  need 3 args match parse_int (a1 args), parse_int (a2 args) with
              | Some a, Some b => HBody (fun now d => lift (api_ltrim (a0 args) a b now d) (fun _ d' => ret [WOK] d'))
              | _, _ => HErr
              end.
(* LSET: index >= LLen(key) is an error; otherwise LSet (creating the key when missing) *)
Definition h_lset (args : list bytes) : hres :=
  need 3 args match parse_int (a1 args) with
              | None => HErr
              | Some i => HBody (fun now d =>
                  lift (api_llen (a0 args) now d) (fun n d1 =>
                    if i >=? n then ret [WErr] d1
                    else lift (api_lset (a0 args) i (a2 args) now d1) (fun _ d2 => ret [WOK] d2)))
              end.
Definition h_lrange (args : list bytes) : hres :=
  need 3 args match parse_int (a1 args), parse_int (a2 args) with
              | Some a, Some b => HBody (fun now d => lift (api_lrange (a0 args) a b now d) (fun vs d' => ret (bulks vs) d'))
              | _, _ => HErr
              end.
Definition h_move (lpop : bool) (args : list bytes) : hres :=
  need 2 args (HBody (fun now d =>
    lift (api_move lpop (a0 args) (a1 args) now d) (fun v d' => ret [obulk v] d'))).

(* ============================== sorted sets =================================== *)
Definition maxz (l : list Z) : Z := fold_left Z.max l 0.

(* ZADD key [NX|XX] [GT|LT] [CH] [INCR] score member ... : with any option only the first
   pair is processed *)
Fixpoint zadd_loop (k : bytes) (prs : list bytes) (incr xx nx lt gt : bool) (count : Z) (now : Z) (d : db)
  : bres :=
  match prs with
  | sc :: mem :: r =>
      match parse_score sc with
      | FErr => ret [WErr] d
      | FUnmodelled => BUnm
      | FOk s =>
          if incr then lift (api_zincrby k mem s now d)
                            (fun v d' => ret [match v with Some x => WBulk (format_score x) | None => WErr end] d')
          else if xx then lift (api_zadd_gen 1 k mem s now d) (fun n d' => ret [WInt n] d')
          else if nx then lift (api_zadd_gen 2 k mem s now d) (fun n d' => ret [WInt n] d')
          else if lt then lift (api_zadd_cmp true k mem s now d) (fun n d' => ret [WInt n] d')
          else if gt then lift (api_zadd_cmp false k mem s now d) (fun n d' => ret [WInt n] d')
          else lift (api_zadd_gen 0 k mem s now d) (fun n d' => zadd_loop k r incr xx nx lt gt (count + n) now d')
      end
  | _ => ret [WInt count] d
  end.
Definition h_zadd (args : list bytes) : hres :=
  need 3 args
    (let start := maxz [opt o_NX args; opt o_XX args; opt o_LT args; opt o_GT args; opt o_CH args; opt o_INCR args] in
     if start + 1 >? nargs args then HErr
     else HBody (fun now d =>
       zadd_loop (a0 args) (skipn (Z.to_nat (start + 1)) args)
                 (opt o_INCR args >? 0) (opt o_XX args >? 0) (opt o_NX args >? 0)
                 (opt o_LT args >? 0) (opt o_GT args >? 0) 0 now d)).
Definition h_zcard (args : list bytes) : hres :=
  need 1 args (HBody (fun now d => lift (api_zread (a0 args) 0 (fun z => Some (zset_zcard z)) now d) (fun n d' => ret [WInt n] d'))).

(* ZRANK/ZREVRANK key member [WITHSCORES].  (The empty member used to be answered from the skiplist
   header at a level-dependent point and was kept out of the model; repaired, it is an ordinary member.) *)
Definition h_zrank (desc : bool) (args : list bytes) : hres :=
  need 2 args (HBody (fun now d =>
    let mem := a1 args in
    if opt o_WITHSCORES args >? 1 then
      lift (api_zread (a0 args) None (fun z => Some (zset_rank mem desc z)) now d)
           (fun r d' => match r with
                        | Some rk => ret [WArr 2; WInt rk; WBulk mem] d'
                        | None => ret [WNullBulk] d'
                        end)
    else
      (* ZRevRank drops the error: a non-member of an existing key answers 0;
         a missing key answers 0 in both *)
      lift (api_zread (a0 args) (Some 0) (fun z => Some (zset_rank mem desc z)) now d)
           (fun r d' => match r with
                        | Some rk => ret [WInt rk] d'
                        | None => if desc then ret [WInt 0] d' else ret [WNullBulk] d'
                        end))).
Definition h_zscore (args : list bytes) : hres :=
  need 2 args (HBody (fun now d =>
    (* a missing key returns (0, nil): the score 0 is written *)
    lift (api_zread (a0 args) (Some (SFin 0)) (fun z => Some (zset_zscore (a1 args) z)) now d)
         (fun r d' => ret [match r with Some s => WBulk (format_score s) | None => WNullBulk end] d'))).
Definition h_zincrby (args : list bytes) : hres :=
  need 3 args match pscore (a1 args) with
              | FErr => HErr
              | FUnmodelled => HUnm
              | FOk s => HBody (fun now d =>
                  lift (api_zincrby (a0 args) (a2 args) s now d)
                       (fun v d' => ret [match v with Some x => WBulk (format_score x) | None => WErr end] d'))
              end.

Definition items_reply (withscores : bool) (its : list item) : list wact :=
  if withscores
  then WArr (2 * Z.of_nat (length its)) :: flat_map (fun it => [WBulk (snd it); WBulk (format_score (fst it))]) its
  else bulks (map snd its).

(* LIMIT offset count taken from the positions after the LIMIT word *)
Inductive lim := LimPanic | LimErr | LimOk (offset count : Z).
Definition parse_limit (args : list bytes) : lim :=
  let pl := opt1 o_LIMIT args in
  if pl >? 2 then
    match arg pl args with
    | None => LimPanic
    | Some so =>
        match parse_int so with
        | None => LimErr
        | Some off =>
            match arg (pl + 1) args with
            | None => LimPanic
            | Some sc => match parse_int sc with None => LimErr | Some c => LimOk off c end
            end
        end
    end
  else LimOk 0 (-1).

Definition by_score_body (k : bytes) (mn mx : score) (off cnt : Z) (desc : bool) (mode : Z) (ws : bool) : hres :=
  HBody (fun now d =>
    lift (api_zread k [] (fun z => Some (zset_range_by_score mn mx off cnt desc mode z)) now d)
         (fun its d' => ret (items_reply ws its) d')).
Definition by_rank_body (k : bytes) (a b : Z) (desc : bool) (ws : bool) : hres :=
  HBody (fun now d =>
    lift (api_zread k [] (fun z => zset_by_rank a b desc z) now d)
         (fun its d' => ret (items_reply ws its) d')).

Definition first_byte_paren (o : option bytes) : option bool :=
  (* cmd.Args[i][0] == '(' : None = index panic (missing or empty argument) *)
  match o with
  | Some (b :: _) => Some (byte_eqb b x28)
  | _ => None
  end.

(* ZRANGE key start stop [BYSCORE] [REV] [LIMIT o c] [WITHSCORES] *)
Definition h_zrange (args : list bytes) : hres :=
  need 3 args
    (let k := a0 args in
     let ws := opt o_WITHSCORES args >? 2 in
     let rev := opt o_REV args >? 2 in
     if opt o_BYSCORE args >? 2 then
       match first_byte_paren (arg 1 args), first_byte_paren (arg 2 args) with
       | Some p1, Some p2 =>
           let mode := (if p1 then 1 else 0) + (if p2 then 2 else 0) in
           let smin := if rev then a2 args else a1 args in
           let smax := if rev then a1 args else a2 args in
           match pscore smin with
           | FErr => HErr
           | FUnmodelled => HUnm
           | FOk mn =>
               match pscore smax with
               | FErr => HErr
               | FUnmodelled => HUnm
               | FOk mx =>
                   match parse_limit args with
                   | LimPanic => HPanic
                   | LimErr => HErr
                   | LimOk off cnt => by_score_body k mn mx off cnt rev mode ws
                   end
               end
           end
       | _, _ => HPanic
       end
     else
       match parse_int (a1 args), parse_int (a2 args) with
       | Some a, Some b => by_rank_body k a b rev ws
       | _, _ => HErr
       end).
Definition h_zrevrange (args : list bytes) : hres :=
  need 3 args match parse_int (a1 args), parse_int (a2 args) with
              | Some a, Some b => by_rank_body (a0 args) a b true (opt o_WITHSCORES args >? 2)
              | _, _ => HErr
              end.
(* ZRANGEBYSCORE key min max / ZREVRANGEBYSCORE key max min *)
Definition h_zrangebyscore (rev : bool) (args : list bytes) : hres :=
  need 3 args
    (let imin := if rev then 2 else 1 in
     let imax := if rev then 1 else 2 in
     (* the code tests the bytes in the order: Args[imin][0], parse min, Args[imax][0], parse max *)
     match first_byte_paren (arg imin args) with
     | None => HPanic
     | Some pmin =>
         match pscore (match arg imin args with Some s => s | None => [] end) with
         | FErr => HErr
         | FUnmodelled => HUnm
         | FOk mn =>
             match first_byte_paren (arg imax args) with
             | None => HPanic
             | Some pmax =>
                 match pscore (match arg imax args with Some s => s | None => [] end) with
                 | FErr => HErr
                 | FUnmodelled => HUnm
                 | FOk mx =>
                     let mode := (if pmin then 1 else 0) + (if pmax then 2 else 0) in
                     match parse_limit args with
                     | LimPanic => HPanic
                     | LimErr => HErr
                     | LimOk off cnt => by_score_body (a0 args) mn mx off cnt rev mode (opt o_WITHSCORES args >? 2)
                     end
                 end
             end
         end
     end).
Definition h_zcount (args : list bytes) : hres :=
  need 3 args
    match first_byte_paren (arg 1 args) with
    | None => HPanic
    | Some p1 =>
        match pscore (a1 args) with
        | FErr => HErr | FUnmodelled => HUnm
        | FOk mn =>
            match first_byte_paren (arg 2 args) with
            | None => HPanic
            | Some p2 =>
                match pscore (a2 args) with
                | FErr => HErr | FUnmodelled => HUnm
                | FOk mx =>
                    let mode := (if p1 then 1 else 0) + (if p2 then 2 else 0) in
                    HBody (fun now d =>
                      lift (api_zread (a0 args) 0 (fun z => zset_zcount mn mx mode z) now d)
                           (fun n d' => ret [WInt n] d'))
                end
            end
        end
    end.
Definition h_zrem (args : list bytes) : hres :=
  need 2 args (HBody (fun now d =>
    lift (api_zmut (a0 args) (zset_zrem (tl args)) (PZRem (a0 args) (tl args)) now d) (fun n d' => ret [WInt n] d'))).
Definition h_zremrangebyrank (args : list bytes) : hres :=
  need 3 args match parse_int (a1 args), parse_int (a2 args) with
              | Some a, Some b => HBody (fun now d =>
                  lift (api_zmut (a0 args) (zset_remrange_rank a b) (PZRemRangeByRank (a0 args) a b) now d)
                       (fun n d' => ret [WInt n] d'))
              | _, _ => HErr
              end.
Definition h_zremrangebyscore (args : list bytes) : hres :=
  need 3 args
    match first_byte_paren (arg 1 args) with
    | None => HPanic
    | Some p1 =>
        match pscore (a1 args) with
        | FErr => HErr | FUnmodelled => HUnm
        | FOk mn =>
            match pscore (a2 args) with
            | FErr => HErr | FUnmodelled => HUnm
            | FOk mx =>
                match first_byte_paren (arg 2 args) with
                | None => HPanic
                | Some p2 =>
                    let mode := (if p1 then 1 else 0) + (if p2 then 2 else 0) in
                    HBody (fun now d =>
                      lift (api_zmut (a0 args) (zset_remrange_score mn mx mode)
                                     (PZRemRangeByScore (a0 args) mn mx mode) now d)
                           (fun n d' => ret [WInt n] d'))
                end
            end
        end
    end.
Definition h_zclear (args : list bytes) : hres :=
  need 1 args (HBody (fun now d => let '(_, d') := api_del [a0 args] now d in ret [WOK] d')).
Definition h_zexists (args : list bytes) : hres :=
  need 2 args (HBody (fun now d =>
    lift (api_zread (a0 args) false (fun z => Some (fm_mem (a1 args) (zd z))) now d) (fun b d' => ret [WInt (b2z b)] d'))).

(* ZUNIONSTORE / ZINTERSTORE dst numkeys key... [AGGREGATE x]; WEIGHTS is outside the model *)
Definition h_zstore (inter : bool) (args : list bytes) : hres :=
  need 3 args
    match parse_int (a1 args) with
    | None => HErr
    | Some nk =>
        if (nk <? 0) || (2 + nk >? nargs args) then HPanic
        else if opt1 o_WEIGHTS args >? 2 then HUnm
        else
          let ks := firstn (Z.to_nat nk) (skipn 2 args) in
          let pa := opt1 o_AGGREGATE args in
          match (if pa >? 2 then arg pa args else Some []) with
          | None => HPanic
          | Some an =>
              let a := upper an in
              let agg := if bytes_eqb a s_SUM || (match a with [] => true | _ => false end) then 0
                         else if bytes_eqb a s_MIN then 1 else if bytes_eqb a s_MAX then 2 else 3 in
              HBody (fun now d =>
                let dst := a0 args in
                lift (if inter then api_zinterstore dst ks agg now d else api_zunionstore dst ks agg now d)
                     (fun _ d1 => lift (api_zread dst 0 (fun z => Some (zset_zcard z)) now d1)
                                       (fun n d2 => ret [WInt n] d2)))
          end
    end.
(* ZSCAN key cursor [MATCH p] [COUNT n] *)
Definition h_zscan (args : list bytes) : hres :=
  need 2 args
    match parse_int (a1 args) with
    | None => HErr
    | Some cursor =>
        let pm := opt1 o_MATCH args in let pc := opt1 o_COUNT args in
        match (if pm >? 0 then arg pm args else Some [x2a]) with
        | None => HPanic
        | Some pat =>
            match (if pc >? 0 then pint (arg pc args) else Some (Some 10)) with
            | None => HPanic
            | Some None => HErr
            | Some (Some count) =>
                HBody (fun now d =>
                  if negb (pattern_modelled pat) then BUnm else
                  lift (api_zread (a0 args) (0, []) (zset_zscan cursor pat count) now d)
                       (fun r d' => ret (WArr 2 :: WBulk (format_int (fst r)) :: items_reply true (snd r)) d'))
            end
        end
    end.

(* ============================== server commands =============================== *)
Definition h_dbsize (args : list bytes) : hres :=
  HBody (fun now d => ret [WInt (Z.of_nat (length (idx d)))] d).
Definition h_flushdb (args : list bytes) : hres := HBody (fun now d => ret [WOK] (api_clear d)).
Definition h_save (args : list bytes) : hres := HBody (fun now d => ret [WOK] (flush now d)).
Definition h_ping (args : list bytes) : hres :=
  HBody (fun now d => ret [WBulk (match args with a :: _ => a | [] => s_PONG end)] d).
Definition h_echo (args : list bytes) : hres :=
  HBody (fun now d => ret [match args with a :: _ => WBulk a | [] => WNullBulk end] d).

(* ---- GetCommand ----------------------------------------------------------------- *)
Definition cn (l : list Z) : bytes := w l.
Definition cmd_table : list (bytes * (list bytes -> hres)) :=
  [ (cn [68;69;76], h_del); (cn [85;78;76;73;78;75], h_del); (cn [69;88;73;83;84;83], h_exists);
    (cn [69;88;80;73;82;69], h_expire); (cn [69;88;80;73;82;69;65;84], h_expireat);
    (cn [75;69;89;83], h_keys); (cn [84;84;76], h_ttl); (cn [80;84;84;76], h_pttl);
    (cn [80;69;82;83;73;83;84], h_persist); (cn [82;69;78;65;77;69], h_rename);
    (cn [82;69;78;65;77;69;78;88], h_renamenx); (cn [84;89;80;69], h_type); (cn [83;67;65;78], h_scan);
    (cn [83;69;84], h_set); (cn [77;83;69;84], h_mset); (cn [65;80;80;69;78;68], h_append);
    (cn [83;69;84;69;88], h_setex); (cn [83;69;84;78;88], h_setnx); (cn [71;69;84], h_get);
    (cn [71;69;84;83;69;84], h_getset); (cn [77;71;69;84], h_mget); (cn [83;69;84;82;65;78;71;69], h_setrange);
    (cn [71;69;84;82;65;78;71;69], h_getrange); (cn [83;84;82;76;69;78], h_strlen);
    (cn [73;78;67;82], h_incr); (cn [73;78;67;82;66;89], h_incrby); (cn [68;69;67;82], h_decr);
    (cn [68;69;67;82;66;89], h_decrby); (cn [73;78;67;82;66;89;70;76;79;65;84], h_incrbyfloat);
    (cn [83;69;84;66;73;84], h_setbit); (cn [71;69;84;66;73;84], h_getbit); (cn [66;73;84;67;79;85;78;84], h_bitcount);
    (cn [83;65;68;68], h_sadd); (cn [83;77;79;86;69], h_smove); (cn [83;83;67;65;78], h_sscan);
    (cn [83;67;65;82;68], h_scard); (cn [83;80;79;80], h_spop);
    (cn [83;68;73;70;70], h_salgebra api_sdiff); (cn [83;68;73;70;70;83;84;79;82;69], h_sstore true api_sdiff);
    (cn [83;73;78;84;69;82], h_salgebra api_sinter); (cn [83;73;78;84;69;82;83;84;79;82;69], h_sstore true api_sinter);
    (cn [83;85;78;73;79;78], h_salgebra api_sunion); (cn [83;85;78;73;79;78;83;84;79;82;69], h_sstore false api_sunion);
    (cn [83;73;83;77;69;77;66;69;82], h_sismember); (cn [83;77;69;77;66;69;82;83], h_smembers);
    (cn [83;82;69;77], h_srem);
    (cn [72;83;69;84], h_hset); (cn [72;71;69;84], h_hget); (cn [72;68;69;76], h_hdel); (cn [72;76;69;78], h_hlen);
    (cn [72;75;69;89;83], h_hkeys); (cn [72;69;88;73;83;84;83], h_hexists); (cn [72;71;69;84;65;76;76], h_hgetall);
    (cn [72;73;78;67;82;66;89], h_hincrby); (cn [72;73;78;67;82;66;89;70;76;79;65;84], h_hincrbyfloat);
    (cn [72;83;69;84;78;88], h_hsetnx); (cn [72;77;71;69;84], h_hmget); (cn [72;77;83;69;84], h_hmset);
    (cn [72;67;76;69;65;82], h_hclear); (cn [72;83;84;82;76;69;78], h_hstrlen); (cn [72;83;67;65;78], h_hscan);
    (cn [72;86;65;76;83], h_hvals);
    (cn [76;80;85;83;72], h_push true); (cn [82;80;85;83;72], h_push false);
    (cn [76;80;79;80], h_pop true); (cn [82;80;79;80], h_pop false); (cn [76;76;69;78], h_llen);
    (cn [76;73;78;68;69;88], h_lindex); (cn [76;73;78;83;69;82;84], h_linsert);
    (cn [76;80;85;83;72;88], h_pushx true); (cn [82;80;85;83;72;88], h_pushx false);
    (cn [76;82;69;77], h_lrem); (cn [76;84;82;73;77], h_ltrim); (cn [76;83;69;84], h_lset);
    (cn [76;82;65;78;71;69], h_lrange); (cn [76;80;79;80;82;80;85;83;72], h_move true);
    (cn [82;80;79;80;76;80;85;83;72], h_move false);
    (cn [90;65;68;68], h_zadd); (cn [90;67;65;82;68], h_zcard); (cn [90;82;65;78;75], h_zrank false);
    (cn [90;82;69;86;82;65;78;75], h_zrank true); (cn [90;83;67;79;82;69], h_zscore);
    (cn [90;73;78;67;82;66;89], h_zincrby); (cn [90;82;65;78;71;69], h_zrange);
    (cn [90;82;69;86;82;65;78;71;69], h_zrevrange);
    (cn [90;82;65;78;71;69;66;89;83;67;79;82;69], h_zrangebyscore false);
    (cn [90;82;69;86;82;65;78;71;69;66;89;83;67;79;82;69], h_zrangebyscore true);
    (cn [90;82;69;77], h_zrem); (cn [90;67;79;85;78;84], h_zcount);
    (cn [90;82;69;77;82;65;78;71;69;66;89;82;65;78;75], h_zremrangebyrank);
    (cn [90;82;69;77;82;65;78;71;69;66;89;83;67;79;82;69], h_zremrangebyscore);
    (cn [90;67;76;69;65;82], h_zclear); (cn [90;85;78;73;79;78;83;84;79;82;69], h_zstore false);
    (cn [90;73;78;84;69;82;83;84;79;82;69], h_zstore true); (cn [90;69;88;73;83;84;83], h_zexists);
    (cn [90;83;67;65;78], h_zscan);
    (cn [68;66;83;73;90;69], h_dbsize); (cn [70;76;85;83;72;68;66], h_flushdb);
    (cn [70;76;85;83;72;65;76;76], h_flushdb); (cn [83;65;86;69], h_save);
    (cn [80;73;78;71], h_ping); (cn [69;67;72;79], h_echo) ].

(* names the real table knows but the model does not cover *)
Definition unmodelled_names : list bytes :=
  [ cn [67;76;73;69;78;84]; cn [67;79;78;70;73;71]; cn [73;78;70;79]; cn [81;85;73;84];
    cn [82;65;78;68;79;77;75;69;89]; cn [83;82;65;78;68;77;69;77;66;69;82];
    cn [66;76;80;79;80]; cn [66;82;80;79;80];
    cn [71;69;79;65;68;68]; cn [71;69;79;68;73;83;84]; cn [71;69;79;72;65;83;72]; cn [71;69;79;80;79;83];
    cn [71;69;79;82;65;68;73;85;83]; cn [71;69;79;82;65;68;73;85;83;66;89;77;69;77;66;69;82] ].

Fixpoint lookup_cmd (name : bytes) (t : list (bytes * (list bytes -> hres))) : option (list bytes -> hres) :=
  match t with
  | [] => None
  | (n, h) :: r => if bytes_eqb n name then Some h else lookup_cmd name r
  end.
