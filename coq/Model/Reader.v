(* redis/resp.go Reader: ReadCommand for the array-of-bulk-strings syntax.
   The buffer is kept as three segments  buf = pre ++ win ++ post  where |pre| = r.r,
   |win| = r.l (the window under construction) and post is the spare room; the network
   is a byte stream plus an oracle that says how many bytes each Read call delivers
   (any fragmentation).  Every Read request size is logged. *)
From Nodis Require Import Base.Bytes Model.Num.
From Coq Require Import ZArith NArith List Bool.
Local Open Scope Z_scope.

Record net := {
  stream : bytes;          (* bytes not yet delivered *)
  cuts : list nat;         (* oracle: size offered by each successive Read *)
  reqs : list nat          (* log of requested sizes, most recent first *)
}.

(* Read(p) with len p = want: delivers between 1 and min(want, available) bytes; a
   zero-length request returns at once; nothing available = EOF (None) *)
Definition net_read (want : nat) (n : net) : option (bytes * net) :=
  match want with
  | O => Some ([], {| stream := stream n; cuts := cuts n; reqs := O :: reqs n |})
  | _ =>
      match stream n with
      | [] => None
      | _ =>
          let offered := match cuts n with c :: _ => c | [] => want end in
          let k := Nat.max 1 (Nat.min (Nat.min offered want) (length (stream n))) in
          Some (firstn k (stream n),
                {| stream := skipn k (stream n); cuts := tl (cuts n); reqs := want :: reqs n |})
      end
  end.

Record rd := { pre : bytes; win : bytes; post : bytes }.
Definition rd_init : rd := {| pre := []; win := []; post := repeat x00 4096 |}.
Definition cap (s : rd) : nat := length (pre s) + length (win s) + length (post s).

(* grow(n): make room for n more bytes after the window *)
Definition grow (n : nat) (s : rd) : rd :=
  if Nat.leb (length (pre s) + length (win s) + n) (cap s) then s
  else {| pre := pre s; win := win s;
          post := post s ++ repeat x00 (length (pre s) + length (win s) + n - cap s) |}.

(* reset(): r = 0, l = 0; the buffer keeps its size and contents *)
Definition rd_reset (s : rd) : rd := {| pre := []; win := []; post := pre s ++ win s ++ post s |}.
(* malloc(): r += l; l = 0 *)
Definition malloc (s : rd) : rd := {| pre := pre s ++ win s; win := []; post := post s |}.

Definition put (bs : bytes) (s : rd) : rd :=
  {| pre := pre s; win := win s ++ bs; post := skipn (length bs) (post s) |}.

Definition readByte (s : rd) (n : net) : option (rd * net) :=
  let s1 := grow 4096 s in
  match net_read 1 n with
  | None => None
  | Some (bs, n') => Some (put bs s1, n')
  end.

(* readByteN(n): loop until the window holds n bytes *)
Fixpoint readN_loop (fuel : nat) (want_total : nat) (s : rd) (n : net) : option (rd * net) :=
  match fuel with
  | O => None
  | S f =>
      match net_read (want_total - length (win s)) n with
      | None => None
      | Some (bs, n') =>
          let s' := put bs s in
          if Nat.ltb (length (win s')) want_total then readN_loop f want_total s' n' else Some (s', n')
      end
  end.
Definition readByteN (k : nat) (s : rd) (n : net) : option (rd * net) :=
  readN_loop (S k) k (grow k s) n.

Definition LF : byte := x0a.
Definition CR : byte := x0d.

(* readLine: bytes up to and including the first '\n' seen once the window has more than
   one byte; the last two bytes are then dropped from the window (not checked to be CR LF) *)
Fixpoint readLine_loop (fuel : nat) (s : rd) (n : net) : option (rd * net) :=
  match fuel with
  | O => None
  | S f =>
      match readByte s n with
      | None => None
      | Some (s', n') =>
          if Nat.ltb 1 (length (win s')) && byte_eqb (last (win s') x00) LF then
            let k := (length (win s') - 2)%nat in
            Some ({| pre := pre s'; win := firstn k (win s'); post := skipn k (win s') ++ post s' |}, n')
          else readLine_loop f s' n'
      end
  end.
(* fuel: a line cannot be longer than what the network still holds *)
Definition readLine (s : rd) (n : net) : option (rd * net) :=
  readLine_loop (S (length (stream n))) s n.

Inductive rerr := EEOF | EArrayLen | EBulk.

(* readInteger: the window as a decimal int64, then malloc *)
Definition readInteger (s : rd) (n : net) : option (option Z * rd * net) :=
  match readLine s n with
  | None => None
  | Some (s', n') => Some (parse_int (win s'), malloc s', n')
  end.

Definition max_bulk : Z := 536870912.

Inductive bulk_res :=
| BVal (v : bytes) (s : rd) (n : net)
| BErr                       (* any error: the caller reports "expected array" *).

Definition readBulk (s : rd) (n : net) : bulk_res :=
  match readByte s n with
  | None => BErr
  | Some (s1, n1) =>
      match win s1 with
      | b :: _ =>
          if negb (byte_eqb b x24) then BErr          (* '$' *)
          else
            match readInteger (malloc s1) n1 with
            | None => BErr
            | Some (None, _, _) => BErr
            | Some (Some len, s2, n2) =>
                if (len <? 0) || (len >? max_bulk) then BErr
                else
                  (* more than the network still holds can only end in EOF: cap the request *)
                  match readByteN (Z.to_nat (Z.min len (Z.of_nat (length (stream n2)) + 1))) s2 n2 with
                  | None => BErr
                  | Some (s3, n3) =>
                      let v := win s3 in
                      match readLine (malloc s3) n3 with
                      | None => BErr
                      | Some (s4, n4) => BVal v (malloc s4) n4
                      end
                  end
            end
      | [] => BErr
      end
  end.

Inductive cmd_res :=
| CCmd (name : bytes) (args : list bytes) (s : rd) (n : net)
| CErr (e : rerr)           (* the connection is answered with an error and closed *)
| CInline.                  (* inline (telnet) syntax: outside the model *)

Fixpoint read_bulks (k : nat) (s : rd) (n : net) : option (list bytes * rd * net) :=
  match k with
  | O => Some ([], s, n)
  | S k' =>
      match readBulk s n with
      | BErr => None
      | BVal v s' n' =>
          match read_bulks k' s' n' with
          | None => None
          | Some (vs, s'', n'') => Some (v :: vs, s'', n'')
          end
      end
  end.

(* strings.ToUpper of internal/strings on ASCII input *)
Definition cmd_upper (v : bytes) : bytes := upper v.

Definition ReadCommand (s0 : rd) (n : net) : cmd_res :=
  let s := rd_reset s0 in
  match readByte s n with
  | None => CErr EEOF
  | Some (s1, n1) =>
      match win s1 with
      | b :: _ =>
          if negb (byte_eqb b x2a) then CInline
          else
            match readInteger (malloc s1) n1 with
            | None => CErr EArrayLen
            | Some (None, _, _) => CErr EArrayLen
            | Some (Some cnt, s2, n2) =>
                if cnt <=? 0 then CCmd [] [] s2 n2
                else
                  (* every bulk consumes at least one byte: a larger count fails the same way *)
                  match read_bulks (Z.to_nat (Z.min cnt (Z.of_nat (length (stream n2)) + 1))) s2 n2 with
                  | None => CErr EBulk
                  | Some (v :: vs, s3, n3) => CCmd (cmd_upper v) vs s3 n3
                  | Some ([], s3, n3) => CCmd [] [] s3 n3
                  end
            end
      | [] => CErr EEOF
      end
  end.

(* the RESP encoding of a command: array of bulk strings *)
Definition crlf : bytes := [CR; LF].
Definition enc_bulk (a : bytes) : bytes := x24 :: format_int (Z.of_nat (length a)) ++ crlf ++ a ++ crlf.
Definition enc_cmd (name : bytes) (args : list bytes) : bytes :=
  x2a :: format_int (Z.of_nat (S (length args))) ++ crlf ++ enc_bulk name ++ concat (map enc_bulk args).
