(* C06: key locks as Go's sync.RWMutex really behaves - a writer that has announced itself (Lock() called,
   waiting for the active readers to leave) admits no new reader - and commands as lock programs:
   the keys a command locks, in the order it locks them, all released together at the end (tx.commit).
   The lock state is read off the threads: the readers of k are the threads with k in held_r, its writer the
   thread with k in held_w, its announced writer the thread with ann = Some k. *)
From Coq Require Import List Arith Bool Lia.
Import ListNotations.

Inductive act := RL (k : nat) | WL (k : nat).
Definition akey (a : act) : nat := match a with RL k => k | WL k => k end.

Record th := { prog : list act; held_r : list nat; held_w : list nat; ann : option nat }.

Definition memb (k : nat) (l : list nat) : bool := existsb (Nat.eqb k) l.
Definition ann_is (k : nat) (x : th) : bool := match ann x with Some j => Nat.eqb j k | None => false end.
(* does any thread other than t satisfy p? *)
Fixpoint other_sat (p : th -> bool) (t : nat) (i : nat) (ths : list th) : bool :=
  match ths with
  | [] => false
  | x :: r => (negb (Nat.eqb i t) && p x) || other_sat p t (S i) r
  end.
Definition others (p : th -> bool) (t : nat) (ths : list th) : bool := other_sat p t 0 ths.

Fixpoint set_nth (t : nat) (x : th) (ths : list th) : list th :=
  match ths, t with
  | [], _ => []
  | _ :: r, 0 => x :: r
  | y :: r, S t' => y :: set_nth t' x r
  end.

Definition finished (x : th) : bool :=
  match prog x, held_r x, held_w x with [], [], [] => true | _, _, _ => false end.

(* one step of thread t; None = not enabled (finished, or waiting inside RLock / Lock) *)
Definition step (t : nat) (ths : list th) : option (list th) :=
  match nth_error ths t with
  | None => None
  | Some x =>
      match prog x with
      | [] =>
          if finished x then None
          else Some (set_nth t {| prog := []; held_r := []; held_w := []; ann := None |} ths)   (* tx.commit *)
      | RL k :: rest =>
          if memb k (held_r x) || memb k (held_w x)
          then Some (set_nth t {| prog := rest; held_r := held_r x; held_w := held_w x; ann := ann x |} ths)   (* tx.holds *)
          else if others (fun y => memb k (held_w y) || ann_is k y) t ths then None
          else Some (set_nth t {| prog := rest; held_r := k :: held_r x; held_w := held_w x; ann := ann x |} ths)
      | WL k :: rest =>
          if memb k (held_w x)
          then Some (set_nth t {| prog := rest; held_r := held_r x; held_w := held_w x; ann := ann x |} ths)   (* tx.holds as writer *)
          else match ann x with
               | None =>
                   (* Lock(): take the writer mutex and announce *)
                   if others (fun y => memb k (held_w y) || ann_is k y) t ths then None
                   else Some (set_nth t {| prog := prog x; held_r := held_r x; held_w := held_w x; ann := Some k |} ths)
               | Some _ =>
                   (* announced: wait until no reader is left (a read lock of its own is never released: it waits for ever) *)
                   if memb k (held_r x) || others (fun y => memb k (held_r y)) t ths then None
                   else Some (set_nth t {| prog := rest; held_r := held_r x; held_w := k :: held_w x; ann := None |} ths)
               end
      end
  end.

Definition apply (ths : list th) (t : nat) : list th := match step t ths with Some s => s | None => ths end.
Definition run (sched : list nat) (ths : list th) : list th := fold_left apply sched ths.
Definition start (ps : list (list act)) : list th :=
  map (fun p => {| prog := p; held_r := []; held_w := []; ann := None |}) ps.

Definition enabled (t : nat) (ths : list th) : bool := match step t ths with Some _ => true | None => false end.
Definition all_finished (ths : list th) : bool := forallb finished ths.
Definition deadlocked (ths : list th) : bool :=
  negb (all_finished ths) && forallb (fun t => negb (enabled t ths)) (seq 0 (length ths)).

(* the reader form of the lock-order deadlock (vh lockorder): keys a = 0, b = 1.
   T0 = EXISTS a b a with a missing at the first look-up: locks b, then a;  T1 = EXISTS a b;  T2 = RPUSH b;  T3 = RPUSH a *)
Definition lockorder_readers : list (list act) := [[RL 1; RL 0]; [RL 0; RL 1]; [WL 1]; [WL 0]].
Example reader_lock_order_deadlock : deadlocked (run [0; 1; 2; 3] (start lockorder_readers)) = true.
Proof. vm_compute. reflexivity. Qed.
(* without the writers the two readers share both locks and finish *)
Example readers_alone_finish : all_finished (run [0; 1; 0; 1; 0; 1] (start [[RL 1; RL 0]; [RL 0; RL 1]])) = true.
Proof. vm_compute. reflexivity. Qed.
(* opposite moves: the writer form *)
Example writer_lock_order_deadlock : deadlocked (run [0; 0; 1; 1; 0; 1] (start [[WL 0; WL 1]; [WL 1; WL 0]])) = true.
Proof. vm_compute. reflexivity. Qed.
(* the writer preference itself (vh lockorder pref): a reader holds k, a writer has called Lock(k): a second reader
   cannot enter; once the first reader commits, everybody finishes *)
Definition pref_progs : list (list act) := [[RL 0]; [WL 0]; [RL 0]].
Example writer_preference_blocks_reader :
  enabled 2 (run [0; 1] (start pref_progs)) = false /\ enabled 2 (run [0] (start pref_progs)) = true.
Proof. vm_compute. split; reflexivity. Qed.
Example writer_preference_all_finish : all_finished (run [0; 1; 2; 0; 1; 1; 2; 2] (start pref_progs)) = true.
Proof. vm_compute. reflexivity. Qed.
