(* Storage codecs: ds.Key.Encode/DecodeKey, storage.Entry envelope and the five
   payload codecs (GetValue/SetValue of ds/str, ds/list, ds/hash, ds/set, ds/zset).
   Byte-for-byte model of the encoders; decoders return None where the Go code
   would panic or stop on input that no encoder produces. *)
From Nodis Require Import Base.Bytes Base.Varint.
From Coq Require Import ZArith NArith List.
Local Open Scope Z_scope.

(* ---- key codec (ds/ds.go) ------------------------------------------------ *)
(* Encode: b := make([]byte, MaxVarintLen64+len(name)); n := PutVarint(b, exp);
           copy(b[n:], name); return b[:n+len(name)] *)
Definition key_enc (name : bytes) (exp : Z) : bytes := put_varint exp ++ name.

(* DecodeKey: empty input or a varint that does not terminate => ErrCorruptedData *)
Definition key_dec (b : bytes) : option (bytes * Z) :=
  match b with
  | [] => None
  | _ => let '(e, n) := varint_dec b in
         if n <=? 0 then None else Some (skipn (Z.to_nat n) b, e)
  end.

(* ---- entry envelope (storage/entry.go) ----------------------------------- *)
Definition entry_enc (typ : byte) (payload : bytes) : bytes := typ :: payload.
Definition entry_dec (b : bytes) : option (byte * bytes) :=
  match b with [] => None | t :: p => Some (t, p) end.

(* ---- length-prefixed record streams -------------------------------------- *)
Definition rec_enc (r : bytes) : bytes := put_varint (blen r) ++ r.
Definition recs_enc (rs : list bytes) : bytes := concat (map rec_enc rs).

Fixpoint recs_dec (fuel : nat) (buf : bytes) : option (list bytes) :=
  match fuel with
  | O => None
  | S f =>
      match buf with
      | [] => Some []
      | _ =>
          let '(l, n) := varint_dec buf in
          if (n <=? 0) || (l <? 0) || (blen buf <? n + l) then None
          else
            let r := firstn (Z.to_nat l) (skipn (Z.to_nat n) buf) in
            let rest := skipn (Z.to_nat (n + l)) buf in
            match recs_dec f rest with
            | Some rs => Some (r :: rs)
            | None => None
            end
      end
  end.

Definition recs_decode (buf : bytes) : option (list bytes) :=
  recs_dec (S (length buf)) buf.

(* ---- payloads ------------------------------------------------------------- *)
(* str: identity *)
Definition str_enc (v : bytes) : bytes := v.
Definition str_dec (b : bytes) : bytes := b.

(* list: elements head to tail *)
Definition list_enc (xs : list bytes) : bytes := recs_enc xs.
Definition list_dec (b : bytes) : option (list bytes) := recs_decode b.

(* set: members in btree (ascending) order *)
Definition set_enc (ms : list bytes) : bytes := recs_enc ms.
Definition set_dec (b : bytes) : option (list bytes) := recs_decode b.

(* hash: record = varint(len field) ++ field ++ value *)
Definition pair_enc (kv : bytes * bytes) : bytes :=
  put_varint (blen (fst kv)) ++ fst kv ++ snd kv.
Definition pair_dec (r : bytes) : option (bytes * bytes) :=
  let '(l, n) := varint_dec r in
  if (n <=? 0) || (l <? 0) || (blen r <? n + l) then None
  else let body := skipn (Z.to_nat n) r in
       Some (firstn (Z.to_nat l) body, skipn (Z.to_nat l) body).

Fixpoint map_opt {A B} (f : A -> option B) (l : list A) : option (list B) :=
  match l with
  | [] => Some []
  | x :: r => match f x, map_opt f r with
              | Some y, Some ys => Some (y :: ys)
              | _, _ => None
              end
  end.

Definition hash_enc (kvs : list (bytes * bytes)) : bytes := recs_enc (map pair_enc kvs).
Definition hash_dec (b : bytes) : option (list (bytes * bytes)) :=
  match recs_decode b with
  | Some rs => map_opt pair_dec rs
  | None => None
  end.

(* zset: record = 8 bytes little-endian IEEE bits ++ member *)
Fixpoint lebytes_enc (nbytes : nat) (x : N) : bytes :=
  match nbytes with
  | O => []
  | S k => n2b (x mod 256)%N :: lebytes_enc k (x / 256)%N
  end.
Fixpoint lebytes_dec (b : bytes) : N :=
  match b with
  | [] => 0%N
  | x :: r => (b2n x + 256 * lebytes_dec r)%N
  end.

Definition item_enc (it : N * bytes) : bytes := lebytes_enc 8 (fst it) ++ snd it.
Definition item_dec (r : bytes) : option (N * bytes) :=
  if blen r <? 8 then None else Some (lebytes_dec (firstn 8 r), skipn 8 r).

Definition zset_enc (its : list (N * bytes)) : bytes := recs_enc (map item_enc its).
Definition zset_dec (b : bytes) : option (list (N * bytes)) :=
  match recs_decode b with
  | Some rs => map_opt item_dec rs
  | None => None
  end.
