(* The embedded API: key.go str.go list.go hash.go set.go zset.go, method by method, in
   the order of the Go statements.  [now] is the clock reading of the call. *)
From Nodis Require Import Base.Bytes Model.Num Model.FMap Model.DsStr Model.DsList Model.DsHash
     Model.DsSet Model.DsZSet Model.Db.
From Coq Require Import ZArith NArith List Bool.
Local Open Scope Z_scope.

(* outcome of an API call: normal, Go panic (state changes made so far persist; the
   deferred commit releases the locks), or outside the modelled domain *)
Inductive res (A : Type) :=
| Ok (a : A) (d : db)
| Panic (d : db)
| Unm.
Arguments Ok {A}. Arguments Panic {A}. Arguments Unm {A}.

Definition bind {A B} (r : res A) (f : A -> db -> res B) : res B :=
  match r with Ok a d => f a d | Panic d => Panic d | Unm => Unm end.
Notation "' p <- r ;; k" := (bind r (fun x d => let p := (x, d) in k))
  (at level 61, p pattern, r at next level, right associativity).

Definition notify (o : pop) (d : db) : db := emit (EvNotify o) d.

(* type assertion on meta.value: a wrong dynamic type panics *)
Definition as_str (m : meta) (d : db) : option strv :=
  match val_of m d with Some (VStr s) => Some s | _ => None end.
Definition as_list (m : meta) (d : db) : option listv :=
  match val_of m d with Some (VList s) => Some s | _ => None end.
Definition as_hash (m : meta) (d : db) : option hashv :=
  match val_of m d with Some (VHash s) => Some s | _ => None end.
Definition as_set (m : meta) (d : db) : option setv :=
  match val_of m d with Some (VSet s) => Some s | _ => None end.
Definition as_zset (m : meta) (d : db) : option zsetv :=
  match val_of m d with Some (VZSet s) => Some s | _ => None end.

Definition new_str : option value := Some (VStr str_new).
Definition new_list : option value := Some (VList list_new).
Definition new_hash : option value := Some (VHash hash_new).
Definition new_set : option value := Some (VSet set_new).
Definition new_zset : option value := Some (VZSet zset_new).

(* =============================== key.go ===================================== *)
Fixpoint api_del (ks : list bytes) (now : Z) (d : db) : Z * db :=
  match ks with
  | [] => (0, d)
  | k :: r =>
      match write_key k None now d with
      | (None, d1) => api_del r now d1
      | (Some _, d1) => let '(c, d2) := api_del r now (notify (PDel k) (del_meta k d1)) in (c + 1, d2)
      end
  end.
(* Clear(): the store is emptied, then the record is emitted *)
Definition api_clear (d : db) : db := notify PClear (clear d).

Fixpoint api_exists (ks : list bytes) (now : Z) (d : db) : Z * db :=
  match ks with
  | [] => (0, d)
  | k :: r =>
      match read_key k now d with
      | (None, d1) => api_exists r now d1
      | (Some _, d1) => let '(c, d2) := api_exists r now d1 in (c + 1, d2)
      end
  end.

(* the common tail of the Expire* family *)
Definition exp_commit (k : bytes) (m : meta) (e : Z) (d : db) : db :=
  let d1 := set_exp m e d in
  notify (PExpire k e) (signal k m d1).

Definition api_expire (k : bytes) (seconds now : Z) (d : db) : Z * db :=
  if seconds =? 0 then api_del [k] now d
  else match write_key k None now d with
       | (None, d1) => (0, d1)
       | (Some m, d1) => (1, exp_commit k m (wrap64 (now + wrap64 (seconds * 1000))) d1)
       end.
Definition api_expire_px (k : bytes) (ms now : Z) (d : db) : Z * db :=
  if ms =? 0 then api_del [k] now d
  else match write_key k None now d with
       | (None, d1) => (0, d1)
       | (Some m, d1) =>
           let base := if exp_of m d1 =? 0 then now else exp_of m d1 in
           (1, exp_commit k m (wrap64 (base + ms)) d1)
       end.
Definition api_expire_nx (k : bytes) (seconds now : Z) (d : db) : Z * db :=
  match write_key k None now d with
  | (None, d1) => (0, d1)
  | (Some m, d1) =>
      if negb (exp_of m d1 =? 0) then (0, d1)
      else (1, exp_commit k m (wrap64 (now + wrap64 (seconds * 1000))) d1)
  end.
Definition api_expire_xx (k : bytes) (seconds now : Z) (d : db) : Z * db :=
  match write_key k None now d with
  | (None, d1) => (0, d1)
  | (Some m, d1) =>
      if exp_of m d1 =? 0 then (0, d1)
      else (1, exp_commit k m (wrap64 (exp_of m d1 + wrap64 (seconds * 1000))) d1)
  end.
Definition api_expire_lt (k : bytes) (seconds now : Z) (d : db) : Z * db :=
  match write_key k None now d with
  | (None, d1) => (0, d1)
  | (Some m, d1) =>
      if exp_of m d1 =? 0 then (0, d1)
      else let ms := wrap64 (seconds * 1000) in
           if exp_of m d1 >? wrap64 (now - ms)
           then (1, exp_commit k m (wrap64 (exp_of m d1 - ms)) d1)
           else (1, d1)
  end.
Definition api_expire_gt (k : bytes) (seconds now : Z) (d : db) : Z * db :=
  match write_key k None now d with
  | (None, d1) => (0, d1)
  | (Some m, d1) =>
      let base := if exp_of m d1 =? 0 then now else exp_of m d1 in
      let ms := wrap64 (seconds * 1000) in
      if base <? wrap64 (now + ms)
      then (1, exp_commit k m (wrap64 (base + ms)) d1)
      else (0, d1)
  end.
(* ExpireAt family: [ts] is timestamp.UnixMilli() *)
Definition api_expireat (k : bytes) (ts now : Z) (d : db) : Z * db :=
  match write_key k None now d with
  | (None, d1) => (0, d1)
  | (Some m, d1) => (1, exp_commit k m ts d1)
  end.
Definition api_expireat_nx (k : bytes) (ts now : Z) (d : db) : Z * db :=
  match write_key k None now d with
  | (None, d1) => (0, d1)
  | (Some m, d1) => if negb (exp_of m d1 =? 0) then (0, d1) else (1, exp_commit k m ts d1)
  end.
(* ExpireAtXX has the same test as NX in the code *)
Definition api_expireat_xx := api_expireat_nx.
Definition api_expireat_lt (k : bytes) (ts now : Z) (d : db) : Z * db :=
  match write_key k None now d with
  | (None, d1) => (0, d1)
  | (Some m, d1) =>
      if negb (exp_of m d1 =? 0) then (0, d1)
      else if exp_of m d1 >? ts then (1, exp_commit k m ts d1) else (1, d1)
  end.
Definition api_expireat_gt (k : bytes) (ts now : Z) (d : db) : Z * db :=
  match write_key k None now d with
  | (None, d1) => (0, d1)
  | (Some m, d1) =>
      if exp_of m d1 <? ts then (1, exp_commit k m ts d1) else (1, d1)
  end.

(* Keys(pattern): index order; expired ones filtered; no touch *)
Definition api_keys (pat : bytes) (now : Z) (d : db) : list bytes :=
  map fst (filter (fun e => glob_match pat (fst e) && negb (expired (snd e) now d)) (idx d)).

(* time.Until(..).Round(time.Second) then int64(v.Seconds()): round half away from zero *)
(* time.Until saturates at the largest Duration (2^63-1 ns) *)
Definition round_div_1000 (ms : Z) : Z :=
  if ms >? 9223372036854 then 9223372036
  else if ms <? -9223372036854 then -9223372036
  else if ms >=? 0 then (ms + 500) / 1000 else - ((- ms + 500) / 1000).
(* TTL: seconds, -1, -2.  The handler compares the Duration with -1/-2 nanoseconds, which a
   rounded value never equals. *)
Definition api_ttl (k : bytes) (now : Z) (d : db) : Z * db :=
  match read_key k now d with
  | (None, d1) => (-2, d1)
  | (Some m, d1) => if exp_of m d1 =? 0 then (-1, d1) else (round_div_1000 (exp_of m d1 - now), d1)
  end.
Definition api_pttl (k : bytes) (now : Z) (d : db) : Z * db :=
  match read_key k now d with
  | (None, d1) => (-2, d1)
  | (Some m, d1) => if exp_of m d1 =? 0 then (-1, d1) else (exp_of m d1 - now, d1)
  end.

(* Rename: true = error returned (source missing) *)
Definition api_rename (k dst : bytes) (now : Z) (d : db) : bool * db :=
  match write_key k None now d with
  | (None, d1) => (true, d1)
  | (Some m, d1) =>
      if bytes_eqb k dst then (false, d1)   (* renaming a key to itself changes nothing *)
      else
      let '(odst, d2) := write_key dst None now d1 in
      let d3 := del_meta k d2 in
      match odst with
      | Some dm =>
          (* destination record kept (its own deadline); value object of the source *)
          let dm' := match fm_get dst (idx d3) with Some x => x | None => dm end in
          let present := match fm_get dst (idx d3) with Some _ => true | None => false end in
          let dm2 := match m_val m with Some o => meta_set_value dm' o d3 | None => dm' end in
          (* signalModifiedKey(dstKey, dstMeta) marks the destination record modified *)
          let d4 := if present then put_meta dst (meta_with_mod dm2 true) d3 else d3 in
          (false, notify (PRename k dst) (emit (EvSignal dst) (emit (EvSignal k) d4)))
      | None =>
          let '(kr, d4) := alloc_key dst (exp_of m d3) d3 in
          let dm := {| m_key := kr; m_val := None; m_mod := false; m_count := 0; m_vtype := 0 |} in
          let dm2 := match m_val m with Some o => meta_set_value dm o d4 | None => dm end in
          let d5 := put_meta dst dm2 d4 in
          (* signalModifiedKey(dstKey, dstMeta) marks the new record modified *)
          let d6 := put_meta dst (meta_with_mod dm2 true) d5 in
          (false, notify (PRename k dst) (emit (EvSignal dst) (emit (EvSignal k) d6)))
      end
  end.

(* RenameNX: 0 ok, 1 "newKey exists", 2 "key does not exist" *)
Definition api_renamenx (k dst : bytes) (now : Z) (d : db) : Z * db :=
  match write_key dst None now d with
  | (Some _, d1) => (1, d1)
  | (None, d1) =>
      match write_key k None now d1 with
      | (None, d2) => (2, d2)
      | (Some m, d2) =>
          let d3 := del_meta k d2 in
          let '(kr, d4) := alloc_key dst (exp_of m d3) d3 in
          let dm := {| m_key := kr; m_val := None; m_mod := false; m_count := 0; m_vtype := 0 |} in
          let dm2 := match m_val m with Some o => meta_set_value dm o d4 | None => dm end in
          let d5 := put_meta dst (meta_with_mod dm2 true) d4 in
          (0, notify (PRename k dst) (emit (EvSignal dst) (emit (EvSignal k) d5)))
      end
  end.

Definition type_name (t : Z) : bytes :=
  bytes_of_ascii
    (if (t =? 1)%Z then [115;116;114;105;110;103]%N
     else if (t =? 2)%Z then [115;101;116]%N
     else if (t =? 3)%Z then [108;105;115;116]%N
     else if (t =? 4)%Z then [122;115;101;116]%N
     else if (t =? 5)%Z then [104;97;115;104]%N
     else [110;111;110;101]%N).
Definition api_type (k : bytes) (now : Z) (d : db) : bytes * db :=
  match read_key k now d with
  | (None, d1) => (type_name 0, d1)
  | (Some m, d1) => (type_name (match val_of m d1 with Some v => vtype v | None => 0 end), d1)
  end.

(* Scan(cursor, match, count, typ) -> (next cursor, keys).  Every visited entry past the
   cursor is touched (rLockKey).  The loop reports whether it walked the index to its end. *)
Fixpoint scan_loop (es : list (bytes * meta)) (iter cursor count keylen : Z) (pat : bytes)
         (typ now : Z) (d : db) : Z * bool * list bytes * db :=
  match es with
  | [] => (iter, true, [], d)
  | (k, _) :: r =>
      let iter := iter + 1 in
      let cursor := cursor - 1 in
      if cursor >? 0 then scan_loop r iter cursor count keylen pat typ now d
      else if iter >? keylen then (0, true, [], d)
      else if count =? 0 then (iter, false, [], d)
      else
        let '(om, d1) := touch k d in
        let hit := match om with
                   | Some m => glob_match pat k && negb (expired m now d1)
                               && ((typ =? 0) || (m_vtype m =? typ))
                   | None => false
                   end in
        let '(it, fin, ks, d2) := scan_loop r iter cursor (count - 1) keylen pat typ now d1 in
        (it, fin, (if hit then k :: ks else ks), d2)
  end.
Definition api_scan (cursor : Z) (pat : bytes) (count typ now : Z) (d : db) : Z * list bytes * db :=
  let keylen := Z.of_nat (length (idx d)) in
  if (keylen =? 0) || (cursor >? keylen) then (0, [], d)
  else let '(it, fin, ks, d') := scan_loop (idx d) 0 cursor count keylen pat typ now d in
       ((if fin then 0 else it), ks, d').

Definition live_keys (now : Z) (d : db) : list bytes :=
  map fst (filter (fun e => negb (expired (snd e) now d)) (idx d)).

Definition api_persist (k : bytes) (now : Z) (d : db) : Z * db :=
  match write_key k None now d with
  | (None, d1) => (0, d1)
  | (Some m, d1) =>
      if exp_of m d1 =? 0 then (0, d1)
      else (1, notify (PPersist k) (signal k m (set_exp m 0 d1)))
  end.

(* =============================== str.go ===================================== *)
Definition api_set (k v : bytes) (keepttl : bool) (now : Z) (d : db) : res unit :=
  match write_key k new_str now d with
  | (None, _) => Unm
  | (Some m, d1) =>
      match as_str m d1 with
      | None => Panic d1
      | Some s =>
          let d2 := set_val_of m (VStr (str_set v s)) d1 in
          let d3 := if keepttl then d2 else set_exp m 0 d2 in
          Ok tt (notify (PSet k v keepttl 0) (signal k m d3))
      end
  end.

(* GetSet: old value; None = nil slice *)
Definition api_getset (k v : bytes) (now : Z) (d : db) : res (option bytes) :=
  match write_key k new_str now d with
  | (None, _) => Unm
  | (Some m, d1) =>
      match as_str m d1 with
      | None => Panic d1
      | Some s =>
          let d2 := set_val_of m (VStr (str_set v s)) d1 in
          Ok (if snil s then None else Some (sv s)) (notify (PSet k v true 0) (signal k m d2))
      end
  end.

Definition api_setex (k v : bytes) (seconds now : Z) (d : db) : res unit :=
  match write_key k new_str now d with
  | (None, _) => Unm
  | (Some m, d1) =>
      let e := wrap64 (now + wrap64 (seconds * 1000)) in
      let d2 := set_exp m e d1 in
      match as_str m d2 with
      | None => Panic d2
      | Some s =>
          let d3 := set_val_of m (VStr (str_set v s)) d2 in
          Ok tt (notify (PSet k v false e) (signal k m d3))
      end
  end.

Definition api_setnx (k v : bytes) (keepttl : bool) (now : Z) (d : db) : res bool :=
  match write_key k None now d with
  | (Some _, d1) => Ok false d1
  | (None, d1) =>
      let '(m, d2) := new_key None k (VStr str_new) d1 in
      (* a fresh key already has no deadline *)
      let d3 := set_val_of m (VStr (str_of v)) d2 in
      Ok true (notify (PSet k v keepttl 0) (signal k m d3))
  end.

Definition api_setxx (k v : bytes) (keepttl : bool) (now : Z) (d : db) : res bool :=
  match write_key k None now d with
  | (None, d1) => Ok false d1
  | (Some m, d1) =>
      match as_str m d1 with
      | None => Panic d1
      | Some s =>
          let d2 := set_val_of m (VStr (str_set v s)) d1 in
          let d3 := if keepttl then d2 else set_exp m 0 d2 in
          Ok true (notify (PSet k v keepttl 0) (signal k m d3))
      end
  end.

Definition api_get (k : bytes) (now : Z) (d : db) : res (option bytes) :=
  match read_key k now d with
  | (None, d1) => Ok None d1
  | (Some m, d1) =>
      match as_str m d1 with
      | None => Panic d1
      | Some s => Ok (Some (sv s)) d1   (* the key exists: an empty value is the empty string, not nil *)
      end
  end.

(* Incr/Decr/IncrBy/DecrBy.  [swallow]: IncrBy returns nil from the closure on a parse
   error, so the caller sees (0, nil). result: inl n | inr tt (error reported) *)
Definition api_incr_gen (k : bytes) (delta : Z) (decr swallow : bool) (now : Z) (d : db)
  : res (option Z) :=
  match write_key k new_str now d with
  | (None, _) => Unm
  | (Some m, d1) =>
      match as_str m d1 with
      | None => Panic d1
      | Some s =>
          match (if decr then str_decr delta s else str_incr delta s) with
          | None => if swallow then Ok (Some 0) d1 else Ok None d1
          | Some (n, s') =>
              let d2 := set_val_of m (VStr s') d1 in
              Ok (Some n) (notify (PSet k (format_int n) true 0) (signal k m d2))
          end
      end
  end.

Definition api_incrbyfloat (k : bytes) (delta : score) (now : Z) (d : db) : res (option score) :=
  match write_key k new_str now d with
  | (None, _) => Unm
  | (Some m, d1) =>
      match as_str m d1 with
      | None => Panic d1
      | Some s =>
          match str_incrbyfloat delta s with
          | FRunm => Unm
          | FRerr => Ok None d1
          | FRok r s' =>
              let d2 := set_val_of m (VStr s') d1 in
              Ok (Some r) (notify (PSet k (format_score r) true 0) (signal k m d2))
          end
      end
  end.

Definition api_setbit (k : bytes) (offset : Z) (bit : bool) (now : Z) (d : db) : res Z :=
  match write_key k new_str now d with
  | (None, _) => Unm
  | (Some m, d1) =>
      match as_str m d1 with
      | None => Panic d1
      | Some s =>
          let '(old, s') := str_setbit offset bit s in
          let d2 := set_val_of m (VStr s') d1 in
          Ok old (notify (PSet k (sv s') true 0) (signal k m d2))
      end
  end.
Definition api_getbit (k : bytes) (offset now : Z) (d : db) : res Z :=
  match read_key k now d with
  | (None, d1) => Ok 0 d1
  | (Some m, d1) => match as_str m d1 with None => Panic d1 | Some s => Ok (str_getbit offset s) d1 end
  end.
Definition api_bitcount (k : bytes) (a b : Z) (bit : bool) (now : Z) (d : db) : res Z :=
  match read_key k now d with
  | (None, d1) => Ok 0 d1
  | (Some m, d1) =>
      match as_str m d1 with
      | None => Panic d1
      | Some s => Ok (if bit then str_bitcount_bit a b s else str_bitcount a b s) d1
      end
  end.
Definition api_append (k v : bytes) (now : Z) (d : db) : res Z :=
  match write_key k new_str now d with
  | (None, _) => Unm
  | (Some m, d1) =>
      match as_str m d1 with
      | None => Panic d1
      | Some s =>
          let '(n, s') := str_append v s in
          let d2 := set_val_of m (VStr s') d1 in
          Ok n (notify (PSet k (sv s') true 0) (signal k m d2))
      end
  end.
(* GetRange: the handler writes string(v), so nil and empty coincide *)
Definition api_getrange (k : bytes) (a b now : Z) (d : db) : res bytes :=
  match read_key k now d with
  | (None, d1) => Ok [] d1
  | (Some m, d1) =>
      match as_str m d1 with
      | None => Panic d1
      | Some s => match str_getrange a b s with Some r => Ok r d1 | None => Panic d1 end
      end
  end.
Definition api_strlen (k : bytes) (now : Z) (d : db) : res Z :=
  match read_key k now d with
  | (None, d1) => Ok 0 d1
  | (Some m, d1) => match as_str m d1 with None => Panic d1 | Some s => Ok (str_strlen s) d1 end
  end.
Definition api_setrange (k : bytes) (offset : Z) (v : bytes) (now : Z) (d : db) : res Z :=
  match write_key k new_str now d with
  | (None, _) => Unm
  | (Some m, d1) =>
      match as_str m d1 with
      | None => Panic d1
      | Some s =>
          let '(n, s') := str_setrange offset v s in
          let d2 := set_val_of m (VStr s') d1 in
          Ok n (notify (PSet k (sv s') true 0) (signal k m d2))
      end
  end.

(* =============================== list.go ==================================== *)
Definition api_push (left : bool) (k : bytes) (vs : list bytes) (now : Z) (d : db) : res Z :=
  match write_key k new_list now d with
  | (None, _) => Unm
  | (Some m, d1) =>
      match as_list m d1 with
      | None => Panic d1
      | Some l =>
          let l' := if left then list_lpush vs l else list_rpush vs l in
          let d2 := set_val_of m (VList l') d1 in
          Ok (list_llen l')
             (notify (if left then PLPush k vs else PRPush k vs) (signal k m (emit (EvWake k) d2)))
      end
  end.

(* LPop/RPop(key, count): None = nil *)
Definition api_pop (left : bool) (k : bytes) (count now : Z) (d : db) : res (option (list bytes)) :=
  match write_key k None now d with
  | (None, d1) => Ok None d1
  | (Some m, d1) =>
      match as_list m d1 with
      | None => Panic d1
      | Some l =>
          let '(r, l') := if left then list_lpop count l else list_rpop count l in
          let d2 := set_val_of m (VList l') d1 in
          let d3 := if list_llen l' =? 0 then del_meta k d2 else d2 in
          Ok r (notify (if left then PLPop k count else PRPop k count) (signal k m d3))
      end
  end.

(* LLen: -1 when the value is not a list *)
Definition api_llen (k : bytes) (now : Z) (d : db) : res Z :=
  match read_key k now d with
  | (None, d1) => Ok 0 d1
  | (Some m, d1) => match as_list m d1 with None => Ok (-1) d1 | Some l => Ok (list_llen l) d1 end
  end.
Definition api_lindex (k : bytes) (i now : Z) (d : db) : res (option bytes) :=
  match read_key k now d with
  | (None, d1) => Ok None d1
  | (Some m, d1) => match as_list m d1 with None => Panic d1 | Some l => Ok (list_lindex i l) d1 end
  end.
Definition api_linsert (k pivot v : bytes) (before : bool) (now : Z) (d : db) : res Z :=
  match write_key k None now d with
  | (None, d1) => Ok 0 d1
  | (Some m, d1) =>
      match as_list m d1 with
      | None => Panic d1
      | Some l =>
          let '(n, l') := list_linsert pivot v before l in
          Ok n (notify (PLInsert k pivot v before) (signal k m (set_val_of m (VList l') d1)))
      end
  end.
Definition api_pushx (left : bool) (k v : bytes) (now : Z) (d : db) : res Z :=
  match write_key k None now d with
  | (None, d1) => Ok 0 d1
  | (Some m, d1) =>
      match as_list m d1 with
      | None => Panic d1
      | Some l =>
          let l' := if left then list_lpush [v] l else list_rpush [v] l in
          Ok (list_llen l')
             (notify (if left then PLPushX k v else PRPushX k v) (signal k m (set_val_of m (VList l') d1)))
      end
  end.
Definition api_lrem (k v : bytes) (count now : Z) (d : db) : res Z :=
  match write_key k None now d with
  | (None, d1) => Ok 0 d1
  | (Some m, d1) =>
      match as_list m d1 with
      | None => Panic d1
      | Some l =>
          let '(n, l') := list_lrem count v l in
          let d2 := set_val_of m (VList l') d1 in
          let d3 := if list_llen l' =? 0 then del_meta k d2 else d2 in
          Ok n (notify (PLRem k v count) (signal k m d3))
      end
  end.
(* LSet creates the key when it is missing, and signals before touching the value *)
Definition api_lset (k : bytes) (i : Z) (v : bytes) (now : Z) (d : db) : res bool :=
  match write_key k new_list now d with
  | (None, _) => Unm
  | (Some m, d1) =>
      let d2 := notify (PLSet k i v) (signal k m d1) in
      match as_list m d2 with
      | None => Panic d2
      | Some l => let '(ok, l') := list_lset i v l in Ok ok (set_val_of m (VList l') d2)
      end
  end.
Definition api_ltrim (k : bytes) (a b now : Z) (d : db) : res unit :=
  match write_key k None now d with
  | (None, d1) => Ok tt d1
  | (Some m, d1) =>
      match as_list m d1 with
      | None => Panic d1
      | Some l => Ok tt (notify (PLTrim k a b) (signal k m (set_val_of m (VList (list_ltrim a b l)) d1)))
      end
  end.
Definition api_lrange (k : bytes) (a b now : Z) (d : db) : res (list bytes) :=
  match read_key k now d with
  | (None, d1) => Ok [] d1
  | (Some m, d1) => match as_list m d1 with None => Panic d1 | Some l => Ok (list_range a b l) d1 end
  end.

(* LPopRPush / RPopLPush.  The final v[0] panics when nothing was popped (missing source).
   Same source and destination: the command already holds the key (tx.go lockKey is reentrant within one
   command) and a rotation keeps its key even when the list is empty for a moment. *)
Definition api_move (lpop : bool) (src dst : bytes) (now : Z) (d : db) : res (option bytes) :=
  match write_key src None now d with
  | (None, d1) => Panic d1
  | (Some m, d1) =>
      match as_list m d1 with
      | None => Panic d1
      | Some l =>
          let '(r, l') := if lpop then list_lpop 1 l else list_rpop 1 l in
          match r with
          | None => Panic d1
          | Some vs =>
              let d2 := set_val_of m (VList l') d1 in
              let d3 := if (list_llen l' =? 0) && negb (bytes_eqb src dst) then del_meta src d2 else d2 in
              let d4 := signal src m d3 in
              match write_key dst new_list now d4 with
              | (None, _) => Unm
              | (Some dm, d5) =>
                  match as_list dm d5 with
                  | None => Panic d5
                  | Some dl =>
                      let dl' := if lpop then list_rpush vs dl else list_lpush vs dl in
                      let d6 := set_val_of dm (VList dl') d5 in
                      Ok (hd_error vs)
                         (notify (if lpop then PLPopRPush src dst else PRPopLPush src dst)
                                 (signal dst dm (emit (EvWake dst) d6)))
                  end
              end
          end
      end
  end.

(* =============================== hash.go ==================================== *)
Definition api_hset (k f v : bytes) (now : Z) (d : db) : res Z :=
  match write_key k new_hash now d with
  | (None, _) => Unm
  | (Some m, d1) =>
      match as_hash m d1 with
      | None => Panic d1
      | Some h => let '(n, h') := hash_hset f v h in
                  Ok n (notify (PHSet k f v) (signal k m (set_val_of m (VHash h') d1)))
      end
  end.
Definition api_hget (k f : bytes) (now : Z) (d : db) : res (option bytes) :=
  match read_key k now d with
  | (None, d1) => Ok None d1
  | (Some m, d1) => match as_hash m d1 with None => Panic d1 | Some h => Ok (hash_hget f h) d1 end
  end.
Definition api_hdel (k : bytes) (fs : list bytes) (now : Z) (d : db) : res Z :=
  match write_key k None now d with
  | (None, d1) => Ok 0 d1
  | (Some m, d1) =>
      match as_hash m d1 with
      | None => Panic d1
      | Some h =>
          let '(n, h') := hash_hdel fs h in
          let d2 := set_val_of m (VHash h') d1 in
          let d3 := if hash_hlen h' =? 0 then del_meta k d2 else d2 in
          Ok n (notify (PHDel k fs) (signal k m d3))
      end
  end.
(* generic read of a hash *)
Definition api_hread {A} (k : bytes) (dflt : A) (f : hashv -> A) (now : Z) (d : db) : res A :=
  match read_key k now d with
  | (None, d1) => Ok dflt d1
  | (Some m, d1) => match as_hash m d1 with None => Panic d1 | Some h => Ok (f h) d1 end
  end.
(* HIncrBy: signals and notifies even when the field is not an integer *)
Definition api_hincrby (k f : bytes) (delta now : Z) (d : db) : res (option Z) :=
  match write_key k new_hash now d with
  | (None, _) => Unm
  | (Some m, d1) =>
      match as_hash m d1 with
      | None => Panic d1
      | Some h =>
          match hash_hincrby f delta h with
          | None => Ok None (notify (PHIncrBy k f delta) (signal k m d1))
          | Some (n, h') => Ok (Some n) (notify (PHIncrBy k f delta) (signal k m (set_val_of m (VHash h') d1)))
          end
      end
  end.
Definition api_hincrbyfloat (k f : bytes) (delta : score) (now : Z) (d : db) : res (option score) :=
  match write_key k new_hash now d with
  | (None, _) => Unm
  | (Some m, d1) =>
      match as_hash m d1 with
      | None => Panic d1
      | Some h =>
          match hash_hincrbyfloat f delta h with
          | HFunm => Unm
          | HFerr => Ok None (notify (PHIncrByFloat k f delta) (signal k m d1))
          | HFok r h' => Ok (Some r) (notify (PHIncrByFloat k f delta) (signal k m (set_val_of m (VHash h') d1)))
          end
      end
  end.
Definition api_hsetnx (k f v : bytes) (now : Z) (d : db) : res Z :=
  match write_key k new_hash now d with
  | (None, _) => Unm
  | (Some m, d1) =>
      match as_hash m d1 with
      | None => Panic d1
      | Some h =>
          if hash_hexists f h then Ok 0 d1
          else let '(n, h') := hash_hset f v h in
               Ok n (notify (PHSet k f v) (signal k m (set_val_of m (VHash h') d1)))
      end
  end.
(* HMSet(key, fields): the returned counter is a shadowed variable: always 0.  Fields
   arrive as a Go map: duplicates already collapsed (last wins), order irrelevant. *)
Definition api_hmset (k : bytes) (fvs : list (bytes * bytes)) (now : Z) (d : db) : res Z :=
  match write_key k new_hash now d with
  | (None, _) => Unm
  | (Some m, d1) =>
      match as_hash m d1 with
      | None => Panic d1
      | Some h =>
          let h' := fold_left (fun acc fv => snd (hash_hset (fst fv) (snd fv) acc)) fvs h in
          let d2 := signal k m (set_val_of m (VHash h') d1) in
          Ok 0 (fold_left (fun dd fv => notify (PHSet k (fst fv) (snd fv)) dd) fvs d2)
      end
  end.

(* =============================== set.go ===================================== *)
Definition api_sadd (k : bytes) (ms : list bytes) (now : Z) (d : db) : res Z :=
  match write_key k new_set now d with
  | (None, _) => Unm
  | (Some m, d1) =>
      match as_set m d1 with
      | None => Panic d1
      | Some s => let '(n, s') := set_sadd ms s in
                  Ok n (notify (PSAdd k ms) (signal k m (set_val_of m (VSet s') d1)))
      end
  end.
Definition api_sread {A} (k : bytes) (dflt : A) (f : setv -> A) (now : Z) (d : db) : res A :=
  match read_key k now d with
  | (None, d1) => Ok dflt d1
  | (Some m, d1) => match as_set m d1 with None => Panic d1 | Some s => Ok (f s) d1 end
  end.

(* read the operand sets of SDiff: a missing operand is a nil interface whose type
   assertion panics (the code tests the wrong variable) *)
Fixpoint read_sets_strict (ks : list bytes) (now : Z) (d : db) : res (list setv) :=
  match ks with
  | [] => Ok [] d
  | k :: r =>
      match read_key k now d with
      | (None, d1) => Panic d1
      | (Some m, d1) =>
          match as_set m d1 with
          | None => Panic d1
          | Some s => match read_sets_strict r now d1 with
                      | Ok ss d2 => Ok (s :: ss) d2
                      | Panic d2 => Panic d2
                      | Unm => Unm
                      end
          end
      end
  end.
(* operands of SInter/SUnion: missing ones are skipped *)
Fixpoint read_sets_skip (ks : list bytes) (now : Z) (d : db) : res (list setv) :=
  match ks with
  | [] => Ok [] d
  | k :: r =>
      match read_key k now d with
      | (None, d1) => read_sets_skip r now d1
      | (Some m, d1) =>
          match as_set m d1 with
          | None => Panic d1
          | Some s => match read_sets_skip r now d1 with
                      | Ok ss d2 => Ok (s :: ss) d2
                      | Panic d2 => Panic d2
                      | Unm => Unm
                      end
          end
      end
  end.

Definition api_smembers (k : bytes) (now : Z) (d : db) : res (list bytes) :=
  api_sread k [] set_members now d.

Definition api_sdiff (ks : list bytes) (now : Z) (d : db) : res (list bytes) :=
  match ks with
  | [] => Ok [] d
  | k0 :: rest =>
      match read_key k0 now d with
      | (None, d1) => Ok [] d1
      | (Some m, d1) =>
          match read_sets_strict rest now d1 with
          | Ok others d2 =>
              match as_set m d2 with
              | None => Panic d2
              | Some s => Ok (set_sdiff s others) d2
              end
          | Panic d2 => Panic d2
          | Unm => Unm
          end
      end
  end.
Definition api_sinter (ks : list bytes) (now : Z) (d : db) : res (list bytes) :=
  match ks with
  | [] => Ok [] d
  | [k] => api_smembers k now d
  | k0 :: rest =>
      let '(om, d1) := read_key k0 now d in
      match read_sets_skip rest now d1 with
      | Ok others d2 =>
          match om with
          | None => Panic d2      (* nil interface type assertion *)
          | Some m => match as_set m d2 with
                      | None => Panic d2
                      | Some s => Ok (set_sinter s others) d2
                      end
          end
      | Panic d2 => Panic d2
      | Unm => Unm
      end
  end.
Definition api_sunion (ks : list bytes) (now : Z) (d : db) : res (list bytes) :=
  match ks with
  | [] => Ok [] d
  | [k] => api_smembers k now d
  | _ =>
      match read_sets_skip ks now d with
      | Ok (s0 :: others) d1 => Ok (set_sunion s0 others) d1
      | Ok [] d1 => Panic d1       (* otherSets[0] on an empty slice *)
      | Panic d1 => Panic d1
      | Unm => Unm
      end
  end.
(* the *Store forms: compute; Del(destination); SAdd(destination, members...) *)
Definition api_sstore (compute : list bytes -> Z -> db -> res (list bytes))
           (dst : bytes) (ks : list bytes) (now : Z) (d : db) : res Z :=
  match ks with
  | [] => Ok 0 d
  | _ =>
      match compute ks now d with
      | Ok ms d1 => let '(_, d2) := api_del [dst] now d1 in api_sadd dst ms now d2
      | Panic d1 => Panic d1
      | Unm => Unm
      end
  end.
Definition api_srem (k : bytes) (ms : list bytes) (now : Z) (d : db) : res Z :=
  match write_key k None now d with
  | (None, d1) => Ok 0 d1
  | (Some m, d1) =>
      match as_set m d1 with
      | None => Panic d1
      | Some s => let '(n, s') := set_srem ms s in
                  Ok n (notify (PSRem k ms) (signal k m (set_val_of m (VSet s') d1)))
      end
  end.
(* SPop: None = nil result *)
Definition api_spop (k : bytes) (count0 now : Z) (d : db) : res (option (list bytes)) :=
  match write_key k None now d with
  | (None, d1) => Ok None d1
  | (Some m, d1) =>
      match as_set m d1 with
      | None => Panic d1
      | Some s =>
          if negb (set_spop_modelled s) then Unm
          else
          let count := if count0 =? 0 then 1 else count0 in
          match set_spop count s with
          | None => Ok None (notify (PSRem k []) (signal k m d1))
          | Some (p, s') => Ok (Some p) (notify (PSRem k p) (signal k m (set_val_of m (VSet s') d1)))
          end
      end
  end.
(* SMove: the add result decides the answer; only the add is notified *)
Definition api_smove (src dst mem : bytes) (now : Z) (d : db) : res bool :=
  match write_key src None now d with
  | (None, d1) => Ok false d1
  | (Some m, d1) =>
      match as_set m d1 with
      | None => Panic d1
      | Some s =>
          let '(n, s') := set_srem [mem] s in
          if n =? 0 then Ok false d1
          else
            let d2 := signal src m (set_val_of m (VSet s') d1) in
            match write_key dst new_set now d2 with
            | (None, _) => Unm
            | (Some dm, d3) =>
                match as_set dm d3 with
                | None => Panic d3
                | Some ds => let '(a, ds') := set_sadd [mem] ds in
                             Ok (a >? 0) (notify (PSAdd dst [mem]) (signal dst dm (set_val_of dm (VSet ds') d3)))
                end
            end
      end
  end.

(* =============================== zset.go ==================================== *)
Definition api_zadd_gen (mode : Z) (k m : bytes) (s : score) (now : Z) (d : db) : res Z :=
  (* mode 0 plain, 1 XX, 2 NX : all three signal and notify unconditionally *)
  match write_key k new_zset now d with
  | (None, _) => Unm
  | (Some mt, d1) =>
      match as_zset mt d1 with
      | None => Panic d1
      | Some z =>
          let '(n, z') := if mode =? 1 then zset_zaddxx m s z
                          else if mode =? 2 then zset_zaddnx m s z else zset_zadd m s z in
          Ok n (notify (PZAdd k m s) (signal k mt (set_val_of mt (VZSet z') d1)))
      end
  end.
Definition api_zadd_cmp (lt : bool) (k m : bytes) (s : score) (now : Z) (d : db) : res Z :=
  match write_key k new_zset now d with
  | (None, _) => Unm
  | (Some mt, d1) =>
      match as_zset mt d1 with
      | None => Panic d1
      | Some z =>
          let '(b, z') := if lt then zset_zaddlt m s z else zset_zaddgt m s z in
          if b then Ok 1 (notify (PZAdd k m s) (signal k mt (set_val_of mt (VZSet z') d1)))
          else Ok 0 d1
      end
  end.
Definition api_zread {A} (k : bytes) (dflt : A) (f : zsetv -> option A) (now : Z) (d : db) : res A :=
  match read_key k now d with
  | (None, d1) => Ok dflt d1
  | (Some m, d1) =>
      match as_zset m d1 with
      | None => Panic d1
      | Some z => match f z with Some a => Ok a d1 | None => Panic d1 end
      end
  end.
(* None = the sum is NaN: nothing stored, signalled or notified *)
Definition api_zincrby (k m : bytes) (s : score) (now : Z) (d : db) : res (option score) :=
  match write_key k new_zset now d with
  | (None, _) => Unm
  | (Some mt, d1) =>
      match as_zset mt d1 with
      | None => Panic d1
      | Some z =>
          if zset_zincrby_nan m s z then Ok None d1 else
          match zset_zincrby m s z with
          | None => Unm
          | Some (r, z') => Ok (Some r) (notify (PZIncrBy k m s) (signal k mt (set_val_of mt (VZSet z') d1)))
          end
      end
  end.
(* ZRem / ZRemRangeByRank / ZRemRangeByScore: signalled only when something was removed *)
Definition api_zmut (k : bytes) (f : zsetv -> Z * zsetv) (o : pop) (now : Z) (d : db) : res Z :=
  match write_key k None now d with
  | (None, d1) => Ok 0 d1
  | (Some mt, d1) =>
      match as_zset mt d1 with
      | None => Panic d1
      | Some z =>
          let '(n, z') := f z in
          let d2 := set_val_of mt (VZSet z') d1 in
          if n >? 0 then Ok n (notify o (signal k mt d2)) else Ok n d2
      end
  end.

(* ZUnion(keys, nil, aggregate) with weights absent (weight 1).
   aggregate: 0 SUM, 1 MIN, 2 MAX, 3 other (nothing is collected) *)
Definition agg_step (agg : Z) (acc : fmap score) (it : item) : option (fmap score) :=
  let '(s, m) := it in
  match fm_get m acc with
  | None => if agg <=? 2 then Some (fst (fm_set m s acc)) else Some acc
  | Some old =>
      if agg =? 0 then match score_add old s with
                       | Some r => Some (fst (fm_set m r acc))
                       | None => None
                       end
      else if agg =? 1 then Some (if score_ltb s old then fst (fm_set m s acc) else acc)
      else if agg =? 2 then Some (if score_ltb old s then fst (fm_set m s acc) else acc)
      else Some acc
  end.
Fixpoint agg_all (agg : Z) (acc : fmap score) (its : list item) : option (fmap score) :=
  match its with
  | [] => Some acc
  | it :: r => match agg_step agg acc it with Some a => agg_all agg a r | None => None end
  end.
Fixpoint zunion_keys (ks : list bytes) (agg : Z) (acc : fmap score) (now : Z) (d : db)
  : res (fmap score) :=
  match ks with
  | [] => Ok acc d
  | k :: r =>
      match read_key k now d with
      | (None, d1) => zunion_keys r agg acc now d1
      | (Some m, d1) =>
          match as_zset m d1 with
          | None => Panic d1
          | Some z =>
              match zset_by_rank 0 (-1) false z with
              | None => Panic d1
              | Some its => match agg_all agg acc its with
                            | Some a => zunion_keys r agg a now d1
                            | None => Unm
                            end
              end
          end
      end
  end.
(* ZUnionStore: the operands are read first (as ZInterStore does), then the destination is opened
   (created if missing) and the union is merged into whatever it holds; the destination may be an operand. *)
Definition api_zunionstore (dst : bytes) (ks : list bytes) (agg : Z) (now : Z) (d : db) : res Z :=
  match zunion_keys ks agg [] now d with
  | Panic d1 => Panic d1
  | Unm => Unm
  | Ok acc d1 =>
      match write_key dst new_zset now d1 with
      | (None, _) => Unm
      | (Some mt, d2) =>
          match acc with
          | [] => Ok 0 d2
          | _ =>
              match as_zset mt d2 with
              | None => Panic d2
              | Some z =>
                  let z' := fold_left (fun zz e => snd (zset_zadd (fst e) (snd e) zz)) acc z in
                  Ok (Z.of_nat (length acc))
                     (notify (PZUnionStore dst ks) (signal dst mt (set_val_of mt (VZSet z') d2)))
              end
          end
      end
  end.

(* ZInter: for every key (stop at the first missing one with an empty result so far
   discarded: returns nil), every member that all the other keys contain *)
Fixpoint read_zsets (ks : list bytes) (now : Z) (d : db) : res (list (option zsetv)) :=
  match ks with
  | [] => Ok [] d
  | k :: r =>
      match read_key k now d with
      | (None, d1) => match read_zsets r now d1 with
                      | Ok zs d2 => Ok (None :: zs) d2 | Panic d2 => Panic d2 | Unm => Unm end
      | (Some m, d1) =>
          match as_zset m d1 with
          | None => Panic d1
          | Some z => match read_zsets r now d1 with
                      | Ok zs d2 => Ok (Some z :: zs) d2 | Panic d2 => Panic d2 | Unm => Unm end
          end
      end
  end.

(* the inner loop of ZInter for one member of key i: every key is re-read (and touched);
   stops at the first other key that lacks the member.  A missing other key is a nil
   interface: panic. *)
Fixpoint zinter_found (ks : list bytes) (j i : nat) (mem : bytes) (now : Z) (d : db) : res bool :=
  match ks with
  | [] => Ok true d
  | k :: r =>
      let '(om, d1) := read_key k now d in
      if Nat.eqb j i then zinter_found r (S j) i mem now d1
      else match om with
           | None => Panic d1
           | Some m => match as_zset m d1 with
                       | None => Panic d1
                       | Some z => if fm_mem mem (zd z) then zinter_found r (S j) i mem now d1
                                   else Ok false d1
                       end
           end
  end.
Fixpoint zinter_members (ks : list bytes) (i : nat) (its : list item) (agg : Z) (acc : fmap score)
         (now : Z) (d : db) : res (fmap score) :=
  match its with
  | [] => Ok acc d
  | it :: r =>
      match zinter_found ks 0 i (snd it) now d with
      | Ok true d1 => match agg_step agg acc it with
                      | Some a => zinter_members ks i r agg a now d1
                      | None => Unm
                      end
      | Ok false d1 => zinter_members ks i r agg acc now d1
      | Panic d1 => Panic d1
      | Unm => Unm
      end
  end.
(* outer loop; result None = nil (a key was missing at its turn) *)
Fixpoint zinter_keys (all ks : list bytes) (i : nat) (agg : Z) (acc : fmap score) (now : Z) (d : db)
  : res (option (fmap score)) :=
  match ks with
  | [] => Ok (Some acc) d
  | k :: r =>
      match read_key k now d with
      | (None, d1) => Ok None d1
      | (Some m, d1) =>
          match as_zset m d1 with
          | None => Panic d1
          | Some z =>
              match zset_by_rank 0 (-1) false z with
              | None => Panic d1
              | Some its =>
                  match zinter_members all i its agg acc now d1 with
                  | Ok a d2 => zinter_keys all r (S i) agg a now d2
                  | Panic d2 => Panic d2
                  | Unm => Unm
                  end
              end
          end
      end
  end.
Definition api_zinterstore (dst : bytes) (ks : list bytes) (agg : Z) (now : Z) (d : db) : res Z :=
  match zinter_keys ks ks 0 agg [] now d with
  | Panic d1 => Panic d1
  | Unm => Unm
  | Ok oacc d1 =>
      let acc := match oacc with Some a => a | None => [] end in
      match write_key dst new_zset now d1 with
      | (None, _) => Unm
      | (Some mt, d2) =>
          match acc with
          | [] => Ok 0 d2
          | _ =>
              match as_zset mt d2 with
              | None => Panic d2
              | Some z =>
                  let z' := fold_left (fun zz e => snd (zset_zadd (fst e) (snd e) zz)) acc z in
                  Ok (Z.of_nat (length acc))
                     (notify (PZInterStore dst ks) (signal dst mt (set_val_of mt (VZSet z') d2)))
              end
          end
      end
  end.
