(* ds/zset: SortedSet = dictionary member -> score plus the ordered index (skiplist) seen
   as the sequence of its level-0 nodes (layer Z1).  Rank arithmetic is kept exactly. *)
From Nodis Require Import Base.Bytes Model.Num Model.FMap.
From Coq Require Import ZArith List Bool.
Local Open Scope Z_scope.

Definition item := (score * bytes)%type.
Record zsetv := { zd : fmap score; zl : list item }.
Definition zset_new : zsetv := {| zd := []; zl := [] |}.

(* node order of the skiplist: (score, member) *)
Definition item_ltb (a b : item) : bool :=
  score_ltb (fst a) (fst b) || (score_eqb (fst a) (fst b) && bytes_ltb (snd a) (snd b)).

Fixpoint sl_insert (x : item) (l : list item) : list item :=
  match l with
  | [] => [x]
  | y :: r => if item_ltb y x then y :: sl_insert x r else x :: l
  end.
(* remove(member, score): the first node not below (score, member), if it is that pair *)
Fixpoint sl_remove (x : item) (l : list item) : list item :=
  match l with
  | [] => []
  | y :: r => if item_ltb y x then y :: sl_remove x r
              else if score_eqb (fst y) (fst x) && bytes_eqb (snd y) (snd x) then r else l
  end.

Definition zset_zadd (m : bytes) (s : score) (z : zsetv) : Z * zsetv :=
  match fm_get m (zd z) with
  | Some old =>
      let d := fst (fm_set m s (zd z)) in
      if negb (score_eqb s old)
      then (0, {| zd := d; zl := sl_insert (s, m) (sl_remove (old, m) (zl z)) |})
      else (0, {| zd := d; zl := zl z |})
  | None => (1, {| zd := fst (fm_set m s (zd z)); zl := sl_insert (s, m) (zl z) |})
  end.
Definition zset_zaddxx m s z := if fm_mem m (zd z) then zset_zadd m s z else (0, z).
Definition zset_zaddnx m s z := if fm_mem m (zd z) then (0, z) else zset_zadd m s z.
Definition zset_zaddlt (m : bytes) (s : score) (z : zsetv) : bool * zsetv :=
  match fm_get m (zd z) with
  | Some old => if score_ltb s old then (true, snd (zset_zadd m s z)) else (false, z)
  | None => (false, z)
  end.
Definition zset_zaddgt (m : bytes) (s : score) (z : zsetv) : bool * zsetv :=
  match fm_get m (zd z) with
  | Some old => if score_ltb old s then (true, snd (zset_zadd m s z)) else (false, z)
  | None => (false, z)
  end.
Definition zset_zcard (z : zsetv) : Z := Z.of_nat (length (zd z)).
Fixpoint zset_zrem (ms : list bytes) (z : zsetv) : Z * zsetv :=
  match ms with
  | [] => (0, z)
  | m :: r =>
      match fm_get m (zd z) with
      | Some s => let z1 := {| zd := fst (fm_del m (zd z)); zl := sl_remove (s, m) (zl z) |} in
                  let '(n, z2) := zset_zrem r z1 in (n + 1, z2)
      | None => zset_zrem r z
      end
  end.

(* skiplist.getRank: 1-based position of (score, member); 0 if the walk does not end on
   the member.  The header node has member "" so the empty member is answered from the
   header at a level-dependent point: unmodelled. *)
Fixpoint count_le (x : item) (l : list item) : Z :=
  match l with
  | [] => 0
  | y :: r => if item_ltb y x || (score_eqb (fst y) (fst x) && bytes_eqb (snd y) (snd x))
              then 1 + count_le x r else 0
  end.
Definition sl_get_rank (m : bytes) (s : score) (l : list item) : Z :=
  let r := count_le (s, m) l in
  if r =? 0 then 0
  else match nth_error l (Z.to_nat (r - 1)) with
       | Some y => if bytes_eqb (snd y) m then r else 0
       | None => 0
       end.
(* getRank(member, desc) of SortedSet; None: not a member *)
Definition zset_rank (m : bytes) (desc : bool) (z : zsetv) : option Z :=
  match fm_get m (zd z) with
  | None => None
  | Some s => let r := sl_get_rank m s (zl z) in
              Some (if desc then Z.of_nat (length (zl z)) - r else r - 1)
  end.
Definition zset_zscore (m : bytes) (z : zsetv) : option score := fm_get m (zd z).

(* positions in the skiplist: header, a level-0 node, or nil *)
Inductive pos := PHeader | PIdx (i : nat) | PNil.
Definition sl_by_rank (rank : Z) (l : list item) : pos :=
  if rank =? 0 then PHeader
  else if (rank <? 0) || (rank >? Z.of_nat (length l)) then PNil
  else PIdx (Z.to_nat (rank - 1)).
Definition pos_next (desc : bool) (l : list item) (p : pos) : pos :=
  match p with
  | PNil => PNil
  | PHeader => if desc then PNil else match l with [] => PNil | _ => PIdx 0 end
  | PIdx i => if desc then match i with O => PNil | S k => PIdx k end
              else if Nat.ltb (S i) (length l) then PIdx (S i) else PNil
  end.
Definition header_item : item := (SFin 0, []).
(* walk n+1 nodes from p; None = nil dereference *)
Fixpoint sl_walk (n : nat) (desc : bool) (l : list item) (p : pos) : option (list item) :=
  let here := match p with
              | PNil => None
              | PHeader => Some header_item
              | PIdx i => nth_error l i
              end in
  match here with
  | None => None
  | Some it =>
      match n with
      | O => Some [it]
      | S k => match sl_walk k desc l (pos_next desc l p) with
               | Some r => Some (it :: r)
               | None => None
               end
      end
  end.

(* forEachByRank(start, stop, desc) collecting every visited item; None = panic *)
Definition zset_by_rank (start0 stop0 : Z) (desc : bool) (z : zsetv) : option (list item) :=
  let size := zset_zcard z in
  let l := zl z in
  if start0 >? size then Some []
  else
    let start1 := if start0 =? 0 then 1 else start0 in
    let stop1 := if stop0 <? 0 then size + stop0 + 1 else stop0 in
    if stop1 <? start1 then Some []
    else
      let start := if start1 <? 0 then size + start1 else start1 in
      let stop := if stop1 >? size then size else stop1 in
      let first := if desc
                   then (if start >? 1 then sl_by_rank (size - start) l
                         else match l with [] => PNil | _ => PIdx (length l - 1)%nat end)
                   else (if start >? 1 then sl_by_rank start l
                         else match l with [] => PNil | _ => PIdx 0 end) in
      let slice := wrap64 (stop - start) in   (* int64 subtraction: start can be size + MinInt64 *)
      (* walking more than len+1 nodes always ends in the nil dereference: cap the count *)
      if slice <? 0 then Some [] else sl_walk (Z.to_nat (Z.min slice (Z.of_nat (length l) + 2))) desc l first.

Definition in_min (s min : score) (mode : Z) : bool :=
  if Z.testbit mode 0 then score_ltb min s else score_leb min s.
Definition in_max (s max : score) (mode : Z) : bool :=
  if Z.testbit mode 1 then score_ltb s max else score_leb s max.

(* rangeCount: walks all members through forEachByRank(0, card) *)
Definition zset_zcount (min max : score) (mode : Z) (z : zsetv) : option Z :=
  match zset_by_rank 0 (zset_zcard z) false z with
  | None => None
  | Some its => Some (Z.of_nat (length (filter (fun it => in_min (fst it) min mode && in_max (fst it) max mode) its)))
  end.

(* forEach by score: start node, offset skip, then "consume, advance, test the next" *)
Fixpoint take_scored (min max : score) (limit : Z) (i : Z) (seq : list item) : list item :=
  match seq with
  | [] => []
  | x :: r =>
      if (i <? limit) || (limit <? 0) then
        x :: match r with
             | [] => []
             | y :: _ => if score_leb min (fst y) && score_leb (fst y) max
                         then take_scored min max limit (i + 1) r else []
             end
      else []
  end.
Definition has_in_range (min max : score) (l : list item) : bool :=
  if score_ltb max min then false
  else match l with
       | [] => false
       | f :: _ => match last l f with
                   | t => if score_ltb (fst t) min then false
                          else if score_ltb max (fst f) then false else true
                   end
       end.
Fixpoint drop_while {A} (f : A -> bool) (l : list A) : list A :=
  match l with [] => [] | x :: r => if f x then drop_while f r else l end.
Definition zset_range_by_score (min max : score) (offset limit : Z) (desc : bool) (mode : Z)
           (z : zsetv) : list item :=
  if (limit =? 0) || (offset <? 0) then []
  else
    let l := zl z in
    let seq :=
      if negb (has_in_range min max l) then []
      else if desc then
        (* getLastInRange: last node with score <= max; nil if below min *)
        let s := drop_while (fun it => score_ltb max (fst it)) (rev l) in
        match s with
        | [] => []
        | n :: _ => if score_ltb (fst n) min then [] else s
        end
      else
        let s := drop_while (fun it => score_ltb (fst it) min) l in
        match s with
        | [] => []
        | n :: _ => if score_ltb max (fst n) then [] else s
        end in
    (* forEach(min, max, 0, -1): every member from the start node while the score stays inside
       [min, max]; the consumer drops the open ends, then skips offset members, then keeps limit *)
    let visited := take_scored min max (-1) 0 seq in
    let inside := filter (fun it => negb ((Z.testbit mode 0 && score_eqb (fst it) min)
                                          || (Z.testbit mode 1 && score_eqb (fst it) max))) visited in
    let after := skipn (Z.to_nat (Z.min offset (Z.of_nat (length inside)))) inside in
    if limit <? 0 then after else firstn (Z.to_nat (Z.min limit (Z.of_nat (length after)))) after.

(* skiplist.removeRange(min, max, 0, mode) *)
Definition zset_remrange_score (min max : score) (mode : Z) (z : zsetv) : Z * zsetv :=
  let l := zl z in
  let pre_n := (length l - length (drop_while (fun it => negb (in_min (fst it) min mode)) l))%nat in
  let pre := firstn pre_n l in
  let rest := skipn pre_n l in
  let kept_tail := drop_while (fun it => in_max (fst it) max mode) rest in
  let removed := firstn (length rest - length kept_tail)%nat rest in
  (Z.of_nat (length removed),
   {| zd := fold_left (fun d it => fst (fm_del (snd it) d)) removed (zd z); zl := pre ++ kept_tail |}).

(* ZRemRangeByRank *)
Definition zset_remrange_rank (start0 stop0 : Z) (z : zsetv) : Z * zsetv :=
  let card := zset_zcard z in
  let stop := if stop0 <? 0 then card + stop0 else stop0 in
  let start := if start0 <? 0 then card + start0 else start0 in
  if (start >=? stop) || (start <? 0) then (0, z)
  else
    let l := zl z in
    let len := Z.of_nat (length l) in
    let i := if start >=? 1 then Z.min (start - 1) len else 0 in
    let cnt := Z.min len (Z.max 0 (stop - i + 1)) in
    let removed := firstn (Z.to_nat cnt) (skipn (Z.to_nat i) l) in
    (Z.of_nat (length removed),
     {| zd := fold_left (fun d it => fst (fm_del (snd it) d)) removed (zd z);
        zl := firstn (Z.to_nat i) l ++ skipn (Z.to_nat i + length removed)%nat l |}).

(* ZIncrBy: None = result outside the modelled score domain *)
(* ZIncrBy stores nothing when the sum is NaN *)
Definition zset_zincrby_nan (m : bytes) (delta : score) (z : zsetv) : bool :=
  match fm_get m (zd z) with Some old => score_add_nan delta old | None => false end.
Definition zset_zincrby (m : bytes) (delta : score) (z : zsetv) : option (score * zsetv) :=
  let tot := match fm_get m (zd z) with
             | Some old => score_add delta old
             | None => Some delta
             end in
  match tot with
  | None => None
  | Some s => Some (s, snd (zset_zadd m s z))
  end.

(* ZScan(cursor, match, count) -> (next cursor, items) (None = panic): the rank window
   [cursor, cursor + count]; next = its end, 0 once it covers the last rank *)
Definition zset_zscan (cursor : Z) (pat : bytes) (count0 : Z) (z : zsetv) : option (Z * list item) :=
  let count := if count0 =? 0 then zset_zcard z else count0 in
  let pat' := match pat with [] => [x2a] | _ => pat end in
  match zset_by_rank cursor (wrap64 (cursor + count)) false z with
  | None => None
  | Some its =>
      let nx := wrap64 (cursor + count) in
      Some ((if (nx >=? zset_zcard z) || (nx <=? cursor) then 0 else nx),
            filter (fun it => glob_match pat' (snd it)) its)
  end.
