(* C18: blocking pops.  Threads running LPUSH/RPUSH, LPOP/RPOP, RPOPLPUSH and BLPOP/BRPOP against
   list.go (blockingPop, addBlockKey, notifyBlockingKey, removeBlockingKeys) and the key locks of tx.go.

   State: the lists (head first), one exclusive lock per key name, the waiter registry
   (key -> channels, a channel is identified with the thread that made it), the set of channels
   holding a pending wake-up (capacity one, sends never block), a clock in milliseconds.

   A step of a thread runs from one schedule point of the implementation (built with the verif tag)
   to the next: "start", b:notify (entry of notifyBlockingKey, inside the key lock, after the push),
   b:reg (before each addBlockKey), b:try (before each pop attempt), b:select (before the select),
   b:dereg (entry of removeBlockingKeys).  Everything between two points happens under one key
   lock or one registry lock and cannot block once its first lock is obtained, except the second
   lock of RPOPLPUSH - so a step is atomic and is enabled iff the lock it starts with is free.
   The scheduler also chooses when the clock advances (Tick) and, for a waiter in its select whose
   deadline has passed, the timer branch (Fire); a waiter with a pending wake-up may take it (Run). *)
From Coq Require Import ZArith List Bool Arith.
From Nodis Require Import Model.Conc.
Import ListNotations.
Local Open Scope Z_scope.

Inductive side := SL | SR.
Inductive bcmd :=
| BPush (sd : side) (k : nat) (vs : list Z)     (* LPUSH / RPUSH k v1 .. vn *)
| BPop (sd : side) (k : nat)                   (* LPOP / RPOP k *)
| BMove (a b : nat)                            (* RPOPLPUSH a b *)
| BBlock (sd : side) (ks : list nat) (tmo : Z). (* BLPOP / BRPOP k1 .. kn timeout (ms; 0 = for ever) *)

Inductive reply :=
| RInt (n : Z)                      (* a push: the new length *)
| RElem (v : option Z)              (* LPOP / RPOP / RPOPLPUSH *)
| RBlock (r : option (nat * Z)).    (* BLPOP / BRPOP: (key, element) or null *)

Inductive bpc :=
| BStart
| BPNotify                     (* push done, key lock held, at b:notify *)
| BMWait (v : Z)               (* RPOPLPUSH: v popped from the source (lock held), inside Lock() of the destination *)
| BMNotify (v : Z)             (* v pushed to the destination, both locks held, at b:notify *)
| BWReg (i : nat)              (* at b:reg for key i *)
| BWTry (i : nat)              (* at b:try for key i *)
| BWSelect                     (* at b:select *)
| BWDereg (r : option (nat * Z))   (* at b:dereg, about to return r *)
| BDone (r : reply).

Record bthread := { b_cmd : bcmd; b_pc : bpc; b_start : Z; b_deadline : Z }.
Record bstate := {
  lists : list (nat * list Z);
  klock : list (nat * nat);        (* key -> thread holding its lock *)
  reg : list (nat * list nat);     (* key -> registered channels, newest first *)
  tok : list nat;                  (* channels with a pending wake-up *)
  now : Z;
  bths : list (nat * bthread) }.

Definition lget (k : nat) (m : list (nat * list Z)) : list Z := match nget k m with Some l => l | None => [] end.
Definition rget (k : nat) (m : list (nat * list nat)) : list nat := match nget k m with Some l => l | None => [] end.
Definition mem (t : nat) (l : list nat) : bool := existsb (Nat.eqb t) l.
Definition remove_all (t : nat) (l : list nat) : list nat := filter (fun u => negb (Nat.eqb u t)) l.

Definition with_bpc (x : bthread) (p : bpc) : bthread :=
  {| b_cmd := b_cmd x; b_pc := p; b_start := b_start x; b_deadline := b_deadline x |}.
Definition set_bth (t : nat) (x : bthread) (s : bstate) : bstate :=
  {| lists := lists s; klock := klock s; reg := reg s; tok := tok s; now := now s; bths := nset t x (bths s) |}.
Definition set_lists (m : list (nat * list Z)) (s : bstate) : bstate :=
  {| lists := m; klock := klock s; reg := reg s; tok := tok s; now := now s; bths := bths s |}.
Definition set_klock (m : list (nat * nat)) (s : bstate) : bstate :=
  {| lists := lists s; klock := m; reg := reg s; tok := tok s; now := now s; bths := bths s |}.
Definition set_reg (m : list (nat * list nat)) (s : bstate) : bstate :=
  {| lists := lists s; klock := klock s; reg := m; tok := tok s; now := now s; bths := bths s |}.
Definition set_tok (m : list nat) (s : bstate) : bstate :=
  {| lists := lists s; klock := klock s; reg := reg s; tok := m; now := now s; bths := bths s |}.

(* release of a key lock *)
Definition kdel (k : nat) (m : list (nat * nat)) : list (nat * nat) := filter (fun p => negb (Nat.eqb (fst p) k)) m.
Definition lock_is_free (k : nat) (s : bstate) : bool := match nget k (klock s) with None => true | Some _ => false end.

Definition lock_avail (k t : nat) (s : bstate) : bool :=
  match nget k (klock s) with None => true | Some u => Nat.eqb u t end.

(* ds/list: LPush pushes the values one by one at the head, RPush at the tail *)
Definition push_vals (sd : side) (vs l : list Z) : list Z :=
  match sd with SL => rev vs ++ l | SR => l ++ vs end.
(* LPop / RPop of one element *)
Definition pop_one (sd : side) (l : list Z) : option (Z * list Z) :=
  match sd with
  | SL => match l with [] => None | v :: r => Some (v, r) end
  | SR => match rev l with [] => None | v :: r => Some (v, rev r) end
  end.

(* notifyBlockingKey: a non-blocking send on every channel registered for k *)
Definition notify (k : nat) (s : bstate) : bstate :=
  set_tok (fold_left (fun acc c => if mem c acc then acc else c :: acc) (rget k (reg s)) (tok s)) s.

(* removeBlockingKeys *)
Definition dereg (t : nat) (ks : list nat) (s : bstate) : bstate :=
  set_reg (fold_left (fun m k => match nget k m with Some l => nset k (remove_all t l) m | None => m end) ks (reg s)) s.

Definition step_run (t : nat) (s : bstate) : option bstate :=
  match nget t (bths s) with
  | None => None
  | Some x =>
      match b_cmd x, b_pc x with
      | BPush sd k vs, BStart =>
          if lock_is_free k s
          then Some (set_bth t (with_bpc x BPNotify)
                       (set_klock (nset k t (klock s)) (set_lists (nset k (push_vals sd vs (lget k (lists s))) (lists s)) s)))
          else None
      | BPush sd k vs, BPNotify =>
          let s1 := notify k s in
          Some (set_bth t (with_bpc x (BDone (RInt (Z.of_nat (length (lget k (lists s)))))))
                  (set_klock (kdel k (klock s1)) s1))
      | BPop sd k, BStart =>
          if lock_is_free k s
          then match pop_one sd (lget k (lists s)) with
               | Some (v, r) => Some (set_bth t (with_bpc x (BDone (RElem (Some v)))) (set_lists (nset k r (lists s)) s))
               | None => Some (set_bth t (with_bpc x (BDone (RElem None))) s)
               end
          else None
      | BMove a b, BStart =>
          if lock_is_free a s
          then match pop_one SR (lget a (lists s)) with
               | Some (v, r) => Some (set_bth t (with_bpc x (BMWait v))
                                        (set_klock (nset a t (klock s)) (set_lists (nset a r (lists s)) s)))
               | None => Some (set_bth t (with_bpc x (BDone (RElem None))) s)
               end
          else None
      | BMove a b, BMWait v =>
          (* tx.go lockKey is reentrant within one command: RPOPLPUSH k k already holds k *)
          if lock_avail b t s
          then Some (set_bth t (with_bpc x (BMNotify v))
                       (set_klock (nset b t (klock s)) (set_lists (nset b (v :: lget b (lists s)) (lists s)) s)))
          else None
      | BMove a b, BMNotify v =>
          let s1 := notify b s in
          Some (set_bth t (with_bpc x (BDone (RElem (Some v)))) (set_klock (kdel b (kdel a (klock s1))) s1))
      | BBlock sd ks tmo, BStart =>
          Some (set_bth t {| b_cmd := b_cmd x; b_pc := BWReg 0; b_start := now s; b_deadline := b_deadline x |} s)
      | BBlock sd ks tmo, BWReg i =>
          match nth_error ks i with
          | Some k =>
              let s1 := set_reg (nset k (t :: rget k (reg s)) (reg s)) s in
              if Nat.ltb (S i) (length ks)
              then Some (set_bth t (with_bpc x (BWReg (S i))) s1)
              else Some (set_bth t {| b_cmd := b_cmd x; b_pc := BWTry 0; b_start := b_start x; b_deadline := now s + tmo |} s1)
          | None => None
          end
      | BBlock sd ks tmo, BWTry i =>
          match nth_error ks i with
          | Some k =>
              if lock_is_free k s
              then match pop_one sd (lget k (lists s)) with
                   | Some (v, r) => Some (set_bth t (with_bpc x (BWDereg (Some (k, v)))) (set_lists (nset k r (lists s)) s))
                   | None => if Nat.ltb (S i) (length ks)
                             then Some (set_bth t (with_bpc x (BWTry (S i))) s)
                             else Some (set_bth t (with_bpc x BWSelect) s)
                   end
              else None
          | None => None
          end
      | BBlock sd ks tmo, BWSelect =>
          if mem t (tok s)
          then Some (set_bth t (with_bpc x (BWTry 0)) (set_tok (remove_all t (tok s)) s))
          else None
      | BBlock sd ks tmo, BWDereg r =>
          Some (set_bth t (with_bpc x (BDone (RBlock r))) (dereg t ks s))
      | _, _ => None
      end
  end.

(* the timer branch of the select *)
Definition step_fire (t : nat) (s : bstate) : option bstate :=
  match nget t (bths s) with
  | Some x =>
      match b_cmd x, b_pc x with
      | BBlock sd ks tmo, BWSelect =>
          if negb (tmo =? 0) && (b_deadline x <=? now s) then Some (set_bth t (with_bpc x (BWDereg None)) s) else None
      | _, _ => None
      end
  | None => None
  end.

Inductive bop := Run (t : nat) | Fire (t : nat) | Tick (d : Z).

Definition bstep (o : bop) (s : bstate) : option bstate :=
  match o with
  | Run t => step_run t s
  | Fire t => step_fire t s
  | Tick d => if 0 <=? d then Some {| lists := lists s; klock := klock s; reg := reg s; tok := tok s; now := now s + d; bths := bths s |}
              else None
  end.
(* an op that is not enabled leaves the state alone *)
Definition bapply (s : bstate) (o : bop) : bstate := match bstep o s with Some s' => s' | None => s end.
Definition brun (sched : list bop) (s : bstate) : bstate := fold_left bapply sched s.

Definition binit (ls : list (nat * list Z)) (cmds : list bcmd) : bstate :=
  {| lists := ls; klock := []; reg := []; tok := []; now := 0;
     bths := combine (seq 0 (length cmds))
               (map (fun c => {| b_cmd := c; b_pc := BStart; b_start := 0; b_deadline := 0 |}) cmds) |}.

(* well-formed commands: a blocking pop names at least one key *)
Definition wf_cmd (c : bcmd) : bool :=
  match c with
  | BBlock _ ks _ => negb (match ks with [] => true | _ => false end)
  | _ => true
  end.

(* observations *)
Definition breply (t : nat) (s : bstate) : option reply :=
  match nget t (bths s) with Some x => match b_pc x with BDone r => Some r | _ => None end | None => None end.
Definition bpc_tag (p : bpc) : nat :=
  match p with BStart => 0 | BPNotify => 1 | BMWait _ => 2 | BMNotify _ => 3 | BWReg _ => 4 | BWTry _ => 5
             | BWSelect => 6 | BWDereg _ => 7 | BDone _ => 8 end%nat.
Definition enabled (o : bop) (s : bstate) : bool := match bstep o s with Some _ => true | None => false end.
