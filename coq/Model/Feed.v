(* The change feed: what a replica does with a record (ApplyPatch, nodis.go) and the logical
   state two instances are compared on. *)
From Nodis Require Import Base.Bytes Model.Num Model.FMap Model.DsStr Model.DsList Model.DsHash Model.DsSet
     Model.DsZSet Model.Db Model.Api.
From Coq Require Import ZArith List Bool.
Import ListNotations.
Local Open Scope Z_scope.

Definition db_of {A} (r : res A) (d0 : db) : option db :=
  match r with Ok _ d => Some d | Panic d => Some d | Unm => None end.

(* applyPatch(op): None = outside the model (store records carry weights and an aggregate the
   record type of the model does not) *)
Definition apply_pop (o : pop) (now : Z) (d : db) : option db :=
  match o with
  | PSet k v keep exp =>
      match db_of (api_set k v keep now d) d with
      | Some d1 => if exp =? 0 then Some d1 else Some (snd (api_expireat k exp now d1))
      | None => None
      end
  | PExpire k exp => Some (snd (api_expireat k exp now d))
  | PPersist k => Some (snd (api_persist k now d))
  | PRename k dst => Some (snd (api_rename k dst now d))
  | PLPush k vs => db_of (api_push true k vs now d) d
  | PRPush k vs => db_of (api_push false k vs now d) d
  | PLPushX k v => db_of (api_pushx true k v now d) d
  | PRPushX k v => db_of (api_pushx false k v now d) d
  | PLPop k c => db_of (api_pop true k c now d) d
  | PRPop k c => db_of (api_pop false k c now d) d
  | PLInsert k p v b => db_of (api_linsert k p v b now d) d
  | PLRem k v c => db_of (api_lrem k v c now d) d
  | PLSet k i v => db_of (api_lset k i v now d) d
  | PLTrim k a b => db_of (api_ltrim k a b now d) d
  | PLPopRPush k dst => db_of (api_move true k dst now d) d
  | PRPopLPush k dst => db_of (api_move false k dst now d) d
  | PHSet k f v => db_of (api_hset k f v now d) d
  | PHDel k fs => db_of (api_hdel k fs now d) d
  | PHIncrBy k f n => db_of (api_hincrby k f n now d) d
  | PHIncrByFloat k f s => db_of (api_hincrbyfloat k f s now d) d
  | PSAdd k ms => db_of (api_sadd k ms now d) d
  | PSRem k ms => db_of (api_srem k ms now d) d
  | PZAdd k m s => db_of (api_zadd_gen 0 k m s now d) d
  | PZIncrBy k m s => db_of (api_zincrby k m s now d) d
  | PDel k => Some (snd (api_del [k] now d))
  | PClear => Some (api_clear d)
  | PZRem _ _ | PZRemRangeByRank _ _ _ | PZRemRangeByScore _ _ _ _ | PZUnionStore _ _ | PZInterStore _ _ => None
  end.

Fixpoint apply_pops (os : list pop) (now : Z) (d : db) : option db :=
  match os with
  | [] => Some d
  | o :: r => match apply_pop o now d with Some d1 => apply_pops r now d1 | None => None end
  end.

(* the records a step emitted, oldest first: the events of d' that d did not have yet *)
Definition new_pops (d d' : db) : list pop :=
  let fresh := firstn (length (events d') - length (events d)) (events d') in
  rev (flat_map (fun e => match e with EvNotify o => [o] | _ => [] end) fresh).

(* logical state: live names with deadline and value *)
Definition logical (now : Z) (d : db) : list (bytes * Z * option value) :=
  flat_map (fun e => if expired (snd e) now d then [] else [(fst e, exp_of (snd e) d, val_of (snd e) d)]) (idx d).
