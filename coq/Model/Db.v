(* The keyspace: store.go / tx.go / metadata.go / storage/*, sequential semantics.
   Go objects that are shared by pointer (ds.Key, ds.Value) live in two small heaps so
   that the in-memory backend (which keeps references) and Pebble (which keeps bytes,
   modelled as value snapshots justified by the C14 round-trip theorems) are both exact. *)
From Nodis Require Import Base.Bytes Base.Varint Model.Codec Model.Num Model.FMap
     Model.DsStr Model.DsList Model.DsHash Model.DsSet Model.DsZSet.
From Coq Require Import ZArith NArith List Bool.
Local Open Scope Z_scope.

Inductive value :=
| VStr (s : strv) | VList (l : listv) | VHash (h : hashv) | VSet (s : setv) | VZSet (z : zsetv).

(* ds.ValueType: 1 string, 2 set, 3 list, 4 zset, 5 hash *)
Definition vtype (v : value) : Z :=
  match v with VStr _ => 1 | VSet _ => 2 | VList _ => 3 | VZSet _ => 4 | VHash _ => 5 end.

(* ---- tiny heaps ------------------------------------------------------------ *)
Section NMap.
  Context {A : Type}.
  Definition nmap := list (nat * A).
  Fixpoint nm_get (k : nat) (m : nmap) : option A :=
    match m with [] => None | (k', v) :: r => if Nat.eqb k k' then Some v else nm_get k r end.
  Fixpoint nm_set (k : nat) (v : A) (m : nmap) : nmap :=
    match m with
    | [] => [(k, v)]
    | (k', v') :: r => if Nat.eqb k k' then (k, v) :: r else (k', v') :: nm_set k v r
    end.
End NMap.
Arguments nmap A : clear implicits.

(* ---- change records (patch.Op) and other side effects ---------------------- *)
Inductive pop :=
| PSet (k v : bytes) (keepttl : bool) (exp : Z)
| PExpire (k : bytes) (exp : Z)
| PPersist (k : bytes)
| PRename (k dst : bytes)
| PLPush (k : bytes) (vs : list bytes) | PRPush (k : bytes) (vs : list bytes)
| PLPushX (k v : bytes) | PRPushX (k v : bytes)
| PLPop (k : bytes) (count : Z) | PRPop (k : bytes) (count : Z)
| PLInsert (k pivot v : bytes) (before : bool)
| PLRem (k v : bytes) (count : Z) | PLSet (k : bytes) (i : Z) (v : bytes)
| PLTrim (k : bytes) (a b : Z)
| PLPopRPush (k dst : bytes) | PRPopLPush (k dst : bytes)
| PHSet (k f v : bytes) | PHDel (k : bytes) (fs : list bytes)
| PHIncrBy (k f : bytes) (d : Z) | PHIncrByFloat (k f : bytes) (d : score)
| PSAdd (k : bytes) (ms : list bytes) | PSRem (k : bytes) (ms : list bytes)
| PZAdd (k m : bytes) (s : score) | PZIncrBy (k m : bytes) (s : score)
| PZRem (k : bytes) (ms : list bytes)
| PZRemRangeByRank (k : bytes) (a b : Z)
| PZRemRangeByScore (k : bytes) (mn mx : score) (mode : Z)
| PZUnionStore (k : bytes) (ks : list bytes) | PZInterStore (k : bytes) (ks : list bytes)
| PDel (k : bytes) | PClear.

Inductive event :=
| EvSignal (k : bytes)          (* signalModifiedKey: watchers of k are flagged *)
| EvNotify (o : pop)            (* notify: change record for listeners *)
| EvWake (k : bytes).           (* notifyBlockingKey *)

(* ---- state ------------------------------------------------------------------ *)
Record meta := {
  m_key : nat;            (* reference to the ds.Key object (name, deadline) *)
  m_val : option nat;     (* reference to the value object; None = not in memory *)
  m_mod : bool;           (* KeyStateModified *)
  m_count : Z;            (* hotness counter *)
  m_vtype : Z             (* cached valueType, 0 after Open *)
}.

Inductive sentry :=
| SMem (k : nat) (o : nat)          (* storage.Memory: keeps the Go objects *)
| SPeb (v : value).                 (* storage.Pebble: bytes; decode(encode v) = v by C14 *)

Record db := {
  idx : fmap meta;                  (* store.metadata *)
  kobjs : nmap (bytes * Z);         (* ds.Key objects *)
  vobjs : nmap value;               (* ds.Value objects *)
  nextref : nat;
  disk : fmap sentry;               (* encoded key -> entry *)
  pebble : bool;                    (* which backend *)
  closed : bool;
  faults : list bool;               (* outcome of the next storage writes: true = rejected *)
  events : list event               (* most recent first *)
}.

Definition db_empty (peb : bool) : db :=
  {| idx := []; kobjs := []; vobjs := []; nextref := 0; disk := []; pebble := peb;
     closed := false; faults := []; events := [] |}.

Definition with_idx d i :=
  {| idx := i; kobjs := kobjs d; vobjs := vobjs d; nextref := nextref d; disk := disk d;
     pebble := pebble d; closed := closed d; faults := faults d; events := events d |}.
Definition with_events d e :=
  {| idx := idx d; kobjs := kobjs d; vobjs := vobjs d; nextref := nextref d; disk := disk d;
     pebble := pebble d; closed := closed d; faults := faults d; events := e |}.
Definition with_disk d s :=
  {| idx := idx d; kobjs := kobjs d; vobjs := vobjs d; nextref := nextref d; disk := s;
     pebble := pebble d; closed := closed d; faults := faults d; events := events d |}.
Definition with_faults d f :=
  {| idx := idx d; kobjs := kobjs d; vobjs := vobjs d; nextref := nextref d; disk := disk d;
     pebble := pebble d; closed := closed d; faults := f; events := events d |}.
Definition with_closed d c :=
  {| idx := idx d; kobjs := kobjs d; vobjs := vobjs d; nextref := nextref d; disk := disk d;
     pebble := pebble d; closed := c; faults := faults d; events := events d |}.

Definition emit (e : event) (d : db) : db := with_events d (e :: events d).

Definition alloc_key (name : bytes) (exp : Z) (d : db) : nat * db :=
  (nextref d,
   {| idx := idx d; kobjs := (nextref d, (name, exp)) :: kobjs d; vobjs := vobjs d;
      nextref := S (nextref d); disk := disk d; pebble := pebble d; closed := closed d;
      faults := faults d; events := events d |}).
Definition alloc_val (v : value) (d : db) : nat * db :=
  (nextref d,
   {| idx := idx d; kobjs := kobjs d; vobjs := (nextref d, v) :: vobjs d;
      nextref := S (nextref d); disk := disk d; pebble := pebble d; closed := closed d;
      faults := faults d; events := events d |}).
Definition set_kobj (r : nat) (name : bytes) (exp : Z) (d : db) : db :=
  {| idx := idx d; kobjs := nm_set r (name, exp) (kobjs d); vobjs := vobjs d;
     nextref := nextref d; disk := disk d; pebble := pebble d; closed := closed d;
     faults := faults d; events := events d |}.
Definition set_vobj (r : nat) (v : value) (d : db) : db :=
  {| idx := idx d; kobjs := kobjs d; vobjs := nm_set r v (vobjs d);
     nextref := nextref d; disk := disk d; pebble := pebble d; closed := closed d;
     faults := faults d; events := events d |}.

Definition key_of (m : meta) (d : db) : bytes * Z :=
  match nm_get (m_key m) (kobjs d) with Some k => k | None => ([], 0) end.
Definition exp_of (m : meta) (d : db) : Z := snd (key_of m d).
(* metadata.expired(now) *)
Definition expired (m : meta) (now : Z) (d : db) : bool :=
  negb (exp_of m d =? 0) && (exp_of m d <=? now).
Definition set_exp (m : meta) (e : Z) (d : db) : db :=
  set_kobj (m_key m) (fst (key_of m d)) e d.

Definition put_meta (k : bytes) (m : meta) (d : db) : db := with_idx d (fst (fm_set k m (idx d))).
Definition del_meta (k : bytes) (d : db) : db := with_idx d (fst (fm_del k (idx d))).

(* ---- storage backends -------------------------------------------------------- *)
(* snapshot of a value as Pebble stores and returns it (GetValue then SetValue):
   strings come back as non-nil slices, list lengths are recounted, the sorted-set index
   is rebuilt from the dictionary *)
Definition reload_value (v : value) : value :=
  match v with
  | VStr s => VStr {| sv := sv s; snil := false |}
  | VList l => VList {| lx := lx l; ll := Z.of_nat (length (lx l)) |}
  | VHash h => VHash h
  | VSet s => VSet s
  | VZSet z => VZSet (fold_left (fun acc e => snd (zset_zadd (fst e) (snd e) acc)) (zd z) zset_new)
  end.

(* ss.Set(m.key, m.value): true = the backend reported an error *)
Definition ss_set (m : meta) (d : db) : bool * db :=
  match faults d with
  | true :: rest => (true, with_faults d rest)
  | _ =>
      let d := match faults d with _ :: rest => with_faults d rest | [] => d end in
      let '(name, exp) := key_of m d in
      let enc := key_enc name exp in
      match m_val m with
      | None => (false, d)
      | Some o =>
          if pebble d then
            match nm_get o (vobjs d) with
            | Some v => (false, with_disk d (fst (fm_set enc (SPeb v) (disk d))))
            | None => (false, d)
            end
          else (false, with_disk d (fst (fm_set enc (SMem (m_key m) o) (disk d))))
      end
  end.

(* ss.Get(m.key): the value object to install, or None (not found) *)
Definition ss_get (m : meta) (d : db) : option nat * db :=
  let '(name, exp) := key_of m d in
  match fm_get (key_enc name exp) (disk d) with
  | None => (None, d)
  | Some (SMem _ o) => (Some o, d)
  | Some (SPeb v) => let '(o, d') := alloc_val (reload_value v) d in (Some o, d')
  end.

(* metadata.setValue *)
Definition meta_set_value (m : meta) (o : nat) (d : db) : meta :=
  {| m_key := m_key m; m_val := Some o; m_mod := m_mod m; m_count := m_count m;
     m_vtype := match nm_get o (vobjs d) with Some v => vtype v | None => 0 end |}.
Definition meta_with_mod (m : meta) (b : bool) : meta :=
  {| m_key := m_key m; m_val := m_val m; m_mod := b; m_count := m_count m; m_vtype := m_vtype m |}.
Definition meta_with_count (m : meta) (c : Z) : meta :=
  {| m_key := m_key m; m_val := m_val m; m_mod := m_mod m; m_count := c; m_vtype := m_vtype m |}.
Definition meta_with_val (m : meta) (o : option nat) : meta :=
  {| m_key := m_key m; m_val := o; m_mod := m_mod m; m_count := m_count m; m_vtype := m_vtype m |}.

(* ---- tx.go ------------------------------------------------------------------- *)
(* newKey(m, key, newFn) with newFn != nil: [m0] is the record being reused (an expired
   or unloadable one) or None for a fresh one *)
Definition new_key (m0 : option meta) (k : bytes) (v : value) (d : db) : meta * db :=
  let '(o, d1) := alloc_val v d in
  let '(kr, d2) := alloc_key k 0 d1 in
  let m := {| m_key := kr; m_val := Some o; m_mod := true;
              m_count := match m0 with Some m => m_count m | None => 0 end;
              m_vtype := vtype v |} in
  (m, put_meta k m d2).

(* lockKey/rLockKey: lookup and count++ *)
Definition touch (k : bytes) (d : db) : option meta * db :=
  match fm_get k (idx d) with
  | Some m => let m' := meta_with_count m (m_count m + 1) in (Some m', put_meta k m' d)
  | None => (None, d)
  end.

(* writeKey(key, newFn): the record for key after the call, if it is "ok" *)
Definition write_key (k : bytes) (newv : option value) (now : Z) (d : db) : option meta * db :=
  let '(om, d1) := touch k d in
  let create m0 dd := match newv with
                      | Some v => let '(m, d') := new_key m0 k v dd in (Some m, d')
                      | None => (None, dd)
                      end in
  match om with
  | None => create None d1
  | Some m =>
      if expired m now d1 then create (Some m) d1
      else match m_val m with
           | Some _ => (Some m, d1)
           | None =>
               match ss_get m d1 with
               | (None, d2) => create (Some m) d2
               | (Some o, d2) => let m' := meta_set_value m o d2 in (Some m', put_meta k m' d2)
               end
           end
  end.

(* readKey(key) *)
Definition read_key (k : bytes) (now : Z) (d : db) : option meta * db :=
  let '(om, d1) := touch k d in
  match om with
  | None => (None, d1)
  | Some m =>
      if expired m now d1 then (None, d1)
      else match m_val m with
           | Some _ => (Some m, d1)
           | None =>
               match ss_get m d1 with
               | (None, d2) => (None, d2)
               | (Some o, d2) => let m' := meta_set_value m o d2 in (Some m', put_meta k m' d2)
               end
           end
  end.

Definition val_of (m : meta) (d : db) : option value :=
  match m_val m with Some o => nm_get o (vobjs d) | None => None end.
Definition set_val_of (m : meta) (v : value) (d : db) : db :=
  match m_val m with Some o => set_vobj o v d | None => d end.

(* signalModifiedKey(key, meta): meta.state |= Modified (on the record the caller holds,
   which is the one in the index unless it was unlinked) and watchers of [key] flagged *)
Definition signal (k : bytes) (m : meta) (d : db) : db :=
  let d1 := match fm_get k (idx d) with
            | Some m' => if Nat.eqb (m_key m') (m_key m) then put_meta k (meta_with_mod m' true) d else d
            | None => d
            end in
  emit (EvSignal k) d1.

(* ---- store.go: flush / gc / close / open / clear ---------------------------- *)
Definition meta_modified (m : meta) : bool :=
  match m_val m with Some _ => m_mod m | None => false end.

Definition flush (now : Z) (d : db) : db :=
  fold_left (fun dd (e : bytes * meta) =>
               let m := snd e in
               if negb (meta_modified m) || expired m now dd then dd
               else snd (ss_set m dd))
            (idx d) d.

(* gc: the records of the index are collected first (store.records) and then visited one by one,
   each under its own key lock; an expired record is unlinked (the skip flag, which modelled the
   btree's scan-with-delete artefact of the earlier code, is never set any more) *)
Fixpoint gc_scan (now : Z) (skip : bool) (es : list (bytes * meta)) (d : db) : db :=
  match es with
  | [] => d
  | (k, m0) :: r =>
      if skip then gc_scan now false r d
      else
        match fm_get k (idx d) with
        | None => gc_scan now false r d
        | Some m =>
            if expired m now d then gc_scan now false r (del_meta k d)
            else
              let '(failed, d1) := if meta_modified m then ss_set m d else (false, d) in
              if failed then gc_scan now false r d1   (* the write was rejected: the record stays hot and modified *)
              else
              let c := m_count m - 1 in
              let m1 := {| m_key := m_key m; m_val := if c <? 0 then None else m_val m;
                           m_mod := false; m_count := c; m_vtype := m_vtype m |} in
              gc_scan now false r (put_meta k m1 d1)
        end
  end.
Definition gc (now : Z) (d : db) : db := if closed d then d else gc_scan now false (idx d) d.
Definition gc_modelled (d : db) : bool := Z.of_nat (length (idx d)) <=? 200.

Definition close (now : Z) (d : db) : db := flush now (with_closed d true).

(* newStore: ScanKeys in encoded-key order; a later entry for the same name replaces the
   earlier one in the index *)
Definition open_scan (d : db) : db :=
  fold_left (fun dd (e : bytes * sentry) =>
               let mk kr nm := put_meta nm {| m_key := kr; m_val := None; m_mod := false;
                                              m_count := 0; m_vtype := 0 |} in
               match snd e with
               | SMem kr _ =>
                   match nm_get kr (kobjs dd) with
                   | Some (nm, _) => mk kr nm dd
                   | None => dd
                   end
               | SPeb _ =>
                   match key_dec (fst e) with
                   | Some (nm, ex) => let '(kr, d') := alloc_key nm ex dd in mk kr nm d'
                   | None => dd
                   end
               end)
            (disk d) (with_closed (with_idx d []) false).

(* Clear: index and storage emptied *)
Definition clear (d : db) : db := with_disk (with_idx d []) [].
