(* tidwall/btree Map[string, V] as a strictly ascending association list under Go's string
   order.  Only the operations nodis uses. *)
From Nodis Require Import Base.Bytes.
From Coq Require Import List Bool.

Section FMap.
  Context {V : Type}.
  Definition fmap := list (bytes * V).

  Fixpoint fm_get (k : bytes) (m : fmap) : option V :=
    match m with
    | [] => None
    | (k', v) :: r => if bytes_eqb k k' then Some v else if bytes_ltb k k' then None else fm_get k r
    end.

  (* Set: returns the new map and whether an entry was replaced *)
  Fixpoint fm_set (k : bytes) (v : V) (m : fmap) : fmap * bool :=
    match m with
    | [] => ([(k, v)], false)
    | (k', v') :: r =>
        if bytes_eqb k k' then ((k, v) :: r, true)
        else if bytes_ltb k k' then ((k, v) :: m, false)
        else let '(r', rep) := fm_set k v r in ((k', v') :: r', rep)
    end.

  Fixpoint fm_del (k : bytes) (m : fmap) : fmap * bool :=
    match m with
    | [] => ([], false)
    | (k', v') :: r =>
        if bytes_eqb k k' then (r, true)
        else if bytes_ltb k k' then (m, false)
        else let '(r', d) := fm_del k r in ((k', v') :: r', d)
    end.

  Definition fm_keys (m : fmap) : list bytes := map fst m.
  Definition fm_vals (m : fmap) : list V := map snd m.
  Definition fm_mem (k : bytes) (m : fmap) : bool :=
    match fm_get k m with Some _ => true | None => false end.

  Fixpoint fm_sorted (m : fmap) : bool :=
    match m with
    | [] => true
    | (k, _) :: r => match r with
                     | [] => true
                     | (k', _) :: _ => bytes_ltb k k' && fm_sorted r
                     end
    end.
End FMap.
Arguments fmap V : clear implicits.
