(* Threads running commands against the locking protocol of tx.go / metadata.go.

   Values are list lengths (PUSH = RPUSH k x, POP = LPOP k, LEN = LLEN k, DEL = DEL k,
   MOVE a b = LPOPRPUSH a b on lists of indistinguishable elements).  A thread is a small state
   machine; the states marked POINT are the places where the implementation, built with the
   verif tag, calls verifPoint (after the index lookup: hit / miss; after a key lock has been
   acquired: locked; before delKey: unlink), so a schedule of grants can be forced on the real
   code.  Between two points the model takes micro-steps (publish, load, store, commit): the
   theorems quantify over all interleavings of micro-steps, the replay uses grants. *)
From Coq Require Import ZArith List Bool Arith.
Import ListNotations.
Local Open Scope Z_scope.

Section NM.
  Context {A : Type}.
  Fixpoint nget (k : nat) (m : list (nat * A)) : option A :=
    match m with [] => None | (k', v) :: r => if Nat.eqb k k' then Some v else nget k r end.
  Fixpoint nset (k : nat) (v : A) (m : list (nat * A)) : list (nat * A) :=
    match m with
    | [] => [(k, v)]
    | (k', v') :: r => if Nat.eqb k k' then (k, v) :: r else (k', v') :: nset k v r
    end.
  (* delKey: every entry of the key goes (there is at most one) *)
  Definition ndel (k : nat) (m : list (nat * A)) : list (nat * A) :=
    filter (fun p => negb (Nat.eqb (fst p) k)) m.
End NM.

Inductive cmd := Push (k : nat) | Pop (k : nat) | Len (k : nat) | Del (k : nat) | Move (a b : nat)
| PushX (k : nat).   (* RPUSHX: a writer that does not create the key *)

(* a metadata record: the value, its RWMutex, and two ghost counters (acknowledged elements in / out) *)
(* r_unl: metadata.unlinked - set, under the record's lock, when the record is removed from the index *)
Record rcd := { r_val : Z; r_w : option nat; r_rd : list nat; r_in : Z; r_out : Z; r_unl : bool }.
Definition rcd_new : rcd := {| r_val := 0; r_w := None; r_rd := []; r_in := 0; r_out := 0; r_unl := false |}.

Inductive pc :=
| PStart                                  (* POINT (initial) *)
| PHit (r : nat) (second : bool)          (* POINT hit: the lookup found record r; next: Lock / RLock *)
| PWait (r : nat) (second : bool)         (* inside Lock(): blocked until the holder commits *)
| PLocked (r : nat) (second : bool)       (* POINT locked *)
| PMiss (second : bool)                   (* POINT miss *)
| PPub (r : nat) (second : bool)          (* fresh record published (not locked) *)
| PLoaded (r : nat) (tmp : Z) (second : bool)
| PStored (r : nat) (second : bool)
| PUnlink (r : nat) (popped : bool)       (* POINT unlink: before delKey of the first key; popped = what the command will reply *)
| PDone (reply : Z).

Record thread := { t_cmd : cmd; t_pc : pc; t_held : list (nat * bool) (* record, exclusive? *) }.
Record cstate := { ix : list (nat * nat); recs : list (nat * rcd); nextr : nat; ths : list (nat * thread) }.

Definition key_of (c : cmd) (second : bool) : nat :=
  match c with Push k | Pop k | Len k | Del k | PushX k => k | Move a b => if second then b else a end.
Definition creates (c : cmd) (second : bool) : bool :=
  match c with Push _ => true | Move _ _ => second | _ => false end.
Definition is_reader (c : cmd) : bool := match c with Len _ => true | _ => false end.

Definition get_rec (r : nat) (s : cstate) : rcd := match nget r (recs s) with Some x => x | None => rcd_new end.
Definition set_rec (r : nat) (x : rcd) (s : cstate) : cstate :=
  {| ix := ix s; recs := nset r x (recs s); nextr := nextr s; ths := ths s |}.
Definition set_ix (i : list (nat * nat)) (s : cstate) : cstate :=
  {| ix := i; recs := recs s; nextr := nextr s; ths := ths s |}.
Definition set_th (t : nat) (x : thread) (s : cstate) : cstate :=
  {| ix := ix s; recs := recs s; nextr := nextr s; ths := nset t x (ths s) |}.
Definition with_pc (x : thread) (p : pc) : thread := {| t_cmd := t_cmd x; t_pc := p; t_held := t_held x |}.

Definition lock_free (excl : bool) (x : rcd) : bool :=
  match r_w x with
  | Some _ => false
  | None => if excl then match r_rd x with [] => true | _ => false end else true
  end.
Definition acquire (t : nat) (excl : bool) (x : rcd) : rcd :=
  if excl then {| r_val := r_val x; r_w := Some t; r_rd := r_rd x; r_in := r_in x; r_out := r_out x; r_unl := r_unl x |}
  else {| r_val := r_val x; r_w := r_w x; r_rd := t :: r_rd x; r_in := r_in x; r_out := r_out x; r_unl := r_unl x |}.
Definition release (t : nat) (excl : bool) (x : rcd) : rcd :=
  if excl then {| r_val := r_val x; r_w := None; r_rd := r_rd x; r_in := r_in x; r_out := r_out x; r_unl := r_unl x |}
  else {| r_val := r_val x; r_w := r_w x; r_rd := filter (fun u => negb (Nat.eqb u t)) (r_rd x); r_in := r_in x; r_out := r_out x; r_unl := r_unl x |}.
Definition with_val (x : rcd) (v din dout : Z) : rcd :=
  {| r_val := v; r_w := r_w x; r_rd := r_rd x; r_in := r_in x + din; r_out := r_out x + dout; r_unl := r_unl x |}.

(* commit(): release everything the thread holds, reply *)
Definition commit (t : nat) (x : thread) (reply : Z) (s : cstate) : cstate :=
  let s1 := fold_left (fun acc h => set_rec (fst h) (release t (snd h) (get_rec (fst h) acc)) acc) (t_held x) s in
  set_th t {| t_cmd := t_cmd x; t_pc := PDone reply; t_held := [] |} s1.

(* sync.RWMutex: a pending Lock() keeps new readers out *)
Definition writer_waiting (r : nat) (s : cstate) : bool :=
  existsb (fun tx => match t_pc (snd tx) with
                     | PWait r' _ => Nat.eqb r' r && negb (is_reader (t_cmd (snd tx)))
                     | _ => false
                     end) (ths s).
(* Lock() / RLock() on record r *)
Definition lookup_next (t : nat) (x : thread) (second : bool) (s : cstate) : cstate :=
  match nget (key_of (t_cmd x) second) (ix s) with
  | Some r => set_th t (with_pc x (PHit r second)) s
  | None => set_th t (with_pc x (PMiss second)) s
  end.
(* tx.go lockKey / rLockKey: once the lock is obtained the record is validated - if it was unlinked
   while the thread waited, the lock is given back and the key is looked up again *)
Definition holds_rec (x : thread) (r : nat) (excl : bool) : bool :=
  existsb (fun h => Nat.eqb (fst h) r && (if excl then snd h else true)) (t_held x).
(* tx.go lockKey is reentrant within one command: a record the command already holds (exclusively, for a
   writer) is not locked a second time - LPOPRPUSH k k *)
Definition try_lock (t : nat) (x : thread) (r : nat) (sec : bool) (s : cstate) : cstate :=
  let excl := negb (is_reader (t_cmd x)) in
  if holds_rec x r excl then set_th t (with_pc x (PLocked r sec)) s
  else
  if (if excl then lock_free true (get_rec r s) else lock_free false (get_rec r s) && negb (writer_waiting r s))
  then if r_unl (get_rec r s) then lookup_next t x sec s
       else set_th t {| t_cmd := t_cmd x; t_pc := PLocked r sec; t_held := (r, excl) :: t_held x |}
              (set_rec r (acquire t excl (get_rec r s)) s)
  else set_th t (with_pc x (PWait r sec)) s.

(* one micro-step of thread t; None = finished.  A thread inside Lock() (PWait) retries. *)
Definition mstep (t : nat) (s : cstate) : option cstate :=
  match nget t (ths s) with
  | None => None
  | Some x =>
      let c := t_cmd x in
      match t_pc x with
      | PDone _ => None
      | PStart => Some (lookup_next t x false s)
      | PHit r sec | PWait r sec => Some (try_lock t x r sec s)
      | PLocked r sec =>
          match c with
          | Len _ => Some (commit t x (r_val (get_rec r s)) s)
          | Del _ => Some (set_th t (with_pc x (PUnlink r true)) s)
          | _ => Some (set_th t (with_pc x (PLoaded r (r_val (get_rec r s)) sec)) s)
          end
      | PMiss sec =>
          (* tx.go newKey: under the index lock, a key that has appeared since the lookup is used
             (back to lockKey); otherwise the new record is locked before it is published *)
          if creates c sec
          then match nget (key_of c sec) (ix s) with
               | Some _ => Some (lookup_next t x sec s)
               | None =>
                   let r := nextr s in
                   Some (set_th t {| t_cmd := c; t_pc := PPub r sec; t_held := (r, true) :: t_held x |}
                           {| ix := nset (key_of c sec) r (ix s); recs := nset r (acquire t true rcd_new) (recs s);
                              nextr := S r; ths := ths s |})
               end
          else Some (commit t x 0 s)
      | PPub r sec => Some (set_th t (with_pc x (PLoaded r (r_val (get_rec r s)) sec)) s)
      | PLoaded r tmp sec =>
          match c with
          | Push _ | PushX _ => Some (set_th t (with_pc x (PStored r sec)) (set_rec r (with_val (get_rec r s) (tmp + 1) 1 0) s))
          | Pop _ =>
              (* list.go LPop: pop, then "if LLen() == 0 { delKey(key) }" - also when nothing was popped *)
              if tmp <=? 0 then Some (set_th t (with_pc x (PUnlink r false)) s)
              else Some (set_th t (with_pc x (PStored r sec)) (set_rec r (with_val (get_rec r s) (tmp - 1) 0 1) s))
          | Move _ _ =>
              if sec then Some (set_th t (with_pc x (PStored r sec)) (set_rec r (with_val (get_rec r s) (tmp + 1) 1 0) s))
              else if tmp <=? 0 then Some (commit t x 0 s)
              else Some (set_th t (with_pc x (PStored r sec)) (set_rec r (with_val (get_rec r s) (tmp - 1) 0 1) s))
          | _ => None
          end
      | PStored r sec =>
          match c with
          | Push _ | PushX _ => Some (commit t x (r_val (get_rec r s)) s)
          | Pop _ => if r_val (get_rec r s) =? 0 then Some (set_th t (with_pc x (PUnlink r true)) s) else Some (commit t x 1 s)
          | Move _ _ =>
              if sec then Some (commit t x 1 s)
              else if (r_val (get_rec r s) =? 0) && negb (Nat.eqb (key_of c false) (key_of c true))
                   then Some (set_th t (with_pc x (PUnlink r true)) s)   (* a rotation keeps its key *)
              else Some (lookup_next t x true s)
          | _ => None
          end
      | PUnlink r popped =>
          (* tx.go delKey: the record the index holds for the key is flagged, then removed *)
          let s0 := match nget (key_of c false) (ix s) with
                    | Some r0 => let y := get_rec r0 s in
                                 set_rec r0 {| r_val := r_val y; r_w := r_w y; r_rd := r_rd y; r_in := r_in y; r_out := r_out y; r_unl := true |} s
                    | None => s
                    end in
          let s1 := set_ix (ndel (key_of c false) (ix s0)) s0 in
          match c with
          | Move _ _ => Some (lookup_next t x true s1)
          | _ => Some (commit t x (if popped then 1 else 0) s1)
          end
      end
  end.

Definition at_point (p : pc) : bool :=
  match p with PPub _ _ | PLoaded _ _ _ | PStored _ _ => false | _ => true end.

(* a grant: the thread runs from its point to its next point (or blocks, or ends) *)
Fixpoint run_on (fuel : nat) (t : nat) (s : cstate) : cstate :=
  match fuel with
  | O => s
  | S f =>
      match nget t (ths s) with
      | Some x => if at_point (t_pc x) then s
                  else match mstep t s with Some s' => run_on f t s' | None => s end
      | None => s
      end
  end.
(* threads blocked inside Lock() get the lock as soon as it is free (in thread order: schedules
   with two waiters on one record are not replayed) and then run to the point "locked" *)
Fixpoint wake (l : list (nat * thread)) (s : cstate) : cstate :=
  match l with
  | [] => s
  | (u, _) :: rest =>
      let s1 := match nget u (ths s) with
                | Some x => match t_pc x with
                            | PWait r sec => try_lock u x r sec s
                            | _ => s
                            end
                | None => s
                end in
      wake rest s1
  end.
Definition grant (t : nat) (s : cstate) : cstate :=
  match nget t (ths s) with
  | Some x =>
      match t_pc x with
      | PWait _ _ => s           (* inside Lock(): there is nothing to grant *)
      | _ => match mstep t s with
             | Some s' => let s2 := run_on 8 t s' in wake (ths s2) s2
             | None => s
             end
      end
  | None => s
  end.

Definition init_state (vals : list (nat * Z)) (cmds : list cmd) : cstate :=
  let recs0 := map (fun kv => (fst kv, {| r_val := snd kv; r_w := None; r_rd := []; r_in := 0; r_out := 0; r_unl := false |})) vals in
  {| ix := map (fun kv => (fst kv, fst kv)) vals;
     recs := recs0;
     nextr := S (fold_left Nat.max (map fst vals) 0%nat);
     ths := combine (seq 0 (length cmds)) (map (fun c => {| t_cmd := c; t_pc := PStart; t_held := [] |}) cmds) |}.
Definition run_grants (sched : list nat) (s : cstate) : cstate := fold_left (fun acc t => grant t acc) sched s.
Definition run_micro (sched : list nat) (s : cstate) : cstate :=
  fold_left (fun acc t => match mstep t acc with Some s' => s' | None => acc end) sched s.

(* observations *)
Definition key_val (k : nat) (s : cstate) : option Z :=
  match nget k (ix s) with Some r => Some (r_val (get_rec r s)) | None => None end.
Definition reply_of (t : nat) (s : cstate) : option Z :=
  match nget t (ths s) with Some x => match t_pc x with PDone r => Some r | _ => None end | None => None end.
Definition waiting (s : cstate) : list nat :=
  flat_map (fun tx => match t_pc (snd tx) with PWait _ _ => [fst tx] | _ => [] end) (ths s).
Definition pc_tag (p : pc) : nat :=
  match p with PStart => 0 | PHit _ _ => 1 | PWait _ _ => 2 | PLocked _ _ => 3 | PMiss _ => 4 | PPub _ _ => 5
             | PLoaded _ _ _ => 6 | PStored _ _ => 7 | PUnlink _ _ => 8 | PDone _ => 9 end%nat.
