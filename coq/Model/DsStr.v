(* ds/str/str.go: the String value.  [v] is the byte slice s.V, [nilv] records that the
   slice is nil (GET then answers null): NewString() starts nil, Append of nothing keeps it. *)
From Nodis Require Import Base.Bytes Model.Num.
From Coq Require Import ZArith NArith List Bool.
Local Open Scope Z_scope.

Record strv := { sv : bytes; snil : bool }.
Definition str_new : strv := {| sv := []; snil := true |}.
Definition str_of (b : bytes) : strv := {| sv := b; snil := false |}.

(* Set / GetSet / Get : v is always a non-nil slice when it comes from a handler *)
Definition str_set (b : bytes) (_ : strv) : strv := str_of b.

(* the decimal source of Incr/Decr/IncrByFloat *)
Definition str_num_src (s : strv) : bytes :=
  match sv s with [] => [x30] | v => v end.

(* Incr(step): n += step wraps like int64 *)
Definition str_incr (step : Z) (s : strv) : option (Z * strv) :=
  match parse_int (str_num_src s) with
  | None => None
  | Some n => let n' := wrap64 (n + step) in Some (n', str_of (format_int n'))
  end.
Definition str_decr (step : Z) (s : strv) : option (Z * strv) :=
  match parse_int (str_num_src s) with
  | None => None
  | Some n => let n' := wrap64 (n - step) in Some (n', str_of (format_int n'))
  end.

Inductive fres := FRok (r : score) (s : strv) | FRerr | FRunm.
Definition str_incrbyfloat (step : score) (s : strv) : fres :=
  match parse_score (str_num_src s) with
  | FErr => FRerr
  | FUnmodelled => FRunm
  | FOk n => match score_add n step with
             | None => FRunm
             | Some r => FRok r (str_of (format_score r))
             end
  end.

Definition zlen (b : bytes) : Z := Z.of_nat (length b).
Definition nth_byte (b : bytes) (i : Z) : byte := nth (Z.to_nat i) b x00.
Fixpoint set_nth (l : bytes) (i : nat) (x : byte) : bytes :=
  match l, i with
  | [], _ => []
  | _ :: r, O => x :: r
  | y :: r, S k => y :: set_nth r k x
  end.
(* grow with zero bytes to length n (n >= len) *)
Definition grow_to (b : bytes) (n : Z) : bytes := b ++ repeat x00 (Z.to_nat (n - zlen b)).

(* SetBit(offset, value) -> old bit.  offset < 0 returns 0 without touching anything. *)
Definition str_setbit (offset : Z) (value : bool) (s : strv) : Z * strv :=
  if offset <? 0 then (0, s)
  else
    let i := offset / 8 in
    let v := if i >? zlen (sv s) - 1 then grow_to (sv s) (i + 1) else sv s in
    let nilv := if i >? zlen (sv s) - 1 then false else snil s in
    let byv := b2n (nth_byte v i) in
    let bit := N.of_nat (Z.to_nat (7 - offset mod 8)) in
    let old := N.testbit byv bit in
    let nb := if value then N.setbit byv bit else N.clearbit byv bit in
    ((if old then 1 else 0), {| sv := set_nth v (Z.to_nat i) (n2b nb); snil := nilv |}).

Definition str_getbit (offset : Z) (s : strv) : Z :=
  let i := offset / 8 in
  if (offset <? 0) || (zlen (sv s) =? 0) || (i >? zlen (sv s) - 1) then 0
  else if N.testbit (b2n (nth_byte (sv s) i)) (N.of_nat (Z.to_nat (7 - offset mod 8))) then 1 else 0.

Fixpoint popcount8 (n : N) (k : nat) : Z :=
  match k with
  | O => 0
  | S k' => (if N.testbit n (N.of_nat k') then 1 else 0) + popcount8 n k'
  end.
Definition popcount_bytes (b : bytes) : Z :=
  fold_left (fun acc x => acc + popcount8 (b2n x) 8) b 0.

Definition zslice (b : bytes) (lo hi : Z) : bytes :=
  firstn (Z.to_nat (hi - lo)) (skipn (Z.to_nat lo) b).

(* BitCount(start, end) exactly as written (byte mode) *)
Definition str_bitcount (start0 end0 : Z) (s : strv) : Z :=
  let bl := zlen (sv s) in
  let start := if start0 <? 0 then 0 else start0 in
  if start >=? bl then 0
  else
    let e1 := if end0 <=? 0 then end0 + bl + 1 else end0 in
    let e2 := if e1 >? bl then bl else e1 in
    if start >? e2 then 0
    else let e3 := if start =? e2 then e2 + 1 else e2 in
         popcount_bytes (zslice (sv s) start e3).

(* BitCountByBit(start, end): counts the set bits i in [start, end); bit i of the string
   is bit 7 - i mod 8 of byte i / 8 *)
Definition byte_bits (x : byte) : list bool :=
  map (fun k => N.testbit (b2n x) k) [7; 6; 5; 4; 3; 2; 1; 0]%N.
Definition str_bitcount_bit (start0 end0 : Z) (s : strv) : Z :=
  let start := if start0 <? 0 then 0 else start0 in
  let bl := zlen (sv s) * 8 in
  let e1 := if end0 <=? 0 then bl else end0 in
  let e2 := if e1 >? bl then bl else e1 in
  if e2 <=? start then 0
  else
    let bits := flat_map byte_bits (sv s) in
    Z.of_nat (length (filter (fun b => b) (firstn (Z.to_nat (e2 - start)) (skipn (Z.to_nat start) bits)))).

(* Append: append(s.V, data...) keeps a nil slice nil when nothing is added *)
Definition str_append (data : bytes) (s : strv) : Z * strv :=
  let v := sv s ++ data in
  (zlen v, {| sv := v; snil := match v with [] => snil s | _ => false end |}).

(* GetRange: None = run-time panic (negative slice bound); Some (bytes) otherwise.
   A nil result and an empty result are both written as the empty bulk by the handler. *)
Definition str_getrange (start0 end0 : Z) (s : strv) : option bytes :=
  let bl := zlen (sv s) in
  let start := if start0 <? 0 then bl + start0 else start0 in
  if start >=? bl then Some []
  else
    let e0 := end0 + 1 in
    let e1 := if e0 <=? 0 then e0 + bl else e0 in
    let e2 := if e1 >? bl then bl else e1 in
    if start >? e2 then Some []
    else if start <? 0 then None
    else Some (zslice (sv s) start e2).

Definition str_strlen (s : strv) : Z := zlen (sv s).

(* SetRange(offset, data) *)
Definition str_setrange (offset : Z) (data : bytes) (s : strv) : Z * strv :=
  if offset <? 0 then (0, s)
  else
    let dl := zlen data in
    let vl := zlen (sv s) in
    let v := if offset + dl >? vl then grow_to (sv s) (offset + dl) else sv s in
    (* append(nil, make([]byte,0)...) stays nil *)
    let nilv := if offset + dl >? vl then false else snil s in
    let v' := firstn (Z.to_nat offset) v ++ data ++ skipn (Z.to_nat (offset + dl)) v in
    (zlen v', {| sv := v'; snil := nilv |}).
