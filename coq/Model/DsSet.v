(* ds/set/set.go.  Members in ascending order (btree.Map[string, struct{}]). *)
From Nodis Require Import Base.Bytes Model.Num Model.FMap.
From Coq Require Import ZArith List Bool.
Local Open Scope Z_scope.

Definition setv := fmap unit.
Definition set_new : setv := [].
Definition set_members (s : setv) : list bytes := fm_keys s.
Definition set_mem (m : bytes) (s : setv) : bool := fm_mem m s.
Definition set_card (s : setv) : Z := Z.of_nat (length s).

Fixpoint set_sadd (ms : list bytes) (s : setv) : Z * setv :=
  match ms with
  | [] => (0, s)
  | m :: r => let '(s1, upd) := fm_set m tt s in
              let '(n, s2) := set_sadd r s1 in ((if upd then 0 else 1) + n, s2)
  end.
Fixpoint set_srem (ms : list bytes) (s : setv) : Z * setv :=
  match ms with
  | [] => (0, s)
  | m :: r => let '(s1, d) := fm_del m s in
              let '(n, s2) := set_srem r s1 in ((if d then 1 else 0) + n, s2)
  end.

(* SDiff: [found] is overwritten by every operand up to the first hit *)
Definition set_sdiff (s : setv) (others : list setv) : list bytes :=
  filter (fun m => negb (existsb (fun o => set_mem m o) others)) (set_members s).
(* SInter: member of all the others *)
Definition set_sinter (s : setv) (others : list setv) : list bytes :=
  filter (fun m => forallb (fun o => set_mem m o) others) (set_members s).
(* SUnion: members of s, then of each other set those not in s (duplicates among the
   others are kept) *)
Definition set_sunion (s : setv) (others : list setv) : list bytes :=
  set_members s ++ flat_map (fun o => filter (fun m => negb (set_mem m s)) (set_members o)) others.

(* SPop(count): Scan deleting the current member.  In a single btree leaf deleting the
   member under the cursor shifts the rest left, so every second member is skipped.
   Modelled for sets of at most 200 members (one leaf); larger sets are unmodelled. *)
Fixpoint spop_scan (count : Z) (take : bool) (ms : list bytes) : list bytes * list bytes :=
  (* returns (popped, kept) *)
  match ms with
  | [] => ([], [])
  | m :: r =>
      if take && (0 <? count) then
        let '(p, k) := spop_scan (count - 1) false r in (m :: p, k)
      else
        let '(p, k) := spop_scan count true r in (p, m :: k)
  end.
Definition set_spop (count0 : Z) (s : setv) : option (list bytes * setv) :=
  (* None = nil result (count <= 0) *)
  if count0 <=? 0 then None
  else
    let count := if count0 >? set_card s then set_card s else count0 in
    let '(p, k) := spop_scan count true (set_members s) in
    Some (p, map (fun m => (m, tt)) k).
Definition set_spop_modelled (s : setv) : bool := set_card s <=? 200.

(* SScan(cursor, match, count): the cursor is the number of members walked over by earlier
   calls; returns (next cursor, members), next = 0 once the walk reached the end *)
Fixpoint sscan_aux (cursor count : Z) (pat : bytes) (i : Z) (ms : list bytes) : Z * list bytes :=
  match ms with
  | [] => (0, [])
  | m :: r =>
      if i <? cursor then sscan_aux cursor count pat (i + 1) r
      else if (0 <? count) && (i >=? wrap64 (cursor + count)) then (i, [])
      else let '(nx, ks) := sscan_aux cursor count pat (i + 1) r in
           (nx, if glob_match pat m then m :: ks else ks)
  end.
Definition set_sscan (cursor : Z) (pat : bytes) (count : Z) (s : setv) : Z * list bytes :=
  if cursor >=? set_card s then (0, []) else sscan_aux cursor count pat 0 (set_members s).

(* SRandMember: validity of an answer the implementation gave (random choice) *)
Fixpoint nodup_b (l : list bytes) : bool :=
  match l with
  | [] => true
  | x :: r => negb (existsb (bytes_eqb x) r) && nodup_b r
  end.
Definition set_srand_ok (count : Z) (s : setv) (answer : list bytes) : bool :=
  forallb (fun m => set_mem m s) answer &&
  (if count =? 0 then match answer with [] => true | _ => false end
   else if count >? 0 then
     nodup_b answer && (Z.of_nat (length answer) =? Z.min count (set_card s))
   else (Z.of_nat (length answer) =? - count)).
