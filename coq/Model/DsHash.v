(* ds/hash/hash.go *)
From Nodis Require Import Base.Bytes Model.Num Model.FMap.
From Coq Require Import ZArith List Bool.
Local Open Scope Z_scope.

Definition hashv := fmap bytes.
Definition hash_new : hashv := [].

Definition hash_hset (f v : bytes) (h : hashv) : Z * hashv :=
  let '(h', rep) := fm_set f v h in ((if rep then 0 else 1), h').
Definition hash_hget (f : bytes) (h : hashv) : option bytes := fm_get f h.
Fixpoint hash_hdel (fs : list bytes) (h : hashv) : Z * hashv :=
  match fs with
  | [] => (0, h)
  | f :: r => let '(h1, d) := fm_del f h in
              let '(n, h2) := hash_hdel r h1 in ((if d then 1 else 0) + n, h2)
  end.
Definition hash_hlen (h : hashv) : Z := Z.of_nat (length h).
Definition hash_hexists (f : bytes) (h : hashv) : bool := fm_mem f h.

(* HIncrBy: None = "hash value is not an integer" *)
Definition hash_hincrby (f : bytes) (delta : Z) (h : hashv) : option (Z * hashv) :=
  match fm_get f h with
  | None => Some (delta, fst (fm_set f (format_int delta) h))
  | Some v => match parse_int v with
              | None => None
              | Some vi => let i := wrap64 (vi + delta) in Some (i, fst (fm_set f (format_int i) h))
              end
  end.

Inductive hfres := HFok (r : score) (h : hashv) | HFerr | HFunm.
Definition hash_hincrbyfloat (f : bytes) (delta : score) (h : hashv) : hfres :=
  match fm_get f h with
  | None => HFok delta (fst (fm_set f (format_score delta) h))
  | Some v => match parse_score v with
              | FErr => HFerr
              | FUnmodelled => HFunm
              | FOk vf => match score_add vf delta with
                          | None => HFunm
                          | Some r => HFok r (fst (fm_set f (format_score r) h))
                          end
              end
  end.

Definition hash_hmget (fs : list bytes) (h : hashv) : list (option bytes) :=
  map (fun f => fm_get f h) fs.
Definition hash_hsetnx (f v : bytes) (h : hashv) : bool * hashv :=
  if fm_mem f h then (false, h) else (true, fst (fm_set f v h)).

(* HScan(cursor, match, count): the Scan callback with its position counter i; returns the
   counter it reached and the selected fields *)
Fixpoint hash_hscan_aux (cursor count : Z) (pat : bytes) (i : Z) (h : hashv) : Z * list (bytes * bytes) :=
  match h with
  | [] => (i, [])
  | (k, v) :: r =>
      let hit := glob_match pat k && (i >=? cursor) in
      let '(n, rest) := if i + 1 <? wrap64 (cursor + count) then hash_hscan_aux cursor count pat (i + 1) r
                        else (i + 1, []) in
      (n, if hit then (k, v) :: rest else rest)
  end.
Definition hash_hscan (cursor : Z) (pat : bytes) (count : Z) (h : hashv) : Z * list (bytes * bytes) :=
  hash_hscan_aux cursor count pat 0 h.
(* one HSCAN call as the handler answers it: the position reached, or 0 when the walk ran off
   the end of the hash (reached < cursor + count) *)
Definition hscan_call (cursor : Z) (pat : bytes) (count : Z) (h : hashv) : Z * list (bytes * bytes) :=
  let r := hash_hscan cursor pat count h in
  ((if fst r <? wrap64 (cursor + count) then 0 else fst r), snd r).
