(* ds/list/linked_list.go at the level of the element sequence (layer L1): the list is
   the head-to-tail sequence [lx] plus the cached length field [ll]; every primitive
   keeps the index arithmetic of the Go code. *)
From Nodis Require Import Base.Bytes Model.Num.
From Coq Require Import ZArith List Bool.
Local Open Scope Z_scope.

Record listv := { lx : list bytes; ll : Z }.
Definition list_new : listv := {| lx := []; ll := 0 |}.

Definition zlength {A} (l : list A) : Z := Z.of_nat (length l).

(* LPush(data...): each datum becomes the new head *)
Definition list_lpush (data : list bytes) (l : listv) : listv :=
  {| lx := rev data ++ lx l; ll := ll l + zlength data |}.
Definition list_rpush (data : list bytes) (l : listv) : listv :=
  {| lx := lx l ++ data; ll := ll l + zlength data |}.

(* LPop(count): None = nil result (empty list, or no iteration) *)
Definition list_lpop (count : Z) (l : listv) : option (list bytes) * listv :=
  match lx l with
  | [] => (None, l)
  | _ =>
      if count <=? 0 then (None, l)
      else let k := Z.to_nat (Z.min count (zlength (lx l))) in
           let r := firstn k (lx l) in
           (Some r, {| lx := skipn k (lx l); ll := ll l - zlength r |})
  end.
Definition list_rpop (count : Z) (l : listv) : option (list bytes) * listv :=
  match lx l with
  | [] => (None, l)
  | _ =>
      if count <=? 0 then (None, l)
      else let k := Z.to_nat (Z.min count (zlength (lx l))) in
           let n := length (lx l) in
           let r := rev (skipn (n - k) (lx l)) in
           (Some r, {| lx := firstn (n - k) (lx l); ll := ll l - zlength r |})
  end.

(* forEach(start, end): visits index i iff start <= i <= end after the normalisation
   the code performs; the early return tests the raw arguments *)
Definition list_range (start0 end0 : Z) (l : listv) : list bytes :=
  if negb (start0 =? 0) && (start0 >=? end0) then []
  else
    let size := zlength (lx l) in
    let start := if start0 <? 0 then size + start0 else start0 in
    let stop := if end0 <? 0 then size + end0 else end0 in
    (* indexes i with start <= i <= stop, 0 <= i < size *)
    let lo := Z.max start 0 in
    let hi := Z.min stop (size - 1) in
    if hi <? lo then [] else firstn (Z.to_nat (hi - lo + 1)) (skipn (Z.to_nat lo) (lx l)).

Definition list_llen (l : listv) : Z := ll l.

(* LIndex: negative indexes are resolved with the cached length *)
Definition list_lindex (index0 : Z) (l : listv) : option bytes :=
  let index := if index0 <? 0 then ll l + index0 else index0 in
  if (index <? 0) || (index >=? zlength (lx l)) then None else nth_error (lx l) (Z.to_nat index).

(* LInsert: first node whose data equals pivot *)
Fixpoint insert_at_pivot (pivot data : bytes) (before : bool) (xs : list bytes) : option (list bytes) :=
  match xs with
  | [] => None
  | x :: r =>
      if bytes_eqb x pivot then Some (if before then data :: x :: r else x :: data :: r)
      else match insert_at_pivot pivot data before r with
           | Some r' => Some (x :: r')
           | None => None
           end
  end.
Definition list_linsert (pivot data : bytes) (before : bool) (l : listv) : Z * listv :=
  match insert_at_pivot pivot data before (lx l) with
  | Some xs => (ll l + 1, {| lx := xs; ll := ll l + 1 |})
  | None => (-1, l)
  end.

(* remove the first [count] occurrences (count = 0: all), head to tail *)
Fixpoint remove_first (count : Z) (all : bool) (v : bytes) (xs : list bytes) : list bytes * Z :=
  match xs with
  | [] => ([], 0)
  | x :: r =>
      if bytes_eqb x v && (all || (0 <? count)) then
        let '(r', n) := remove_first (count - 1) all v r in (r', n + 1)
      else let '(r', n) := remove_first count all v r in (x :: r', n)
  end.
Definition list_lrem (count : Z) (v : bytes) (l : listv) : Z * listv :=
  if count >? 0 then
    let '(xs, n) := remove_first count false v (lx l) in (n, {| lx := xs; ll := ll l - n |})
  else if count <? 0 then
    let '(xs, n) := remove_first (- count) false v (rev (lx l)) in (n, {| lx := rev xs; ll := ll l - n |})
  else
    let '(xs, n) := remove_first 0 true v (lx l) in (n, {| lx := xs; ll := ll l - n |}).

(* LSet: only non-negative indexes are ever found *)
Fixpoint set_nth_b (xs : list bytes) (i : nat) (v : bytes) : option (list bytes) :=
  match xs, i with
  | [], _ => None
  | _ :: r, O => Some (v :: r)
  | x :: r, S k => match set_nth_b r k v with Some r' => Some (x :: r') | None => None end
  end.
Definition list_lset (index : Z) (v : bytes) (l : listv) : bool * listv :=
  if (index <? 0) || (index >=? zlength (lx l)) then (false, l)
  else match set_nth_b (lx l) (Z.to_nat index) v with
       | Some xs => (true, {| lx := xs; ll := ll l |})
       | None => (false, l)
       end.

(* LTrim(start, end): keeps index i iff start <= i <= end; only end is normalised *)
Definition list_ltrim (start end0 : Z) (l : listv) : listv :=
  let size := zlength (lx l) in
  let stop := if end0 <? 0 then size + end0 else end0 in
  let lo := Z.max start 0 in
  let hi := Z.min stop (size - 1) in
  let kept := if hi <? lo then [] else firstn (Z.to_nat (hi - lo + 1)) (skipn (Z.to_nat lo) (lx l)) in
  {| lx := kept; ll := ll l - (size - zlength kept) |}.
