"""Generic correspondence + judge flow for the properties decided on command traces
(C01-C04, C08-C12, C16, C17, C19).  See DESIGN.md sections 2.2-2.4.

 impl  --vh trace-->  trace file  --mrun trace-->  model verdicts (DIFF / UNM per step)
                                   --mrun judge-->  specification verdicts (SPECDIFF per step)
 classification (per case, per step):
   no model DIFF up to the step, SPECDIFF with a listed signature   -> known finding, re-confirmed
   no model DIFF up to the step, SPECDIFF with an unlisted signature -> VIOLATION (unlisted deviation)
   model DIFF at the step and SPECDIFF at the step                   -> VIOLATION (failing input)
   after a model DIFF: SPECDIFF with an unlisted signature           -> VIOLATION; listed -> ignored
   model DIFF somewhere and no SPECDIFF attributable                 -> VIOLATION ... no-failing-input-found
"""
import json
import os
import re
import hashlib
from . import common as C

STACK = "ulimit -s 4000000 2>/dev/null || ulimit -s unlimited 2>/dev/null; "


def run_vh_trace(out, profile=None, cases=0, length=0, backend="mem", seed=1, script=None, timeout=3000, feed=None):
    args = [C.VH, "trace", "--out", out, "--seed", str(seed)]
    if feed:
        args += ["--feed", feed]
    if script:
        args += ["--script", script]
    else:
        args += ["--profile", profile, "--cases", str(cases), "--len", str(length), "--backend", backend]
    return C.sh(args, env=C.go_env(), timeout=timeout)


def run_mrun(mode, tracefile, timeout=3000):
    return C.sh(STACK + "exec %s %s %s" % (C.MRUN, mode, tracefile), timeout=timeout)


def parse_cases(tracefile):
    """-> dict case_id -> {'backend':..., 'steps': [step lines without results]}"""
    cases = {}
    order = []
    cur = None
    with open(tracefile) as f:
        for line in f:
            if line.startswith("CASE "):
                t = line.split()
                cur = {"backend": t[2], "steps": [], "results": []}
                cases[t[1]] = cur
                order.append(t[1])
            elif cur is not None and (line.startswith("OP ") or line.startswith("X ")):
                lhs, _, rhs = line.rstrip("\n").partition(" => ")
                t = lhs.split()
                # drop the two clock readings at the end of the left-hand side
                cur["steps"].append(" ".join(t[:-2]))
                cur["results"].append(rhs)
    return cases, order


def step_text(step):
    """human-readable rendering of a step line"""
    t = step.split()
    if t[0] == "X":
        return " ".join(t)

    def dec(x):
        if x == "-":
            return '""'
        if x[0] in "P#":
            return x
        try:
            b = bytes.fromhex(x)
            s = b.decode("latin1")
            return repr(s)[1:-1] if all(32 < c < 127 for c in b) else repr(s)
        except ValueError:
            return x
    n = int(t[3])
    name = t[2]
    if name.startswith(":"):
        name = repr(bytes.fromhex(name[1:]).decode("latin1"))
    return "%s %s" % (name, " ".join(dec(x) for x in t[4:4 + n]))


def parse_model_out(out):
    diffs = {}   # case -> (step, kind, detail)
    unm = {}
    lines = out.splitlines()
    i = 0
    while i < len(lines):
        l = lines[i]
        m = re.match(r'DIFF (\S+) step=(\d+) kind=(\S+)', l)
        if m:
            detail = "\n".join(lines[i + 1:i + 4])
            diffs.setdefault(m.group(1), (int(m.group(2)), m.group(3), detail))
            i += 4
            continue
        m = re.match(r'UNM (\S+) step=(\d+) (.*)', l)
        if m:
            unm[m.group(1)] = (int(m.group(2)), m.group(3))
        i += 1
    sm = re.search(r'SUMMARY cases=(\d+) steps=(\d+) unm=(\d+) diffs=(\d+)', out)
    summary = tuple(int(x) for x in sm.groups()) if sm else None
    return diffs, unm, summary


def parse_judge_out(out):
    sd = []  # (case, step, signature, text)
    for l in out.splitlines():
        m = re.match(r'SPECDIFF (\S+) step=(\d+) (\S+) (.*)', l)
        if m:
            sd.append((m.group(1), int(m.group(2)), m.group(3), m.group(4)))
    sm = re.search(r'JSUMMARY steps=(\d+) judged=(\d+) unjudged=(\d+) specdiffs=(\d+)', out)
    summary = tuple(int(x) for x in sm.groups()) if sm else None
    return sd, summary


def write_script(path, cases):
    """cases: list of (id, backend, [step lines])"""
    with open(path, "w") as f:
        for cid, be, steps in cases:
            f.write("CASE %s %s\n" % (cid, be))
            for s in steps:
                f.write(s + "\n")


class TraceRun:
    """one batch: generated or scripted cases run on the implementation, the model and the judge"""

    def __init__(self, d, tag):
        self.d, self.tag = d, tag
        self.tracefile = os.path.join(d, tag + ".trace")
        self.ok = True
        self.err = ""

    def run(self, **kw):
        rc, log = run_vh_trace(self.tracefile, **kw)
        if rc != 0 or not os.path.exists(self.tracefile):
            self.ok, self.err = False, "harness: " + log[-2000:]
            return self
        rc, mout = run_mrun("trace", self.tracefile)
        self.mdiffs, self.munm, self.msum = parse_model_out(mout)
        if rc != 0 or self.msum is None:
            self.ok, self.err = False, "model run: " + mout[-2000:]
            return self
        rc, jout = run_mrun("judge", self.tracefile)
        self.sdiffs, self.jsum = parse_judge_out(jout)
        if rc != 0 or self.jsum is None:
            self.ok, self.err = False, "judge run: " + jout[-2000:]
            return self
        self.cases, self.order = parse_cases(self.tracefile)
        return self


GEO = ("GEOADD", "GEODIST", "GEOHASH", "GEOPOS", "GEORADIUS", "GEORADIUSBYMEMBER")


def stall_signature(step):
    """root-cause shape of a command that never replied (the sequential models have no lock state, so a
    hang is classified from the command itself):
      STALL/same-key-twice   some argument occurs twice (the command waits for a lock it holds itself)
      STALL/geo-wrong-type   a GEO* command (they hang on a key of another type)
      STALL/other            anything else - never a listed finding"""
    t = step.split()
    if t[0] != "OP":
        return "STALL/other"
    name = t[2].upper()
    n = int(t[3])
    args = t[4:4 + n] if n else []
    if name in GEO:
        return "STALL/geo-wrong-type"
    if len(set(args)) < len(args):
        return "STALL/same-key-twice"
    return "STALL/other"


def stalls(run):
    """-> list of dict(case, step, signature, text) for steps whose reply is TIMEOUT (the instance is dead afterwards)"""
    out = []
    for cid in run.order:
        c = run.cases[cid]
        for i, res in enumerate(c["results"]):
            if res.split()[:1] == ["TIMEOUT"]:
                out.append({"case": cid, "step": i + 1, "signature": stall_signature(c["steps"][i]),
                            "text": "%s never replied (5 s); every command before it did" % step_text(c["steps"][i])[:120]})
                break
    return out


def classify(run, known_keys, relevant=None):
    """-> (violations, confirmed_known, nofail_diffs)
    violations: list of dict(case, step, signature, text, reason)
    relevant: optional predicate on signature (command families of the property)"""
    viol, confirmed = [], {}
    attributable = set()
    for (case, step, sig, text) in run.sdiffs:
        md = run.mdiffs.get(case)
        if relevant and not relevant(sig) and not (md and md[0] == step):
            continue
        if md is None or step < md[0]:
            if sig in known_keys:
                confirmed.setdefault(sig, (case, step, text))
            else:
                viol.append({"case": case, "step": step, "signature": sig, "text": text,
                             "reason": "implementation agrees with the model but deviates from the specification in a way that is not a listed finding"})
        elif step == md[0]:
            attributable.add(case)
            viol.append({"case": case, "step": step, "signature": sig, "text": text,
                         "reason": "implementation diverges from the model and from the specification at this step"})
        else:
            if sig not in known_keys:
                attributable.add(case)
                viol.append({"case": case, "step": step, "signature": sig, "text": text,
                             "reason": "after the implementation left the model: unlisted deviation from the specification"})
    stalled = {}
    for v in stalls(run):
        stalled[v["case"]] = v
        if v["signature"] in known_keys:
            confirmed.setdefault(v["signature"], (v["case"], v["step"], v["text"]))
        else:
            viol.append(dict(v, reason="a command never replied"))
        attributable.add(v["case"])
    nofail = []
    for case, (step, kind, detail) in run.mdiffs.items():
        if case not in attributable:
            nofail.append({"case": case, "step": step, "kind": kind, "detail": detail})
    return viol, confirmed, nofail


def replay_of(pid, run, v, extra=None):
    c = run.cases[v["case"]]
    steps = c["steps"][:v["step"]]
    r = {"property": pid, "backend": c["backend"], "script": steps,
         "readable": [step_text(s) for s in steps],
         "failing_step": v.get("step"), "signature": v.get("signature"),
         "what": v.get("text", v.get("detail", "")), "reason": v.get("reason", ""),
         "replay_cmd": "bin/check %s --replay <this file>" % pid}
    if extra:
        r.update(extra)
    return r


def shrink(pid, run, v, d, known_keys, budget=24):
    """delta-debug the prefix of the failing case: drop steps while the same signature still fails"""
    c = run.cases[v["case"]]
    steps = c["steps"][:v["step"]]
    last = steps[-1]
    body = steps[:-1]

    def fails(cand):
        script = os.path.join(d, "shrink.script")
        write_script(script, [("shrink", c["backend"], cand + [last])])
        r = TraceRun(d, "shrink").run(script=script)
        if not r.ok:
            return False
        for (case, step, sig, text) in r.sdiffs:
            if step == len(cand) + 1 and sig == v["signature"]:
                return True
        md = r.mdiffs.get("shrink")
        return bool(md and md[0] == len(cand) + 1 and v.get("model_only"))
    n = 2
    tries = 0
    while len(body) >= 1 and tries < budget:
        chunk = max(1, len(body) // n)
        reduced = False
        for i in range(0, len(body), chunk):
            cand = body[:i] + body[i + chunk:]
            tries += 1
            if fails(cand):
                body = cand
                n = max(n - 1, 2)
                reduced = True
                break
            if tries >= budget:
                break
        if not reduced:
            if chunk == 1:
                break
            n = min(n * 2, len(body))
    return body + [last]
