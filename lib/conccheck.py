"""C05 / C06 / C07: schedules forced on the implementation through the verifPoint controller.

A scenario is a keyspace of lists (only their lengths matter), one command per thread
(PUSH k = RPUSH, POP k = LPOP, LEN k = LLEN, DEL k, MOVE a b = LPOPRPUSH) and a schedule of grants;
a grant lets a thread run from one schedule point (index lookup hit/miss, key lock acquired, before
unlink) to the next.  The same scenario is run on the extracted Coq thread model (coq/Model/Conc.v)
and on the implementation; the outcomes (final lengths, replies, threads blocked in a lock) must be
equal - that is the correspondence.  The property is judged on the implementation's outcome:
  CONC/deadlock:<class>          threads are blocked in a lock although every other thread has finished
  CONC/not-linearizable:<class>  no sequential order of the commands (run on the model, one thread after the
                                 other) gives these replies and final lengths
"""
import itertools
import json
import os
import random
import subprocess
from concurrent.futures import ThreadPoolExecutor
from . import common as C
from . import tracecheck as T
from . import persist as PS

SINGLE = ("PUSH", "POP", "LEN", "DEL", "PUSHX")

WITNESSES = [
    # id, vals, cmds, schedule
    ("w-create-create", "-", "PUSH:1,PUSH:1", "0,1,0,1,0,1,0,1"),
    ("w-create-create-3", "-", "PUSH:1,PUSH:1,PUSH:1", "0,1,2,0,1,2,0,1,2,0,1,2,0,1,2"),
    ("w-delete-recreate", "1=1", "DEL:1,PUSH:1", "0,0,1,0,0,1,1,1,1"),
    ("w-pop-empties-push", "1=1", "POP:1,PUSH:1", "0,0,1,0,0,1,1,1,1"),
    ("w-move-opposite", "1=2,2=2", "MOVE:1:2,MOVE:2:1", "0,1,0,1,0,1,0,1,0,1"),
    ("w-move-self", "1=2", "MOVE:1:1", "0,0,0,0,0,0"),
    ("w-move-create-create", "1=2,2=2", "MOVE:1:3,MOVE:2:3", "0,0,1,1,0,1,0,1,0,1,0,1,0,1,0,1"),
    ("w-self-move-last", "2=1", "MOVE:2:2,DEL:2", "0,0,0,0,1,0,0,0,1,1,0,0,0,1,0,0,0,1,0,1,0,1"),
    # two observers around a move: LLEN of the source after the pop, LLEN of the destination before the push, in real-time order
    ("w-move-observed", "1=2,2=1", "MOVE:1:2,LEN:1,LEN:2", "0,0,0,1,1,1,2,2,2,0,0,0,0,1,1,2,0,1,2"),
    ("w-move-pop-orphan", "2=1", "MOVE:2:2,POP:2", "1,0,0,0,1,0,0,1,1"),
    ("w-stable-push-push", "1=1", "PUSH:1,PUSH:1", "0,1,0,1,0,1,0,1"),
    # the same on keys whose value has been evicted to Pebble: the first locker reloads it
    ("c-cold-push-len", "1=2", "LEN:1,PUSH:1", "0,1,0,1,0,1,0,1,0,1"),
    ("c-cold-len-push", "1=2", "LEN:1,PUSH:1", "0,0,1,1,0,1,0,1,0,1"),
    ("c-cold-len-len-push", "1=2", "LEN:1,LEN:1,PUSH:1", "0,1,0,1,2,2,0,1,2,0,1,2,0,1,2"),
    ("c-cold-push-push", "1=2", "PUSH:1,PUSH:1", "0,1,0,1,0,1,0,1"),
    ("c-cold-pop-push", "1=1", "POP:1,PUSH:1", "0,0,1,0,0,1,1,1,1"),
    # keys whose deadline has passed but which are still in the index (value 0 = exists, counts as empty): re-created in place
    ("e-expired-push-push", "1=0", "PUSH:1,PUSH:1", "0,1,0,1,0,1,0,1"),
    ("e-expired-push-push-push", "1=0", "PUSH:1,PUSH:1,PUSH:1", "0,1,2,0,1,2,0,1,2,0,1,2,0,1,2"),
    ("e-expired-push-len", "1=0", "PUSH:1,LEN:1", "0,1,0,1,0,1,0,1"),
    ("e-expired-len-push-push", "1=0", "LEN:1,PUSH:1,PUSH:1", "0,1,2,0,1,2,0,1,2,0,1,2,0,1,2"),
    ("w-stable-push-len", "1=1", "PUSH:1,LEN:1", "0,1,0,1,0,1,0,1"),
    ("w-stable-pop-pop", "1=3", "POP:1,POP:1", "0,1,0,1,0,1,0,1"),
    ("w-stable-pushx-pushx", "1=1", "PUSHX:1,PUSHX:1", "0,1,0,1,0,1,0,1"),
    ("w-stable-pushx-push-len", "1=2", "PUSHX:1,PUSH:1,PUSHX:1", "0,1,2,0,0,0,1,1,1,2,2,2"),
    ("w-pushx-missing", "-", "PUSHX:1,PUSH:1", "0,1,0,1,0,1"),
]


def klass(cmds, vals, waiting=None):
    """root-cause class of a scenario.
    stable-keys: only PUSH / LEN on keys that exist (the setting of theorem C05_concurrent_pushes_all_counted);
    unstable-keys: some command may create or unlink a key while others use it;
    self-move: one of the commands is LPOPRPUSH k k (the key vanishes between its pop and its push).
    For a deadlock: self-move (a waiting LPOPRPUSH k k), lock-order (two waiting multi-key commands), other."""
    present = set(kv.split("=")[0] for kv in vals.split(",")) if vals != "-" else set()
    cl = cmds.split(",")
    if waiting is not None:
        ws = [cl[int(t)].split(":") for t in waiting.split(",")]
        if any(w[0] == "MOVE" and w[1] == w[2] for w in ws):
            return "self-move"
        if len([w for w in ws if w[0] == "MOVE"]) >= 2:
            return "lock-order"
        return "other"
    stable = all(c.split(":")[0] in ("PUSH", "PUSHX", "LEN") and c.split(":")[1] in present for c in cl)
    if any(c.split(":")[0] == "MOVE" and c.split(":")[1] == c.split(":")[2] for c in cl):
        return "self-move"
    return "stable-keys" if stable else "unstable-keys"


def gen_random(rnd, n, single_only=False, with_move=False):
    out = []
    for i in range(n):
        keys = ["1", "2", "3"]
        vals = []
        for k in keys:
            v = rnd.choice([0, 0, 1, 2, 3])
            if v:
                vals.append("%s=%d" % (k, v))
        nth = rnd.choice([2, 2, 3, 3, 4])
        cmds = []
        for t in range(nth):
            kind = rnd.choice(SINGLE if single_only else SINGLE + ("MOVE", "MOVE"))
            if with_move and t == 0:
                kind = "MOVE"
            if kind == "MOVE":
                cmds.append("MOVE:%s:%s" % (rnd.choice(keys[:2]), rnd.choice(keys)))
            else:
                cmds.append("%s:%s" % (kind, rnd.choice(keys[:2])))
        sched = [rnd.randrange(nth) for _ in range(rnd.randrange(4, 9) * nth)]
        # drain: every thread that can finish does
        sched += [t for _ in range(8) for t in range(nth)]
        out.append((("c-r%d" if i % 5 == 4 else "r%d") % i, ",".join(vals) or "-", ",".join(cmds), ",".join(map(str, sched))))
    return out


def parse_out(text):
    res = {}
    for l in text.splitlines():
        if l.startswith("OUT "):
            t = l.split()
            d = dict(x.split("=", 1) for x in t[2:] if "=" in x)
            d["ambiguous"] = "AMBIGUOUS" in t
            d["line"] = " ".join(x for x in t[2:] if x != "AMBIGUOUS" and not x.startswith("rt="))
            res[t[1]] = d
    return res


def write_scn(path, scns):
    with open(path, "w") as f:
        for (i, v, c, s) in scns:
            f.write("SCN %s %s %s %s\n" % (i, v, c, s))


def run_model(path):
    rc, out = C.sh([C.MRUN, "conc", path], timeout=600)
    return parse_out(out)


def run_impl(d, scns, tag, shards=8):
    files = []
    for j in range(shards):
        part = scns[j::shards]
        if part:
            p = os.path.join(d, "%s.%d.scn" % (tag, j))
            write_scn(p, part)
            files.append(p)

    def one(p):
        r = subprocess.run([C.VH, "conc", "--in", p], capture_output=True, text=True, timeout=900, env=C.go_env())
        return r.stdout
    res = {}
    with ThreadPoolExecutor(max_workers=shards) as ex:
        for o in ex.map(one, files):
            res.update(parse_out(o))
    return res


def sequential_outcomes(d, scn, rt=None):
    """outcomes of the model when the threads run one after the other, for every order that respects the real-time
    order of the history (rt: 't:first:done,...' from the implementation run - a command that had replied before
    another one was invoked comes first)"""
    (i, v, c, s) = scn
    n = len(c.split(","))
    first, done = {}, {}
    if rt and rt != "-":
        for x in rt.split(","):
            a, f, dn = x.split(":")
            first[int(a)], done[int(a)] = int(f), int(dn)

    def respects(perm):
        pos = {t: k for k, t in enumerate(perm)}
        for a in range(n):
            for b in range(n):
                if a != b and done.get(a, -1) >= 0 and first.get(b, -1) >= 0 and done[a] < first[b] and pos[a] > pos[b]:
                    return False
        return True
    scns = []
    for j, perm in enumerate(p for p in itertools.permutations(range(n)) if respects(p)):
        sched = ",".join(str(t) for t in perm for _ in range(8))
        scns.append(("%s.p%d" % (i, j), v, c, sched))
    p = os.path.join(d, "seq.scn")
    write_scn(p, scns)
    return set((o["vals"], o["replies"]) for o in run_model(p).values())


def stall_cases():
    """sequential histories after which every later command must still complete (C06: a command that
    fails, skips a key or panics releases everything it held)"""
    from .corpora import op
    mk = [op(0, "SET", "s1", "v"), op(0, "HSET", "h1", "f", "v"), op(0, "SADD", "t1", "a"), op(0, "ZADD", "z1", "1", "a"), op(0, "RPUSH", "l1", "a")]
    touch = [op(0, "APPEND", "s1", "x"), op(0, "HSET", "h1", "g", "w"), op(0, "SADD", "t1", "b"), op(0, "ZADD", "z1", "2", "b"), op(0, "RPUSH", "l1", "b"),
             op(0, "DEL", "s1", "h1", "t1", "z1", "l1"), op(0, "DBSIZE")]
    cases = []
    probes = [["SCAN", "0", "COUNT", "10", "TYPE", "string"], ["SCAN", "0", "COUNT", "10", "TYPE", "hash"], ["SCAN", "0", "MATCH", "s*", "COUNT", "2"],
              ["KEYS", "*"], ["LPUSH", "s1", "x"], ["HGET", "s1", "f"], ["INCR", "h1"], ["SINTER", "t1", "s1"], ["ZUNIONSTORE", "d", "2", "z1", "s1"],
              ["RENAME", "nosuch", "s1"], ["LSET", "l1", "9", "x"], ["SMOVE", "t1", "s1", "a"], ["EXISTS", "s1", "s1"], ["MGET", "s1", "h1"], ["TYPE", "s1"],
              # a destination that is also an operand (the property names ZUNIONSTORE d 2 d x), and the radius that made a GEO query spin
              ["ZUNIONSTORE", "z1", "1", "z1"], ["ZUNIONSTORE", "z1", "2", "z1", "nosuch"], ["ZINTERSTORE", "z1", "1", "z1"], ["ZINTERSTORE", "z1", "2", "z1", "z1"],
              ["SUNIONSTORE", "t1", "2", "t1", "nosuch"], ["SINTERSTORE", "t1", "1", "t1"], ["SDIFFSTORE", "t1", "2", "t1", "nosuch"], ["SMOVE", "t1", "t1", "a"],
              ["RENAME", "s1", "s1"], ["RENAMENX", "s1", "s1"], ["RPOPLPUSH", "l1", "l1"], ["LPOPRPUSH", "l1", "l1"],
              ["GEORADIUS", "z1", "10", "10", "-1", "km"], ["GEORADIUSBYMEMBER", "z1", "a", "-5", "m"], ["GEORADIUS", "l1", "-1", "1", "-1", "m"]]
    for i, pr in enumerate(probes):
        cases.append(("stall-%d-%s" % (i, pr[0]), "mem", mk + [op(0, *pr)] + touch))
    return cases


def run_stalls(pid, out, d, known, confirmed, pf, stats):
    """C06 only: run the stall histories through the trace harness (5 s per command, then the instance counts as dead)"""
    script = os.path.join(d, "stall.script")
    T.write_script(script, stall_cases())
    r = T.TraceRun(d, "stall").run(script=script)
    if not r.ok:
        out.violation({"property": pid, "broken": "run stall", "detail": r.err}, nofail=True)
        return
    stats["stall_steps"] = r.msum[1]
    for cid in r.order:
        c = r.cases[cid]
        for i, res in enumerate(c["results"]):
            if res.split()[:1] in (["TIMEOUT"], ["DEAD"]):
                sig = "CONC/stall:" + c["steps"][i].split()[2]
                v = {"case": cid, "step": i + 1, "signature": sig, "text": "the command never replied (5 s); every command before it did"}
                if sig in known:
                    confirmed.setdefault(sig, v["text"])
                else:
                    v["reason"] = "a command stalls for ever on a sequential history"
                    out.violation(T.replay_of(pid, r, v))
                break
    for case, (step, kind, detail) in list(r.mdiffs.items())[:1]:
        if not any(res.split()[:1] in (["TIMEOUT"], ["DEAD"]) for res in r.cases[case]["results"]):
            out.violation(T.replay_of(pid, r, {"case": case, "step": step, "detail": detail}, {"broken": "correspondence model/implementation on the stall histories"}), nofail=True)


def run_gcstress(pid, out, stats, seeds):
    """C06, exploration (not a proof): commands that create, empty and delete keys from 8 goroutines while the
    background gc runs every millisecond and explicit gc/flush passes are made; every command must complete"""
    stats["gcstress_runs"] = 0
    stats["gcstress_commands"] = 0
    for sd in seeds:
        rc, o = C.sh([C.VH, "gcstress", "--seed", str(sd)], env=C.go_env(), timeout=120)
        stats["gcstress_runs"] += 1
        line = next((l for l in o.splitlines() if l.startswith("GCSTRESS")), "GCSTRESS crashed " + o[-300:].replace("\n", " | "))
        f = dict(x.split("=") for x in line.split()[2:] if "=" in x)
        stats["gcstress_commands"] += int(f.get("done", 0))
        if line.split()[1] != "ok":
            out.violation({"property": pid, "gcstress": sd, "signature": "CONC/gc-deadlock",
                           "what": "commands stopped completing while background gc / flush passes ran: " + line,
                           "readable": ["vh gcstress --seed %d: 8 goroutines x 4000 commands (RPUSH, LPOP, DEL, INCR, RPOPLPUSH lk0 lk9, LLEN, KEYS, SCAN, EXISTS lk lk, PEXPIRE 1 ms, explicit gc and flush) on 3 list keys and 3 string keys, GCDuration 1 ms" % sd],
                           "replay_cmd": "bin/check %s --replay <this file>" % pid})
            return


def run_lockorder(pid, out, known, confirmed, stats):
    """C06: the reader form of the lock-order deadlock, staged through the schedule points (vh lockorder):
    EXISTS a b a (a missing at first) and EXISTS a b meet a and b in opposite orders, a writer waits behind each"""
    rc, o = C.sh([C.VH, "lockorder"], env=C.go_env(), timeout=60)
    line = next((l for l in o.splitlines() if l.startswith("LOCKORDER")), "")
    stats["lockorder"] = line
    if not line:
        out.violation({"property": pid, "broken": "run vh lockorder", "detail": o[-300:]}, nofail=True)
        return
    f = dict(x.split("=") for x in line.split()[1:])
    if f.get("staged") != "True" and f.get("staged") != "true":
        return  # the stage could not be set (the readers no longer stop where they did): nothing was observed
    # the variant the lock model (RWPref.v, C06_readers_alone_finish) says must finish: the same two readers, no writers
    rc2, o2 = C.sh([C.VH, "lockorder", "readers"], env=C.go_env(), timeout=60)
    line2 = next((l for l in o2.splitlines() if l.startswith("LOCKORDER")), "")
    stats["lockorder_readers"] = line2
    f2 = dict(x.split("=") for x in line2.split()[1:]) if line2 else {}
    if f2.get("staged") in ("True", "true") and f2.get("done") != "2/2":
        out.violation({"property": pid, "lockorder": True, "signature": "CONC/lockorder-model",
                       "what": "EXISTS a b a || EXISTS a b without writers must finish (lock model: C06_readers_alone_finish): " + line2,
                       "readable": ["vh lockorder readers"], "replay_cmd": "bin/check %s --replay <this file>" % pid})
    rc3, o3 = C.sh([C.VH, "lockorder", "pref"], env=C.go_env(), timeout=60)
    line3 = next((l for l in o3.splitlines() if l.startswith("LOCKORDER")), "")
    stats["lockorder_pref"] = line3
    f3 = dict(x.split("=") for x in line3.split()[1:]) if line3 else {}
    # r2_blocked=false only means the writer had not reached Lock() yet (machine load): recorded in the evidence, not judged
    if f3.get("staged") in ("True", "true") and f3.get("done") != "3/3":
        out.violation({"property": pid, "lockorder": True, "signature": "CONC/lockorder-model",
                       "what": "reader || queued writer || second reader: all must finish after the first reader commits (lock model: C06_writer_preference): " + line3,
                       "readable": ["vh lockorder pref"], "replay_cmd": "bin/check %s --replay <this file>" % pid})
    if f["done"] != "4/4":
        sig = "CONC/deadlock:lock-order-readers"
        text = "EXISTS a b a || RPUSH a x || EXISTS a b || RPUSH b y || RPUSH a z: " + line
        if sig in known:
            confirmed.setdefault(sig, text)
        else:
            out.violation({"property": pid, "lockorder": True, "signature": sig, "what": text,
                           "readable": ["vh lockorder (see harness/cmd/vh/lockorder.go for the staging)"],
                           "replay_cmd": "bin/check %s --replay <this file>" % pid})


def run(pid, tier, seed, replay=None):
    out = C.Outcome(pid, tier, seed)
    prep, pf, bad = PS._common_start(pid)
    cov = PS._fill_cov(out, pid, pf, bad)
    out.assumptions = [
        "values are list lengths; the thread programs are RPUSH, LPOP, LLEN, DEL and LPOPRPUSH through the embedded API",
        "schedules are sequences of grants between the verifPoint calls of tx.go (lookup hit/miss, lock acquired, before unlink); a thread that reaches no point within the settle time is counted as blocked in a lock",
        "schedules in which two threads wait for the same record are not replayed (which waiter the Go runtime wakes first is not part of the model)",
        "the Go memory model (the two unsynchronised field writes under the read lock) is outside the model",
    ]
    if not pf["ok"] or bad:
        out.violation({"property": pid, "broken": "proof", "detail": pf["log"][-1500:], "forbidden": bad}, nofail=True)
    if not prep.ok and prep.failed_stage in ("go-build-harness", "ocaml-build", "coq_makefile"):
        out.violation({"property": pid, "broken": prep.failed_stage, "detail": prep.log[-3000:]}, nofail=True)
        return out.finish()
    known = {f["key"]: f for f in C.findings_for(pid) if "key" in f}
    d = C.scratch_dir(pid.lower())
    stats = {"scenarios": 0, "ambiguous_skipped": 0, "replayed": 0, "model_diffs": 0, "grants": 0, "deadlocks": 0, "nonlinearizable": 0, "linearizable": 0}
    confirmed, dist, samples = {}, {}, []
    try:
        if replay and "gcstress" in json.load(open(replay)):
            run_gcstress(pid, out, stats, [json.load(open(replay))["gcstress"]])
            return out.finish()
        if replay and "lockorder" in json.load(open(replay)):
            run_lockorder(pid, out, {}, {}, stats)
            return out.finish()
        if replay and "scenario" not in json.load(open(replay)):
            # a sequential stall history (trace-style replay)
            rp = json.load(open(replay))
            script = os.path.join(d, "replay.script")
            T.write_script(script, [("replay", rp.get("backend", "mem"), rp["script"])])
            r = T.TraceRun(d, "replay").run(script=script)
            bad_step = None
            if r.ok:
                for i, res in enumerate(r.cases["replay"]["results"]):
                    if res.split()[:1] in (["TIMEOUT"], ["DEAD"]):
                        bad_step = i + 1
                        break
            if not r.ok or bad_step:
                out.violation(dict(rp, replayed="the command at step %s never replied" % bad_step if bad_step else r.err))
            return out.finish()
        if replay:
            rp = json.load(open(replay))
            scns = [tuple(rp["scenario"])]
        else:
            rnd = random.Random(seed * 7919 + {"C05": 5, "C06": 6, "C07": 7}.get(pid, 0))
            k = 12 if tier == "thorough" else 1
            scns = list(WITNESSES)
            if pid == "C05":
                scns = [w for w in WITNESSES if "MOVE" not in w[2]] + gen_random(rnd, 120 * k, single_only=True)
            elif pid == "C07":
                scns = [w for w in WITNESSES if "MOVE" in w[2]] + gen_random(rnd, 120 * k, with_move=True)
            else:
                scns = list(WITNESSES) + gen_random(rnd, 120 * k)
        allp = os.path.join(d, "all.scn")
        write_scn(allp, scns)
        model = run_model(allp)
        stats["scenarios"] = len(scns)
        todo = [s for s in scns if s[0] in model and not model[s[0]]["ambiguous"]]
        stats["ambiguous_skipped"] = len(scns) - len(todo)
        impl = run_impl(d, todo, "impl")
        reported = set()
        for scn in todo:
            (i, v, c, s) = scn
            if i not in impl:
                out.violation({"property": pid, "broken": "harness produced no outcome", "scenario": list(scn)}, nofail=True)
                continue
            stats["replayed"] += 1
            stats["grants"] += len(s.split(","))
            for cc in c.split(","):
                dist[cc.split(":")[0]] = dist.get(cc.split(":")[0], 0) + 1
            io, mo = impl[i], model[i]
            cls = klass(c, v)
            verdict = None
            if io["waiting"] != "-" and io["notdone"] == "-":
                verdict = ("CONC/deadlock:" + klass(c, v, io["waiting"]), "threads %s are blocked in a lock, every other thread has finished" % io["waiting"])
                stats["deadlocks"] += 1
            elif io["waiting"] == "-" and io["notdone"] == "-":
                seqs = sequential_outcomes(d, scn, io.get("rt"))
                if (io["vals"], io["replies"]) not in seqs:
                    verdict = ("CONC/not-linearizable:" + cls,
                               "final lengths %s with replies %s; sequential orders give %s" % (io["vals"], io["replies"], sorted(seqs)[:4]))
                    stats["nonlinearizable"] += 1
                else:
                    stats["linearizable"] += 1
            # C06 is about stalls, C07 about the atomicity of the multi-key commands
            if verdict and ((pid == "C06" and not verdict[0].startswith("CONC/deadlock")) or
                            (pid == "C07" and verdict[0].startswith("CONC/deadlock"))):
                verdict = None
            diverged = io["line"] != mo["line"]
            if diverged:
                stats["model_diffs"] += 1
            replay_obj = {"property": pid, "scenario": list(scn), "readable": ["keys %s" % v, "threads %s" % c, "grants %s" % s],
                          "implementation": io["line"], "model": mo["line"], "replay_cmd": "bin/check %s --replay <this file>" % pid}
            if verdict:
                sig, text = verdict
                if sig in known and not diverged:
                    confirmed.setdefault(sig, text)
                elif sig not in reported:
                    reported.add(sig)
                    replay_obj.update({"signature": sig, "what": text,
                                       "reason": "implementation left the model and violates the property" if diverged
                                       else "the property is violated on this schedule (the implementation agrees with the model)"})
                    out.violation(replay_obj)
            elif diverged and "corr" not in reported:
                reported.add("corr")
                replay_obj.update({"broken": "correspondence thread model/implementation (coq/Model/Conc.v vs tx.go, metadata.go, list.go)",
                                   "theorems_no_longer_about_the_code": pf["theorems"]})
                out.violation(replay_obj, nofail=True)
            if len(samples) < 3:
                samples.append(["keys " + v, "threads " + c, "grants " + s[:60], "outcome " + io["line"]])
        if pid == "C05" and not replay:
            # exploration of the windows between two schedule points (real goroutines released together)
            rc, o = C.sh([C.VH, "concstress", "--rounds", "12000" if tier == "thorough" else "3000"], env=C.go_env(), timeout=600)
            line = next((l for l in o.splitlines() if l.startswith("CSTRESS")), "CSTRESS crashed " + o[-300:].replace("\n", " | "))
            stats["concstress"] = line
            if line.split()[1] != "ok":
                out.violation({"property": pid, "signature": "CONC/stress", "what": line.split("what=", 1)[-1].replace("_", " "),
                               "readable": ["vh concstress: 8 goroutines RPUSH a new key at the same moment (LLEN must be 8, replies 1..8), then 4 producers and 4 consumers on one list that is emptied, unlinked and re-created all the time (every element popped exactly once or still there)"],
                               "replay_cmd": ".cache/bin/vh concstress"})
        if pid == "C06" and not replay:
            run_stalls(pid, out, d, known, confirmed, pf, stats)
            run_gcstress(pid, out, stats, range(seed * 100, seed * 100 + (24 if tier == "thorough" else 4)))
            run_lockorder(pid, out, known, confirmed, stats)
        for sig in sorted(confirmed):
            out.known_confirmed.append(known[sig])
        cov["evaluations"] = stats["grants"]
        cov["distinct_nontrivial"] = stats["replayed"]
        cov["rule"] = ("evaluations = grants forced on the implementation; distinct = scenarios (keyspace, 2-4 threads, schedule) whose outcome on the implementation "
                       "was compared with the extracted thread model and judged (deadlock / linearizable against all sequential orders of the model)")
        cov["samples"] = samples
        cov["traces_validated_against_impl"] = stats["replayed"]
        cov["input_distribution"] = dist
        cov["stats"] = stats
        cov["exhaustive"] = False
    finally:
        C.sh(["rm", "-rf", d])
    return out.finish()
