"""C09: WATCH is sound optimistic locking."""
from .. import multiwatch


def run(tier, seed, replay=None):
    return multiwatch.run("C09", tier, seed, replay)
