"""C03: hashes and sets behave as exact maps and mathematical sets."""
from .. import dataplane

CMDS = {"HSET", "HMSET", "HSETNX", "HGET", "HMGET", "HGETALL", "HKEYS", "HVALS", "HDEL", "HLEN", "HEXISTS", "HSTRLEN",
        "HINCRBY", "HINCRBYFLOAT", "HCLEAR", "SADD", "SREM", "SISMEMBER", "SCARD", "SMEMBERS", "SMOVE", "SPOP",
        "SRANDMEMBER", "SINTER", "SUNION", "SDIFF", "SINTERSTORE", "SUNIONSTORE", "SDIFFSTORE"}


def run(tier, seed, replay=None):
    return dataplane.run(
        "C03", tier, seed, replay,
        batches_quick=[("hash", "mem", 35, 40), ("set", "mem", 35, 40), ("hash", "peb", 8, 30), ("set", "peb", 8, 30)],
        batches_thorough=[("hash", "mem", 1000, 60), ("set", "mem", 1000, 60), ("hash", "peb", 200, 40),
                          ("set", "peb", 200, 40), ("mixed", "mem", 500, 60)],
        relevant_cmds=CMDS,
        assumptions=["SPOP is deterministic in this implementation (btree scan with deletion) and is modelled exactly for sets of at most 200 members",
                     "SRANDMEMBER is not modelled (random choice); its replies are not part of the traces"])
