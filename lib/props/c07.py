"""C07: multi-key commands are atomic."""
from .. import conccheck


def run(tier, seed, replay=None):
    return conccheck.run("C07", tier, seed, replay)
