"""C06: every command completes."""
from .. import conccheck


def run(tier, seed, replay=None):
    return conccheck.run("C06", tier, seed, replay)
