"""C20: the change feed is complete and ordered: replaying it reproduces the primary."""
from .. import feedcheck


def run(tier, seed, replay=None):
    return feedcheck.run(tier, seed, replay)
