"""C11: Close then Open restores exactly the pre-close keyspace on either backend."""
from .. import persist


def run(tier, seed, replay=None):
    return persist.run_c11(tier, seed, replay)
