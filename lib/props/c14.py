"""C14: storage codecs are lossless and injective (DESIGN.md section 6, C14)."""
import os
import re
from .. import common as C

PID = "C14"


def parse_case(line):
    t = line.split()
    kind = t[0]
    flags = {}
    body = []
    for x in t[1:]:
        m = re.match(r'^(rt|ind|panic)=(.*)$', x)
        if m:
            flags[m.group(1)] = m.group(2)
        else:
            body.append(x)
    return kind, body, flags


def input_tokens(kind, body):
    # everything except the implementation's encoding (last token)
    return body[:-1]


def run(tier, seed, replay=None):
    out = C.Outcome(PID, tier, seed)
    prep = C.prepare()
    pf = C.check_property_file(PID)
    bad = C.forbidden_vernacular()
    cov = out.coverage
    cov["obligations"] = pf["obligations"] + 1          # + forbidden-vernacular scan
    cov["discharged"] = pf["discharged"] + (0 if bad else 1)
    cov["checker_cmd"] = "make -C coq (coq_makefile, full .vo) && coqc -Q . Nodis Properties/C14.v"
    cov["theorems"] = pf["theorems"]
    cov["axioms"] = pf["axioms"]
    cov["closed_under_global_context"] = pf["closed_under_global_context"]
    out.assumptions = [
        "lengths of Go slices fit an int64 (hypothesis len_ok of the payload theorems)",
        "decoders are modelled only on encoder output; behaviour on corrupt input is not part of C14",
        "buffer independence is decided by the correspondence run (decode, overwrite the source buffer, compare), the model being a pure function of the bytes",
    ]
    if not pf["ok"] or bad:
        out.violation({"property": PID, "broken": "proof", "file": "coq/Properties/C14.v",
                       "detail": pf["log"][-1500:], "forbidden": bad}, nofail=True)
    if not prep.ok and prep.failed_stage in ("go-build-harness", "ocaml-build"):
        out.violation({"property": PID, "broken": prep.failed_stage, "detail": prep.log[-3000:]}, nofail=True)
        return out.finish()

    d = C.scratch_dir("c14")
    try:
        casefile = os.path.join(d, "cases.txt")
        if replay:
            import json
            rp = json.load(open(replay))
            args = [C.VH, "codec", "--out", casefile] + rp["case"]
        else:
            args = [C.VH, "codec", "--seed", str(seed), "--tier", tier, "--out", casefile]
        rc, log = C.sh(args, env=C.go_env(), timeout=3000)
        lines = [l for l in open(casefile).read().splitlines() if l.strip()] if os.path.exists(casefile) else []
        if rc != 0 or not lines:
            out.violation({"property": PID, "broken": "harness run", "detail": log[-3000:]}, nofail=True)
            return out.finish()
        spec_fail = {}   # kind -> smallest failing case
        distinct = set()
        kinds = {}
        keyenc = {}
        aborted = False
        for l in lines:
            if l.startswith("ABORT"):
                aborted = True
                continue
            kind, body, fl = parse_case(l)
            kinds[kind] = kinds.get(kind, 0) + 1
            inp = input_tokens(kind, body)
            if any(t not in ("-", ".", "0") for t in inp[1:] if not t.isdigit()):
                distinct.add((kind, tuple(inp)))
            failed = fl.get("rt") == "0" or fl.get("ind") == "0" or fl.get("panic", "-") != "-"
            if kind == "KEY" and not failed:
                enc = body[-1]
                prev = keyenc.get(enc)
                if prev is not None and prev != tuple(inp):
                    failed = True
                    fl["collision_with"] = " ".join(prev)
                keyenc[enc] = tuple(inp)
            if failed:
                cur = spec_fail.get(kind)
                if cur is None or len(l) < len(cur[0]):
                    spec_fail[kind] = (l, inp, fl)
        for kind, (l, inp, fl) in sorted(spec_fail.items()):
            out.violation({"property": PID, "kind": "codec round-trip / buffer independence / injectivity",
                           "case": [kind] + inp, "flags": fl,
                           "expected": "decode(encode v) == v, unchanged after the source buffer is overwritten, distinct keys encode differently",
                           "replay_cmd": "bin/check C14 --replay <this file>"})
        if aborted and not spec_fail:
            out.violation({"property": PID, "broken": "harness aborted (hangs)"}, nofail=True)
        # correspondence: model encoders vs implementation encoders
        rc, mlog = C.sh([C.MRUN, "codec", casefile], timeout=3000)
        diffs = [x for x in mlog.splitlines() if x.startswith("DIFF")]
        m = re.search(r'SUMMARY cases=(\d+) diffs=(\d+)', mlog)
        if rc != 0 or not m:
            out.violation({"property": PID, "broken": "model run", "detail": mlog[-2000:]}, nofail=True)
        elif diffs:
            # the model no longer describes the code; a failing input was searched above
            first = diffs[0].split()
            ln = int(first[1])
            if not spec_fail:
                out.violation({"property": PID, "broken": "correspondence codec encoders (coq/Model/Codec.v vs ds/*, storage/entry.go)",
                               "theorems_no_longer_about_the_code": pf["theorems"],
                               "first_divergence": {"case": lines[ln - 1][:400], "model": first[2], "impl": first[3]},
                               "divergences": len(diffs)}, nofail=True)
        cov["evaluations"] = len(lines)
        cov["distinct_nontrivial"] = len(distinct)
        cov["rule"] = ("cases = generated (kind, value) pairs run through the real encoder/decoder; distinct = distinct (kind, input tokens); "
                       "non-trivial = at least one non-empty component; sweep of element lengths with a fixed fill pattern plus PRNG-drawn structured values")
        cov["samples"] = [lines[i][:300] for i in (0, len(lines) // 3, len(lines) // 2, len(lines) - 1)]
        cov["input_distribution"] = kinds
        cov["traces_validated_against_impl"] = int(m.group(1)) if m else 0
        cov["correspondence_divergences"] = len(diffs)
        cov["exhaustive"] = False
        cov["sweep"] = "element lengths 0..16600 (thorough) / 0..200 + prefix boundaries (quick); key names 0..64 x 12 deadlines"
    finally:
        C.sh(["rm", "-rf", d])
    return out.finish()
