"""C10: expiry: visible before the deadline, to no command at or after it."""
from .. import dataplane


def run(tier, seed, replay=None):
    return dataplane.run(
        "C10", tier, seed, replay,
        batches_quick=[("expiry", "mem", 45, 40), ("expiry", "peb", 10, 30)],
        batches_thorough=[("expiry", "mem", 800, 60), ("expiry", "peb", 200, 40)],
        relevant_cmds=None,
        assumptions=["time: real sleeps of 30-120 ms between commands; a deadline that falls inside the clock bracket of a step is not judged either way at that step",
                     "TTL has nanosecond resolution in the code: the neighbouring millisecond is admitted"])
