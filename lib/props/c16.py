"""C16: exactly one well-formed RESP reply per command, in order."""
import json
import os
from .. import common as C
from .. import tracecheck as T

PID = "C16"


def one_value(tokens):
    """flat reply tokens -> True iff they are the prefix coding of exactly one value"""
    pending = 1
    for t in tokens:
        if pending <= 0:
            return False
        if t in ("MALFORMED", "NOREPLY", "CRASH", "TIMEOUT", "DEAD", "READERR"):
            return False
        if t[0] == "A":
            pending += int(t[1:]) - 1
        else:
            pending -= 1
    return pending == 0


def run(tier, seed, replay=None):
    out = C.Outcome(PID, tier, seed)
    prep = C.prepare()
    pf = C.check_property_file(PID)
    bad = C.forbidden_vernacular()
    cov = out.coverage
    cov["obligations"] = pf["obligations"] + 1
    cov["discharged"] = pf["discharged"] + (0 if bad else 1)
    cov["checker_cmd"] = "make -C coq && coqc -Q . Nodis Properties/C16.v"
    cov["theorems"] = pf["theorems"]
    cov["axioms"] = pf["axioms"]
    cov["closed_under_global_context"] = pf["closed_under_global_context"]
    out.assumptions = [
        "the theorem covers the modelled handlers (all of the command table except GEO*, INFO, CLIENT, CONFIG, QUIT, RANDOMKEY, SRANDMEMBER, BLPOP/BRPOP); those are covered by the direct one-value check of this run only (partial)",
        "error texts are not modelled; that they contain no CR/LF is checked on the implementation's bytes by the harness's strict tokenizer",
        "in-order delivery: replies are produced synchronously by the connection loop (one ReadCommand, one handler call, one flush); pipelining is exercised by the C15 reader runs",
    ]
    if not pf["ok"] or bad:
        out.violation({"property": PID, "broken": "proof", "file": "coq/Properties/C16.v", "detail": pf["log"][-1500:], "forbidden": bad}, nofail=True)
    if not prep.ok and prep.failed_stage in ("go-build-harness", "ocaml-build", "coq_makefile"):
        out.violation({"property": PID, "broken": prep.failed_stage, "detail": prep.log[-3000:]}, nofail=True)
        return out.finish()
    known = {f["key"]: f for f in C.findings_for(PID) if "key" in f}
    d = C.scratch_dir("c16")
    stats = {"steps": 0, "one_value": 0, "not_one_value": 0, "steps_vs_model": 0, "model_diffs": 0, "cases": 0}
    dist, samples, distinct = {}, [], set()
    confirmed = {}
    try:
        if replay:
            rp = json.load(open(replay))
            batches = []
            if "quitprobe" not in rp:
                script = os.path.join(d, "replay.script")
                T.write_script(script, [("replay", rp.get("backend", "mem"), rp["script"])])
                batches = [("replay", dict(script=script))]
        else:
            k = 20 if tier == "thorough" else 1
            batches = [("hostile", dict(profile="hostile", cases=12 * k, length=150, backend="mem", seed=seed * 1000 + 1)),
                       ("hostilem", dict(profile="hostilem", cases=14 * k, length=150, backend="mem", seed=seed * 1000 + 2)),
                       ("multi", dict(profile="multi", cases=25 * k, length=40, backend="mem", seed=seed * 1000 + 3)),
                       ("mixed", dict(profile="mixed", cases=20 * k, length=40, backend="peb", seed=seed * 1000 + 4))]
        import glob
        corpus = sorted(glob.glob(os.path.join(C.VERIF, "corpus", PID, "*.script")))
        if corpus and not replay:
            script = os.path.join(d, "corpus.script")
            with open(script, "w") as f:
                for cfile in corpus:
                    f.write(open(cfile).read() + "\n")
            batches.insert(0, ("corpus", dict(script=script)))
        for tag, kw in batches:
            r = T.TraceRun(d, tag).run(**kw)
            if not r.ok:
                out.violation({"property": PID, "broken": "run " + tag, "detail": r.err}, nofail=True)
                continue
            stats["cases"] += r.msum[0]
            stats["steps_vs_model"] += r.msum[1]
            stats["model_diffs"] += r.msum[3]
            direct = []
            stalled_known = set()
            for cid in r.order:
                c = r.cases[cid]
                for i, (s, res) in enumerate(zip(c["steps"], c["results"])):
                    t = s.split()
                    if t[0] != "OP":
                        continue
                    stats["steps"] += 1
                    name = t[2]
                    dist[name] = dist.get(name, 0) + 1
                    toks = res.split()
                    distinct.add((name, int(t[3]), toks[0][0] if toks else ""))
                    if one_value(toks):
                        stats["one_value"] += 1
                    else:
                        stats["not_one_value"] += 1
                        sig = "%s/oneval" % name
                        if toks[:1] == ["TIMEOUT"]:
                            sig = T.stall_signature(s)      # a hang: classified by its root-cause shape
                        is_stall = toks[:1] == ["TIMEOUT"]
                        if sig in known and (is_stall or not (r.mdiffs.get(cid) and r.mdiffs[cid][0] <= i + 1)):
                            confirmed.setdefault(sig, (cid, i + 1))
                            if is_stall:
                                stalled_known.add(cid)
                                break
                        else:
                            direct.append({"case": cid, "step": i + 1, "signature": sig, "text": "reply tokens: " + res[:200],
                                           "reason": "the reply is not exactly one well-formed RESP value"})
                if len(samples) < 3 and c["steps"]:
                    samples.append({"case": cid, "steps": [T.step_text(s) + " => " + res[:60]
                                                         for s, res in list(zip(c["steps"], c["results"]))[5:10]]})
            seen = set()
            for v in direct:
                if v["signature"] in seen:
                    continue
                seen.add(v["signature"])
                out.violation(T.replay_of(PID, r, v))
            if not direct:
                for case, (step, kind, detail) in [kv for kv in r.mdiffs.items() if kv[0] not in stalled_known][:2]:
                    out.violation(T.replay_of(PID, r, {"case": case, "step": step, "detail": detail},
                                              {"broken": "correspondence model/implementation (reply or state)",
                                               "theorems_no_longer_about_the_code": pf["theorems"]}), nofail=True)
        if not replay or "quitprobe" in json.load(open(replay)):
            # QUIT over a real socket (the in-process runner has none): PING ; SET k v ; QUIT -> three replies, then EOF
            rc, o = C.sh([C.VH, "quitprobe"], env=C.go_env(), timeout=60)
            line = next((l for l in o.splitlines() if l.startswith("QUITPROBE")), "")
            stats["quitprobe"] = line
            if line.split()[1:] != ["replies=$PONG|+OK|+OK", "closed=True"] and line.split()[1:] != ["replies=$PONG|+OK|+OK", "closed=true"]:
                v = {"property": PID, "quitprobe": True, "signature": "QUIT/reply", "what": "PING ; SET k v ; QUIT over TCP must be answered PONG, OK, OK and then closed: " + (line or o[-200:]),
                     "readable": ["PING", "SET k v", "QUIT"], "replay_cmd": "bin/check C16 --replay <this file>"}
                if "QUIT/reply" in known:
                    confirmed.setdefault("QUIT/reply", v["what"])
                else:
                    out.violation(v)
        for sig in sorted(confirmed):
            out.known_confirmed.append(known[sig])
        cov["evaluations"] = stats["steps"]
        cov["distinct_nontrivial"] = len(distinct)
        cov["rule"] = ("evaluations = commands whose raw reply bytes were tokenised strictly and checked to be exactly one RESP value; "
                       "distinct = distinct (command name, arity, first reply token kind); every command of the table x arities 0..8 x hostile arguments "
                       "x prior states of every type, on two connections, plus MULTI/EXEC scripts")
        cov["samples"] = samples
        cov["traces_validated_against_impl"] = stats["cases"]
        cov["input_distribution"] = dict(sorted(dist.items(), key=lambda kv: -kv[1])[:150])
        cov["stats"] = stats
        cov["exhaustive"] = False
    finally:
        C.sh(["rm", "-rf", d])
    return out.finish()
