"""C04: sorted sets stay ordered by (score, member); rank, range and score agree."""
from .. import dataplane

CMDS = {"ZADD", "ZINCRBY", "ZREM", "ZCARD", "ZSCORE", "ZRANK", "ZREVRANK", "ZRANGE", "ZREVRANGE", "ZRANGEBYSCORE",
        "ZREVRANGEBYSCORE", "ZCOUNT", "ZREMRANGEBYRANK", "ZREMRANGEBYSCORE", "ZUNIONSTORE", "ZINTERSTORE",
        "ZEXISTS", "ZCLEAR"}


def run(tier, seed, replay=None):
    return dataplane.run(
        "C04", tier, seed, replay,
        batches_quick=[("zset", "mem", 60, 40), ("zset", "peb", 12, 30)],
        batches_thorough=[("zset", "mem", 2500, 80), ("zset", "peb", 300, 40), ("mixed", "mem", 500, 60)],
        relevant_cmds=CMDS,
        assumptions=["layer Z1: the skiplist is seen as its level-0 sequence; spans, levels and backward pointers are checked on every step by the structural self-check hook, not proved",
                     "scores: integers of magnitude < 2^53 and +-inf; -0, NaN, fractions and WEIGHTS are outside the model and not generated"])
