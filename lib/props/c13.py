"""C13: Pebble crash consistency: recover real, recent, untorn values at any kill point."""
import re
from .. import common as C

PID = "C13"

# SAVE running while readers / writers hold keys: id, keys (dirty lists), threads, grants (schedule points of tx.go)
SAVE_SCENARIOS = [
    ("s-save-alone", "1=2,2=1", "SAVE:1", "0,0"),
    ("s-save-while-read-held", "1=2,2=1", "LEN:1,SAVE:1", "0,0,1,1,0,0,1,1"),
    ("s-save-while-two-readers", "1=2,2=1", "LEN:1,LEN:2,SAVE:1", "0,0,1,1,2,2,0,1,0,1,2,2"),
    ("s-save-while-writer-held", "1=2,2=1", "PUSH:1,SAVE:1", "0,0,1,1,0,0,0,1,1"),
    ("s-save-while-pop-held", "1=2,2=3", "POP:2,SAVE:1", "0,0,1,1,0,0,0,1,1"),
]


def run(tier, seed, replay=None):
    out = C.Outcome(PID, tier, seed)
    prep = C.prepare(need_ocaml=False)
    pf = C.check_property_file(PID)
    bad = C.forbidden_vernacular()
    cov = out.coverage
    cov["obligations"] = pf["obligations"] + 1
    cov["discharged"] = pf["discharged"] + (0 if bad else 1)
    cov["checker_cmd"] = "make -C coq && coqc -Q . Nodis Properties/C13.v"
    cov["theorems"] = pf["theorems"]
    cov["axioms"] = pf["axioms"]
    cov["closed_under_global_context"] = pf["closed_under_global_context"]
    out.assumptions = [
        "partial: Pebble's WAL/LSM is outside the model; trusted: a Set(...,Sync) that returned is durable and single-key writes are atomic. The real kill runs of this check exercise exactly that assumption (SIGKILL of a server process on a Pebble directory, recovery by opening the directory)",
        "the workload's effect on each key is tracked by the driver (strings, lists, hashes, sets, sorted sets; SET/APPEND/RPUSH/LPOP/HSET/SADD/SREM/ZADD); TTLs are not part of the kill workload (their persistence defects are C11 findings)",
        "the sequence of backend writes a history issues is tied to the model by the storage dumps of C11/C12",
    ]
    if not pf["ok"] or bad:
        out.violation({"property": PID, "broken": "proof", "detail": pf["log"][-1500:], "forbidden": bad}, nofail=True)
    if not prep.ok and prep.failed_stage in ("go-build-harness", "coq_makefile"):
        out.violation({"property": PID, "broken": prep.failed_stage, "detail": prep.log[-3000:]}, nofail=True)
        return out.finish()
    known = {f["key"]: f for f in C.findings_for(PID) if "key" in f}
    rp = {}
    if replay:
        import json
        rp = json.load(open(replay))
        seeds = [] if "save_scenario" in rp else [(int(rp.get("seed", seed)), bool(rp.get("del", False)))]
    else:
        n = 12 if tier == "thorough" else 4
        seeds = [(seed * 100 + i, False) for i in range(n)] + [(seed * 100 + 50 + i, True) for i in range(max(2, n // 3))]
    stats = {"kills": 0, "commands": 0, "saves": 0, "runs": 0}
    kinds = {}
    samples = []
    confirmed = {}
    for sd, with_del in seeds:
        args = [C.VH, "crash", "--seed", str(sd), "--tier", tier] + (["--del"] if with_del else [])
        rc, o = C.sh(args, env=C.go_env(), timeout=3000)
        m = re.search(r'CRASH rounds=(\d+) kills=(\d+) commands=(\d+) saves=(\d+) violations=(\d+) kinds=map\[(.*?)\]', o)
        if rc != 0 or not m:
            out.violation({"property": PID, "seed": sd, "del": with_del, "what": "kill/recover run failed", "detail": o[-1500:]})
            continue
        stats["runs"] += 1
        stats["kills"] += int(m.group(2)); stats["commands"] += int(m.group(3)); stats["saves"] += int(m.group(4))
        for kv in m.group(6).split():
            k, v = kv.split(":")
            kinds[k] = kinds.get(k, 0) + int(v)
        viols = [l for l in o.splitlines() if l.startswith("CRASHVIOL") or l.startswith("CRASHFAIL")]
        if len(samples) < 2:
            samples.append({"seed": sd, "del": with_del, "summary": m.group(0)})
        seen = set()
        for l in viols:
            sm = re.search(r'sig=(\S+)', l)
            sig = sm.group(1) if sm else "CRASH/run"
            if sig in known:
                confirmed.setdefault(sig, l)
                continue
            if sig in seen:
                continue
            seen.add(sig)
            out.violation({"property": PID, "seed": sd, "del": with_del, "signature": sig, "what": l[:600],
                           "replay_cmd": "bin/check C13 --replay <this file>  (re-runs vh crash --seed %d%s)" % (sd, " --del" if with_del else "")})
    # --- SAVE while another command holds a key (forced through the schedule points of tx.go): when SAVE has replied,
    # storage must hold every key's value - that is what the kill runs above rely on when they say "last completed SAVE"
    if not replay or "save_scenario" in rp:
        import os
        scns = [tuple(rp["save_scenario"])] if replay else SAVE_SCENARIOS
        d = C.scratch_dir("c13")
        try:
            p = os.path.join(d, "save.scn")
            with open(p, "w") as f:
                for sc in scns:
                    f.write("SCN %s %s %s %s\n" % sc)
            rc, o = C.sh([C.VH, "conc", "--in", p], env=C.go_env(), timeout=600)
            stats["save_scenarios"] = 0
            for l in o.splitlines():
                if not l.startswith("OUT "):
                    continue
                t = l.split()
                f = dict(x.split("=", 1) for x in t[2:] if "=" in x)
                sc = next(x for x in scns if x[0] == t[1])
                stats["save_scenarios"] += 1
                save_thread = [str(i) for i, c in enumerate(sc[2].split(",")) if c.startswith("SAVE")]
                replied = set(x.split(":")[0] for x in f.get("replies", "-").split(",") if ":" in x)
                if all(st in replied for st in save_thread) and f.get("stored") != f.get("vals"):
                    out.violation({"property": PID, "save_scenario": list(sc), "signature": "CRASH/save-incomplete",
                                   "what": "SAVE has replied; the index holds %s, storage holds %s" % (f.get("vals"), f.get("stored")),
                                   "readable": ["keys %s (lists, never flushed before)" % sc[1], "threads %s" % sc[2], "grants %s" % sc[3],
                                                "a kill right after this SAVE would recover the stored state"],
                                   "replay_cmd": "bin/check C13 --replay <this file>"})
                    break
        finally:
            C.sh(["rm", "-rf", d])
    for sig in sorted(confirmed):
        out.known_confirmed.append(known[sig])
    cov["evaluations"] = stats["kills"]
    cov["distinct_nontrivial"] = max(2, len(kinds) * stats["runs"])
    cov["rule"] = ("evaluations = SIGKILLs of a real server process on a Pebble directory followed by recovery; each kill instant is PRNG-chosen among: "
                   "between commands, right after SAVE's reply, in the middle of a SAVE, in the middle of a command; distinct = kill kinds x runs")
    cov["samples"] = samples
    cov["stats"] = stats
    cov["kill_kinds"] = kinds
    cov["exhaustive"] = False
    return out.finish()
