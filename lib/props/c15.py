"""C15: RESP requests parse exactly, under any fragmentation / pipelining."""
import json
import os
import re
from .. import common as C
from .. import tracecheck as T

PID = "C15"


def case_block(lines, cid):
    out, on = [], False
    for l in lines:
        if l.startswith("RD "):
            on = l.split()[1] == cid
        if on and (l.startswith("RD ") or l.startswith("G ") or l.startswith("ERR") or l.startswith("C ")):
            out.append(l[:400])
    return out


def run(tier, seed, replay=None):
    out = C.Outcome(PID, tier, seed)
    prep = C.prepare()
    pf = C.check_property_file(PID)
    bad = C.forbidden_vernacular()
    cov = out.coverage
    cov["obligations"] = pf["obligations"] + 1
    cov["discharged"] = pf["discharged"] + (0 if bad else 1)
    cov["checker_cmd"] = "make -C coq && coqc -Q . Nodis Properties/C15.v"
    cov["theorems"] = pf["theorems"]
    cov["axioms"] = pf["axioms"]
    cov["closed_under_global_context"] = pf["closed_under_global_context"]
    out.assumptions = [
        "arguments up to the 512 MiB protocol limit (hypothesis arg_ok); command names are ASCII (strings.ToUpper of the repository mangles non-ASCII bytes; modelled-not-judged)",
        "network = byte stream + arbitrary delivery oracle (each Read returns between 1 and min(requested, available) bytes); a zero-length Read returns at once",
        "the reader model (coq/Model/Reader.v) is tied to redis/resp.go by comparing, on every run, the parsed commands, the option positions, the error class and the size of EVERY Read request",
        "inline (telnet) syntax is outside the model",
    ]
    if replay:
        try:
            seed = int(json.load(open(replay)).get("seed", seed))
        except Exception:
            pass
    if not pf["ok"] or bad:
        out.violation({"property": PID, "broken": "proof", "file": "coq/Properties/C15.v", "detail": pf["log"][-1500:],
                       "forbidden": bad}, nofail=True)
    if not prep.ok and prep.failed_stage in ("go-build-harness", "ocaml-build", "coq_makefile"):
        out.violation({"property": PID, "broken": prep.failed_stage, "detail": prep.log[-3000:]}, nofail=True)
        return out.finish()
    d = C.scratch_dir("c15")
    try:
        f = os.path.join(d, "reader.txt")
        rc, log = C.sh([C.VH, "reader", "--seed", str(seed), "--tier", tier, "--out", f], env=C.go_env(), timeout=3000)
        if rc != 0 or not os.path.exists(f):
            out.violation({"property": PID, "broken": "harness run", "detail": log[-3000:]}, nofail=True)
            return out.finish()
        rc, mout = T.run_mrun("reader", f)
        m = re.search(r'RSUMMARY cases=(\d+) commands=(\d+) inline=(\d+) diffs=(\d+) specdiffs=(\d+)', mout)
        if rc != 0 or not m:
            out.violation({"property": PID, "broken": "model run", "detail": mout[-2000:]}, nofail=True)
            return out.finish()
        lines = open(f).read().splitlines()
        panics = [l for l in lines if l.startswith("PANIC")]
        specd = [l for l in mout.splitlines() if l.startswith("SPECDIFF")]
        diffs = [l for l in mout.splitlines() if l.startswith("DIFF")]
        for l in specd[:3]:
            cid = l.split()[1]
            out.violation({"property": PID, "seed": seed, "case": cid, "what": l, "input": case_block(lines, cid),
                           "expected": "the parsed name (upper-cased) and arguments equal the ones sent, however the stream is cut; a parsed command stays intact"})
        if panics and not specd:
            out.violation({"property": PID, "seed": seed, "what": "reader panicked: " + panics[0]})
        if diffs and not specd:
            cid = diffs[0].split()[1]
            out.violation({"property": PID, "seed": seed, "broken": "correspondence reader model/implementation (coq/Model/Reader.v vs redis/resp.go)",
                           "theorems_no_longer_about_the_code": pf["theorems"], "first_divergence": diffs[0],
                           "input": case_block(lines, cid)}, nofail=True)
        ncases, ncmds = int(m.group(1)), int(m.group(2))
        kinds = {}
        distinct = set()
        for l in lines:
            if l.startswith("RD "):
                t = l.split()
                k = t[1].split("-")[0]
                kinds[k] = kinds.get(k, 0) + 1
            elif l.startswith("G "):
                distinct.add(l)
        cov["evaluations"] = ncmds
        cov["distinct_nontrivial"] = len(distinct)
        cov["rule"] = ("evaluations = commands parsed by the implementation and compared with the model; distinct = distinct (name, argument vector) "
                       "pairs sent; exhaustive single cuts and (quick: every 5th, thorough: all) double cuts of a 57-byte two-command stream, "
                       "byte-at-a-time delivery, PRNG pipelines of 1-5 and 200-1000 commands with arguments up to 70 KB under four cut regimes")
        cov["samples"] = [case_block(lines, "cut1-9")[:4], [l[:300] for l in lines if l.startswith("RD rnd-3 ")]]
        cov["traces_validated_against_impl"] = ncases
        cov["input_distribution"] = kinds
        cov["correspondence_divergences"] = len(diffs)
        cov["exhaustive"] = False
    finally:
        C.sh(["rm", "-rf", d])
    return out.finish()
