"""C12: eviction of cold values is invisible; a failed flush loses nothing."""
from .. import persist


def run(tier, seed, replay=None):
    return persist.run_c12(tier, seed, replay)
