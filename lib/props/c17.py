"""C17: no client input can crash, hang or starve the server or disturb other clients."""
import json
import os
import re
from .. import common as C
from .. import tracecheck as T

PID = "C17"
BAD = ("CRASH", "TIMEOUT", "DEAD", "NOREPLY", "READERR")


def run(tier, seed, replay=None):
    out = C.Outcome(PID, tier, seed)
    prep = C.prepare()
    pf = C.check_property_file(PID)
    bad = C.forbidden_vernacular()
    cov = out.coverage
    cov["obligations"] = pf["obligations"] + 1
    cov["discharged"] = pf["discharged"] + (0 if bad else 1)
    cov["checker_cmd"] = "make -C coq && coqc -Q . Nodis Properties/C17.v"
    cov["theorems"] = pf["theorems"]
    cov["axioms"] = pf["axioms"]
    cov["closed_under_global_context"] = pf["closed_under_global_context"]
    out.assumptions = [
        "partial: a theorem about the model cannot exhibit process-level behaviour (memory exhaustion, goroutine leaks, socket handling); those are only exercised by the in-process hostile runs and the real TCP server run of this check",
        "the starvation/hang clauses under concurrency are C06's; this check is single hostile connection + one canary",
        "inline (telnet) syntax is exercised on the implementation (no panic, canary alive) but not modelled",
    ]
    if not pf["ok"] or bad:
        out.violation({"property": PID, "broken": "proof", "file": "coq/Properties/C17.v", "detail": pf["log"][-1500:], "forbidden": bad}, nofail=True)
    if not prep.ok and prep.failed_stage in ("go-build-harness", "ocaml-build", "coq_makefile"):
        out.violation({"property": PID, "broken": prep.failed_stage, "detail": prep.log[-3000:]}, nofail=True)
        return out.finish()
    d = C.scratch_dir("c17")
    stats = {"hostile_commands": 0, "malformed_streams": 0, "tcp_inputs": 0, "model_diffs": 0}
    samples, distinct = [], set()
    try:
        if replay:
            rp = json.load(open(replay))
            if "seed" in rp:
                seed = int(rp["seed"])
        # (1) hostile byte streams through the real reader, against the reader model
        f = os.path.join(d, "reader.txt")
        rc, log = C.sh([C.VH, "reader", "--seed", str(seed), "--tier", tier, "--out", f], env=C.go_env(), timeout=3000)
        if rc != 0:
            out.violation({"property": PID, "seed": seed, "what": "reader harness died (panic outside recover or hang)", "detail": log[-2000:]})
        else:
            rc, mout = T.run_mrun("reader", f)
            lines = open(f, errors="replace").read().splitlines()
            stats["malformed_streams"] = sum(1 for l in lines if l.startswith("RW "))
            for l in lines:
                if l.startswith("RW "):
                    distinct.add(("stream", l.split()[4][:24]))
            specd = [l for l in mout.splitlines() if l.startswith("SPECDIFF") and "panicked" in l]
            diffs = [l for l in mout.splitlines() if l.startswith("DIFF") and " mal-" in l]
            for l in specd[:2]:
                cid = l.split()[1]
                inp = [x[:300] for x in lines if x.startswith("RW %s " % cid)]
                out.violation({"property": PID, "seed": seed, "what": l, "input": inp})
            if diffs and not specd:
                cid = diffs[0].split()[1]
                out.violation({"property": PID, "seed": seed, "broken": "correspondence reader model/implementation on malformed input",
                               "first_divergence": diffs[0], "input": [x[:300] for x in lines if x.startswith("RW %s " % cid)],
                               "theorems_no_longer_about_the_code": pf["theorems"]}, nofail=True)
            samples.append([x[:160] for x in lines if x.startswith("RW mal-1") ][:3])
        # (2) every command x arities x hostile arguments, in process
        k = 20 if tier == "thorough" else 1
        batches17 = [("hostile", dict(profile="hostile", cases=12 * k, length=150, backend="mem", seed=seed * 1000 + 11)),
                     ("hostilem", dict(profile="hostilem", cases=10 * k, length=150, backend="peb", seed=seed * 1000 + 12))]
        import glob
        corpus = sorted(glob.glob(os.path.join(C.VERIF, "corpus", PID, "*.script")))
        if corpus:
            cscript = os.path.join(d, "corpus.script")
            with open(cscript, "w") as f:
                for cf in corpus:
                    f.write(open(cf).read() + "\n")
            batches17.insert(0, ("corpus", dict(script=cscript)))
        for tag, kw in batches17:
            r = T.TraceRun(d, tag).run(**kw)
            if not r.ok:
                out.violation({"property": PID, "seed": seed, "what": "hostile run died: " + r.err[:500]})
                continue
            stats["model_diffs"] += r.msum[3]
            found = False
            known17 = {f["key"]: f for f in C.findings_for(PID) if "key" in f}
            stalled_known = set()
            for cid in r.order:
                c = r.cases[cid]
                for i, (s, res) in enumerate(zip(c["steps"], c["results"])):
                    if s.startswith("OP "):
                        stats["hostile_commands"] += 1
                        t = s.split()
                        distinct.add((t[2], int(t[3])))
                    first = res.split()[0] if res else "NOREPLY"
                    if first == "TIMEOUT" and T.stall_signature(s) in known17:
                        # a listed hang (classified by the shape of the command): the instance is dead, the case ends here
                        fd = known17[T.stall_signature(s)]
                        if fd not in out.known_confirmed:
                            out.known_confirmed.append(fd)
                        stalled_known.add(cid)
                        break
                    if first in BAD and not found:
                        found = True
                        sig17 = T.stall_signature(s) if first == "TIMEOUT" else t[2] + "/" + first
                        out.violation(T.replay_of(PID, r, {"case": cid, "step": i + 1, "signature": sig17,
                                                           "text": "outcome %s" % res[:100],
                                                           "reason": "the command crashed the handler, hung, or got no reply"}))
            if not found:
                for case, (step, kind, detail) in [kv for kv in r.mdiffs.items() if kv[0] not in stalled_known][:1]:
                    out.violation(T.replay_of(PID, r, {"case": case, "step": step, "detail": detail},
                                              {"broken": "correspondence model/implementation on hostile commands",
                                               "theorems_no_longer_about_the_code": pf["theorems"]}), nofail=True)
            if r.order:
                c = r.cases[r.order[0]]
                samples.append([T.step_text(s) + " => " + res[:40] for s, res in list(zip(c["steps"], c["results"]))[6:10]])
        # (3) a real server process: hostile connection + canary connection
        rc, tout = C.sh([C.VH, "tcp", "--seed", str(seed), "--tier", tier], env=C.go_env(), timeout=3000)
        m = re.search(r'TCP inputs=(\d+) canary_failures=(\d+) server_alive=(\w+) reconnects=(\d+) max_canary_latency_ms=(\d+)', tout)
        if not m:
            out.violation({"property": PID, "seed": seed, "what": "TCP run produced no summary", "detail": tout[-1500:]})
        else:
            stats["tcp_inputs"] = int(m.group(1))
            stats["tcp_max_canary_latency_ms"] = int(m.group(5))
            if int(m.group(2)) > 0 or m.group(3) != "true":
                fails = [l[:600] for l in tout.splitlines() if l.startswith("TCPFAIL")]
                out.violation({"property": PID, "seed": seed, "what": "another client was disturbed or the server died",
                               "failures": fails[:3], "summary": m.group(0)})
        cov["evaluations"] = stats["hostile_commands"] + stats["malformed_streams"] + stats["tcp_inputs"]
        cov["distinct_nontrivial"] = len(distinct)
        cov["rule"] = ("evaluations = hostile commands run in process + malformed byte streams fed to the real reader + inputs sent to a real server "
                       "process with a canary connection; distinct = distinct (command, arity) pairs and distinct malformed streams")
        cov["samples"] = samples
        cov["stats"] = stats
        cov["exhaustive"] = False
    finally:
        C.sh(["rm", "-rf", d])
    return out.finish()
