"""C05: concurrent single-key commands are linearizable."""
from .. import conccheck


def run(tier, seed, replay=None):
    return conccheck.run("C05", tier, seed, replay)
