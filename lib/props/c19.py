"""C19: a full SCAN/SSCAN/HSCAN/ZSCAN iteration returns every element and terminates."""
from .. import scaniter


def run(tier, seed, replay=None):
    return scaniter.run(tier, seed, replay)
