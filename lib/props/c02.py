"""C02: lists behave as exact sequences."""
from .. import dataplane

CMDS = {"LPUSH", "RPUSH", "LPUSHX", "RPUSHX", "LPOP", "RPOP", "LLEN", "LINDEX", "LRANGE", "LINSERT", "LSET",
        "LREM", "LTRIM", "RPOPLPUSH", "LPOPRPUSH"}


def run(tier, seed, replay=None):
    return dataplane.run(
        "C02", tier, seed, replay,
        batches_quick=[("list", "mem", 50, 40), ("list", "peb", 12, 30)],
        batches_thorough=[("list", "mem", 1500, 60), ("list", "peb", 300, 40), ("mixed", "mem", 500, 60)],
        relevant_cmds=CMDS,
        assumptions=["layer L1 only: the pointer-level doubly linked list is checked on every step by the structural self-check hook (forward walk = reversed backward walk, length = node count), not proved"])
