"""C18: blocking pops hand each pushed element to exactly one waiter, or time out.

Theorems: coq/Properties/C18.v over the thread model coq/Model/Block.v (every schedule of thread
steps, timer firings and clock ticks).  Tie to /repo: scenarios (initial lists, 2-5 producers and
consumers) with a schedule of *enabled* steps are produced by running the extracted model
(mrun block-gen) and by a directed corpus (the histories that failed before list.go/tx.go were
repaired); vh block forces each schedule on the implementation through the b: schedule points of
list.go and a replaced timeout timer, reports which branch every select took, and the model replays
what was observed: every step must be enabled in the model and the outcome (lists, replies, waiter
registry, where every unfinished thread stands) must be equal.
The property is judged on the implementation's own outcome, independently of the model:
  BLOCK/stuck         a granted thread reached no schedule point (a push waits for a client, a deadlock)
  BLOCK/panic         a command panicked (send on closed channel, ...)
  BLOCK/push-reply    a push replied something else than the new length
  BLOCK/conservation  multiset(initial + pushed) differs from multiset(lists + popped)
  BLOCK/early-null    a null reply without its timer having fired at or after the deadline, or with timeout 0
  BLOCK/lost-wakeup   all producers are done, a consumer still sleeps in its select, a listed key has an element
  BLOCK/stress        exploration with real goroutines and timers (vh blockstress): a panic, a command that never
                      returns, pushed != popped + remaining, a null before its timeout
  BLOCK/timing        real-time runs (no replaced timer): null before the timeout, timeout 0 returned,
                      fractional timeouts, BRPOP woken by a push not served from the tail
"""
import json
import os
import random
import subprocess
from concurrent.futures import ThreadPoolExecutor
from .. import common as C
from .. import persist as PS

PID = "C18"

# id, lists, cmds, schedule: the histories behind the six repairs of list.go / handler.go (known_findings.txt, fixed:)
DIRECTED = [
    # BRPOP woken by a push must get the tail; BLPOP the head
    ("d-brpop-tail", "-", "BRPOP:1:0,RPUSH:1:7.8.9", "r0,r0,r0,r1,r1,r0,r0,r0"),
    ("d-blpop-head", "-", "BLPOP:1:0,RPUSH:1:7.8.9", "r0,r0,r0,r1,r1,r0,r0,r0"),
    # two waiters, one element: the loser keeps waiting until its timeout (no null before the deadline)
    ("d-two-waiters-one-element", "-", "BLPOP:1:100,BLPOP:1:100,RPUSH:1:7",
     "r0,r0,r0,r1,r1,r1,r2,r2,r0,r0,r0,r1,r1,t100,f1,r1"),
    # the same key listed twice: the push must not wait for the second registration of the same channel
    ("d-same-key-twice", "-", "BLPOP:1.1:100,RPUSH:1:7", "r0,r0,r0,r0,r0,r1,r1,r0,r0,r0"),
    # two pushers against one waiter: the second push finds the waiter awake but still registered
    ("d-two-pushers", "-", "BLPOP:1:0,RPUSH:1:7,RPUSH:1:8", "r0,r0,r0,r1,r1,r0,r2,r2,r0,r0"),
    ("d-two-pushers-before-wake", "-", "BLPOP:1:0,RPUSH:1:7,RPUSH:1:8", "r0,r0,r0,r1,r1,r2,r2,r0,r0,r0"),
    # a push between the empty look and the sleep (the wake-up must not be lost)
    ("d-push-between-try-and-select", "-", "BLPOP:1.2:0,RPUSH:1:7", "r0,r0,r0,r0,r1,r1,r0,r0,r0,r0"),
    ("d-push-before-registration", "-", "BLPOP:1:0,RPUSH:1:7", "r0,r1,r1,r0,r0,r0"),
    ("d-push-during-registration", "-", "BLPOP:1.2:0,RPUSH:2:7", "r0,r0,r1,r1,r0,r0,r0,r0,r0"),
    # the timer fires exactly when a push arrives: either branch, never a lost element
    ("d-timeout-meets-push", "-", "BLPOP:1:50,RPUSH:1:7", "r0,r0,r0,t50,r1,r1,f0,r0,r0,r0"),
    ("d-timeout-meets-push-in-lock", "-", "BLPOP:1:50,RPUSH:1:7", "r0,r0,r0,t50,r1,f0,r1,r0"),
    # first key in argument order; immediate return leaves nothing registered
    ("d-first-key-order", "1=5,2=6", "BLPOP:2.1:0,BRPOP:1.2:0", "r0,r0,r0,r0,r0,r1,r1,r1,r1,r1"),
    ("d-immediate-second-key", "2=6.7", "BRPOP:1.2:0", "r0,r0,r0,r0,r0,r0"),
    # RPOPLPUSH as producer
    ("d-move-wakes", "1=5.6", "BLPOP:2:0,MOVE:1:2", "r0,r0,r0,r1,r1,r1,r0,r0,r0"),
    # plain pop steals the element a waiter was woken for: the waiter sleeps again, then gets the next one
    ("d-plain-pop-steals", "-", "BLPOP:1:0,RPUSH:1:7,LPOP:1,RPUSH:1:8", "r0,r0,r0,r1,r1,r2,r0,r0,r3,r3,r0,r0,r0"),
    # multi-element push, three waiters
    ("d-three-waiters-two-elements", "-", "BLPOP:1:0,BRPOP:1:50,BLPOP:1:0,LPUSH:1:7.8",
     "r0,r0,r0,r1,r1,r1,r2,r2,r2,r3,r3,r1,r1,r1,r0,r0,r0,r2,r2"),
]

# real time, no replaced timer: id, kind, timeout text, push after ms
TIMING = [
    ("t-null-after-50ms", "BLPOP", "0.05", "-"),
    ("t-brpop-null-after-80ms", "BRPOP", "0.08", "-"),
    ("t-handler-fraction", "cmd:BLPOP", "0.05", "-"),
    ("t-handler-fraction-brpop", "cmd:BRPOP", "0.12", "-"),
    ("t-zero-waits", "BLPOP", "0", "-"),
    ("t-handler-zero-waits", "cmd:BRPOP", "0", "-"),
    ("t-zero-then-push", "BRPOP", "0", "60"),
    ("t-blpop-push", "BLPOP", "1", "40"),
    ("t-handler-brpop-push", "cmd:BRPOP", "0.9", "40"),
    ("t-handler-blpop-push", "cmd:BLPOP", "0", "40"),
]


def parse_lines(text, tag):
    res = {}
    for l in text.splitlines():
        if l.startswith(tag + " "):
            t = l.split()
            d = dict(x.split("=", 1) for x in t[2:] if "=" in x)
            d["line"] = " ".join(x for x in t[2:] if not x.startswith("sched="))
            res[t[1]] = d
    return res


def multiset(xs):
    m = {}
    for x in xs:
        m[x] = m.get(x, 0) + 1
    return m


def judge(scn, ob):
    """property verdicts on the implementation's outcome alone: list of (signature, text)"""
    (sid, lspec, cspec, _) = scn
    cmds = cspec.split(",")
    out = []
    if "STUCK" in ob:
        i, op, why = (ob["STUCK"].split(":", 2) + ["", ""])[:3]
        t = int(op[1:]) if op[1:].isdigit() else -1
        kind = cmds[t].split(":")[0] if 0 <= t < len(cmds) else "?"
        out.append(("BLOCK/stuck:" + kind, "step %s (%s, thread %s = %s) made no progress: %s" % (i, op, t, cmds[t] if 0 <= t < len(cmds) else "?", why)))
    if "PANIC" in ob:
        out.append(("BLOCK/panic", "a command panicked: " + ob["PANIC"]))
    replies = dict(x.split(":", 1) for x in ob["replies"].split(",")) if ob["replies"] != "-" else {}
    notdone = dict(x.split(":", 1) for x in ob["notdone"].split(",")) if ob["notdone"] != "-" else {}
    lists = dict(x.split(":", 1) for x in ob["lists"].split(",")) if ob["lists"] != "-" else {}
    sched = ob["sched"].split(",") if ob.get("sched", "-") != "-" else []
    # pushes
    for t, c in enumerate(cmds):
        p = c.split(":")
        r = replies.get(str(t))
        if p[0] in ("LPUSH", "RPUSH") and r is not None and not (r.startswith("I") and r[1:].isdigit()):
            out.append(("BLOCK/push-reply", "thread %d (%s) replied %s" % (t, c, r)))
    # conservation
    if "STUCK" not in ob and not any(c.startswith("MOVE") and str(t) in notdone for t, c in enumerate(cmds)):
        have = []
        if lspec != "-":
            for kv in lspec.split(","):
                have += kv.split("=")[1].split(".")
        for t, c in enumerate(cmds):
            p = c.split(":")
            if p[0] in ("LPUSH", "RPUSH") and (str(t) in replies or notdone.get(str(t)) == "notify"):
                have += p[2].split(".")
        got = []
        for k, l in lists.items():
            got += l.split(".")
        for t, c in enumerate(cmds):
            r = replies.get(str(t), "")
            p = c.split(":")
            if p[0] in ("LPOP", "RPOP") and r.startswith("E") and r != "Enil":
                got.append(r[1:])
            if p[0] in ("BLPOP", "BRPOP") and r.startswith("B") and r != "Bnil":
                got.append(r.split("/", 1)[1])
            if p[0] in ("BLPOP", "BRPOP") and notdone.get(str(t)) == "dereg":
                got.append("?")      # popped, not yet replied: resolved below
        if "?" in got:
            # an element in the hands of a consumer that has not replied yet: compare sizes only
            if len(got) != len(have):
                out.append(("BLOCK/conservation", "%d elements before, %d after" % (len(have), len(got))))
        elif multiset(have) != multiset(got):
            out.append(("BLOCK/conservation", "initial+pushed %s, lists+popped %s" % (sorted(have), sorted(got))))
    # null replies: the timer must have been fired by the schedule at or after the deadline
    now = 0
    nrun = {}
    deadline = {}
    fired_at = {}
    for op in sched:
        if op[0] == "t":
            now += int(op[1:])
            continue
        t = int(op[1:])
        if op[0] == "r":
            nrun[t] = nrun.get(t, 0) + 1
            p = cmds[t].split(":")
            if p[0] in ("BLPOP", "BRPOP") and nrun[t] == 1 + len(p[1].split(".")):
                deadline[t] = now + int(p[2])
        if op[0] == "f":
            fired_at[t] = now
    for t, c in enumerate(cmds):
        p = c.split(":")
        if p[0] in ("BLPOP", "BRPOP") and replies.get(str(t)) == "Bnil":
            if int(p[2]) == 0:
                out.append(("BLOCK/early-null", "thread %d (%s, timeout 0) replied null" % (t, c)))
            elif t not in fired_at:
                out.append(("BLOCK/early-null", "thread %d (%s) replied null although its timer never fired" % (t, c)))
            elif fired_at[t] < deadline.get(t, 0):
                out.append(("BLOCK/early-null", "thread %d (%s) replied null at %d ms, deadline %d ms" % (t, c, fired_at[t], deadline[t])))
    # lost wake-up: every producer is done, a consumer sleeps, a listed key has an element
    producers_done = all(str(t) in replies for t, c in enumerate(cmds) if c.split(":")[0] not in ("BLPOP", "BRPOP"))
    others_quiet = all(v in ("select",) for v in notdone.values())
    if producers_done and others_quiet and "STUCK" not in ob:
        for t, c in enumerate(cmds):
            p = c.split(":")
            if notdone.get(str(t)) == "select":
                full = [k for k in p[1].split(".") if k in lists]
                if full:
                    out.append(("BLOCK/lost-wakeup", "thread %d (%s) sleeps in its select, every other thread is done, key %s holds %s" % (t, c, full[0], lists[full[0]])))
    return out


def judge_timing(case, ob):
    (tid, kind, tmo, push) = case
    r, el = ob.get("reply", "?"), int(ob.get("elapsed_ms", "-1"))
    ms = float(tmo) * 1000
    through_handler = kind.startswith("cmd:")
    right = kind.endswith("BRPOP")
    if push == "-":
        if ms == 0:
            return None if r == "WAITING" else "timeout 0 without a push: replied %s after %d ms instead of waiting" % (r, el)
        null = "Hn" if through_handler else "Bnil"
        if r != null:
            return "no push, timeout %s s: replied %s" % (tmo, r)
        if el < ms:
            return "null after %d ms, timeout %d ms" % (el, ms)
        if el > ms + 4000:
            return "null only after %d ms, timeout %d ms" % (el, ms)
        return None
    want = "b" if right else "a"
    good = ("HA2_B746b_B" + want.encode().hex()) if through_handler else "B" + want
    if r != good:
        return "push of [a b] after %s ms: replied %s, expected %s" % (push, r, good)
    if el > int(push) + 4000:
        return "element delivered only after %d ms (pushed at %s ms)" % (el, push)
    return None


def run(tier, seed, replay=None):
    out = C.Outcome(PID, tier, seed)
    prep, pf, bad = PS._common_start(PID)
    cov = PS._fill_cov(out, PID, pf, bad)
    out.assumptions = [
        "a step of the model is the code between two schedule points of the implementation; it runs under one key lock or one registry lock and is taken to be atomic (nothing in it waits, except the second key lock of RPOPLPUSH, which is a step of its own)",
        "key locks are per key name: a thread that has unlinked a record touches that key's data no more, so holding the dead record's lock until commit is not distinguished from holding the name",
        "the timeout timer is replaced by a channel the harness fires (hook verifTimer); the real timer is exercised by the real-time cases only (timeouts 50-120 ms, 0, fractional through the command handler)",
        "schedules contain enabled steps only (chosen by running the model); a select with both a wake-up and a fired timer takes either branch, the branch taken is observed and replayed",
        "RPOPLPUSH on an empty source panics in the embedded API (a C02 finding); the harness reports it as a null reply",
    ]
    if not pf["ok"] or bad:
        out.violation({"property": PID, "broken": "proof", "detail": pf["log"][-1500:], "forbidden": bad}, nofail=True)
    if not prep.ok and prep.failed_stage in ("go-build-harness", "ocaml-build", "coq_makefile"):
        out.violation({"property": PID, "broken": prep.failed_stage, "detail": prep.log[-3000:]}, nofail=True)
        return out.finish()
    known = {f["key"]: f for f in C.findings_for(PID) if "key" in f}
    d = C.scratch_dir("c18")
    stats = {"scenarios": 0, "generated": 0, "directed": 0, "steps": 0, "model_diffs": 0, "timing_cases": 0,
             "fires": 0, "fire_took_wakeup": 0, "null_replies": 0, "delivered": 0, "sleepers_at_end": 0}
    confirmed, dist, samples = {}, {}, []
    try:
        if replay:
            rp = json.load(open(replay))
            scns = [tuple(rp["scenario"])] if "scenario" in rp else []
            timing = [tuple(rp["timing"])] if "timing" in rp else []
        else:
            n = 150 * (12 if tier == "thorough" else 1)
            rc, gen = C.sh([C.MRUN, "block-gen", str(seed), str(n)], timeout=900)
            scns = list(DIRECTED)
            for l in gen.splitlines():
                t = l.split()
                if len(t) >= 5 and t[0] == "BSCN":
                    scns.append((t[1], t[2], t[3], t[4]))
            stats["generated"] = len(scns) - len(DIRECTED)
            stats["directed"] = len(DIRECTED)
            timing = list(TIMING)
        stats["scenarios"] = len(scns)
        # --- implementation
        shards = 8
        files = []
        for j in range(shards):
            part = scns[j::shards]
            if part:
                p = os.path.join(d, "impl.%d.scn" % j)
                with open(p, "w") as f:
                    for s in part:
                        f.write("BSCN %s %s %s %s\n" % s)
                files.append(p)

        def one(p):
            r = subprocess.run([C.VH, "block", "--in", p], capture_output=True, text=True, timeout=1800, env=C.go_env())
            return r.stdout
        obs = {}
        with ThreadPoolExecutor(max_workers=shards) as ex:
            for o in ex.map(one, files):
                obs.update(parse_lines(o, "BOBS"))
        # --- the model replays what was observed
        mp = os.path.join(d, "model.scn")
        with open(mp, "w") as f:
            for (sid, ls, cs, sc) in scns:
                if sid in obs:
                    f.write("BSCN %s %s %s %s\n" % (sid, ls, cs, obs[sid].get("sched", "-")))
        rc, mo = C.sh([C.MRUN, "block-run", mp], timeout=1800)
        model = parse_lines(mo, "BOUT")
        reported = set()
        for scn in scns:
            (sid, ls, cs, sc) = scn
            if sid not in obs or sid not in model:
                out.violation({"property": PID, "broken": "harness or model produced no outcome", "scenario": list(scn)}, nofail=True)
                continue
            ob, mo_ = obs[sid], model[sid]
            stats["steps"] += len(sc.split(","))
            for c in cs.split(","):
                dist[c.split(":")[0]] = dist.get(c.split(":")[0], 0) + 1
            stats["fires"] += sum(1 for o in sc.split(",") if o.startswith("f"))
            stats["fire_took_wakeup"] += sum(1 for a, b in zip(sc.split(","), ob.get("sched", "").split(",")) if a.startswith("f") and b.startswith("r"))
            stats["null_replies"] += ob["replies"].count("Bnil")
            stats["delivered"] += sum(1 for x in ob["replies"].split(",") if ":B" in x and "Bnil" not in x)
            stats["sleepers_at_end"] += ob["notdone"].count("select")
            verdicts = judge(scn, ob)
            mline = " ".join(x for x in mo_["line"].split() if not x.startswith("BADSTEP"))
            diverged = (ob["line"].split(" STUCK")[0].split(" PANIC")[0] != mline) or "BADSTEP" in mo_ or "STUCK" in ob or "PANIC" in ob
            if diverged:
                stats["model_diffs"] += 1
            replay_obj = {"property": PID, "scenario": list(scn),
                          "readable": ["lists %s" % ls, "threads %s" % cs, "schedule %s (r<t> run thread t to its next point, f<t> fire its timer, t<d> d ms pass)" % sc],
                          "implementation": ob["line"], "observed_schedule": ob.get("sched"), "model": mo_["line"],
                          "replay_cmd": "bin/check C18 --replay <this file>"}
            for (sig, text) in verdicts:
                if sig in known and not diverged:
                    confirmed.setdefault(sig, text)
                elif sig not in reported:
                    reported.add(sig)
                    out.violation(dict(replay_obj, signature=sig, what=text,
                                       reason="implementation left the model and violates the property" if diverged
                                       else "the property is violated on this schedule (the implementation agrees with the model)"))
            if diverged and not verdicts and "corr" not in reported:
                reported.add("corr")
                out.violation(dict(replay_obj, broken="correspondence thread model/implementation (coq/Model/Block.v vs list.go, tx.go)",
                                   theorems_no_longer_about_the_code=pf["theorems"]), nofail=True)
            if len(samples) < 4 and sid.startswith("g"):
                samples.append(["lists " + ls, "threads " + cs, "schedule " + sc[:80], "outcome " + ob["line"]])
        # --- real time
        if timing:
            tp = os.path.join(d, "timing.scn")
            with open(tp, "w") as f:
                for c in timing:
                    f.write("BTIME %s %s %s %s\n" % c)
            # one process per case, all at once: the zero-timeout cases take 1.5 s each
            def tone(c):
                p = os.path.join(d, "timing.%s.scn" % c[0])
                with open(p, "w") as f:
                    f.write("BTIME %s %s %s %s\n" % c)
                r = subprocess.run([C.VH, "block", "--in", p], capture_output=True, text=True, timeout=120, env=C.go_env())
                return r.stdout
            tobs = {}
            with ThreadPoolExecutor(max_workers=4) as ex:
                for o in ex.map(tone, timing):
                    tobs.update(parse_lines(o, "BTOBS"))
            for c in timing:
                stats["timing_cases"] += 1
                why = judge_timing(c, tobs.get(c[0], {}))
                if why and "BLOCK/timing" not in reported:
                    reported.add("BLOCK/timing")
                    out.violation({"property": PID, "timing": list(c), "signature": "BLOCK/timing", "what": why,
                                   "readable": ["%s with timeout %s s%s" % (c[1], c[2], "" if c[3] == "-" else ", RPUSH tk a b after %s ms" % c[3])],
                                   "implementation": tobs.get(c[0], {}).get("line", "no output"),
                                   "replay_cmd": "bin/check C18 --replay <this file>"})
        # --- exploration with real goroutines and real timers (what the schedule points cannot separate)
        if not replay or "blockstress" in (json.load(open(replay)) if replay else {}):
            seeds = [json.load(open(replay))["blockstress"]] if replay else list(range(seed * 10, seed * 10 + (40 if tier == "thorough" else 6)))
            stats["stress_rounds"] = 0
            for sd in seeds:
                rc, o = C.sh([C.VH, "blockstress", "--seed", str(sd), "--rounds", "1500" if tier == "thorough" else "600"], env=C.go_env(), timeout=300)
                line = next((l for l in o.splitlines() if l.startswith("BSTRESS")), "BSTRESS crashed " + o[-400:].replace("\n", " | "))
                f = dict(x.split("=", 1) for x in line.split()[2:] if "=" in x)
                stats["stress_rounds"] += int(f.get("rounds", 0))
                if line.split()[1] != "ok" and "BLOCK/stress" not in reported:
                    reported.add("BLOCK/stress")
                    out.violation({"property": PID, "blockstress": sd, "signature": "BLOCK/stress",
                                   "what": f.get("what", line).replace("_", " "),
                                   "readable": ["vh blockstress --seed %d: rounds of 1-3 BLPOP/BRPOP consumers (timeouts 1-5 ms, one or two keys), 1-3 RPUSH producers pushing around the moment the timeouts fire, a plain LPOP; real goroutines, real timers" % sd],
                                   "replay_cmd": "bin/check C18 --replay <this file>"})
        for sig in sorted(confirmed):
            out.known_confirmed.append(known[sig])
        cov["evaluations"] = stats["steps"]
        cov["distinct_nontrivial"] = len(set((s[1], s[2], s[3]) for s in scns if len(s[3].split(",")) >= 4))
        cov["rule"] = ("evaluations = schedule steps forced on the implementation; distinct = distinct scenarios (initial lists, 2-5 threads, schedule of at least 4 steps) "
                       "whose outcome on the implementation was replayed on the extracted model and judged (stuck / panic / conservation / early null / lost wake-up)")
        cov["samples"] = samples or [list(s) for s in scns[:2]]
        cov["traces_validated_against_impl"] = len([s for s in scns if s[0] in obs])
        cov["input_distribution"] = dist
        cov["stats"] = stats
        cov["exhaustive"] = False
    finally:
        C.sh(["rm", "-rf", d])
    return out.finish()
