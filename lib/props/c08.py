"""C08: MULTI/EXEC runs the queue exactly once, in order, isolated - or not at all."""
from .. import multiwatch


def run(tier, seed, replay=None):
    return multiwatch.run("C08", tier, seed, replay)
