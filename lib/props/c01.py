"""C01: strings and keyspace follow sequential Redis semantics, byte-exact."""
from .. import dataplane

CMDS = {"SET", "GET", "GETSET", "SETNX", "SETEX", "MSET", "MGET", "APPEND", "STRLEN", "GETRANGE", "SETRANGE",
        "INCR", "DECR", "INCRBY", "DECRBY", "INCRBYFLOAT", "SETBIT", "GETBIT", "BITCOUNT", "DEL", "UNLINK",
        "EXISTS", "TYPE", "RENAME", "RENAMENX", "KEYS", "DBSIZE", "FLUSHDB", "FLUSHALL"}


def run(tier, seed, replay=None):
    return dataplane.run(
        "C01", tier, seed, replay,
        batches_quick=[("str", "mem", 50, 40), ("str", "peb", 12, 30)],
        batches_thorough=[("str", "mem", 1500, 60), ("str", "peb", 300, 40), ("mixed", "mem", 500, 60)],
        relevant_cmds=CMDS,
        assumptions=["RANDOMKEY and the embedded-API entry points are exercised through the RESP handlers only (same API functions underneath)",
                     "integer-literal grammar corners (+5, 007) and float-valued strings are modelled, not judged"])
